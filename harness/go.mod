module verifharness

go 1.26.5

require (
	github.com/vechain/thor/v2 v2.0.0
	pgregory.net/rapid v1.3.0
	github.com/ProjectZKM/Ziren/crates/go-runtime/zkvm_runtime v0.0.0-20260311194731-d5b7577c683d
	github.com/aristanetworks/goarista v0.0.0-20180222005525-c41ed3986faa
	github.com/beevik/ntp v0.2.0
	github.com/beorn7/perks v1.0.1
	github.com/bits-and-blooms/bitset v1.20.0
	github.com/cespare/cp v1.1.1
	github.com/cespare/xxhash/v2 v2.2.0
	github.com/consensys/gnark-crypto v0.18.1
	github.com/davecgh/go-spew v1.1.1
	github.com/deckarep/golang-set v1.7.1
	github.com/decred/dcrd/dcrec/secp256k1/v4 v4.4.0
	github.com/dlclark/regexp2 v1.7.0
	github.com/dop251/goja v0.0.0-20230707174833-636fdf960de1
	github.com/elastic/gosigar v0.10.5
	github.com/ethereum/go-ethereum v1.8.14
	github.com/fatih/color v1.7.0
	github.com/felixge/httpsnoop v1.0.1
	github.com/go-sourcemap/sourcemap v2.1.3+incompatible
	github.com/go-stack/stack v1.7.0
	github.com/golang/snappy v0.0.4
	github.com/google/gofuzz v1.2.0
	github.com/google/pprof v0.0.0-20230207041349-798e818bf904
	github.com/gorilla/handlers v1.5.1
	github.com/gorilla/mux v1.8.1
	github.com/gorilla/websocket v1.4.1
	github.com/hashicorp/golang-lru v0.0.0-20160813221303-0a025b7e63ad
	github.com/holiman/uint256 v1.2.4
	github.com/huin/goupnp v0.0.0-20171109214107-dceda08e705b
	github.com/jackpal/go-nat-pmp v1.0.2-0.20160603034137-1fa385a6f458
	github.com/mattn/go-colorable v0.0.9
	github.com/mattn/go-isatty v0.0.3
	github.com/mattn/go-runewidth v0.0.4
	github.com/mattn/go-sqlite3 v1.14.22
	github.com/mattn/go-tty v0.0.0-20180219170247-931426f7535a
	github.com/matttproud/golang_protobuf_extensions/v2 v2.0.0
	github.com/pborman/uuid v0.0.0-20170612153648-e790cca94e6c
	github.com/pkg/errors v0.8.1-0.20171216070316-e881fd58d78e
	github.com/pmezard/go-difflib v1.0.0
	github.com/prometheus/client_golang v1.18.0
	github.com/prometheus/client_model v0.5.0
	github.com/prometheus/common v0.45.0
	github.com/prometheus/procfs v0.12.0
	github.com/qianbin/directcache v0.9.7
	github.com/qianbin/drlp v0.0.0-20240102101024-e0e02518b5f9
	github.com/rjeczalik/notify v0.9.3
	github.com/stretchr/testify v1.11.1
	github.com/syndtr/goleveldb v1.0.1-0.20220614013038-64ee5596c38a
	github.com/urfave/cli/v3 v3.6.1
	github.com/vechain/go-ecvrf v0.0.0-20251211112124-5d5a3ef70fc9
	golang.org/x/crypto v0.52.0
	golang.org/x/net v0.55.0
	golang.org/x/sync v0.20.0
	golang.org/x/sys v0.45.0
	golang.org/x/text v0.37.0
	google.golang.org/protobuf v1.33.0
	gopkg.in/cheggaaa/pb.v1 v1.0.28
	gopkg.in/karalabe/cookiejar.v2 v2.0.0-20150724131613-8dcd6a7f4951
	gopkg.in/yaml.v3 v3.0.1
)

replace github.com/vechain/thor/v2 => /repo

replace github.com/syndtr/goleveldb => github.com/vechain/goleveldb v1.0.1-0.20220809091043-51eb019c8655

replace github.com/ethereum/go-ethereum => github.com/vechain/go-ethereum v1.8.15-0.20260324060835-4fc778eca93e

