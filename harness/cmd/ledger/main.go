// ledger records one Block event per block of real chains for Trace_Ledger.tla (C08).
//
//	ledger -out <dir> -seed S -profiles pre,boundary,post,pos,hayabusa -blocks K
//
// Chains are built by the real packer (sim.Net.MintLoose on the omniscient stack) from generated transaction mixes and
// imported by a real node (consensus validation). After every block the driver walks EVERY leaf of the account trie of
// the parent state and of the new state and sums balance and energy; energy is evaluated at the NEW block's time with a
// reference implementation of the growth formula (not state.Account.CalcEnergy), so growth cancels and
// total-after - total-before is exactly what the block's transactions and the block reward did.
package main

import (
	"crypto/ecdsa"
	"encoding/hex"
	"encoding/json"
	"flag"
	"fmt"
	"math"
	"math/big"
	"math/rand"
	"os"
	"path/filepath"
	"sort"
	"strings"

	"github.com/ethereum/go-ethereum/rlp"

	"github.com/vechain/thor/v2/block"
	"github.com/vechain/thor/v2/builtin"
	"github.com/vechain/thor/v2/chain"
	"github.com/vechain/thor/v2/consensus/upgrade/galactica"
	"github.com/vechain/thor/v2/genesis"
	"github.com/vechain/thor/v2/state"
	"github.com/vechain/thor/v2/thor"
	"github.com/vechain/thor/v2/trie"
	"github.com/vechain/thor/v2/tx"

	"verifharness/internal/sim"
	"verifharness/internal/trace"
)

func must(err error) {
	if err != nil {
		panic(err)
	}
}

// ioMust: trouble with the harness' own files or with decoding what it just read is infrastructure (exit 3)
func ioMust(err error) {
	if err != nil {
		harnessError("i/o: %v", err)
	}
}

func harnessError(f string, a ...any) {
	fmt.Println("HARNESS-ERROR " + fmt.Sprintf(f, a...))
	os.Exit(3)
}

var (
	e18 = big.NewInt(1e18)
	vet = func(n int64) *big.Int { return new(big.Int).Mul(big.NewInt(n), e18) }
)

func limbs(v *big.Int) []int { return trace.Limbs(v) }

// ---------------------------------------------------------------------------------------------------- sums

type totals struct {
	vet, vtho *big.Int
	leaves    int
	exists    map[thor.Bytes32]bool     // hashed account keys present
	energy    map[thor.Bytes32]*big.Int // energy at t per hashed account key (reference growth formula)
}

func rawSlot(st *state.State, addr thor.Address, key thor.Bytes32) []byte {
	raw, err := st.GetRawStorage(addr, key)
	must(err)
	return raw
}

// stopTime reads the energy growth stop time straight from the energy contract's storage (MaxUint64 if unset).
func stopTime(st *state.State) uint64 {
	raw := rawSlot(st, builtin.Energy.Address, thor.Blake2b([]byte("growth-stop-time")))
	if len(raw) == 0 {
		return math.MaxUint64
	}
	var t uint64
	ioMust(rlp.DecodeBytes(raw, &t))
	if t == 0 {
		return math.MaxUint64
	}
	return t
}

func issued(st *state.State) *big.Int {
	raw := rawSlot(st, builtin.Energy.Address, thor.Blake2b([]byte("issued")))
	v := new(big.Int)
	if len(raw) > 0 {
		ioMust(rlp.DecodeBytes(raw, &v))
	}
	return v
}

// refEnergy: reference growth formula. energy + floor((min(t, stop) - last) * balance * 5e9 / 1e18), when the account has
// been touched (last != 0), holds VET, t > last and last < stop.
func refEnergy(a *state.Account, t, stop uint64) *big.Int {
	e := new(big.Int).Set(a.Energy)
	if a.BlockTime == 0 || a.Balance.Sign() == 0 || t <= a.BlockTime || a.BlockTime >= stop {
		return e
	}
	end := t
	if stop < end {
		end = stop
	}
	g := new(big.Int).SetUint64(end - a.BlockTime)
	g.Mul(g, a.Balance)
	g.Mul(g, big.NewInt(5_000_000_000))
	g.Div(g, e18)
	return e.Add(e, g)
}

func sumState(n *sim.Net, root trie.Root, t uint64) totals {
	st := n.God.Stater.NewState(root)
	stop := stopTime(st)
	tot := totals{vet: new(big.Int), vtho: new(big.Int), exists: map[thor.Bytes32]bool{}, energy: map[thor.Bytes32]*big.Int{}}
	must(sim.WalkAccounts(n.God.DB, root, func(l *sim.Leaf) error {
		tot.vet.Add(tot.vet, l.Acc.Balance)
		e := refEnergy(&l.Acc, t, stop)
		tot.vtho.Add(tot.vtho, e)
		tot.energy[l.Key] = e
		tot.leaves++
		tot.exists[l.Key] = true
		return nil
	}))
	return tot
}

// ---------------------------------------------------------------------------------------------------- generator

type gen struct {
	net      *sim.Net
	rng      *rand.Rand
	prof     string
	tag      byte
	U        *thor.Address    // universal contract (after deployment)
	U2       *thor.Address    // second instance, to be self-destructed to a third party
	SDS      *thor.Address    // ADDRESS SELFDESTRUCT contract (finding F3)
	UZ       *thor.Address    // U instance holding VTHO but ZERO VET, self-destructed to a third party
	UV       *thor.Address    // U instance holding VET but never given VTHO, self-destructed to the tx origin
	UF       [2]*thor.Address // zero-VET, zero-VTHO U instances: funded and destroyed within ONE tx (VET but exactly no VTHO at the destruct)
	UP       *thor.Address    // "poor" U instance: credit plan and a user, but no energy and no sponsor -> the ORIGIN pays although commonTo/credit apply
	US       *thor.Address    // "sleeper" U instance: holds VET, untouched from block 1 until well after HAYABUSA, then forwards VET
	stats    map[string]int
	limit    uint64 // gas limit of the block being generated
	gasLimit uint64
}

func (g *gen) key(i int) *ecdsa.PrivateKey { return g.net.Devs[i].PrivateKey }
func (g *gen) addr(i int) thor.Address     { return g.net.Devs[i].Address }

type txOpt struct {
	gas       uint64
	delegator int // dev index, -1 none
	legacy    bool
	lowFee    bool
}

// mk builds and signs a transaction for the block after parent.
func (g *gen) mk(parent *chain.BlockSummary, origin int, o txOpt, clauses ...*tx.Clause) *tx.Transaction {
	num := parent.Header.Number() + 1
	typ := tx.TypeLegacy
	baseFee := galactica.CalcBaseFee(parent.Header, g.net.FC) // only to choose sensible fee caps for the generated tx
	if num >= g.net.FC.GALACTICA && !o.legacy && g.rng.Intn(2) == 0 {
		typ = tx.TypeDynamicFee
	}
	b := tx.NewBuilder(typ).ChainTag(g.tag).BlockRef(tx.NewBlockRef(0)).Expiration(math.MaxUint32 / 2).Nonce(g.rng.Uint64())
	if o.gas == 0 {
		o.gas = 300_000
	}
	b.Gas(o.gas)
	for _, c := range clauses {
		b.Clause(c)
	}
	if typ == tx.TypeDynamicFee {
		prio := big.NewInt(int64(g.rng.Intn(4)) * 700_000_000_000)
		fee := new(big.Int).Set(baseFee)
		switch g.rng.Intn(4) {
		case 0: // cap exactly at the base fee: no tip possible
		case 1: // cap between base fee and base fee + tip
			fee.Add(fee, big.NewInt(350_000_000_000))
		default:
			fee.Mul(fee, big.NewInt(2))
			fee.Add(fee, prio)
		}
		if o.lowFee {
			fee.Sub(baseFee, big.NewInt(1+int64(g.rng.Intn(1000))))
		}
		if prio.Cmp(fee) > 0 {
			prio.Set(fee)
		}
		b.MaxFeePerGas(fee).MaxPriorityFeePerGas(prio)
	} else {
		b.GasPriceCoef(uint8(g.rng.Intn(256)))
	}
	if o.delegator >= 0 {
		b.Features(tx.DelegationFeature)
		return tx.MustSignDelegated(b.Build(), g.key(origin), g.key(o.delegator))
	}
	return tx.MustSign(b.Build(), g.key(origin))
}

func call(to thor.Address, data []byte) *tx.Clause { return tx.NewClause(&to).WithData(data) }

func energyData(name string, args ...any) []byte {
	m, ok := builtin.Energy.ABI.MethodByName(name)
	if !ok {
		panic("no energy method " + name)
	}
	d, err := m.EncodeInput(args...)
	must(err)
	return d
}

func protoData(name string, args ...any) []byte {
	m, ok := builtin.Prototype.ABI.MethodByName(name)
	if !ok {
		panic("no prototype method " + name)
	}
	d, err := m.EncodeInput(args...)
	must(err)
	return d
}

func stakerData(name string, args ...any) []byte {
	m, ok := builtin.Staker.ABI.MethodByName(name)
	if !ok {
		panic("no staker method " + name)
	}
	d, err := m.EncodeInput(args...)
	must(err)
	return d
}

func paramsData(name string, args ...any) []byte {
	m, ok := builtin.Params.ABI.MethodByName(name)
	if !ok {
		panic("no params method " + name)
	}
	d, err := m.EncodeInput(args...)
	must(err)
	return d
}

func w(n int64) *big.Int { return big.NewInt(n) }

// Dev roles: 0..2 validators (0 is also the executor), 3 deployer/master, 4 F3 caller, 5 credit user, 6 sponsor,
// 7 delegated-fee origin (fees paid by 3) / extra staker, 8 "delegator contract" stand-in (PoS), 9 spare.
// The re-entrant double SELFDESTRUCT pair (genesis contracts):
//
//	A: no calldata -> CALL B, then SELFDESTRUCT(R);  with calldata -> SELFDESTRUCT(R) at once
//	B: CALL A with one byte of calldata (A destructs while its outer frame is still running), send 1000 wei VET to A,
//	   energy.transfer(A, 7000): A is re-funded; back in A's outer frame the second SELFDESTRUCT must hand these over too
var (
	addrDA = thor.BytesToAddress([]byte("double-suicide-A"))
	addrDB = thor.BytesToAddress([]byte("double-suicide-B"))
)

func doubleSuicideCode(receiver thor.Address) (a, b []byte) {
	a = sim.Asm(fmt.Sprintf(" CALLDATASIZE @kill JUMPI 0 0 0 0 0 0x%x GAS CALL POP kill: 0x%x SELFDESTRUCT ", addrDB[:], receiver[:]))
	b = sim.Asm(fmt.Sprintf(" 0 0 1 0 0 0x%x GAS CALL POP 0 0 0 0 1000 0x%x GAS CALL POP ", addrDA[:], addrDA[:]) +
		sim.EnergyTransferSelector + fmt.Sprintf(" 224 SHL 0 MSTORE 0x%x 4 MSTORE 7000 36 MSTORE 0 0 68 0 0 0x%x GAS CALL POP STOP ",
		addrDA[:], builtin.Energy.Address[:]))
	return
}

// mine searches a nonce that gives the legacy tx proved work worth at least minGas gas (1000 work units per gas).
func (g *gen) mine(parent *chain.BlockSummary, origin int, to thor.Address, val *big.Int, minGas int64) *tx.Transaction {
	refID, err := g.net.God.Repo.NewChain(parent.Header.ID()).GetBlockID(parent.Header.Number() - 1)
	must(err)
	b := tx.NewBuilder(tx.TypeLegacy).ChainTag(g.tag).BlockRef(tx.NewBlockRefFromID(refID)).Expiration(1000).Gas(100_000).
		GasPriceCoef(uint8(g.rng.Intn(256))).Clause(tx.NewClause(&to).WithValue(val))
	eval := b.Build().EvaluateWork(g.addr(origin))
	need := new(big.Int).Mul(big.NewInt(minGas), big.NewInt(1000))
	nonce := g.rng.Uint64()
	for eval(nonce).Cmp(need) < 0 {
		nonce++
	}
	return tx.MustSign(b.Nonce(nonce).Build(), g.key(origin))
}

// sleeper i: a key-less account that receives VET before HAYABUSA and is not touched again until well after it
func sleeper(i int) thor.Address {
	return thor.BytesToAddress(thor.Blake2b([]byte(fmt.Sprint("sleeper", i))).Bytes())
}

func (g *gen) blockTxs(parent *chain.BlockSummary, step int, full bool) []*tx.Transaction {
	var txs []*tx.Transaction
	add := func(kind string, ts ...*tx.Transaction) { txs = append(txs, ts...); g.stats[kind] += len(ts) }
	none := txOpt{delegator: -1}
	num := parent.Header.Number() + 1
	switch step {
	case 1:
		add("create", g.mk(parent, 3, txOpt{gas: 1_500_000, delegator: -1}, tx.NewClause(nil).WithData(sim.InitCode(sim.UCode(), w(1), w(2)))))
		add("create", g.mk(parent, 4, txOpt{gas: 300_000, delegator: -1}, tx.NewClause(nil).WithData(sim.InitCode(sim.SelfDestructSelfCode(), nil, nil))))
		add("create", g.mk(parent, 9, txOpt{gas: 1_500_000, delegator: -1}, tx.NewClause(nil).WithValue(vet(3)).WithData(sim.InitCode(sim.UCode(), nil, nil))))
		add("create", g.mk(parent, 5, txOpt{gas: 1_500_000, delegator: -1}, tx.NewClause(nil).WithData(sim.InitCode(sim.UCode(), nil, nil))))
		add("create", g.mk(parent, 6, txOpt{gas: 1_500_000, delegator: -1}, tx.NewClause(nil).WithValue(vet(2)).WithData(sim.InitCode(sim.UCode(), nil, nil))))
		add("create", g.mk(parent, 7, txOpt{gas: 1_500_000, delegator: -1}, tx.NewClause(nil).WithValue(vet(50)).WithData(sim.InitCode(sim.UCode(), nil, nil))))
		add("create", g.mk(parent, 8, txOpt{gas: 1_500_000, delegator: -1}, tx.NewClause(nil).WithData(sim.InitCode(sim.UCode(), w(3), w(4)))))
		add("create", g.mk(parent, 3, txOpt{gas: 1_500_000, delegator: -1}, tx.NewClause(nil).WithData(sim.InitCode(sim.UCode(), nil, nil))))
		add("create", g.mk(parent, 4, txOpt{gas: 1_500_000, delegator: -1}, tx.NewClause(nil).WithData(sim.InitCode(sim.UCode(), nil, nil))))
		return txs
	case 2:
		if g.U == nil || g.SDS == nil || g.U2 == nil || g.UZ == nil || g.UV == nil || g.US == nil || g.UP == nil {
			harnessError("contracts were not deployed in block 1")
		}
		add("energy", g.mk(parent, 3, none, call(builtin.Energy.Address, energyData("transfer", *g.U, vet(5000))),
			call(builtin.Energy.Address, energyData("transfer", *g.SDS, w(777))),
			call(builtin.Energy.Address, energyData("transfer", *g.U2, w(4242))),
			call(builtin.Energy.Address, energyData("transfer", *g.UZ, w(5555)))))
		add("creditplan", g.mk(parent, 3, none, call(builtin.Prototype.Address, protoData("setCreditPlan", *g.U, vet(2000), w(1_000_000_000_000_000))),
			call(builtin.Prototype.Address, protoData("addUser", *g.U, g.addr(5))),
			call(builtin.Prototype.Address, protoData("addUser", *g.U, g.addr(6))))) // the sponsor is also a user: sponsor = origin
		add("sponsor", g.mk(parent, 6, none, call(builtin.Prototype.Address, protoData("sponsor", *g.U))))
		add("creditplan-poor", g.mk(parent, 8, none, call(builtin.Prototype.Address, protoData("setCreditPlan", *g.UP, vet(2000), w(1_000_000_000_000_000))),
			call(builtin.Prototype.Address, protoData("addUser", *g.UP, g.addr(5)))))
		return txs
	case 3:
		add("selectsponsor", g.mk(parent, 3, none, call(builtin.Prototype.Address, protoData("selectSponsor", *g.U, g.addr(6)))))
		// finding F3: value sent to a contract that self-destructs naming itself as beneficiary
		add("f3", g.mk(parent, 4, none, tx.NewClause(g.SDS).WithValue(w(1_000_000+int64(g.rng.Intn(1000))))))
		return txs
	}
	// ---- blocks with exactly one purpose ------------------------------------------------------------------------
	switch {
	case step == 14 && full:
		// gas used == gas target EXACTLY (limit not divisible by 100): looping calls burn all their gas
		target := g.limit * 75 / 100
		per := target / 4
		for i := 0; i < 4; i++ {
			gas := per
			if i == 3 {
				gas = target - 3*per
			}
			add("burn-exact", g.mk(parent, 3+i, txOpt{gas: gas, delegator: -1}, call(*g.U, sim.UCall(sim.OpLoop, w(int64(900+i)), w(1)))))
		}
		return txs
	case step == 18:
		// the executor changes the reward ratio: alone in its block, so that every tx of a block sees one value
		add("set-ratio", g.mk(parent, 0, none, call(builtin.Params.Address, paramsData("set", thor.KeyRewardRatio, new(big.Int).Mul(big.NewInt(4), big.NewInt(1e17))))))
		return txs
	case step == 24:
		add("set-baseprice", g.mk(parent, 0, none, call(builtin.Params.Address, paramsData("set", thor.KeyLegacyTxBaseGasPrice, big.NewInt(2e15)))))
		return txs
	}
	// ---- deterministic shapes (every profile) -------------------------------------------------------------------
	proposer := step % 3
	if step == 10 || step == 21 || (step > 30 && step%9 == 0) {
		// the user has credit at a contract that cannot pay and has no sponsor: the origin pays, and the refund is the origin's
		add("credit-user-pays-himself", g.mk(parent, 5, none, call(*g.UP, sim.UCall(sim.OpStore, w(int64(step)), w(1)))))
	}
	if (step == 12 || step == 13) && g.UF[step-12] != nil {
		// fund and destroy in ONE tx: at the SELFDESTRUCT the contract holds VET but exactly zero VTHO. The receiver is an
		// OLD account with pending growth: a sleeper (untouched since block 4) / the beneficiary of this block (first tx)
		to := sleeper(1)
		if step == 13 {
			to = g.addr(proposer)
		}
		u := g.UF[step-12]
		txs = append([]*tx.Transaction{g.mk(parent, 9, txOpt{gas: 400_000, delegator: -1},
			tx.NewClause(u).WithValue(vet(3)), call(*u, sim.UCall(sim.OpDestroy, sim.AddrWord(to))))}, txs...)
		g.stats["fund-and-destroy"]++
		g.UF[step-12] = nil
	}
	if step == 9 {
		// re-entrant double SELFDESTRUCT inside one clause
		add("double-suicide", g.mk(parent, 4, txOpt{gas: 400_000, delegator: -1}, tx.NewClause(&addrDA)))
	}
	if step == 9 || step == 19 || step == 26 {
		// a legacy tx with PROVED WORK (the nonce is mined against a real block reference)
		add("mined", g.mine(parent, 3+step%4, g.addr(step%10), w(int64(1000+step)), 20))
	}
	switch {
	case step == 4:
		// sleepers receive VET before any fork of the profile and are then left alone
		var cl []*tx.Clause
		for i := 0; i < 4; i++ {
			cl = append(cl, tx.NewClause(ptr(sleeper(i))).WithValue(vet(int64(1000*(i+1)))))
		}
		add("sleeper-fund", g.mk(parent, 9, none, cl...))
	case step == 7 && g.UZ != nil:
		// zero VET, non-zero VTHO: the energy must reach the beneficiary (dev 8)
		add("sd-zero-vet", g.mk(parent, 5, none, call(*g.UZ, sim.UCall(sim.OpDestroy, sim.AddrWord(g.addr(8))))))
		g.UZ = nil
	case step == 8 && g.UV != nil:
		// VET but no VTHO given (zero VTHO once growth has stopped); beneficiary = the tx origin = gas payer
		add("sd-to-origin", g.mk(parent, 6, none, call(*g.UV, sim.UCall(sim.OpDestroy, sim.AddrWord(g.addr(6))))))
		g.UV = nil
	case step == 16:
		// long after the forks: VET to a sleeper (recipient untouched since block 4) and VET OUT of the sleeper contract
		add("sleeper-wake", g.mk(parent, 9, none, tx.NewClause(ptr(sleeper(0))).WithValue(vet(77))))
		add("sleeper-forward", g.mk(parent, 4, none, call(*g.US, sim.UCall(sim.OpSend, sim.AddrWord(sleeper(1)), vet(5)))))
	case step == 22:
		add("sleeper-wake", g.mk(parent, 9, none, tx.NewClause(ptr(sleeper(2))).WithValue(vet(3))))
	case step == 30:
		add("sleeper-wake", g.mk(parent, 4, none, call(*g.U, sim.UCall(sim.OpSend, sim.AddrWord(sleeper(3)), w(12345))).WithValue(w(12345))))
	case step > 30 && step%40 == 0:
		// thorough tier: new sleepers keep being created and woken 20 blocks later
		add("sleeper-fund", g.mk(parent, 9, none, tx.NewClause(ptr(sleeper(step))).WithValue(vet(9))))
	case step > 60 && step%40 == 20:
		add("sleeper-wake", g.mk(parent, 4, none, tx.NewClause(ptr(sleeper(step-20))).WithValue(vet(1))))
	}
	if step > 8 && step%5 == 0 {
		// the proposer of this block is the origin and gas payer: payer = beneficiary
		add("proposer-origin", g.mk(parent, proposer, none, tx.NewClause(ptr(g.addr(9))).WithValue(w(int64(step)))))
	}
	if step == 6 && g.U2 != nil {
		// deterministic: a self-destruct naming a THIRD party as beneficiary (conserving): balance and energy move to dev 8
		add("sd-other", g.mk(parent, 9, txOpt{delegator: -1}, call(*g.U2, sim.UCall(sim.OpDestroy, sim.AddrWord(g.addr(8))))))
		g.U2 = nil
	}
	if g.prof == "pos" || g.prof == "hayabusa" || g.prof == "evict" {
		// deterministic: name dev 8 as the "delegator contract", then delegate to every validator so that the block reward
		// is split between validator and delegators once the delegations lock (next staking period)
		gas := txOpt{gas: 800_000, delegator: -1}
		if step == 4 {
			add("setDelegator", g.mk(parent, 0, gas, call(builtin.Params.Address, paramsData("set", thor.KeyDelegatorContractAddress, new(big.Int).SetBytes(g.addr(8).Bytes())))))
		}
		at := func(pos, hay int) bool {
			return (g.prof == "pos" && step == pos) || (g.prof == "hayabusa" && step == hay)
		}
		switch {
		case at(13, 25):
			add("signalExit", g.mk(parent, 2, gas, call(builtin.Staker.Address, stakerData("signalExit", g.addr(2)))))
		case at(15, 27):
			add("signalDelegationExit", g.mk(parent, 8, gas, call(builtin.Staker.Address, stakerData("signalDelegationExit", big.NewInt(1)))),
				g.mk(parent, 8, gas, call(builtin.Staker.Address, stakerData("signalDelegationExit", big.NewInt(3)))))
		case at(28, 41), at(34, 44):
			add("withdrawDelegation", g.mk(parent, 8, gas, call(builtin.Staker.Address, stakerData("withdrawDelegation", big.NewInt(1)))),
				g.mk(parent, 8, gas, call(builtin.Staker.Address, stakerData("withdrawDelegation", big.NewInt(3)))))
			add("withdrawStake-exited", g.mk(parent, 2, gas, call(builtin.Staker.Address, stakerData("withdrawStake", g.addr(2)))))
		}
		if g.prof == "evict" && step >= 14 && step%6 == 2 {
			// the validator that never produces gets evicted; later its stake becomes withdrawable
			add("withdrawStake-evicted", g.mk(parent, 2, gas, call(builtin.Staker.Address, stakerData("withdrawStake", g.addr(2)))))
		}
		if (g.prof == "pos" && step == 12) || (g.prof == "hayabusa" && step == 20) {
			// validator 1 names the delegator contract stand-in as its beneficiary: one address in two roles
			add("setBeneficiary", g.mk(parent, 1, gas, call(builtin.Staker.Address, stakerData("setBeneficiary", g.addr(1), g.addr(8)))))
		}
		if ((g.prof == "pos" || g.prof == "evict") && step == 5) || (g.prof == "hayabusa" && step == 11) {
			for v := 0; v < 3; v++ {
				add("addDelegation", g.mk(parent, 8, gas, call(builtin.Staker.Address, stakerData("addDelegation", g.addr(v), uint8(100+50*v))).WithValue(vet(int64(1_000_000*(v+1))))))
			}
		}
	}
	if full {
		// burn gas: looping calls use all their gas (reverted txs); fills the block above the 75 % target
		per := g.gasLimit / 4
		for i := 0; i < 4; i++ {
			add("burn", g.mk(parent, 3+i, txOpt{gas: per - uint64(g.rng.Intn(1000)), delegator: -1}, call(*g.U, sim.UCall(sim.OpLoop, w(int64(900+i)), w(1)))))
		}
		return txs
	}
	k := g.rng.Intn(6)
	for i := 0; i < k; i++ {
		slot := int64(10 + g.rng.Intn(6))
		val := w(int64(1 + g.rng.Intn(1_000_000)))
		who := 3 + g.rng.Intn(7)
		switch g.rng.Intn(22) {
		case 16: // same address in two roles / degenerate amounts
			switch g.rng.Intn(7) {
			case 0:
				add("vet-self", g.mk(parent, who, none, tx.NewClause(ptr(g.addr(who))).WithValue(val)))
			case 1:
				add("vet-zero", g.mk(parent, who, none, tx.NewClause(ptr(g.addr(g.rng.Intn(10))))))
			case 2:
				add("energy-self", g.mk(parent, who, none, call(builtin.Energy.Address, energyData("transfer", g.addr(who), val))))
			case 3:
				add("energy-zero", g.mk(parent, who, none, call(builtin.Energy.Address, energyData("transfer", g.addr(g.rng.Intn(10)), w(0)))))
			case 4:
				add("energy-to-energy", g.mk(parent, who, none, call(builtin.Energy.Address, energyData("transfer", builtin.Energy.Address, val))))
			case 5:
				add("vet-to-builtin", g.mk(parent, who, none, tx.NewClause(&builtin.Energy.Address).WithValue(val)))
			case 6:
				add("energy-to-beneficiary", g.mk(parent, who, none, call(builtin.Energy.Address, energyData("transfer", g.addr(proposer), val))))
			}
		case 17:
			add("delegated-self", g.mk(parent, 7, txOpt{delegator: 7}, tx.NewClause(ptr(g.addr(2))).WithValue(val)))
		case 18: // the sponsor itself is the user: sponsor = origin (or U pays when it is not sponsoring)
			add("sponsor-is-origin", g.mk(parent, 6, none, call(*g.U, sim.UCall(sim.OpStore, w(slot), val))))
		case 19: // value to the beneficiary of this block / from the proposer
			add("vet-to-beneficiary", g.mk(parent, who, none, tx.NewClause(ptr(g.addr(proposer))).WithValue(val)))
		case 20: // U forwards value to the payer of the tx and energy to the block beneficiary
			add("forward-to-origin", g.mk(parent, who, txOpt{gas: 400_000, delegator: -1},
				call(*g.U, sim.UCall(sim.OpSend, sim.AddrWord(g.addr(who)), val)).WithValue(val),
				call(*g.U, sim.UCall(sim.OpEnergy, sim.AddrWord(g.addr(proposer)), val))))
		case 21: // a create whose constructor reverts, with value attached
			add("create-revert", g.mk(parent, who, txOpt{gas: 200_000, delegator: -1}, tx.NewClause(nil).WithValue(val).WithData(sim.RevertingInitCode(w(slot), val))))
		case 0:
			add("vet", g.mk(parent, who, none, tx.NewClause(ptr(g.addr(g.rng.Intn(10)))).WithValue(new(big.Int).Mul(val, big.NewInt(1e12)))))
		case 1: // to a brand-new address
			a := thor.BytesToAddress(thor.Blake2b([]byte(fmt.Sprint("fresh", g.rng.Intn(5)))).Bytes())
			add("vet-new", g.mk(parent, who, none, tx.NewClause(&a).WithValue(val)))
		case 2:
			add("energy", g.mk(parent, who, none, call(builtin.Energy.Address, energyData("transfer", g.addr(g.rng.Intn(10)), new(big.Int).Mul(val, big.NewInt(1e9))))))
		case 3: // approve + transferFrom in two txs of the same block
			add("approve", g.mk(parent, 3, none, call(builtin.Energy.Address, energyData("approve", g.addr(9), vet(1)))))
			add("transferFrom", g.mk(parent, 9, none, call(builtin.Energy.Address, energyData("transferFrom", g.addr(3), g.addr(8), val))))
		case 4: // credit user calls U: paid by the sponsor or by U's own energy
			add("sponsored", g.mk(parent, 5, none, call(*g.U, sim.UCall(sim.OpStore, w(slot), val))))
		case 5:
			if g.rng.Intn(2) == 0 {
				add("unsponsor", g.mk(parent, 6, none, call(builtin.Prototype.Address, protoData("unsponsor", *g.U))))
			} else {
				add("sponsor", g.mk(parent, 6, none, call(builtin.Prototype.Address, protoData("sponsor", *g.U))))
			}
		case 6:
			add("delegated", g.mk(parent, 7, txOpt{delegator: 3}, call(*g.U, sim.UCall(sim.OpStore, w(slot), val)).WithValue(val)))
		case 7:
			op := []int{sim.OpRevert, sim.OpInvalid, sim.OpLoop, sim.OpNestDie}[g.rng.Intn(4)]
			add("reverting", g.mk(parent, who, txOpt{gas: 120_000, delegator: -1},
				tx.NewClause(ptr(g.addr(1))).WithValue(val),
				call(*g.U, sim.UCall(op, w(slot), val, sim.AddrWord(*g.U), w(sim.OpStore)))))
		case 8:
			add("create", g.mk(parent, who, txOpt{gas: 400_000, delegator: -1}, tx.NewClause(nil).WithValue(val).WithData(sim.InitCode([]byte{0x00}, w(slot), val))))
		case 9:
			add("multi", g.mk(parent, who, txOpt{gas: 500_000, delegator: -1},
				call(*g.U, sim.UCall(sim.OpStore, w(slot), val)).WithValue(val),
				call(*g.U, sim.UCall(sim.OpSend, sim.AddrWord(g.addr(g.rng.Intn(10))), val)),
				call(*g.U, sim.UCall(sim.OpEnergy, sim.AddrWord(g.addr(g.rng.Intn(10))), val)),
				call(*g.U, sim.UCall(sim.OpNest, w(slot+20), val, sim.AddrWord(*g.U), w(sim.OpRevert)))))
		case 10:
			add("clear", g.mk(parent, who, none, call(*g.U, sim.UCall(sim.OpClear, w(slot)))))
		case 11:
			add("lowfee", g.mk(parent, who, txOpt{delegator: -1, lowFee: true}, tx.NewClause(ptr(g.addr(2))).WithValue(val)))
		case 12: // self-destruct to a third party (conserving): the second U instance hands everything to dev 8
			if g.U2 != nil && g.rng.Intn(3) == 0 {
				add("sd-other", g.mk(parent, who, none, call(*g.U2, sim.UCall(sim.OpDestroy, sim.AddrWord(g.addr(8))))))
				g.U2 = nil
			}
		default:
			if g.prof == "pos" || g.prof == "hayabusa" || g.prof == "evict" {
				txs = append(txs, g.stakingTx(parent, num)...)
			} else {
				add("vet", g.mk(parent, who, none, tx.NewClause(ptr(g.addr(g.rng.Intn(10)))).WithValue(val)))
			}
		}
	}
	return txs
}

func ptr(a thor.Address) *thor.Address { return &a }

func (g *gen) stakingTx(parent *chain.BlockSummary, num uint32) []*tx.Transaction {
	none := txOpt{gas: 600_000, delegator: -1}
	var out []*tx.Transaction
	add := func(kind string, t *tx.Transaction) { out = append(out, t); g.stats[kind]++ }
	v := g.rng.Intn(3)
	switch g.rng.Intn(8) {
	case 0:
		add("increaseStake", g.mk(parent, v, none, call(builtin.Staker.Address, stakerData("increaseStake", g.addr(v))).WithValue(vet(int64(1_000_000*(1+g.rng.Intn(3)))))))
	case 1:
		add("decreaseStake", g.mk(parent, v, none, call(builtin.Staker.Address, stakerData("decreaseStake", g.addr(v), vet(500_000)))))
	case 2:
		add("withdrawStake", g.mk(parent, v, none, call(builtin.Staker.Address, stakerData("withdrawStake", g.addr(v)))))
	case 3: // a new validation by an outsider, queued
		m := thor.BytesToAddress(thor.Blake2b([]byte(fmt.Sprint("val", g.rng.Intn(3)))).Bytes())
		add("addValidation", g.mk(parent, 7, none, call(builtin.Staker.Address, stakerData("addValidation", m, thor.LowStakingPeriod())).WithValue(vet(25_000_000))))
	case 4: // and its withdrawal from the queue
		m := thor.BytesToAddress(thor.Blake2b([]byte(fmt.Sprint("val", g.rng.Intn(3)))).Bytes())
		add("withdrawQueued", g.mk(parent, 7, none, call(builtin.Staker.Address, stakerData("withdrawStake", m))))
	case 5:
		key := thor.KeyDelegatorContractAddress
		add("setDelegator", g.mk(parent, 0, none, call(builtin.Params.Address, paramsData("set", key, new(big.Int).SetBytes(g.addr(8).Bytes())))))
	case 6:
		add("addDelegation", g.mk(parent, 8, none, call(builtin.Staker.Address, stakerData("addDelegation", g.addr(v), uint8(100+50*g.rng.Intn(3)))).WithValue(vet(int64(1_000_000*(1+g.rng.Intn(2)))))))
	case 7:
		add("stake-bad", g.mk(parent, 9, none, call(builtin.Staker.Address, stakerData("increaseStake", g.addr(v))).WithValue(w(12345))))
	}
	return out
}

// ---------------------------------------------------------------------------------------------------- recording

type rec struct {
	net *sim.Net
	ids *trace.Interner
	evs *[]trace.Ev
	g   *gen
}

func (r *rec) name(id thor.Bytes32) string { return r.ids.Name(id[:]) }

func hdrFields(h *block.Header) map[string]any {
	m := map[string]any{"gasLimit": h.GasLimit(), "gasUsed": h.GasUsed(), "hasBase": h.BaseFee() != nil, "baseFee": []int{}}
	if h.BaseFee() != nil {
		m["baseFee"] = limbs(h.BaseFee())
	}
	return m
}

var energyTransferTopic = func() thor.Bytes32 {
	e, ok := builtin.Energy.ABI.EventByName("Transfer")
	if !ok {
		panic("no Transfer event")
	}
	return e.ID()
}()

// observe emits the Block event for blk (already stored by God).
func (r *rec) observe(parent *chain.BlockSummary, blk *block.Block, receipts tx.Receipts, refused int, sibling bool) {
	n := r.net
	sum, err := n.God.Repo.GetBlockSummary(blk.Header().ID())
	must(err)
	h := blk.Header()
	t := h.Timestamp()
	pre := sumState(n, parent.Root(), t)
	post := sumState(n, sum.Root(), t)
	preSt := n.God.Stater.NewState(parent.Root())
	postSt := n.God.Stater.NewState(sum.Root())

	legacyBase, err := builtin.Params.Native(preSt).Get(thor.KeyLegacyTxBaseGasPrice)
	must(err)
	// the reward ratio is read when a tx is finalized, i.e. AFTER its own clauses: the tx that changes it (alone in its
	// block) is already rewarded at the new ratio; the base gas price is read before execution (gas purchase)
	ratio, err := builtin.Params.Native(postSt).Get(thor.KeyRewardRatio)
	must(err)
	gal := h.Number() >= n.FC.GALACTICA
	burnVET, burnVTHO := new(big.Int), new(big.Int)
	gone := func(a thor.Address) bool { return !post.exists[thor.Blake2b(a[:])] }
	var rcpts []map[string]any
	txs := blk.Transactions()
	if len(txs) != len(receipts) {
		harnessError("block %d: %d txs, %d receipts", h.Number(), len(txs), len(receipts))
	}
	reverted, mined := 0, 0
	// energy flows seen in the receipts: Transfer events of the energy contract (clause-level transfers, transferFrom,
	// self-destruct hand-over), fees per payer, rewards
	evIn, evOut, paidBy := map[thor.Address]*big.Int{}, map[thor.Address]*big.Int{}, map[thor.Address]*big.Int{}
	bump := func(m map[thor.Address]*big.Int, a thor.Address, v *big.Int) {
		if m[a] == nil {
			m[a] = new(big.Int)
		}
		m[a].Add(m[a], v)
	}
	rewardSum := new(big.Int)
	for i, rc := range receipts {
		trx := txs[i]
		bump(paidBy, rc.GasPayer, rc.Paid)
		rewardSum.Add(rewardSum, rc.Reward)
		pw, err := trx.ProvedWork(h.Number()-1, n.God.Repo.NewChain(parent.Header.ID()).GetBlockID)
		must(err)
		if pw.Sign() != 0 {
			mined++
		}
		f := map[string]any{"legacyBase": limbs(legacyBase), "ratio": limbs(ratio), "gal": gal, "baseFee": []int{}, "work": limbs(pw), "gas": trx.Gas()}
		if h.BaseFee() != nil {
			f["baseFee"] = limbs(h.BaseFee())
		}
		if trx.Type() == tx.TypeLegacy {
			f["type"], f["coef"], f["maxFee"], f["maxPrio"] = "legacy", int(trx.GasPriceCoef()), []int{}, []int{}
		} else {
			f["type"], f["coef"], f["maxFee"], f["maxPrio"] = "dyn", 0, limbs(trx.MaxFeePerGas()), limbs(trx.MaxPriorityFeePerGas())
		}
		rcpts = append(rcpts, map[string]any{"gasUsed": rc.GasUsed, "paid": limbs(rc.Paid), "reward": limbs(rc.Reward), "fee": f,
			"reverted": rc.Reverted})
		if rc.Reverted {
			reverted++
		}
		for _, o := range rc.Outputs {
			for _, tr := range o.Transfers {
				if tr.Sender == tr.Recipient && gone(tr.Sender) {
					burnVET.Add(burnVET, tr.Amount)
				}
			}
			for _, ev := range o.Events {
				if ev.Address == builtin.Energy.Address && len(ev.Topics) == 3 && ev.Topics[0] == energyTransferTopic {
					amt := new(big.Int).SetBytes(ev.Data)
					bump(evOut, thor.BytesToAddress(ev.Topics[1][:]), amt)
					bump(evIn, thor.BytesToAddress(ev.Topics[2][:]), amt)
				}
				if ev.Address == builtin.Energy.Address && len(ev.Topics) == 3 && ev.Topics[0] == energyTransferTopic &&
					ev.Topics[1] == ev.Topics[2] && gone(thor.BytesToAddress(ev.Topics[1][:])) {
					burnVTHO.Add(burnVTHO, new(big.Int).SetBytes(ev.Data))
				}
			}
		}
	}
	pos, err := builtin.Staker.Native(postSt).IsPoSActive()
	must(err)
	staked, _, err := builtin.Staker.Native(postSt).LockedStake()
	must(err)
	curve, err := builtin.Params.Native(postSt).Get(thor.KeyCurveFactor)
	must(err)
	split := false
	if signer, err := h.Signer(); err == nil && pos {
		split, _ = builtin.Staker.Native(postSt).HasDelegations(signer)
	}
	// who was charged, who was credited: energy delta (both states evaluated at t) of every gas payer, the beneficiary and
	// the delegator contract stand-in, next to the flows the receipts show for that account
	pct, err := builtin.Params.Native(postSt).Get(thor.KeyValidatorRewardPercentage)
	must(err)
	if pct.Sign() == 0 {
		pct = big.NewInt(int64(thor.InitialValidatorRewardPercentage))
	}
	dc, err := builtin.Params.Native(postSt).Get(thor.KeyDelegatorContractAddress)
	must(err)
	delegAddr := thor.BytesToAddress(dc.Bytes())
	interesting := map[thor.Address]bool{h.Beneficiary(): true}
	if !delegAddr.IsZero() {
		interesting[delegAddr] = true
	}
	for a := range paidBy {
		interesting[a] = true
	}
	var addrs []thor.Address
	for a := range interesting {
		addrs = append(addrs, a)
	}
	sort.Slice(addrs, func(i, j int) bool { return string(addrs[i][:]) < string(addrs[j][:]) })
	zero := new(big.Int)
	get := func(m map[thor.Address]*big.Int, a thor.Address) *big.Int {
		if m[a] == nil {
			return zero
		}
		return m[a]
	}
	enAt := func(t totals, a thor.Address) *big.Int {
		if e := t.energy[thor.Blake2b(a[:])]; e != nil {
			return e
		}
		return zero
	}
	var flows []map[string]any
	for _, a := range addrs {
		d := new(big.Int).Sub(enAt(post, a), enAt(pre, a))
		fl := map[string]any{"delta": limbs(new(big.Int).Abs(d)), "deltaNeg": d.Sign() < 0, "evIn": limbs(get(evIn, a)), "evOut": limbs(get(evOut, a)),
			"paid": limbs(get(paidBy, a)), "benef": a == h.Beneficiary(), "deleg": a == delegAddr, "payer": paidBy[a] != nil}
		flows = append(flows, fl)
	}
	// the energy contract's own bookkeeping, evaluated at this block's time on the post-state
	en := builtin.Energy.Native(postSt, t)
	supply, err := en.TotalSupply()
	must(err)
	burned, err := en.TotalBurned()
	must(err)
	ev := trace.Ev{"e": "Block", "prof": r.g.prof, "id": r.name(h.ID()), "parent": r.name(h.ParentID()), "num": h.Number(), "t": t,
		"preVET": limbs(pre.vet), "postVET": limbs(post.vet), "preVTHO": limbs(pre.vtho), "postVTHO": limbs(post.vtho),
		"burnVET": limbs(burnVET), "burnVTHO": limbs(burnVTHO), "rcpts": rcpts, "pos": pos,
		"issued": limbs(new(big.Int).Sub(issued(postSt), issued(preSt))), "staked": staked, "curve": limbs(curve),
		"hdr": hdrFields(h), "par": hdrFields(parent.Header), "leaves": post.leaves, "refused": refused, "sibling": sibling,
		"nrev": reverted, "stopped": stopTime(postSt) != math.MaxUint64, "split": split,
		"supply": limbs(supply), "burnedNeg": burned.Sign() < 0, "burned": limbs(new(big.Int).Abs(burned)),
		"flows": flows, "pct": int(pct.Int64()), "mined": mined}
	if rcpts == nil {
		ev["rcpts"] = []any{}
	}
	*r.evs = append(*r.evs, ev)
}

type runStat struct {
	Profile  string         `json:"profile"`
	Blocks   int            `json:"blocks"`
	Txs      int            `json:"txs"`
	Reverted int            `json:"reverted"`
	Refused  int            `json:"refused"`
	Kinds    map[string]int `json:"kinds"`
	FeeUp    int            `json:"baseFeeUp"`
	FeeDown  int            `json:"baseFeeDown"`
	PosBlks  int            `json:"posBlocks"`
	Split    int            `json:"blocksWithDelegatorSplit"`
	F3Blocks int            `json:"f3Blocks"`
	Siblings int            `json:"siblings"`
	Stopped  int            `json:"blocksAfterGrowthStop"`
}

func runProfile(prof string, seed int64, blocks int, evs *[]trace.Ev) runStat {
	opt := sim.Options{Validators: 3, Nodes: 1, ExtraAccts: 7, EpochLength: 3}
	x := sim.Extra{GasLimit: 10_000_000}
	switch prof {
	case "pre":
		opt.NoGalactica = true
	case "boundary":
		opt.Galactica = uint32(6 + seed%4)
	case "post":
	case "pos":
		opt.PoS = true
		x.Periods = [3]uint32{6, 9, 12}
		x.Cooldown = 3
	case "hayabusa":
		opt.PoS = true
		hb, tp := uint32(6), uint32(3)
		x.Hayabusa, x.HayabusaTP, x.NoStakers = &hb, &tp, true
		x.Periods = [3]uint32{6, 9, 12}
		x.Cooldown = 3
	case "evict":
		// PoS from genesis; validator 2 never produces: it goes offline, is evicted, its stake becomes withdrawable
		opt.PoS = true
		x.Periods = [3]uint32{6, 9, 12}
		x.Cooldown = 3
		x.EvictAfter, x.EvictEvery = 6, 3
	default:
		harnessError("unknown profile %s", prof)
	}
	if x.EvictAfter == 0 {
		x.EvictAfter, x.EvictEvery = 8640*7, 8640*3 // thor.SetConfig is process-global: restore the defaults explicitly
	}
	codeA, codeB := doubleSuicideCode(genesis.DevAccounts()[9].Address)
	x.Accounts = []genesis.Account{
		{Address: addrDA, Balance: (*genesis.HexOrDecimal256)(big.NewInt(5000)), Energy: (*genesis.HexOrDecimal256)(big.NewInt(3000)), Code: "0x" + hex.EncodeToString(codeA)},
		{Address: addrDB, Balance: (*genesis.HexOrDecimal256)(big.NewInt(100000)), Energy: (*genesis.HexOrDecimal256)(big.NewInt(900000)), Code: "0x" + hex.EncodeToString(codeB)},
	}
	n := sim.NewNetX(opt, x)
	defer n.Close()
	g := &gen{net: n, rng: rand.New(rand.NewSource(seed*1000 + int64(len(prof)))), prof: prof, tag: n.God.Repo.ChainTag(), stats: map[string]int{},
		gasLimit: x.GasLimit}
	r := &rec{net: n, ids: trace.NewInterner("b"), evs: evs, g: g}
	st := runStat{Profile: prof, Kinds: g.stats}
	b0 := n.B0.Header()
	galH := int64(n.FC.GALACTICA)
	if n.FC.GALACTICA == math.MaxUint32 {
		galH = -1
	}
	gh := hdrFields(b0)
	gh["id"] = r.name(b0.ID())
	*evs = append(*evs, trace.Ev{"e": "Reset", "prof": prof, "seed": seed, "galactica": galH, "gen": gh})
	parent := n.God.Repo.BestBlockSummary()
	for i := 1; i <= blocks; i++ {
		// phases of the base-fee exercise: fill blocks for a while, then leave them (almost) empty
		full := false
		if n.FC.GALACTICA != math.MaxUint32 && i > 3 {
			cycle := (i - 4) % 24
			full = cycle >= 6 && cycle < 14
		}
		// the packer's target gas limit: the block gas limit drifts to values that are not multiples of 100
		target := uint64(0)
		switch {
		case i >= 20:
			target = 9_987_653
		case i >= 5:
			target = 9_999_937
		}
		g.limit = parent.Header.GasLimit()
		if target != 0 {
			g.limit = block.GasLimit(target).Qualify(parent.Header.GasLimit())
		}
		txs := g.blockTxs(parent, i, full)
		if prof == "hayabusa" && i >= 7 && i <= 8 {
			// validators stake by transactions during the transition period
			for v := 0; v < 3; v++ {
				txs = append(txs, g.mk(parent, v, txOpt{gas: 800_000, delegator: -1},
					call(builtin.Staker.Address, stakerData("addValidation", g.addr(v), thor.LowStakingPeriod())).WithValue(vet(25_000_000))))
				g.stats["addValidation"]++
			}
		}
		who := i % 3
		if prof == "evict" {
			who = i % 2
		}
		// the packer's beneficiary option: usually the validator; sometimes a frequent gas payer (dev 3), the delegator
		// contract stand-in (dev 8), the energy contract or the universal contract (one address in two roles)
		var benef *thor.Address
		switch {
		case i > 8 && i%11 == 3:
			benef = ptr(g.addr(3))
		case i > 8 && i%11 == 6:
			benef = ptr(g.addr(8))
		case i > 8 && i%11 == 9:
			benef = ptr(builtin.Energy.Address)
		case i > 8 && i%11 == 1 && g.U != nil:
			benef = g.U
		}
		mo := sim.MintOpt{Beneficiary: benef, TargetGasLimit: target}
		blk, receipts, refused, err := n.MintLooseOpt(parent.Header.ID(), who, mo, false, 0, txs...)
		if err != nil {
			// the chosen validator may have no slot (PoS activation): try the others
			for alt := 1; alt < 3 && err != nil; alt++ {
				if prof == "evict" && (who+alt)%3 == 2 {
					continue
				}
				blk, receipts, refused, err = n.MintLooseOpt(parent.Header.ID(), (who+alt)%3, mo, false, 0, txs...)
			}
			if err != nil {
				harnessError("%s block %d: mint: %v", prof, i, err)
			}
		}
		if i == 1 {
			// learn the contract addresses from the receipts
			for k, rc := range receipts {
				if rc.Reverted || len(rc.Outputs) == 0 {
					harnessError("deployment %d reverted", k)
				}
				a := thor.CreateContractAddress(blk.Transactions()[k].ID(), 0, 0)
				switch k {
				case 0:
					g.U = &a
				case 1:
					g.SDS = &a
				case 2:
					g.U2 = &a
				case 3:
					g.UZ = &a
				case 4:
					g.UV = &a
				case 5:
					g.US = &a
				case 6:
					g.UP = &a
				case 7:
					g.UF[0] = &a
				case 8:
					g.UF[1] = &a
				}
			}
		}
		if _, err := n.Nodes[0].Deliver(blk); err != nil {
			harnessError("%s block %d: node refused an honestly packed block: %v", prof, i, err)
		}
		r.observe(parent, blk, receipts, len(refused), false)
		st.Blocks++
		st.Txs += len(receipts)
		st.Refused += len(refused)
		last := (*evs)[len(*evs)-1]
		st.Reverted += last["nrev"].(int)
		if last["pos"].(bool) {
			st.PosBlks++
		}
		if last["stopped"].(bool) {
			st.Stopped++
		}
		if last["split"].(bool) {
			st.Split++
		}
		if len(last["burnVET"].([]int)) > 0 {
			st.F3Blocks++
		}
		if pb, cb := parent.Header.BaseFee(), blk.Header().BaseFee(); pb != nil && cb != nil {
			if c := cb.Cmp(pb); c > 0 {
				st.FeeUp++
			} else if c < 0 {
				st.FeeDown++
			}
		}
		// occasionally a sibling on the same parent by another validator with other content: same base fee required
		if i > 4 && i%7 == 0 {
			stxs := g.blockTxs(parent, i, false)
			sw := (who + 1) % 3
			if prof == "evict" {
				sw = (who + 1) % 2
			}
			if sb, srec, sref, err := n.MintLooseOpt(parent.Header.ID(), sw, sim.MintOpt{TargetGasLimit: target}, false, 0, stxs...); err == nil && sb.Header().ID() != blk.Header().ID() {
				if _, err := n.Nodes[0].Deliver(sb); err != nil {
					harnessError("%s block %d: node refused a sibling: %v", prof, i, err)
				}
				r.observe(parent, sb, srec, len(sref), true)
				st.Siblings++
			}
		}
		parent, err = n.God.Repo.GetBlockSummary(blk.Header().ID())
		must(err)
	}
	return st
}

func main() {
	out := flag.String("out", ".", "output directory")
	seed := flag.Int64("seed", 1, "seed")
	profiles := flag.String("profiles", "pre,boundary,post,pos", "comma separated profiles")
	blocks := flag.Int("blocks", 30, "blocks per profile")
	flag.Parse()
	ioMust(os.MkdirAll(*out, 0o755))
	var evs []trace.Ev
	var stats []runStat
	for _, p := range strings.Split(*profiles, ",") {
		stats = append(stats, runProfile(p, *seed, *blocks, &evs))
	}
	for i, e := range evs {
		e["seq"] = i
	}
	evs = append(evs, trace.Ev{"e": "End", "seq": len(evs), "count": len(evs)})
	ioMust(trace.WriteNDJSON(filepath.Join(*out, "trace.ndjson"), evs))
	sb, _ := json.Marshal(stats)
	ioMust(os.WriteFile(filepath.Join(*out, "runs.json"), sb, 0o644))
	fmt.Println(string(sb))
}
