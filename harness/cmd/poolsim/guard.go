package main

import (
	"bytes"
	"fmt"
	"os"
	"runtime"
	"runtime/debug"
	"strconv"
	"strings"
	"time"
)

// Exit codes of poolsim: 0 ok, 3 harness trouble (HARNESS-ERROR line), 4 a fault of the real code that is not a rejected
// trace: a panic raised inside thor, or a hang with a goroutine blocked on a thor lock (THOR-FAULT line, stacks follow).

// hangTimeout bounds every wait of the scheduler / replayer for a task to reach its next park point.
var hangTimeout = func() time.Duration {
	if s := os.Getenv("POOLSIM_HANG_TIMEOUT_S"); s != "" {
		if n, err := strconv.Atoi(s); err == nil && n > 0 {
			return time.Duration(n) * time.Second
		}
	}
	return 40 * time.Second
}()

// goid is the id of the calling goroutine (events of the real packer loop are attributed by it).
func goid() uint64 {
	var buf [64]byte
	n := runtime.Stack(buf[:], false)
	f := bytes.Fields(buf[:n])
	if len(f) < 2 {
		return 0
	}
	id, _ := strconv.ParseUint(string(f[1]), 10, 64)
	return id
}

// thorFrame tells whether a stack line names a function of the code under test.
func thorFrame(line string) bool {
	return strings.Contains(line, "github.com/vechain/thor/v2/") && !strings.Contains(line, "verif_hooks")
}

// panicOrigin: the first non-runtime function below the panic call. "harness" if it is the driver's own code.
func panicOrigin(stack string) string {
	lines := strings.Split(stack, "\n")
	seenPanic := false
	for _, l := range lines {
		if strings.HasPrefix(l, "\t") {
			continue
		}
		if strings.HasPrefix(l, "panic(") || strings.HasPrefix(l, "runtime.gopanic") {
			seenPanic = true
			continue
		}
		if !seenPanic || strings.HasPrefix(l, "runtime.") || strings.HasPrefix(l, "runtime/") || l == "" {
			continue
		}
		if thorFrame(l) {
			return "thor"
		}
		if strings.HasPrefix(l, "main.") || strings.Contains(l, "verifharness/") || strings.Contains(l, "verif_hooks") {
			return "harness"
		}
		// library code: attribute to whoever called it
	}
	return "harness"
}

// guard runs fn; a panic is attributed: raised in thor -> exit 4 (an observation on the real code), else exit 3.
func guard(what string, fn func()) {
	defer func() {
		if r := recover(); r != nil {
			st := string(debug.Stack())
			if panicOrigin(st) == "thor" {
				fmt.Printf("THOR-FAULT kind=panic where=%s value=%v\n%s\n", what, r, st)
				os.Exit(4)
			}
			fmt.Printf("HARNESS-ERROR panic in the driver (%s): %v\n%s\n", what, r, st)
			os.Exit(3)
		}
	}()
	fn()
}

// hang is called when a task did not reach its next park point in time. All stacks are dumped; if some goroutine waits for
// a sync lock inside thor code the real code is stuck (exit 4), otherwise the driver is (exit 3).
func hang(what string) {
	buf := make([]byte, 1<<22)
	n := runtime.Stack(buf, true)
	all := string(buf[:n])
	thor := false
	for _, g := range strings.Split(all, "\n\n") {
		waits := strings.Contains(g, "sync.runtime_Semacquire") || strings.Contains(g, "sync.(*RWMutex)") ||
			strings.Contains(g, "sync.(*Mutex).Lock") || strings.Contains(g, "sync.(*WaitGroup).Wait")
		if !waits {
			continue
		}
		for _, l := range strings.Split(g, "\n") {
			if !strings.HasPrefix(l, "\t") && thorFrame(l) {
				thor = true
			}
		}
	}
	if thor {
		fmt.Printf("THOR-FAULT kind=hang where=%s (no progress for %s; a goroutine is blocked on a lock inside thor)\n%s\n", what, hangTimeout, all)
		os.Exit(4)
	}
	fmt.Printf("HARNESS-ERROR hang in the driver (%s, no progress for %s)\n%s\n", what, hangTimeout, all)
	os.Exit(3)
}

// await receives from ch or declares a hang.
func await(ch <-chan string, what string) string {
	select {
	case v := <-ch:
		return v
	case <-time.After(hangTimeout):
		hang(what)
		return ""
	}
}
