package main

import (
	"fmt"
	"math"
	"math/big"
	"math/rand"
	"sort"
	"sync"
	"time"

	"github.com/vechain/thor/v2/builtin"
	"github.com/vechain/thor/v2/chain"
	"github.com/vechain/thor/v2/packer"
	"github.com/vechain/thor/v2/thor"
	"github.com/vechain/thor/v2/tx"
	"github.com/vechain/thor/v2/txpool"

	"verifharness/internal/trace"
)

type violation struct {
	Kind   string `json:"kind"`
	Detail string `json:"detail"`
	Index  int    `json:"index"` // number of events logged when it was observed
}

type runStat struct {
	Scen          string         `json:"scen"`
	Seed          int64          `json:"seed"`
	Mode          string         `json:"mode"`
	Events        int            `json:"events"`
	Ops           int            `json:"ops"`
	Washes        int            `json:"washes"`
	Heads         int            `json:"heads"`
	Verdicts      map[string]int `json:"verdicts"`
	Drops         map[string]int `json:"drops"`
	Promotes      int            `json:"promotes"`
	StalePromotes int            `json:"stalePromotes"`
	StalePrios    int            `json:"stalePrios"`
	StalePriosRaced int          `json:"stalePriosRaced"`
	MidWashOps    int            `json:"midWashOps"` // lock sections of Add/Remove/Fill taken while a wash was in flight
	Adopted       int            `json:"adopted"`
	AdoptChecked  int            `json:"adoptChecked"`
	MaxLen        int            `json:"maxLen"`
	Limit         int            `json:"limit"`
	Violations    []violation    `json:"violations,omitempty"`
	Discarded     string         `json:"discarded,omitempty"` // the run is not evidence (and never a verdict): why
	Counts        map[string]int `json:"counts"`              // how often each branch of interest was taken
}

type scenario struct {
	name      string
	limit     int
	lpa       int
	lifetime  string // never | always
	behind    int
	galactica uint32
	workers   int
	opsPer    int
	washes    int
	advances  int
	block     bool
	errTrim   bool
	ntx       int
	packs     int // blocks produced per phase by the real packer loop body (consumes Executables, removes what Adopt refuses)
}

func pickScenario(name string, rng *rand.Rand) scenario {
	s := scenario{name: name, limit: []int{4, 5, 8, 10}[rng.Intn(4)], lpa: 2 + rng.Intn(3), lifetime: "never", behind: 5,
		workers: 2 + rng.Intn(2), opsPer: 6 + rng.Intn(6), washes: 3 + rng.Intn(4), advances: 1 + rng.Intn(3), ntx: 14 + rng.Intn(8), packs: 1}
	switch name {
	case "mixed":
	case "limits": // many cheap executable txs from rich accounts, small limit: 150 % / 120 % admission, displacement
		s.limit = []int{4, 5, 10}[rng.Intn(3)]
		s.lpa = 6
		s.ntx = 22 + rng.Intn(6)
		s.opsPer = 10 + rng.Intn(6)
	case "lifetime":
		s.lifetime = "always"
	case "unsynced":
		s.behind = 7
		s.advances = 2 + rng.Intn(2)
		s.limit = 4 + rng.Intn(2)
		s.lpa = 4
	case "fork": // GALACTICA activates during the run
		s.galactica = 3
		s.advances = 3
	case "nofork":
		s.galactica = math.MaxUint32
	case "blocklist":
		s.block = true
	case "errtrim":
		s.errTrim = true
		s.limit = 4
		s.packs = 0
	case "sponsor": // txs to an account with a credit plan: paid by its sponsor, by the account, or by the origin
		s.limit = 10
		s.lpa = 4
	case "work": // a legacy tx with proved work; the chain is long enough for the work to expire (MaxTxWorkDelay) during the run
		s.behind = 38
		s.advances = 1
	case "reorg": // sibling heads and a branch switch: a settled tx becomes unknown again, a satisfied dependency unsatisfied
		s.advances = 1
	case "evalwindow": // a Remove falls between wash's lock-free setPricing and the logging of that evaluation
	case "drain": // a block from outside the pool takes the energy of a payer whose txs are pooled as executable
		s.limit = 8 + rng.Intn(3)
		s.lpa = 4
	case "basefee": // a nearly full block raises the base fee above the fee cap of pooled executable txs
		s.limit = 40
		s.lpa = 10
		s.packs = 0
		s.advances = 1 // the prelude itself advances the head four times; all heads must stay inside the synced window
	default:
		harnessErr("unknown scenario %q", name)
	}
	return s
}

var scenarioNames = []string{"mixed", "limits", "lifetime", "unsynced", "fork", "nofork", "blocklist", "errtrim", "drain", "basefee", "evalwindow", "reorg", "sponsor", "work"}

type recorder struct {
	e     *env
	sc    scenario
	rng   *rand.Rand
	tr    *tracer
	st    runStat
	uni   []*txSpec
	free  bool
	hmu   sync.RWMutex // free mode: head advances exclude operations in flight (DESIGN C18: head is a stable fact)
	inWsh bool
	smu   sync.Mutex
	sched *sched
	orderKind string // names the misorder the next adoptOracle call would witness (a scenario built to show one)
	// observation state (under smu)
	washing      bool
	evalDrops    int
	errTrimming  bool
	evictPending bool
	packerGoid   uint64
}

func (r *recorder) bump(k string) {
	if r.st.Counts == nil {
		r.st.Counts = map[string]int{}
	}
	r.st.Counts[k]++
}

// observe sees every hook event (on the goroutine that hit the hook): statistics only.
func (r *recorder) observe(ev txpool.VerifEvent) {
	r.smu.Lock()
	defer r.smu.Unlock()
	s := r.sched
	switch ev.Kind {
	case "wash.begin":
		r.washing, r.evalDrops, r.errTrimming = true, 0, false
	case "wash.end":
		r.washing, r.errTrimming, r.evictPending = false, false, false
	case "wash.error":
		r.errTrimming = true
	case "wash.evict":
		r.evictPending = true
		if r.errTrimming {
			r.bump("errortrim")
		}
	case "wash.limit":
		if d := len(ev.Removes) - r.evalDrops; d > 0 {
			r.st.Counts["displaced"] += d
		}
	case "add", "fill":
		// a critical section of an operation while a wash is in flight (sched: the running task is not the washer)
		if r.washing && (s == nil || (s.cur != nil && s.cur.name != "washer")) {
			r.st.MidWashOps++
		}
	case "remove", "remove.miss":
		byWash := r.evictPending
		if s != nil {
			byWash = s.cur != nil && s.cur.name == "washer"
		}
		r.evictPending = false
		if ev.Kind == "remove" && r.washing && !byWash {
			r.st.MidWashOps++
		}
		if ev.Kind == "remove.miss" {
			r.bump("remove_miss")
		}
		if r.packerGoid != 0 && r.packerGoid == goid() {
			r.bump("packer_removes")
		}
	case "add.dup":
		r.bump("add_dup")
	case "fill.dup":
		r.bump("fill_dup")
	case "promote.miss":
		r.bump("promote_miss")
	case "promote.noop":
		r.bump("promote_noop")
	case "promote":
		r.st.Promotes++
	case "eval.drop", "eval.blocked", "eval.outlived":
		r.evalDrops++
		why := ev.Kind[5:]
		if ev.Kind == "eval.drop" {
			why = evalErrClass(ev.Err)
		}
		if r.st.Drops == nil {
			r.st.Drops = map[string]int{}
		}
		r.st.Drops[why]++
	case "wash.unpayable":
		if r.st.Drops == nil {
			r.st.Drops = map[string]int{}
		}
		r.st.Drops["unpayable-overall"]++
	}
}

func (r *recorder) count(m *map[string]int, k string) {
	r.smu.Lock()
	if *m == nil {
		*m = map[string]int{}
	}
	(*m)[k]++
	r.smu.Unlock()
}

func (r *recorder) viol(kind, format string, a ...any) {
	r.smu.Lock()
	r.st.Violations = append(r.st.Violations, violation{kind, fmt.Sprintf(format, a...), len(r.e.evs.evs)})
	r.smu.Unlock()
}

func (r *recorder) genUniverse() {
	e, rng := r.e, r.rng
	var rich, poor []*acct
	for _, a := range e.accts {
		if a.poor {
			poor = append(poor, a)
		} else {
			rich = append(rich, a)
		}
	}
	anyAcct := func() *acct {
		if rng.Intn(5) < 2 {
			return poor[rng.Intn(len(poor))]
		}
		return rich[rng.Intn(len(rich))]
	}
	base := e.best().Header.Number()
	coefs := []uint8{0, 51, 102, 255}
	var plain []*txSpec
	add := func(s *txSpec) *txSpec {
		for _, x := range r.uni {
			if x == s {
				return s
			}
		}
		r.uni = append(r.uni, s)
		return s
	}
	mk := func(kind int) {
		p := txParams{org: anyAcct(), gas: []uint64{21000, 42000}[rng.Intn(2)], coef: coefs[rng.Intn(4)], ref: base - uint32(rng.Intn(2)), exp: 1000}
		if r.sc.name == "limits" {
			p.org = rich[rng.Intn(len(rich))]
			p.gas = 21000
			if kind > 3 && kind != 4 {
				kind = rng.Intn(3)
			}
		}
		switch kind {
		case 0: // plain
			plain = append(plain, add(e.build(p, nil)))
		case 1: // delegated
			p.dlg = anyAcct()
			plain = append(plain, add(e.build(p, nil)))
		case 2: // dynamic fee
			p.typed = true
			p.maxPrio = int64(1 + rng.Intn(3))
			p.maxFee = p.maxPrio + 1 + int64(rng.Intn(3))
			if r.sc.name == "basefee" {
				p.maxFee = p.maxPrio + 1 // the fee cap binds at every base fee: the cost does not move with the base fee
			}
			if rng.Intn(3) == 0 {
				p.dlg = anyAcct()
			}
			plain = append(plain, add(e.build(p, nil)))
		case 3: // future block ref, near
			p.ref = base + 1 + uint32(1+rng.Intn(2))
			add(e.build(p, nil))
		case 4: // future block ref, beyond the schedule window
			p.ref = base + 40 + uint32(rng.Intn(3))
			add(e.build(p, nil))
		case 5: // short-lived
			p.ref = base
			p.exp = uint32(1 + rng.Intn(2))
			add(e.build(p, nil))
		case 6: // expired already
			p.ref = 0
			p.exp = 0
			add(e.build(p, nil))
		case 7: // dependent
			if len(plain) > 0 {
				p.dep = plain[rng.Intn(len(plain))]
				add(e.build(p, nil))
			}
		case 8: // reverting
			p.reverting = true
			p.gas = 63000
			p.org = rich[rng.Intn(len(rich))]
			plain = append(plain, add(e.build(p, nil)))
		case 9: // same id, other hash: a delegated tx signed again with another delegator
			var cands []*txSpec
			for _, x := range r.uni {
				if x.dlg != nil {
					cands = append(cands, x)
				}
			}
			if len(cands) > 0 {
				src := cands[rng.Intn(len(cands))]
				d := anyAcct()
				add(e.build(txParams{dlg: d}, src))
			}
		case 11: // delegated to the origin itself: the account holds two slots for one tx
			p.dlg = p.org
			plain = append(plain, add(e.build(p, nil)))
		case 10: // unpayable by its poor origin
			p.org = poor[len(poor)-1]
			p.gas = 42000
			p.coef = 255
			add(e.build(p, nil))
		}
	}
	// one of each first, then random
	for k := 0; k <= 11 && len(r.uni) < r.sc.ntx; k++ {
		mk(k)
	}
	weights := []int{0, 0, 0, 1, 1, 2, 2, 3, 3, 5, 7, 7, 8, 9, 9, 10, 4, 6, 11}
	for guard := 0; len(r.uni) < r.sc.ntx && guard < 200; guard++ {
		mk(weights[rng.Intn(len(weights))])
	}
	for _, s := range r.uni {
		e.register(s)
	}
}

// ---- operations ----------------------------------------------------------------------------------------

type op struct {
	kind string // remote | local | strict | remove | fill | readd
	txs  []*txSpec
}

func (r *recorder) genOps(n int) []op {
	rng := r.rng
	var out []op
	pick := func() *txSpec { return r.uni[rng.Intn(len(r.uni))] }
	for i := 0; i < n; i++ {
		switch k := rng.Intn(20); {
		case k < 7:
			out = append(out, op{"remote", []*txSpec{pick()}})
		case k < 9:
			out = append(out, op{"local", []*txSpec{pick()}})
		case k < 11:
			out = append(out, op{"strict", []*txSpec{pick()}})
		case k < 14:
			out = append(out, op{"remove", []*txSpec{pick()}})
		case k < 17:
			var l []*txSpec
			for j := 0; j < 1+rng.Intn(3); j++ {
				l = append(l, pick())
			}
			out = append(out, op{"fill", l})
		default:
			out = append(out, op{"readd", []*txSpec{pick()}})
		}
	}
	return out
}

func (r *recorder) doAdd(g int, kind string, s *txSpec) {
	e := r.e
	r.tr.mu.Lock()
	r.tr.addHead[s.tx.Hash()] = e.lastHead
	r.tr.mu.Unlock()
	e.evs.emit(trace.Ev{"e": "AddBegin", "g": g, "h": s.h, "kind": kind})
	var err error
	switch kind {
	case "remote":
		err = e.pool.Add(s.tx)
	case "local":
		err = e.pool.AddLocal(s.tx)
	case "strict":
		err = e.pool.StrictlyAdd(s.tx)
	}
	c := errClass(err)
	r.count(&r.st.Verdicts, c)
	e.evs.emit(trace.Ev{"e": "AddEnd", "g": g, "res": c})
}

func (r *recorder) doRemove(g int, s *txSpec) {
	e := r.e
	e.evs.emit(trace.Ev{"e": "RemoveBegin", "g": g, "h": s.h})
	ok := e.pool.Remove(s.tx.Hash(), s.tx.ID())
	if !ok {
		// refused although the very tx is pooled: the id index no longer points at it (same id pooled under two hashes)
		for _, o := range e.pool.VerifSnapshot().Objs {
			if o.Hash == s.tx.Hash() {
				r.smu.Lock()
				r.bump("idguard_refusals")
				r.smu.Unlock()
			}
		}
	}
	e.evs.emit(trace.Ev{"e": "RemoveEnd", "g": g, "res": ok})
}

func (r *recorder) doFill(g int, l []*txSpec) {
	e := r.e
	var hs []string
	var txs tx.Transactions
	for _, s := range l {
		hs = append(hs, s.h)
		txs = append(txs, s.tx)
	}
	e.evs.emit(trace.Ev{"e": "FillBegin", "g": g, "hs": hs})
	e.pool.Fill(txs)
	e.evs.emit(trace.Ev{"e": "FillEnd", "g": g})
}

func (r *recorder) runOp(g int, o op, yield func()) {
	if r.free {
		r.hmu.RLock()
		defer r.hmu.RUnlock()
	}
	r.smu.Lock()
	r.st.Ops++
	r.smu.Unlock()
	switch o.kind {
	case "remote", "local", "strict":
		r.doAdd(g, o.kind, o.txs[0])
	case "remove":
		r.doRemove(g, o.txs[0])
	case "fill":
		r.doFill(g, o.txs)
	case "readd":
		r.doRemove(g, o.txs[0])
		yield()
		r.doAdd(g, "remote", o.txs[0])
	}
}

func (r *recorder) washOnce() {
	if r.free {
		r.hmu.RLock()
		defer r.hmu.RUnlock()
	}
	r.inWsh = true
	ran, _, _ := r.e.pool.VerifWash()
	r.inWsh = false
	if ran {
		r.smu.Lock()
		r.st.Washes++
		r.smu.Unlock()
	}
}

// packOnce: the real packer loop body produces the next block from the pool's executables and removes what Adopt refused.
func (r *recorder) packOnce() {
	if r.free {
		r.hmu.Lock() // the new head becomes visible inside doPack: no operation may be in flight (free mode only)
		defer r.hmu.Unlock()
	}
	e := r.e
	r.smu.Lock()
	r.packerGoid = goid()
	r.smu.Unlock()
	blk, err := e.packBlock()
	r.smu.Lock()
	r.packerGoid = 0
	r.smu.Unlock()
	if err != nil {
		harnessErr("packer loop body failed: %v", err)
	}
	e.syncHead()
	r.smu.Lock()
	r.st.Heads++
	r.bump("packer_blocks")
	r.st.Counts["packer_adopted"] += len(blk.Transactions())
	r.smu.Unlock()
}

func (r *recorder) advanceHead(withTxs bool) {
	if r.free {
		r.hmu.Lock()
		defer r.hmu.Unlock()
	}
	e := r.e
	var cands []*txSpec
	if withTxs {
		seen := map[string]bool{}
		for _, t := range e.pool.Executables() {
			if s, ok := e.txs[t.Hash()]; ok && !seen[s.id] && r.rng.Intn(3) != 0 && len(cands) < 4 {
				cands = append(cands, s)
				seen[s.id] = true
			}
		}
	}
	e.advance(cands)
	e.headEvent()
	r.st.Heads++
}

// snapshotEvent logs the full accounting and checks it directly (second oracle, in Go).
func (r *recorder) snapshotEvent(label string) txpool.VerifSnap {
	e := r.e
	s := e.pool.VerifSnapshot()
	quota, cost, pool := map[string]any{}, map[string]any{}, map[string]any{}
	for a, q := range s.Quota {
		quota[e.acctName(a)] = q
	}
	for a, c := range s.Cost {
		v, _ := new(big.Int).SetString(c, 10)
		cost[e.acctName(a)] = units(v)
	}
	for _, o := range s.Objs {
		pool[r.tr.hname(o.Hash)] = map[string]any{"o": r.tr.obj(o.Obj), "flag": o.Executable}
	}
	if s.Len > r.st.MaxLen {
		r.st.MaxLen = s.Len
	}
	ids := map[thor.Bytes32]int{}
	for _, o := range s.Objs {
		ids[o.ID]++
		if ids[o.ID] == 2 {
			r.smu.Lock()
			r.bump("sameid_copooled")
			r.smu.Unlock()
		}
	}
	e.evs.emit(trace.Ev{"e": "Snapshot", "label": label, "quota": quota, "cost": cost, "pool": pool, "n": s.Len})
	for _, v := range checkSnap(e, s) {
		r.viol(v.Kind, "%s (%s)", v.Detail, label)
	}
	return s
}

// checkSnap recomputes quota and pending cost from the pooled objects.
func checkSnap(e *env, s txpool.VerifSnap) []violation {
	var out []violation
	q := map[thor.Address]int{}
	c := map[thor.Address]*big.Int{}
	for _, o := range s.Objs {
		q[o.Origin]++
		if o.Delegator != nil {
			q[*o.Delegator]++
		}
		if o.Executable && o.Cost != nil {
			if c[*o.Payer] == nil {
				c[*o.Payer] = new(big.Int)
			}
			c[*o.Payer].Add(c[*o.Payer], o.Cost)
		}
	}
	accts := map[thor.Address]bool{}
	for a := range q {
		accts[a] = true
	}
	for a := range s.Quota {
		accts[a] = true
	}
	for a := range c {
		accts[a] = true
	}
	for a := range s.Cost {
		accts[a] = true
	}
	var list []thor.Address
	for a := range accts {
		list = append(list, a)
	}
	sort.Slice(list, func(i, j int) bool { return e.acctName(list[i]) < e.acctName(list[j]) })
	for _, a := range list {
		if got, has := s.Quota[a]; got != q[a] || (has && got == 0) {
			out = append(out, violation{Kind: "quota-drift", Detail: fmt.Sprintf("quota[%s] = %d (entry present: %v) but the pooled txs imply %d",
				e.acctName(a), got, has, q[a])})
		}
		want := "0"
		if c[a] != nil {
			want = c[a].String()
		}
		got, has := s.Cost[a]
		if !has {
			got = "0"
		}
		if got != want || (has && got == "0") {
			out = append(out, violation{Kind: "cost-drift", Detail: fmt.Sprintf("pending cost[%s] = %s (entry present: %v) but the pooled executable txs imply %s",
				e.acctName(a), got, has, want)})
		}
	}
	return out
}

// adoptOracle: at quiescence (pool washed on the current head, nothing in flight) every published executable must be
// adoptable by a fresh packer flow on this head; in one cumulative flow a failure is excused only if the tx was fine
// alone (an earlier pooled tx invalidated it) or the block is full; the order must be non-increasing in the
// effective priority fee.
func (r *recorder) adoptOracle() {
	e := r.e
	best := e.best()
	execs := e.pool.Executables()
	newFlow := func() *packer.Flow {
		f, err := e.proposr.Schedule(best, best.Header.Timestamp()+thor.BlockInterval())
		if err != nil {
			harnessErr("schedule: %v", err)
		}
		return f
	}
	cum := newFlow()
	var prev *big.Int
	for i, t := range execs {
		r.st.AdoptChecked++
		name := r.tr.hname(t.Hash())
		errFresh := newFlow().Adopt(t)
		freshOK := errFresh == nil || packer.IsGasLimitReached(errFresh) || isKnownTx(errFresh)
		if !freshOK {
			r.viol("adopt-fresh", "executable #%d %s is refused by a fresh flow on head %d: %v", i, name, best.Header.Number(), errFresh)
		}
		if err := cum.Adopt(t); err == nil {
			r.st.Adopted++
		} else {
			// refused in the cumulative flow: excused by the property statement when the block is full or an earlier pooled
			// tx invalidated it (then it was fine alone); a tx refused alone as well was reported above
			class := "badtx:" + err.Error()
			switch {
			case packer.IsGasLimitReached(err):
				class = "gaslimit"
			case isKnownTx(err):
				class = "known"
			case packer.IsTxNotAdoptableNow(err):
				class = "notnow"
			}
			r.smu.Lock()
			r.bump("adopt_cum_refused:" + class)
			r.smu.Unlock()
		}
		p := e.truePrio(t)
		// (one head is exempt: the last block before GALACTICA - objects priced against it already have the base fee taken
		// off, older ones not yet; the refresh follows with the first GALACTICA head)
		if prev != nil && p.Cmp(prev) > 0 && !(best.Header.BaseFee() == nil && e.nextBaseFee() != nil) {
			kind := "order"
			if r.orderKind != "" {
				kind = r.orderKind
			}
			r.viol(kind, "executables not in non-increasing priority order at #%d %s: %s after %s", i, name, p, prev)
		}
		prev = p
	}
}

func (r *recorder) quiesce(label string) {
	r.advanceHead(false)
	r.washOnce()
	r.snapshotEvent(label)
	r.adoptOracle()
}

// run executes one seeded scenario and returns its events.
func runRecord(scen string, seed int64, mode string) ([]trace.Ev, runStat) {
	rng := rand.New(rand.NewSource(seed))
	sc := pickScenario(scen, rng)
	lifetime := time.Hour
	if sc.lifetime == "always" {
		lifetime = time.Nanosecond
	}
	c0 := int64(2100)
	e := newEnv(envOpts{seed: seed, behind: sc.behind, galactica: sc.galactica, rich: 3,
		poor: poorEnergy(scen, c0),
		pool: txpool.Options{Limit: sc.limit, LimitPerAccount: sc.lpa, MaxLifetime: lifetime}})
	defer e.close()
	e.evs = &evlog{pool: e.pool}
	r := &recorder{e: e, sc: sc, rng: rng, free: mode == "free"}
	r.st = runStat{Scen: scen, Seed: seed, Mode: mode, Limit: sc.limit, Counts: map[string]int{}}
	r.tr = newTracer(e)
	e.evs.emit(trace.Ev{"e": "Reset", "scen": scen, "seed": seed, "mode": mode,
		"cfg": map[string]any{"limit": sc.limit, "lpa": sc.lpa, "lifetime": sc.lifetime, "identity": true, "relaxed": r.free, "checkprio": true}})
	e.headEvent() // the head the pool (and its housekeeping state) was created on
	if sc.behind > 30 {
		// a long chain: heads behind-5 .. behind+6 are the synced ones; get there with empty blocks (no events: only the head
		// the pool works against is a fact the specification needs)
		for e.best().Header.Number() < uint32(sc.behind-5) {
			e.advance(nil)
		}
		e.headEvent()
	}
	if scen == "basefee" {
		e.levels = []*big.Int{raisedBaseFee}
	}
	r.genUniverse()
	var s *sched
	if !r.free {
		s = &sched{rng: rng}
		r.tr.gate = func(kind string) { s.yield(kind) }
	}
	r.sched = s
	r.tr.seen = r.observe
	r.tr.isPacker = func() bool {
		r.smu.Lock()
		defer r.smu.Unlock()
		return r.packerGoid != 0 && r.packerGoid == goid()
	}
	e.pool.VerifSetTracer(r.tr.handle)
	if !r.free {
		// Go's map order would make the evaluation order differ between two runs of the same seed: fix it (seeded)
		orng := rand.New(rand.NewSource(seed ^ 0x5eed))
		e.pool.VerifSetWashOrder(func(objs []uint64) []int {
			perm := make([]int, len(objs))
			for i := range perm {
				perm[i] = i
			}
			sort.Slice(perm, func(a, b int) bool { return r.tr.obj(objs[perm[a]]) < r.tr.obj(objs[perm[b]]) })
			orng.Shuffle(len(perm), func(a, b int) { perm[a], perm[b] = perm[b], perm[a] })
			return perm
		})
	}

	r.dupStorm()
	switch sc.name {
	case "evalwindow":
		if s != nil {
			r.preludeEvalWindow(s)
		}
	case "fork":
		if s != nil {
			r.preludeRacedAdd(s)
		}
	case "sponsor":
		r.preludeSponsor()
	case "work":
		r.preludeWork()
	case "reorg":
		r.preludeReorg()
	case "drain":
		r.preludeDrain()
	case "basefee":
		r.preludeBaseFee()
	}
	if sc.name == "unsynced" {
		// the node is behind: submissions are admitted without evaluation until the pool holds Limit txs
		for i, x := range r.uni {
			if i >= sc.limit+3 {
				break
			}
			r.doAdd(97, "remote", x)
		}
		r.snapshotEvent("unsynced-prelude")
	}
	// phases: concurrent phase(s), each followed by a quiescent check
	phases := 2
	for ph := 0; ph < phases; ph++ {
		type job struct {
			name   string
			weight int
			fn     func(yield func())
		}
		var jobs []job
		for g := 0; g < sc.workers; g++ {
			g := g + ph*10
			ops := r.genOps(sc.opsPer)
			jobs = append(jobs, job{fmt.Sprintf("worker%d", g), 3, func(yield func()) {
				for _, o := range ops {
					yield()
					r.runOp(g, o, yield)
				}
			}})
		}
		nw := sc.washes
		jobs = append(jobs, job{"washer", 5, func(yield func()) {
			for i := 0; i < nw; i++ {
				yield()
				r.washOnce()
			}
		}})
		na := sc.advances
		if ph == 1 {
			na = 1
		}
		jobs = append(jobs, job{"header", 1, func(yield func()) {
			for i := 0; i < na; i++ {
				yield()
				r.advanceHead(true)
			}
		}})
		if sc.packs > 0 {
			np := sc.packs
			jobs = append(jobs, job{"packer", 2, func(yield func()) {
				for i := 0; i < np; i++ {
					yield()
					r.packOnce()
				}
			}})
		}
		if sc.block && ph == 0 {
			victim := e.accts[rng.Intn(len(e.accts))]
			jobs = append(jobs, job{"blocker", 1, func(yield func()) {
				yield()
				if r.free {
					r.hmu.Lock()
					defer r.hmu.Unlock()
				}
				e.pool.VerifSetBlocked([]thor.Address{victim.addr})
				e.evs.emit(trace.Ev{"e": "Block", "accts": []string{victim.name}})
			}})
		}
		if r.free {
			var wg sync.WaitGroup
			for _, j := range jobs {
				j := j
				wg.Add(1)
				go guard("free "+j.name, func() {
					defer wg.Done()
					j.fn(func() {})
				})
			}
			done := make(chan string, 1)
			go func() { wg.Wait(); done <- "done" }()
			await(done, "free-running phase")
		} else {
			for _, j := range jobs {
				j := j
				s.spawn(j.name, j.weight, func() { j.fn(func() { s.yield("op") }) })
			}
			s.run(nil)
		}
		r.snapshotEvent(fmt.Sprintf("after-phase-%d", ph))
		r.quiesce(fmt.Sprintf("quiescent-%d", ph))
	}
	if sc.errTrim {
		// fill beyond the limit, then a wash whose state is unavailable: the error path trims the pool to Limit
		var l []*txSpec
		for _, x := range r.uni {
			l = append(l, x)
		}
		r.doFill(99, l)
		best := e.best()
		bogus := &chain.BlockSummary{Header: best.Header, Txs: best.Txs, Size: best.Size, Conflicts: best.Conflicts + 7777}
		_, _, err := e.pool.VerifWashAt(bogus, false)
		if err == nil {
			harnessErr("wash on an unavailable state did not fail")
		}
		r.snapshotEvent("after-error-trim")
		r.quiesce("quiescent-trim")
	}
	// finally everything leaves: no entry may survive (NeverLockedOut)
	for _, sp := range pooledSorted(e) {
		r.doRemove(98, sp)
	}
	// an object that Remove cannot reach (id index lost, see report) leaves with the next wash once it is settled or expired;
	// here it is enough that whatever is left is accounted for exactly
	end := r.snapshotEvent("final")
	if end.Len == 0 && (len(end.Quota) != 0 || len(end.Cost) != 0) {
		r.viol("entries-left", "pool is empty but %d quota and %d cost entries remain", len(end.Quota), len(end.Cost))
	}
	if !e.timingOK() {
		r.st.Discarded = "slow: the sync status of a head changed during the run"
	}
	r.st.StalePromotes = r.tr.stale
	r.st.StalePrios = r.tr.stalePrio
	r.st.StalePriosRaced = r.tr.stalePrioRaced
	evs := e.evs.sorted()
	r.st.Events = len(evs)
	return evs, r.st
}

func isKnownTx(err error) bool { return err != nil && err.Error() == "known tx" }

// pooledSorted lists the pooled universe txs in a run-independent order (Dump is in Go map order).
func pooledSorted(e *env) []*txSpec {
	var out []*txSpec
	for _, t := range e.pool.Dump() {
		if sp, ok := e.txs[t.Hash()]; ok {
			out = append(out, sp)
		}
	}
	sort.Slice(out, func(i, j int) bool {
		if len(out[i].h) != len(out[j].h) {
			return len(out[i].h) < len(out[j].h)
		}
		return out[i].h < out[j].h
	})
	return out
}

func poorEnergy(scen string, c0 int64) []int64 {
	if scen == "drain" {
		return []int64{20000, 3*c0 + 100, 1000}
	}
	if scen == "sponsor" {
		return []int64{2*c0 + 500, 14000, 1000}
	}
	return []int64{2*c0 + 500, 3*c0 + 100, 1000}
}

// addToUniverse registers txs built after genUniverse.
func (r *recorder) addToUniverse(l ...*txSpec) {
	for _, s := range l {
		r.e.register(s)
		r.uni = append(r.uni, s)
	}
}

// preludeDrain: txs paid by X are pooled and published as executable; then a block that does not come from this pool
// contains another tx of X that moves X's VTHO away. The wash on the new head has to find X's txs unpayable.
func (r *recorder) preludeDrain() {
	e := r.e
	x := e.poorAcct(0)
	var rich *acct
	for _, a := range e.accts {
		if !a.poor {
			rich = a
			break
		}
	}
	base := e.best().Header.Number()
	own := e.build(txParams{org: x, gas: 42000, coef: 0, ref: base, exp: 1000}, nil)
	dlg := e.build(txParams{org: rich, dlg: x, gas: 42000, coef: 51, ref: base, exp: 1000}, nil)
	r.addToUniverse(own, dlg)
	r.doAdd(96, "remote", own)
	r.doAdd(96, "local", dlg)
	r.washOnce()
	r.snapshotEvent("drain-before")
	gas := uint64(50000)
	prepaid := new(big.Int).Mul(new(big.Int).SetUint64(gas), e.baseGP)
	amount := new(big.Int).Sub(e.energyOf(x), prepaid)
	amount.Sub(amount, new(big.Int).Mul(big.NewInt(1000), unit))
	outside := e.build(txParams{org: x, gas: gas, coef: 0, ref: base, exp: 1000, drain: amount}, nil)
	if _, in := e.advance([]*txSpec{outside}); len(in) != 1 {
		harnessErr("drain scenario: the outside tx was not adopted")
	}
	e.headEvent()
	r.st.Heads++
	if e.energyOf(x).Cmp(own.cost) >= 0 {
		harnessErr("drain scenario is vacuous: %s still has %s", x.name, e.energyOf(x))
	}
	r.washOnce()
	r.snapshotEvent("drain-after")
	r.adoptOracle()
}

// raisedBaseFee is what the base fee is made to be after the filler block of the basefee scenario: 1.01 x the initial one.
// gasUsed = target + 2.4M gives delta = base x 2.4M / 30M / 8 = 10^11 (gas limit 40M, target 75 %), a multiple of the unit
// for txs whose gas is a multiple of 100000.
var raisedBaseFee = new(big.Int).SetUint64(thor.InitialBaseFee + thor.InitialBaseFee/100)

// preludeBaseFee: dynamic-fee txs are pooled and published as executable - some whose fee cap equals the base fee, some
// whose cap leaves head-room (their effective price moves with the base fee). A block filled to exactly target + 2.4M gas
// raises the base fee by 1 %; the wash on the new head (which refreshes priorities) has to find the first kind unpayable
// and must keep accounting the second kind at the cost they were admitted with. A head-room tx admitted at the raised base
// fee is accounted at the higher cost; an empty block brings the base fee back down, wash refreshes again. Finally the
// head-room txs leave: nothing may remain of their cost.
func (r *recorder) preludeBaseFee() {
	e := r.e
	var rich []*acct
	for _, a := range e.accts {
		if !a.poor {
			rich = append(rich, a)
		}
	}
	base := e.best().Header.Number()
	t1 := e.build(txParams{org: rich[0], typed: true, maxFee: 1, maxPrio: 1, gas: 21000, ref: base, exp: 1000}, nil)
	t2 := e.build(txParams{org: rich[1], dlg: e.poorAcct(1), typed: true, maxFee: 1, maxPrio: 1, gas: 21000, ref: base, exp: 1000}, nil)
	t3 := e.build(txParams{org: rich[1], typed: true, maxFee: 2, maxPrio: 1, gas: 21000, ref: base, exp: 1000}, nil) // stays payable
	hr1 := e.build(txParams{org: rich[0], typed: true, maxFee: 5, maxPrio: 1, gas: 100000, ref: base, exp: 1000}, nil)
	hr2 := e.build(txParams{org: rich[1], dlg: e.poorAcct(1), typed: true, maxFee: 6, maxPrio: 2, gas: 100000, ref: base, exp: 1000}, nil)
	hr3 := e.build(txParams{org: rich[0], dlg: e.poorAcct(0), typed: true, maxFee: 4, maxPrio: 1, gas: 200000, ref: base, exp: 1000}, nil)
	r.addToUniverse(t1, t2, t3, hr1, hr2, hr3)
	r.doAdd(96, "remote", t1)
	r.doAdd(96, "local", t2)
	r.doAdd(96, "remote", t3)
	r.doAdd(96, "remote", hr1)
	r.doAdd(96, "local", hr2)
	r.washOnce()
	r.snapshotEvent("basefee-before")
	limit := e.best().Header.GasLimit()
	if limit != 40_000_000 {
		harnessErr("basefee scenario expects a 40M gas limit, got %d", limit)
	}
	// a block of 16 filler txs using 16 x 5000 + 16000 x clauses gas
	fillBlock := func(clauses int, label string) {
		var fill []*txSpec
		for i := 0; i < 16; i++ {
			n := clauses / 16
			if i == 15 {
				n = clauses - 15*(clauses/16)
			}
			fill = append(fill, e.build(txParams{org: rich[2], gas: thor.TxGas + uint64(n)*thor.ClauseGas, coef: 0,
				ref: base, exp: 1000, clauses: n}, nil))
		}
		if _, in := e.advance(fill); len(in) != len(fill) {
			harnessErr("basefee scenario: only %d of %d filler txs were adopted", len(in), len(fill))
		}
		e.headEvent()
		r.st.Heads++
		if after := e.nextBaseFee(); after == nil || after.Cmp(raisedBaseFee) != 0 {
			harnessErr("basefee scenario: base fee is %v after block %s, expected %v", after, label, raisedBaseFee)
		}
		r.washOnce()
		r.snapshotEvent("basefee-" + label)
		r.adoptOracle()
	}
	emptyBlock := func(label string) {
		e.advance(nil)
		e.headEvent()
		r.st.Heads++
		if after := e.nextBaseFee(); after == nil || after.Uint64() != thor.InitialBaseFee {
			harnessErr("basefee scenario: base fee is %v after block %s", after, label)
		}
		r.washOnce()
		r.snapshotEvent("basefee-" + label)
		r.adoptOracle()
	}
	// wash refreshes priorities when the HEAD's own base fee differs from its parent's, i.e. one block after the move
	fillBlock(2020, "raised")     // target + 2.4M gas: the next block's base fee is 1 % up; this head still carries the old one
	fillBlock(1870, "raised-seen") // exactly the target: the base fee stays; this head carries the raised one -> refresh (upwards)
	r.doAdd(96, "remote", hr3)     // admitted and accounted at the raised base fee
	r.washOnce()
	r.snapshotEvent("basefee-raised-added")
	emptyBlock("fallen")      // the next block's base fee is back at the floor; this head still carries the raised one
	emptyBlock("fallen-seen") // this head carries the floor -> refresh (downwards)
	for _, x := range []*txSpec{hr1, hr2, hr3} {
		r.doRemove(96, x)
	}
	r.snapshotEvent("basefee-headroom-gone")
}

// preludeEvalWindow forces the interleaving that free-running goroutines hit by chance: wash publishes the pricing of an
// object (lock-free setPricing), then - before wash's evaluation event is logged - another goroutine removes that very
// object; RemoveByHash reports it as priced. Deterministic: the wash is parked inside the window.
func (r *recorder) preludeEvalWindow(s *sched) {
	e := r.e
	var rich *acct
	for _, a := range e.accts {
		if !a.poor {
			rich = a
			break
		}
	}
	base := e.best().Header.Number()
	x := e.build(txParams{org: rich, gas: 21000, coef: 51, ref: base, exp: 1000}, nil)
	y := e.build(txParams{org: rich, gas: 21000, coef: 102, ref: base, exp: 1000}, nil)
	r.addToUniverse(x, y)
	r.doFill(96, []*txSpec{x, y}) // pooled without pricing
	r.advanceHead(false)          // the next tick washes
	held := false
	r.tr.holdEval = func(ev txpool.VerifEvent) bool {
		if held || ev.Hash != x.tx.Hash() || ev.Kind != "eval.done" {
			return false
		}
		held = true
		s.yield("eval.hold")
		return true
	}
	w := s.spawn("washer", 1, func() { r.washOnce() })
	rm := s.spawn("remover", 1, func() { r.doRemove(96, x) })
	s.run(func(live []*task) *task {
		if !w.done && w.where != "eval.hold" {
			return w
		}
		if !rm.done {
			return rm
		}
		return w
	})
	r.tr.holdEval = nil
	if !held {
		harnessErr("evalwindow scenario is vacuous: the wash never evaluated the filled tx")
	}
	r.smu.Lock()
	r.bump("eval_window_removes")
	r.smu.Unlock()
	r.snapshotEvent("evalwindow")
}

// preludeReorg: block A (on H) settles t1; a dependent of t1 becomes executable and is accounted. Then a sibling B of A
// (same parent, same slot, other content) and a child C of B make the other branch the best chain: the head changes at
// the same height (if B wins the tie) and then moves to a chain that does not contain t1: t1 is unknown again and can be
// submitted again, its dependent is no longer executable (it stays pooled, flagged and accounted), t2 is settled instead.
func (r *recorder) preludeReorg() {
	e := r.e
	var rich []*acct
	for _, a := range e.accts {
		if !a.poor {
			rich = append(rich, a)
		}
	}
	base := e.best().Header.Number()
	t1 := e.build(txParams{org: rich[0], gas: 21000, coef: 102, ref: base, exp: 1000}, nil)
	t2 := e.build(txParams{org: rich[1], gas: 21000, coef: 51, ref: base, exp: 1000}, nil)
	dep := e.build(txParams{org: rich[1], dlg: e.poorAcct(1), gas: 21000, coef: 0, ref: base, exp: 1000, dep: t1}, nil)
	r.addToUniverse(t1, t2, dep)
	r.doAdd(96, "remote", t1)
	r.doAdd(96, "remote", t2)
	r.doAdd(96, "remote", dep) // dependency not on chain yet: pooled as non-executable
	r.washOnce()
	h := e.best().Header.ID()
	mint := func(parent thor.Bytes32, txs ...*txSpec) thor.Bytes32 {
		var l []*tx.Transaction
		for _, x := range txs {
			l = append(l, x.tx)
		}
		blk, err := e.net.Mint(parent, 0, false, 0, l...)
		if err != nil {
			harnessErr("reorg scenario: mint: %v", err)
		}
		if e.syncHead() {
			r.st.Heads++
		}
		return blk.Header().ID()
	}
	mint(h, t1) // A
	r.washOnce()
	r.snapshotEvent("reorg-branch-a")
	r.adoptOracle()
	b := mint(h, t2) // B: a sibling of A; the best block only if its id is the smaller one
	r.washOnce()
	mint(b) // C: the other branch is longer now
	if e.best().Header.ParentID() != b {
		harnessErr("reorg scenario: the longer branch did not become the best chain")
	}
	r.washOnce()
	r.snapshotEvent("reorg-branch-b")
	r.adoptOracle()
	r.doAdd(96, "remote", t1) // unknown again on this chain
	r.washOnce()
	r.snapshotEvent("reorg-readded")
	r.adoptOracle()
	r.smu.Lock()
	r.bump("reorgs")
	r.smu.Unlock()
}

// preludeWork: w carries proved work (block ref = prefix of a real block id 29 blocks back, mined nonce) worth 1 % on its gas
// price; v is an ordinary tx priced between w's price with and without the work. One block later the work no longer counts
// (delay > MaxTxWorkDelay).
func (r *recorder) preludeWork() {
	e := r.e
	var rich []*acct
	for _, a := range e.accts {
		if !a.poor {
			rich = append(rich, a)
		}
	}
	head := e.best().Header.Number()
	refNum := head + 1 - thor.MaxTxWorkDelay // the work counts for block head+1 (delay 30) and not for head+2
	refID, err := e.net.God.Repo.NewChain(e.best().Header.ID()).GetBlockID(refNum)
	must(err)
	w := e.build(txParams{org: rich[0], gas: 21000, coef: 0, ref: refNum, refID: &refID, exp: 1000, minWork: 210_000}, nil)
	v := e.build(txParams{org: rich[1], typed: true, maxFee: 200, prioWei: big.NewInt(995e12), gas: 100000, ref: head, exp: 1000}, nil)
	r.addToUniverse(w, v)
	r.doAdd(96, "remote", w)
	r.doAdd(96, "remote", v)
	r.washOnce()
	r.snapshotEvent("work-counts")
	r.adoptOracle()
	r.advanceHead(false)
	r.washOnce()
	r.snapshotEvent("work-expired")
	r.orderKind = "order-stale-work" // w's cached priority still contains the work bonus; the packer will not get it
	r.adoptOracle()
	r.orderKind = ""
	r.smu.Lock()
	r.bump("work_expiries")
	r.smu.Unlock()
}

// preludeSponsor: account R gets a credit plan (prototype), users u1 (VET-poor) and u2, and a VET-poor sponsor S. Txs of the
// users to R are charged to S while S can pay, then to R; a tx of a non-user to R is charged to its origin. The real packer
// loop then includes them: S is drained and credit is used up, so the payer of the remaining ones changes with the head -
// but an object keeps the payer (and the pending cost entry) it was priced with.
func (r *recorder) preludeSponsor() {
	e := r.e
	var rich []*acct
	for _, a := range e.accts {
		if !a.poor {
			rich = append(rich, a)
		}
	}
	R, S, u1, u2, stranger := rich[2], e.poorAcct(1), e.poorAcct(0), rich[0], e.poorAcct(2)
	proto := func(name string, args ...any) *tx.Clause {
		m, ok := builtin.Prototype.ABI.MethodByName(name)
		if !ok {
			harnessErr("no prototype method %s", name)
		}
		d, err := m.EncodeInput(args...)
		must(err)
		return tx.NewClause(&builtin.Prototype.Address).WithData(d)
	}
	base := e.best().Header.Number()
	credit := new(big.Int).Mul(big.NewInt(9000), unit)
	setup := []*txSpec{
		e.build(txParams{org: R, gas: 400000, coef: 0, ref: base, exp: 1000, raw: []*tx.Clause{
			proto("setCreditPlan", R.addr, credit, big.NewInt(0)), proto("addUser", R.addr, u1.addr), proto("addUser", R.addr, u2.addr)}}, nil),
		e.build(txParams{org: S, gas: 100000, coef: 0, ref: base, exp: 1000, raw: []*tx.Clause{proto("sponsor", R.addr)}}, nil),
		e.build(txParams{org: R, gas: 100000, coef: 0, ref: base, exp: 1000, raw: []*tx.Clause{proto("selectSponsor", R.addr, S.addr)}}, nil),
	}
	if _, in := e.advance(setup); len(in) != len(setup) {
		harnessErr("sponsor scenario: only %d of %d setup txs were adopted", len(in), len(setup))
	}
	e.plan = R
	e.headEvent()
	r.st.Heads++
	ref := e.best().Header.Number()
	l := []*txSpec{
		e.build(txParams{org: u1, to: R, gas: 21000, coef: 0, ref: ref, exp: 1000}, nil),
		e.build(txParams{org: u2, to: R, gas: 21000, coef: 51, ref: ref, exp: 1000}, nil),
		e.build(txParams{org: u1, to: R, gas: 42000, coef: 0, ref: ref, exp: 1000}, nil),
		e.build(txParams{org: u2, to: R, gas: 42000, coef: 102, ref: ref, exp: 1000}, nil),
		e.build(txParams{org: stranger, to: R, gas: 21000, coef: 0, ref: ref, exp: 1000}, nil), // not a user: its poor origin cannot pay
		e.build(txParams{org: u2, to: R, typed: true, maxFee: 3, maxPrio: 2, gas: 21000, ref: ref, exp: 1000}, nil),
	}
	r.addToUniverse(l...)
	e.headEvent() // the payers of the new txs are facts of this head
	paidByOther := 0
	for _, x := range l {
		if p := e.payerOf(x); p != x.org.name && p != "nobody" {
			paidByOther++
		}
		r.doAdd(96, "remote", x)
	}
	if paidByOther < 3 {
		harnessErr("sponsor scenario is vacuous: only %d txs are charged to the sponsor or the plan account", paidByOther)
	}
	r.washOnce()
	r.snapshotEvent("sponsor-pooled")
	r.adoptOracle()
	r.packOnce() // the packer loop includes them: the sponsor is charged, credit is used up
	r.washOnce()
	r.snapshotEvent("sponsor-after-block")
	r.adoptOracle()
	r.smu.Lock()
	r.st.Counts["sponsored_txs"] += paidByOther
	r.smu.Unlock()
}

// preludeRacedAdd (fork scenario, gate-scheduled): an Add evaluates - and prices - its tx against the last head before the
// fork is priced in, is parked just before its critical section, the head moves on (the next block is a GALACTICA block:
// priorities now have the base fee taken off), the wash for the new head runs to the end, and only then the Add inserts its
// object. The following wash (head unchanged) leaves that object with the old head's priority: the known finding
// order:stale-priority:add-raced-head-change. It lasts until the next head change.
func (r *recorder) preludeRacedAdd(s *sched) {
	e := r.e
	if e.nextBaseFee() != nil || e.best().Header.Number()+2 < e.net.FC.GALACTICA {
		return // needs: this head priced without a base fee, the next one with
	}
	var rich *acct
	for _, a := range e.accts {
		if !a.poor {
			rich = a
			break
		}
	}
	x := e.build(txParams{org: rich, gas: 21000, coef: 51, ref: e.best().Header.Number(), exp: 1000}, nil)
	r.addToUniverse(x)
	adder := s.spawn("adder", 1, func() { r.doAdd(96, "remote", x) })
	header := s.spawn("header", 1, func() { r.advanceHead(false) })
	wash1 := s.spawn("washer", 1, func() { r.washOnce() })
	wash2 := s.spawn("washer", 1, func() { r.washOnce() })
	s.run(func(live []*task) *task {
		switch {
		case !adder.done && adder.where != "pre.add" && !header.done:
			return adder
		case !header.done:
			return header
		case !wash1.done:
			return wash1
		case !adder.done:
			return adder
		}
		return wash2
	})
	r.smu.Lock()
	r.bump("raced_adds")
	r.smu.Unlock()
	r.snapshotEvent("raced-add")
}

// dupStorm: the same tx is submitted by several goroutines at once (as when it arrives from several peers), released
// together while another Add keeps txObjectMap's write lock: every submission has finished its lock-free prefix and waits
// for the map. Exactly one of them may insert an object; quota and pending cost must count the tx once (the accounting
// snapshot is recomputed from the pool content right after). Real goroutines in every mode: the blocking tracer is the gate.
func (r *recorder) dupStorm() {
	e := r.e
	var rich []*acct
	for _, a := range e.accts {
		if !a.poor {
			rich = append(rich, a)
		}
	}
	const n = 6
	base := e.best().Header.Number()
	x := e.build(txParams{org: rich[0], dlg: rich[2], gas: 21000, coef: 51, ref: base, exp: 1000}, nil) // two quota slots, one cost
	z := e.build(txParams{org: rich[1], gas: 21000, coef: 0, ref: base, exp: 1000}, nil)
	r.addToUniverse(x, z)
	var mu sync.Mutex
	arrived := 0
	allArrived := make(chan struct{})
	goOn := make(chan struct{})     // releases the submitters from their pre.add site
	holding := make(chan struct{})  // the blocker is inside its critical section
	release := make(chan struct{})  // lets the blocker leave it
	xh, zh := x.tx.Hash(), z.tx.Hash()
	hold := func(ev txpool.VerifEvent) {
		switch {
		case ev.Kind == "pre.add" && ev.Hash == xh:
			mu.Lock()
			arrived++
			if arrived == n {
				close(allArrived)
			}
			mu.Unlock()
			<-goOn
		case ev.Kind == "add" && ev.Hash == zh && ev.Locked:
			close(holding)
			<-release
		}
	}
	r.tr.hold.Store(&hold)
	var wg sync.WaitGroup
	for i := 0; i < n; i++ {
		wg.Add(1)
		go guard("duplicate submitter", func() {
			defer wg.Done()
			kind := []string{"remote", "local", "strict"}[i%3]
			r.doAdd(80+i, kind, x)
		})
	}
	wait := func(ch chan struct{}, what string) {
		select {
		case <-ch:
		case <-time.After(hangTimeout):
			hang(what)
		}
	}
	wait(allArrived, "duplicate submitters reaching txObjectMap.Add")
	wg.Add(1)
	go guard("lock holder", func() {
		defer wg.Done()
		r.doAdd(79, "remote", z)
	})
	wait(holding, "the blocking Add entering its critical section")
	close(goOn)                          // the submitters go for the map (its lock is held)
	time.Sleep(3 * time.Millisecond)     // ... and queue up on it
	close(release)
	done := make(chan struct{})
	go func() { wg.Wait(); close(done) }()
	wait(done, "duplicate submissions returning")
	r.tr.hold.Store(nil)
	r.smu.Lock()
	r.bump("dup_storms")
	r.smu.Unlock()
	r.snapshotEvent("dup-storm")
	r.doRemove(78, x)
	r.doRemove(78, z)
	r.snapshotEvent("dup-storm-removed")
}
