package main

import (
	"bytes"
	"crypto/ecdsa"
	"crypto/sha256"
	"encoding/binary"
	"errors"
	"fmt"
	"math"
	"math/big"
	"os"
	"runtime/debug"
	"sort"
	"strings"
	"time"

	"github.com/ethereum/go-ethereum/crypto"

	"github.com/vechain/thor/v2/block"
	"github.com/vechain/thor/v2/builtin"
	"github.com/vechain/thor/v2/chain"
	"github.com/vechain/thor/v2/cmd/thor/node"
	"github.com/vechain/thor/v2/consensus/upgrade/galactica"
	"github.com/vechain/thor/v2/packer"
	"github.com/vechain/thor/v2/thor"
	"github.com/vechain/thor/v2/tx"
	"github.com/vechain/thor/v2/txpool"

	"verifharness/internal/sim"
	"verifharness/internal/trace"
)

// unit: every cost the harness produces is a multiple of it (gas is a multiple of 1000, prices of 10^13 wei);
// the specification computes with cost/unit and floor(energy/unit). Checked at run time (harnessErr otherwise).
var unit = new(big.Int).Exp(big.NewInt(10), big.NewInt(16), nil)

const infUnits = 1_000_000_000 // Inf of TxPool.tla: accounts with at least this much are not tracked

func harnessErr(format string, a ...any) {
	fmt.Printf("HARNESS-ERROR "+format+"\n", a...)
	os.Exit(3)
}

// must: an error in the driver's own plumbing is harness trouble (exit 3), never a panic that could pass for one of thor's.
func must(err error) {
	if err != nil {
		harnessErr("%v\n%s", err, debug.Stack())
	}
}

type acct struct {
	name string
	key  *ecdsa.PrivateKey
	addr thor.Address
	poor bool
}

// txSpec is what the harness knows about a signed transaction of its universe.
type txSpec struct {
	h, id     string // interned names
	tx        *tx.Transaction
	org, dlg  *acct
	dep       string // interned id or "none"
	cost      *big.Int
	reverting bool
	to        *acct
	registered bool
}

type envOpts struct {
	seed      int64
	behind    int // S of the launch-time scheme: heads S-5 .. S+6 are "synced" (5 = synced from genesis on)
	galactica uint32
	poor      []int64 // energy of the poor accounts in units (funded by the first block)
	poorNames []string
	rich      int     // number of rich accounts
	pool      txpool.Options
}

// env is one real chain + one real pool.
type env struct {
	opt     envOpts
	net     *sim.Net
	pool    *txpool.TxPool
	start   time.Time
	startNS int64
	accts   []*acct
	byAddr  map[thor.Address]*acct
	txs     map[thor.Bytes32]*txSpec // by hash
	txByH   map[string]*txSpec
	hashes  *trace.Interner
	ids     *trace.Interner
	idDone  map[thor.Bytes32]bool // ids of universe txs included in the chain -> reverted?
	idRev   map[thor.Bytes32]bool
	nonce   uint64
	heads   []headFact
	evs     *evlog
	baseGP  *big.Int
	plan     *acct // an account with a prototype credit plan, users and a sponsor: txs to it may be paid by others
	lastHead thor.Bytes32 // the head the last Head event described
	blocks   *trace.Interner
	pnode    *node.Node // a real node whose tx pool is the pool under test: its packer loop body consumes the executables
	pcomm    *sim.Comm
	ptmp     string
	levels  []*big.Int // base fees this run may see besides the initial one (the expected cost is logged per level)
	proposr *packer.Packer
}

type headFact struct {
	num    uint32
	ts     uint64
	synced bool
}

func poorKey(seed int64, i int) *ecdsa.PrivateKey {
	var b [16]byte
	binary.BigEndian.PutUint64(b[:8], uint64(seed))
	binary.BigEndian.PutUint64(b[8:], uint64(i)+1)
	h := sha256.Sum256(append([]byte("verif-c18-poor"), b[:]...))
	k, err := crypto.ToECDSA(h[:])
	must(err)
	return k
}

// newEnv builds the chain: genesis, then block 1 that funds the poor accounts with VTHO only (no VET, so their
// energy never grows). The pool is created on head 1 with housekeeping driven by the caller.
func newEnv(o envOpts) *env {
	now := time.Now()
	launch := uint64(now.Unix()) - uint64(10*o.behind) - 5
	gal := o.galactica
	so := sim.Options{Validators: 1, Nodes: 1, EpochLength: 180, ExtraAccts: o.rich, SkipLogs: true, LaunchTime: launch}
	if gal == math.MaxUint32 {
		so.NoGalactica = true
	} else {
		so.Galactica = gal
	}
	e := &env{opt: o, start: now, startNS: now.UnixNano(), byAddr: map[thor.Address]*acct{}, txs: map[thor.Bytes32]*txSpec{},
		txByH: map[string]*txSpec{}, hashes: trace.NewInterner("h"), ids: trace.NewInterner("i"),
		idDone: map[thor.Bytes32]bool{}, idRev: map[thor.Bytes32]bool{}, blocks: trace.NewInterner("b")}
	e.net = sim.NewNet(so)
	for i := 0; i < o.rich; i++ {
		d := e.net.Devs[1+i]
		e.addAcct(&acct{name: fmt.Sprintf("r%d", i), key: d.PrivateKey, addr: d.Address})
	}
	for i := range o.poor {
		k := poorKey(o.seed, i)
		name := fmt.Sprintf("p%d", i)
		if i < len(o.poorNames) {
			name = o.poorNames[i]
		}
		e.addAcct(&acct{name: name, key: k, addr: thor.Address(crypto.PubkeyToAddress(k.PublicKey)), poor: true})
	}
	bgp, err := builtin.Params.Native(e.net.God.Stater.NewState(e.net.God.Best().Root())).Get(thor.KeyLegacyTxBaseGasPrice)
	must(err)
	e.baseGP = bgp
	// block 1: funding
	var fund []*tx.Transaction
	if len(o.poor) > 0 {
		method, _ := builtin.Energy.ABI.MethodByName("transfer")
		b := tx.NewBuilder(tx.TypeLegacy).ChainTag(e.net.God.Repo.ChainTag()).Gas(uint64(60000 * (len(o.poor) + 1))).
			Expiration(1000).Nonce(uint64(o.seed)<<8 | 0xff)
		for i, units := range o.poor {
			amt := new(big.Int).Mul(big.NewInt(units), unit)
			amt.Add(amt, new(big.Int).Div(unit, big.NewInt(2))) // + half a unit: floor() is robust
			data, err := method.EncodeInput(e.poorAcct(i).addr, amt)
			must(err)
			b.Clause(tx.NewClause(&builtin.Energy.Address).WithData(data))
		}
		fund = append(fund, tx.MustSign(b.Build(), e.net.Devs[0].PrivateKey))
	}
	if _, err := e.net.Mint(e.net.God.Best().Header.ID(), 0, false, 0, fund...); err != nil {
		harnessErr("funding block: %v", err)
	}
	e.pool = txpool.VerifNewManual(e.net.God.Repo, e.net.God.Stater, o.pool, e.net.FC)
	e.proposr = packer.New(e.net.God.Repo, e.net.God.Stater, e.net.Devs[0].Address, &e.net.Devs[0].Address, e.net.FC, 0)
	return e
}

func (e *env) close() {
	if e.pnode != nil {
		e.pnode.VerifClose()
		os.RemoveAll(e.ptmp)
	}
	e.pool.VerifSetTracer(nil)
	e.pool.Close()
	e.pool.VerifRelease()
	e.net.Close()
}

func (e *env) addAcct(a *acct) {
	e.accts = append(e.accts, a)
	e.byAddr[a.addr] = a
}

func (e *env) poorAcct(i int) *acct {
	k := 0
	for _, a := range e.accts {
		if a.poor {
			if k == i {
				return a
			}
			k++
		}
	}
	panic("no such poor account")
}

func (e *env) acctName(a thor.Address) string {
	if x, ok := e.byAddr[a]; ok {
		return x.name
	}
	return "x" + a.String()[2:10]
}

// idName is the name under which the specification knows a tx id.
func (e *env) idName(id thor.Bytes32) string {
	for _, s := range e.txs {
		if s.tx.ID() == id {
			return s.id
		}
	}
	return e.ids.Name(id[:])
}

func (e *env) best() *chain.BlockSummary { return e.net.God.Repo.BestBlockSummary() }

func (e *env) isSynced(ts uint64) bool {
	now := uint64(time.Now().Unix())
	d := now - ts
	if ts > now {
		d = ts - now
	}
	return d < thor.BlockInterval()*6
}

// payerOf mirrors the payer order of runtime.BuyGas for a non-delegated tx whose clauses all go to the plan account, on the
// state of the current head (for the next block): enough user credit -> the current sponsor if it can pay, else the account
// itself if it can; otherwise (or without credit) the origin if it can; else nobody.
func (e *env) payerOf(s *txSpec) string {
	best := e.best()
	st := e.net.God.Stater.NewState(best.Root())
	when := best.Header.Timestamp() + thor.BlockInterval()
	bf := e.nextBaseFee()
	if bf == nil && s.tx.Type() != tx.TypeLegacy {
		bf = new(big.Int).SetUint64(thor.InitialBaseFee)
	}
	prepaid := new(big.Int).Mul(new(big.Int).SetUint64(s.tx.Gas()), s.tx.EffectiveGasPrice(bf, e.baseGP))
	energy := builtin.Energy.Native(st, when)
	can := func(a thor.Address) bool {
		v, err := energy.Get(a)
		must(err)
		return v.Cmp(prepaid) >= 0
	}
	binding := builtin.Prototype.Native(st).Bind(e.plan.addr)
	credit, err := binding.UserCredit(s.org.addr, when)
	must(err)
	if credit.Cmp(prepaid) >= 0 {
		sponsor, err := binding.CurrentSponsor()
		must(err)
		is, err := binding.IsSponsor(sponsor)
		must(err)
		if is && can(sponsor) {
			return e.acctName(sponsor)
		}
		if can(e.plan.addr) {
			return e.plan.name
		}
	}
	if can(s.org.addr) {
		return s.org.name
	}
	return "nobody"
}

// energyOf is the payer's VTHO as the pool and the packer see it for the block after the current head.
func (e *env) energyOf(a *acct) *big.Int {
	best := e.best()
	v, err := builtin.Energy.Native(e.net.God.Stater.NewState(best.Root()), best.Header.Timestamp()+thor.BlockInterval()).Get(a.addr)
	must(err)
	return v
}

// units converts a wei amount that must be a multiple of the unit.
func units(v *big.Int) int64 {
	q, r := new(big.Int).QuoRem(v, unit, new(big.Int))
	if r.Sign() != 0 {
		harnessErr("amount %s is not a multiple of the unit %s", v, unit)
	}
	if !q.IsInt64() || q.Int64() >= infUnits {
		harnessErr("amount %s too large for the unit", v)
	}
	return q.Int64()
}

func floorUnits(v *big.Int) int64 {
	q := new(big.Int).Quo(v, unit)
	if !q.IsInt64() || q.Int64() >= infUnits {
		return infUnits
	}
	return q.Int64()
}

// digits: a non-negative big integer as three base-10^9 digits, most significant first (compared lexicographically)
func digits(v *big.Int) []int64 {
	if v == nil {
		return []int64{}
	}
	if v.Sign() < 0 {
		return []int64{-1, 0, 0} // below every real value (a fee cap under the base fee gives a negative priority)
	}
	m := big.NewInt(1_000_000_000)
	x := new(big.Int).Set(v)
	out := make([]int64, 3)
	for i := 2; i >= 0; i-- {
		r := new(big.Int)
		x.QuoRem(x, m, r)
		out[i] = r.Int64()
	}
	if x.Sign() != 0 {
		harnessErr("priority %s too large", v)
	}
	return out
}

// ---------------------------------------------------------------------------------------------- transactions

type txParams struct {
	org, dlg  *acct
	typed     bool
	gas       uint64 // multiple of 1000
	coef      uint8  // legacy: multiple of 51
	maxFee    int64  // typed: in 10^13 wei
	maxPrio   int64  // typed: in 10^13 wei
	ref       uint32
	exp       uint32
	dep       *txSpec
	reverting bool // the clause reverts when executed (VTHO transfer above the balance)
	to        *acct
	drain     *big.Int // the clause transfers this much VTHO away from the origin
	clauses   int      // > 0: that many plain zero-value clauses (block filler)
	refID     *thor.Bytes32 // block ref = the first 8 bytes of this block id (proved work only counts then)
	raw       []*tx.Clause  // the clauses, verbatim
	prioWei   *big.Int      // typed: maxPriorityFeePerGas in wei (overrides maxPrio)
	minWork   int64         // mine the nonce until the tx's work is at least this
}

// nextBaseFee is the base fee of the block after the current head (nil before GALACTICA).
func (e *env) nextBaseFee() *big.Int {
	return galactica.CalcBaseFee(e.best().Header, e.net.FC)
}

func (e *env) effPrice(t *tx.Transaction) *big.Int {
	bf := e.nextBaseFee()
	if bf == nil && t.Type() != tx.TypeLegacy {
		bf = new(big.Int).SetUint64(thor.InitialBaseFee) // typed txs are only priced from GALACTICA on
	}
	return t.EffectiveGasPrice(bf, e.baseGP)
}

// expectedPrio is the priority fee per gas the pool must assign when it evaluates against the current head, computed
// with the tx package's own accessors (the pool computes it by hand from cached ceilings). gala: the next block is a
// GALACTICA block (base fee = the initial base fee in all runs: blocks stay far below the gas target).
func (e *env) expectedPrio(t *tx.Transaction, gala bool) *big.Int {
	best := e.best()
	ch := e.net.God.Repo.NewChain(best.Header.ID())
	work, err := t.ProvedWork(best.Header.Number()+1, ch.GetBlockID)
	must(err)
	if !gala {
		if t.Type() != tx.TypeLegacy {
			return new(big.Int) // never priced before the fork
		}
		return t.OverallGasPrice(e.baseGP, work)
	}
	return t.EffectivePriorityFeePerGas(new(big.Int).SetUint64(thor.InitialBaseFee), e.baseGP, work)
}

// prioWith is the priority fee per gas of t under base fee bf (nil: before GALACTICA) with the given proved work,
// computed with the tx package's own accessors.
func (e *env) prioWith(t *tx.Transaction, bf *big.Int, work *big.Int) *big.Int {
	if bf == nil {
		if t.Type() != tx.TypeLegacy {
			return new(big.Int)
		}
		return t.OverallGasPrice(e.baseGP, work)
	}
	return t.EffectivePriorityFeePerGas(bf, e.baseGP, work)
}

// prioAt is the priority fee t has for the block after the given head (current base fee, work only while it counts).
func (e *env) prioAt(t *tx.Transaction, head thor.Bytes32) *big.Int {
	sum, err := e.net.God.Repo.GetBlockSummary(head)
	must(err)
	work, err := t.ProvedWork(sum.Header.Number()+1, e.net.God.Repo.NewChain(head).GetBlockID)
	must(err)
	return e.prioWith(t, galactica.CalcBaseFee(sum.Header, e.net.FC), work)
}

// workOf is the work that counts for t while its block ref is recent enough: its own (unproved) work if the block ref
// is the prefix of the id of that block on the current chain, else none.
func (e *env) workOf(t *tx.Transaction) *big.Int {
	ref := t.BlockRef()
	best := e.best()
	if t.Type() != tx.TypeLegacy || ref.Number() > best.Header.Number() {
		return new(big.Int)
	}
	id, err := e.net.God.Repo.NewChain(best.Header.ID()).GetBlockID(ref.Number())
	if err != nil || !bytes.HasPrefix(id[:], ref[:]) {
		return new(big.Int)
	}
	return t.UnprovedWork()
}

// prioTables: priority per base fee the run may see ("0": before GALACTICA), with and without the proved work.
func (e *env) prioTables(t *tx.Transaction) (with, without map[string]any) {
	with, without = map[string]any{}, map[string]any{}
	work := e.workOf(t)
	with["0"], without["0"] = digits(e.prioWith(t, nil, work)), digits(e.prioWith(t, nil, new(big.Int)))
	if e.net.FC.GALACTICA != math.MaxUint32 {
		for _, bf := range append([]*big.Int{new(big.Int).SetUint64(thor.InitialBaseFee)}, e.levels...) {
			with[bf.String()], without[bf.String()] = digits(e.prioWith(t, bf, work)), digits(e.prioWith(t, bf, new(big.Int)))
		}
	}
	return
}

// feeCap is the most a tx pays per gas: the legacy gas price (proved work excluded), or maxFeePerGas.
func feeCap(t *tx.Transaction, baseGP *big.Int) *big.Int {
	if t.Type() == tx.TypeLegacy {
		return t.EffectiveGasPrice(nil, baseGP)
	}
	return t.MaxFeePerGas()
}

// truePrio is the effective priority fee of t for the block after the current head (the packer's view).
func (e *env) truePrio(t *tx.Transaction) *big.Int {
	best := e.best()
	ch := e.net.God.Repo.NewChain(best.Header.ID())
	work, err := t.ProvedWork(best.Header.Number()+1, ch.GetBlockID)
	must(err)
	bf := e.nextBaseFee()
	if bf == nil {
		return t.OverallGasPrice(e.baseGP, work)
	}
	return t.EffectivePriorityFeePerGas(bf, e.baseGP, work)
}

// build signs a tx; sameBodyAs != nil re-signs that tx's body (same id) with another delegator.
func (e *env) build(p txParams, sameBodyAs *txSpec) *txSpec {
	var body *tx.Transaction
	if sameBodyAs != nil {
		body = sameBodyAs.tx
		p.org = sameBodyAs.org
	} else {
		ty := tx.TypeLegacy
		if p.typed {
			ty = tx.TypeDynamicFee
		}
		e.nonce++
		b := tx.NewBuilder(ty).ChainTag(e.net.God.Repo.ChainTag()).Gas(p.gas).BlockRef(tx.NewBlockRef(p.ref)).
			Expiration(p.exp).Nonce(uint64(e.opt.seed)<<20 | e.nonce)
		if p.typed {
			b.MaxFeePerGas(new(big.Int).Mul(big.NewInt(p.maxFee), big.NewInt(1e13))).
				MaxPriorityFeePerGas(new(big.Int).Mul(big.NewInt(p.maxPrio), big.NewInt(1e13)))
			if p.prioWei != nil {
				b.MaxPriorityFeePerGas(p.prioWei)
			}
		} else {
			b.GasPriceCoef(p.coef)
		}
		if p.dep != nil {
			id := p.dep.tx.ID()
			b.DependsOn(&id)
		}
		to := e.net.Devs[0].Address
		if p.to != nil {
			to = p.to.addr
		}
		if p.raw != nil {
			for _, c := range p.raw {
				b.Clause(c)
			}
		} else if p.clauses > 0 {
			for i := 0; i < p.clauses; i++ {
				b.Clause(tx.NewClause(&to).WithValue(big.NewInt(0)))
			}
		} else if p.drain != nil {
			method, _ := builtin.Energy.ABI.MethodByName("transfer")
			data, err := method.EncodeInput(to, p.drain)
			must(err)
			b.Clause(tx.NewClause(&builtin.Energy.Address).WithData(data))
		} else if p.reverting {
			method, _ := builtin.Energy.ABI.MethodByName("transfer")
			huge := new(big.Int).Lsh(big.NewInt(1), 200)
			data, err := method.EncodeInput(to, huge)
			must(err)
			b.Clause(tx.NewClause(&builtin.Energy.Address).WithData(data))
		} else {
			b.Clause(tx.NewClause(&to).WithValue(big.NewInt(0)))
		}
		if p.dlg != nil {
			var f tx.Features
			f.SetDelegated(true)
			b.Features(f)
		}
		if p.refID != nil {
			b.BlockRef(tx.NewBlockRefFromID(*p.refID))
		}
		body = b.Build()
		if p.minWork > 0 {
			eval := body.EvaluateWork(p.org.addr)
			want := big.NewInt(p.minWork)
			n := uint64(e.opt.seed)<<32 | e.nonce<<24
			for tries := 0; ; tries, n = tries+1, n+1 {
				if tries > 50_000_000 {
					harnessErr("could not mine a nonce with work >= %d", p.minWork)
				}
				if eval(n).Cmp(want) >= 0 {
					break
				}
			}
			body = b.Nonce(n).Build()
		}
	}
	var signed *tx.Transaction
	if p.dlg != nil {
		signed = tx.MustSignDelegated(body, p.org.key, p.dlg.key)
	} else {
		signed = tx.MustSign(body, p.org.key)
	}
	h := signed.Hash()
	if old, ok := e.txs[h]; ok {
		return old
	}
	id := signed.ID()
	s := &txSpec{h: e.hashes.Name(h[:]), id: e.ids.Name(id[:]), tx: signed, org: p.org, dlg: p.dlg, dep: "none", reverting: p.reverting, to: p.to}
	if sameBodyAs != nil {
		s.dep = sameBodyAs.dep
		s.reverting = sameBodyAs.reverting
	} else if p.dep != nil {
		s.dep = p.dep.id
	}
	e.txs[h] = s
	e.txByH[s.h] = s
	return s
}

// register emits the Tx event: what the specification may know about this signed transaction.
func (e *env) register(s *txSpec) {
	t := s.tx
	s.registered = true
	price := e.effPrice(t)
	if e.nextBaseFee() != nil && t.Type() != tx.TypeLegacy {
		// typed: min(maxFee, baseFee + maxPrio) with the base fee of this run (constant, see DESIGN: blocks stay small)
	}
	s.cost = new(big.Int).Mul(new(big.Int).SetUint64(t.Gas()), price)
	dlg := "none"
	if s.dlg != nil {
		dlg = s.dlg.name
	}
	// the harness's own computation of what the payer is charged when the tx is priced at a given base fee
	costs := map[string]any{}
	if e.net.FC.GALACTICA != math.MaxUint32 {
		for _, bf := range append([]*big.Int{new(big.Int).SetUint64(thor.InitialBaseFee)}, e.levels...) {
			costs[bf.String()] = units(new(big.Int).Mul(new(big.Int).SetUint64(t.Gas()), t.EffectiveGasPrice(bf, e.baseGP)))
		}
	}
	prios, priosnw := e.prioTables(t)
	e.evs.emit(trace.Ev{"e": "Tx", "h": s.h, "tx": map[string]any{
		"prios": prios, "priosnw": priosnw, "k": s.h,
		"id": s.id, "org": s.org.name, "dlg": dlg, "cost": units(s.cost), "costs": costs, "cap": digits(feeCap(t, e.baseGP)), "prio": digits(e.expectedPrio(t, true)), "prio0": digits(e.expectedPrio(t, false)),
		"ref": t.BlockRef().Number(), "exp": t.Expiration(), "dep": s.dep, "typed": t.Type() != tx.TypeLegacy,
	}})
}

// ---------------------------------------------------------------------------------------------------- heads

// headEvent emits the facts of the current head that the specification's Evaluate depends on.
func (e *env) headEvent() {
	best := e.best()
	h := best.Header
	st := e.net.God.Stater.NewState(best.Root())
	en := map[string]any{}
	for _, a := range e.accts {
		if !a.poor {
			continue
		}
		v, err := builtin.Energy.Native(st, h.Timestamp()+thor.BlockInterval()).Get(a.addr)
		must(err)
		en[a.name] = floorUnits(v)
	}
	// which universe txs this head's chain contains (walked from the head: correct on any branch, also after a reorg)
	var incl, rev []string
	known := map[thor.Bytes32]*txSpec{}
	for _, sp := range e.txs {
		known[sp.tx.ID()] = sp
	}
	e.idDone, e.idRev = map[thor.Bytes32]bool{}, map[thor.Bytes32]bool{}
	for sum := best; sum.Header.Number() > 0; {
		if len(sum.Txs) > 0 {
			receipts, err := e.net.God.Repo.GetBlockReceipts(sum.Header.ID())
			must(err)
			for i, id := range sum.Txs {
				if sp, ok := known[id]; ok {
					e.idDone[id] = true
					incl = append(incl, sp.id)
					if receipts[i].Reverted {
						e.idRev[id] = true
						rev = append(rev, sp.id)
					}
				}
			}
		}
		parent, err := e.net.God.Repo.GetBlockSummary(sum.Header.ParentID())
		must(err)
		sum = parent
	}
	// wash refreshes priorities only when the head's OWN base fee differs from its parent's (or the parent has none)
	refresh := false
	if h.BaseFee() != nil && h.Number() > 0 {
		parent, err := e.net.God.Repo.GetBlockSummary(h.ParentID())
		must(err)
		refresh = parent.Header.BaseFee() == nil || parent.Header.BaseFee().Cmp(h.BaseFee()) != 0
	}
	e.lastHead = h.ID()
	sort.Strings(incl)
	sort.Strings(rev)
	if incl == nil {
		incl = []string{}
	}
	if rev == nil {
		rev = []string{}
	}
	synced := e.isSynced(h.Timestamp())
	e.heads = append(e.heads, headFact{h.Number(), h.Timestamp(), synced})
	bf := e.nextBaseFee()
	if bf == nil {
		bf = new(big.Int)
	}
	// who pays the txs that go to the account with the credit plan (prototype: sponsor, the account itself, or the origin)
	payers := map[string]any{}
	if e.plan != nil {
		for _, sp := range e.txs {
			if sp.to == e.plan && sp.dlg == nil && sp.registered {
				payers[sp.h] = e.payerOf(sp)
			}
		}
	}
	e.evs.emit(trace.Ev{"e": "Head", "hd": map[string]any{"num": h.Number(), "incl": incl, "rev": rev, "energy": en, "payers": payers, "basefee": digits(bf), "bf": bf.String(),
		"id": e.blocks.Name(h.ID().Bytes()), "refresh": refresh,
		"gala": h.Number()+1 >= e.net.FC.GALACTICA, "synced": synced}})
}

// advance mints the next block with the given universe txs (those that cannot be adopted are left out).
func (e *env) advance(cands []*txSpec) (*block.Block, []*txSpec) {
	parent := e.best().Header.ID()
	var in []*txSpec
	var txs []*tx.Transaction
	// probe adoptability one by one on a scratch flow so that Mint does not fail as a whole
	flow, err := e.proposr.Schedule(e.best(), e.best().Header.Timestamp()+thor.BlockInterval())
	if err != nil {
		harnessErr("schedule: %v", err)
	}
	for _, c := range cands {
		if err := flow.Adopt(c.tx); err == nil {
			in = append(in, c)
			txs = append(txs, c.tx)
		}
	}
	blk, err := e.net.Mint(parent, 0, false, 0, txs...)
	if err != nil {
		harnessErr("mint: %v", err)
	}
	return blk, in
}

// syncHead logs the Head event if the repository's best block is not the one last described.
func (e *env) syncHead() bool {
	if e.best().Header.ID() == e.lastHead {
		return false
	}
	e.headEvent()
	return true
}

// ensureNode builds the real node over the chain whose tx pool is the pool under test.
func (e *env) ensureNode() *node.Node {
	if e.pnode == nil {
		g := e.net.God
		dev := e.net.Devs[0]
		if e.ptmp == "" {
			dir, err := os.MkdirTemp("", "verif-poolsim-")
			must(err)
			e.ptmp = dir
		}
		e.pcomm = &sim.Comm{}
		e.pnode = node.New(&node.Master{PrivateKey: dev.PrivateKey, Beneficiary: &dev.Address}, g.Repo, g.BFT, g.Stater, g.LogDB,
			e.pool, e.ptmp, e.pcomm, e.net.FC, node.Options{SkipLogs: true}, g.Cons, g.Packer)
	}
	return e.pnode
}

// newPool replaces the pool (and the node built on it) by fresh ones: what a process restart does to them.
func (e *env) newPool() {
	if e.pnode != nil {
		e.pnode.VerifClose()
		e.pnode = nil
	}
	e.pool.VerifSetTracer(nil)
	e.pool.Close()
	e.pool.VerifRelease()
	e.pool = txpool.VerifNewManual(e.net.God.Repo, e.net.God.Stater, e.opt.pool, e.net.FC)
	e.evs.pool = e.pool
}

// packBlock runs the body of the node's packer loop for one block on a REAL node whose tx pool is the pool under test:
// Executables() -> flow.Adopt each -> Pack -> commitBlock -> cleanupTransactions (pool.Remove of what Adopt called bad).
func (e *env) packBlock() (*block.Block, error) {
	g := e.net.God
	e.ensureNode()
	must(e.pnode.VerifInit()) // blocks minted outside this node moved the chain on
	best := e.best()
	flow, err := g.Packer.Schedule(best, best.Header.Timestamp()+thor.BlockInterval())
	if err != nil {
		return nil, err
	}
	before := len(e.pcomm.Out)
	if err := e.pnode.VerifDoPack(flow); err != nil {
		return nil, err
	}
	if len(e.pcomm.Out) != before+1 {
		return nil, errors.New("doPack did not broadcast a block")
	}
	return e.pcomm.Out[len(e.pcomm.Out)-1], nil
}

// timingOK: the sync status logged for every head must still be what the pool would compute now; a run for which it is
// not (the machine was too slow: a head slid out of / into the 6-interval window) is discarded by the caller.
func (e *env) timingOK() bool {
	for _, h := range e.heads {
		if e.isSynced(h.ts) != h.synced {
			return false
		}
	}
	return true
}

var errClassTable = []struct{ sub, class string }{
	{"tx rejected: expired", "rejected:expired"},
	{"tx rejected: block ref out of schedule", "rejected:inadmissible"},
	{"tx rejected: transaction type not supported", "rejected:inadmissible"},
	{"tx rejected: tx gas exceeds block gas limit", "rejected:inadmissible"},
	{"tx rejected: known tx", "rejected:settled"},
	{"tx rejected: dep reverted", "rejected:depreverted"},
	{"tx rejected: insufficient energy for overall pending cost", "payer"},
	{"tx rejected: insufficient energy", "rejected:unpayable"},
	{"tx rejected: gas price is less than block base fee", "rejected:unpayable"},
	{"tx rejected: pool is full", "full"},
	{"tx rejected: tx is not executable", "notexec"},
	{"tx rejected: non executable pool is full", "nonexecfull"},
	{"tx rejected: account quota exceeded", "quota"},
	{"tx rejected: delegator quota exceeded", "dquota"},
}

// errClass maps an error of TxPool.add to the verdict names of the specification.
func errClass(err error) string {
	if err == nil {
		return "ok"
	}
	s := err.Error()
	for _, c := range errClassTable {
		if strings.HasPrefix(s, c.sub) {
			return c.class
		}
	}
	return "other:" + s
}

// evalErrClass maps an Evaluate error seen by wash to the drop reasons of the specification.
func evalErrClass(s string) string {
	switch {
	case s == "expired":
		return "expired"
	case s == "known tx":
		return "settled"
	case s == "dep reverted":
		return "depreverted"
	case s == "insufficient energy" || s == "gas price is less than block base fee":
		return "unpayable"
	case s == "block ref out of schedule" || strings.Contains(s, "type not supported") || s == "tx gas exceeds block gas limit":
		return "inadmissible"
	}
	return "other:" + s
}

var errNotFound = errors.New("not found")
