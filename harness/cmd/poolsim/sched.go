package main

import (
	"fmt"
	"math/rand"
	"sort"
	"strings"
	"sync"
	"sync/atomic"

	"github.com/vechain/thor/v2/thor"
	"github.com/vechain/thor/v2/txpool"

	"verifharness/internal/trace"
)

// evlog collects events in the order of the pool-wide sequence number.
type evlog struct {
	mu   sync.Mutex
	evs  []seqEv
	pool *txpool.TxPool
}

type seqEv struct {
	seq uint64
	ev  trace.Ev
}

// emit logs a harness-level event; it draws its number from the same sequence as the hook events.
func (l *evlog) emit(ev trace.Ev) {
	var s uint64
	if l.pool != nil {
		s = l.pool.VerifSeq()
	}
	l.put(s, ev)
}

func (l *evlog) put(seq uint64, ev trace.Ev) {
	l.mu.Lock()
	l.evs = append(l.evs, seqEv{seq, ev})
	l.mu.Unlock()
}

func (l *evlog) sorted() []trace.Ev {
	l.mu.Lock()
	defer l.mu.Unlock()
	sort.SliceStable(l.evs, func(i, j int) bool { return l.evs[i].seq < l.evs[j].seq })
	out := make([]trace.Ev, len(l.evs))
	for i, e := range l.evs {
		out[i] = e.ev
	}
	return out
}

// ------------------------------------------------------------------------------------------------ scheduler

// sched runs tasks one at a time; a task gives control back at its park points (the unlocked hook sites of
// the pool, reached through the blocking tracer, and the boundaries between harness-level operations).
// The schedule is a deterministic function of the seed.
type sched struct {
	rng   *rand.Rand
	tasks []*task
	cur   *task
	on    bool
}

type task struct {
	name   string
	resume chan struct{}
	parked chan string
	done   bool
	where  string
	weight int
}

func (s *sched) spawn(name string, weight int, fn func()) *task {
	t := &task{name: name, resume: make(chan struct{}), parked: make(chan string), weight: weight, where: "start"}
	s.tasks = append(s.tasks, t)
	go guard("task "+name, func() {
		<-t.resume
		fn()
		t.done = true
		t.parked <- "done"
	})
	return t
}

// yield parks the calling task (must be the current one).
func (s *sched) yield(point string) {
	if !s.on || s.cur == nil {
		return
	}
	t := s.cur
	t.parked <- point
	<-t.resume
}

// step resumes t until its next park point.
func (s *sched) step(t *task) string {
	s.cur = t
	t.resume <- struct{}{}
	p := await(t.parked, "task "+t.name+" after "+t.where) // watchdog: a task that never parks again is a hang
	t.where = p
	s.cur = nil
	return p
}

// run schedules until every task is done. prefer biases the choice (e.g. keep others going while a wash is in flight).
func (s *sched) run(prefer func(ts []*task) *task) {
	s.on = true
	for {
		var live []*task
		for _, t := range s.tasks {
			if !t.done {
				live = append(live, t)
			}
		}
		if len(live) == 0 {
			break
		}
		var t *task
		if prefer != nil {
			t = prefer(live)
		}
		if t == nil {
			total := 0
			for _, x := range live {
				total += x.weight
			}
			k := s.rng.Intn(total)
			for _, x := range live {
				if k < x.weight {
					t = x
					break
				}
				k -= x.weight
			}
		}
		s.step(t)
	}
	s.on = false
	s.tasks = nil
}

// ------------------------------------------------------------------------------------------------- tracer

// gateKinds: unlocked hook sites at which a blocking tracer parks the caller.
var gateKinds = map[string]bool{
	"pre.add": true, "pre.remove": true, "pre.promote": true, "pre.fill": true, "pre.costof": true,
	"eval.begin": true, "wash.limit": true, "wash.evict": true, "pre.publish": true,
}

type tracer struct {
	e     *env
	objs  map[uint64]int // pool object identity -> dense per-run number
	mu    sync.Mutex
	gate  func(kind string) // nil: never block
	seen  func(ev txpool.VerifEvent)
	// holdEval may park the wash goroutine between the (lock-free) publication of a pricing and the logging of the eval
	// event; it returns true if it did
	holdEval func(ev txpool.VerifEvent) bool
	// isPacker tells whether the calling goroutine runs the node's packer loop body: its pool.Remove calls
	// (cleanupTransactions) are operations nobody announced, the tracer logs their begin/end itself
	isPacker func() bool
	// hold, if set, is called after every event was logged and may block the calling goroutine there
	hold atomic.Pointer[func(ev txpool.VerifEvent)]
	stalePrio int          // evaluations after which a priced object's priority was not the one for the wash's head
	washHead  thor.Bytes32 // head of the wash in flight
	washChg   bool         // that wash runs because the head changed
	// the one stale-priority shape that is a known finding: an Add priced under one head and inserted under the next, not
	// yet seen by a wash that runs because of a head change
	stalePrioRaced int
	addHead        map[thor.Bytes32]thor.Bytes32 // tx hash -> head when its Add began
	raced          map[uint64]bool               // objects inserted under another head than they were priced under
	stale int // promote events (successful) of an object that was not the pooled object of its hash
	cur   map[thor.Bytes32]uint64
}

func newTracer(e *env) *tracer {
	return &tracer{e: e, objs: map[uint64]int{}, cur: map[thor.Bytes32]uint64{}, addHead: map[thor.Bytes32]thor.Bytes32{},
		raced: map[uint64]bool{}}
}

func (t *tracer) obj(id uint64) int {
	if id == 0 {
		return 0
	}
	t.mu.Lock()
	defer t.mu.Unlock()
	if n, ok := t.objs[id]; ok {
		return n
	}
	n := len(t.objs) + 1
	t.objs[id] = n
	return n
}

func (t *tracer) objsOf(ids []uint64) []int {
	out := make([]int, len(ids))
	for i, id := range ids {
		out[i] = t.obj(id)
	}
	return out
}

func (t *tracer) hname(h thor.Bytes32) string {
	if s, ok := t.e.txs[h]; ok {
		return s.h
	}
	return "unknown-" + fmt.Sprintf("%x", h[:4])
}

// timeDigits: time added relative to the start of the run as [seconds, nanoseconds]
func (t *tracer) timeDigits(ns int64) []int64 {
	d := ns - t.e.startNS
	if d < 0 {
		d = 0
	}
	return []int64{d / 1_000_000_000, d % 1_000_000_000}
}

// handle is the VerifSetTracer callback.
func (t *tracer) handle(ev txpool.VerifEvent) {
	e := t.e
	if t.seen != nil {
		t.seen(ev)
	}
	out := trace.Ev{}
	emit := true
	switch ev.Kind {
	case "add", "fill", "remove", "promote", "promote.miss", "promote.noop", "add.dup", "add.quota", "add.dquota", "add.payer", "fill.dup":
		out["e"] = map[string]string{"add": "add", "fill": "fill", "remove": "remove", "promote": "promote", "promote.miss": "promote_miss",
			"promote.noop": "promote_noop", "add.dup": "add_dup", "add.quota": "add_quota", "add.dquota": "add_dquota",
			"add.payer": "add_payer", "fill.dup": "fill_dup"}[ev.Kind]
		out["h"] = t.hname(ev.Hash)
		out["o"] = t.obj(ev.Obj)
		out["x"] = ev.Executable
		out["src"] = ev.Source
		out["t"] = t.timeDigits(ev.TimeAdded)
		out["n"] = ev.Len
		out["qo"] = ev.QuotaOrigin
		out["qd"] = ev.QuotaDelegator
		out["priced"] = ev.Cost != nil
		if ev.Cost != nil {
			out["cost"] = units(ev.Cost)
			out["prio"] = digits(ev.Prio)
			out["pay"] = e.acctName(*ev.Payer)
			cp := int64(0)
			if ev.CostPayer != nil {
				cp = units(ev.CostPayer)
			}
			out["cp"] = cp
		}
		// finding F6 is recognisable in the event stream itself: a successful promote of an object that is not
		// the pooled object of its hash
		t.mu.Lock()
		switch ev.Kind {
		case "add", "fill":
			if h, ok := t.addHead[ev.Hash]; ok && ev.Kind == "add" && h != e.lastHead {
				t.raced[ev.Obj] = true
			}
			t.cur[ev.Hash] = ev.Obj
		case "remove":
			delete(t.cur, ev.Hash)
		case "promote":
			if t.cur[ev.Hash] != ev.Obj {
				t.stale++
				out["stale"] = true
			}
		}
		t.mu.Unlock()
	case "remove.miss":
		out["e"] = "remove_miss"
		out["h"] = t.hname(ev.Hash)
		out["n"] = ev.Len
	case "costof":
		out["e"] = "costof"
		out["a"] = e.acctName(ev.Account)
		c := int64(0)
		if ev.CostPayer != nil {
			c = units(ev.CostPayer)
		}
		out["c"] = c
	case "snapshot":
		out["e"] = "snapshot"
		os := t.objsOf(ev.Objs) // a set (Go map order): logged sorted; wash_begin carries the evaluation order
		sort.Ints(os)
		out["os"] = os
	case "wash.begin":
		t.washHead = ev.HeadID
		t.washChg = ev.HeadChanged
		out["e"] = "wash_begin"
		out["os"] = t.objsOf(ev.Objs)
		out["num"] = ev.HeadNum
		out["changed"] = ev.HeadChanged
	case "tick":
		out["e"] = "tick"
		out["num"] = ev.HeadNum
		out["changed"] = ev.HeadChanged
		out["ran"] = ev.Ran
		out["forced"] = ev.Forced
	case "eval.blocked", "eval.outlived", "eval.drop", "eval.done":
		out["e"] = "eval"
		out["o"] = t.obj(ev.Obj)
		out["h"] = t.hname(ev.Hash)
		out["why"] = "none"
		switch ev.Kind {
		case "eval.blocked":
			out["res"], out["why"] = "drop", "blocked"
		case "eval.outlived":
			out["res"], out["why"] = "drop", "outlived"
		case "eval.drop":
			out["res"], out["why"] = "drop", evalErrClass(ev.Err)
		default:
			if ev.Result {
				out["res"] = "exec"
			} else {
				out["res"] = "nonexec"
			}
		}
		out["priced"] = ev.Cost != nil
		out["prio"] = digits(ev.Prio)
		if ev.Cost != nil {
			out["cost"] = units(ev.Cost)
			out["pay"] = e.acctName(*ev.Payer)
		}
		// recognisable in the event stream itself: the priority left on a priced object is not the one for this wash's head
		if ev.Prio != nil && ev.Kind == "eval.done" && ev.Tx != nil {
			if sum, err := e.net.God.Repo.GetBlockSummary(t.washHead); err == nil && sum.Header.Number()+1 >= e.net.FC.GALACTICA {
				t.mu.Lock()
				if ev.Prio.Cmp(e.prioAt(ev.Tx, t.washHead)) != 0 {
					if t.raced[ev.Obj] && !t.washChg {
						out["staleprio"] = "raced"
						t.stalePrioRaced++
					} else {
						out["staleprio"] = true
						t.stalePrio++
					}
				}
				if t.washChg {
					delete(t.raced, ev.Obj) // a head-change wash brings it up to date
				}
				t.mu.Unlock()
			}
		}
	case "wash.limit":
		out["e"] = "wash_limit"
		out["ex"] = t.objsOf(ev.Objs)
		out["rm"] = t.objsOf(ev.Removes)
	case "wash.unpayable":
		out["e"] = "wash_unpayable"
		out["o"] = t.obj(ev.Obj)
	case "wash.evict":
		out["e"] = "wash_evict"
		out["o"] = t.obj(ev.Obj)
	case "wash.error":
		out["e"] = "wash_error"
	case "publish":
		out["e"] = "publish"
		hs := make([]string, len(ev.Hashes))
		for i, h := range ev.Hashes {
			hs[i] = t.hname(h)
		}
		out["hs"] = hs
		ps := make([][]int64, len(ev.Prios))
		for i, p := range ev.Prios {
			ps[i] = digits(p)
		}
		out["prios"] = ps
	case "wash.end":
		out["e"] = "wash_end"
		out["failed"] = ev.Err != ""
	case "pre.remove":
		emit = false
		if t.isPacker != nil && t.isPacker() {
			// GetByID let it through; RemoveByHash is next. The block the packer just committed is the head by now.
			e.syncHead()
			e.evs.emit(trace.Ev{"e": "RemoveBegin", "g": 95, "h": t.hname(ev.Hash)})
		}
	default:
		emit = false // pre.* and eval.begin are gates only
	}
	if emit {
		seq := ev.Seq
		if t.holdEval != nil && strings.HasPrefix(ev.Kind, "eval.") && ev.Kind != "eval.begin" && t.holdEval(ev) {
			// the pricing is published, the event is not yet logged: what a goroutine descheduled between setPricing and the
			// hook call looks like. The event takes its place in the sequence when it is finally emitted.
			seq = e.pool.VerifSeq()
		}
		e.evs.put(seq, out)
		if (ev.Kind == "remove" || ev.Kind == "remove.miss") && t.isPacker != nil && t.isPacker() {
			e.evs.emit(trace.Ev{"e": "RemoveEnd", "g": 95, "res": ev.Kind == "remove"})
		}
	}
	if h := t.hold.Load(); h != nil {
		(*h)(ev) // may block the caller right here - at a Locked event that keeps txObjectMap.lock held
	}
	if !ev.Locked && gateKinds[ev.Kind] && t.gate != nil {
		t.gate(ev.Kind)
	}
}
