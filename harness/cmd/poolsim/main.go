// poolsim binds TxPool.tla to the real transaction pool (property C18).
//
//	poolsim -mode record -out <dir> -runs N -seed S [-scen list] [-sched sched|free|both]
//	    implementation -> model: seeded drivers run Add/AddLocal/StrictlyAdd/Remove/Fill/wash/head advances against
//	    a real pool on a real chain; the hook events (emitted under txObjectMap.lock with the post-state) are written
//	    to <dir>/trace.ndjson for Trace_TxPool.tla; per-run statistics and direct oracle results to <dir>/runs.json.
//	poolsim -mode universe
//	    prints the facts of the fixed replay universe (to be compared with what TLC explored).
//	poolsim -mode replay -beh <file> -out <dir> [-expect state|invariants]
//	    model -> implementation: behaviours exported by TLC are replayed on a real pool; the wash goroutine is stepped
//	    through its lock sites with the blocking tracer as a gate.
package main

import (
	"encoding/json"
	"flag"
	"fmt"
	"os"
	"path/filepath"
	"strings"

	"verifharness/internal/trace"
)

func main() { guard("main", realMain) }

func realMain() {
	mode := flag.String("mode", "record", "record | universe | replay | realloop | stash")
	out := flag.String("out", ".", "output directory")
	runs := flag.Int("runs", 8, "number of runs")
	seed := flag.Int64("seed", 1, "seed")
	scen := flag.String("scen", "all", "scenario name, comma list, or all")
	schedMode := flag.String("sched", "both", "sched (deterministic gate scheduler) | free (free-running goroutines) | both")
	beh := flag.String("beh", "", "behaviour file (one JSON behaviour per line)")
	expect := flag.String("expect", "state", "replay: compare with the recorded post-states, or check the invariants on the real snapshots")
	flag.Parse()
	must(os.MkdirAll(*out, 0o755))
	switch *mode {
	case "record":
		list := scenarioNames
		if *scen != "all" {
			list = strings.Split(*scen, ",")
		}
		var all []trace.Ev
		var stats []runStat
		for i := 0; i < *runs; i++ {
			m := *schedMode
			if m == "both" {
				m = "sched"
				if i%5 == 4 { // 5 is coprime to the number of scenarios: every scenario runs in both modes
					m = "free"
				}
			}
			evs, st := runRecord(list[i%len(list)], *seed*1000003+int64(i), m)
			stats = append(stats, st)
			if st.Discarded != "" {
				continue // e.g. too slow for the wall-clock facts it logged: no evidence, no verdict
			}
			all = append(all, evs...)
		}
		must(trace.WriteNDJSON(filepath.Join(*out, "trace.ndjson"), all))
		writeJSON(filepath.Join(*out, "runs.json"), stats)
		b, _ := json.Marshal(map[string]any{"runs": len(stats), "events": len(all)})
		fmt.Println(string(b))
	case "stash":
		var all []trace.Ev
		var stats []stashStat
		for i := 0; i < *runs; i++ {
			evs, st := runStash(*seed*1000003+int64(i), *out)
			stats = append(stats, st)
			if st.Discarded == "" {
				all = append(all, evs...)
			}
		}
		must(trace.WriteNDJSON(filepath.Join(*out, "stash-trace.ndjson"), all))
		writeJSON(filepath.Join(*out, "stash-runs.json"), stats)
		b, _ := json.Marshal(map[string]any{"runs": len(stats), "events": len(all)})
		fmt.Println(string(b))
	case "realloop":
		var res []realLoopResult
		for i := 0; i < *runs; i++ {
			res = append(res, runRealLoop(*seed*1000003+int64(i)))
		}
		writeJSON(filepath.Join(*out, "realloop.json"), res)
		b, _ := json.Marshal(map[string]any{"runs": len(res)})
		fmt.Println(string(b))
	case "universe":
		printUniverse()
	case "replay":
		res := replayFile(*beh, *expect)
		writeJSON(filepath.Join(*out, "replay.json"), res)
		b, _ := json.Marshal(map[string]any{"behaviours": len(res.Runs), "steps": res.Steps, "mismatches": res.Mismatches})
		fmt.Println(string(b))
	default:
		harnessErr("unknown mode %s", *mode)
	}
}

func writeJSON(path string, v any) {
	f, err := os.Create(path)
	must(err)
	enc := json.NewEncoder(f)
	enc.SetIndent("", " ")
	must(enc.Encode(v))
	must(f.Close())
}
