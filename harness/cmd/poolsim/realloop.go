package main

import (
	"fmt"
	"math/rand"
	"sort"
	"time"

	"github.com/vechain/thor/v2/packer"
	"github.com/vechain/thor/v2/thor"
	"github.com/vechain/thor/v2/tx"
	"github.com/vechain/thor/v2/txpool"
)

// The real housekeeping loop.  Everywhere else the driver is the housekeeping loop itself (VerifWash runs the body of one
// tick, a transcription of TxPool.housekeeping).  Here a pool created with txpool.New runs its own goroutine on its own
// 1 s ticker, next to a manually driven pool on the same chain; both get the same operations.  After every step the real
// loop is given two ticks, the manual pool one VerifWash, and then
//   - the real pool must satisfy the direct oracles (accounting recomputed from its snapshot; every executable it
//     publishes is adoptable by a fresh packer flow on the head) - a failure is an observation on the real code;
//   - both pools must agree (executables in order, quota, cost, flags) - a difference with the oracles satisfied means
//     the transcription in the hook no longer matches the loop: reported as drift (infrastructure), not as a violation.

type realLoopResult struct {
	Seed       int64       `json:"seed"`
	Steps      int         `json:"steps"`
	Published  int         `json:"published"` // executables the real loop published, summed over the steps
	Washes     int         `json:"washesSeen"` // steps after which the real loop's publication had changed
	Violations []violation `json:"violations,omitempty"`
	Drift      []string    `json:"drift,omitempty"`
	Discarded  string      `json:"discarded,omitempty"`
}

func runRealLoop(seed int64) realLoopResult {
	res := realLoopResult{Seed: seed}
	rng := rand.New(rand.NewSource(seed))
	opts := txpool.Options{Limit: 12, LimitPerAccount: 4, MaxLifetime: time.Hour}
	e := newEnv(envOpts{seed: seed, behind: 5, galactica: 0, rich: 3, poor: []int64{4700, 6400, 1000}, pool: opts})
	defer e.close()
	e.evs = &evlog{pool: e.pool}
	real := txpool.New(e.net.God.Repo, e.net.God.Stater, opts, e.net.FC)
	defer real.Close()
	r := &recorder{e: e, rng: rng, sc: pickScenario("mixed", rng)}
	r.st.Counts = map[string]int{}
	r.tr = newTracer(e)
	e.headEvent()
	r.genUniverse()

	both := func(f func(p *txpool.TxPool)) { f(e.pool); f(real) }
	var lastPub string
	sync := func(label string) {
		e.pool.VerifWash()
		time.Sleep(2200 * time.Millisecond) // two ticks of the real loop
		res.Steps++
		// (1) oracles on the real pool
		snap := real.VerifSnapshot()
		for _, v := range checkSnap(e, snap) {
			v.Detail = "real housekeeping loop, " + label + ": " + v.Detail
			res.Violations = append(res.Violations, v)
		}
		best := e.best()
		pub := real.Executables()
		res.Published += len(pub)
		if k := fmt.Sprint(hashesOf(e, pub)); k != lastPub {
			lastPub = k
			res.Washes++
		}
		for i, t := range pub {
			flow, err := e.proposr.Schedule(best, best.Header.Timestamp()+thor.BlockInterval())
			if err != nil {
				harnessErr("schedule: %v", err)
			}
			if err := flow.Adopt(t); err != nil && !packer.IsGasLimitReached(err) && !isKnownTx(err) {
				res.Violations = append(res.Violations, violation{"adopt-fresh", fmt.Sprintf(
					"real housekeeping loop, %s: executable #%d %s is refused by a fresh flow on head %d: %v", label, i, hashesOf(e, tx.Transactions{t})[0],
					best.Header.Number(), err), res.Steps})
			}
		}
		// (2) agreement with the manually driven pool
		a, b := hashesOf(e, e.pool.Executables()), hashesOf(e, pub)
		if fmt.Sprint(a) != fmt.Sprint(b) {
			res.Drift = append(res.Drift, fmt.Sprintf("%s: executables differ: VerifWash %v, real loop %v", label, a, b))
		}
		if x, y := accounting(e, e.pool.VerifSnapshot()), accounting(e, snap); x != y {
			res.Drift = append(res.Drift, fmt.Sprintf("%s: accounting differs: VerifWash %s, real loop %s", label, x, y))
		}
	}
	// executable txs of rich accounts only while nothing is published yet (admission must not depend on publication timing)
	var plain, other []*txSpec
	for _, s := range r.uni {
		t := s.tx
		if !s.org.poor && s.dlg == nil && s.dep == "none" && !s.reverting && t.BlockRef().Number() <= 1 && t.Expiration() >= 1000 {
			plain = append(plain, s)
		} else {
			other = append(other, s)
		}
	}
	for i, s := range plain {
		if i < 6 {
			both(func(p *txpool.TxPool) { _ = p.Add(s.tx) })
		}
	}
	sync("after adds")
	// a block takes some of them; the loop must notice the head and wash
	e.advance(plain[:min(2, len(plain))])
	e.headEvent()
	sync("after a block")
	// everything else: non-executable, expiring, dependent, delegated, unpayable ...; fills and removals
	for i, s := range other {
		switch i % 3 {
		case 0:
			both(func(p *txpool.TxPool) { _ = p.Add(s.tx) })
		case 1:
			both(func(p *txpool.TxPool) { p.Fill(tx.Transactions{s.tx}) })
		default:
			both(func(p *txpool.TxPool) { _ = p.AddLocal(s.tx) })
		}
	}
	if len(plain) > 2 {
		both(func(p *txpool.TxPool) { p.Remove(plain[2].tx.Hash(), plain[2].tx.ID()) })
	}
	sync("after mixed submissions")
	e.advance(nil)
	e.headEvent()
	sync("after an empty block")
	if !e.timingOK() {
		res.Discarded = "slow: the sync status of a head changed during the run"
	}
	return res
}

func hashesOf(e *env, txs tx.Transactions) []string {
	out := make([]string, len(txs))
	for i, t := range txs {
		if s, ok := e.txs[t.Hash()]; ok {
			out[i] = s.h
		} else {
			out[i] = "?"
		}
	}
	return out
}

// accounting renders what both pools must agree on: the pool size, the pending costs and the executable objects. Which
// non-executable objects survive the 20 % rule depends on the evaluation order of a wash (Go map order), so their identity
// - and with it the quota entries - may legitimately differ between two pools; their number may not.
func accounting(e *env, s txpool.VerifSnap) string {
	var c, o []string
	for a, v := range s.Cost {
		c = append(c, fmt.Sprintf("%s=%s", e.acctName(a), v))
	}
	nonexec := 0
	for _, x := range s.Objs {
		h := "?"
		if sp, ok := e.txs[x.Hash]; ok {
			h = sp.h
		}
		if x.Executable {
			o = append(o, h)
		} else {
			nonexec++
		}
	}
	sort.Strings(c)
	sort.Strings(o)
	return fmt.Sprintf("len=%d cost=%v executable=%v non-executable=%d", s.Len, c, o, nonexec)
}
