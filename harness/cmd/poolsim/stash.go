package main

import (
	"bytes"
	"context"
	"fmt"
	"math/rand"
	"os"
	"path/filepath"
	"runtime"
	"sort"
	"strings"
	"sync"
	"time"

	"github.com/vechain/thor/v2/cmd/thor/node"
	"github.com/vechain/thor/v2/thor"
	"github.com/vechain/thor/v2/tx"
	"github.com/vechain/thor/v2/txpool"

	"verifharness/internal/trace"
)

// The node's tx stash (cmd/thor/node/tx_stash.go, txStashLoop) bound to TxStash.tla / Trace_TxStash.tla.
//
// One run = one real chain + real pool + a real txStash on a scratch leveldb directory.  The tx events the pool posts
// (Add: executable / non-executable / nil while not synced; wash: promoted) drive the stash in two ways:
//   direct  the driver subscribes to the pool's feed and does what the loop body does - Save unless Executable is true -
//           on the real txStash, logging the FIFO and the key order read back from the db after every Save; the stash is
//           closed and re-opened in between (LoadAll -> pool.Fill), the pool staying alive;
//   loop    the node's real txStashLoop runs on the stash (hook VerifRunTxStashLoop); the driver's own subscription sees the
//           same events in the same order (event.Feed serialises Send); stopping the loop, replacing pool and node and
//           starting the loop again is a process restart: LoadAll -> pool.Fill on an empty pool.
// Events: Reset{cap, ord}, PoolIn/PoolOut/PoolFill (pool membership, from the pool hooks), TxEvent{h, exec}, Snap{fifo, keys},
// Stop{keep}, Start{loaded?}.

type stashStat struct {
	Seed       int64          `json:"seed"`
	Cap        int            `json:"cap"`
	Events     int            `json:"events"`
	Counts     map[string]int `json:"counts"`
	Violations []violation    `json:"violations,omitempty"`
	Discarded  string         `json:"discarded,omitempty"`
}

type stashRun struct {
	e      *env
	r      *recorder
	st     stashStat
	evs    []trace.Ev
	mu     sync.Mutex
	stash  *node.VerifTxStash
	dir    string
	cap    int
	direct bool // the driver performs the loop body itself
	// feed
	sub      interface{ Unsubscribe() }
	ch       chan *txpool.TxEvent
	got      int // tx events received
	expected int // tx events the pool must have posted (counted from the hook events)
	cancel   context.CancelFunc
	loopDone chan struct{}
}

func (s *stashRun) emit(ev trace.Ev) {
	s.mu.Lock()
	s.evs = append(s.evs, ev)
	s.mu.Unlock()
}

func (s *stashRun) bump(k string) {
	s.mu.Lock()
	s.st.Counts[k]++
	s.mu.Unlock()
}

func (s *stashRun) name(h thor.Bytes32) string {
	if sp, ok := s.e.txs[h]; ok {
		return sp.h
	}
	return fmt.Sprintf("unknown-%x", h[:4])
}

func (s *stashRun) snap() {
	var fifo, keys []string
	for _, h := range s.stash.Fifo() {
		fifo = append(fifo, s.name(h))
	}
	for _, k := range s.stash.Keys() {
		keys = append(keys, s.name(thor.BytesToBytes32(k)))
	}
	if fifo == nil {
		fifo = []string{}
	}
	if keys == nil {
		keys = []string{}
	}
	if len(keys) > s.st.Counts["max_on_disk"] {
		s.st.Counts["max_on_disk"] = len(keys)
	}
	s.emit(trace.Ev{"e": "Snap", "fifo": fifo, "keys": keys})
}

// observe: pool hook events -> pool membership for the specification, and the number of tx events to expect
func (s *stashRun) observe(ev txpool.VerifEvent) {
	switch ev.Kind {
	case "add":
		s.emit(trace.Ev{"e": "PoolIn", "h": s.name(ev.Hash)})
		s.mu.Lock()
		s.expected++
		s.mu.Unlock()
	case "fill":
		s.emit(trace.Ev{"e": "PoolFill", "h": s.name(ev.Hash), "new": true})
		s.bump("fill_new")
	case "fill.dup":
		s.emit(trace.Ev{"e": "PoolFill", "h": s.name(ev.Hash), "new": false})
		s.bump("fill_dup")
	case "remove":
		s.emit(trace.Ev{"e": "PoolOut", "h": s.name(ev.Hash)})
	case "promote":
		s.mu.Lock()
		s.expected++
		s.mu.Unlock()
	case "eval.done":
		if ev.Result && ev.Executable && ev.Source == "local" { // wash re-broadcasts local executables
			s.mu.Lock()
			s.expected++
			s.mu.Unlock()
		}
	}
}

func (s *stashRun) subscribe() {
	s.ch = make(chan *txpool.TxEvent)
	s.sub = s.e.pool.SubscribeTxEvent(s.ch)
	go func(ch chan *txpool.TxEvent) {
		for ev := range ch {
			s.onTxEvent(ev)
		}
	}(s.ch)
}

func (s *stashRun) onTxEvent(ev *txpool.TxEvent) {
	exec := "n"
	if ev.Executable != nil {
		exec = "f"
		if *ev.Executable {
			exec = "t"
		}
	}
	s.emit(trace.Ev{"e": "TxEvent", "h": s.name(ev.Tx.Hash()), "exec": exec})
	s.bump("txevent_" + exec)
	if s.direct && exec != "t" {
		// the body of txStashLoop
		before := len(s.stash.Keys())
		if err := s.stash.Save(ev.Tx); err != nil {
			harnessErr("stash save: %v", err)
		}
		s.bump("saves")
		if len(s.stash.Keys()) == before && before == s.cap {
			s.bump("evictions")
		}
		s.snap()
	}
	s.mu.Lock()
	s.got++
	s.mu.Unlock()
}

// settle waits until every tx event the pool must have posted was received (and, in loop mode, processed by the loop).
func (s *stashRun) settle() {
	deadline := time.Now().Add(hangTimeout)
	for {
		s.mu.Lock()
		ok := s.got >= s.expected
		s.mu.Unlock()
		if ok {
			break
		}
		if time.Now().After(deadline) {
			hang("waiting for the pool's tx events")
		}
		time.Sleep(200 * time.Microsecond)
	}
	if !s.direct && s.cancel != nil {
		// the loop must be back in its select, and the stash unchanged for a while
		last, stable := "", 0
		for stable < 15 {
			cur := fmt.Sprint(s.stash.Fifo(), loopIdle())
			if cur == last && strings.HasSuffix(cur, "true") {
				stable++
			} else {
				stable = 0
			}
			last = cur
			if time.Now().After(deadline) {
				hang("waiting for txStashLoop to become idle")
			}
			time.Sleep(time.Millisecond)
		}
		n := len(s.stash.Keys())
		if n > s.st.Counts["max_on_disk"] {
			s.st.Counts["max_on_disk"] = n
		}
		s.snap()
	}
}

// loopIdle: some goroutine is inside txStashLoop, blocked in its select.
func loopIdle() bool {
	buf := make([]byte, 1<<20)
	n := runtime.Stack(buf, true)
	for _, g := range bytes.Split(buf[:n], []byte("\n\n")) {
		if bytes.Contains(g, []byte("txStashLoop")) && bytes.Contains(g[:bytes.IndexByte(g, '\n')+1], []byte("[select")) {
			return true
		}
	}
	return false
}

func (s *stashRun) open() {
	st, err := node.VerifOpenTxStash(s.dir, s.cap)
	if err != nil {
		harnessErr("open stash: %v", err)
	}
	s.stash = st
}

// restartDirect: only the stash is closed and re-opened; LoadAll and pool.Fill as the loop's prologue does them
func (s *stashRun) restartDirect() {
	s.settle()
	must(s.stash.Close())
	s.emit(trace.Ev{"e": "Stop", "keep": true})
	s.open()
	loaded := s.stash.LoadAll()
	var names []string
	for _, t := range loaded {
		names = append(names, s.name(t.Hash()))
	}
	if names == nil {
		names = []string{}
	}
	s.emit(trace.Ev{"e": "Start", "loaded": names, "known": true})
	if len(loaded) > 0 {
		s.e.pool.Fill(loaded)
	}
	s.st.Counts["loaded"] += len(loaded)
	s.bump("restarts_direct")
	s.snap()
}

// startLoop runs the node's real txStashLoop on the stash.
func (s *stashRun) startLoop() {
	n := s.e.ensureNode()
	ctx, cancel := context.WithCancel(context.Background())
	s.cancel = cancel
	s.loopDone = make(chan struct{})
	s.emit(trace.Ev{"e": "Start", "loaded": []string{}, "known": false})
	s.st.Counts["loaded"] += len(s.stash.Keys())
	go guard("txStashLoop", func() {
		n.VerifRunTxStashLoop(ctx, s.stash)
		close(s.loopDone)
	})
	deadline := time.Now().Add(hangTimeout)
	for !loopIdle() { // LoadAll and Fill are done, the loop is subscribed
		if time.Now().After(deadline) {
			hang("waiting for txStashLoop to start")
		}
		time.Sleep(200 * time.Microsecond)
	}
	s.snap()
}

// restartProcess: loop stopped, stash closed, pool and node replaced, everything started again
func (s *stashRun) restartProcess() {
	s.settle()
	if s.cancel != nil {
		s.cancel()
		<-s.loopDone
		s.cancel = nil
	}
	s.sub.Unsubscribe()
	close(s.ch)
	must(s.stash.Close())
	s.emit(trace.Ev{"e": "Stop", "keep": false})
	s.e.newPool()
	s.r.tr = newTracer(s.e)
	s.r.tr.seen = s.observe
	s.e.pool.VerifSetTracer(s.r.tr.handle)
	s.mu.Lock()
	s.got, s.expected = 0, 0
	s.mu.Unlock()
	s.open()
	s.direct = false
	s.startLoop()
	s.subscribe()
	s.bump("restarts_process")
}

func runStash(seed int64, scratch string) ([]trace.Ev, stashStat) {
	rng := rand.New(rand.NewSource(seed))
	s := &stashRun{cap: 3 + rng.Intn(3), direct: true}
	s.st = stashStat{Seed: seed, Cap: s.cap, Counts: map[string]int{}}
	behind := 5
	if rng.Intn(3) == 0 {
		behind = 7 // the first heads are not synced: tx events carry Executable = nil
	}
	e := newEnv(envOpts{seed: seed, behind: behind, galactica: 0, rich: 3, poor: []int64{4700, 6400, 1000},
		pool: txpool.Options{Limit: 40, LimitPerAccount: 8, MaxLifetime: time.Hour}})
	defer func() { s.e.close() }()
	s.e = e
	e.evs = &evlog{pool: e.pool} // the pool trace is not kept in this mode
	r := &recorder{e: e, rng: rng, sc: pickScenario("mixed", rng)}
	r.sc.ntx = 24
	r.st.Counts = map[string]int{}
	r.tr = newTracer(e)
	r.tr.seen = s.observe
	s.r = r
	e.headEvent()
	r.genUniverse()
	// more txs that are not executable yet: they are what gets stashed
	base := e.best().Header.Number()
	for i := 0; i < 8; i++ {
		a := e.accts[rng.Intn(3)]
		r.addToUniverse(e.build(txParams{org: a, gas: 21000, coef: 0, ref: base + 3 + uint32(rng.Intn(20)), exp: 1000}, nil))
	}
	// key order of the db = byte order of the hashes
	hs := make([]*txSpec, 0, len(e.txs))
	for _, sp := range e.txs {
		hs = append(hs, sp)
	}
	sort.Slice(hs, func(i, j int) bool { a, b := hs[i].tx.Hash(), hs[j].tx.Hash(); return bytes.Compare(a[:], b[:]) < 0 })
	ord := map[string]any{}
	for i, sp := range hs {
		ord[sp.h] = i + 1
	}
	s.emit(trace.Ev{"e": "Reset", "cap": s.cap, "ord": ord, "seed": seed})
	s.dir = filepath.Join(scratch, fmt.Sprintf("stash-%d", seed))
	must(os.MkdirAll(s.dir, 0o755))
	defer os.RemoveAll(s.dir)
	s.open()
	defer func() {
		if s.cancel != nil {
			s.cancel()
			<-s.loopDone
		}
		s.stash.Close()
	}()
	e.pool.VerifSetTracer(r.tr.handle)
	s.subscribe()
	s.snap()

	op := func() {
		switch k := rng.Intn(12); {
		case k < 7:
			sp := r.uni[rng.Intn(len(r.uni))]
			if rng.Intn(2) == 0 {
				sp = r.uni[len(r.uni)-1-rng.Intn(8)] // one of the not-yet-executable txs: what the stash is for
			}
			if rng.Intn(4) == 0 {
				_ = s.e.pool.AddLocal(sp.tx)
			} else {
				_ = s.e.pool.Add(sp.tx)
			}
		case k < 9:
			s.e.pool.VerifWash()
		case k < 10:
			sp := r.uni[rng.Intn(len(r.uni))]
			s.e.pool.Remove(sp.tx.Hash(), sp.tx.ID())
		default:
			s.settle()
			var cands []*txSpec
			for _, t := range s.e.pool.Executables() {
				if sp, ok := s.e.txs[t.Hash()]; ok && len(cands) < 2 {
					cands = append(cands, sp)
				}
			}
			s.e.advance(cands)
			s.e.headEvent()
		}
		s.settle()
	}
	// phase 1: the driver plays the loop body on the real stash; the stash alone is restarted
	for i := 0; i < 30; i++ {
		op()
		if i%10 == 9 {
			s.restartDirect()
		}
	}
	// phase 2 and 3: the node's real loop; process restarts
	for ph := 0; ph < 2; ph++ {
		s.restartProcess()
		s.e.pool.VerifWash() // the first tick after start-up evaluates what the stash brought back
		s.settle()
		for i := 0; i < 14; i++ {
			op()
		}
	}
	s.restartProcess()
	s.settle()
	if !e.timingOK() {
		s.st.Discarded = "slow: the sync status of a head changed during the run"
	}
	s.st.Events = len(s.evs)
	return s.evs, s.st
}

var _ = tx.TypeLegacy
