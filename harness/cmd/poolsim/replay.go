package main

import (
	"bufio"
	"encoding/json"
	"fmt"
	"math/big"
	"math/rand"
	"os"
	"reflect"
	"sort"
	"time"

	"github.com/vechain/thor/v2/thor"
	"github.com/vechain/thor/v2/txpool"

	"verifharness/internal/trace"
)

// ---- the fixed replay universe (must equal TxDef / Heads of specs/net/MCPool.tla; checked at run time) --------

type uniTx struct {
	name     string
	org, dlg string
	gas      uint64
	coef     uint8
	ref      uint32
	exp      uint32
	dep      string
	typed    bool
	maxFee   int64
	maxPrio  int64
	sameAs   string
	inBlock  uint32 // the chain includes it in this block (0 = never)
}

var uniAccts = []string{"a", "b", "c"}
var uniEnergy = []int64{7600, 6000, 3000}
var uniTxs = []uniTx{
	{name: "h1", org: "a", gas: 42000, coef: 51, ref: 0, exp: 100},
	{name: "h2", org: "a", dlg: "b", gas: 21000, coef: 0, ref: 3, exp: 100},
	{name: "h3", org: "b", gas: 21000, coef: 102, ref: 0, exp: 100, inBlock: 2},
	{name: "h4", org: "b", gas: 21000, coef: 0, ref: 0, exp: 100, dep: "h3"},
	{name: "h5", org: "a", gas: 21000, coef: 0, ref: 1, exp: 1},
	{name: "h6", org: "a", dlg: "b", gas: 21000, coef: 51, ref: 0, exp: 100},
	{name: "h6b", sameAs: "h6", dlg: "c"},
	{name: "h7", org: "a", typed: true, maxFee: 3, maxPrio: 1, gas: 21000, ref: 0, exp: 100},
}

const uniHeads = 3 // heads 1..3

type universe struct {
	e   *env
	txs map[string]*txSpec
}

// variant "fork": the same txs on a chain where GALACTICA starts with block 3 (head 1 is judged for a pre-fork block, the
// dynamic-fee tx is not admissible yet; priorities change with the fork and are refreshed on the first GALACTICA head)
func newUniverse(variant string, limit, lpa int, lifetime time.Duration) *universe {
	gal := uint32(0)
	if variant == "fork" {
		gal = 3
	}
	e := newEnv(envOpts{seed: 424242, behind: 5, galactica: gal, rich: 1, poor: uniEnergy, poorNames: uniAccts,
		pool: txpool.Options{Limit: limit, LimitPerAccount: lpa, MaxLifetime: lifetime}})
	e.evs = &evlog{pool: e.pool}
	u := &universe{e: e, txs: map[string]*txSpec{}}
	acct := func(n string) *acct {
		for _, a := range e.accts {
			if a.name == n {
				return a
			}
		}
		if n == "" {
			return nil
		}
		panic("no account " + n)
	}
	for _, t := range uniTxs {
		var s *txSpec
		if t.sameAs != "" {
			s = e.build(txParams{dlg: acct(t.dlg)}, u.txs[t.sameAs])
		} else {
			p := txParams{org: acct(t.org), dlg: acct(t.dlg), gas: t.gas, coef: t.coef, ref: t.ref, exp: t.exp,
				typed: t.typed, maxFee: t.maxFee, maxPrio: t.maxPrio}
			if t.dep != "" {
				p.dep = u.txs[t.dep]
			}
			s = e.build(p, nil)
		}
		// fixed names instead of first-seen interning
		delete(e.txByH, s.h)
		s.h = t.name
		e.txByH[s.h] = s
		u.txs[t.name] = s
	}
	// ids: i<k> of the first tx with that id
	for _, t := range uniTxs {
		s := u.txs[t.name]
		if t.sameAs != "" {
			s.id = u.txs[t.sameAs].id
		} else {
			s.id = "i" + t.name[1:]
		}
	}
	for _, t := range uniTxs {
		if t.dep != "" {
			u.txs[t.name].dep = u.txs[t.dep].id
		}
	}
	return u
}

func (u *universe) blockTxs(num uint32) []*txSpec {
	var out []*txSpec
	for _, t := range uniTxs {
		if t.inBlock == num {
			out = append(out, u.txs[t.name])
		}
	}
	return out
}

// facts returns the tx records and the head record of the current head in the vocabulary of MCPool.tla.
func (u *universe) txFacts() map[string]any {
	out := map[string]any{}
	for _, t := range uniTxs {
		s := u.txs[t.name]
		dlg := "none"
		if s.dlg != nil {
			dlg = s.dlg.name
		}
		cost := units(mulGas(s.tx.Gas(), u.e.effPrice(s.tx)))
		out[t.name] = map[string]any{"id": s.id, "org": s.org.name, "dlg": dlg, "k": t.name, "cost": cost, "costs": []any{}, "prios": []any{}, "priosnw": []any{}, "cap": digits(feeCap(s.tx, u.e.baseGP)), "prio": digits(u.e.expectedPrio(s.tx, true)), "prio0": digits(u.e.expectedPrio(s.tx, false)),
			"ref": s.tx.BlockRef().Number(), "exp": s.tx.Expiration(), "dep": s.dep, "typed": t.typed}
	}
	return out
}

func (u *universe) headFacts() map[string]any {
	e := u.e
	before := len(e.evs.evs)
	e.headEvent()
	ev := e.evs.evs[before].ev
	hd := ev["hd"].(map[string]any)
	hd["payers"] = []any{}
	return hd
}

func universeFacts(variant string) map[string]any {
	u := newUniverse(variant, 2, 2, time.Hour)
	defer u.e.close()
	var heads []any
	heads = append(heads, u.headFacts())
	txs := u.txFacts()
	for n := uint32(2); n <= uniHeads; n++ {
		u.e.advance(u.blockTxs(n))
		heads = append(heads, u.headFacts())
	}
	return map[string]any{"txs": txs, "heads": heads}
}

func printUniverse() {
	b, _ := json.Marshal(map[string]any{"base": universeFacts("base"), "fork": universeFacts("fork")})
	fmt.Println(string(b))
}

// ---- replay ---------------------------------------------------------------------------------------------------

type replayRun struct {
	Index      int         `json:"index"`
	Steps      int         `json:"steps"`
	Done       int         `json:"done"`
	Actions    []string    `json:"actions"`
	Mismatch   *mismatch   `json:"mismatch,omitempty"`
	Violations []violation `json:"violations,omitempty"`
	Stale      int         `json:"stalePromotes"`
	StalePrios int         `json:"stalePrios"`
	MidWash    int         `json:"midWashOps"`
	Key        string      `json:"key"`
	Discarded  string      `json:"discarded,omitempty"`
}

type mismatch struct {
	Step   int    `json:"step"`
	Action string `json:"action"`
	Kind   string `json:"kind"` // state | verdict | flow
	Detail string `json:"detail"`
	Stale  bool   `json:"stalePromote"`
}

type replayResult struct {
	Runs       []replayRun `json:"runs"`
	Steps      int         `json:"steps"`
	Mismatches int         `json:"mismatches"`
	Events     int         `json:"events"`
}

type behFile struct {
	Limit    int               `json:"limit"`
	Lpa      int               `json:"lpa"`
	Lifetime string            `json:"lifetime"`
	Variant  string            `json:"variant"`
	Txs      map[string]any    `json:"txs"`
	Heads    []any             `json:"heads"`
	Behs     [][]map[string]any `json:"behs"`
}

// washCtl steps the wash goroutine through its unlocked hook sites.
type washCtl struct {
	resume  chan struct{}
	parked  chan string
	running bool   // the wash goroutine is between a resume and its next park
	alive   bool   // a wash goroutine exists
	at      string // where it is parked
	free    bool   // gate disabled: run to completion
	evs     []txpool.VerifEvent
}

var washBoundary = map[string]bool{"eval.begin": true, "wash.limit": true, "pre.costof": true, "pre.promote": true,
	"wash.evict": true, "pre.publish": true}

func (c *washCtl) gate(kind string) {
	if !c.running || c.free || !washBoundary[kind] {
		return
	}
	c.running = false
	c.parked <- kind
	<-c.resume
	c.running = true
}

func (c *washCtl) start(pool *txpool.TxPool) string {
	c.resume, c.parked = make(chan struct{}), make(chan string)
	c.alive, c.running = true, true
	c.evs = nil
	go guard("replayed wash", func() {
		pool.VerifWash()
		c.running = false
		c.parked <- "done"
	})
	c.at = await(c.parked, "replayed wash start")
	if c.at == "done" {
		c.alive = false
	}
	return c.at
}

func (c *washCtl) step() string {
	c.evs = nil
	c.resume <- struct{}{}
	c.at = await(c.parked, "replayed wash after "+c.at)
	if c.at == "done" {
		c.alive = false
	}
	return c.at
}

func (c *washCtl) finish() {
	if !c.alive {
		return
	}
	c.free = true
	c.resume <- struct{}{}
	for c.at = await(c.parked, "replayed wash finishing"); c.at != "done"; c.at = await(c.parked, "replayed wash finishing") {
		c.resume <- struct{}{}
	}
	c.alive = false
	c.free = false
}

func objKey(v any) string {
	b, _ := json.Marshal(v)
	return string(b)
}

func mulGas(gas uint64, price *big.Int) *big.Int { return new(big.Int).Mul(new(big.Int).SetUint64(gas), price) }

func replayFile(path, expect string) replayResult {
	f, err := os.Open(path)
	if err != nil {
		harnessErr("open %s: %v", path, err)
	}
	defer f.Close()
	var bf behFile
	dec := json.NewDecoder(bufio.NewReaderSize(f, 1<<20))
	if err := dec.Decode(&bf); err != nil {
		harnessErr("decode %s: %v", path, err)
	}
	lifetime := time.Hour
	if bf.Lifetime == "always" {
		lifetime = time.Nanosecond
	}
	var res replayResult
	var all []trace.Ev
	for i, beh := range bf.Behs {
		u := newUniverse(bf.Variant, bf.Limit, bf.Lpa, lifetime)
		if i == 0 {
			checkUniverse(u, &bf)
			u.e.close()
			u = newUniverse(bf.Variant, bf.Limit, bf.Lpa, lifetime)
		}
		run, evs := replayOne(u, i, beh, expect, bf)
		u.e.close()
		if run.Discarded != "" {
			run.Mismatch, run.Violations = nil, nil
			evs = nil
		}
		res.Runs = append(res.Runs, run)
		res.Steps += run.Done
		if run.Mismatch != nil || len(run.Violations) > 0 {
			res.Mismatches++
		}
		all = append(all, evs...)
	}
	res.Events = len(all)
	must(trace.WriteNDJSON(path+".trace.ndjson", all))
	return res
}

// checkUniverse: what TLC explored must be the real facts (otherwise the exported behaviours are about another world).
func checkUniverse(u *universe, bf *behFile) {
	norm := func(v any) any {
		b, _ := json.Marshal(v)
		var out any
		must(json.Unmarshal(b, &out))
		return out
	}
	real := u.txFacts()
	for h, want := range bf.Txs {
		if !reflect.DeepEqual(norm(real[h]), norm(want)) {
			harnessErr("universe drift: tx %s is %s in the real chain but %s in the model", h, objKey(real[h]), objKey(want))
		}
	}
	var heads []any
	heads = append(heads, u.headFacts())
	for n := uint32(2); int(n) <= len(bf.Heads); n++ {
		u.e.advance(u.blockTxs(n))
		heads = append(heads, u.headFacts())
	}
	for i, want := range bf.Heads {
		w := norm(want).(map[string]any)
		g := norm(heads[i]).(map[string]any)
		// sets
		for _, k := range []string{"incl", "rev"} {
			ws, gs := toStrings(w[k]), toStrings(g[k])
			sort.Strings(ws)
			sort.Strings(gs)
			w[k], g[k] = ws, gs
		}
		if !reflect.DeepEqual(w, g) {
			harnessErr("universe drift: head #%d is %s in the real chain but %s in the model", i+1, objKey(g), objKey(w))
		}
	}
}

func toStrings(v any) []string {
	var out []string
	if l, ok := v.([]any); ok {
		for _, x := range l {
			out = append(out, fmt.Sprint(x))
		}
	}
	if l, ok := v.([]string); ok {
		out = append(out, l...)
	}
	return out
}

func replayOne(u *universe, index int, beh []map[string]any, expect string, bf behFile) (replayRun, []trace.Ev) {
	e := u.e
	run := replayRun{Index: index, Steps: len(beh)}
	r := &recorder{e: e, rng: rand.New(rand.NewSource(1))}
	r.st.Counts = map[string]int{}
	r.tr = newTracer(e)
	ctl := &washCtl{}
	r.tr.gate = ctl.gate
	var lastLimit *txpool.VerifEvent
	r.tr.seen = func(ev txpool.VerifEvent) {
		if ctl.running {
			ctl.evs = append(ctl.evs, ev)
			if ev.Kind == "wash.limit" {
				cp := ev
				lastLimit = &cp
			}
		} else if ctl.alive && (ev.Kind == "add" || ev.Kind == "remove" || ev.Kind == "fill") {
			run.MidWash++
		}
	}
	e.pool.VerifSetTracer(r.tr.handle)
	e.evs.emit(trace.Ev{"e": "Reset", "scen": "replay", "seed": index, "mode": "replay",
		"cfg": map[string]any{"limit": bf.Limit, "lpa": bf.Lpa, "lifetime": bf.Lifetime, "identity": true, "relaxed": false, "checkprio": true}})
	e.headEvent()
	for _, t := range uniTxs {
		e.register(u.txs[t.name])
	}
	specObj := map[string]uint64{} // spec object id -> real object identity
	realObj := map[uint64]string{}
	strict := expect == "state"
	fail := func(step int, action, kind, format string, a ...any) {
		if run.Mismatch == nil {
			run.Mismatch = &mismatch{Step: step, Action: action, Kind: kind, Detail: fmt.Sprintf(format, a...)}
		}
	}
	headNum := uint32(1)
	for si, st := range beh {
		if run.Mismatch != nil {
			break
		}
		a := st["a"].(string)
		run.Actions = append(run.Actions, a)
		str := func(k string) string { s, _ := st[k].(string); return s }
		switch a {
		case "Add":
			kind := "remote"
			if str("src") == "local" {
				kind = "local"
			}
			if b, _ := st["strict"].(bool); b {
				kind = "strict"
			}
			if b, _ := st["stale"].(bool); b {
				harnessErr("behaviour with a stale evaluation head cannot be replayed")
			}
			s := u.txs[str("h")]
			before := len(e.evs.evs)
			r.doAdd(0, kind, s)
			got := e.evs.evs[len(e.evs.evs)-1].ev["res"].(string)
			_ = before
			want := map[string]string{"ok": "ok", "dup": "ok", "quota": "quota", "dquota": "dquota", "payer": "payer"}[str("v")]
			if strict && got != want {
				fail(si, a, "verdict", "Add(%s) returned %q, the model says %q", s.h, got, want)
			}
		case "Fill":
			r.doFill(0, []*txSpec{u.txs[str("h")]})
		case "Remove":
			r.doRemove(0, u.txs[str("h")])
		case "Head":
			headNum++
			e.advance(u.blockTxs(headNum))
			e.headEvent()
		case "Block":
			var addrs []thor.Address
			var names []string
			for _, n := range toStrings(st["s"]) {
				for _, ac := range e.accts {
					if ac.name == n {
						addrs = append(addrs, ac.addr)
						names = append(names, n)
					}
				}
			}
			e.pool.VerifSetBlocked(addrs)
			e.evs.emit(trace.Ev{"e": "Block", "accts": names})
		case "TickIdle":
			if ran, _, _ := e.pool.VerifWash(); ran && strict {
				fail(si, a, "flow", "the housekeeping tick washed, the model says it has nothing to do")
			}
		case "WashStart":
			var order []string
			if l, ok := st["order"].([]any); ok {
				for _, x := range l {
					order = append(order, objKey(x))
				}
			}
			e.pool.VerifSetWashOrder(func(objs []uint64) []int {
				pos := map[uint64]int{}
				for i, o := range objs {
					pos[o] = i
				}
				var perm []int
				used := map[int]bool{}
				for _, k := range order {
					if ro, ok := specObj[k]; ok {
						if i, ok := pos[ro]; ok && !used[i] {
							perm = append(perm, i)
							used[i] = true
						}
					}
				}
				for i := range objs {
					if !used[i] {
						perm = append(perm, i)
					}
				}
				return perm
			})
			at := ctl.start(e.pool)
			if at == "done" && strict {
				fail(si, a, "flow", "the housekeeping tick did not wash, the model says it does")
			}
		case "WashEval", "WashLimit", "WashPayCheck", "WashPromote", "WashEvict", "WashPublish":
			wantAt := map[string]string{"WashEval": "eval.begin", "WashLimit": "wash.limit", "WashPayCheck": "pre.costof",
				"WashPromote": "pre.promote", "WashEvict": "wash.evict", "WashPublish": "pre.publish"}[a]
			if !ctl.alive || ctl.at != wantAt {
				if strict {
					fail(si, a, "flow", "the model takes step %s but the real wash is at %q", a, ctl.at)
				} else {
					run.Done = si
					goto done
				}
				break
			}
			if a == "WashLimit" && strict && lastLimit != nil {
				var ex, rm []string
				for _, o := range lastLimit.Objs {
					ex = append(ex, realObj[o])
				}
				for _, o := range lastLimit.Removes {
					rm = append(rm, realObj[o])
				}
				var wex, wrm []string
				if l, ok := st["ex"].([]any); ok {
					for _, x := range l {
						wex = append(wex, objKey(x))
					}
				}
				if l, ok := st["rm"].([]any); ok {
					for _, x := range l {
						wrm = append(wrm, objKey(x.(map[string]any)["o"]))
					}
				}
				if !reflect.DeepEqual(ex, wex) || !reflect.DeepEqual(rm, wrm) {
					fail(si, a, "verdict", "wash lists differ: real executables %v removals %v, model executables %v removals %v", ex, rm, wex, wrm)
				}
			}
			ctl.step()
			if strict {
				for _, ev := range ctl.evs {
					switch {
					case a == "WashEval" && len(ev.Kind) > 5 && ev.Kind[:5] == "eval." && ev.Kind != "eval.begin":
						got := "nonexec"
						switch ev.Kind {
						case "eval.done":
							if ev.Result {
								got = "exec"
							}
						case "eval.drop":
							got = "drop:" + evalErrClass(ev.Err)
						default:
							got = "drop:" + ev.Kind[5:]
						}
						rr := st["r"].(map[string]any)
						want := rr["r"].(string)
						if want == "drop" {
							want = "drop:" + rr["why"].(string)
						}
						if got != want {
							fail(si, a, "verdict", "wash evaluated %s as %s, the model says %s", r.tr.hname(ev.Hash), got, want)
						}
					case a == "WashPromote" && (ev.Kind == "promote" || ev.Kind == "promote.miss" || ev.Kind == "promote.noop"):
						got := map[string]string{"promote": "ok", "promote.miss": "miss", "promote.noop": "noop"}[ev.Kind]
						if got != str("v") {
							fail(si, a, "verdict", "promote of %s: real %s, model %s", r.tr.hname(ev.Hash), got, str("v"))
						}
					case a == "WashPayCheck" && ev.Kind == "wash.unpayable":
						if ok, _ := st["ok"].(bool); ok {
							fail(si, a, "verdict", "pending-cost test of %s failed, the model says it passes", r.tr.hname(ev.Hash))
						}
					}
				}
			}
		case "WashKeep", "WashReturn":
			// no shared state touched, no lock site passed
		default:
			harnessErr("unknown action %q", a)
		}
		run.Done = si + 1
		// compare / check the accounting after every step
		snap := e.pool.VerifSnapshot()
		for _, v := range checkSnap(e, snap) {
			v.Index = si
			run.Violations = append(run.Violations, v)
		}
		if strict && run.Mismatch == nil {
			if d := compareState(e, r, snap, st, specObj, realObj); d != "" {
				fail(si, a, "state", "%s", d)
			}
		}
		if len(run.Violations) > 0 && !strict {
			break
		}
	}
done:
	ctl.finish()
	run.Stale = r.tr.stale
	run.StalePrios = r.tr.stalePrio + r.tr.stalePrioRaced
	if run.Mismatch != nil && run.Stale > 0 {
		run.Mismatch.Stale = true
	}
	if !strict {
		// everything leaves; nothing may remain
		for _, sp := range pooledSorted(e) {
			r.doRemove(0, sp)
		}
		end := e.pool.VerifSnapshot()
		for _, v := range checkSnap(e, end) {
			v.Index = len(beh)
			run.Violations = append(run.Violations, v)
		}
		if end.Len == 0 && (len(end.Quota) != 0 || len(end.Cost) != 0) {
			run.Violations = append(run.Violations, violation{"entries-left", fmt.Sprintf("pool is empty but %d quota and %d cost entries remain: %v",
				len(end.Quota), len(end.Cost), end.Cost), len(beh)})
		}
	}
	// a key describing the behaviour's shape (for counting distinct non-trivial behaviours)
	run.Key = fmt.Sprint(run.Actions)
	if !e.timingOK() {
		run.Discarded = "slow: the sync status of a head changed during the run"
	}
	return run, e.evs.sorted()
}

// compareState compares the real accounting with the post-state the model recorded for this step.
func compareState(e *env, r *recorder, s txpool.VerifSnap, st map[string]any, specObj map[string]uint64, realObj map[uint64]string) string {
	wantQ, _ := st["q"].(map[string]any)
	wantC, _ := st["c"].(map[string]any)
	gotQ, gotC := map[string]int64{}, map[string]int64{}
	for a, q := range s.Quota {
		gotQ[e.acctName(a)] = int64(q)
	}
	for a, c := range s.Cost {
		v, _ := new(big.Int).SetString(c, 10)
		gotC[e.acctName(a)] = units(v)
	}
	num := func(v any) int64 { f, _ := v.(float64); return int64(f) }
	if len(wantQ) != len(gotQ) {
		return fmt.Sprintf("quota entries: real %v, model %v", gotQ, wantQ)
	}
	for a, v := range wantQ {
		if g, ok := gotQ[a]; !ok || g != num(v) {
			return fmt.Sprintf("quota[%s]: real %v, model %v", a, gotQ, wantQ)
		}
	}
	if len(wantC) != len(gotC) {
		return fmt.Sprintf("pending cost entries: real %v, model %v", gotC, wantC)
	}
	for a, v := range wantC {
		if g, ok := gotC[a]; !ok || g != num(v) {
			return fmt.Sprintf("pending cost[%s]: real %v, model %v", a, gotC, wantC)
		}
	}
	if int(num(st["n"])) != s.Len {
		return fmt.Sprintf("pool size: real %d, model %v", s.Len, st["n"])
	}
	pool, _ := st["pool"].(map[string]any)
	if len(pool) != len(s.Objs) {
		return fmt.Sprintf("pooled hashes: real %d, model %d", len(s.Objs), len(pool))
	}
	for _, o := range s.Objs {
		h := r.tr.hname(o.Hash)
		w, ok := pool[h].(map[string]any)
		if !ok {
			return fmt.Sprintf("%s is pooled in the real pool but not in the model", h)
		}
		k := objKey(w["o"])
		if ro, ok := specObj[k]; ok {
			if ro != o.Obj {
				return fmt.Sprintf("%s: the pooled object is not the one the model has (%s)", h, k)
			}
		} else if old, ok := realObj[o.Obj]; ok && old != k {
			return fmt.Sprintf("%s: the model has a new object %s where the real pool still has %s", h, k, old)
		} else {
			specObj[k] = o.Obj
			realObj[o.Obj] = k
		}
		if f, _ := w["flag"].(bool); f != o.Executable {
			return fmt.Sprintf("%s: executable flag real %v, model %v", h, o.Executable, f)
		}
	}
	return ""
}
