// production drives the REAL packer and the REAL consensus against each other (C01) and records what happened for
// Trace_Production.tla.
//
//	production -mode replay -in behs.json -out <dir> -seed S      model -> implementation: every behaviour exported by
//	      TLC (who packs on which parent after how many skipped slots with which tx kinds; which validations / restarts
//	      the model node does) is concretised and executed
//	production -mode directed -out <dir> -seed S      hand-made scenarios, one cache rule each
//	production -mode random -profile poa|gal3|pos -runs N -blocks K -out <dir> -seed S      seeded long runs
//
// For every block the real packer produced (sim.Net.MintAt = packer.Schedule + flow.Adopt + flow.Pack on the omniscient
// stack God) consensus.Process is run by validators with different histories over the same store:
//
//	warm   one instance that validates every block in the order they are made
//	cold   a fresh consensus.New(repo, stater, fc) (no cache)
//	sib    an instance that validates a sibling (another proposer, same parent) first
//	conf   an instance that is given another conflicts ordinal
//	twice  an instance that validates the block twice in a row
//	alt0/1 instances that start from scratch at even / odd heights and are warm on the other ones
//	w      (replay) the instance that follows the Validate / Restart steps of the behaviour
//	n0     a full node stack with its own store importing every block (node.processBlock)
//	n1     a full node stack that is restarted (Net.Restart) before it imports the block
//
// Oracle (decided here, on the real code alone): every verdict is accept, stage root / receipts root / gas used are the
// header's everywhere.  Everything is also logged (trace.ndjson) for the trace specification, together with the facts
// it cannot compute (slot order of the addresses, the real proposer list after every block).
// Output: trace.ndjson, results.json (violations, drift notes, statistics); exit 0, or 3 with HARNESS-ERROR.
package main

import (
	"encoding/json"
	"flag"
	"fmt"
	"math/big"
	"math/rand"
	"os"
	"path/filepath"
	"sort"
	"strings"

	"github.com/vechain/thor/v2/block"
	"github.com/vechain/thor/v2/builtin"
	"github.com/vechain/thor/v2/builtin/staker/validation"
	"github.com/vechain/thor/v2/chain"
	"github.com/vechain/thor/v2/consensus"
	"github.com/vechain/thor/v2/consensus/upgrade/galactica"
	"github.com/vechain/thor/v2/scheduler"
	"github.com/vechain/thor/v2/state"
	"github.com/vechain/thor/v2/thor"
	"github.com/vechain/thor/v2/tx"

	"verifharness/internal/sim"
	"verifharness/internal/trace"
	"verifharness/internal/txkit"
)

const unitVET = 25_000_000 // one unit of balance / endorsement / stake / weight

var unitWei = txkit.VET(unitVET)

// ------------------------------------------------------------------------------------------------ abstract vocabulary

// Tx is an abstract transaction kind of Production.tla.
type Tx struct {
	K string `json:"k"`
	M int    `json:"m"`
	V int    `json:"v"`
}

// Cfg is the initial world of a run (Production.tla InitWorld + constants).
type Cfg struct {
	N      int    `json:"n"`    // universe of masters 1..N
	Auth   []int  `json:"auth"` // genesis authorities, must be 1..k
	Bal    []int  `json:"bal"`  // units per endorsor of master i+1
	Thr    int    `json:"thr"`  // units
	Mbp    int    `json:"mbp"`
	Hay    bool   `json:"hay"`   // HAYABUSA (and every earlier fork) from genesis, genesis stakers = Queue
	TP     uint32 `json:"tp"`    // its transition period in blocks (0: PoS active from genesis)
	Queue  []int  `json:"queue"` // must equal Auth when Hay
	E      uint32 `json:"E"`
	Per    uint32 `json:"Per"`
	Gal    string `json:"gal"`    // "0" (from genesis), "never", "3" ...
	Seeder uint32 `json:"seeder"` // thor.SeederInterval (0: default)
}

// Step of a TLC behaviour.
type Step struct {
	A   string         `json:"a"` // pack | val | rst
	B   int            `json:"b"`
	Par int            `json:"par"`
	P   int            `json:"p"`
	Now int            `json:"now"`
	Txs []Tx           `json:"txs"`
	N   int            `json:"n"`
	Exp map[string]any `json:"exp"`
}

// Behaviour exported by MC_ProductionSim.
type Behaviour struct {
	Cfg   Cfg    `json:"cfg"`
	Steps []Step `json:"steps"`
	Name  string `json:"name"`
}

type violation struct {
	Sig   string `json:"sig"`
	What  string `json:"what"`
	Run   int    `json:"run"`
	Block string `json:"block"`
	Node  string `json:"node"`
	Index int    `json:"index"` // index of the offending event in the run's trace
}

type results struct {
	Mode        string         `json:"mode"`
	Seed        int64          `json:"seed"`
	Runs        int            `json:"runs"`
	Blocks      int            `json:"blocks"`
	Validations int            `json:"validations"`
	ByHistory   map[string]int `json:"byHistory"`
	Kinds       map[string]int `json:"kinds"`
	Flavours    map[string]int `json:"flavours"`
	Reverted    int            `json:"revertedTxs"`
	Forks       int            `json:"forkBlocks"`
	Inactive    int            `json:"blocksByInactiveProposer"`
	Skipped     int            `json:"blocksAfterSkippedSlots"`
	PoSBlocks   int            `json:"posBlocks"`
	EventBlocks int            `json:"blocksWithEventTxs"`
	Distinct    int            `json:"distinctScenarioShapes"`
	Shapes      []string       `json:"shapes"`
	Violations  []violation    `json:"violations"`
	Drift       []string       `json:"drift"`
	Notes       []string       `json:"notes"`
	RunInfo     []runInfo      `json:"runInfo"`
}

type runInfo struct {
	Run    int    `json:"run"`
	Name   string `json:"name"`
	Start  int    `json:"start"` // first event index in trace.ndjson
	Events int    `json:"events"`
	Blocks int    `json:"blocks"`
}

func must(err error) {
	if err != nil {
		panic(err)
	}
}

func harnessError(f string, a ...any) {
	fmt.Println("HARNESS-ERROR " + fmt.Sprintf(f, a...))
	os.Exit(3)
}

// ------------------------------------------------------------------------------------------------ one run

type blk struct {
	name      string
	b         *block.Block
	sum       *chain.BlockSummary
	conflicts uint32
	par       string
	okTxs     []thor.Bytes32 // ids of non-reverted txs on the chain ending here (dependency candidates)
	badTxs    []thor.Bytes32 // ids of reverted txs on the chain ending here
	lateDone  bool
	world     *world
}

type run struct {
	idx         int
	cfg         Cfg
	net         *sim.Net
	rng         *rand.Rand
	env         *txkit.Env
	evs         []trace.Ev
	blocks      map[string]*blk
	order       []string
	inst        map[string]*consensus.Consensus
	res         *results
	shapes      map[string]bool
	pos         bool
	endIdx      func(m int) int // dev index of the endorsor of master m
	bank        int
	user        int
	nextID      int
	depOverride *thor.Bytes32 // set while a "dep" kind is concretised
	pruned      int
	nodeBroken  [2]bool
}

func (r *run) masterAddr(m int) thor.Address   { return r.net.Devs[m-1].Address }
func (r *run) endorsorAddr(m int) thor.Address { return r.net.Devs[r.endIdx(m)].Address }

// addrID maps an address to the abstract id (dev index + 1), 0 for the zero address, -1 unknown.
func (r *run) addrID(a thor.Address) int {
	if a.IsZero() {
		return 0
	}
	for i, d := range r.net.Devs {
		if d.Address == a {
			return i + 1
		}
	}
	return -1
}

func newRun(idx int, cfg Cfg, seed int64, res *results, shapes map[string]bool) *run {
	for i, m := range cfg.Auth {
		if m != i+1 {
			harnessError("cfg.auth must be 1..k, got %v", cfg.Auth)
		}
	}
	o := sim.Options{Validators: cfg.N, Nodes: 2, PoS: cfg.Hay, EpochLength: cfg.E, MBP: uint64(cfg.Mbp), SkipLogs: true}
	switch cfg.Gal {
	case "never":
		o.NoGalactica = true
	case "", "0":
	default:
		var g uint32
		fmt.Sscan(cfg.Gal, &g)
		o.Galactica = g
	}
	p := sim.Prod{Listed: len(cfg.Auth), Periods: [3]uint32{cfg.Per, cfg.Per, cfg.Per}, Cooldown: cfg.Per, TP: cfg.TP, Seeder: cfg.Seeder}
	r := &run{idx: idx, cfg: cfg, rng: rand.New(rand.NewSource(seed)), blocks: map[string]*blk{}, inst: map[string]*consensus.Consensus{},
		res: res, shapes: shapes, pos: cfg.Hay, bank: 8, user: 9}
	if cfg.Hay {
		r.endIdx = func(m int) int { return m - 1 }
	} else {
		if cfg.N > 4 {
			harnessError("PoA universe is at most 4 masters")
		}
		r.endIdx = func(m int) int { return 3 + m }
		for m := 1; m <= cfg.N; m++ {
			p.Endorsor = append(p.Endorsor, 3+m)
			p.EndorsorVET = append(p.EndorsorVET, new(big.Int).Mul(unitWei, big.NewInt(int64(cfg.Bal[m-1]))))
		}
		p.Endorsement = new(big.Int).Mul(unitWei, big.NewInt(int64(cfg.Thr)))
	}
	r.net = sim.NewNetProd(o, p)
	r.env = txkit.NewEnv(r.net.God.Repo.ChainTag(), uint64(seed)&0xfffff)
	g := r.net.God
	b0 := &blk{name: "b0", b: r.net.B0, sum: g.Repo.BestBlockSummary(), par: ""}
	b0.world = r.readWorld(b0.sum)
	r.blocks["b0"] = b0
	r.order = append(r.order, "b0")
	r.nextID = 1
	for _, n := range []string{"w", "warm", "sib", "conf", "twice", "alt0", "alt1", "late"} {
		r.inst[n] = consensus.New(g.Repo, g.Stater, r.net.FC)
	}
	bal := cfg.Bal
	r.evs = append(r.evs, trace.Ev{"e": "Reset", "run": idx, "seed": seed,
		"cfg": map[string]any{"n": cfg.N, "auth": cfg.Auth, "bal": bal, "thr": cfg.Thr, "mbp": cfg.Mbp, "hay": cfg.Hay, "tp": cfg.TP,
			"queue": nz(cfg.Queue), "E": cfg.E, "Per": cfg.Per, "cord": r.cord(b0)}})
	return r
}

func nz(a []int) []int {
	if a == nil {
		return []int{}
	}
	return a
}

// ------------------------------------------------------------------------------------------------ reading the real world

type cand struct {
	M   int  `json:"m"`
	Act bool `json:"act"`
}
type leader struct {
	V   int  `json:"v"`
	W   int  `json:"w"`
	On  bool `json:"on"`
	Ben int  `json:"ben"`
}
type world struct {
	Auth  []cand   `json:"auth"`
	Bal   []int    `json:"bal"`
	Thr   int      `json:"thr"`
	Mbp   int      `json:"mbp"`
	Lgo   []leader `json:"lgo"`
	Queue []int    `json:"queue"`
	gone  map[int]bool
	vst   map[int]validation.Status
	exitB map[int]bool
	drift []string
}

func units(v *big.Int, what string, w *world) int {
	q, m := new(big.Int).QuoRem(v, unitWei, new(big.Int))
	if m.Sign() != 0 || !q.IsInt64() || q.Int64() > 1_000_000 {
		w.drift = append(w.drift, fmt.Sprintf("%s = %s wei is not a small multiple of the unit", what, v))
		return -1
	}
	return int(q.Int64())
}

func (r *run) stateOf(sum *chain.BlockSummary) *state.State {
	return r.net.God.Stater.NewState(sum.Root())
}

// readWorld projects the committed state of a block onto the abstract world of Production.tla.
func (r *run) readWorld(sum *chain.BlockSummary) *world {
	st := r.stateOf(sum)
	w := &world{Auth: []cand{}, Lgo: []leader{}, Queue: []int{}, gone: map[int]bool{}, vst: map[int]validation.Status{}, exitB: map[int]bool{}}
	list, err := builtin.Authority.Native(st).AllCandidates()
	must(err)
	listed := map[int]bool{}
	for _, c := range list {
		m := r.addrID(c.NodeMaster)
		if m < 1 || m > r.cfg.N {
			w.drift = append(w.drift, fmt.Sprintf("unknown authority %v", c.NodeMaster))
			continue
		}
		if c.Endorsor != r.endorsorAddr(m) {
			w.drift = append(w.drift, fmt.Sprintf("authority %d has endorsor %v", m, c.Endorsor))
		}
		w.Auth = append(w.Auth, cand{m, c.Active})
		listed[m] = true
	}
	for m := 1; m <= r.cfg.N; m++ {
		if !listed[m] {
			_, e, _, _, err := builtin.Authority.Native(st).Get(r.masterAddr(m))
			must(err)
			if !e.IsZero() {
				w.gone[m] = true
			}
		}
	}
	params := builtin.Params.Native(st)
	thr, err := params.Get(thor.KeyProposerEndorsement)
	must(err)
	mbp, err := params.Get(thor.KeyMaxBlockProposers)
	must(err)
	w.Mbp = int(mbp.Int64())
	if r.pos {
		// balances are far above the endorsement in the PoS profile and are not tracked by the model
		w.Thr = r.cfg.Thr
		w.Bal = append([]int{}, r.cfg.Bal...)
	} else {
		w.Thr = units(thr, "endorsement", w)
		for m := 1; m <= r.cfg.N; m++ {
			b, err := st.GetBalance(r.endorsorAddr(m))
			must(err)
			w.Bal = append(w.Bal, units(b, fmt.Sprintf("balance of endorsor %d", m), w))
		}
	}
	stk := builtin.Staker.Native(st)
	if r.pos {
		lg, err := stk.LeaderGroup()
		must(err)
		for _, l := range lg {
			ben := 0
			if l.Beneficiary != nil {
				ben = r.addrID(*l.Beneficiary)
			}
			if l.Weight%unitVET != 0 {
				w.drift = append(w.drift, fmt.Sprintf("weight %d of %v not a multiple of the unit", l.Weight, l.Address))
			}
			w.Lgo = append(w.Lgo, leader{r.addrID(l.Address), int(l.Weight / unitVET), l.Active, ben})
		}
		q, err := stk.FirstQueued()
		must(err)
		for i := 0; !q.IsZero() && i < 50; i++ {
			w.Queue = append(w.Queue, r.addrID(q))
			q, err = stk.Next(q)
			must(err)
		}
		for m := 1; m <= r.cfg.N; m++ {
			v, err := stk.GetValidation(r.masterAddr(m))
			must(err)
			if v != nil {
				w.vst[m] = v.Status
				w.exitB[m] = v.ExitBlock != nil
			}
		}
	}
	return w
}

// view: the real proposer list for the children of a block (authority.Candidates / LeaderGroup after SyncPOS).
func (r *run) view(b *blk) (ids []int, act []bool, pos bool, props []scheduler.Proposer, total uint64) {
	st := r.stateOf(b.sum)
	num := b.b.Header().Number() + 1
	stk := builtin.Staker.Native(st)
	status, err := stk.SyncPOS(r.net.FC, num)
	must(err)
	if status.Active {
		lg, err := stk.LeaderGroup()
		must(err)
		for _, l := range lg {
			ids = append(ids, r.addrID(l.Address))
			act = append(act, l.Active)
			props = append(props, scheduler.Proposer{Address: l.Address, Active: true, Weight: l.Weight})
		}
		_, total, err = stk.LockedStake()
		must(err)
		return ids, act, true, props, total
	}
	end, err := builtin.Params.Native(st).Get(thor.KeyProposerEndorsement)
	must(err)
	mbp, err := thor.GetMaxBlockProposers(builtin.Params.Native(st), true)
	must(err)
	cs, err := builtin.Authority.Native(st).Candidates(stk.TransitionPeriodBalanceCheck(r.net.FC, num, end), mbp)
	must(err)
	for _, c := range cs {
		ids = append(ids, r.addrID(c.NodeMaster))
		act = append(act, c.Active)
	}
	return ids, act, false, nil, 0
}

// seedOf: the seed of the slot order for the children of a stored block, from a fresh Seeder.  It is defined for every
// stored block (the seed block lies on the block's own chain); an error is a finding of its own.
func (r *run) seedOf(h *block.Header) []byte {
	seed, err := scheduler.NewSeeder(r.net.God.Repo).Generate(h.ID())
	if err != nil {
		r.violate("seeder:generate-failed", fmt.Sprintf("#%d", h.Number()), "seeder", fmt.Sprintf("Seeder.Generate fails for a stored parent at height %d: %v", h.Number(), err))
		return nil
	}
	return seed
}

// validatorSched: the scheduler a validator builds for signer p on top of parent (real activity flags, real seed).
func (r *run) validatorSched(parent *blk, p int) scheduler.Scheduler {
	h := parent.b.Header()
	seed := r.seedOf(h)
	ids, act, pos, props, total := r.view(parent)
	var s scheduler.Scheduler
	var err error
	if pos {
		for i := range props {
			props[i].Active = act[i]
		}
		s, err = scheduler.NewPoSScheduler(r.masterAddr(p), props, h.Number(), h.Timestamp(), seed, total)
	} else {
		var ps []scheduler.Proposer
		for i, id := range ids {
			ps = append(ps, scheduler.Proposer{Address: r.masterAddr(id), Active: act[i]})
		}
		s, err = scheduler.NewPoASchedulerV2(r.masterAddr(p), ps, h.Number(), h.Timestamp(), seed)
	}
	if err != nil {
		return nil
	}
	return s
}

// cord: the slot order of the addresses for the children of b, read off the real schedulers with everybody active
// (PoA v2: all masters of the universe, the order is a per-address hash; PoS: the leader group the children will see,
// followed by the rest).  This is the oracle `cord` of Production.tla.
func (r *run) cord(b *blk) []int {
	h := b.b.Header()
	seed := r.seedOf(h)
	T := thor.BlockInterval()
	ids, _, pos, props, total := r.view(b)
	var out []int
	seen := map[int]bool{}
	if pos {
		s, err := scheduler.NewPoSScheduler(props[0].Address, props, h.Number(), h.Timestamp(), seed, total)
		must(err)
		for k := 0; k < len(props); k++ {
			for i, p := range props {
				if s.IsScheduled(h.Timestamp()+uint64(k+1)*T, p.Address) && !seen[ids[i]] {
					out = append(out, ids[i])
					seen[ids[i]] = true
				}
			}
		}
	} else {
		var all []scheduler.Proposer
		for m := 1; m <= r.cfg.N; m++ {
			all = append(all, scheduler.Proposer{Address: r.masterAddr(m), Active: true})
		}
		s, err := scheduler.NewPoASchedulerV2(all[0].Address, all, h.Number(), h.Timestamp(), seed)
		must(err)
		for k := 0; k < len(all); k++ {
			for m := 1; m <= r.cfg.N; m++ {
				if s.IsScheduled(h.Timestamp()+uint64(k+1)*T, r.masterAddr(m)) && !seen[m] {
					out = append(out, m)
					seen[m] = true
				}
			}
		}
	}
	for m := 1; m <= r.cfg.N; m++ {
		if !seen[m] {
			out = append(out, m)
		}
	}
	return out
}

// slotOwner: the active proposer that owns slot k after parent (0 if nobody is active).
func (r *run) slotOwner(parent *blk, k int) int {
	ids, act, _, _, _ := r.view(parent)
	active := map[int]bool{}
	for i, id := range ids {
		if act[i] {
			active[id] = true
		}
	}
	var order []int
	for _, id := range r.cord(parent) {
		if active[id] {
			order = append(order, id)
		}
	}
	if len(order) == 0 {
		return 0
	}
	return order[(k-1)%len(order)]
}

// ------------------------------------------------------------------------------------------------ transactions

// concretise builds the real transaction of an abstract kind for a block on top of parent.
func (r *run) concretise(t Tx, parent *blk) (*tx.Transaction, string) {
	num := parent.b.Header().Number() + 1
	var baseFee *big.Int
	if num >= r.net.FC.GALACTICA {
		baseFee = galactica.CalcBaseFee(parent.b.Header(), r.net.FC)
	}
	ref := uint32(0)
	if r.rng.Intn(3) == 0 {
		ref = uint32(r.rng.Intn(int(num) + 1))
	}
	r.env.For(ref, baseFee)
	var origin int
	var cls []*tx.Clause
	flavourOK := true
	switch t.K {
	case "add":
		origin = 0
		cls = append(cls, txkit.AuthorityAdd(r.masterAddr(t.M), r.endorsorAddr(t.M), thor.BytesToBytes32([]byte("m"))))
	case "revoke":
		origin = 0
		cls = append(cls, txkit.AuthorityRevoke(r.masterAddr(t.M)))
	case "thr":
		origin = 0
		cls = append(cls, txkit.ParamsSet(thor.KeyProposerEndorsement, new(big.Int).Mul(unitWei, big.NewInt(int64(t.V)))))
	case "mbp":
		origin = 0
		cls = append(cls, txkit.ParamsSet(thor.KeyMaxBlockProposers, big.NewInt(int64(t.V))))
	case "out":
		origin = r.endIdx(t.M)
		cls = append(cls, txkit.Transfer(r.net.Devs[r.bank].Address, unitWei))
	case "in":
		origin = r.bank
		cls = append(cls, txkit.Transfer(r.endorsorAddr(t.M), unitWei))
	case "sadd":
		origin = t.M - 1
		cls = append(cls, txkit.StakerAddValidation(r.masterAddr(t.M), r.cfg.Per, unitVET))
	case "sinc":
		origin = t.M - 1
		cls = append(cls, txkit.StakerIncreaseStake(r.masterAddr(t.M), unitVET))
	case "swd":
		origin = t.M - 1
		cls = append(cls, txkit.StakerWithdraw(r.masterAddr(t.M)))
	case "sexit":
		origin = t.M - 1
		cls = append(cls, txkit.StakerSignalExit(r.masterAddr(t.M)))
	case "sben":
		origin = t.M - 1
		ben := thor.Address{}
		if t.V > 0 {
			ben = r.net.Devs[t.V-1].Address
		}
		cls = append(cls, txkit.StakerSetBeneficiary(r.masterAddr(t.M), ben))
	case "abort":
		// passes every static check and buys gas, then the runtime aborts: the packer has to skip it without a trace
		origin = r.user
		cls = append(cls, txkit.Aborting())
		flavourOK = false
	case "reverted":
		// an event-bearing clause followed by one that reverts: the whole transaction is reverted
		origin = 0
		cls = append(cls, txkit.ParamsSet(thor.KeyMaxBlockProposers, big.NewInt(int64(1+r.rng.Intn(3)))), txkit.Reverting())
		flavourOK = false
	default: // plain
		origin = r.user
		switch r.rng.Intn(3) {
		case 0:
			cls = append(cls, txkit.Transfer(r.net.Devs[r.bank].Address, big.NewInt(int64(1+r.rng.Intn(1000)))))
		case 1:
			cls = append(cls, txkit.EnergyTransfer(r.net.Devs[r.bank].Address, big.NewInt(int64(1+r.rng.Intn(1000)))))
		default:
			cls = append(cls, txkit.Transfer(r.net.Devs[r.user].Address, big.NewInt(7)), txkit.EnergyTransfer(r.net.Devs[r.bank].Address, big.NewInt(5)))
		}
	}
	o := txkit.Opt{Coef: uint8(r.rng.Intn(256))}
	var fl []string
	if baseFee != nil && r.rng.Intn(2) == 0 {
		o.Typed = true
		o.TipGwei = int64(r.rng.Intn(3))
		fl = append(fl, "typed")
	} else {
		fl = append(fl, "legacy")
	}
	if r.rng.Intn(4) == 0 {
		d := r.user
		if origin == r.user {
			d = r.bank
		}
		o.Delegator = r.net.Devs[d].PrivateKey
		fl = append(fl, "delegated")
	}
	if flavourOK && r.rng.Intn(4) == 0 {
		// a second clause that touches neither VET balances nor the built-ins the caches look at
		cls = append(cls, txkit.EnergyTransfer(r.net.Devs[r.bank].Address, big.NewInt(int64(1+r.rng.Intn(9)))))
		fl = append(fl, "multiclause")
	}
	if r.depOverride != nil {
		o.DependsOn = r.depOverride
		fl = append(fl, "dependent")
	} else if len(parent.okTxs) > 0 && r.rng.Intn(4) == 0 {
		d := parent.okTxs[r.rng.Intn(len(parent.okTxs))]
		o.DependsOn = &d
		fl = append(fl, "dependent")
	}
	return txkit.Build(r.env, r.net.Devs[origin].PrivateKey, o, cls...), strings.Join(fl, "+")
}

// ------------------------------------------------------------------------------------------------ packing

func (r *run) drift(f string, a ...any) {
	s := fmt.Sprintf("run %d: ", r.idx) + fmt.Sprintf(f, a...)
	if len(r.res.Drift) < 50 {
		r.res.Drift = append(r.res.Drift, s)
	}
}

// pack lets master p pack a block on parent at its earliest own slot >= parent time + now*T. Returns nil when the real
// packer cannot (not scheduled) - the caller decides what that means.
func (r *run) pack(name, par string, p, now int, txs []Tx) *blk {
	parent := r.blocks[par]
	T := thor.BlockInterval()
	ph := parent.b.Header()
	var real []*tx.Transaction
	flav := []string{}
	// kind "dep" (v = 1..5): a plain tx whose DependsOn names 1 a successful tx earlier in THIS block, 2 a reverted tx earlier
	// in this block, 3 a successful / 4 a reverted tx of an earlier block on this chain, 5 an unknown id.  The rule
	// (Production!DepAdoptable): adoptable iff the dependency is found (earlier on this chain or in this flow) and not reverted.
	type depFact struct {
		V                        int
		Found, Reverted, Adopted bool
	}
	deps := map[int]*depFact{}
	for i, t := range txs {
		if t.K == "dep" {
			var target *thor.Bytes32
			f := &depFact{V: t.V}
			pick := func(kind string) *thor.Bytes32 {
				for j := i - 1; j >= 0; j-- {
					if txs[j].K == kind {
						id := real[j].ID()
						return &id
					}
				}
				return nil
			}
			switch t.V {
			case 1:
				if target = pick("plain"); target != nil {
					f.Found = true
				}
			case 2:
				if target = pick("reverted"); target != nil {
					f.Found, f.Reverted = true, true
				}
			case 3:
				if n := len(parent.okTxs); n > 0 {
					target, f.Found = &parent.okTxs[r.rng.Intn(n)], true
				}
			case 4:
				if n := len(parent.badTxs); n > 0 {
					target, f.Found, f.Reverted = &parent.badTxs[r.rng.Intn(n)], true, true
				}
			}
			if target == nil { // nothing of that sort at hand (or v = 5): an id nobody knows
				id := thor.Blake2b([]byte(fmt.Sprintf("unknown-dep-%s-%d", name, i)))
				target, f.Found, f.Reverted = &id, false, false
			}
			deps[i] = f
			r.depOverride = target
			x, fl := r.concretise(Tx{"plain", 0, 0}, parent)
			r.depOverride = nil
			real, flav = append(real, x), append(flav, fl)
			continue
		}
		x, f := r.concretise(t, parent)
		real = append(real, x)
		flav = append(flav, f)
	}
	// the packer's beneficiary option: its own address, another account, or none (then the endorsor)
	var benef *thor.Address
	opt := p
	switch r.rng.Intn(4) {
	case 0:
		benef, opt = &r.net.Devs[r.bank].Address, r.bank+1
	case 1:
		opt = r.endIdx(p) + 1
	default:
		benef = &r.net.Devs[p-1].Address
	}
	m, err := r.net.MintAt(ph.ID(), p-1, benef, false, ph.Timestamp()+uint64(now)*T, real...)
	if err != nil {
		r.drift("pack %s on %s by %d now %d: %v", name, par, p, now, err)
		return nil
	}
	refused := map[int]bool{}
	for _, rf := range m.Refused {
		if k := txs[rf.Index].K; k != "abort" && k != "dep" {
			harnessError("packer refused a template transaction %+v: %v", txs[rf.Index], rf.Err)
		}
		refused[rf.Index] = true
	}
	depLog := []map[string]any{}
	var depBreach []string
	for i := range txs {
		if f := deps[i]; f != nil {
			f.Adopted = !refused[i]
			depLog = append(depLog, map[string]any{"v": f.V, "found": f.Found, "reverted": f.Reverted, "adopted": f.Adopted})
			if f.Adopted != (f.Found && !f.Reverted) {
				depBreach = append(depBreach, fmt.Sprintf("tx #%d depends on a tx that is found=%v reverted=%v, the packer adopted=%v", i, f.Found, f.Reverted, f.Adopted))
			}
			r.res.Kinds[fmt.Sprintf("dep%d", f.V)]++
		}
	}
	for i, t := range txs {
		if t.K == "abort" && !refused[i] {
			harnessError("the aborting template was adopted by the packer")
		}
	}
	if len(refused) > 0 { // the packer skipped them: they are not in the block
		var real2 []*tx.Transaction
		var txs2 []Tx
		var flav2 []string
		for i := range txs {
			if !refused[i] {
				real2, txs2, flav2 = append(real2, real[i]), append(txs2, txs[i]), append(flav2, flav[i])
			} else if txs[i].K == "abort" {
				r.res.Kinds["abort"]++
			}
		}
		real, txs, flav = real2, txs2, flav2
		if flav == nil {
			flav = []string{}
		}
	}
	if m.Known {
		r.res.Notes = append(r.res.Notes, fmt.Sprintf("run %d: %s would be a block that exists already; skipped", r.idx, name))
		return nil
	}
	h := m.Block.Header()
	sum, err := r.net.God.Repo.GetBlockSummary(h.ID())
	must(err)
	b := &blk{name: name, b: m.Block, sum: sum, conflicts: m.Conflicts, par: par}
	b.okTxs = append(b.okTxs, parent.okTxs...)
	b.badTxs = append(b.badTxs, parent.badTxs...)
	reverted := 0
	for i, rc := range m.Receipts {
		if !rc.Reverted {
			b.okTxs = append(b.okTxs, real[i].ID())
		} else {
			b.badTxs = append(b.badTxs, real[i].ID())
			reverted++
		}
	}
	if len(b.badTxs) > 20 {
		b.badTxs = b.badTxs[len(b.badTxs)-20:]
	}
	if len(b.okTxs) > 40 {
		b.okTxs = b.okTxs[len(b.okTxs)-40:]
	}
	b.world = r.readWorld(sum)
	for _, d := range b.world.drift {
		r.drift("%s: %s", name, d)
	}
	r.blocks[name] = b
	r.order = append(r.order, name)
	var gas uint64
	for _, rc := range m.Receipts {
		gas += rc.GasUsed
	}
	for _, d := range depBreach {
		r.violate("packer:adopt-dependency", name, "packer", d)
	}
	if gas != h.GasUsed() {
		r.violate("packer:gas", name, "packer", fmt.Sprintf("packer's receipts sum to %d gas, header says %d", gas, h.GasUsed()))
	}
	slot := int((h.Timestamp() - ph.Timestamp()) / T)
	// "Schedule returns the EARLIEST owned slot >= now": the validator-side question IsTheTime, asked for every slot from
	// the one the packer was asked at up to the one it took, must say no before and yes at the slot taken
	if vs := r.validatorSched(parent, p); vs != nil {
		for k := now; k < slot; k++ {
			if vs.IsTheTime(ph.Timestamp() + uint64(k)*T) {
				r.violate("packer:not-earliest-slot", name, "packer", fmt.Sprintf("asked at slot %d the packer took slot %d although the proposer owns slot %d (IsTheTime says yes)", now, slot, k))
				break
			}
		}
	}
	pids, pact, isPos, _, _ := r.view(parent)
	inactive := false
	for i, id := range pids {
		if id == p && !pact[i] {
			inactive = true
		}
	}
	ev := trace.Ev{"e": "Pack", "b": name, "par": par, "p": p, "now": now, "slot": slot, "num": h.Number(),
		"score": h.TotalScore() - ph.TotalScore(), "benef": r.addrID(h.Beneficiary()), "opt": opt, "deps": depLog, "txs": txsJSON(txs), "cord": r.cord(b),
		"post": b.world, "hroot": h.StateRoot().String()[2:10], "hrroot": h.ReceiptsRoot().String()[2:10], "hgas": h.GasUsed(),
		"flav": flav}
	r.evs = append(r.evs, ev)
	// statistics
	r.res.Blocks++
	r.res.Reverted += reverted
	event := false
	for i, t := range txs {
		r.res.Kinds[t.K]++
		for _, f := range strings.Split(flav[i], "+") {
			r.res.Flavours[f]++
		}
		if t.K != "plain" {
			event = true
		}
	}
	if event {
		r.res.EventBlocks++
	}
	if inactive {
		r.res.Inactive++
	}
	if slot > 1 {
		r.res.Skipped++
	}
	if isPos {
		r.res.PoSBlocks++
	}
	for _, o := range r.order {
		if o != name && r.blocks[o].par == par {
			r.res.Forks++
			break
		}
	}
	var ks []string
	for _, t := range txs {
		ks = append(ks, fmt.Sprintf("%s%d.%d", t.K, t.M, t.V))
	}
	if event || slot > 1 || inactive {
		// a non-trivial scenario shape: consensus mode, size of the proposer list, slot taken, inactive proposer, tx kinds, parent world
		key := fmt.Sprintf("%v|%d|%d|%v|%s|%v", isPos, len(pids), slot, inactive, strings.Join(ks, ","), fmt.Sprint(parent.world.Auth, parent.world.Bal, parent.world.Thr, parent.world.Mbp, parent.world.Lgo, parent.world.Queue))
		h := thor.Blake2b([]byte(key))
		r.shapes[fmt.Sprintf("%x", h[:8])] = true
	}
	return b
}

func txsJSON(txs []Tx) []map[string]any {
	out := []map[string]any{}
	for _, t := range txs {
		out = append(out, map[string]any{"k": t.K, "m": t.M, "v": t.V})
	}
	return out
}

// ------------------------------------------------------------------------------------------------ validating

func (r *run) violate(sig, block, node, what string) {
	r.res.Violations = append(r.res.Violations, violation{Sig: sig, What: fmt.Sprintf("run %d block %s validator %s: %s", r.idx, block, node, what),
		Run: r.idx, Block: block, Node: node, Index: len(r.evs) - 1})
}

func errClass(err error) string {
	s := err.Error()
	for _, k := range []string{"state root mismatch", "receipts root mismatch", "gas used mismatch", "total score invalid", "signer invalid",
		"timestamp unscheduled", "beneficiary mismatch", "baseFee invalid", "gas limit invalid", "txs features invalid", "tx dep", "tx already exists",
		"txs root mismatch", "alpha invalid", "signature", "leader group", "total weight"} {
		if strings.Contains(s, k) {
			return strings.ReplaceAll(k, " ", "-")
		}
	}
	if len(s) > 40 {
		s = s[:40]
	}
	return strings.ReplaceAll(s, " ", "-")
}

const far = uint64(4_000_000_000) // "now" for consensus: nothing generated is a future block

// process runs consensus.Process of instance `node` on b and judges the result.
func (r *run) process(node, hist string, c *consensus.Consensus, b *blk, conflicts uint32) {
	parent := r.blocks[b.par]
	var stage *state.Stage
	var receipts tx.Receipts
	var err error
	func() {
		defer func() {
			if x := recover(); x != nil {
				err = fmt.Errorf("PANIC in consensus.Process: %v", x)
			}
		}()
		stage, receipts, err = c.Process(parent.sum, b.b, far, conflicts)
	}()
	h := b.b.Header()
	ev := trace.Ev{"e": "Validate", "n": node, "b": b.name, "hist": hist, "conf": conflicts, "ok": err == nil}
	if err != nil {
		ev["err"] = err.Error()
		ev["sroot"], ev["rroot"], ev["gas"] = "", "", 0
	} else {
		var gas uint64
		for _, rc := range receipts {
			gas += rc.GasUsed
		}
		ev["sroot"], ev["rroot"], ev["gas"] = stage.Hash().String()[2:10], receipts.RootHash().String()[2:10], gas
	}
	r.evs = append(r.evs, ev)
	r.res.Validations++
	r.res.ByHistory[hist]++
	if err != nil {
		if strings.HasPrefix(err.Error(), "PANIC") {
			r.violate("panic:"+hist, b.name, node, err.Error())
		} else {
			r.violate("rejected:"+hist+":"+errClass(err), b.name, node, "packer block rejected ("+hist+"): "+err.Error())
		}
		return
	}
	if stage.Hash() != h.StateRoot() || receipts.RootHash() != h.ReceiptsRoot() || ev["gas"].(uint64) != h.GasUsed() {
		r.violate("mismatch:"+hist, b.name, node, fmt.Sprintf("accepted with different results (%s): state root %v/%v receipts root %v/%v gas %v/%v",
			hist, stage.Hash(), h.StateRoot(), receipts.RootHash(), h.ReceiptsRoot(), ev["gas"], h.GasUsed()))
	}
}

// deliver imports b into full node i (own store).
func (r *run) deliver(i int, node, hist string, b *blk) {
	var class string
	var err error
	func() {
		defer func() {
			if x := recover(); x != nil {
				class, err = "panic", fmt.Errorf("PANIC in node import: %v", x)
			}
		}()
		class, err = r.net.Nodes[i].Deliver(b.b)
	}()
	if class == "known" {
		return
	}
	if (class == "parent-missing" || class == "unprocessable") && r.nodeBroken[i] {
		return // an ancestor was rejected by this node earlier (reported then)
	}
	ok := class == "ok"
	h := b.b.Header()
	ev := trace.Ev{"e": "Validate", "n": node, "b": b.name, "hist": hist, "conf": 0, "ok": ok}
	if ok {
		// the node checked the three header values itself and stored the block
		ev["sroot"], ev["rroot"], ev["gas"] = h.StateRoot().String()[2:10], h.ReceiptsRoot().String()[2:10], h.GasUsed()
	} else {
		ev["sroot"], ev["rroot"], ev["gas"] = "", "", 0
		ev["err"] = fmt.Sprintf("%s: %v", class, err)
	}
	r.evs = append(r.evs, ev)
	r.res.Validations++
	r.res.ByHistory[hist]++
	if !ok {
		e := fmt.Errorf("%s: %v", class, err)
		if class == "parent-missing" || class == "unprocessable" {
			harnessError("node %s cannot import %s: %v", node, b.name, e)
		}
		r.nodeBroken[i] = true
		sig := "rejected:" + hist + ":" + errClass(e)
		if class == "panic" {
			sig = "panic:" + hist
		}
		r.violate(sig, b.name, node, "packer block rejected by a full node ("+hist+"): "+e.Error())
	}
}

// late: a fresh validator looks at the block again long after it was made - other branches have grown, the best block
// has moved on; the verdict must not care
func (r *run) late(b *blk) {
	if b.par == "" || b.lateDone {
		return
	}
	if _, ok := r.blocks[b.par]; !ok {
		return
	}
	b.lateDone = true
	r.restartInst("late")
	r.process("late", "late-cold", r.inst["late"], b, b.conflicts)
}

func (r *run) restartInst(node string) {
	r.inst[node] = consensus.New(r.net.God.Repo, r.net.God.Stater, r.net.FC)
	r.evs = append(r.evs, trace.Ev{"e": "Restart", "n": node})
}

// battery validates b (and its sibling, when one could be made) with every history.
func (r *run) battery(b *blk, sib *blk, full bool) {
	r.deliver(0, "n0", "node-warm", b)
	r.process("warm", "warm", r.inst["warm"], b, b.conflicts)
	r.restartInst("cold")
	r.process("cold", "cold", r.inst["cold"], b, b.conflicts)
	// alt<k> starts from scratch at every block whose height is k modulo 2 and is warm on the other heights: for every
	// block there is a validator that read the state exactly there and relies on its cache for the child
	for k := 0; k < 2; k++ {
		n := fmt.Sprintf("alt%d", k)
		if int(b.b.Header().Number())%2 == k {
			r.restartInst(n)
			r.process(n, "cold-then-warm", r.inst[n], b, b.conflicts)
		} else {
			r.process(n, "warm-after-cold", r.inst[n], b, b.conflicts)
		}
	}
	if full {
		r.process("conf", "other-conflicts", r.inst["conf"], b, b.conflicts+1+uint32(r.rng.Intn(3)))
		r.process("twice", "repeated", r.inst["twice"], b, b.conflicts)
		r.process("twice", "repeated", r.inst["twice"], b, b.conflicts)
	}
	if sib != nil {
		r.process("sib", "sibling-first", r.inst["sib"], sib, sib.conflicts)
		r.process("sib", "sibling-first", r.inst["sib"], b, b.conflicts)
		r.process("warm", "warm", r.inst["warm"], sib, sib.conflicts)
		r.restartInst("cold")
		r.process("cold", "cold", r.inst["cold"], sib, sib.conflicts)
		r.deliver(0, "n0", "node-warm", sib)
	} else {
		r.process("sib", "sibling-first", r.inst["sib"], b, b.conflicts)
	}
	// the second full node imports everything too; every now and then it is restarted first
	if r.rng.Intn(3) == 0 {
		r.net.Restart(1)
		r.evs = append(r.evs, trace.Ev{"e": "Restart", "n": "n1"})
		r.deliver(1, "n1", "node-restarted", b)
	} else {
		r.deliver(1, "n1", "node-warm", b)
	}
	if sib != nil {
		r.deliver(1, "n1", "node-warm", sib)
	}
}

// ------------------------------------------------------------------------------------------------ generating kinds

// alphabet of a world: the kinds the generators may offer (mirrors MC_Production!Offered and Sane: the chain must never
// be left without a proposer, with a single listed authority, or - under PoS - without a validator that stays).
func (r *run) offer(w *world, num uint32) []Tx {
	var out []Tx
	if !r.pos {
		listed := map[int]bool{}
		for _, c := range w.Auth {
			listed[c.M] = true
		}
		endorsedAfter := func(f func(x *world)) bool {
			c := *w
			c.Auth = append([]cand{}, w.Auth...)
			c.Bal = append([]int{}, w.Bal...)
			f(&c)
			n := 0
			for _, a := range c.Auth {
				if c.Bal[a.M-1] >= c.Thr && n < c.Mbp {
					n++
				}
			}
			return n >= 2 && len(c.Auth) >= 2
		}
		for m := 1; m <= r.cfg.N; m++ {
			if !listed[m] {
				out = append(out, Tx{"add", m, 0})
			} else if len(w.Auth) >= 3 && endorsedAfter(func(x *world) {
				var a []cand
				for _, c := range x.Auth {
					if c.M != m {
						a = append(a, c)
					}
				}
				x.Auth = a
			}) {
				out = append(out, Tx{"revoke", m, 0})
			}
			if endorsedAfter(func(x *world) {
				if x.Bal[m-1] > 0 {
					x.Bal[m-1]--
				}
			}) {
				out = append(out, Tx{"out", m, 0})
			}
			if w.Bal[m-1] < 2 {
				out = append(out, Tx{"in", m, 0})
			}
		}
		for v := 1; v <= 2; v++ {
			if endorsedAfter(func(x *world) { x.Thr = v }) {
				out = append(out, Tx{"thr", 0, v})
			}
		}
		for v := 2; v <= 4; v++ {
			out = append(out, Tx{"mbp", 0, v})
		}
		out = append(out, Tx{"reverted", 0, 0})
		return out
	}
	staying := 0
	for _, l := range w.Lgo {
		if !w.exitB[l.V] {
			staying++
		}
	}
	for m := 1; m <= r.cfg.N; m++ {
		st, has := w.vst[m]
		switch {
		case !has:
			out = append(out, Tx{"sadd", m, 0})
		case st == validation.StatusQueued:
			out = append(out, Tx{"swd", m, 0}, Tx{"sben", m, 9})
		case st == validation.StatusActive:
			out = append(out, Tx{"sinc", m, 0}, Tx{"swd", m, 0}, Tx{"sben", m, 10}, Tx{"sben", m, 0})
			if staying >= 3 {
				out = append(out, Tx{"sexit", m, 0})
			}
		}
	}
	for v := 3; v <= r.cfg.N; v++ {
		out = append(out, Tx{"mbp", 0, v})
	}
	out = append(out, Tx{"reverted", 0, 0})
	return out
}

func (r *run) randomTxs(w *world, num uint32, maxEvent int) []Tx {
	var txs []Tx
	offer := r.offer(w, num)
	nEv := r.rng.Intn(maxEvent + 1)
	exits := 0
	for i := 0; i < nEv && len(offer) > 0; i++ {
		t := offer[r.rng.Intn(len(offer))]
		// a second tx of a kind whose guard was evaluated on the parent world could break the guard: keep the simple ones
		if i > 0 && (t.K == "revoke" || t.K == "out" || t.K == "thr" || t.K == "sexit") {
			continue
		}
		if t.K == "sexit" {
			exits++
		}
		txs = append(txs, t)
	}
	for i := r.rng.Intn(3); i > 0; i-- {
		pos := r.rng.Intn(len(txs) + 1)
		k := "plain"
		if r.rng.Intn(6) == 0 {
			k = "abort"
		}
		txs = append(txs[:pos], append([]Tx{{k, 0, 0}}, txs[pos:]...)...)
	}
	if r.rng.Intn(3) == 0 { // dependencies, also inside this block
		txs = append(txs, Tx{"dep", 0, 1 + r.rng.Intn(5)})
		if r.rng.Intn(2) == 0 {
			txs = append(txs, Tx{"dep", 0, 1 + r.rng.Intn(5)})
		}
	}
	return txs
}

// sibling mints another block on the same parent by another proposer.
func (r *run) sibling(of *blk, maxEvent int) *blk {
	parent := r.blocks[of.par]
	ids, _, _, _, _ := r.view(parent)
	p0 := r.addrID(mustSigner(of.b))
	var others []int
	for _, id := range ids {
		if id != p0 {
			others = append(others, id)
		}
	}
	if len(others) == 0 {
		return nil
	}
	q := others[r.rng.Intn(len(others))]
	name := fmt.Sprintf("b%d", r.nextID)
	r.nextID++
	return r.pack(name, of.par, q, 1+r.rng.Intn(2), r.randomTxs(parent.world, parent.b.Header().Number()+1, maxEvent))
}

func mustSigner(b *block.Block) thor.Address {
	s, err := b.Header().Signer()
	must(err)
	return s
}

// ------------------------------------------------------------------------------------------------ state-level pick check

// pickChecks compares, on states with more candidates than any simulated network has block producers, the two
// implementations of "the first max-block-proposers endorsed candidates": scheduler.Candidates.Pick (validator) and
// authority.Candidates(check, GetMaxBlockProposers(params, true)) (packer, packer/poa_scheduler.go).  One Pick event each.
func pickChecks(idx int, seed int64, res *results, shapes map[string]bool) []trace.Ev {
	cfg := Cfg{N: 4, Auth: []int{1, 2, 3}, Bal: []int{2, 1, 1, 1}, Thr: 1, Mbp: 3, E: 3, Per: 3, Gal: "never"}
	r := newRun(idx, cfg, seed, res, shapes)
	defer r.net.Close()
	huge, _ := new(big.Int).SetString("1000000000000000000000000", 10)
	variants := []struct {
		n, skip int
		mbp     *big.Int
	}{{120, 0, big.NewInt(150)}, {120, 7, big.NewInt(150)}, {120, 0, big.NewInt(0)}, {120, 5, big.NewInt(101)}, {120, 0, big.NewInt(102)},
		{120, 3, big.NewInt(60)}, {50, 4, big.NewInt(150)}, {101, 0, big.NewInt(200)}, {104, 0, huge}, {130, 2, big.NewInt(1000)}}
	for vi, v := range variants {
		st := r.stateOf(r.blocks["b0"].sum)
		aut := builtin.Authority.Native(st)
		for i := 0; i < v.n-3; i++ {
			master := thor.BytesToAddress(thor.Blake2b([]byte(fmt.Sprintf("pick-master-%d-%d", vi, i))).Bytes())
			endorsor := thor.BytesToAddress(thor.Blake2b([]byte(fmt.Sprintf("pick-endorsor-%d-%d", vi, i))).Bytes())
			ok, err := aut.Add(master, endorsor, thor.BytesToBytes32([]byte("m")))
			must(err)
			if !ok {
				harnessError("pick check: cannot add candidate")
			}
			if v.skip == 0 || i%v.skip != 0 {
				must(st.SetBalance(endorsor, unitWei))
			}
		}
		params := builtin.Params.Native(st)
		must(params.Set(thor.KeyMaxBlockProposers, v.mbp))
		end, err := params.Get(thor.KeyProposerEndorsement)
		must(err)
		checker := builtin.Staker.Native(st).TransitionPeriodBalanceCheck(r.net.FC, 1, end)
		list, err := aut.AllCandidates()
		must(err)
		pos := map[thor.Address]int{}
		flags := []bool{}
		for i, c := range list {
			pos[c.NodeMaster] = i + 1
			ok, err := checker(c.NodeMaster, c.Endorsor)
			must(err)
			flags = append(flags, ok)
		}
		// validator side (twice: the second call uses the memoised index list)
		cands := scheduler.NewCandidates(list)
		_, err = cands.Pick(st, checker)
		must(err)
		props, err := cands.Copy().Pick(st, checker)
		must(err)
		vlist := []int{}
		for _, p := range props {
			vlist = append(vlist, pos[p.Address])
		}
		// packer side
		mbp, err := thor.GetMaxBlockProposers(params, true)
		must(err)
		pcs, err := aut.Candidates(checker, mbp)
		must(err)
		plist := []int{}
		for _, c := range pcs {
			plist = append(plist, pos[c.NodeMaster])
		}
		m := 0
		if v.mbp.IsInt64() && v.mbp.Int64() < 100000 {
			m = int(v.mbp.Int64())
		} else {
			m = 100000 // "larger than anything": the model only compares it with the cap
		}
		r.evs = append(r.evs, trace.Ev{"e": "Pick", "n": len(list), "mbp": m, "endorsed": flags, "vlist": vlist, "plist": plist})
		r.res.Validations++
		r.res.ByHistory["state-level-pick"]++
		if fmt.Sprint(vlist) != fmt.Sprint(plist) {
			r.violate("pick-mismatch", "b0", "pick", fmt.Sprintf("with %d candidates and max-block-proposers %v the validator side picks %d proposers, the packer side %d",
				len(list), v.mbp, len(vlist), len(plist)))
		}
	}
	res.RunInfo = append(res.RunInfo, runInfo{Run: idx, Name: "state-level-pick", Events: len(r.evs), Blocks: 0})
	return r.evs
}

// ------------------------------------------------------------------------------------------------ modes

// expEqual compares the ord-independent part of the model's world with the real one.
func (r *run) checkExp(name string, exp map[string]any, w *world) {
	if exp == nil {
		return
	}
	js, _ := json.Marshal(exp)
	var e struct {
		Auth  []int `json:"auth"`
		Bal   []int `json:"bal"`
		Thr   int   `json:"thr"`
		Mbp   int   `json:"mbp"`
		Lgo   []int `json:"lgo"`
		W     []int `json:"w"`
		Ben   []int `json:"ben"`
		Queue []int `json:"queue"`
	}
	must(json.Unmarshal(js, &e))
	var auth, lgo, ww, ben []int
	for _, c := range w.Auth {
		auth = append(auth, c.M)
	}
	for _, l := range w.Lgo {
		lgo, ww, ben = append(lgo, l.V), append(ww, l.W), append(ben, l.Ben)
	}
	same := func(a, b []int) bool { return fmt.Sprint(nz(a)) == fmt.Sprint(nz(b)) }
	ok := same(auth, e.Auth) && w.Thr == e.Thr && w.Mbp == e.Mbp && same(lgo, e.Lgo) && same(ww, e.W) && same(ben, e.Ben) && same(w.Queue, e.Queue)
	if !r.pos {
		ok = ok && same(w.Bal, e.Bal)
	}
	if !ok {
		r.drift("%s: the model's world %s differs from the real one %+v", name, js, *w)
	}
}

// directed: hand-made scenarios aimed at one cache rule each.  p = 0 is "the rightful owner of the slot" (no activity
// updates when now = 1, so that the PoS leader group is cached at all); every scenario is a chain b1 <- b2 <- ...
func directed() []Behaviour {
	var out []Behaviour
	chain := func(name string, cfg Cfg, steps ...Step) {
		for i := range steps {
			steps[i].A, steps[i].B = "pack", i+1
			if steps[i].Par == 0 { // Par k > 0: on block k (a fork); default: on the previous block
				steps[i].Par = i
			}
			if steps[i].Now == 0 {
				steps[i].Now = 1
			}
		}
		out = append(out, Behaviour{Cfg: cfg, Steps: steps, Name: name})
	}
	pos := Cfg{N: 6, Auth: []int{1, 2, 3}, Bal: []int{2, 2, 2, 2, 2, 2}, Thr: 1, Mbp: 3, Hay: true, Queue: []int{1, 2, 3}, E: 5, Per: 5, Gal: "0"}
	for m := 1; m <= 3; m++ {
		for _, nb := range []int{0, 9} {
			// beneficiary set, then changed in a block without activity updates, then the validator itself proposes
			chain(fmt.Sprintf("pos-beneficiary-%d-%d", m, nb), pos,
				Step{Txs: []Tx{{"sben", m, 10}}}, Step{}, Step{Txs: []Tx{{"sben", m, nb}}}, Step{P: m}, Step{}, Step{P: m, Now: 2})
		}
		// somebody goes offline, comes back; the cached group must follow
		chain(fmt.Sprintf("pos-online-%d", m), pos, Step{}, Step{P: m, Now: 3}, Step{}, Step{Now: 2}, Step{}, Step{P: m})
	}
	// a delayed block: the parent is cached (its owner packed it in time), a sibling that skipped one or two slots is
	// validated first, then the block of the earlier slot arrives; both under PoS (leader slice shared between cache
	// entries) and under PoA (candidate slice shared until Update() clones it)
	for _, late := range []int{2, 3} {
		chain(fmt.Sprintf("pos-delayed-sibling-%d", late), pos, Step{}, Step{}, Step{Now: late}, Step{Par: 2}, Step{Par: 4}, Step{Par: 3},
			Step{Par: 5, Now: late}, Step{Par: 5, Now: 2}, Step{Par: 5}, Step{Par: 9})
	}
	// the seed of the slot order is the beta of a block on the PARENT's chain, whatever the best chain is: two branches that
	// split below the seed block, the shorter one first best, then overtaken; every block is looked at again at the end
	for _, c := range []Cfg{pos, {N: 4, Auth: []int{1, 2, 3}, Bal: []int{2, 1, 1, 1}, Thr: 1, Mbp: 4, E: 3, Per: 3, Gal: "never"}} {
		c.Seeder = 2
		name := "poa"
		if c.Hay {
			name = "pos"
		}
		chain(name+"-seed-deep-fork", c, Step{}, Step{}, Step{}, Step{Now: 2}, Step{}, Step{}, Step{Par: 2, Now: 2}, Step{}, Step{}, Step{Now: 2}, Step{},
			Step{}, Step{Par: 6}, Step{Par: 12}, Step{Par: 13})
	}
	posT := pos
	posT.TP, posT.E, posT.Per = 2, 2, 2
	chain("pos-transition-housekeeping", posT, Step{Txs: []Tx{{"mbp", 0, 4}}}, Step{}, Step{Txs: []Tx{{"sadd", 4, 0}}}, Step{Txs: []Tx{{"sinc", 1, 0}}},
		Step{Txs: []Tx{{"sexit", 2, 0}}}, Step{}, Step{P: 4}, Step{}, Step{P: 1}, Step{})
	poa := Cfg{N: 4, Auth: []int{1, 2, 3}, Bal: []int{2, 1, 1, 1}, Thr: 1, Mbp: 4, E: 3, Per: 3, Gal: "never"}
	for _, gal := range []string{"never", "2"} {
		poa.Gal = gal
		chain("poa-add-then-new-proposer-"+gal, poa, Step{}, Step{Txs: []Tx{{"add", 4, 0}}}, Step{P: 4}, Step{}, Step{Txs: []Tx{{"revoke", 2, 0}}}, Step{}, Step{P: 4, Now: 2})
		chain("poa-endorsor-drained-"+gal, poa, Step{}, Step{Txs: []Tx{{"out", 2, 0}}}, Step{}, Step{P: 3, Now: 2}, Step{Txs: []Tx{{"in", 2, 0}}}, Step{P: 2}, Step{})
		chain("poa-endorsement-raised-"+gal, poa, Step{}, Step{Txs: []Tx{{"thr", 0, 2}}}, Step{P: 1}, Step{Now: 2}, Step{Txs: []Tx{{"thr", 0, 1}}}, Step{P: 3}, Step{})
		chain("poa-max-proposers-"+gal, poa, Step{}, Step{Txs: []Tx{{"mbp", 0, 2}}}, Step{P: 1}, Step{P: 2, Now: 2}, Step{Txs: []Tx{{"mbp", 0, 3}}}, Step{P: 3}, Step{})
		chain("poa-delayed-sibling-"+gal, poa, Step{}, Step{}, Step{Now: 3}, Step{Par: 2}, Step{Par: 4}, Step{Par: 3}, Step{Par: 5, Now: 2}, Step{Par: 5},
			Step{Par: 8})
		chain("poa-dependencies-"+gal, poa, Step{Txs: []Tx{{"plain", 0, 0}, {"reverted", 0, 0}, {"dep", 0, 1}, {"dep", 0, 2}, {"dep", 0, 5}}},
			Step{Txs: []Tx{{"dep", 0, 3}, {"dep", 0, 4}, {"reverted", 0, 0}, {"dep", 0, 2}, {"plain", 0, 0}, {"dep", 0, 1}}}, Step{Txs: []Tx{{"dep", 0, 4}, {"dep", 0, 3}}})
		chain("poa-reverted-and-plain-"+gal, poa, Step{Txs: []Tx{{"reverted", 0, 0}, {"plain", 0, 0}}}, Step{Txs: []Tx{{"add", 1, 0}}}, Step{Txs: []Tx{{"out", 4, 0}}}, Step{P: 2, Now: 3}, Step{})
	}
	return out
}

func replay(in string, seed int64, res *results, shapes map[string]bool) [][]trace.Ev {
	var behs []Behaviour
	if in == "directed" {
		behs = directed()
	} else {
		raw, err := os.ReadFile(in)
		must(err)
		must(json.Unmarshal(raw, &behs))
	}
	var all [][]trace.Ev
	for i, bh := range behs {
		r := newRun(i, bh.Cfg, seed*1000+int64(i), res, shapes)
		names := map[int]string{0: "b0"}
		for _, s := range bh.Steps {
			switch s.A {
			case "pack":
				par, ok := names[s.Par]
				if !ok {
					continue // parent could not be made
				}
				name := fmt.Sprintf("b%d", r.nextID)
				r.nextID++
				prop := s.P
				if prop <= 0 { // directed scenarios: the rightful owner of the slot asked for
					if prop = r.slotOwner(r.blocks[par], s.Now); prop == 0 {
						continue
					}
				}
				b := r.pack(name, par, prop, s.Now, s.Txs)
				if b == nil {
					continue
				}
				names[s.B] = name
				r.checkExp(name, s.Exp, b.world)
				var sib *blk
				if r.rng.Intn(2) == 0 {
					sib = r.sibling(b, 1)
				}
				r.battery(b, sib, true)
			case "val":
				if name, ok := names[s.B]; ok {
					b := r.blocks[name]
					r.process("w", "model-node", r.inst["w"], b, b.conflicts)
				}
			case "rst":
				r.restartInst("w")
			}
		}
		for _, name := range r.order {
			r.late(r.blocks[name])
		}
		res.RunInfo = append(res.RunInfo, runInfo{Run: i, Name: bh.Name, Events: len(r.evs), Blocks: len(r.order) - 1})
		all = append(all, r.evs)
		r.net.Close()
	}
	if in == "directed" {
		all = append(all, pickChecks(len(behs), seed, res, shapes))
	}
	return all
}

func randomCfg(profile string, rng *rand.Rand) Cfg {
	switch profile {
	case "poa":
		return Cfg{N: 4, Auth: []int{1, 2, 3}, Bal: []int{1 + rng.Intn(2), 1 + rng.Intn(2), rng.Intn(3), 1}, Thr: 1, Mbp: 3 + rng.Intn(2), E: 3, Per: 3, Gal: "never"}
	case "gal3":
		return Cfg{N: 4, Auth: []int{1, 2, 3, 4}, Bal: []int{2, 1, 1 + rng.Intn(2), rng.Intn(3)}, Thr: 1, Mbp: 3 + rng.Intn(2), E: 3, Per: 3, Gal: "3"}
	case "pos":
		e := uint32(2 + rng.Intn(2))
		return Cfg{N: 6, Auth: []int{1, 2, 3}, Bal: []int{2, 2, 2, 2, 2, 2}, Thr: 1, Mbp: 3, Hay: true, TP: e * uint32(rng.Intn(3)), Queue: []int{1, 2, 3}, E: e,
			Per: e * uint32(1+rng.Intn(2)), Gal: "0"}
	}
	harnessError("unknown profile %s", profile)
	return Cfg{}
}

func random(profile string, runs, blocks int, seed int64, res *results, shapes map[string]bool) [][]trace.Ev {
	seeders := []uint32{0, 3, 4, 2}
	var all [][]trace.Ev
	profs := strings.Split(profile, ",")
	for i := 0; i < runs; i++ {
		rs := seed*7919 + int64(i)
		rng := rand.New(rand.NewSource(rs))
		prof := profs[i%len(profs)]
		cfg := randomCfg(prof, rng)
		cfg.Seeder = seeders[rng.Intn(len(seeders))]
		r := newRun(i, cfg, rs, res, shapes)
		alt, altAt := "", 0 // head of a competing branch and the position of its last extension
		for len(r.order)-1 < blocks {
			// parent: mostly the newest block, sometimes one of the last few (fork); a competing branch is kept alive for a
			// while so that forks get deeper than the seed block of the slot order
			k := len(r.order) - 1
			onAlt := false
			if alt != "" && len(r.order)-altAt > 8 {
				alt = ""
			}
			switch x := r.rng.Intn(20); {
			case alt != "" && x < 7:
				onAlt = true
			case x < 10 && k > 0:
				k -= 1 + r.rng.Intn(min(3, k))
				if alt == "" {
					onAlt = true // this fork becomes the competing branch
					alt = r.order[k]
				}
			}
			parent := r.blocks[r.order[k]]
			if onAlt {
				parent = r.blocks[alt]
			}
			ids, _, _, _, _ := r.view(parent)
			if len(ids) == 0 {
				harnessError("run %d: nobody can propose on %s", i, parent.name)
			}
			p := ids[r.rng.Intn(len(ids))]
			now := 1
			if x := r.rng.Intn(10); x >= 7 {
				now = 2 + (x-7)%2 + r.rng.Intn(2)
			}
			if r.rng.Intn(2) == 0 {
				// the rightful owner of the slot asked for (no or few activity updates: the PoS cache is only kept then)
				if o := r.slotOwner(parent, now); o > 0 {
					p = o
				}
			}
			name := fmt.Sprintf("b%d", r.nextID)
			r.nextID++
			b := r.pack(name, parent.name, p, now, r.randomTxs(parent.world, parent.b.Header().Number()+1, 2))
			if b == nil {
				continue
			}
			if onAlt {
				alt, altAt = b.name, len(r.order)
			}
			var sib *blk
			if r.rng.Intn(3) == 0 {
				sib = r.sibling(b, 2)
			}
			r.battery(b, sib, r.rng.Intn(4) == 0)
			// the trace specification may forget blocks nobody will build on or validate again
			for len(r.order)-r.pruned > 14 {
				for _, name := range r.order[r.pruned:] {
					if c := r.blocks[name]; c.par == r.order[r.pruned] {
						r.late(c)
					}
				}
				r.evs = append(r.evs, trace.Ev{"e": "Prune", "b": r.order[r.pruned]})
				r.pruned++
			}
		}
		res.RunInfo = append(res.RunInfo, runInfo{Run: i, Name: prof, Events: len(r.evs), Blocks: len(r.order) - 1})
		all = append(all, r.evs)
		r.net.Close()
	}
	return all
}

func main() {
	mode := flag.String("mode", "random", "replay | random")
	in := flag.String("in", "", "behaviours exported by TLC (replay)")
	out := flag.String("out", ".", "output directory")
	seed := flag.Int64("seed", 1, "seed")
	runs := flag.Int("runs", 3, "runs (random)")
	blocks := flag.Int("blocks", 100, "blocks per run (random)")
	profile := flag.String("profile", "poa,gal3,pos", "profiles (random), comma separated, round robin")
	flag.Parse()
	must(os.MkdirAll(*out, 0o755))
	res := &results{Mode: *mode, Seed: *seed, ByHistory: map[string]int{}, Kinds: map[string]int{}, Flavours: map[string]int{},
		Violations: []violation{}, Drift: []string{}, Notes: []string{}}
	shapes := map[string]bool{}
	var all [][]trace.Ev
	var flat []trace.Ev
	switch *mode {
	case "replay":
		all = replay(*in, *seed, res, shapes)
	case "directed":
		all = replay("directed", *seed, res, shapes)
	case "solo": // -blocks seconds of interval packing
		flat = soloMode(*seed, *blocks, res)
	case "packerloop": // -runs networks, -blocks seconds of wall-clock time
		flat = packerLoopMode(*runs, *seed, *blocks, res)
	case "random":
		all = random(*profile, *runs, *blocks, *seed, res, shapes)
	default:
		harnessError("unknown mode %s", *mode)
	}
	var evs []trace.Ev
	if flat != nil {
		evs = flat // run boundaries are in RunInfo already
	} else {
		for i, e := range all {
			res.RunInfo[i].Start = len(evs)
			evs = append(evs, e...)
		}
		res.Runs = len(all)
	}
	res.Distinct = len(shapes)
	for k := range shapes {
		res.Shapes = append(res.Shapes, k)
	}
	sort.Strings(res.Shapes)
	sort.SliceStable(res.Violations, func(i, j int) bool { return res.Violations[i].Run < res.Violations[j].Run })
	must(trace.WriteNDJSON(filepath.Join(*out, "trace.ndjson"), evs))
	js, _ := json.MarshalIndent(res, "", " ")
	must(os.WriteFile(filepath.Join(*out, "results.json"), js, 0o644))
	fmt.Printf("{\"runs\":%d,\"blocks\":%d,\"validations\":%d,\"violations\":%d,\"drift\":%d}\n", res.Runs, res.Blocks, res.Validations, len(res.Violations), len(res.Drift))
}
