// solo.go - binding of the solo engine (cmd/thor/solo) for specs/rules/Solo.tla (mode "solo").
//
// On-demand packing needs no real time: every transaction handed to the real OnDemandTxPool is packed at once by the
// real solo.Core (packer.Mock on the best block, time = max(now, best time + T)).  Interval packing is the real
// solo.Solo.Run loop with a 2 s block interval for a few seconds of wall-clock time.  The solo network is a custom net
// whose only authority is dev account 0 (the account solo packs with).
// Every block solo stored is handed to a COLD consensus.New(repo, stater, fc).Process: solo's packer skips scheduling
// ("not in consensus"), so the verdict is predicted by Solo.tla from the block's times alone: accepted iff the distance
// to the parent is a positive multiple of T (the sole authority owns every slot).
package main

import (
	"context"
	"fmt"
	"math/big"
	"strings"
	"time"

	"github.com/vechain/thor/v2/cmd/thor/solo"
	"github.com/vechain/thor/v2/consensus"
	"github.com/vechain/thor/v2/thor"
	"github.com/vechain/thor/v2/tx"

	"verifharness/internal/sim"
	"verifharness/internal/trace"
	"verifharness/internal/txkit"
)

type soloRun struct {
	idx    int
	mode   string
	net    *sim.Net
	launch uint64
	evs    []trace.Ev
	res    *results
	seen   uint32 // highest block number already judged
}

func (r *soloRun) violate(sig, what string) {
	r.res.Violations = append(r.res.Violations, violation{Sig: sig, What: fmt.Sprintf("solo run %d (%s): %s", r.idx, r.mode, what), Run: r.idx, Index: len(r.evs) - 1})
}

// judge logs and validates every block solo stored since the last call.
func (r *soloRun) judge(askedAt uint64, ntxOffered int) int {
	g := r.net.God
	best := g.Repo.BestBlockSummary().Header.Number()
	made := 0
	for n := r.seen + 1; n <= best; n++ {
		id, err := g.Repo.NewBestChain().GetBlockID(n)
		must(err)
		blk, err := g.Repo.GetBlock(id)
		must(err)
		h := blk.Header()
		parent, err := g.Repo.GetBlockSummary(h.ParentID())
		must(err)
		var verr error
		func() {
			defer func() {
				if x := recover(); x != nil {
					verr = fmt.Errorf("PANIC: %v", x)
				}
			}()
			st, rc, err := consensus.New(g.Repo, g.Stater, r.net.FC).Process(parent, blk, far, 0)
			verr = err
			if err == nil && (st.Hash() != h.StateRoot() || rc.RootHash() != h.ReceiptsRoot()) {
				verr = fmt.Errorf("accepted with other roots")
			}
		}()
		class := ""
		if verr != nil {
			class = errClass(verr)
			if strings.Contains(verr.Error(), "interval not rounded") {
				class = "interval-not-rounded"
			}
		}
		signer, _ := h.Signer()
		r.evs = append(r.evs, trace.Ev{"e": "SoloBlock", "mode": r.mode, "num": h.Number(), "t": h.Timestamp() - r.launch, "pt": parent.Header.Timestamp() - r.launch,
			"ntx": len(blk.Transactions()), "asked": askedAt - r.launch, "ok": verr == nil, "why": class, "owner": signer == r.net.Devs[0].Address})
		r.res.Validations++
		r.res.ByHistory["solo-"+r.mode]++
		rounded := h.Timestamp() > parent.Header.Timestamp() && (h.Timestamp()-parent.Header.Timestamp())%thor.BlockInterval() == 0
		switch {
		case rounded && verr != nil:
			r.violate("solo:rejected:"+class, fmt.Sprintf("block #%d (t=%d, parent t=%d) is rejected by a cold consensus instance: %v", h.Number(), h.Timestamp(), parent.Header.Timestamp(), verr))
		case !rounded && verr == nil:
			r.violate("solo:accepted-unrounded", fmt.Sprintf("block #%d with an unrounded interval is accepted", h.Number()))
		case !rounded && class != "interval-not-rounded":
			r.violate("solo:rejected:"+class, fmt.Sprintf("block #%d is rejected for another reason than its interval: %v", h.Number(), verr))
		}
		made++
	}
	r.seen = best
	return made
}

func soloMode(seed int64, secs int, res *results) []trace.Ev {
	var all []trace.Ev
	T := uint64(2)
	newNet := func() (*sim.Net, uint64) {
		launch := uint64(time.Now().Unix())/T*T - 10*T
		return sim.NewNetProd(sim.Options{Validators: 1, Nodes: 1, MBP: 1, EpochLength: 6, SkipLogs: true, LaunchTime: launch}, sim.Prod{Interval: T}), launch
	}
	add := func(r *soloRun) {
		start := len(all)
		all = append(all, trace.Ev{"e": "Reset", "run": r.idx, "mode": r.mode, "T": T})
		all = append(all, r.evs...)
		for i := range res.Violations {
			if res.Violations[i].Run == r.idx && strings.HasPrefix(res.Violations[i].Sig, "solo:") {
				res.Violations[i].Index++
			}
		}
		res.RunInfo = append(res.RunInfo, runInfo{Run: r.idx, Name: "solo-" + r.mode, Start: start, Events: len(all) - start, Blocks: int(r.seen)})
		res.Blocks += int(r.seen)
	}
	// ---- on demand -----------------------------------------------------------------------------------------------
	{
		net, launch := newNet()
		r := &soloRun{idx: 0, mode: "ondemand", net: net, launch: launch, res: res}
		g := net.God
		core := solo.NewCore(g.Repo, g.Stater, g.LogDB, solo.Options{OnDemand: true, SkipLogs: true}, net.FC)
		pool := solo.NewOnDemandTxPool(core)
		env := txkit.NewEnv(g.Repo.ChainTag(), uint64(seed))
		send := func(cls ...*tx.Clause) {
			t := txkit.Build(env.For(0, nil), net.Devs[1].PrivateKey, txkit.Opt{}, cls...)
			asked := uint64(time.Now().Unix())
			err := pool.AddLocal(t)
			made := r.judge(asked, 1)
			r.evs = append(r.evs, trace.Ev{"e": "SoloAdd", "asked": asked - launch, "made": made, "err": err != nil})
		}
		// a burst (blocks run ahead of the clock, T apart), a pause longer than T (the next block takes "now"), a
		// transaction that is not executable (no block), a reverting one (packed)
		for i := 0; i < 2; i++ {
			send(txkit.Transfer(net.Devs[2].Address, big.NewInt(int64(1+i))))
		}
		send(txkit.Reverting())
		time.Sleep(5100 * time.Millisecond) // past the blocks that ran ahead of the clock
		send(txkit.Transfer(net.Devs[2].Address, big.NewInt(9)))
		send(txkit.Transfer(net.Devs[2].Address, big.NewInt(10)))
		add(r)
		net.Close()
	}
	// ---- interval ------------------------------------------------------------------------------------------------
	{
		net, launch := newNet()
		r := &soloRun{idx: 1, mode: "interval", net: net, launch: launch, res: res}
		g := net.God
		core := solo.NewCore(g.Repo, g.Stater, g.LogDB, solo.Options{SkipLogs: true}, net.FC)
		env := txkit.NewEnv(g.Repo.ChainTag(), uint64(seed)+1)
		g.Pool.Txs = tx.Transactions{txkit.Build(env.For(0, nil), net.Devs[1].PrivateKey, txkit.Opt{}, txkit.Transfer(net.Devs[2].Address, big.NewInt(5)))}
		ctx, cancel := context.WithCancel(context.Background())
		done := make(chan error, 1)
		go func() { done <- solo.New(g.Repo, g.Stater, g.Pool, solo.Options{SkipLogs: true}, core).Run(ctx) }()
		time.Sleep(time.Duration(secs) * time.Second)
		cancel()
		if err := <-done; err != nil && err != context.Canceled {
			r.violate("solo:run-error", err.Error())
		}
		r.judge(uint64(time.Now().Unix()), 1)
		add(r)
		net.Close()
	}
	res.Runs = 2
	return all
}
