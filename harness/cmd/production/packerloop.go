// packerloop.go - real-time binding of specs/rules/PackerLoop.tla (mode "packerloop").
//
// time.Now() is hard-wired into cmd/thor/node/packer_loop.go, so the loop is driven through short REAL slots: networks
// with a 2 s block interval and a launch time just before "now".  One full node stack per network is started through
// the real Node.Run (sim RealRun) and told it is synced; the other validators are played by the harness: at (or some
// time after) their own slots they mint a valid block on the omniscient stack's best block and the block is delivered to
// the node after a random delay (0 .. 2.7 s) - or they sleep through their turn.  Recorded, with millisecond wall-clock
// stamps relative to the launch time: Import (node.processBlock returned) and Pack (an own block of the node appeared
// among its heads).  Every own block is also validated by the omniscient stack's consensus.
//
// The node's best block is read from the node itself right after every event (fork choice is the BFT engine's: quality
// first, then score - a block with a higher score is NOT necessarily adopted).  Stamps are conservative: an Import stamp is
// taken after processBlock returned (true time is earlier), a Pack carries `lo`, the end of the previous look (true time
// is later).  `stall` (End event) is the worst delay the harness's own timer suffered.
// Oracles that do not depend on timing precision decide alone (a cold validator rejects an own block; two own blocks for
// one (parent, slot); an own block more than T/2 before its slot).  The stale-parent and lateness rules are judged with
// generous margins (see Trace_PackerLoop.tla) because the machine may be busy.
package main

import (
	"fmt"
	"math/rand"
	"sort"
	"sync"
	"time"

	"github.com/vechain/thor/v2/block"
	"github.com/vechain/thor/v2/packer"
	"github.com/vechain/thor/v2/thor"

	"verifharness/internal/sim"
	"verifharness/internal/trace"
)

const plInterval = 2 // seconds

type plRun struct {
	idx    int
	me     int
	net    *sim.Net
	node   *sim.Node
	rng    *rand.Rand
	launch uint64
	evs    []trace.Ev
	ids    *trace.Interner
	known  map[thor.Bytes32]bool // blocks the harness has seen (own blocks of the node, minted ones)
	viol   []violation
	own    int
	stall  int64 // worst observed delay (ms) of the harness's own 20 ms look: a measure of how busy the machine was
}

func (r *plRun) ms() int64 { return time.Now().UnixMilli() - int64(r.launch)*1000 }

func (r *plRun) violate(sig, what string) {
	r.viol = append(r.viol, violation{Sig: sig, What: fmt.Sprintf("packer loop run %d (validator %d): %s", r.idx, r.me, what), Run: r.idx, Index: len(r.evs) - 1})
}

func (r *plRun) blockFacts(b *block.Block) trace.Ev {
	h := b.Header()
	return trace.Ev{"b": r.ids.Name(h.ID().Bytes()), "par": r.ids.Name(h.ParentID().Bytes()), "num": h.Number(),
		"time": h.Timestamp() - r.launch, "score": h.TotalScore(), "signer": r.net.SignerOf(h)}
}

type plDelivery struct {
	b   *block.Block
	due int64
}

// run plays the scenario for `dur` of wall-clock time.
func (r *plRun) run(dur time.Duration) {
	T := uint64(plInterval)
	god := r.net.God
	r.ids.Name(r.net.B0.Header().ID().Bytes())
	r.known[r.net.B0.Header().ID()] = true
	var queue []plDelivery
	minted := map[string]bool{} // parent|validator -> done (minted or slept through)
	var others []int
	for v := 0; v < r.net.Opt.Validators; v++ {
		if v != r.me {
			others = append(others, v)
		}
	}
	r.node.Comm.MarkSynced()
	r.evs = append(r.evs, trace.Ev{"e": "Synced", "at": r.ms()})
	end := time.Now().Add(dur)
	prev := r.ms() // end of the previous look: an own block first seen now was packed after that moment
	for time.Now().Before(end) {
		lo := prev
		before := time.Now()
		time.Sleep(20 * time.Millisecond)
		if over := time.Since(before).Milliseconds() - 20; over > r.stall {
			r.stall = over // how late this process was woken: the node's own 1 s timer is no better off
		}
		// 1. own blocks of the node: new heads signed by it
		heads, err := r.node.Repo.ScanHeads(0)
		must(err)
		for _, id := range heads {
			// walk down: several own blocks may have appeared since the last look (a busy machine); they are recorded and
			// handed to the cold-store validator parent first
			var fresh []*block.Block
			for !r.known[id] {
				blk, err := r.node.Repo.GetBlock(id)
				must(err)
				if r.net.SignerOf(blk.Header()) != r.me {
					break // delivered by the harness a moment ago, not yet marked (cannot happen: marked before delivery)
				}
				r.known[id] = true
				fresh = append(fresh, blk)
				id = blk.Header().ParentID()
			}
			for i := len(fresh) - 1; i >= 0; i-- {
				blk := fresh[i]
				ev := r.blockFacts(blk)
				ev["e"], ev["at"], ev["lo"] = "Pack", r.ms(), lo
				ev["best"] = r.ids.Name(r.node.Repo.BestBlockSummary().Header.ID().Bytes())
				if i > 0 {
					// the node packed fresh[i-1] on this block: the loop schedules on its best block, so this block WAS the
					// node's best before now (readings are upper-bound stamps); the present best is not in the trace yet
					ev["best"] = ev["b"]
				}
				r.evs = append(r.evs, ev)
				r.own++
				if err := r.net.GodLearn(blk); err != nil {
					r.violate("packerloop:own-block-rejected", fmt.Sprintf("own block #%d rejected by a cold-store validator: %v", blk.Header().Number(), err))
				}
			}
		}
		// 2. the other validators: at their slot on the omniscient best (plus jitter) they mint - or sleep through it
		best := god.Repo.BestBlockSummary()
		nowSec := uint64(time.Now().Unix())
		for _, v := range others {
			key := fmt.Sprintf("%x|%d", best.Header.ID().Bytes()[:8], v)
			if minted[key] {
				continue
			}
			acc := r.net.Devs[v]
			flow, err := packer.New(god.Repo, god.Stater, acc.Address, &acc.Address, r.net.FC, 0).Schedule(best, best.Header.Timestamp()+T)
			if err != nil || flow.When() > nowSec {
				continue
			}
			minted[key] = true
			if r.rng.Intn(4) == 0 {
				continue // offline this round
			}
			m, err := r.net.MintAt(best.Header.ID(), v, &acc.Address, false, flow.When())
			if err != nil || m.Known {
				continue
			}
			r.known[m.Block.Header().ID()] = true
			delay := []int64{0, 0, 150, 400, 900, 1600, 2700}[r.rng.Intn(7)]
			queue = append(queue, plDelivery{m.Block, r.ms() + delay})
		}
		// 3. deliveries that are due (oldest first; a block whose parent is still on its way waits)
		sort.SliceStable(queue, func(i, j int) bool { return queue[i].due < queue[j].due })
		var rest []plDelivery
		for _, d := range queue {
			if d.due > r.ms() {
				rest = append(rest, d)
				continue
			}
			class, err := r.node.Deliver(d.b)
			switch class {
			case "ok":
				ev := r.blockFacts(d.b)
				ev["e"], ev["at"] = "Import", r.ms()
				ev["best"] = r.ids.Name(r.node.Repo.BestBlockSummary().Header.ID().Bytes())
				r.evs = append(r.evs, ev)
			case "known":
			case "parent-missing", "unprocessable", "future":
				rest = append(rest, plDelivery{d.b, r.ms() + 200})
			default:
				r.violate("packerloop:import-error", fmt.Sprintf("the node refused a valid block of validator %d: %s %v", r.net.SignerOf(d.b.Header()), class, err))
			}
		}
		queue = rest
		if it := time.Since(before).Milliseconds(); it-20 > r.stall {
			r.stall = it - 20 // a long iteration (imports, minting under load) delays the next look just as much
		}
		prev = r.ms()
	}
	r.evs = append(r.evs, trace.Ev{"e": "End", "stall": r.stall})
}

// packerLoopMode runs `n` networks concurrently (validator k%3 is the real node in network k).
func packerLoopMode(n int, seed int64, secs int, res *results) []trace.Ev {
	var runs []*plRun
	now := uint64(time.Now().Unix())
	launch := now/plInterval*plInterval - plInterval
	for k := 0; k < n; k++ {
		o := sim.Options{Validators: 3, Nodes: 3, EpochLength: 6, SkipLogs: true, RealRun: true, NoGalactica: k%2 == 1, LaunchTime: launch - uint64(k/3)*plInterval}
		net := sim.NewNetProd(o, sim.Prod{Interval: plInterval})
		me := k % 3
		runs = append(runs, &plRun{idx: k, me: me, net: net, node: net.Nodes[me], rng: rand.New(rand.NewSource(seed*31 + int64(k))), launch: o.LaunchTime,
			ids: trace.NewInterner("b"), known: map[thor.Bytes32]bool{}})
	}
	var wg sync.WaitGroup
	for _, r := range runs {
		wg.Add(1)
		go func(r *plRun) {
			defer wg.Done()
			defer func() {
				if x := recover(); x != nil {
					r.violate("packerloop:panic", fmt.Sprintf("panic: %v", x))
				}
			}()
			r.run(time.Duration(secs) * time.Second)
		}(r)
	}
	wg.Wait()
	var all []trace.Ev
	for _, r := range runs {
		ranks := r.ids.Ranks()
		ord := map[string]int{}
		for name, rk := range ranks {
			ord[name] = rk
		}
		start := len(all)
		all = append(all, trace.Ev{"e": "Reset", "run": r.idx, "me": r.me, "T": plInterval, "n": 3, "ord": ord})
		all = append(all, r.evs...)
		for i := range r.viol {
			r.viol[i].Index += 1
		}
		res.Violations = append(res.Violations, r.viol...)
		res.RunInfo = append(res.RunInfo, runInfo{Run: r.idx, Name: fmt.Sprintf("packerloop-v%d", r.me), Start: start, Events: len(all) - start, Blocks: r.own})
		res.Blocks += r.own
		res.ByHistory["packerloop-own-block"] += r.own
		res.Validations += r.own
		r.net.Close()
	}
	res.Runs = len(runs)
	return all
}
