package main

import (
	"github.com/vechain/thor/v2/block"
	"github.com/vechain/thor/v2/packer"
	"github.com/vechain/thor/v2/tx"

	"verifharness/internal/trace"
)

// learn registers a block the node produced itself: facts from the node's own repository, the omniscient stack learns it
// (so that competitors can be minted on it), other nodes can be given it.
func (s *stack) learn(blk *block.Block) {
	w := s.w
	id := blk.Header().ID()
	if _, ok := w.blocks[id]; ok {
		return
	}
	receipts, err := s.node.Repo.GetBlockReceipts(id)
	must(err)
	if err := w.net.GodLearn(blk); err != nil {
		fail("the omniscient stack refuses a block packed by node %d: %v", s.idx, err)
	}
	w.rec.noteBlock(blk, receipts)
	w.blocks[id] = blk
	w.order = append(w.order, blk)
}

// pack lets the node pack on flow (nil: schedule on its best block now) with txs in its pool, through the real doPack.
// Returns the block (nil if nothing was produced).
func (s *stack) pack(flow *packer.Flow, txs []*tx.Transaction, stale bool) *block.Block {
	if s.dead {
		return nil
	}
	w := s.w
	if flow == nil {
		var err error
		if flow, err = s.node.Schedule(0); err != nil {
			return nil // not this validator's turn within reach: harness business
		}
	}
	s.node.Pool.Txs = txs
	old := s.node.Repo.BestBlockSummary().Header.ID()
	oldChain := s.node.Repo.NewChain(old)
	var blk *block.Block
	if re := guard("pack", func() (err error) { blk, err = s.node.Pack(flow); return }); re != nil {
		s.die(re, trace.Ev{"flowParent": w.rec.bname(flow.ParentHeader().ID()), "stale": stale})
		return nil
	}
	s.node.Pool.Txs = nil
	s.learn(blk)
	trunk := s.node.Repo.BestBlockSummary().Header.ID() == blk.Header().ID()
	w.st.Packs++
	if stale {
		if trunk {
			w.st.StaleWon++
		} else {
			w.st.StaleLost++
		}
	}
	if trunk && blk.Header().ParentID() != old {
		gone, err := oldChain.Exclude(s.node.Repo.NewChain(blk.Header().ParentID()))
		must(err)
		w.st.Reorgs++
		d := len(gone)
		if d > w.st.MaxDepth {
			w.st.MaxDepth = d
		}
		if d > 5 {
			d = 5
		}
		w.st.DepthHist[d]++
	}
	ev := trace.Ev{"e": "Pack", "b": w.rec.bname(blk.Header().ID()), "trunk": trunk, "stale": stale,
		"flowParent": w.rec.bname(flow.ParentHeader().ID()), "txs": len(blk.Transactions())}
	if trunk {
		s.checkpoint(ev, s.nq, 2)
	} else {
		s.checkpoint(ev, s.nq/4, 0)
	}
	return blk
}

// logTxs: n transactions with c clauses each, every clause emitting events and moving value (rows at every position)
func (w *world) logTxs(parentNum uint32, n, c int) []*tx.Transaction { return w.fatTxs(parentNum, n, c) }

// runProduce: the nodes PRODUCE blocks themselves. Every round one node takes a turn:
//
//	own      schedule and pack on the best block (pool with log-emitting txs)
//	stale    schedule on the best block P; a competing child A of P (another proposer; later slot = lower score, or
//	         earlier slot = higher score) is received and becomes best; then the node packs its own A' on P with OTHER
//	         transactions (fewer / more than A: equal and extra positions). A' wins or loses.
//	stale2   as stale, but two blocks A, A2 arrive: the own block comes too late and is a side block
//	switch   schedule on P; a longer competing branch below P arrives (reorganisation); then the node packs on P
//	after    a reorganisation by received blocks, then a fresh schedule + pack on the new best
func runProduce(rec *recorder, seed int64, blocks, nq, run int) ([]trace.Ev, runStat) {
	st := runStat{Scen: "produce", Seed: seed, Nodes: 2}
	w := newWorld(rec, seed, &st)
	defer w.net.Close()
	rng := w.rng
	w.deploy()
	var stacks []*stack
	for i := 0; i < 2; i++ {
		s := w.openStack(i)
		s.nq = nq
		s.checkpoint(resetEv(run, i, "produce", seed), 4, 0)
		stacks = append(stacks, s)
	}
	defer func() {
		for _, s := range stacks {
			s.close()
		}
	}()
	for _, b := range append([]*block.Block(nil), w.order...) {
		for _, s := range stacks {
			s.deliver(b)
		}
	}
	best := func(s *stack) *block.Block { return w.blocks[s.node.Repo.BestBlockSummary().Header.ID()] }
	// a competitor of the node's validator: minted by one of the OTHER validators
	mintBy := func(parent *block.Block, notWho int, minTime uint64, txs []*tx.Transaction) *block.Block {
		for d := 1; d < nValidators; d++ {
			who := (notWho + d) % nValidators
			blk, err := w.net.Mint(parent.Header().ID(), who, false, minTime, txs...)
			if err != nil {
				continue
			}
			if _, ok := w.blocks[blk.Header().ID()]; ok {
				continue
			}
			receipts, err := w.net.God.Repo.GetBlockReceipts(blk.Header().ID())
			must(err)
			rec.noteBlock(blk, receipts)
			w.blocks[blk.Header().ID()] = blk
			w.order = append(w.order, blk)
			return blk
		}
		return nil
	}
	sizes := func() (int, int, int, int) { // (txs, clauses) of the received block and of the own block: smaller, equal, larger
		switch rng.Intn(3) {
		case 0:
			return 1, 1, 2, 2
		case 1:
			return 2, 2, 1, 1
		default:
			return 1, 2, 1, 2
		}
	}
	for round := 0; len(w.order) < blocks && round < 4*blocks; round++ {
		s := stacks[round%2]
		o := stacks[(round+1)%2]
		if s.dead || o.dead {
			break
		}
		o.deliverChain(best(s)) // both nodes start the round on the same chain (as far as fork choice agrees)
		s.deliverChain(best(o))
		p := best(s)
		pn := p.Header().Number()
		switch x := rng.Intn(100); {
		case x < 20: // own
			if blk := s.pack(nil, w.logTxs(pn, 1+rng.Intn(2), 1+rng.Intn(2)), false); blk != nil {
				o.deliver(blk)
			}
		case x < 65: // stale: a sibling arrives between schedule and pack
			flow, err := s.node.Schedule(0)
			if err != nil {
				continue
			}
			at, ac, bt, bc := sizes()
			minTime := uint64(0)
			if rng.Intn(100) < 60 {
				minTime = flow.When() + 10 // the competitor's slot is later: it skipped ours, its score is lower
			}
			a := mintBy(p, s.idx, minTime, w.logTxs(pn, at, ac))
			if a == nil {
				continue
			}
			s.deliver(a)
			if blk := s.pack(flow, w.logTxs(pn, bt, bc), true); blk != nil {
				o.deliver(a)
				o.deliver(blk)
			}
		case x < 75: // stale2: two blocks arrive, the own block is late
			flow, err := s.node.Schedule(0)
			if err != nil {
				continue
			}
			a := mintBy(p, s.idx, 0, w.logTxs(pn, 1, 2))
			if a == nil {
				continue
			}
			a2 := mintBy(a, s.idx, 0, w.randomTxs(pn+1))
			s.deliver(a)
			if a2 != nil {
				s.deliver(a2)
			}
			if blk := s.pack(flow, w.logTxs(pn, 2, 1), true); blk != nil {
				o.deliverChain(blk)
			}
		case x < 88: // switch: the best chain moves to another branch below P, then the own block on P is packed
			if pn < 3 {
				continue
			}
			flow, err := s.node.Schedule(0)
			if err != nil {
				continue
			}
			base := w.ancestor(p, 1+rng.Intn(2))
			tip := base
			for k := int(pn-base.Header().Number()) + rng.Intn(2); k > 0 && tip != nil; k-- {
				nb := mintBy(tip, s.idx, 0, w.logTxs(tip.Header().Number(), 1, 1+rng.Intn(2)))
				if nb == nil {
					break
				}
				s.deliver(nb)
				tip = nb
			}
			if blk := s.pack(flow, w.logTxs(pn, 1+rng.Intn(2), 2), true); blk != nil {
				o.deliverChain(blk)
			}
		default: // after: a reorganisation by received blocks, then an own block on the new best
			if pn < 3 {
				continue
			}
			base := w.ancestor(p, 1+rng.Intn(3))
			tip := base
			for k := int(pn-base.Header().Number()) + 1; k > 0; k-- {
				nb := mintBy(tip, s.idx, 0, w.logTxs(tip.Header().Number(), 1, 1+rng.Intn(2)))
				if nb == nil {
					break
				}
				s.deliver(nb)
				tip = nb
			}
			q := best(s)
			if blk := s.pack(nil, w.logTxs(q.Header().Number(), 1, 2), false); blk != nil {
				o.deliverChain(blk)
			}
		}
	}
	for _, s := range stacks {
		for _, b := range append([]*block.Block(nil), w.order...) {
			if !s.dead && !s.has(b) {
				s.deliverChain(b)
			}
		}
	}
	st.Blocks = len(w.order)
	var evs []trace.Ev
	for _, s := range stacks {
		evs = append(evs, s.evs...)
	}
	return evs, st
}
