package main

import (
	"bytes"
	"context"
	"errors"
	"math/big"
	"os"
	"path/filepath"
	"sync/atomic"
	"time"

	"github.com/vechain/thor/v2/block"
	"github.com/vechain/thor/v2/logdb"
	"github.com/vechain/thor/v2/thor"
	"github.com/vechain/thor/v2/tx"

	"verifharness/internal/sim"
	"verifharness/internal/trace"
)

// fatTxs: transactions whose every clause makes the logger emit two events and forward value (two transfers):
// about 130 log-db statements per block, so that a catch-up of some twenty blocks crosses syncLogDB's intermediate
// commit (more than 2048 uncommitted statements).
func (w *world) fatTxs(parentNum uint32, nTx, nClauses int) []*tx.Transaction {
	var txs []*tx.Transaction
	for i := 0; i < nTx; i++ {
		var cls []*tx.Clause
		for c := 0; c < nClauses; c++ {
			var tp [4]thor.Bytes32
			for k := range tp {
				tp[k] = w.topic()
			}
			var data thor.Bytes32
			w.rng.Read(data[:])
			fwd := w.account()
			cls = append(cls, tx.NewClause(&w.logger).WithValue(big.NewInt(int64(1 + w.rng.Intn(1000)))).
				WithData(loggerCall(pick(w.rng, []int{1, 2, 3, 4}), tp, data, pick(w.rng, []int{0, 32}), &fwd, true)))
		}
		txs = append(txs, w.mkTx(parentNum, cls...))
	}
	return txs
}

// receipt reads of the first transaction of a block: named store "chain.body", key = num(4) | conflicts | flag 1 | index 0
func isFirstReceiptKey(k []byte) bool {
	const p = "\x02chain.body"
	return len(k) == len(p)+7 && bytes.HasPrefix(k, []byte(p)) && k[len(p)+5] == 1 && k[len(p)+6] == 0
}

// runDisk: the log db is a FILE (logdb.New: WAL, separate read connections, the additional index, re-opened at every
// start) and the genesis is about a day old, so that writeLogs uses the synchronous writer (NewWriter) for recent blocks
// and the sync-off writer for the older ones. The node is then run for a while with another log db (thor --skip-logs),
// through a reorganisation below the file's newest block and some twenty log-heavy blocks; the next start-up has to catch
// up across syncLogDB's intermediate commit, is cancelled on its way (ctx.Done after a chosen block: everything written so
// far is committed, the process exits), and the start after that has to finish the job.
// Block ids of this scenario depend on the wall clock (only here); its traces are validated like the others.
func runDisk(rec *recorder, seed int64, blocks, nq, run int) ([]trace.Ev, runStat) {
	st := runStat{Scen: "disk", Seed: seed, Nodes: 1}
	launch := (uint64(time.Now().Unix()) - 24*3600 - 100) / 10 * 10
	w := newWorldAt(rec, seed, &st, launch)
	defer w.net.Close()
	rng := w.rng
	dir, err := os.MkdirTemp("", "verif-logindex-")
	must(err)
	defer os.RemoveAll(dir)
	path := filepath.Join(dir, "logs.db")
	openFile := func() *logdb.LogDB {
		l, err := logdb.New(path, true, 4)
		must(err)
		return l
	}
	b1 := w.deploy()
	s := w.openStackWith(0, openFile())
	s.nq = nq
	s.checkpoint(resetEv(run, 0, "disk", seed), 4, 0)
	defer func() { s.close(); s.ldb.Close() }()

	// ---- phase 1: ordinary imports and reorganisations on the file
	for _, b := range append([]*block.Block(nil), w.order...) {
		s.deliver(b)
	}
	phase1 := 8 + rng.Intn(4)
	if phase1 > blocks {
		phase1 = blocks
	}
	w.grow(b1, phase1, func(blk *block.Block, _ []*block.Block) { s.deliverChain(blk) })
	if s.dead {
		return s.evs, st
	}
	// ---- phase 2: the node runs with --skip-logs (another log db); the file is closed
	stop := func() {
		s.evs = append(s.evs, trace.Ev{"e": "Stop"})
		s.close()
	}
	stop()
	must(s.ldb.Close())
	other, err := logdb.NewMem()
	must(err)
	nd, err := w.net.OpenStack(0, s.kv, other, nil)
	must(err)
	s.evs = append(s.evs, trace.Ev{"e": "StartSkipLogs"})
	noLog := func(blk *block.Block) bool {
		var trunk bool
		var class string
		var ierr error
		if re := guard("import", func() error { trunk, class, ierr = nd.Node.VerifProcessBlock(blk); return nil }); re != nil {
			s.die(re, trace.Ev{"b": rec.bname(blk.Header().ID())})
			return false
		}
		if class != "ok" {
			s.die(&realErr{"import", class + ": " + errString(ierr)}, trace.Ev{"b": rec.bname(blk.Header().ID())})
			return false
		}
		st.Imports++
		s.evs = append(s.evs, trace.Ev{"e": "ImportNoLog", "b": rec.bname(blk.Header().ID()), "trunk": trunk,
			"best": rec.bname(nd.Repo.BestBlockSummary().Header.ID())})
		return true
	}
	best := func() *block.Block { return w.blocks[nd.Repo.BestBlockSummary().Header.ID()] }
	// a competing branch forks two below the file's newest block and overtakes it
	base := w.ancestor(best(), 2)
	tip := base
	for k := int(best().Header().Number()-base.Header().Number()) + 1; k > 0 && !s.dead; k-- {
		blk := w.mint(tip, w.fatTxs(tip.Header().Number(), 1, 2))
		if blk == nil || !noLog(blk) {
			break
		}
		tip = blk
	}
	// log-heavy blocks on top of whatever is best now
	fat := 34 + rng.Intn(4) // about 4500 statements: the first intermediate commit falls around the 16th of these blocks
	firstFat := best().Header().Number() + 1
	for k := 0; k < fat && !s.dead; k++ {
		p := best()
		blk := w.mint(p, w.fatTxs(p.Header().Number(), 4, 4))
		if blk == nil || !noLog(blk) {
			break
		}
	}
	s.evs = append(s.evs, trace.Ev{"e": "Stop"})
	nd.Node.VerifClose()
	other.Close()
	if s.dead {
		return s.evs, st
	}
	// ---- phase 3: start with the file again; syncLogDB is cancelled after the block holding the k-th first-receipt read
	s.ldb = openFile()
	var nd3 *sim.Node
	if re := guard("restart", func() (err error) { nd3, err = w.net.OpenStack(0, s.kv, s.ldb, nil); return }); re != nil {
		s.die(re, nil)
		return s.evs, st
	}
	s.node, s.closed = nd3, false
	ctx, cancel := context.WithCancel(context.Background())
	// cancel either early (the cancelled run commits only on its way out, the NEXT start crosses the intermediate commit)
	// or late (the cancelled run itself has crossed it); counted in transaction-bearing blocks from the sync position
	k := int32(4 + rng.Intn(6))
	if rng.Intn(2) == 0 {
		k = int32(21 + rng.Intn(5))
	}
	var reads int32
	s.kv.ReadFault = func(key []byte) error {
		if isFirstReceiptKey(key) && atomic.AddInt32(&reads, 1) == k {
			cancel()
		}
		return nil
	}
	var serr error
	re := guard("resync", func() error { serr = quietSyncCtx(ctx, nd3.Repo, s.ldb); return nil })
	s.kv.ReadFault = nil
	cancel()
	switch {
	case re != nil:
		s.die(re, nil)
		return s.evs, st
	case errors.Is(serr, context.Canceled):
		ev := trace.Ev{"e": "SyncCancel", "afterReceiptReads": k, "firstFat": firstFat}
		ev["best"] = s.bestName()
		if _, re := rec.observe(ev, s.ldb, &st); re != nil {
			s.die(re, nil)
			return s.evs, st
		}
		s.evs = append(s.evs, ev)
		st.Cancels++
	case serr == nil: // the chain had fewer transaction-bearing blocks than k: a complete resynchronisation
		s.checkpoint(trace.Ev{"e": "Restart"}, 4, 0)
		stop()
	default:
		s.die(&realErr{"resync", serr.Error()}, nil)
		return s.evs, st
	}
	s.close()
	must(s.ldb.Close())
	// ---- phase 4: the next start finishes the catch-up; then business as usual on large tables
	s.ldb = openFile()
	var nd4 *sim.Node
	if re := guard("restart", func() (err error) { nd4, err = w.net.OpenStack(0, s.kv, s.ldb, quietSync); return }); re != nil {
		s.die(re, nil)
		return s.evs, st
	}
	s.node, s.closed = nd4, false
	s.api = newAPI(nd4.Repo, s.ldb)
	s.checkpoint(trace.Ev{"e": "Restart"}, nq/2, 4)
	s.nq = nq / 4
	for k := 0; k < 3 && !s.dead; k++ {
		p := best4(w, s)
		if k == 1 { // once more a reorganisation, now across log-heavy blocks
			p = w.ancestor(p, 2)
		}
		tip := p
		for j := 0; j < 1+2*(k%2)+k/2 && !s.dead; j++ {
			blk := w.mint(tip, w.randomTxs(tip.Header().Number()))
			if blk == nil {
				break
			}
			s.deliver(blk)
			tip = blk
		}
	}
	st.Blocks = len(w.order)
	return s.evs, st
}

func best4(w *world, s *stack) *block.Block { return w.blocks[s.node.Repo.BestBlockSummary().Header.ID()] }

func errString(err error) string {
	if err == nil {
		return ""
	}
	return err.Error()
}
