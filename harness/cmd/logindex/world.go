package main

import (
	"encoding/binary"
	"fmt"
	"math/big"
	"math/rand"
	"strconv"
	"strings"

	"github.com/vechain/thor/v2/block"
	"github.com/vechain/thor/v2/builtin"
	"github.com/vechain/thor/v2/logdb"
	"github.com/vechain/thor/v2/muxdb"
	"github.com/vechain/thor/v2/state"
	"github.com/vechain/thor/v2/thor"
	"github.com/vechain/thor/v2/tx"

	"verifharness/internal/kvrec"
	"verifharness/internal/sim"
	"verifharness/internal/trace"
)

// ---- a tiny assembler for the logger contract (sim.Asm lacks LOG2..4, CALLDATACOPY, DUP6) ---------------------------

var ops = map[string]byte{"STOP": 0x00, "EQ": 0x14, "ISZERO": 0x15, "CALLVALUE": 0x34, "CALLDATASIZE": 0x36, "CALLDATACOPY": 0x37,
	"POP": 0x50, "MLOAD": 0x51, "JUMP": 0x56, "JUMPI": 0x57, "GAS": 0x5a, "JUMPDEST": 0x5b, "DUP1": 0x80, "DUP6": 0x85,
	"LOG0": 0xa0, "LOG1": 0xa1, "LOG2": 0xa2, "LOG3": 0xa3, "LOG4": 0xa4, "CALL": 0xf1, "REVERT": 0xfd}

func asm(src string) []byte {
	labels := map[string]int{}
	type fix struct {
		at   int
		name string
	}
	var fixes []fix
	var out []byte
	for _, t := range strings.Fields(src) {
		switch {
		case strings.HasSuffix(t, ":"):
			labels[strings.TrimSuffix(t, ":")] = len(out)
			out = append(out, ops["JUMPDEST"])
		case strings.HasPrefix(t, "@"):
			out = append(out, 0x61, 0, 0)
			fixes = append(fixes, fix{len(out) - 2, t[1:]})
		default:
			if op, ok := ops[t]; ok {
				out = append(out, op)
				continue
			}
			v, err := strconv.ParseUint(t, 0, 16)
			if err != nil {
				panic("asm: bad token " + t)
			}
			if v < 256 {
				out = append(out, 0x60, byte(v))
			} else {
				out = append(out, 0x61, byte(v>>8), byte(v))
			}
		}
	}
	for _, f := range fixes {
		pos, ok := labels[f.name]
		if !ok {
			panic("asm: undefined label " + f.name)
		}
		binary.BigEndian.PutUint16(out[f.at:], uint16(pos))
	}
	return out
}

// loggerCode is the runtime code of the test contract. Calldata = nine 32-byte words
//
//	[0] n      0..4: emit LOGn;  9: REVERT;  anything else: no log
//	[1..4]     topics t1..t4
//	[5]        data word           [6] data length (0 or 32)
//	[7]        forward address: if non-zero, CALL it with the whole call value (a transfer INSIDE the call)
//	[8]        if non-zero, a second event LOG1(t1) with empty data follows the first one (two events in one clause)
func loggerCode() []byte {
	return asm(`
		CALLDATASIZE 0 0 CALLDATACOPY
		224 MLOAD DUP1 ISZERO @nofwd JUMPI
		0 0 0 0 CALLVALUE DUP6 GAS CALL POP
	nofwd: POP
		0 MLOAD
		DUP1 0 EQ @l0 JUMPI  DUP1 1 EQ @l1 JUMPI  DUP1 2 EQ @l2 JUMPI  DUP1 3 EQ @l3 JUMPI  DUP1 4 EQ @l4 JUMPI  DUP1 9 EQ @rev JUMPI
		STOP
	l0: 192 MLOAD 160 LOG0 @tail JUMP
	l1: 32 MLOAD 192 MLOAD 160 LOG1 @tail JUMP
	l2: 64 MLOAD 32 MLOAD 192 MLOAD 160 LOG2 @tail JUMP
	l3: 96 MLOAD 64 MLOAD 32 MLOAD 192 MLOAD 160 LOG3 @tail JUMP
	l4: 128 MLOAD 96 MLOAD 64 MLOAD 32 MLOAD 192 MLOAD 160 LOG4 @tail JUMP
	tail: 256 MLOAD ISZERO @end JUMPI 32 MLOAD 0 160 LOG1
	end: STOP
	rev: 0 0 REVERT`)
}

func word(v uint64) []byte { return sim.Word(new(big.Int).SetUint64(v)) }

func loggerCall(n int, topics [4]thor.Bytes32, data thor.Bytes32, dataLen int, fwd *thor.Address, twice bool) []byte {
	out := word(uint64(n))
	for _, t := range topics {
		out = append(out, t[:]...)
	}
	out = append(out, data[:]...)
	out = append(out, word(uint64(dataLen))...)
	if fwd != nil {
		out = append(out, sim.Word(sim.AddrWord(*fwd))...)
	} else {
		out = append(out, word(0)...)
	}
	if twice {
		out = append(out, word(1)...)
	} else {
		out = append(out, word(0)...)
	}
	return out
}

// ---- the world: one network, one block tree, several real node stacks -------------------------------------------------

const (
	nValidators = 3
	nExtra      = 5 // funded senders: dev accounts 3..7
)

type world struct {
	rec      *recorder
	net      *sim.Net
	rng      *rand.Rand
	tag      byte
	nonce    uint64
	logger   thor.Address
	palette  []thor.Bytes32
	blocks   map[thor.Bytes32]*block.Block
	order    []*block.Block // creation order, genesis excluded
	children map[thor.Bytes32]int
	b0       *block.Block
	b0rcpt   tx.Receipts
	st       *runStat
}

func newWorld(rec *recorder, seed int64, st *runStat) *world { return newWorldAt(rec, seed, st, 0) }

// newWorldAt: launch = genesis timestamp (0 = the simulator's fixed default in 2023, reproducible block ids).
func newWorldAt(rec *recorder, seed int64, st *runStat, launch uint64) *world {
	rng := rand.New(rand.NewSource(seed))
	epoch := []uint32{3, 5, 30}[rng.Intn(3)]
	net := sim.NewNet(sim.Options{Validators: nValidators, Nodes: 1, EpochLength: epoch, ExtraAccts: nExtra, SkipLogs: true, LaunchTime: launch})
	w := &world{rec: rec, net: net, rng: rng, tag: net.God.Repo.ChainTag(), nonce: uint64(seed) << 20, palette: topicPalette(),
		blocks: map[thor.Bytes32]*block.Block{}, children: map[thor.Bytes32]int{}, b0: net.B0, st: st}
	w.blocks[net.B0.Header().ID()] = net.B0
	// facts of block 0: the genesis logs thor's start-up writes (one pseudo receipt with one output), from an
	// independent build of the genesis state
	_, gEvents, gTransfers, err := net.Gen.Build(state.NewStater(muxdb.NewMem()))
	must(err)
	w.b0rcpt = tx.Receipts{{Outputs: []*tx.Output{{Events: gEvents, Transfers: gTransfers}}}}
	rec.noteBlock(net.B0, w.b0rcpt)
	return w
}

func (w *world) sender() int { return nValidators + w.rng.Intn(nExtra) }

func (w *world) account() thor.Address { return w.net.Devs[w.rng.Intn(nValidators+nExtra)].Address }

func (w *world) topic() thor.Bytes32 {
	if w.rng.Intn(100) < 12 { // a fresh topic nobody else uses
		var t thor.Bytes32
		w.rng.Read(t[:])
		if w.rng.Intn(2) == 0 {
			t[0], t[1] = 0, 0
		}
		return t
	}
	return pick(w.rng, w.palette)
}

func (w *world) clause() *tx.Clause {
	rng := w.rng
	amount := big.NewInt(int64(1 + rng.Intn(1000)))
	switch x := rng.Intn(100); {
	case x < 18: // plain VET transfer
		to := w.account()
		return tx.NewClause(&to).WithValue(amount)
	case x < 32: // VTHO transfer: the energy contract emits Transfer(from, to, amount) (address topics = 12 leading zeros)
		m, _ := builtin.Energy.ABI.MethodByName("transfer")
		data, err := m.EncodeInput(w.account(), amount)
		must(err)
		return tx.NewClause(&builtin.Energy.Address).WithData(data)
	case x < 39: // the whole transaction reverts: empty receipt, the tx index is skipped
		return tx.NewClause(&w.logger).WithData(loggerCall(9, [4]thor.Bytes32{}, thor.Bytes32{}, 0, nil, false))
	default: // logger call
		var tp [4]thor.Bytes32
		for i := range tp {
			tp[i] = w.topic()
		}
		var data thor.Bytes32
		rng.Read(data[:])
		n := pick(rng, []int{0, 1, 1, 2, 2, 3, 4, 4, 7})
		cl := tx.NewClause(&w.logger)
		var fwd *thor.Address
		if rng.Intn(100) < 35 { // value forwarded by the contract: origin -> contract -> recipient
			a := w.account()
			fwd = &a
			cl = cl.WithValue(amount)
		} else if rng.Intn(100) < 15 { // value kept by the contract
			cl = cl.WithValue(amount)
		}
		return cl.WithData(loggerCall(n, tp, data, pick(rng, []int{0, 32, 32}), fwd, rng.Intn(100) < 25))
	}
}

func (w *world) mkTx(parentNum uint32, clauses ...*tx.Clause) *tx.Transaction {
	w.nonce++
	b := tx.NewBuilder(tx.TypeLegacy).ChainTag(w.tag).BlockRef(tx.NewBlockRef(parentNum)).Expiration(100000).
		Gas(uint64(200000 * len(clauses))).GasPriceCoef(0).Nonce(w.nonce)
	for _, c := range clauses {
		b = b.Clause(c)
	}
	return tx.MustSign(b.Build(), w.net.Devs[w.sender()].PrivateKey)
}

func (w *world) randomTxs(parentNum uint32) []*tx.Transaction {
	rng := w.rng
	var n int
	switch x := rng.Intn(100); {
	case x < 20:
		n = 0 // a block without transactions
	case x < 45:
		n = 1
	case x < 75:
		n = 2
	case x < 92:
		n = 3
	default:
		n = 4
	}
	var txs []*tx.Transaction
	for i := 0; i < n; i++ {
		k := pick(rng, []int{1, 1, 2, 2, 3, 4})
		var cls []*tx.Clause
		for j := 0; j < k; j++ {
			cls = append(cls, w.clause())
		}
		txs = append(txs, w.mkTx(parentNum, cls...))
	}
	return txs
}

// mint builds a valid block on parent with the given txs (signer chosen among the validators), stores its facts.
func (w *world) mint(parent *block.Block, txs []*tx.Transaction) *block.Block {
	// validators rotate by height on every branch, so that every complete epoch of every branch is justified alike
	// and the fork choice mostly follows length / score (it is a logged fact either way)
	first := int(parent.Header().Number()+1) % nValidators
	if w.rng.Intn(100) < 12 {
		first = w.rng.Intn(nValidators)
	}
	var lastErr error
	for d := 0; d < nValidators; d++ {
		who := (first + d) % nValidators
		blk, err := w.net.Mint(parent.Header().ID(), who, false, 0, txs...)
		if err != nil {
			lastErr = err
			continue
		}
		id := blk.Header().ID()
		if _, ok := w.blocks[id]; ok {
			continue // the very same block again (same parent, signer, slot, txs)
		}
		receipts, err := w.net.God.Repo.GetBlockReceipts(id)
		must(err)
		w.rec.noteBlock(blk, receipts)
		w.blocks[id] = blk
		w.order = append(w.order, blk)
		w.children[parent.Header().ID()]++
		for _, rc := range receipts {
			for _, o := range rc.Outputs {
				for _, e := range o.Events {
					if len(e.Topics) == 5 {
						w.st.FiveTopics++
					}
				}
			}
		}
		return blk
	}
	if lastErr != nil {
		fail("cannot mint on block %d: %v", parent.Header().Number(), lastErr)
	}
	return nil // every validator's block on this parent with these txs exists already
}

// deploy mints block 1 with the logger contract.
func (w *world) deploy() *block.Block {
	init := sim.InitCode(loggerCode(), nil, nil)
	t := w.mkTx(0, tx.NewClause(nil).WithData(init))
	w.logger = thor.CreateContractAddress(t.ID(), 0, 0)
	blk := w.mint(w.b0, []*tx.Transaction{t})
	// the contract must exist: a call must produce the event
	probe := w.mkTx(1, tx.NewClause(&w.logger).WithData(loggerCall(1, [4]thor.Bytes32{w.palette[1]}, thor.Bytes32{}, 0, nil, false)))
	pb, err := w.net.Mint(blk.Header().ID(), 0, false, 0, probe)
	must(err)
	rc, err := w.net.God.Repo.GetBlockReceipts(pb.Header().ID())
	must(err)
	if len(rc) != 1 || rc[0].Reverted || len(rc[0].Outputs) != 1 || len(rc[0].Outputs[0].Events) != 1 ||
		rc[0].Outputs[0].Events[0].Address != w.logger || rc[0].Outputs[0].Events[0].Topics[0] != w.palette[1] {
		fail("logger contract does not work: %+v", rc)
	}
	// the probe block is a legitimate member of the tree (a sibling-to-be of block 2)
	w.rec.noteBlock(pb, rc)
	w.blocks[pb.Header().ID()] = pb
	w.order = append(w.order, pb)
	w.children[blk.Header().ID()]++
	return blk
}

func (w *world) ancestor(b *block.Block, up int) *block.Block {
	for ; up > 0 && b.Header().Number() > 1; up-- {
		b = w.blocks[b.Header().ParentID()]
	}
	return b
}

func (w *world) pools() pools {
	addrs := map[thor.Address]bool{w.logger: true, builtin.Energy.Address: true, {}: true, thor.BytesToAddress([]byte("nobody")): true}
	for i := 0; i < nValidators+nExtra; i++ {
		addrs[w.net.Devs[i].Address] = true
	}
	tps := append([]thor.Bytes32{}, w.palette...)
	tps = append(tps, hexTopic("02"), hexTopic("0001"), hexTopic("ff0000"))
	// the energy contract's Transfer event id and an address topic
	if ev, ok := builtin.Energy.ABI.EventByName("Transfer"); ok {
		tps = append(tps, ev.ID())
	}
	tps = append(tps, thor.BytesToBytes32(w.net.Devs[nValidators].Address[:]))
	return pools{addrs: sortedAddrs(addrs), topics: tps}
}

// ---- one real node stack with a log db -----------------------------------------------------------------------------------

type stack struct {
	w    *world
	idx  int
	node *sim.Node
	kv   *kvrec.Engine
	ldb  *logdb.LogDB
	api  *apiServer
	q    *querier
	evs  []trace.Ev
	// blocks that have been canonical on this node and are not any more (to count switch-backs)
	wasCanon map[thor.Bytes32]bool
	nq       int
	dead     bool // a call into thor code failed: the stream ends with an Error event
	closed   bool
}

// die ends the stream: the failure of thor code is logged where it happened; nothing is delivered to this node afterwards.
func (s *stack) die(re *realErr, extra trace.Ev) {
	ev := errorEv(re)
	for k, v := range extra {
		ev[k] = v
	}
	s.evs = append(s.evs, ev)
	s.dead = true
}

func (w *world) openStack(idx int) *stack {
	ldb, err := logdb.NewMem()
	must(err)
	return w.openStackWith(idx, ldb)
}

func (w *world) openStackWith(idx int, ldb *logdb.LogDB) *stack {
	s := &stack{w: w, idx: idx, kv: kvrec.New(), ldb: ldb, wasCanon: map[thor.Bytes32]bool{}}
	nd, err := w.net.OpenStack(idx%nValidators, s.kv, ldb, nil)
	must(err)
	s.node = nd
	s.api = newAPI(nd.Repo, ldb)
	s.q = &querier{rec: w.rec, rng: rand.New(rand.NewSource(w.rng.Int63())), pools: w.pools(), st: w.st}
	return s
}

func (s *stack) bestName() string { return s.w.rec.bname(s.node.Repo.BestBlockSummary().Header.ID()) }

// checkpoint appends ev with the full tables, then nq filter queries and na API calls against the state just observed.
func (s *stack) checkpoint(ev trace.Ev, nq, na int) {
	best := s.node.Repo.BestBlockSummary().Header
	ev["best"] = s.w.rec.bname(best.ID())
	t, re := s.w.rec.observe(ev, s.ldb, s.w.st)
	if re != nil {
		s.die(re, trace.Ev{"after": ev["e"], "b": ev["b"]})
		return
	}
	s.evs = append(s.evs, ev)
	qs, re := s.q.run(s.ldb, t, best.Number(), nq)
	s.evs = append(s.evs, qs...)
	if re == nil && na > 0 {
		qs, re = s.q.runAPI(s.api, t, best.Number(), s.w.b0.Header().Timestamp(), best.Timestamp(), na)
		s.evs = append(s.evs, qs...)
	}
	if re != nil {
		s.die(re, nil)
	}
}

// deliver gives blk to the node through the real import path and logs what happened.
func (s *stack) deliver(blk *block.Block) string {
	if s.dead {
		return "dead"
	}
	w := s.w
	old := s.node.Repo.BestBlockSummary().Header.ID()
	oldChain := s.node.Repo.NewChain(old)
	name := w.rec.bname(blk.Header().ID())
	var trunk bool
	var class string
	var err error
	if re := guard("import", func() error { trunk, class, err = s.node.Node.VerifProcessBlock(blk); return nil }); re != nil {
		s.die(re, trace.Ev{"b": name})
		return "dead"
	}
	switch class {
	case "ok":
		w.st.Imports++
		ev := trace.Ev{"e": "Import", "b": name, "trunk": trunk}
		if trunk {
			gone, err := oldChain.Exclude(s.node.Repo.NewChain(blk.Header().ParentID()))
			must(err)
			if d := len(gone); d > 0 {
				w.st.Reorgs++
				if d > w.st.MaxDepth {
					w.st.MaxDepth = d
				}
				if d > 5 {
					d = 5
				}
				w.st.DepthHist[d]++
				for _, id := range gone {
					s.wasCanon[id] = true
				}
				back, err := s.node.Repo.NewChain(blk.Header().ParentID()).Exclude(oldChain)
				must(err)
				for _, id := range back {
					if s.wasCanon[id] {
						w.st.SwitchBack++
						delete(s.wasCanon, id)
					}
				}
			}
			s.checkpoint(ev, s.nq, 4)
		} else {
			s.checkpoint(ev, s.nq/4, 0)
		}
	case "known", "parent-missing", "unprocessable", "bft-rejected":
		w.st.Ignored++
		s.checkpoint(trace.Ev{"e": "Ignore", "b": name, "class": class}, 2, 0)
	default:
		// the real import path refused a valid block (e.g. the write-logs step failed): an observation, not harness trouble
		s.die(&realErr{"import", fmt.Sprintf("%s: %v", class, err)}, trace.Ev{"b": name, "num": blk.Header().Number()})
		return "dead"
	}
	if s.dead {
		return "dead"
	}
	return class
}

// deliverChain: all missing ancestors oldest first, then the block.
func (s *stack) deliverChain(blk *block.Block) {
	var todo []*block.Block
	for cur := blk; ; {
		if _, err := s.node.Repo.GetBlockSummary(cur.Header().ID()); err == nil {
			break
		}
		todo = append(todo, cur)
		p, ok := s.w.blocks[cur.Header().ParentID()]
		if !ok {
			break
		}
		cur = p
	}
	for k := len(todo) - 1; k >= 0; k-- {
		if c := s.deliver(todo[k]); c != "ok" && c != "known" {
			return
		}
	}
}

func (s *stack) has(blk *block.Block) bool {
	_, err := s.node.Repo.GetBlockSummary(blk.Header().ID())
	return err == nil
}

func (s *stack) close() {
	if !s.closed {
		s.node.Node.VerifClose()
		s.closed = true
	}
}

func resetEv(run, node int, scen string, seed int64) trace.Ev {
	return trace.Ev{"e": "Reset", "run": run, "node": node, "scen": scen, "seed": seed, "name": fmt.Sprintf("run%d-n%d", run, node)}
}
