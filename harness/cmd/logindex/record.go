package main

import (
	"bytes"
	"context"
	"encoding/hex"
	"fmt"
	"sort"
	"strings"

	"github.com/vechain/thor/v2/block"
	"github.com/vechain/thor/v2/logdb"
	"github.com/vechain/thor/v2/thor"
	"github.com/vechain/thor/v2/tx"

	"verifharness/internal/trace"
)

// API limits the handlers are mounted with (small, so that the "too many logs" branch is reached).
const (
	apiMaxLimit    = 9
	apiMaxOffset   = 40
	apiMaxCriteria = 3
)

// recorder holds the names (block ids, tx ids, addresses) and the facts shared by all runs of one trace file.
type recorder struct {
	blocks, txids, addrs *trace.Interner
	facts                map[string]map[string]any // block name -> facts
	factOrder            []string
	rowIDs               map[string]string         // normal form -> row id
	rowDict              map[string]map[string]any // row id -> record
}

func newRecorder() *recorder {
	return &recorder{blocks: trace.NewInterner("b"), txids: trace.NewInterner("x"), addrs: trace.NewInterner("a"),
		facts: map[string]map[string]any{}, rowIDs: map[string]string{}, rowDict: map[string]map[string]any{}}
}

func (r *recorder) bname(id thor.Bytes32) string { return r.blocks.Name(id[:]) }
func (r *recorder) xname(id thor.Bytes32) string { return r.txids.Name(id[:]) }
func (r *recorder) aname(a thor.Address) string  { return r.addrs.Name(a[:]) }

func ints(b []byte) []int {
	out := make([]int, len(b))
	for i, x := range b {
		out[i] = int(x)
	}
	return out
}

// noteBlock records the facts of a block: identity and receipts in their nested form (tx -> clause -> events/transfers).
// Positions (tx index, clause index, block-wide log index) are NOT computed here; the specification derives them.
func (r *recorder) noteBlock(blk *block.Block, receipts tx.Receipts) string {
	h := blk.Header()
	name := r.bname(h.ID())
	if _, ok := r.facts[name]; ok {
		return name
	}
	txs := blk.Transactions()
	txl := make([]any, 0, len(receipts))
	sparse := len(receipts) > 64 // synthetic blocks with thousands of empty receipts: only the non-empty ones are listed
	at := []int{}
	for i, rc := range receipts {
		if sparse && len(rc.Outputs) == 0 {
			continue
		}
		at = append(at, i+1)
		var id thor.Bytes32
		var origin thor.Address
		if i < len(txs) { // the genesis block has a receipt but no transaction
			id = txs[i].ID()
			origin, _ = txs[i].Origin()
		}
		outs := make([]any, 0, len(rc.Outputs))
		for _, o := range rc.Outputs {
			evs := make([]any, 0, len(o.Events))
			for _, e := range o.Events {
				tp := make([]any, 0, len(e.Topics))
				for _, t := range e.Topics {
					tp = append(tp, ints(t[:]))
				}
				evs = append(evs, map[string]any{"a": r.aname(e.Address), "tp": tp, "d": hex.EncodeToString(e.Data)})
			}
			trs := make([]any, 0, len(o.Transfers))
			for _, t := range o.Transfers {
				trs = append(trs, map[string]any{"s": r.aname(t.Sender), "r": r.aname(t.Recipient), "v": t.Amount.String()})
			}
			outs = append(outs, map[string]any{"ev": evs, "tr": trs})
		}
		txl = append(txl, map[string]any{"id": r.xname(id), "origin": r.aname(origin), "outs": outs})
	}
	p := name
	if h.Number() > 0 {
		p = r.bname(h.ParentID())
	}
	r.facts[name] = map[string]any{"p": p, "n": h.Number(), "t": h.Timestamp(), "txs": txl}
	if sparse {
		r.facts[name]["at"] = at
	}
	r.factOrder = append(r.factOrder, name)
	return name
}

// config is the first line of the trace: facts + row dictionary + constants.
func (r *recorder) config() trace.Ev {
	ranks := r.blocks.Ranks()
	for name, f := range r.facts {
		f["ord"] = ranks[name]
	}
	// every name that occurs in a row but has no facts (must not happen on a correct node) still needs an entry
	return trace.Ev{"e": "Config", "blocks": r.facts, "rows": r.rowDict, "genesis": r.factOrder[0],
		"maxLimit": apiMaxLimit, "maxOffset": apiMaxOffset, "maxCriteria": apiMaxCriteria,
		"maxBlockNumber": logdb.MaxBlockNumber, "ids": map[string]any{"blocks": r.blocks.Table(), "txs": r.txids.Table(), "addrs": r.addrs.Table()}}
}

// ---- rows as read back from the log db ------------------------------------------------------------------------------

func (r *recorder) eventRow(e *logdb.Event) string {
	var tps []string
	tp := make([]any, 5)
	for i, t := range e.Topics {
		if t == nil {
			tps = append(tps, "-")
			tp[i] = []int{}
		} else {
			tps = append(tps, hex.EncodeToString(t[:]))
			tp[i] = ints(t[:])
		}
	}
	key := fmt.Sprintf("E|%d|%d|%d|%x|%d|%x|%x|%d|%x|%s|%x", e.BlockNumber, e.TxIndex, e.LogIndex, e.BlockID[:], e.BlockTime,
		e.TxID[:], e.TxOrigin[:], e.ClauseIndex, e.Address[:], strings.Join(tps, ","), e.Data)
	if id, ok := r.rowIDs[key]; ok {
		return id
	}
	id := fmt.Sprintf("e%d", len(r.rowIDs))
	r.rowIDs[key] = id
	r.rowDict[id] = map[string]any{"n": e.BlockNumber, "ti": e.TxIndex, "li": e.LogIndex, "b": r.bname(e.BlockID), "bt": e.BlockTime,
		"tx": r.xname(e.TxID), "o": r.aname(e.TxOrigin), "c": e.ClauseIndex, "a": r.aname(e.Address), "tp": tp,
		"d": hex.EncodeToString(e.Data)}
	return id
}

func (r *recorder) transferRow(t *logdb.Transfer) string {
	key := fmt.Sprintf("T|%d|%d|%d|%x|%d|%x|%x|%d|%x|%x|%s", t.BlockNumber, t.TxIndex, t.LogIndex, t.BlockID[:], t.BlockTime,
		t.TxID[:], t.TxOrigin[:], t.ClauseIndex, t.Sender[:], t.Recipient[:], t.Amount)
	if id, ok := r.rowIDs[key]; ok {
		return id
	}
	id := fmt.Sprintf("t%d", len(r.rowIDs))
	r.rowIDs[key] = id
	r.rowDict[id] = map[string]any{"n": t.BlockNumber, "ti": t.TxIndex, "li": t.LogIndex, "b": r.bname(t.BlockID), "bt": t.BlockTime,
		"tx": r.xname(t.TxID), "o": r.aname(t.TxOrigin), "c": t.ClauseIndex, "s": r.aname(t.Sender), "r": r.aname(t.Recipient),
		"v": t.Amount.String()}
	return id
}

func (r *recorder) eventRows(evs []*logdb.Event) []string {
	out := make([]string, 0, len(evs))
	for _, e := range evs {
		out = append(out, r.eventRow(e))
	}
	return out
}

func (r *recorder) transferRows(trs []*logdb.Transfer) []string {
	out := make([]string, 0, len(trs))
	for _, t := range trs {
		out = append(out, r.transferRow(t))
	}
	return out
}

func sameStrings(a, b []string) bool {
	if len(a) != len(b) {
		return false
	}
	for i := range a {
		if a[i] != b[i] {
			return false
		}
	}
	return true
}

// tables reads both tables back completely, through the empty filter (ordered by key) and through the nil filter.
type tables struct {
	evs []*logdb.Event
	trs []*logdb.Transfer
}

func (r *recorder) observe(ev trace.Ev, ldb *logdb.LogDB, st *runStat) (tables, *realErr) {
	ctx := context.Background()
	var evs, ne []*logdb.Event
	var trs, nt []*logdb.Transfer
	if re := guard("read-tables", func() (err error) {
		if evs, err = ldb.FilterEvents(ctx, &logdb.EventFilter{}); err != nil {
			return
		}
		if trs, err = ldb.FilterTransfers(ctx, &logdb.TransferFilter{}); err != nil {
			return
		}
		if ne, err = ldb.FilterEvents(ctx, nil); err != nil {
			return
		}
		nt, err = ldb.FilterTransfers(ctx, nil)
		return
	}); re != nil {
		return tables{}, re
	}
	E, T := r.eventRows(evs), r.transferRows(trs)
	nE, nT := r.eventRows(ne), r.transferRows(nt)
	ev["E"], ev["T"] = E, T
	// the nil filter has no ORDER BY: logged in full only when it differs from the ordered read
	ev["nilSame"] = sameStrings(E, nE) && sameStrings(T, nT)
	if !sameStrings(E, nE) {
		ev["nilE"] = nE
	}
	if !sameStrings(T, nT) {
		ev["nilT"] = nT
	}
	if len(E) > st.MaxRows {
		st.MaxRows = len(E)
	}
	if len(T) > st.MaxRows {
		st.MaxRows = len(T)
	}
	return tables{evs, trs}, nil
}

// ---- pools of values the query generator draws from ------------------------------------------------------------------

type pools struct {
	addrs  []thor.Address // contracts, accounts, builtin, plus addresses that never occur
	topics []thor.Bytes32 // palette incl. zero / leading-zero / never-emitted topics
}

func hexTopic(s string) thor.Bytes32 {
	b, err := hex.DecodeString(s)
	must(err)
	return thor.BytesToBytes32(b)
}

// palette of topics used by the logger contract and by the queries.
func topicPalette() []thor.Bytes32 {
	var addrLike thor.Bytes32
	copy(addrLike[12:], bytes.Repeat([]byte{0xab}, 20))
	var full thor.Bytes32
	for i := range full {
		full[i] = byte(0xf0 - i)
	}
	return []thor.Bytes32{
		{},                       // all zero
		hexTopic("01"),           // 31 leading zeros
		hexTopic("0100"),         // differs from the previous one only by a TRAILING zero byte
		hexTopic("ff00"),         //
		hexTopic("00ff"),         // = 0xff after stripping
		hexTopic("ff"),           //
		addrLike,                 // 12 leading zeros
		full,                     // no leading zero
		hexTopic("0102030405060708090a0b0c0d0e0f101112131415161718191a1b1c1d1e1f"), // exactly one leading zero byte
	}
}

func sortedAddrs(m map[thor.Address]bool) []thor.Address {
	out := make([]thor.Address, 0, len(m))
	for a := range m {
		out = append(out, a)
	}
	sort.Slice(out, func(i, j int) bool { return bytes.Compare(out[i][:], out[j][:]) < 0 })
	return out
}
