// logindex records event traces of the REAL log index (logdb + node.writeLogs + syncLogDB + the /logs API handlers) for
// Trace_LogIndex.tla (C15).
//
//	logindex -out <dir> -seed S -runs N -scen <name,...|all> [-blocks K] [-queries Q]
//
// Scenarios (all seeded):
//
//	reorg     2-3 real node stacks, a randomly growing block tree with 2-3 competing tips minted on the omniscient stack
//	          (different transactions at equal positions of competing branches, blocks without logs, reverted txs),
//	          delivered to every node in a different order (immediately / in shuffled batches / whole branches at once,
//	          with duplicates and out-of-order deliveries), so that the best chain switches back and forth
//	pingpong  scripted: two branches overtake each other with fork depths 1,2,3,4
//	crash     one node dies after the log transaction of a would-be best block was committed and before the block is stored
//	          (recording kv engine armed at the index-trie / block-bulk write), is restarted with thor's start-up order
//	          incl. syncLogDB, and then receives a competing sibling first
//	rawdb     synthetic linear chain written with logdb.Writer.Write directly: events with FIVE topics (the EVM stops at LOG4)
//
// After EVERY delivery the whole tables are read back from the real log db and a seeded family of filter queries (logdb
// and HTTP API) is run; everything is logged. Output: <dir>/trace.ndjson (line 1 = Config with the block facts and the
// dictionary of all rows ever read back; then one stream per (run, node), each starting with Reset), <dir>/runs.json.
package main

import (
	"encoding/json"
	"flag"
	"fmt"
	"os"
	"path/filepath"
	"strings"

	"verifharness/internal/kvrec"
	"verifharness/internal/trace"
)

func fail(f string, a ...any) {
	fmt.Printf("HARNESS-ERROR "+f+"\n", a...)
	os.Exit(3)
}

// must is for the harness's own trouble (I/O, encoding, set-up): exit 3, never a finding.
func must(err error) {
	if err != nil {
		fail("%v", err)
	}
}

// realErr is a failure of a call into thor code: an error it returned or a panic inside it.
type realErr struct{ what, msg string }

// guard runs one call into thor code. Errors and panics are returned, so that they can be logged as an Error event at
// the point where they happened (the trace specification has no such event: the stream is rejected there). The crash
// sentinel of the recording kv engine passes through.
func guard(what string, f func() error) (re *realErr) {
	defer func() {
		if x := recover(); x != nil {
			if _, ok := x.(kvrec.CrashSentinel); ok {
				panic(x)
			}
			re = &realErr{what, fmt.Sprintf("panic: %v", x)}
		}
	}()
	if err := f(); err != nil {
		return &realErr{what, err.Error()}
	}
	return nil
}

func errorEv(re *realErr) trace.Ev { return trace.Ev{"e": "Error", "what": re.what, "err": re.msg} }

type runStat struct {
	Scen       string `json:"scen"`
	Seed       int64  `json:"seed"`
	Nodes      int    `json:"nodes"`
	Blocks     int    `json:"blocks"`
	Events     int    `json:"events"`
	Imports    int    `json:"imports"`
	Reorgs     int    `json:"reorgs"`       // best switched to another branch (old branch non-empty)
	MaxDepth   int    `json:"maxDepth"`     // longest abandoned branch
	DepthHist  [6]int `json:"depthHist"`    // reorgs by depth (index 5 = >= 5)
	SwitchBack int    `json:"switchBacks"`  // a block that had left the canonical chain became canonical again
	Queries    int    `json:"queries"`      // logdb filter queries
	QueryHits  int    `json:"queryHits"`    // ... with a non-empty result
	ApiCalls   int    `json:"apiCalls"`     // HTTP handler calls
	Crashes    int    `json:"crashes"`      // log transaction committed, block not stored
	Ignored    int    `json:"ignored"`      // known / parent-missing deliveries
	MaxRows    int    `json:"maxRows"`      // largest table size seen
	FiveTopics int    `json:"fiveTopicRows"`
	Cancels    int    `json:"cancels"`   // syncLogDB cancelled on its way, then completed by the next start
	WriteErrs  int    `json:"writeErrs"` // Writer.Write refused a block (sequence bounds)
	Packs      int    `json:"packs"`     // blocks packed by a node itself (real doPack)
	StaleWon   int    `json:"staleWon"`  // ... on a flow whose parent was no longer best, and the own block became best
	StaleLost  int    `json:"staleLost"` // ... and the own block stayed a side block
}

var scenarios = []string{"reorg", "pingpong", "crash", "rawdb", "disk", "pack", "deep", "produce"}

func main() {
	out := flag.String("out", ".", "output directory")
	runs := flag.Int("runs", 4, "number of runs")
	seed := flag.Int64("seed", 1, "seed")
	scen := flag.String("scen", "all", "scenario name, comma list, or all")
	blocks := flag.Int("blocks", 22, "blocks per run")
	queries := flag.Int("queries", 24, "filter queries per checkpointed state")
	million := flag.Bool("million", false, "scenario pack: also probe the log index bound 2^20 (two blocks with a million events)")
	flag.Parse()
	list := scenarios
	if *scen != "all" {
		list = strings.Split(*scen, ",")
	}
	rec := newRecorder()
	var all []trace.Ev
	var stats []runStat
	for i := 0; i < *runs; i++ {
		s := list[i%len(list)]
		rseed := *seed*1000003 + int64(i)
		var evs []trace.Ev
		var st runStat
		switch s {
		case "reorg", "pingpong", "deep":
			evs, st = runTree(rec, s, rseed, *blocks, *queries, i)
		case "produce":
			evs, st = runProduce(rec, rseed, *blocks, *queries, i)
		case "disk":
			evs, st = runDisk(rec, rseed, *blocks, *queries, i)
		case "pack":
			evs, st = runPack(rec, rseed, *queries, i, *million)
		case "crash":
			evs, st = runCrash(rec, rseed, *blocks, *queries, i)
		case "rawdb":
			evs, st = runRaw(rec, rseed, *blocks, *queries, i)
		default:
			fail("unknown scenario %s", s)
		}
		st.Events = len(evs)
		all = append(all, evs...)
		stats = append(stats, st)
	}
	cfg := rec.config()
	must(os.MkdirAll(*out, 0o755))
	must(trace.WriteNDJSON(filepath.Join(*out, "trace.ndjson"), append([]trace.Ev{cfg}, all...)))
	f, err := os.Create(filepath.Join(*out, "runs.json"))
	must(err)
	must(json.NewEncoder(f).Encode(stats))
	f.Close()
	b, _ := json.Marshal(map[string]any{"runs": len(stats), "events": len(all), "rows": len(rec.rowDict), "blocks": len(rec.facts)})
	fmt.Println(string(b))
}
