package main

import (
	"github.com/vechain/thor/v2/block"

	"verifharness/internal/trace"
)

// grow mints a randomly growing tree with up to three competing tips; onMint is called for every new block.
func (w *world) grow(b1 *block.Block, blocks int, onMint func(blk *block.Block, tips []*block.Block)) {
	rng := w.rng
	tips := []*block.Block{b1}
	for _, b := range w.order { // the probe block minted by deploy is a tip as well
		if b != b1 {
			tips = append(tips, b)
		}
	}
	highest := func() *block.Block {
		h := tips[0]
		for _, t := range tips {
			if t.Header().Number() > h.Header().Number() {
				h = t
			}
		}
		return h
	}
	track := func(parent, blk *block.Block) {
		replaced := false
		for i, t := range tips {
			if t == parent {
				tips[i], replaced = blk, true
			}
		}
		if !replaced {
			tips = append(tips, blk)
			if len(tips) > 3 { // forget the lowest tip
				lo := 0
				for i, t := range tips {
					if t.Header().Number() < tips[lo].Header().Number() {
						lo = i
					}
				}
				tips = append(tips[:lo], tips[lo+1:]...)
			}
		}
	}
	extend := func(parent *block.Block, k int) {
		for ; k > 0 && len(w.order) < blocks; k-- {
			blk := w.mint(parent, w.randomTxs(parent.Header().Number()))
			if blk == nil {
				return
			}
			track(parent, blk)
			onMint(blk, tips)
			parent = blk
		}
	}
	other := func() *block.Block { // a tip that is not the highest one
		h := highest()
		if len(tips) == 1 {
			return h
		}
		for {
			if t := pick(rng, tips); t != h {
				return t
			}
		}
	}
	for guard := 0; len(w.order) < blocks && guard < blocks*20; guard++ {
		switch x := rng.Intn(100); {
		case x < 28: // a competing branch forks d below the highest tip and overtakes it at once
			h := highest()
			base := w.ancestor(h, 1+rng.Intn(4))
			extend(base, int(h.Header().Number()-base.Header().Number())+1)
		case x < 62: // a lower tip catches up / overtakes
			o := other()
			extend(o, 1+rng.Intn(2)+int(highest().Header().Number()-o.Header().Number())*rng.Intn(2))
		case x < 90:
			extend(highest(), 1)
		default: // a lone side block somewhere below a tip
			extend(w.ancestor(pick(rng, tips), 1+rng.Intn(3)), 1)
		}
	}
}

func runTree(rec *recorder, scen string, seed int64, blocks, nq, run int) ([]trace.Ev, runStat) {
	st := runStat{Scen: scen, Seed: seed}
	w := newWorld(rec, seed, &st)
	defer w.net.Close()
	b1 := w.deploy()
	rng := w.rng
	n := 2 + rng.Intn(2)
	if scen == "pingpong" || scen == "deep" {
		n = 2
	}
	st.Nodes = n
	var stacks []*stack
	for i := 0; i < n; i++ {
		s := w.openStack(i)
		s.nq = nq
		s.checkpoint(resetEv(run, i, scen, seed), 4, 0)
		stacks = append(stacks, s)
	}
	defer func() {
		for _, s := range stacks {
			s.close()
		}
	}()
	if scen == "pingpong" {
		pingpong(w, stacks, b1, blocks, []int{1, 2, 3, 4, 2, 3, 1, 4}, false)
	} else if scen == "deep" {
		// long branches; EVERY block of both branches starts with a transaction that emits an event and moves value, so
		// old and new branch hold different rows at the equal positions (n, 0, 0) of every height
		pingpong(w, stacks, b1, 4*blocks, []int{6, 9, 12, 7}, true)
	} else {
		// the two blocks minted by deploy
		for _, b := range append([]*block.Block(nil), w.order...) {
			stacks[0].deliver(b)
		}
		var buf []*block.Block // node 1: shuffled batches
		buf = append(buf, w.order...)
		flush := func() {
			rng.Shuffle(len(buf), func(i, j int) { buf[i], buf[j] = buf[j], buf[i] })
			for rounds := 0; len(buf) > 0 && rounds < 50; rounds++ {
				var again []*block.Block
				for _, b := range buf {
					if c := stacks[1].deliver(b); c == "parent-missing" || c == "unprocessable" {
						again = append(again, b)
					}
				}
				buf = again
			}
		}
		w.grow(b1, blocks, func(blk *block.Block, tips []*block.Block) {
			stacks[0].deliver(blk)
			if rng.Intn(100) < 8 {
				stacks[0].deliver(blk) // duplicate
			}
			buf = append(buf, blk)
			if len(buf) >= 2+rng.Intn(5) {
				flush()
			}
			if n > 2 && rng.Intn(100) < 35 { // node 2 learns a whole branch at once
				stacks[2].deliverChain(pick(rng, tips))
				if rng.Intn(100) < 10 {
					stacks[2].deliver(pick(rng, w.order)) // anything: known, parent-missing or a new side block
				}
			}
		})
		flush()
	}
	// heal: everybody learns everything
	for _, s := range stacks {
		for _, b := range append([]*block.Block(nil), w.order...) {
			if !s.has(b) {
				s.deliverChain(b)
			}
		}
	}
	st.Blocks = len(w.order)
	var evs []trace.Ev
	for _, s := range stacks {
		evs = append(evs, s.evs...)
	}
	return evs, st
}

// pingpong: branch B forks d below the tip of A and grows one block longer; then A strikes back with two more blocks.
func pingpong(w *world, stacks []*stack, b1 *block.Block, blocks int, depths []int, rich bool) {
	for _, b := range append([]*block.Block(nil), w.order...) {
		for _, s := range stacks {
			s.deliver(b)
		}
	}
	mintOn := func(p *block.Block, k int) []*block.Block {
		var out []*block.Block
		for len(out) < k {
			txs := w.randomTxs(p.Header().Number())
			if len(out) == 0 && len(txs) == 0 { // the first block of a branch carries logs
				continue
			}
			if rich {
				txs = append(w.fatTxs(p.Header().Number(), 1, 1), txs...)
				if len(txs) > 2 {
					txs = txs[:2]
				}
			}
			b := w.mint(p, txs)
			if b == nil {
				continue
			}
			out = append(out, b)
			p = b
		}
		return out
	}
	tip := b1
	first := 3
	if rich {
		first = depths[0] + 1
	}
	for _, b := range mintOn(b1, first) {
		for _, s := range stacks {
			s.deliver(b)
		}
		tip = b
	}
	for _, d := range depths {
		if len(w.order)+d+3 > blocks+8 {
			break
		}
		base := w.ancestor(tip, d)
		depth := int(tip.Header().Number() - base.Header().Number())
		B := mintOn(base, depth+1)
		for _, b := range B { // node 0: one by one (side, side, ..., switch)
			stacks[0].deliver(b)
		}
		for k := len(B) - 1; k >= 0; k-- { // node 1: youngest first (parent missing), then the whole branch
			if k > 0 {
				stacks[1].deliver(B[k])
			}
		}
		stacks[1].deliverChain(B[len(B)-1])
		A := mintOn(tip, 2)
		for _, s := range stacks {
			for _, b := range A {
				s.deliver(b)
			}
		}
		// continue on whatever node 0 considers best
		tip = w.blocks[stacks[0].node.Repo.BestBlockSummary().Header.ID()]
	}
}
