package main

import (
	"math/big"
	"math/rand"

	"github.com/ethereum/go-ethereum/crypto"

	"github.com/vechain/thor/v2/block"
	"github.com/vechain/thor/v2/logdb"
	"github.com/vechain/thor/v2/thor"
	"github.com/vechain/thor/v2/tx"

	"verifharness/internal/trace"
)

// runRaw: events with FIVE topics cannot be produced by contract execution (the EVM stops at LOG4), but the log db has
// five topic columns and the API five topic criteria. A synthetic linear chain (signed blocks and transactions,
// hand-made receipts) is written through logdb.Writer.Write exactly as writeLogs does for a block that extends the
// best chain, and queried like the others. No repository, hence no API calls here.
func runRaw(rec *recorder, seed int64, blocks, nq, run int) ([]trace.Ev, runStat) {
	st := runStat{Scen: "rawdb", Seed: seed, Nodes: 1}
	w := newWorld(rec, seed, &st)
	defer w.net.Close()
	rng := w.rng
	ldb, err := logdb.NewMem()
	must(err)
	defer ldb.Close()
	q := &querier{rec: rec, rng: rand.New(rand.NewSource(rng.Int63())), st: &st}
	w.logger = thor.BytesToAddress([]byte("synthetic"))
	q.pools = w.pools()
	var evs []trace.Ev
	checkpoint := func(ev trace.Ev, best *block.Block, n int) {
		ev["best"] = rec.bname(best.Header().ID())
		t := rec.observe(ev, ldb, &st)
		evs = append(evs, ev)
		evs = append(evs, q.run(ldb, t, best.Header().Number(), n)...)
	}
	write := func(b *block.Block, r tx.Receipts) {
		wr := ldb.NewWriter()
		must(wr.Write(b, r))
		must(wr.Commit())
	}
	write(w.b0, w.b0rcpt)
	checkpoint(resetEv(run, 0, "rawdb", seed), w.b0, 4)
	prev := w.b0
	contracts := []thor.Address{w.logger, thor.BytesToAddress([]byte("synthetic2"))}
	for i := 0; i < blocks; i++ {
		bb := new(block.Builder).ParentID(prev.Header().ID()).Timestamp(prev.Header().Timestamp() + 10).
			TotalScore(prev.Header().TotalScore() + 1).GasLimit(10_000_000)
		var receipts tx.Receipts
		ntx := rng.Intn(4)
		for k := 0; k < ntx; k++ {
			to := w.account()
			t := w.mkTx(prev.Header().Number(), tx.NewClause(&to))
			bb.Transaction(t)
			rc := &tx.Receipt{}
			if rng.Intn(100) < 85 {
				for c := 1 + rng.Intn(2); c > 0; c-- {
					o := &tx.Output{}
					for e := rng.Intn(3); e > 0; e-- {
						nt := pick(rng, []int{0, 1, 3, 5, 5, 5})
						ev := &tx.Event{Address: pick(rng, contracts)}
						for ; nt > 0; nt-- {
							ev.Topics = append(ev.Topics, w.topic())
						}
						if rng.Intn(2) == 0 {
							ev.Data = make([]byte, 1+rng.Intn(40))
							rng.Read(ev.Data)
						}
						if len(ev.Topics) == 5 {
							st.FiveTopics++
						}
						o.Events = append(o.Events, ev)
					}
					for x := rng.Intn(2); x > 0; x-- {
						o.Transfers = append(o.Transfers, &tx.Transfer{Sender: w.account(), Recipient: w.account(),
							Amount: big.NewInt(int64(rng.Intn(3)) * int64(rng.Intn(1000)))}) // amount 0 occurs
					}
					rc.Outputs = append(rc.Outputs, o)
				}
			}
			receipts = append(receipts, rc)
		}
		blk := bb.Build()
		sig, err := crypto.Sign(blk.Header().SigningHash().Bytes(), w.net.Devs[i%nValidators].PrivateKey)
		must(err)
		blk = blk.WithSignature(sig)
		rec.noteBlock(blk, receipts)
		write(blk, receipts)
		st.Imports++
		checkpoint(trace.Ev{"e": "Import", "b": rec.bname(blk.Header().ID()), "trunk": true}, blk, nq)
		prev = blk
	}
	st.Blocks = blocks
	return evs, st
}
