package main

import (
	"context"
	"crypto/ecdsa"
	"encoding/binary"
	"math/big"
	"math/rand"

	"github.com/ethereum/go-ethereum/crypto"

	"github.com/vechain/thor/v2/block"
	"github.com/vechain/thor/v2/logdb"
	"github.com/vechain/thor/v2/thor"
	"github.com/vechain/thor/v2/tx"

	"verifharness/internal/trace"
)

// rawStream writes synthetic blocks (signed blocks and transactions, hand-made receipts) through logdb.Writer exactly as
// writeLogs does for a block that extends the best chain: Write, Commit. No repository, hence no API calls.
type rawStream struct {
	w    *world
	ldb  *logdb.LogDB
	q    *querier
	evs  []trace.Ev
	dead bool
}

func newRawStream(w *world, run int, scen string, seed int64) *rawStream {
	ldb, err := logdb.NewMem()
	must(err)
	r := &rawStream{w: w, ldb: ldb, q: &querier{rec: w.rec, rng: rand.New(rand.NewSource(w.rng.Int63())), st: w.st}}
	w.logger = thor.BytesToAddress([]byte("synthetic"))
	r.q.pools = w.pools()
	if re := r.write(w.b0, w.b0rcpt); re != nil {
		fail("genesis logs: %s", re.msg)
	}
	r.checkpoint(resetEv(run, 0, scen, seed), w.b0, 4)
	return r
}

func (r *rawStream) die(re *realErr, extra trace.Ev) {
	ev := errorEv(re)
	for k, v := range extra {
		ev[k] = v
	}
	r.evs = append(r.evs, ev)
	r.dead = true
}

func (r *rawStream) checkpoint(ev trace.Ev, best *block.Block, n int) {
	ev["best"] = r.w.rec.bname(best.Header().ID())
	t, re := r.w.rec.observe(ev, r.ldb, r.w.st)
	if re != nil {
		r.die(re, trace.Ev{"after": ev["e"]})
		return
	}
	r.evs = append(r.evs, ev)
	qs, re := r.q.run(r.ldb, t, best.Header().Number(), n)
	r.evs = append(r.evs, qs...)
	if re != nil {
		r.die(re, nil)
	}
}

// write = one log transaction; on an error the writer is rolled back, as node.writeLogs does.
func (r *rawStream) write(b *block.Block, rc tx.Receipts) *realErr {
	wr := r.ldb.NewWriter()
	re := guard("write", func() error {
		if err := wr.Write(b, rc); err != nil {
			return err
		}
		return wr.Commit()
	})
	if re != nil {
		if re2 := guard("rollback", wr.Rollback); re2 != nil {
			return re2
		}
	}
	return re
}

// put writes blk as the new best block; expectErr = the specification will be asked to agree that the write must fail.
func (r *rawStream) put(blk, prevBest *block.Block, rc tx.Receipts, n int) (ok bool) {
	if r.dead {
		return false
	}
	name := r.w.rec.bname(blk.Header().ID())
	if re := r.write(blk, rc); re != nil {
		// refused: the table must be what it was. Whether the refusal is right is for the specification to say.
		r.w.st.WriteErrs++
		r.checkpoint(trace.Ev{"e": "WriteErr", "b": name, "msg": re.msg}, prevBest, 2)
		return false
	}
	r.w.st.Imports++
	r.checkpoint(trace.Ev{"e": "Import", "b": name, "trunk": true}, blk, n)
	return true
}

func signBlock(b *block.Block, key *ecdsa.PrivateKey) *block.Block {
	sig, err := crypto.Sign(b.Header().SigningHash().Bytes(), key)
	must(err)
	return b.WithSignature(sig)
}

func (w *world) syntheticEvent(contracts []thor.Address, nTopics int) *tx.Event {
	ev := &tx.Event{Address: pick(w.rng, contracts)}
	for ; nTopics > 0; nTopics-- {
		ev.Topics = append(ev.Topics, w.topic())
	}
	if w.rng.Intn(2) == 0 {
		ev.Data = make([]byte, 1+w.rng.Intn(40))
		w.rng.Read(ev.Data)
	}
	if len(ev.Topics) == 5 {
		w.st.FiveTopics++
	}
	return ev
}

// runRaw: events with FIVE topics cannot be produced by contract execution (the EVM stops at LOG4), but the log db has
// five topic columns and the API five topic criteria.
func runRaw(rec *recorder, seed int64, blocks, nq, run int) ([]trace.Ev, runStat) {
	st := runStat{Scen: "rawdb", Seed: seed, Nodes: 1}
	w := newWorld(rec, seed, &st)
	defer w.net.Close()
	rng := w.rng
	r := newRawStream(w, run, "rawdb", seed)
	defer r.ldb.Close()
	prev := w.b0
	contracts := []thor.Address{w.logger, thor.BytesToAddress([]byte("synthetic2"))}
	for i := 0; i < blocks; i++ {
		bb := new(block.Builder).ParentID(prev.Header().ID()).Timestamp(prev.Header().Timestamp() + 10).
			TotalScore(prev.Header().TotalScore() + 1).GasLimit(10_000_000)
		var receipts tx.Receipts
		ntx := rng.Intn(4)
		for k := 0; k < ntx; k++ {
			to := w.account()
			bb.Transaction(w.mkTx(prev.Header().Number(), tx.NewClause(&to)))
			rc := &tx.Receipt{}
			if rng.Intn(100) < 85 {
				for c := 1 + rng.Intn(2); c > 0; c-- {
					o := &tx.Output{}
					for e := rng.Intn(3); e > 0; e-- {
						o.Events = append(o.Events, w.syntheticEvent(contracts, pick(rng, []int{0, 1, 3, 5, 5, 5})))
					}
					for x := rng.Intn(2); x > 0; x-- {
						o.Transfers = append(o.Transfers, &tx.Transfer{Sender: w.account(), Recipient: w.account(),
							Amount: big.NewInt(int64(rng.Intn(3)) * int64(rng.Intn(1000)))}) // amount 0 occurs
					}
					rc.Outputs = append(rc.Outputs, o)
				}
			}
			receipts = append(receipts, rc)
		}
		blk := signBlock(bb.Build(), w.net.Devs[i%nValidators].PrivateKey)
		rec.noteBlock(blk, receipts)
		if !r.put(blk, prev, receipts, nq) {
			break
		}
		prev = blk
	}
	st.Blocks = blocks
	return r.evs, st
}

// runPack binds the packing of the row key (logdb/sequence.go: 28 bits block number, 15 bits tx index, 20 bits log
// index) and the bounds of newSequence: rows at tx indices around 2^14 and up to 2^15-1, log indices beyond 2^10, heights
// 2^28-2 and 2^28-1, and the three refusals just beyond (tx index 2^15, height 2^28; the log index bound 2^20 needs a
// million rows and is probed by -big only). The heights are reached by a fabricated parent id; the specification is told
// that the high block follows the low ones (it only needs an order of blocks here: nothing is resynchronised).
func runPack(rec *recorder, seed int64, nq, run int, million bool) ([]trace.Ev, runStat) {
	st := runStat{Scen: "pack", Seed: seed, Nodes: 1}
	w := newWorld(rec, seed, &st)
	defer w.net.Close()
	rng := w.rng
	r := newRawStream(w, run, "pack", seed)
	defer r.ldb.Close()
	contracts := []thor.Address{w.logger}
	prev, prevName := w.b0, rec.bname(w.b0.Header().ID())
	key := w.net.Devs[0].PrivateKey
	logs := func(nEv, nTr int) *tx.Receipt {
		o := &tx.Output{}
		for ; nEv > 0; nEv-- {
			o.Events = append(o.Events, w.syntheticEvent(contracts, pick(rng, []int{0, 1, 2})))
		}
		for ; nTr > 0; nTr-- {
			o.Transfers = append(o.Transfers, &tx.Transfer{Sender: w.account(), Recipient: w.account(), Amount: big.NewInt(int64(1 + rng.Intn(99)))})
		}
		return &tx.Receipt{Outputs: []*tx.Output{o}}
	}
	// add builds the next block: parentID is what the block id is derived from; receipts by tx index
	add := func(parentID thor.Bytes32, nReceipts int, at map[int]*tx.Receipt) bool {
		to := w.account()
		bb := new(block.Builder).ParentID(parentID).Timestamp(prev.Header().Timestamp() + 10).TotalScore(prev.Header().TotalScore() + 1).
			GasLimit(10_000_000).Transaction(w.mkTx(0, tx.NewClause(&to)))
		receipts := make(tx.Receipts, nReceipts)
		empty := &tx.Receipt{}
		for i := range receipts {
			if rc, ok := at[i]; ok {
				receipts[i] = rc
			} else {
				receipts[i] = empty
			}
		}
		blk := signBlock(bb.Build(), key)
		name := rec.noteBlock(blk, receipts)
		rec.facts[name]["p"] = prevName // the order of the synthetic chain (see above)
		st.Blocks++
		if !r.put(blk, prev, receipts, nq) {
			return false
		}
		prev, prevName = blk, name
		return true
	}
	// an ordinary low block, then tx indices around 2^14 and at the top of the range
	add(prev.Header().ID(), 2, map[int]*tx.Receipt{0: logs(2, 1), 1: logs(1, 2)})
	add(prev.Header().ID(), 32768, map[int]*tx.Receipt{0: logs(1, 1), 16383: logs(2, 1), 16384: logs(1, 0), 32766: logs(0, 2), 32767: logs(3, 1)})
	// log indices beyond 2^10 (one clause with 1100 events, then a second transaction continuing the count)
	add(prev.Header().ID(), 3, map[int]*tx.Receipt{1: logs(1100, 3), 2: logs(2, 1)})
	// tx index 2^15: refused, nothing may change
	add(prev.Header().ID(), 32769, map[int]*tx.Receipt{0: logs(1, 1), 32768: logs(1, 1)})
	// heights 2^28-2, 2^28-1, then 2^28: refused
	var high thor.Bytes32
	rng.Read(high[:])
	binary.BigEndian.PutUint32(high[:], logdb.MaxBlockNumber-2)
	add(high, 2, map[int]*tx.Receipt{0: logs(2, 2), 1: logs(1, 1)})
	add(prev.Header().ID(), 1, map[int]*tx.Receipt{0: logs(2, 1)})
	add(prev.Header().ID(), 1, map[int]*tx.Receipt{0: logs(1, 1)})
	if million && !r.dead {
		r.evs = append(r.evs, packBound(w, 1<<20, 5, 7)...)
		r.evs = append(r.evs, packBound(w, 1<<20+1, 6, 7)...)
	}
	return r.evs, st
}

// packBound writes ONE block whose transaction at index ti carries count events into a throw-away log db and reports
// whether the write was refused and, if not, the position of the newest row as the log db reads it back.
func packBound(w *world, count int, n uint32, ti int) []trace.Ev {
	ldb, err := logdb.NewMem()
	must(err)
	defer ldb.Close()
	var pid thor.Bytes32
	binary.BigEndian.PutUint32(pid[:], n-1)
	blk := signBlock(new(block.Builder).ParentID(pid).Timestamp(w.b0.Header().Timestamp()+10).GasLimit(10_000_000).Build(), w.net.Devs[0].PrivateKey)
	ev := &tx.Event{Address: w.logger}
	o := &tx.Output{Events: make(tx.Events, count)}
	for i := range o.Events {
		o.Events[i] = ev
	}
	receipts := make(tx.Receipts, ti+1)
	for i := range receipts {
		receipts[i] = &tx.Receipt{}
	}
	receipts[ti] = &tx.Receipt{Outputs: []*tx.Output{o}}
	out := trace.Ev{"e": "SeqBound", "n": n, "ti": ti, "count": count, "err": false, "last": []int{}, "rows": 0}
	wr := ldb.NewWriter()
	if re := guard("write", func() error {
		if err := wr.Write(blk, receipts); err != nil {
			return err
		}
		return wr.Commit()
	}); re != nil {
		out["err"], out["msg"] = true, re.msg
		if re2 := guard("rollback", wr.Rollback); re2 != nil {
			return []trace.Ev{errorEv(re2)}
		}
		return []trace.Ev{out}
	}
	var last []*logdb.Event
	var rest []*logdb.Event
	if re := guard("query", func() (err error) {
		if last, err = ldb.FilterEvents(context.Background(), &logdb.EventFilter{Order: logdb.DESC, Options: &logdb.Options{Offset: 0, Limit: 1}}); err != nil {
			return
		}
		// how many rows: everything after the first count-2
		rest, err = ldb.FilterEvents(context.Background(), &logdb.EventFilter{Range: &logdb.Range{From: n, To: n},
			Options: &logdb.Options{Offset: uint64(count - 2), Limit: 10}})
		return
	}); re != nil {
		return []trace.Ev{errorEv(re)}
	}
	if len(last) == 1 {
		out["last"] = []uint32{last[0].BlockNumber, last[0].TxIndex, last[0].LogIndex}
	}
	out["rows"] = count - 2 + len(rest)
	return []trace.Ev{out}
}
