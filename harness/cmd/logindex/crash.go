package main

import (
	"context"
	"math/rand"
	"os"

	"github.com/vechain/thor/v2/block"
	"github.com/vechain/thor/v2/chain"
	"github.com/vechain/thor/v2/logdb"

	"verifharness/internal/kvrec"
	"verifharness/internal/sim"
	"verifharness/internal/synclogdb"
	"verifharness/internal/trace"
)

// thor's syncLogDB prints a progress bar to stdout
func quietSync(repo *chain.Repository, ldb *logdb.LogDB) error {
	return quietSyncCtx(context.Background(), repo, ldb)
}

func quietSyncCtx(ctx context.Context, repo *chain.Repository, ldb *logdb.LogDB) error {
	old := os.Stdout
	nf, err := os.OpenFile(os.DevNull, os.O_WRONLY, 0)
	if err == nil {
		os.Stdout = nf
		defer func() { os.Stdout = old; nf.Close() }()
	}
	return synclogdb.Sync(ctx, repo, ldb, false)
}

// probe imports blk on a throw-away copy of the node's store (fresh log db) and reports whether it becomes best and how
// many state writes its import performs - the real fork choice and the real write sequence, observed without touching
// the node under test.
func (s *stack) probe(blk *block.Block) (trunk bool, stateWrites int, ok bool) {
	cl := s.kv.Clone()
	ldb, err := logdb.NewMem()
	must(err)
	defer ldb.Close()
	nd, err := s.w.net.OpenStack(s.idx%nValidators, cl, ldb, nil)
	must(err)
	defer nd.Node.VerifClose()
	cl.OnWrite = func(_ int, b *kvrec.Batch) {
		if kvrec.WriteClass(b) == "state" {
			stateWrites++
		}
	}
	trunk, class, _ := nd.Node.VerifProcessBlock(blk)
	cl.OnWrite = nil
	return trunk, stateWrites, class == "ok"
}

// crashDeliver: the process dies during the import of blk, right after the point where the log transaction of a
// would-be best block has been committed (before the index-trie write, or before the block bulk). Returns false if
// blk is not importable right now.
func (s *stack) crashDeliver(blk *block.Block, atBulk bool) bool {
	if s.dead {
		return false
	}
	w := s.w
	trunk, nState, ok := s.probe(blk)
	if !ok {
		return false
	}
	at := s.kv.Len() + nState
	if atBulk {
		at++
	}
	s.kv.CrashAt(at)
	crashed := ""
	func() {
		defer func() {
			if x := recover(); x != nil {
				cs, isCrash := x.(kvrec.CrashSentinel)
				if !isCrash {
					panic(x)
				}
				crashed = cs.Class
			}
		}()
		s.node.Node.VerifProcessBlock(blk)
	}()
	s.kv.CrashAt(-1)
	if crashed == "" && s.has(blk) {
		// fewer durable writes than on the copy: the import completed. Nothing crashed; log it as the import it was.
		fail("crash point of block %d not reached (the import completed)", blk.Header().Number())
	}
	want := "idx"
	if atBulk {
		want = "blk"
	}
	if crashed != want {
		fail("crash point: expected to stop before the %s write of block %d, stopped before %q", want, blk.Header().Number(), crashed)
	}
	w.st.Crashes++
	name := w.rec.bname(blk.Header().ID())
	// the process is dead; its log db (sqlite) and store are what a restart will find
	ev := trace.Ev{"e": "Crash", "b": name, "trunk": trunk, "before": want}
	ev["best"] = s.bestName()
	if _, re := w.rec.observe(ev, s.ldb, w.st); re != nil {
		s.die(re, trace.Ev{"after": "Crash", "b": name})
		return true
	}
	s.evs = append(s.evs, ev)
	s.close()
	// restart: thor's start-up order (genesis build, repository, genesis logs, syncLogDB, engine, node).
	// A node that does not come back after this crash is an observation on the real code.
	var nd *sim.Node
	if re := guard("restart", func() (err error) {
		nd, err = w.net.OpenStack(s.idx%nValidators, s.kv, s.ldb, quietSync)
		return
	}); re != nil {
		s.die(re, trace.Ev{"b": name, "before": want})
		return true
	}
	s.node, s.closed = nd, false
	s.api = newAPI(nd.Repo, s.ldb)
	s.checkpoint(trace.Ev{"e": "Restart"}, s.nq, 2)
	return true
}

func runCrash(rec *recorder, seed int64, blocks, nq, run int) ([]trace.Ev, runStat) {
	st := runStat{Scen: "crash", Seed: seed, Nodes: 1}
	w := newWorld(rec, seed, &st)
	defer w.net.Close()
	b1 := w.deploy()
	rng := rand.New(rand.NewSource(seed ^ 0x5eed))
	s := w.openStack(0)
	s.nq = nq
	s.checkpoint(resetEv(run, 0, "crash", seed), 4, 0)
	defer func() { s.close() }()

	// deliver with a chance of dying in the middle
	give := func(blk *block.Block) {
		if s.dead {
			return
		}
		if s.has(blk) || !s.has(w.blocks[blk.Header().ParentID()]) {
			s.deliver(blk)
			return
		}
		if rng.Intn(100) < 30 && s.crashDeliver(blk, rng.Intn(3) == 0) {
			// after the restart the block is unknown again. Often a competing sibling (other txs, other logs at the
			// same positions) arrives first - the situation in which stale rows of the unstored block would survive
			if rng.Intn(100) < 65 {
				parent := w.blocks[blk.Header().ParentID()]
				for try := 0; try < 4; try++ {
					txs := w.randomTxs(parent.Header().Number())
					if len(txs) == 0 {
						continue
					}
					if sib := w.mint(parent, txs); sib != nil {
						s.deliver(sib)
						break
					}
				}
			}
			if rng.Intn(100) < 85 {
				s.deliver(blk)
			}
			return
		}
		s.deliver(blk)
	}
	giveChain := func(blk *block.Block) {
		var todo []*block.Block
		for cur := blk; !s.has(cur); cur = w.blocks[cur.Header().ParentID()] {
			todo = append(todo, cur)
		}
		for k := len(todo) - 1; k >= 0; k-- {
			give(todo[k])
		}
	}
	for _, b := range append([]*block.Block(nil), w.order...) {
		give(b)
	}
	w.grow(b1, blocks, func(blk *block.Block, tips []*block.Block) {
		switch x := rng.Intn(100); {
		case x < 55:
			giveChain(blk)
		case x < 80:
			giveChain(pick(rng, tips))
		}
	})
	for _, b := range append([]*block.Block(nil), w.order...) {
		if !s.has(b) {
			giveChain(b)
		}
	}
	st.Blocks = len(w.order)
	return s.evs, st
}
