package main

import (
	"bytes"
	"context"
	"encoding/json"
	"fmt"
	"math/big"
	"math/rand"
	"net/http"
	"net/http/httptest"
	"strings"

	"github.com/ethereum/go-ethereum/common/hexutil"
	"github.com/gorilla/mux"

	"github.com/vechain/thor/v2/api"
	"github.com/vechain/thor/v2/api/events"
	"github.com/vechain/thor/v2/api/transfers"
	"github.com/vechain/thor/v2/chain"
	"github.com/vechain/thor/v2/logdb"
	"github.com/vechain/thor/v2/thor"

	"verifharness/internal/trace"
)

// huge is the largest offset / limit used: TLC integers are 32 bit.
const huge = 2_000_000_000

type querier struct {
	rec   *recorder
	rng   *rand.Rand
	pools pools
	st    *runStat
}

func pick[T any](rng *rand.Rand, xs []T) T { return xs[rng.Intn(len(xs))] }

// ---- criteria -----------------------------------------------------------------------------------------------------

func (q *querier) eventCriteria(t tables) *logdb.EventCriteria {
	rng := q.rng
	c := &logdb.EventCriteria{}
	if len(t.evs) > 0 && rng.Intn(100) < 55 {
		// derived from a row that exists: guaranteed to hit unless a later constraint excludes it
		row := pick(rng, t.evs)
		if rng.Intn(2) == 0 {
			a := row.Address
			c.Address = &a
		}
		for i := 0; i < 5; i++ {
			switch {
			case row.Topics[i] != nil && rng.Intn(100) < 45:
				v := *row.Topics[i]
				c.Topics[i] = &v
			case row.Topics[i] == nil && rng.Intn(100) < 6: // a constraint on a column that is NULL in that row
				v := pick(rng, q.pools.topics)
				c.Topics[i] = &v
			}
		}
		return c
	}
	if rng.Intn(100) < 40 {
		a := pick(rng, q.pools.addrs)
		c.Address = &a
	}
	for i := 0; i < 5; i++ {
		if rng.Intn(100) < 22 {
			v := pick(rng, q.pools.topics)
			c.Topics[i] = &v
		}
	}
	return c
}

func (q *querier) transferCriteria(t tables) *logdb.TransferCriteria {
	rng := q.rng
	c := &logdb.TransferCriteria{}
	if len(t.trs) > 0 && rng.Intn(100) < 55 {
		row := pick(rng, t.trs)
		if rng.Intn(100) < 40 {
			a := row.TxOrigin
			c.TxOrigin = &a
		}
		if rng.Intn(100) < 40 {
			a := row.Sender
			c.Sender = &a
		}
		if rng.Intn(100) < 40 {
			a := row.Recipient
			c.Recipient = &a
		}
		return c
	}
	for _, f := range []**thor.Address{&c.TxOrigin, &c.Sender, &c.Recipient} {
		if rng.Intn(100) < 35 {
			a := pick(rng, q.pools.addrs)
			*f = &a
		}
	}
	return c
}

func (q *querier) criteriaCount() int {
	switch x := q.rng.Intn(100); {
	case x < 18:
		return 0
	case x < 62:
		return 1
	case x < 90:
		return 2
	default:
		return 3
	}
}

func (q *querier) blockRange(bestNum uint32) *logdb.Range {
	rng := q.rng
	top := int(bestNum) + 2
	switch x := rng.Intn(100); {
	case x < 32:
		return nil
	case x < 66: // ordinary
		a, b := rng.Intn(top), rng.Intn(top)
		if a > b {
			a, b = b, a
		}
		return &logdb.Range{From: uint32(a), To: uint32(b)}
	case x < 76: // single height
		a := uint32(rng.Intn(top))
		return &logdb.Range{From: a, To: a}
	case x < 81: // inverted
		a := 1 + rng.Intn(top)
		return &logdb.Range{From: uint32(a), To: uint32(rng.Intn(a))}
	case x < 90: // open end
		return &logdb.Range{From: uint32(rng.Intn(top)), To: logdb.MaxBlockNumber}
	case x < 94: // beyond the chain
		return &logdb.Range{From: bestNum + 1 + uint32(rng.Intn(3)), To: bestNum + 5}
	case x < 97: // from zero
		return &logdb.Range{From: 0, To: uint32(rng.Intn(top))}
	default: // not representable in a sequence number: an error, not a result
		if rng.Intn(2) == 0 {
			return &logdb.Range{From: logdb.MaxBlockNumber + 1, To: logdb.MaxBlockNumber + 2}
		}
		return &logdb.Range{From: 0, To: logdb.MaxBlockNumber + 1}
	}
}

// options: n = size of the table the query runs on; offsets and limits spread over the whole table and just beyond
func (q *querier) options(n int) *logdb.Options {
	rng := q.rng
	if rng.Intn(100) < 28 {
		return nil
	}
	o := &logdb.Options{}
	switch x := rng.Intn(100); {
	case x < 40:
		o.Offset = 0
	case x < 55:
		o.Offset = uint64(1 + rng.Intn(2))
	case x < 90:
		o.Offset = uint64(rng.Intn(n + 3))
	case x < 95:
		o.Offset = uint64(n)
	default:
		o.Offset = huge
	}
	switch x := rng.Intn(100); {
	case x < 6:
		o.Limit = 0
	case x < 30:
		o.Limit = 1
	case x < 60:
		o.Limit = uint64(2 + rng.Intn(4))
	case x < 93:
		o.Limit = uint64(1 + rng.Intn(n+3))
	default:
		o.Limit = huge
	}
	return o
}

func (q *querier) order() logdb.Order { return pick(q.rng, []logdb.Order{"", logdb.ASC, logdb.DESC, logdb.DESC}) }

// ---- logging forms --------------------------------------------------------------------------------------------------

func (q *querier) addrName(a *thor.Address) string {
	if a == nil {
		return "nil"
	}
	return q.rec.aname(*a)
}

func (q *querier) evCritLog(cs []*logdb.EventCriteria) []any {
	out := make([]any, 0, len(cs))
	for _, c := range cs {
		tp := make([]any, 5)
		for i, t := range c.Topics {
			if t == nil {
				tp[i] = []int{}
			} else {
				tp[i] = ints(t[:])
			}
		}
		out = append(out, map[string]any{"a": q.addrName(c.Address), "tp": tp})
	}
	return out
}

func (q *querier) trCritLog(cs []*logdb.TransferCriteria) []any {
	out := make([]any, 0, len(cs))
	for _, c := range cs {
		out = append(out, map[string]any{"o": q.addrName(c.TxOrigin), "s": q.addrName(c.Sender), "r": q.addrName(c.Recipient)})
	}
	return out
}

func rangeLog(r *logdb.Range) []any {
	if r == nil {
		return []any{}
	}
	return []any{r.From, r.To}
}

func optLog(o *logdb.Options) []any {
	if o == nil {
		return []any{}
	}
	return []any{o.Offset, o.Limit}
}

// ---- logdb queries --------------------------------------------------------------------------------------------------

// run n seeded queries (half events, half transfers) against the real log db; one Q event each.
func (q *querier) run(ldb *logdb.LogDB, t tables, bestNum uint32, n int) ([]trace.Ev, *realErr) {
	var out []trace.Ev
	ctx := context.Background()
	for i := 0; i < n; i++ {
		size := len(t.evs)
		if i%2 == 1 {
			size = len(t.trs)
		}
		rg, od, op := q.blockRange(bestNum), q.order(), q.options(size)
		ev := trace.Ev{"e": "Q", "range": rangeLog(rg), "order": string(od), "opt": optLog(op)}
		var res []string
		var err error
		if i%2 == 0 {
			var cs []*logdb.EventCriteria
			for k := q.criteriaCount(); k > 0; k-- {
				cs = append(cs, q.eventCriteria(t))
			}
			ev["k"], ev["crit"] = "E", q.evCritLog(cs)
			var rows []*logdb.Event
			if re := guard("query", func() error { // an error is an answer (range beyond 28 bits); a panic is not
				rows, err = ldb.FilterEvents(ctx, &logdb.EventFilter{CriteriaSet: cs, Range: rg, Order: od, Options: op})
				return nil
			}); re != nil {
				return out, re
			}
			res = q.rec.eventRows(rows)
		} else {
			var cs []*logdb.TransferCriteria
			for k := q.criteriaCount(); k > 0; k-- {
				cs = append(cs, q.transferCriteria(t))
			}
			ev["k"], ev["crit"] = "T", q.trCritLog(cs)
			var rows []*logdb.Transfer
			if re := guard("query", func() error {
				rows, err = ldb.FilterTransfers(ctx, &logdb.TransferFilter{CriteriaSet: cs, Range: rg, Order: od, Options: op})
				return nil
			}); re != nil {
				return out, re
			}
			res = q.rec.transferRows(rows)
		}
		ev["err"] = err != nil
		if err != nil {
			ev["msg"] = err.Error()
		}
		ev["res"] = res
		q.st.Queries++
		if len(res) > 0 {
			q.st.QueryHits++
		}
		out = append(out, ev)
	}
	return out, nil
}

// ---- HTTP API ---------------------------------------------------------------------------------------------------------

type apiServer struct{ router *mux.Router }

func newAPI(repo *chain.Repository, ldb *logdb.LogDB) *apiServer {
	r := mux.NewRouter()
	events.New(repo, ldb, apiMaxLimit, apiMaxOffset, apiMaxCriteria).Mount(r, "/logs/event")
	transfers.New(repo, ldb, apiMaxLimit, apiMaxOffset, apiMaxCriteria).Mount(r, "/logs/transfer")
	return &apiServer{r}
}

func (s *apiServer) post(path string, body any) (int, []byte, *realErr) {
	b, err := json.Marshal(body)
	must(err)
	req := httptest.NewRequest(http.MethodPost, path, bytes.NewReader(b))
	w := httptest.NewRecorder()
	if re := guard("api", func() error { s.router.ServeHTTP(w, req); return nil }); re != nil {
		return 0, nil, re
	}
	return w.Code, w.Body.Bytes(), nil
}

type apiRange struct {
	unit     string
	from, to *uint64
}

func (q *querier) apiRange(bestNum uint32, genesisTime, bestTime uint64) *apiRange {
	rng := q.rng
	if rng.Intn(100) < 25 {
		return nil
	}
	r := &apiRange{}
	opt := func(v uint64) *uint64 {
		if rng.Intn(100) < 20 {
			return nil
		}
		return &v
	}
	if rng.Intn(100) < 45 {
		r.unit = "time"
		// timestamps around the chain: before genesis, on and between block times, after the head
		lo, hi := genesisTime-15, bestTime+15
		a := lo + uint64(rng.Int63n(int64(hi-lo+1)))
		b := lo + uint64(rng.Int63n(int64(hi-lo+1)))
		if a > b && rng.Intn(100) < 92 {
			a, b = b, a
		}
		if rng.Intn(100) < 15 {
			b = a + uint64(rng.Intn(9)) // a window that may fall between two blocks
		}
		r.from, r.to = opt(a), opt(b)
		return r
	}
	r.unit = pick(rng, []string{"block", "block", ""})
	top := uint64(bestNum) + 2
	a, b := uint64(rng.Int63n(int64(top))), uint64(rng.Int63n(int64(top)))
	if a > b && rng.Intn(100) < 92 {
		a, b = b, a
	}
	switch x := rng.Intn(100); {
	case x < 8:
		a = logdb.MaxBlockNumber + 1 // beyond the representable range: empty, not an error
		b = a + 3
	case x < 16:
		b = logdb.MaxBlockNumber + 7
	}
	r.from, r.to = opt(a), opt(b)
	return r
}

type apiOptions struct {
	offset uint64
	limit  *uint64
}

func (q *querier) apiOptions() *apiOptions {
	rng := q.rng
	if rng.Intn(100) < 15 {
		return nil
	}
	o := &apiOptions{offset: pick(rng, []uint64{0, 0, 0, 0, 0, 1, 1, 2, 2, 3, 5, apiMaxOffset, apiMaxOffset + 1})}
	if rng.Intn(100) < 75 {
		l := pick(rng, []uint64{0, 1, 2, 3, 4, 5, apiMaxLimit, apiMaxLimit, apiMaxLimit, apiMaxLimit, apiMaxLimit + 1})
		o.limit = &l
	}
	return o
}

func u64log(v *uint64) []any {
	if v == nil {
		return []any{}
	}
	return []any{*v}
}

// runAPI posts n seeded requests to the real handlers; one Api event each.
func (q *querier) runAPI(s *apiServer, t tables, bestNum uint32, genesisTime, bestTime uint64, n int) ([]trace.Ev, *realErr) {
	var out []trace.Ev
	for i := 0; i < n; i++ {
		rg, od, op := q.apiRange(bestNum, genesisTime, bestTime), q.order(), q.apiOptions()
		body := map[string]any{}
		ev := trace.Ev{"e": "Api", "order": string(od), "hasRange": rg != nil, "hasOpt": op != nil}
		if od != "" {
			body["order"] = string(od)
		}
		rl := map[string]any{"unit": "", "from": []any{}, "to": []any{}}
		if rg != nil {
			m := map[string]any{}
			if rg.unit != "" {
				m["unit"] = rg.unit
			}
			if rg.from != nil {
				m["from"] = *rg.from
			}
			if rg.to != nil {
				m["to"] = *rg.to
			}
			body["range"] = m
			rl = map[string]any{"unit": rg.unit, "from": u64log(rg.from), "to": u64log(rg.to)}
		}
		ev["range"] = rl
		ol := map[string]any{"off": 0, "lim": []any{}}
		if op != nil {
			m := map[string]any{"offset": op.offset, "includeIndexes": true}
			if op.limit != nil {
				m["limit"] = *op.limit
			}
			body["options"] = m
			ol = map[string]any{"off": op.offset, "lim": u64log(op.limit)}
		}
		ev["opt"] = ol
		k := q.criteriaCount()
		if q.rng.Intn(100) < 6 {
			k = apiMaxCriteria + 1
		}
		var code int
		var resp []byte
		var res []string
		if i%2 == 0 {
			var cs []*logdb.EventCriteria
			var js []any
			for ; k > 0; k-- {
				c := q.eventCriteria(t)
				cs = append(cs, c)
				m := map[string]any{}
				if c.Address != nil {
					m["address"] = c.Address.String()
				}
				for j, tp := range c.Topics {
					if tp != nil {
						m[fmt.Sprintf("topic%d", j)] = tp.String()
					}
				}
				js = append(js, m)
			}
			if len(js) > 0 {
				body["criteriaSet"] = js
			}
			ev["k"], ev["crit"] = "E", q.evCritLog(cs)
			var re *realErr
			if code, resp, re = s.post("/logs/event", body); re != nil {
				return out, re
			}
			if code == http.StatusOK {
				var fes []*api.FilteredEvent
				if err := json.Unmarshal(resp, &fes); err != nil {
					return out, &realErr{"api", fmt.Sprintf("malformed response: %v", err)}
				}
				ev["cnt"] = len(fes)
				if op != nil {
					for _, fe := range fes {
						e, re := eventOfAPI(fe)
						if re != nil {
							return out, re
						}
						res = append(res, q.rec.eventRow(e))
					}
				}
			}
		} else {
			var cs []*logdb.TransferCriteria
			var js []any
			for ; k > 0; k-- {
				c := q.transferCriteria(t)
				cs = append(cs, c)
				m := map[string]any{}
				if c.TxOrigin != nil {
					m["txOrigin"] = c.TxOrigin.String()
				}
				if c.Sender != nil {
					m["sender"] = c.Sender.String()
				}
				if c.Recipient != nil {
					m["recipient"] = c.Recipient.String()
				}
				js = append(js, m)
			}
			if len(js) > 0 {
				body["criteriaSet"] = js
			}
			ev["k"], ev["crit"] = "T", q.trCritLog(cs)
			var re *realErr
			if code, resp, re = s.post("/logs/transfer", body); re != nil {
				return out, re
			}
			if code == http.StatusOK {
				var fts []*api.FilteredTransfer
				if err := json.Unmarshal(resp, &fts); err != nil {
					return out, &realErr{"api", fmt.Sprintf("malformed response: %v", err)}
				}
				ev["cnt"] = len(fts)
				if op != nil {
					for _, ft := range fts {
						t, re := transferOfAPI(ft)
						if re != nil {
							return out, re
						}
						res = append(res, q.rec.transferRow(t))
					}
				}
			}
		}
		if code != http.StatusOK {
			ev["cnt"] = 0
			ev["msg"] = strings.TrimSpace(string(resp))
		}
		if res == nil {
			res = []string{}
		}
		ev["status"], ev["res"] = code, res
		q.st.ApiCalls++
		out = append(out, ev)
	}
	return out, nil
}

// eventOfAPI rebuilds the log-db row from the JSON form (requires includeIndexes).
func eventOfAPI(fe *api.FilteredEvent) (*logdb.Event, *realErr) {
	if fe.Meta.TxIndex == nil || fe.Meta.LogIndex == nil {
		return nil, &realErr{"api", "includeIndexes was requested but the response carries no txIndex/logIndex"}
	}
	data, err := hexutil.Decode(fe.Data)
	if err != nil {
		return nil, &realErr{"api", "event data is not hex: " + fe.Data}
	}
	e := &logdb.Event{BlockNumber: fe.Meta.BlockNumber, LogIndex: *fe.Meta.LogIndex, BlockID: fe.Meta.BlockID, BlockTime: fe.Meta.BlockTimestamp,
		TxID: fe.Meta.TxID, TxIndex: *fe.Meta.TxIndex, TxOrigin: fe.Meta.TxOrigin, ClauseIndex: fe.Meta.ClauseIndex, Address: fe.Address, Data: data}
	for i, t := range fe.Topics { // the JSON form is the list of present topics (always a prefix of the five columns)
		if i < 5 && t != nil {
			v := *t
			e.Topics[i] = &v
		}
	}
	return e, nil
}

func transferOfAPI(ft *api.FilteredTransfer) (*logdb.Transfer, *realErr) {
	if ft.Meta.TxIndex == nil || ft.Meta.LogIndex == nil {
		return nil, &realErr{"api", "includeIndexes was requested but the response carries no txIndex/logIndex"}
	}
	return &logdb.Transfer{BlockNumber: ft.Meta.BlockNumber, LogIndex: *ft.Meta.LogIndex, BlockID: ft.Meta.BlockID, BlockTime: ft.Meta.BlockTimestamp,
		TxID: ft.Meta.TxID, TxIndex: *ft.Meta.TxIndex, TxOrigin: ft.Meta.TxOrigin, ClauseIndex: ft.Meta.ClauseIndex,
		Sender: ft.Sender, Recipient: ft.Recipient, Amount: (*big.Int)(ft.Amount)}, nil
}
