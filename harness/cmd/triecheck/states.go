package main

// triecheck -states <result.json>...: "root = canonical Merkle-Patricia hash of the content", stated directly.
//
// harness/cmd/statejournal (replay mode) writes, for everything it staged on a real state.State: the predicted canonical
// content with the real state root, the predicted storage of an address with the real BuildStorageTrie hash, and the
// bytes of committed account leaves.  Here every one of them is recomputed from the CONTENT ALONE by an encoder that
// shares nothing with package state or package trie: the account leaf is RLP[balance, energy, blockTime, master,
// codeHash, storageRoot] (metadata is not part of it), keys are blake2b(address) / blake2b(storage key), the storage
// root is explicit (hash of the empty trie) when storage was ever written and absent otherwise, tries are hashed by
// the reference hasher of main.go over the Go transcription of Shape.  The realization of the specification's integers
// as bytes is repeated here (it must be the one of cmd/statejournal/real.go).

import (
	"bytes"
	"encoding/binary"
	"encoding/hex"
	"encoding/json"
	"fmt"
	"os"
	"sort"
	"strconv"
	"strings"

	"golang.org/x/crypto/blake2b"
	"golang.org/x/crypto/sha3"
)

func sBe4(i int) []byte { var b [4]byte; binary.BigEndian.PutUint32(b[:], uint32(i)); return b[:] }
func sBlake(parts ...[]byte) []byte {
	h, _ := blake2b.New256(nil)
	for _, p := range parts {
		h.Write(p)
	}
	return h.Sum(nil)
}
func sKeccak(b []byte) []byte { h := sha3.NewLegacyKeccak256(); h.Write(b); return h.Sum(nil) }
func sAddr(i int) []byte      { return sBlake([]byte("verif-c06-addr"), sBe4(i))[:20] }
func sKey(k int) []byte {
	switch {
	case k == 1:
		return make([]byte, 32)
	case k%3 == 0:
		return append(make([]byte, 28), sBe4(k)...)
	}
	return sBlake([]byte("verif-c06-key"), sBe4(k))
}
func sMaster(m int) []byte {
	if m == 0 {
		return nil
	}
	return sBlake([]byte("verif-c06-master"), sBe4(m))[:20]
}
func sCodeHash(c int) []byte {
	if c == 0 {
		return nil
	}
	return sKeccak(bytes.Repeat([]byte{0x60, byte(c), 0x50}, 1+(c*7)%40))
}
func sMinimal(v int) []byte { return bytes.TrimLeft(sBe4(v), "\x00") }

// raw storage value: scalar -> rlp(trimmed big endian), id >= 1000 -> the list [id-1000, "c06-list"]
func sRaw(v int) []byte {
	if v < 1000 {
		return rlpStr(sMinimal(v))
	}
	return rlpList(rlpStr(sMinimal(v-1000)), rlpStr([]byte("c06-list")))
}
func sRealVal(v int) int {
	if v == 2 {
		return 1000
	}
	return v
}

var all16 = []int{0, 1, 2, 3, 4, 5, 6, 7, 8, 9, 10, 11, 12, 13, 14, 15}

func secureTrieRoot(kv map[string][]byte) []byte {
	var es []entry
	for k, v := range kv {
		es = append(es, entry{nibs: nibsOf(sBlake([]byte(k))), val: v})
	}
	sort.Slice(es, func(i, j int) bool { return fmt.Sprint(es[i].nibs) < fmt.Sprint(es[j].nibs) })
	h := refHash(goShape(es, 0, all16), nil)
	return h[:]
}

// storage root of realized values st[k-1] for keys 1..nk
func storageRootOf(st []int) []byte {
	kv := map[string][]byte{}
	for i, v := range st {
		if v != 0 {
			kv[string(sKey(i+1))] = sRaw(v)
		}
	}
	return secureTrieRoot(kv)
}

// account leaf from  bal en bt ms cd sw st...  (specification values)
func accountLeaf(e []int) []byte {
	if e[0] == 0 && e[1] == 0 && e[3] == 0 && e[4] == 0 {
		return nil
	}
	var sroot []byte
	if e[5] == 1 {
		st := make([]int, len(e)-6)
		for i := range st {
			st[i] = sRealVal(e[6+i])
		}
		sroot = storageRootOf(st)
	}
	return rlpList(rlpStr(sMinimal(e[0])), rlpStr(sMinimal(e[1])), rlpStr(sMinimal(e[2])), rlpStr(sMaster(e[3])), rlpStr(sCodeHash(e[4])), rlpStr(sroot))
}

func ints(s string) []int {
	var out []int
	for _, f := range strings.Split(s, ",") {
		n, err := strconv.Atoi(strings.TrimSpace(f))
		if err != nil {
			harnessErr("bad content key %q", s)
		}
		out = append(out, n)
	}
	return out
}

func stateRootOf(content []int, na, nk int) []byte {
	kv := map[string][]byte{}
	for a := 1; a <= na; a++ {
		if leaf := accountLeaf(content[(a-1)*(6+nk) : a*(6+nk)]); leaf != nil {
			kv[string(sAddr(a))] = leaf
		}
	}
	return secureTrieRoot(kv)
}

func statesMain(files []string, out string) {
	viol := []finding{}
	counts := map[string]int{}
	distinct := map[string]bool{}
	add := func(kind, content, want, got string) {
		if len(viol) < 20 {
			viol = append(viol, finding{Kind: kind, Where: "states", Content: content, Want: want, Got: got})
		}
	}
	for _, f := range files {
		raw, err := os.ReadFile(f)
		if err != nil {
			harnessErr("read %s: %v", f, err)
		}
		var r struct {
			NA, NK int
			Roots  map[string]string
			Sroots map[string]string
			Leaves map[string]string
		}
		if err := json.Unmarshal(raw, &r); err != nil || r.NA == 0 {
			harnessErr("bad states file %s: %v", f, err)
		}
		for c, real := range r.Roots {
			content := ints(c)
			if len(content) != r.NA*(6+r.NK) {
				harnessErr("content key of wrong length: %s", c)
			}
			counts["state_roots"]++
			distinct[c] = true
			if want := "0x" + hex.EncodeToString(stateRootOf(content, r.NA, r.NK)); want != real {
				add("state-root", c, want, real)
			}
		}
		for c, real := range r.Sroots {
			counts["storage_roots"]++
			if want := "0x" + hex.EncodeToString(storageRootOf(ints(c))); want != real {
				add("storage-root", c, want, real)
			}
		}
		for ca, real := range r.Leaves {
			i := strings.LastIndex(ca, "|")
			a, _ := strconv.Atoi(ca[i+1:])
			content := ints(ca[:i])
			counts["account_leaves"]++
			if want := hex.EncodeToString(accountLeaf(content[(a-1)*(6+r.NK) : a*(6+r.NK)])); want != real {
				add("account-leaf", ca, want, real)
			}
		}
	}
	res := map[string]any{"counts": counts, "distinct_state_contents": len(distinct), "violations": viol, "drift": []finding{}}
	b, _ := json.Marshal(res)
	if err := os.WriteFile(out, b, 0o644); err != nil {
		harnessErr("write: %v", err)
	}
	cb, _ := json.Marshal(counts)
	fmt.Printf("{\"counts\":%s,\"violations\":%d}\n", cb, len(viol))
}
