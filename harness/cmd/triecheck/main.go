// triecheck binds specs/state/Trie.tla to the real trie (C06, binding b).
//
//	triecheck -shapes shapes.ndjson -out result.json -seed S [-seqlen 3] [-persist-every 7] [-big 6 -bigkeys 3000]
//
// shapes.ndjson is exported by TLC from MC_Trie.tla (MC_Trie_keys9_export.cfg): one line per content of the small
// universe (9 keys of 4 nibbles, values 1/2) with the operational trie of the specification, which TLC has shown to be
// Shape(content).  For the real trie (trie.Trie in memory, muxdb.Trie with commit + reload) the driver requires
//
//	root hash == refHash(shape)    refHash = the independent reference Merkle-Patricia hasher below
//
// (1) for every content, built in a seeded random insertion order; (2) for every content and every single Put/Del
// applied to a copy of that trie (all transitions of the specification); (3) for every operation sequence of length
// <= seqlen from the empty trie; (4) the same single operations applied after Commit + reload from the database
// (refNode resolution, delete-collapse through unresolved children); (5) on big random key sets: any permutation of
// the same final content, with inserted-then-deleted keys, overwritten values, other metadata and commits in between,
// gives one root, equal to refHash of the shape computed by the Go transcription of Shape (which is compared with
// TLC's shapes for every content of the small universe).  The node structure seen by the real NodeIterator is
// compared with the shape as well; a difference there with equal hashes is reported as drift, not as a violation.
package main

import (
	"bufio"
	"bytes"
	"encoding/json"
	"flag"
	"fmt"
	"math/rand"
	"os"
	"reflect"
	"sort"
	"strings"

	"golang.org/x/crypto/blake2b"

	"github.com/vechain/thor/v2/muxdb"
	"github.com/vechain/thor/v2/thor"
	"github.com/vechain/thor/v2/trie"

	"verifharness/internal/kvrec"
)

func harnessErr(f string, a ...any) {
	fmt.Printf("HARNESS-ERROR "+f+"\n", a...)
	os.Exit(3)
}

// ------------------------------------------------------------------------------------------------ shape
type node struct {
	T     string           `json:"t"` // nil | val | short | full
	V     int              `json:"v,omitempty"`
	Key   []int            `json:"key,omitempty"`
	Child *node            `json:"child,omitempty"`
	Ch    map[string]*node `json:"ch,omitempty"`
	val   []byte           // big tries: the value bytes (V unused)
}

// ------------------------------------------------------------------------------------------------ reference hasher
// Independent of package trie: RLP, hex-prefix, blake2b-256.  Metadata and versions are not part of it.
func rlpStr(b []byte) []byte {
	if len(b) == 1 && b[0] < 0x80 {
		return b
	}
	return append(rlpLen(len(b), 0x80), b...)
}
func rlpLen(n int, off byte) []byte {
	if n < 56 {
		return []byte{off + byte(n)}
	}
	var be []byte
	for x := n; x > 0; x >>= 8 {
		be = append([]byte{byte(x)}, be...)
	}
	return append([]byte{off + 55 + byte(len(be))}, be...)
}
func rlpList(items ...[]byte) []byte {
	body := bytes.Join(items, nil)
	return append(rlpLen(len(body), 0xc0), body...)
}
func hexPrefix(nibs []int, leaf bool) []byte {
	flag := byte(0)
	if leaf {
		flag = 2
	}
	var out []byte
	if len(nibs)%2 == 1 {
		out = []byte{(flag|1)<<4 | byte(nibs[0])}
		nibs = nibs[1:]
	} else {
		out = []byte{flag << 4}
	}
	for i := 0; i < len(nibs); i += 2 {
		out = append(out, byte(nibs[i])<<4|byte(nibs[i+1]))
	}
	return out
}
func (n *node) value(vals func(int) []byte) []byte {
	if n.val != nil {
		return n.val
	}
	return vals(n.V)
}

// enc = consensus encoding of a short/full node (a value below a full node is the leaf with the empty key)
func enc(n *node, vals func(int) []byte) []byte {
	switch n.T {
	case "val":
		return rlpList(rlpStr(hexPrefix(nil, true)), rlpStr(n.value(vals)))
	case "short":
		if n.Child.T == "val" {
			return rlpList(rlpStr(hexPrefix(n.Key, true)), rlpStr(n.Child.value(vals)))
		}
		return rlpList(rlpStr(hexPrefix(n.Key, false)), ref(n.Child, vals))
	case "full":
		items := make([][]byte, 17)
		for i := 0; i < 16; i++ {
			items[i] = []byte{0x80}
			if c := n.Ch[fmt.Sprint(i)]; c != nil && c.T != "nil" {
				items[i] = ref(c, vals)
			}
		}
		items[16] = []byte{0x80}
		return rlpList(items...)
	}
	panic("HARNESS: enc of " + n.T)
}
func ref(n *node, vals func(int) []byte) []byte {
	e := enc(n, vals)
	if len(e) < 32 {
		return e
	}
	h := blake2b.Sum256(e)
	return rlpStr(h[:])
}
func refHash(n *node, vals func(int) []byte) thor.Bytes32 {
	if n == nil || n.T == "nil" {
		return blake2b.Sum256([]byte{0x80})
	}
	return blake2b.Sum256(enc(n, vals))
}

// node paths in iteration order, as the real NodeIterator reports them (leaf paths end with the terminator 16)
func shapePaths(n *node, path []int, belowShort bool, out *[]string) {
	emit := func(p []int) { *out = append(*out, fmt.Sprint(p)) }
	switch n.T {
	case "val":
		if !belowShort {
			emit(path)
		}
		emit(append(append([]int{}, path...), 16))
	case "short":
		emit(path)
		shapePaths(n.Child, append(append([]int{}, path...), n.Key...), true, out)
	case "full":
		emit(path)
		for i := 0; i < 16; i++ {
			if c := n.Ch[fmt.Sprint(i)]; c != nil && c.T != "nil" {
				shapePaths(c, append(append([]int{}, path...), i), false, out)
			}
		}
	}
}

// Go transcription of Shape (Trie.tla): entries sorted by key, all keys of one length
type entry struct {
	nibs []int
	v    int
	val  []byte
}

func goShape(es []entry, depth int, nibAlphabet []int) *node {
	switch {
	case len(es) == 0:
		return &node{T: "nil"}
	case len(es) == 1:
		v := &node{T: "val", V: es[0].v, val: es[0].val}
		if depth == len(es[0].nibs) {
			return v
		}
		return &node{T: "short", Key: es[0].nibs[depth:], Child: v}
	}
	cp := depth
	for ; cp < len(es[0].nibs); cp++ {
		same := true
		for _, e := range es[1:] {
			if e.nibs[cp] != es[0].nibs[cp] {
				same = false
				break
			}
		}
		if !same {
			break
		}
	}
	br := &node{T: "full", Ch: map[string]*node{}}
	for _, x := range nibAlphabet {
		var sub []entry
		for _, e := range es {
			if e.nibs[cp] == x {
				sub = append(sub, e)
			}
		}
		br.Ch[fmt.Sprint(x)] = goShape(sub, cp+1, nibAlphabet)
	}
	if cp == depth {
		return br
	}
	return &node{T: "short", Key: es[0].nibs[depth:cp], Child: br}
}

func normalize(n *node) any { // comparable form without the private fields
	switch n.T {
	case "nil":
		return "nil"
	case "val":
		return n.V
	case "short":
		return []any{fmt.Sprint(n.Key), normalize(n.Child)}
	}
	m := map[string]any{}
	for k, c := range n.Ch {
		if c.T != "nil" {
			m[k] = normalize(c)
		}
	}
	return m
}

// ------------------------------------------------------------------------------------------------ real trie
func smallVal(v int) []byte {
	switch v {
	case 0:
		return nil
	case 1:
		return []byte{0x01} // nodes stay below 32 bytes: embedded in the parent
	}
	return bytes.Repeat([]byte{0xa0 + byte(v)}, 40) // forces hashed references
}
func keyBytes(nibs []int) []byte {
	out := make([]byte, len(nibs)/2)
	for i := range out {
		out[i] = byte(nibs[2*i])<<4 | byte(nibs[2*i+1])
	}
	return out
}
func copyTrie(t *trie.Trie) *trie.Trie { return trie.FromRootNode(t.RootNode(), nil) }
func realPaths(t *trie.Trie) ([]string, error) {
	var out []string
	it := t.NodeIterator(nil, trie.Version{})
	for it.Next(true) {
		p := it.Path()
		ints := make([]int, len(p))
		for i, b := range p {
			ints[i] = int(b)
		}
		out = append(out, fmt.Sprint(ints))
	}
	return out, it.Error()
}

type finding struct {
	Kind    string `json:"kind"` // root | order | error | panic   (violations)  /  paths | goshape (drift)
	Where   string `json:"where"`
	Content string `json:"content"`
	Ops     string `json:"ops,omitempty"`
	Want    string `json:"want,omitempty"`
	Got     string `json:"got,omitempty"`
}

type checker struct {
	keys     [][]int          // the small universe, sorted
	shapes   map[string]*node // content key -> TLC shape
	rng      *rand.Rand
	viol     []finding
	drift    []finding
	counts   map[string]int
	nontriv  map[string]bool // distinct contents with >= 2 keys whose real root was compared
	verCtr   uint32
	nibAlpha []int
}

type content []int // value per key index (0 = absent)

func (c content) key() string { return fmt.Sprint([]int(c)) }

func (ck *checker) report(kind, where string, c content, ops string, want, got any) {
	f := finding{Kind: kind, Where: where, Content: c.key(), Ops: ops, Want: fmt.Sprint(want), Got: fmt.Sprint(got)}
	if kind == "paths" || kind == "goshape" {
		if len(ck.drift) < 20 {
			ck.drift = append(ck.drift, f)
		}
		return
	}
	if len(ck.viol) < 20 {
		ck.viol = append(ck.viol, f)
	}
}

func (ck *checker) expect(where string, t interface{ Hash() thor.Bytes32 }, c content, ops string) bool {
	sh, ok := ck.shapes[c.key()]
	if !ok {
		harnessErr("content %v not in the exported shapes", c)
	}
	ck.counts[where]++
	n := 0
	for _, v := range c {
		if v != 0 {
			n++
		}
	}
	if n >= 2 {
		ck.nontriv[c.key()] = true
	}
	want := refHash(sh, smallVal)
	if got := t.Hash(); got != want {
		ck.report("root", where, c, ops, want, got)
		return false
	}
	return true
}

func (ck *checker) applyOp(t interface {
	Update(key, val, meta []byte) error
}, c content, ki, v int) (content, error) {
	meta := []byte(nil)
	if ck.rng.Intn(2) == 0 {
		meta = []byte{byte(ck.rng.Intn(256))} // metadata never influences the hash
	}
	err := t.Update(keyBytes(ck.keys[ki]), smallVal(v), meta)
	nc := append(content{}, c...)
	nc[ki] = v
	return nc, err
}

func (ck *checker) build(c content) (*trie.Trie, string) {
	t := trie.New(trie.Root{}, nil)
	var idx []int
	for i, v := range c {
		if v != 0 {
			idx = append(idx, i)
		}
	}
	ck.rng.Shuffle(len(idx), func(i, j int) { idx[i], idx[j] = idx[j], idx[i] })
	for _, i := range idx {
		if err := t.Update(keyBytes(ck.keys[i]), smallVal(c[i]), nil); err != nil {
			harnessErr("in-memory trie update failed: %v", err)
		}
	}
	return t, fmt.Sprint("insert order ", idx)
}

func (ck *checker) guard(where string, c content, f func()) (ok bool) {
	defer func() {
		if p := recover(); p != nil {
			if s, isStr := p.(string); isStr && strings.HasPrefix(s, "HARNESS") {
				panic(p)
			}
			ck.report("panic", where, c, "", "", p)
			ok = false
		}
	}()
	f()
	return true
}

func (ck *checker) allContents(f func(c content)) {
	c := make(content, len(ck.keys))
	var rec func(i int)
	rec = func(i int) {
		if i == len(c) {
			f(append(content{}, c...))
			return
		}
		for v := 0; v <= 2; v++ {
			c[i] = v
			rec(i + 1)
		}
	}
	rec(0)
}

func (ck *checker) entriesOf(c content) []entry {
	var es []entry
	for i, v := range c {
		if v != 0 {
			es = append(es, entry{nibs: ck.keys[i], v: v})
		}
	}
	return es
}

func (ck *checker) small(seqlen, persistEvery int, transitions bool) {
	n := 0
	ck.allContents(func(c content) {
		n++
		ck.guard("build", c, func() {
			// the Go transcription of Shape agrees with TLC's shape
			if g := goShape(ck.entriesOf(c), 0, ck.nibAlpha); !reflect.DeepEqual(normalize(g), normalize(ck.shapes[c.key()])) {
				ck.report("goshape", "build", c, "", normalize(ck.shapes[c.key()]), normalize(g))
			}
			t, how := ck.build(c)
			if !ck.expect("contents_built", t, c, how) {
				return
			}
			var want []string
			shapePaths(ck.shapes[c.key()], nil, false, &want)
			if got, err := realPaths(t); err != nil || !reflect.DeepEqual(got, want) {
				ck.report("paths", "build", c, how, want, fmt.Sprint(got, err))
			}
			// every transition of the specification from this content
			for ki := range ck.keys {
				if !transitions {
					break
				}
				for v := 0; v <= 2; v++ {
					t2 := copyTrie(t)
					nc, err := ck.applyOp(t2, c, ki, v)
					if err != nil {
						ck.report("error", "transition", c, fmt.Sprint("update ", ki, v), "", err)
						continue
					}
					ck.expect("transitions_in_memory", t2, nc, fmt.Sprintf("%s then key %v := %d", how, ck.keys[ki], v))
				}
			}
			if t.Hash() != refHash(ck.shapes[c.key()], smallVal) {
				ck.report("root", "copy-aliasing", c, how, "unchanged root after operating on copies", t.Hash())
			}
		})
		if persistEvery > 0 && n%persistEvery == 0 {
			ck.guard("persist", c, func() { ck.persisted(c) })
		}
	})
	// every operation sequence of length <= seqlen from the empty trie
	var seq func(t *trie.Trie, c content, depth int, ops string)
	seq = func(t *trie.Trie, c content, depth int, ops string) {
		if depth == seqlen {
			return
		}
		for ki := range ck.keys {
			for v := 0; v <= 2; v++ {
				t2 := copyTrie(t)
				nc, err := ck.applyOp(t2, c, ki, v)
				o := fmt.Sprintf("%s %v:=%d", ops, ck.keys[ki], v)
				if err != nil {
					ck.report("error", "sequence", c, o, "", err)
					continue
				}
				ck.counts["sequence_ops"]++
				if ck.expect("sequence_states", t2, nc, o) {
					seq(t2, nc, depth+1, o)
				}
			}
		}
	}
	ck.guard("sequences", nil, func() { seq(trie.New(trie.Root{}, nil), make(content, len(ck.keys)), 0, "") })
}

func (ck *checker) nextVer() trie.Version {
	ck.verCtr++
	return trie.Version{Major: ck.verCtr / 3, Minor: ck.verCtr % 3}
}

var sharedDB = map[string]*muxdb.MuxDB{}

func getDB(cache string) *muxdb.MuxDB {
	if db, ok := sharedDB[cache]; ok {
		return db
	}
	var db *muxdb.MuxDB
	if cache == "real" {
		e := kvrec.New()
		e.SetRecording(false)
		db = muxdb.NewWithEngine(e, muxdb.VerifOptions{CacheSizeMB: 4, CachedNodeTTL: 1})
	} else {
		db = muxdb.NewMem()
	}
	sharedDB[cache] = db
	return db
}

// commit the trie of content c, reload it from the database, apply every single operation to a copy of the reloaded trie
func (ck *checker) persisted(c content) {
	cache := []string{"dummy", "real"}[ck.rng.Intn(2)]
	db := getDB(cache)
	name := "c06-" + cache
	t := db.NewTrie(name, trie.Root{})
	for i, v := range c {
		if v != 0 {
			if err := t.Update(keyBytes(ck.keys[i]), smallVal(v), []byte{9}); err != nil {
				ck.report("error", "persist", c, "update", "", err)
				return
			}
		}
	}
	ver := ck.nextVer()
	h := t.Hash()
	if err := t.Commit(ver, false); err != nil {
		ck.report("error", "persist", c, "commit", "", err)
		return
	}
	for ki := range ck.keys {
		for v := 0; v <= 2; v++ {
			r := db.NewTrie(name, trie.Root{Hash: h, Ver: ver})
			nc, err := ck.applyOp(r, c, ki, v)
			o := fmt.Sprintf("commit %v, reload, key %v := %d (%s cache)", ver, ck.keys[ki], v, cache)
			if err != nil {
				ck.report("error", "persist", c, o, "", err)
				continue
			}
			if !ck.expect("transitions_after_reload", r, nc, o) {
				continue
			}
			// read back through the reloaded + modified trie
			for kj := range ck.keys {
				got, _, err := r.Get(keyBytes(ck.keys[kj]))
				if err != nil || !bytes.Equal(got, smallVal(nc[kj])) {
					ck.report("error", "persist-read", nc, o, smallVal(nc[kj]), fmt.Sprint(got, err))
				}
			}
		}
	}
}

// ------------------------------------------------------------------------------------------------ big random sets
func nibsOf(b []byte) []int {
	out := make([]int, 0, 2*len(b))
	for _, x := range b {
		out = append(out, int(x>>4), int(x&15))
	}
	return out
}

func (ck *checker) big(round, nkeys int) {
	rng := ck.rng
	type kv struct{ k, v []byte }
	final := map[string][]byte{}
	var keys [][]byte
	for i := 0; i < nkeys; i++ {
		k := thor.Blake2b([]byte(fmt.Sprintf("c06-big-%d-%d", round, i)))
		if i%5 == 1 && i > 0 { // long shared prefixes: deep short nodes
			k = thor.Bytes32(keys[i-1][:32])
			k[31-rng.Intn(3)] ^= byte(1 + rng.Intn(255))
		}
		keys = append(keys, append([]byte{}, k[:]...))
	}
	for _, k := range keys {
		if _, dup := final[string(k)]; dup {
			continue
		}
		v := make([]byte, 1+rng.Intn(60))
		rng.Read(v)
		if v[0] == 0 {
			v[0] = 1
		}
		final[string(k)] = v
	}
	// reference: Go transcription of Shape + reference hasher
	var es []entry
	for k, v := range final {
		es = append(es, entry{nibs: nibsOf([]byte(k)), val: v})
	}
	sort.Slice(es, func(i, j int) bool { return fmt.Sprint(es[i].nibs) < fmt.Sprint(es[j].nibs) })
	all16 := []int{0, 1, 2, 3, 4, 5, 6, 7, 8, 9, 10, 11, 12, 13, 14, 15}
	want := refHash(goShape(es, 0, all16), nil)
	c := content{len(final)}

	variant := func(vi int) thor.Bytes32 {
		var order []kv
		for k, v := range final {
			order = append(order, kv{[]byte(k), v})
		}
		sort.Slice(order, func(i, j int) bool { return bytes.Compare(order[i].k, order[j].k) < 0 })
		rng.Shuffle(len(order), func(i, j int) { order[i], order[j] = order[j], order[i] })
		persistent := vi%2 == 1
		cache := []string{"dummy", "real"}[(vi/2)%2]
		var t interface {
			Update(key, val, meta []byte) error
			Hash() thor.Bytes32
		}
		var mt *muxdb.Trie
		name := fmt.Sprintf("c06-big-%d-%d", round, vi)
		if persistent {
			mt = getDB(cache).NewTrie(name, trie.Root{})
			t = mt
		} else {
			t = trie.New(trie.Root{}, nil)
		}
		var junk [][]byte
		for i, e := range order {
			if vi > 0 && rng.Intn(6) == 0 { // a key that will not survive
				jk := thor.Blake2b(e.k, []byte{byte(vi)})
				if rng.Intn(2) == 0 {
					jk = thor.BytesToBytes32(e.k)
					jk[31] ^= 0x5a
				}
				if _, isFinal := final[string(jk[:])]; !isFinal {
					must(t.Update(jk[:], []byte{1, 2, 3}, nil))
					junk = append(junk, jk[:])
				}
			}
			if vi > 0 && rng.Intn(5) == 0 { // a value that will be overwritten
				must(t.Update(e.k, []byte("to be overwritten by the final value, long enough to be hashed"), []byte{1}))
			}
			must(t.Update(e.k, e.v, []byte{byte(vi)}))
			if len(junk) > 0 && rng.Intn(4) == 0 {
				j := rng.Intn(len(junk))
				must(t.Update(junk[j], nil, nil))
				junk = append(junk[:j], junk[j+1:]...)
			}
			if persistent && i > 0 && i%(1+len(order)/4) == 0 { // commit, continue on a trie reloaded from the database
				ver := ck.nextVer()
				h := mt.Hash()
				must(mt.Commit(ver, false))
				mt = getDB(cache).NewTrie(name, trie.Root{Hash: h, Ver: ver})
				t = mt
			}
		}
		for _, jk := range junk {
			must(t.Update(jk, nil, nil))
		}
		return t.Hash()
	}
	var first thor.Bytes32
	for vi := 0; vi < 4; vi++ {
		var got thor.Bytes32
		if !ck.guard("big", c, func() { got = variant(vi) }) {
			continue
		}
		ck.counts["big_variants"]++
		if vi == 0 {
			first = got
		} else if got != first {
			ck.report("order", "big", c, fmt.Sprintf("round %d variant %d vs variant 0 (%d keys)", round, vi, len(final)), first, got)
		}
		if got != want {
			ck.report("root", "big", c, fmt.Sprintf("round %d variant %d (%d keys): real root vs reference hash of Shape", round, vi, len(final)), want, got)
		}
	}
	ck.counts["big_keys"] += len(final)
}

func must(err error) {
	if err != nil {
		panic(err)
	}
}

func main() {
	shapes := flag.String("shapes", "", "shapes exported by TLC (ndjson)")
	out := flag.String("out", "result.json", "result file")
	seed := flag.Int64("seed", 1, "seed")
	seqlen := flag.Int("seqlen", 3, "enumerate all operation sequences up to this length")
	persistEvery := flag.Int("persist-every", 7, "commit+reload check for every n-th content (0 = off)")
	transitions := flag.Bool("transitions", true, "check every single Put/Del from every content")
	states := flag.Bool("states", false, "recompute state roots / storage roots / account leaves of the given statejournal result files (arguments)")
	big := flag.Int("big", 4, "rounds of big random key sets")
	bigKeys := flag.Int("bigkeys", 2000, "keys per big round")
	flag.Parse()
	defer func() {
		if p := recover(); p != nil {
			harnessErr("%v", p)
		}
	}()
	if *states {
		statesMain(flag.Args(), *out)
		return
	}
	ck := &checker{viol: []finding{}, drift: []finding{}, shapes: map[string]*node{}, rng: rand.New(rand.NewSource(*seed)), counts: map[string]int{},
		nontriv: map[string]bool{}, nibAlpha: []int{0, 1, 2}}
	f, err := os.Open(*shapes)
	if err != nil {
		harnessErr("open shapes: %v", err)
	}
	type rawLine struct {
		C [][]json.RawMessage `json:"c"`
		S *node               `json:"s"`
	}
	var lines []rawLine
	keyset := map[string][]int{}
	sc := bufio.NewScanner(f)
	sc.Buffer(make([]byte, 1<<20), 1<<26)
	for sc.Scan() {
		if strings.TrimSpace(sc.Text()) == "" {
			continue
		}
		var l rawLine
		if err := json.Unmarshal(sc.Bytes(), &l); err != nil {
			harnessErr("bad shape line: %v", err)
		}
		for _, p := range l.C {
			var k []int
			if err := json.Unmarshal(p[0], &k); err != nil {
				harnessErr("bad key: %v", err)
			}
			keyset[fmt.Sprint(k)] = k
		}
		lines = append(lines, l)
	}
	f.Close()
	for _, k := range keyset {
		ck.keys = append(ck.keys, k)
	}
	sort.Slice(ck.keys, func(i, j int) bool { return fmt.Sprint(ck.keys[i]) < fmt.Sprint(ck.keys[j]) })
	kidx := map[string]int{}
	for i, k := range ck.keys {
		kidx[fmt.Sprint(k)] = i
	}
	for _, l := range lines {
		c := make(content, len(ck.keys))
		for _, p := range l.C {
			var k []int
			var v int
			_ = json.Unmarshal(p[0], &k)
			if err := json.Unmarshal(p[1], &v); err != nil {
				harnessErr("bad value: %v", err)
			}
			c[kidx[fmt.Sprint(k)]] = v
		}
		ck.shapes[c.key()] = l.S
	}
	want := 1
	for range ck.keys {
		want *= 3
	}
	if len(ck.shapes) != want {
		harnessErr("expected %d contents over %d keys, the export has %d", want, len(ck.keys), len(ck.shapes))
	}
	ck.small(*seqlen, *persistEvery, *transitions)
	for r := 0; r < *big; r++ {
		ck.big(r, *bigKeys/2+ck.rng.Intn(*bigKeys))
	}
	res := map[string]any{"keys": ck.keys, "contents": len(ck.shapes), "counts": ck.counts,
		"distinct_nontrivial_contents": len(ck.nontriv), "violations": ck.viol, "drift": ck.drift}
	b, _ := json.Marshal(res)
	if err := os.WriteFile(*out, b, 0o644); err != nil {
		harnessErr("write: %v", err)
	}
	cb, _ := json.Marshal(ck.counts)
	fmt.Printf("{\"counts\":%s,\"violations\":%d,\"drift\":%d}\n", cb, len(ck.viol), len(ck.drift))
}
