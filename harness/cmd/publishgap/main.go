// publishgap: a directed schedule for bft.Engine.Justified() (C20).
//
// Justified() is called from API goroutines and loads the best block and the finalized checkpoint one after the
// other. With the add-only hook bft.VerifJustifiedGap (hooks/publish.patch) a reader goroutine is suspended between the
// two loads while the one importing goroutine imports `stall` further blocks - a schedule the Go runtime is free to
// produce (most easily during a fast sync). The call must still answer: every (position, stall) pair is tried.
//
//	publishgap -out <dir> -seed S [-blocks N]
package main

import (
	"encoding/json"
	"flag"
	"fmt"
	"os"
	"path/filepath"
	"sync"

	"github.com/vechain/thor/v2/bft"
	"github.com/vechain/thor/v2/block"

	"verifharness/internal/sim"
)

type caseResult struct {
	Pos       int    `json:"imported_before_the_call"`
	Stall     int    `json:"imported_during_the_gap"`
	Head      uint32 `json:"best_loaded_by_the_call"`
	FinBefore uint32 `json:"finalized_before"`
	FinAfter  uint32 `json:"finalized_loaded_by_the_call"`
	BestAfter uint32 `json:"best_after"`
	Justified int64  `json:"justified"`
	Err       string `json:"error,omitempty"`
	Bad       string `json:"inadmissible,omitempty"`
}

func main() {
	out := flag.String("out", ".", "output dir")
	seed := flag.Int64("seed", 1, "seed")
	blocks := flag.Int("blocks", 24, "trunk length")
	flag.Parse()
	if err := os.MkdirAll(*out, 0o755); err != nil {
		fmt.Println("HARNESS-ERROR", err)
		os.Exit(3)
	}
	defer func() {
		if x := recover(); x != nil {
			fmt.Println("HARNESS-ERROR", x)
			os.Exit(3)
		}
	}()
	pos := *seed%2 == 1
	net := sim.NewNet(sim.Options{Validators: 4, Nodes: 1, EpochLength: 3, PoS: pos, ExtraAccts: 1})
	defer net.Close()
	trunk := []*block.Block{net.B0}
	for len(trunk) <= *blocks {
		p := trunk[len(trunk)-1]
		num := p.Header().Number() + 1
		blk, err := net.Mint(p.Header().ID(), int(num)%3, num >= 6, 0)
		if err != nil {
			panic(err)
		}
		trunk = append(trunk, blk)
	}
	var results []caseResult
	for _, stall := range []int{1, 3, 6, 9, 12} {
		for p := 3; p+stall < len(trunk); p += 2 {
			nd := net.Restart(0) // drops nothing durable; we want a FRESH node per case
			_ = nd
			results = append(results, runCase(net, trunk, p, stall))
		}
	}
	f, err := os.Create(filepath.Join(*out, "gap.json"))
	if err != nil {
		panic(err)
	}
	bad := 0
	for _, r := range results {
		if r.Err != "" || r.Bad != "" {
			bad++
		}
	}
	json.NewEncoder(f).Encode(map[string]any{"seed": *seed, "pos": pos, "cases": results, "failing": bad})
	f.Close()
	fmt.Printf("{\"cases\":%d,\"failing\":%d}\n", len(results), bad)
}

// runCase: a fresh node imports trunk[1..p], a reader enters Justified() and is suspended between its two loads, the
// importer imports `stall` more blocks, the reader resumes.
func runCase(net *sim.Net, trunk []*block.Block, p, stall int) caseResult {
	fresh := sim.NewNet(net.Opt) // same genesis (constant launch time, same dev accounts): the minted trunk is valid for it
	defer fresh.Close()
	n := fresh.Nodes[0]
	for _, blk := range trunk[1 : p+1] {
		if class, err := n.Deliver(blk); class != "ok" {
			panic(fmt.Sprintf("import of block %d: %s %v", blk.Header().Number(), class, err))
		}
	}
	res := caseResult{Pos: p, Stall: stall, Head: n.Best().Header.Number(), FinBefore: block.Number(n.BFT.Finalized())}
	inGap, resume := make(chan struct{}), make(chan struct{})
	var once sync.Once
	bft.VerifJustifiedGap = func() {
		once.Do(func() { close(inGap); <-resume })
	}
	defer func() { bft.VerifJustifiedGap = nil }()
	type jr struct {
		id  [32]byte
		err error
	}
	done := make(chan jr, 1)
	go func() {
		j, err := n.BFT.Justified()
		done <- jr{j, err}
	}()
	<-inGap
	for _, blk := range trunk[p+1 : p+1+stall] {
		if class, err := n.Deliver(blk); class != "ok" {
			panic(fmt.Sprintf("import of block %d: %s %v", blk.Header().Number(), class, err))
		}
	}
	res.FinAfter, res.BestAfter = block.Number(n.BFT.Finalized()), n.Best().Header.Number()
	close(resume)
	r := <-done
	if r.err != nil {
		res.Err, res.Justified = r.err.Error(), -1
		return res
	}
	res.Justified = int64(block.Number(r.id))
	// admissible answers: a checkpoint of the chain between the finalized checkpoint before the call and the best after
	if c := n.Repo.NewBestChain(); true {
		if at, err := c.GetBlockID(block.Number(r.id)); err != nil || at != r.id {
			res.Bad = "the answer is not on the best chain"
		} else if block.Number(r.id) < res.FinBefore {
			res.Bad = "the answer is older than the finalized checkpoint before the call"
		} else if block.Number(r.id)%3 != 0 {
			res.Bad = "the answer is not a checkpoint"
		}
	}
	return res
}
