// -mem mode of evmframes: programs of EvmMemory.tla (C10 stage 2: per-frame memory, the return data buffer, precompiles).
//
// Input line: {"id":n,"prog":{"prof":..,"a":[step..],"b":[step..]}}; steps (word addressed, one cell = 32 bytes):
// {"op":"MSTORE","c":..,"v":..} {"op":"CALL","kind":..,"to":"B|P1|P2|P3|P4","io":..,"il":..,"oo":..,"ol":..}
// {"op":"CREATE|CREATE2","init":[step..],"val":0|1} {"op":"RDSIZE","c":..} {"op":"RDCOPY","d":..,"o":..,"l":..}
// {"op":"CDCOPY","d":..,"l":..} {"op":"LOGD","t":..,"o":..,"l":..} {"op":"RETURN|REVERT","o":..,"l":..} STOP INVALID
// {"op":"SSTORE","k":..,"v":..} {"op":"SLOAD","k":..,"c":..}; CREATE2 may carry "salt" (0 = position of the step).
// A and B are installed in a fresh real state (no balances), "origin calls A" runs through runtime.PrepareClause.
// Output line:
//
//	class  ok|revert|invalid|rdoob|static|..     outcome class of the clause
//	output [word..]                              the clause's return data, 32-byte words in hex
//	logs   [[addr,topic,[word..]],..]            events of the clause output (thor's $Master events left out)
//	flags  [[depth,kind,to,0|1],..]              what every CALL* / CREATE* pushed (read from the real stack)
//	frames [[kind,from,to,class,[word..]],..]    entered frames; last field: the first memCells words of the frame's
//	                                             memory at its STOP / RETURN / REVERT ([] for precompiles and halts)
//	ncreate                                      number of CREATE / CREATE2 attempts
package main

import (
	"encoding/binary"
	"encoding/hex"
	"math/big"
	"sort"

	"github.com/ethereum/go-ethereum/common"

	"github.com/vechain/thor/v2/runtime"
	"github.com/vechain/thor/v2/state"
	"github.com/vechain/thor/v2/thor"
	"github.com/vechain/thor/v2/tx"
	"github.com/vechain/thor/v2/vm"
	"github.com/vechain/thor/v2/xenv"
)

const (
	memCells   = 3   // = NCells of the MC_EvmMemory configs
	memScratch = 512 // byte offset where constructor code is staged (beyond the modelled cells)
)

type MStep struct {
	Op   string  `json:"op"`
	C    int     `json:"c"`
	V    int     `json:"v"`
	Kind string  `json:"kind"`
	To   string  `json:"to"`
	Io   int     `json:"io"`
	Il   int     `json:"il"`
	Oo   int     `json:"oo"`
	Ol   int     `json:"ol"`
	D    int     `json:"d"`
	O    int     `json:"o"`
	L    int     `json:"l"`
	T    int     `json:"t"`
	K    int     `json:"k"`
	Val  int     `json:"val"`
	Salt int     `json:"salt"` // CREATE2 salt; 0 = position of the step + 1 (distinct per step)
	Init []MStep `json:"init"`
}

type MemBehaviour struct {
	ID   int `json:"id"`
	Prog struct {
		A []MStep `json:"a"`
		B []MStep `json:"b"`
	} `json:"prog"`
}

func cell(c int) int {
	if c < 0 || 32*c > 255 {
		harnessErr("cell %d out of range", c)
	}
	return 32 * c
}

func assembleMem(steps []MStep) []byte {
	a := &asm{}
	for idx, s := range steps {
		switch s.Op {
		case "MSTORE":
			a.push1(s.V)
			a.push1(cell(s.C))
			a.op(vm.MSTORE)
		case "CALL":
			a.push1(cell(s.Ol))
			a.push1(cell(s.Oo))
			a.push1(cell(s.Il))
			a.push1(cell(s.Io))
			if s.Kind == "CALL" || s.Kind == "CALLCODE" {
				a.push1(0)
			}
			a.push20(addrOf(s.To))
			a.code = append(a.code, byte(vm.PUSH32))
			for i := 0; i < 32; i++ {
				a.code = append(a.code, 0xff)
			}
			switch s.Kind {
			case "CALL":
				a.op(vm.CALL)
			case "CALLCODE":
				a.op(vm.CALLCODE)
			case "DELEGATECALL":
				a.op(vm.DELEGATECALL)
			case "STATICCALL":
				a.op(vm.STATICCALL)
			default:
				harnessErr("bad call kind %q", s.Kind)
			}
			a.op(vm.POP)
		case "CREATE", "CREATE2":
			init := assembleMem(s.Init)
			a.push2(len(init)) // length
			a.code = append(a.code, byte(vm.PUSH2), 0, 0)
			a.fix = append(a.fix, len(a.code)-2)
			a.inits = append(a.inits, init)
			a.push2(memScratch)
			a.op(vm.CODECOPY)
			if s.Op == "CREATE2" {
				if s.Salt != 0 {
					a.push1(s.Salt)
				} else {
					a.push1(idx + 1) // salt: distinct per step
				}
			}
			a.push2(len(init)) // size
			a.push2(memScratch)
			a.push1(s.Val)
			if s.Op == "CREATE2" {
				a.op(vm.CREATE2)
			} else {
				a.op(vm.CREATE)
			}
			a.op(vm.POP)
		case "SSTORE":
			a.push1(s.V)
			a.push1(s.K)
			a.op(vm.SSTORE)
		case "SLOAD":
			a.push1(s.K)
			a.op(vm.SLOAD)
			a.push1(cell(s.C))
			a.op(vm.MSTORE)
		case "RDSIZE":
			a.op(vm.RETURNDATASIZE)
			a.push1(cell(s.C))
			a.op(vm.MSTORE)
		case "RDCOPY":
			a.push1(cell(s.L))
			a.push1(cell(s.O))
			a.push1(cell(s.D))
			a.op(vm.RETURNDATACOPY)
		case "CDCOPY":
			a.push1(cell(s.L))
			a.push1(0)
			a.push1(cell(s.D))
			a.op(vm.CALLDATACOPY)
		case "LOGD":
			a.push1(s.T)
			a.push1(cell(s.L))
			a.push1(cell(s.O))
			a.op(vm.LOG1)
		case "RETURN":
			a.push1(cell(s.L))
			a.push1(cell(s.O))
			a.op(vm.RETURN)
		case "REVERT":
			a.push1(cell(s.L))
			a.push1(cell(s.O))
			a.op(vm.REVERT)
		case "INVALID":
			a.code = append(a.code, 0xfe)
		case "STOP":
			a.op(vm.STOP)
		default:
			harnessErr("bad step op %q", s.Op)
		}
	}
	a.op(vm.STOP)
	off := len(a.code)
	for i, init := range a.inits {
		binary.BigEndian.PutUint16(a.code[a.fix[i]:], uint16(off))
		off += len(init)
	}
	out := a.code
	for _, init := range a.inits {
		out = append(out, init...)
	}
	return out
}

func words(b []byte) []string {
	out := []string{}
	for i := 0; i < len(b); i += 32 {
		j := i + 32
		if j > len(b) {
			j = len(b) // a ragged tail is reported as it is (and will not match the specification)
		}
		out = append(out, hex.EncodeToString(b[i:j]))
	}
	return out
}

func (w *world) runMem(b *MemBehaviour) map[string]any {
	st := state.New(w.db, w.baseRoot)
	if err := st.SetCode(addrOf("A"), assembleMem(b.Prog.A)); err != nil {
		harnessErr("SetCode: %v", err)
	}
	if err := st.SetCode(addrOf("B"), assembleMem(b.Prog.B)); err != nil {
		harnessErr("SetCode: %v", err)
	}
	fc := thor.ForkConfig{}
	tr := &tracer{pending: map[int]*pend{}, memDump: memCells}
	rt := runtime.New(w.repo.NewChain(w.bestID), st, &xenv.BlockContext{Number: 1, Time: w.time, GasLimit: 40_000_000,
		BaseFee: big.NewInt(thor.InitialBaseFee)}, &fc).SetVMConfig(vm.Config{Tracer: tr})
	root := addrOf("A")
	var txid thor.Bytes32
	binary.BigEndian.PutUint64(txid[24:], uint64(b.ID)+1)
	exec, _ := rt.PrepareClause(tx.NewClause(&root), 0, gasProvided,
		&xenv.TransactionContext{ID: txid, Origin: w.origin, GasPrice: big.NewInt(0), ClauseCount: 1})
	out, _, err := exec()
	obs := map[string]any{"id": b.ID}
	if err != nil {
		obs["error"] = err.Error()
		return obs
	}
	nameOf := func(a common.Address) string {
		keys := make([]string, 0, len(named))
		for n := range named {
			keys = append(keys, n)
		}
		sort.Strings(keys)
		for _, n := range keys {
			if common.Address(named[n]) == a {
				return n
			}
		}
		for i, x := range tr.created {
			if x == a {
				return "N" + itoa(i+1)
			}
		}
		return "0x" + common.Bytes2Hex(a[:])
	}
	class, _ := classify(out.VMErr)
	obs["class"] = class
	obs["output"] = words(out.Data)
	logs := [][]any{}
	for _, e := range out.Events {
		if len(e.Topics) == 1 && e.Topics[0] == w.masterID {
			continue
		}
		topic := int64(-1)
		if len(e.Topics) == 1 {
			topic = new(big.Int).SetBytes(e.Topics[0][:]).Int64()
		}
		logs = append(logs, []any{nameOf(common.Address(e.Address)), topic, words(e.Data)})
	}
	obs["logs"] = logs
	frames := [][]any{}
	for i, f := range tr.frames {
		if f.pseudo || f.drop {
			continue
		}
		if f.class == "open" {
			harnessErr("tracer: frame %d never exited", i)
		}
		mem := []string{}
		if (f.class == "ok" || f.class == "revert") && f.endMem != nil {
			mem = words(f.endMem)
		}
		frames = append(frames, []any{f.kind, nameOf(f.from), nameOf(f.to), f.class, mem})
	}
	flags := [][]any{}
	for _, f := range tr.flags {
		flags = append(flags, []any{f[0], f[1], nameOf(f[2].(common.Address)), f[3]})
	}
	obs["frames"], obs["flags"], obs["ncreate"] = frames, flags, len(tr.created)
	return obs
}

func itoa(n int) string {
	return new(big.Int).SetInt64(int64(n)).String()
}
