// -jump mode of evmframes: raw byte programs of EvmJump.tla (C10 step 4: jump destination analysis, JUMP / JUMPI, stack
// bounds).  Input line {"id":n,"code":[byte..]}.  The code is installed at contract A in a fresh real state and "origin
// calls A" runs through runtime.PrepareClause TWICE (fresh state each time, same code hash: the second run finds the
// jump-destination bitmap in vm's cache).  Output line {"id":n,"runs":[run1,run2]} with, per run,
//
//	class  ok | badjump | underflow | overflow | invalid | other:..     how the clause ended
//	stor   [slot1,slot2,slot3]                                          marker slots after the run
//	path   [pc..]  (or [length,last pc] beyond 80 entries)              positions of the instructions executed
package main

import (
	"encoding/binary"
	"errors"
	"math/big"
	"strings"

	"github.com/ethereum/go-ethereum/common"

	"github.com/vechain/thor/v2/runtime"
	"github.com/vechain/thor/v2/state"
	"github.com/vechain/thor/v2/thor"
	"github.com/vechain/thor/v2/tx"
	"github.com/vechain/thor/v2/vm"
	"github.com/vechain/thor/v2/xenv"
)

type JumpBehaviour struct {
	ID   int   `json:"id"`
	Code []int `json:"code"`
}

type pathTracer struct {
	path []uint64
}

func (t *pathTracer) CaptureClauseStart(uint64) {}
func (t *pathTracer) CaptureClauseEnd(uint64)   {}
func (t *pathTracer) CaptureStart(*vm.EVM, common.Address, common.Address, bool, []byte, uint64, *big.Int) {
}
func (t *pathTracer) CaptureEnd([]byte, uint64, error) {}
func (t *pathTracer) CaptureEnter(vm.OpCode, common.Address, common.Address, []byte, uint64, *big.Int) {
}
func (t *pathTracer) CaptureExit([]byte, uint64, error) {}
func (t *pathTracer) CaptureState(pc uint64, _ vm.OpCode, _, _ uint64, _ *vm.Memory, _ *vm.Stack, _ *vm.Contract, _ []byte, depth int, err error) {
	if err == nil && depth == 1 {
		t.path = append(t.path, pc)
	}
}
func (t *pathTracer) CaptureFault(uint64, vm.OpCode, uint64, uint64, *vm.Memory, *vm.Stack, *vm.Contract, int, error) {
}

func jumpClass(err error) string {
	switch {
	case err == nil:
		return "ok"
	case errors.Is(err, vm.ErrInvalidJump):
		return "badjump"
	case strings.HasPrefix(err.Error(), "stack underflow"):
		return "underflow"
	case strings.HasPrefix(err.Error(), "stack limit reached"):
		return "overflow"
	case strings.HasPrefix(err.Error(), "invalid opcode"):
		return "invalid"
	}
	return "other:" + err.Error()
}

func (w *world) runJump(b *JumpBehaviour) map[string]any {
	code := make([]byte, len(b.Code))
	for i, v := range b.Code {
		if v < 0 || v > 255 {
			harnessErr("program %d: byte %d out of range", b.ID, v)
		}
		code[i] = byte(v)
	}
	runs := []map[string]any{}
	for k := 0; k < 2; k++ {
		st := state.New(w.db, w.baseRoot)
		if err := st.SetCode(addrOf("A"), code); err != nil {
			harnessErr("SetCode: %v", err)
		}
		fc := thor.ForkConfig{}
		tr := &pathTracer{}
		rt := runtime.New(w.repo.NewChain(w.bestID), st, &xenv.BlockContext{Number: 1, Time: w.time, GasLimit: 40_000_000,
			BaseFee: big.NewInt(thor.InitialBaseFee)}, &fc).SetVMConfig(vm.Config{Tracer: tr})
		root := addrOf("A")
		var txid thor.Bytes32
		binary.BigEndian.PutUint64(txid[24:], uint64(b.ID)+1)
		exec, _ := rt.PrepareClause(tx.NewClause(&root), 0, 100_000_000,
			&xenv.TransactionContext{ID: txid, Origin: w.origin, GasPrice: big.NewInt(0), ClauseCount: 1})
		out, _, err := exec()
		r := map[string]any{}
		if err != nil {
			r["error"] = err.Error()
			runs = append(runs, r)
			continue
		}
		r["class"] = jumpClass(out.VMErr)
		stor := make([]int64, 3)
		for s := 1; s <= 3; s++ {
			v, err := st.GetStorage(addrOf("A"), thor.BytesToBytes32([]byte{byte(s)}))
			if err != nil {
				harnessErr("GetStorage: %v", err)
			}
			stor[s-1] = new(big.Int).SetBytes(v[:]).Int64()
		}
		r["stor"] = stor
		if len(tr.path) <= 80 {
			p := make([]uint64, len(tr.path))
			copy(p, tr.path)
			r["path"] = p
		} else {
			r["path"] = []uint64{uint64(len(tr.path)), tr.path[len(tr.path)-1]}
		}
		runs = append(runs, r)
	}
	return map[string]any{"id": b.ID, "runs": runs}
}
