// evmframes replays program sets exported by TLC from EvmFrames.tla on the REAL thor EVM (C10, part 2) and reports
// what the real code did, in the vocabulary of the specification.
//
//	evmframes -in <behaviours.ndjson> -out <observed.ndjson>
//
// Input: one JSON object per line  {"id":n, "prog":{"code":{"A":[step..],"B":..}, "bal":{"A":1,..}}, ...}.
// A step is {"op":"SSTORE","k":1,"v":2} | {"op":"LOG","t":1} | {"op":"CALL","kind":"CALL|CALLCODE|DELEGATECALL|STATICCALL",
// "to":"B","val":0|1,"gas":"all"|"none"} | {"op":"CREATE","kind":"CREATE|CREATE2","init":[step..],"val":0|1} |
// {"op":"SELFDESTRUCT","to":"B|SELF|X"} |
// {"op":"RETURN"} | {"op":"REVERT"} | {"op":"INVALID"} | {"op":"STOP"}.
//
// Every script is assembled to real bytecode (tiny assembler below), the contracts are installed in a fresh real
// state (state.State over muxdb.NewMem, devnet genesis), the clause "origin calls A" is executed through
// runtime.PrepareClause (real vm.EVM, real statedb adapter, latest fork), the state is staged, committed and
// re-opened, and the observable outcome is written as one JSON line:
//
//	stor   {"A":[slot1,slot2],..}     final storage read back from the committed state
//	bal    {"A":n,..}                 final balances (wei)
//	alive  {"A":bool,..}              account has code (or is a created contract) after execution
//	logs   [[addr,t,sender,value],..] events of the clause output (LOG3 topics: t, CALLER, CALLVALUE)
//	masters[[addr,creator],..]        thor's prototype $Master events (one per surviving CREATE)
//	xfers  [[from,to,amount],..]      transfers of the clause output
//	flags  [[depth,kind,to,0|1],..]   what every CALL*/CREATE pushed, observed on the real stack by a vm.Logger
//	frames [[kind,from,to,class],..]  every entered call frame in entry order, class = ok|revert|invalid|static|oog|other
//	gas    [..]                       violated gas sanity facts (empty when fine): leftover <= provided, used <= given,
//	                                  a failing non-REVERT frame uses all gas given to it, a REVERT frame keeps some
package main

import (
	"bufio"
	"encoding/binary"
	"encoding/json"
	"errors"
	"flag"
	"fmt"
	"math"
	"math/big"
	"os"
	"sort"
	"strings"

	"github.com/ethereum/go-ethereum/common"

	"github.com/vechain/thor/v2/builtin"
	"github.com/vechain/thor/v2/chain"
	"github.com/vechain/thor/v2/genesis"
	"github.com/vechain/thor/v2/muxdb"
	"github.com/vechain/thor/v2/runtime"
	"github.com/vechain/thor/v2/state"
	"github.com/vechain/thor/v2/thor"
	"github.com/vechain/thor/v2/trie"
	"github.com/vechain/thor/v2/tx"
	"github.com/vechain/thor/v2/vm"
	"github.com/vechain/thor/v2/xenv"
)

func harnessErr(format string, a ...any) {
	fmt.Printf("HARNESS-ERROR "+format+"\n", a...)
	os.Exit(3)
}

// ---------------------------------------------------------------------------------------------- program format

type Step struct {
	Op   string `json:"op"`
	K    int    `json:"k"`
	V    int    `json:"v"`
	T    int    `json:"t"`
	Kind string `json:"kind"`
	To   string `json:"to"`
	Val  int    `json:"val"`
	Gas  string `json:"gas"`
	Init []Step `json:"init"`
}

type Prog struct {
	Code map[string][]Step `json:"code"`
	Bal  map[string]int    `json:"bal"`
}

type Behaviour struct {
	ID   int  `json:"id"`
	Prog Prog `json:"prog"`
}

const nSlots = 2

var named = map[string]thor.Address{}

func addrOf(name string) thor.Address {
	if a, ok := named[name]; ok {
		return a
	}
	harnessErr("unknown address name %q", name)
	return thor.Address{}
}

// ---------------------------------------------------------------------------------------------------- assembler

type asm struct {
	code  []byte
	inits [][]byte // init codes referenced by CREATE steps, appended after the code
	fix   []int    // positions of the PUSH2 code-offset immediates, one per init
}

func (a *asm) op(o vm.OpCode) { a.code = append(a.code, byte(o)) }
func (a *asm) push1(v int)    { a.code = append(a.code, byte(vm.PUSH1), byte(v)) }
func (a *asm) push2(v int)    { a.code = append(a.code, byte(vm.PUSH2), byte(v>>8), byte(v)) }
func (a *asm) push20(x thor.Address) {
	a.code = append(a.code, byte(vm.PUSH20))
	a.code = append(a.code, x[:]...)
}

func assemble(steps []Step, isInit bool) []byte {
	a := &asm{}
	for _, s := range steps {
		switch s.Op {
		case "SSTORE":
			a.push1(s.V)
			a.push1(s.K)
			a.op(vm.SSTORE)
		case "LOG":
			a.op(vm.CALLVALUE)
			a.op(vm.CALLER)
			a.push1(s.T)
			a.push1(0)
			a.push1(0)
			a.op(vm.LOG3)
		case "CALL":
			a.push1(0) // retSize
			a.push1(0) // retOffset
			a.push1(0) // inSize
			a.push1(0) // inOffset
			if s.Kind == "CALL" || s.Kind == "CALLCODE" {
				a.push1(s.Val)
			} else if s.Val != 0 {
				harnessErr("%s cannot carry value", s.Kind)
			}
			a.push20(addrOf(s.To))
			switch s.Gas {
			case "all":
				a.code = append(a.code, byte(vm.PUSH32))
				for i := 0; i < 32; i++ {
					a.code = append(a.code, 0xff)
				}
			case "none":
				a.push1(0)
			default:
				harnessErr("bad gas %q", s.Gas)
			}
			switch s.Kind {
			case "CALL":
				a.op(vm.CALL)
			case "CALLCODE":
				a.op(vm.CALLCODE)
			case "DELEGATECALL":
				a.op(vm.DELEGATECALL)
			case "STATICCALL":
				a.op(vm.STATICCALL)
			default:
				harnessErr("bad call kind %q", s.Kind)
			}
			a.op(vm.POP)
		case "CREATE":
			init := assemble(s.Init, true)
			a.push2(len(init)) // length
			a.code = append(a.code, byte(vm.PUSH2), 0, 0)
			a.fix = append(a.fix, len(a.code)-2)
			a.inits = append(a.inits, init)
			a.push1(0) // memOffset
			a.op(vm.CODECOPY)
			if s.Kind == "CREATE2" {
				a.push1(len(a.code) & 0xff) // salt: distinct per step (code offset)
			}
			a.push2(len(init)) // size
			a.push1(0)         // offset
			a.push1(s.Val)     // endowment
			if s.Kind == "CREATE2" {
				a.op(vm.CREATE2)
			} else {
				a.op(vm.CREATE)
			}
			a.op(vm.POP)
		case "SELFDESTRUCT":
			if s.To == "SELF" {
				a.op(vm.ADDRESS)
			} else {
				a.push20(addrOf(s.To))
			}
			a.op(vm.SELFDESTRUCT)
		case "RETURN":
			if isInit {
				// deploy the one-byte runtime code 0x00 (STOP)
				a.push1(0)
				a.push1(0)
				a.op(vm.MSTORE8)
				a.push1(1)
				a.push1(0)
				a.op(vm.RETURN)
			} else {
				a.push1(0)
				a.push1(0)
				a.op(vm.RETURN)
			}
		case "REVERT":
			a.push1(0)
			a.push1(0)
			a.op(vm.REVERT)
		case "INVALID":
			a.code = append(a.code, 0xfe)
		case "STOP":
			a.op(vm.STOP)
		default:
			harnessErr("bad step op %q", s.Op)
		}
	}
	a.op(vm.STOP)
	off := len(a.code)
	for i, init := range a.inits {
		binary.BigEndian.PutUint16(a.code[a.fix[i]:], uint16(off))
		off += len(init)
	}
	out := a.code
	for _, init := range a.inits {
		out = append(out, init...)
	}
	if len(out) > 0xffff {
		harnessErr("program too large")
	}
	return out
}

// ------------------------------------------------------------------------------------------------------- tracer

type frameRec struct {
	kind     string
	from, to common.Address
	gas      uint64
	used     uint64
	class    string
	errStr   string
	drop     bool   // failed before a frame was entered (balance / depth): not a frame of the specification
	pseudo   bool   // SELFDESTRUCT pseudo frame emitted by opSuicide
	endMem   []byte // -mem: first memCells words of the frame's memory at its STOP / RETURN / REVERT
}

type pend struct {
	kind string
	to   common.Address
}

type tracer struct {
	frames  []*frameRec
	stack   []int         // indices of open frames; len(stack) = depth of the running frame
	pending map[int]*pend // depth -> CALL*/CREATE executed at that depth whose pushed result has not been seen yet
	flags   [][4]any
	created []common.Address // CREATE / CREATE2 targets in entry order: N1, N2, ..
	memDump int              // -mem: number of memory words to snapshot when a frame ends (0 = off)
}

func classify(err error) (string, string) {
	switch {
	case err == nil:
		return "ok", ""
	case errors.Is(err, vm.ErrExecutionReverted):
		return "revert", err.Error()
	case errors.Is(err, vm.ErrWriteProtection):
		return "static", err.Error()
	case errors.Is(err, vm.ErrOutOfGas):
		return "oog", err.Error()
	case errors.Is(err, vm.ErrReturnDataOutOfBounds):
		return "rdoob", err.Error()
	case strings.HasPrefix(err.Error(), "invalid opcode"):
		return "invalid", err.Error()
	}
	return "other:" + err.Error(), err.Error()
}

func (t *tracer) CaptureClauseStart(uint64) {}
func (t *tracer) CaptureClauseEnd(uint64)   {}

func (t *tracer) enter(kind string, from, to common.Address, gas uint64) *frameRec {
	f := &frameRec{kind: kind, from: from, to: to, gas: gas, class: "open"}
	t.frames = append(t.frames, f)
	t.stack = append(t.stack, len(t.frames)-1)
	return f
}

func (t *tracer) exit(used uint64, err error) {
	if len(t.stack) == 0 {
		harnessErr("tracer: exit without enter")
	}
	// a pending call of the frame that ends here can no longer be completed
	delete(t.pending, len(t.stack))
	f := t.frames[t.stack[len(t.stack)-1]]
	t.stack = t.stack[:len(t.stack)-1]
	f.used = used
	f.class, f.errStr = classify(err)
	if errors.Is(err, vm.ErrInsufficientBalance) || errors.Is(err, vm.ErrDepth) || errors.Is(err, vm.ErrContractAddressCollision) {
		f.drop = true
	}
}

func (t *tracer) CaptureStart(_ *vm.EVM, from, to common.Address, _ bool, _ []byte, gas uint64, _ *big.Int) {
	t.enter("ROOT", from, to, gas)
}
func (t *tracer) CaptureEnd(_ []byte, used uint64, err error) { t.exit(used, err) }
func (t *tracer) CaptureEnter(typ vm.OpCode, from, to common.Address, _ []byte, gas uint64, _ *big.Int) {
	if typ == vm.CREATE || typ == vm.CREATE2 {
		known := false
		for _, x := range t.created {
			known = known || x == to
		}
		if !known { // a CREATE that failed before its constructor ran does not consume the address
			t.created = append(t.created, to)
		}
		if p := t.pending[len(t.stack)]; p != nil && p.kind == typ.String() {
			p.to = to
		}
	}
	f := t.enter(typ.String(), from, to, gas)
	f.pseudo = typ == vm.SELFDESTRUCT
}
func (t *tracer) CaptureExit(_ []byte, used uint64, err error) { t.exit(used, err) }

func (t *tracer) CaptureState(_ uint64, op vm.OpCode, _, _ uint64, memory *vm.Memory, stack *vm.Stack, _ *vm.Contract, _ []byte, depth int, err error) {
	if err != nil {
		return // the deferred report of a failing instruction
	}
	if t.memDump > 0 && (op == vm.STOP || op == vm.RETURN || op == vm.REVERT) && len(t.stack) > 0 {
		snap := make([]byte, 32*t.memDump)
		copy(snap, memory.Data())
		t.frames[t.stack[len(t.stack)-1]].endMem = snap
	}
	if p, ok := t.pending[depth]; ok {
		flag := 0
		if !stack.Back(0).IsZero() {
			flag = 1
		}
		t.flags = append(t.flags, [4]any{depth, p.kind, p.to, flag})
		delete(t.pending, depth)
	}
	switch op {
	case vm.CALL, vm.CALLCODE, vm.DELEGATECALL, vm.STATICCALL:
		t.pending[depth] = &pend{kind: op.String(), to: common.Address(stack.Back(1).Bytes20())}
	case vm.CREATE, vm.CREATE2:
		t.pending[depth] = &pend{kind: op.String()}
	}
}

func (t *tracer) CaptureFault(uint64, vm.OpCode, uint64, uint64, *vm.Memory, *vm.Stack, *vm.Contract, int, error) {
}

// ------------------------------------------------------------------------------------------------------- driver

type world struct {
	db       *muxdb.MuxDB
	repo     *chain.Repository
	baseRoot trie.Root
	bestID   thor.Bytes32
	time     uint64
	origin   thor.Address
	masterID thor.Bytes32
}

func newWorld() *world {
	db := muxdb.NewMem()
	g0, _ := genesis.NewDevnet()
	b0, _, _, err := g0.Build(state.NewStater(db))
	if err != nil {
		harnessErr("genesis: %v", err)
	}
	repo, err := chain.NewRepository(db, b0)
	if err != nil {
		harnessErr("repository: %v", err)
	}
	ev, ok := builtin.Prototype.Events().EventByName("$Master")
	if !ok {
		harnessErr("$Master event not found")
	}
	return &world{db: db, repo: repo, baseRoot: trie.Root{Hash: b0.Header().StateRoot()}, bestID: b0.Header().ID(),
		time: b0.Header().Timestamp() + 10, origin: genesis.DevAccounts()[0].Address, masterID: ev.ID()}
}

const gasProvided = math.MaxUint64

func (w *world) run(b *Behaviour, seq int) map[string]any {
	st := state.New(w.db, w.baseRoot)
	var names []string
	for n := range b.Prog.Code {
		names = append(names, n)
	}
	sort.Strings(names)
	for _, n := range names {
		if err := st.SetCode(addrOf(n), assemble(b.Prog.Code[n], false)); err != nil {
			harnessErr("SetCode: %v", err)
		}
		if bal := b.Prog.Bal[n]; bal != 0 {
			if err := st.SetBalance(addrOf(n), big.NewInt(int64(bal))); err != nil {
				harnessErr("SetBalance: %v", err)
			}
		}
	}
	fc := thor.ForkConfig{} // every fork active: latest instruction set and call rules
	tr := &tracer{pending: map[int]*pend{}}
	rt := runtime.New(w.repo.NewChain(w.bestID), st, &xenv.BlockContext{Number: 1, Time: w.time, GasLimit: 40_000_000,
		BaseFee: big.NewInt(thor.InitialBaseFee)}, &fc).SetVMConfig(vm.Config{Tracer: tr})
	root := addrOf("A")
	var txid thor.Bytes32
	binary.BigEndian.PutUint64(txid[24:], uint64(b.ID)+1)
	exec, _ := rt.PrepareClause(tx.NewClause(&root), 0, gasProvided,
		&xenv.TransactionContext{ID: txid, Origin: w.origin, GasPrice: big.NewInt(0), ClauseCount: 1})
	out, _, err := exec()
	obs := map[string]any{"id": b.ID}
	if err != nil {
		// runtime converts panics of the state layer / vm into an error: an observation about the real code
		obs["error"] = err.Error()
		return obs
	}
	nameOf := func(a common.Address) string {
		for n, x := range named {
			if common.Address(x) == a {
				return n
			}
		}
		for i, x := range tr.created {
			if x == a {
				return fmt.Sprintf("N%d", i+1)
			}
		}
		return "0x" + common.Bytes2Hex(a[:])
	}

	// ---- what the clause output reports
	logs := [][]any{}
	masters := [][]any{}
	for _, e := range out.Events {
		if len(e.Topics) == 1 && e.Topics[0] == w.masterID {
			masters = append(masters, []any{nameOf(common.Address(e.Address)), nameOf(common.BytesToAddress(e.Data))})
			continue
		}
		if len(e.Topics) != 3 {
			logs = append(logs, []any{nameOf(common.Address(e.Address)), "unexpected-event", len(e.Topics), 0})
			continue
		}
		logs = append(logs, []any{nameOf(common.Address(e.Address)), new(big.Int).SetBytes(e.Topics[0][:]).Int64(),
			nameOf(common.BytesToAddress(e.Topics[1][:])), new(big.Int).SetBytes(e.Topics[2][:]).Int64()})
	}
	xfers := [][]any{}
	for _, t := range out.Transfers {
		xfers = append(xfers, []any{nameOf(common.Address(t.Sender)), nameOf(common.Address(t.Recipient)), t.Amount.Int64()})
	}
	obs["logs"], obs["masters"], obs["xfers"] = logs, masters, xfers

	// ---- frames and pushed flags seen by the tracer
	frames := [][]any{}
	gasFacts := []string{}
	if out.LeftOverGas > gasProvided {
		gasFacts = append(gasFacts, "clause leftover gas exceeds provided gas")
	}
	for i, f := range tr.frames {
		if f.pseudo || f.drop {
			continue
		}
		frames = append(frames, []any{f.kind, nameOf(f.from), nameOf(f.to), f.class})
		if f.class == "open" {
			harnessErr("tracer: frame %d never exited", i)
		}
		if f.used > f.gas {
			gasFacts = append(gasFacts, fmt.Sprintf("frame %d (%s %s): used %d > given %d", i, f.kind, nameOf(f.to), f.used, f.gas))
		}
		if f.class != "ok" && f.class != "revert" && f.used != f.gas {
			gasFacts = append(gasFacts, fmt.Sprintf("frame %d (%s %s) failed with %q but kept gas: used %d of %d", i, f.kind, nameOf(f.to), f.errStr, f.used, f.gas))
		}
		if f.class == "revert" && f.gas > 100000 && f.used >= f.gas {
			gasFacts = append(gasFacts, fmt.Sprintf("frame %d (%s %s) reverted but lost all its gas (%d)", i, f.kind, nameOf(f.to), f.gas))
		}
	}
	if len(tr.frames) > 0 {
		rootF := tr.frames[0]
		if (out.VMErr == nil) != (rootF.class == "ok") || gasProvided-out.LeftOverGas != rootF.used {
			gasFacts = append(gasFacts, "clause output disagrees with the root frame seen by the tracer")
		}
	}
	flags := [][]any{}
	for _, f := range tr.flags {
		flags = append(flags, []any{f[0], f[1], nameOf(f[2].(common.Address)), f[3]})
	}
	obs["frames"], obs["flags"], obs["gas"] = frames, flags, gasFacts
	obs["ncreate"] = len(tr.created)

	// ---- final state: stage, commit, re-open, read back
	if out.VMErr != nil {
		// runtime.ExecuteTransaction reverts the whole transaction checkpoint on a failing clause; the EVM itself has
		// already reverted the root frame. Nothing else to do here: the state must already equal the initial one.
		_ = out
	}
	ver := trie.Version{Major: 1, Minor: uint32(seq)}
	stage, err := st.Stage(ver)
	if err != nil {
		harnessErr("stage: %v", err)
	}
	newRoot, err := stage.Commit()
	if err != nil {
		harnessErr("commit: %v", err)
	}
	fin := state.New(w.db, trie.Root{Hash: newRoot, Ver: ver})
	all := append([]string{}, names...)
	all = append(all, "X")
	for i := range tr.created {
		all = append(all, fmt.Sprintf("N%d", i+1))
	}
	stor, bal, alive := map[string][]int64{}, map[string]int64{}, map[string]bool{}
	for _, n := range all {
		var a thor.Address
		if strings.HasPrefix(n, "N") {
			var k int
			fmt.Sscanf(n, "N%d", &k)
			a = thor.Address(tr.created[k-1])
		} else {
			a = addrOf(n)
		}
		slots := make([]int64, nSlots)
		for k := 1; k <= nSlots; k++ {
			v, err := fin.GetStorage(a, thor.BytesToBytes32([]byte{byte(k)}))
			if err != nil {
				harnessErr("GetStorage: %v", err)
			}
			slots[k-1] = new(big.Int).SetBytes(v[:]).Int64()
		}
		stor[n] = slots
		bv, err := fin.GetBalance(a)
		if err != nil {
			harnessErr("GetBalance: %v", err)
		}
		bal[n] = bv.Int64()
		code, err := fin.GetCode(a)
		if err != nil {
			harnessErr("GetCode: %v", err)
		}
		master, err := fin.GetMaster(a)
		if err != nil {
			harnessErr("GetMaster: %v", err)
		}
		alive[n] = len(code) > 0 || !master.IsZero()
	}
	obs["stor"], obs["bal"], obs["alive"] = stor, bal, alive
	return obs
}

func main() {
	in := flag.String("in", "", "behaviours exported by TLC (ndjson)")
	outp := flag.String("out", "", "observed outcomes (ndjson)")
	mem := flag.Bool("mem", false, "the behaviours are programs of EvmMemory.tla (memory / return data / precompiles), see mem.go")
	jump := flag.Bool("jump", false, "the behaviours are byte programs of EvmJump.tla (jump destinations, stack bounds), see jump.go")
	flag.Parse()
	if *in == "" || *outp == "" {
		harnessErr("usage: evmframes -in <file> -out <file>")
	}
	for _, n := range []string{"A", "B", "C", "X"} {
		named[n] = thor.BytesToAddress([]byte("c10-frames-" + n))
	}
	for i, n := range []string{"P1", "P2", "P3", "P4"} {
		named[n] = thor.BytesToAddress([]byte{byte(i + 1)}) // ecrecover, sha256, ripemd160, identity
	}
	w := newWorld()
	named["O"] = w.origin
	fi, err := os.Open(*in)
	if err != nil {
		harnessErr("%v", err)
	}
	defer fi.Close()
	fo, err := os.Create(*outp)
	if err != nil {
		harnessErr("%v", err)
	}
	bw := bufio.NewWriterSize(fo, 1<<20)
	sc := bufio.NewScanner(fi)
	sc.Buffer(make([]byte, 1<<20), 1<<24)
	n := 0
	for sc.Scan() {
		line := sc.Bytes()
		if len(line) == 0 {
			continue
		}
		var obs map[string]any
		if *jump {
			var b JumpBehaviour
			if err := json.Unmarshal(line, &b); err != nil {
				harnessErr("bad behaviour line %d: %v", n+1, err)
			}
			n++
			obs = w.runJump(&b)
		} else if *mem {
			var b MemBehaviour
			if err := json.Unmarshal(line, &b); err != nil {
				harnessErr("bad behaviour line %d: %v", n+1, err)
			}
			n++
			obs = w.runMem(&b)
		} else {
			var b Behaviour
			if err := json.Unmarshal(line, &b); err != nil {
				harnessErr("bad behaviour line %d: %v", n+1, err)
			}
			n++
			obs = w.run(&b, n)
		}
		js, err := json.Marshal(obs)
		if err != nil {
			harnessErr("%v", err)
		}
		bw.Write(js)
		bw.WriteByte('\n')
	}
	if err := sc.Err(); err != nil {
		harnessErr("%v", err)
	}
	if err := bw.Flush(); err != nil {
		harnessErr("%v", err)
	}
	fo.Close()
	fmt.Printf("{\"replayed\":%d}\n", n)
}
