// evmwords records what the REAL thor interpreter computes for the arithmetic / comparison / bitwise / shift
// instructions (C10, part 1) so that Trace_EvmWord.tla can recompute every result from modular integer arithmetic.
//
//	evmwords -out <dir> -seed S -n N [-exp K]
//	evmwords -out <dir> -in <vectors.ndjson>      re-run saved vectors ({"op":..,"a":[limbs],"b":..,"c":..} per line)
//
// For every vector the program
//
//	[PUSH32 c] PUSH32 b PUSH32 a OP PUSH1 0 MSTORE PUSH1 32 PUSH1 0 RETURN          (a = top of stack)
//
// is installed in a real state (state.State over muxdb.NewMem) and executed through runtime.PrepareClause, i.e. by
// the real vm.EVM / vm.Interpreter with the jump table of the latest fork (all forks active, block 1).
// Output: <dir>/trace.ndjson, one line {"e":"Op","i":k,"op":..,"a":[18 limbs],"b":..,"c":..,"r":..} per vector
// (15-bit little-endian limbs, see EvmWord.tla) and a one-line JSON summary on stdout.
// Operands are boundary-biased: a fixed core (cross products of 0, 1, 2, 2^255, 2^255-1, 2^256-1, shift amounts
// 0/1/255/256/257/huge, BYTE indices 0/31/32, SIGNEXTEND k 0/30/31/32, ...) plus seeded random vectors.
package main

import (
	"encoding/json"
	"flag"
	"fmt"
	"math"
	"math/big"
	"math/rand"
	"os"
	"path/filepath"
	"sort"
	"strings"

	"github.com/vechain/thor/v2/chain"
	"github.com/vechain/thor/v2/genesis"
	"github.com/vechain/thor/v2/muxdb"
	"github.com/vechain/thor/v2/runtime"
	"github.com/vechain/thor/v2/state"
	"github.com/vechain/thor/v2/thor"
	"github.com/vechain/thor/v2/trie"
	"github.com/vechain/thor/v2/tx"
	"github.com/vechain/thor/v2/vm"
	"github.com/vechain/thor/v2/xenv"

	"verifharness/internal/trace"
)

const nLimbs = 18

var (
	two256 = new(big.Int).Lsh(big.NewInt(1), 256)
	max256 = new(big.Int).Sub(two256, big.NewInt(1))
)

func harnessErr(format string, a ...any) {
	fmt.Printf("HARNESS-ERROR "+format+"\n", a...)
	os.Exit(3)
}

func limbs(v *big.Int) []int {
	out := make([]int, nLimbs)
	x := new(big.Int).Set(v)
	m := big.NewInt(1 << 15)
	r := new(big.Int)
	for i := 0; i < nLimbs; i++ {
		x.DivMod(x, m, r)
		out[i] = int(r.Int64())
	}
	if x.Sign() != 0 {
		panic("value does not fit 18 limbs")
	}
	return out
}

func p2(k uint) *big.Int  { return new(big.Int).Lsh(big.NewInt(1), k) }
func bi(x int64) *big.Int { return big.NewInt(x) }
func neg(x *big.Int) *big.Int {
	return new(big.Int).Mod(new(big.Int).Neg(x), two256)
}

type opDef struct {
	name  string
	code  vm.OpCode
	arity int
}

var ops = []opDef{
	{"ADD", vm.ADD, 2}, {"MUL", vm.MUL, 2}, {"SUB", vm.SUB, 2}, {"DIV", vm.DIV, 2}, {"SDIV", vm.SDIV, 2},
	{"MOD", vm.MOD, 2}, {"SMOD", vm.SMOD, 2}, {"ADDMOD", vm.ADDMOD, 3}, {"MULMOD", vm.MULMOD, 3},
	{"EXP", vm.EXP, 2}, {"SIGNEXTEND", vm.SIGNEXTEND, 2}, {"LT", vm.LT, 2}, {"GT", vm.GT, 2}, {"SLT", vm.SLT, 2},
	{"SGT", vm.SGT, 2}, {"EQ", vm.EQ, 2}, {"ISZERO", vm.ISZERO, 1}, {"AND", vm.AND, 2}, {"OR", vm.OR, 2},
	{"XOR", vm.XOR, 2}, {"NOT", vm.NOT, 1}, {"BYTE", vm.BYTE, 2}, {"SHL", vm.SHL, 2}, {"SHR", vm.SHR, 2},
	{"SAR", vm.SAR, 2},
}

type vec struct {
	op      opDef
	a, b, c *big.Int
}

type gen struct {
	rng *rand.Rand
}

func (g *gen) randBits(n int) *big.Int {
	if n == 0 {
		return new(big.Int)
	}
	buf := make([]byte, (n+7)/8)
	g.rng.Read(buf)
	v := new(big.Int).SetBytes(buf)
	return v.Mod(v, p2(uint(n)))
}

// random word with a boundary bias
func (g *gen) word() *big.Int {
	switch g.rng.Intn(10) {
	case 0:
		return g.pick(core)
	case 1:
		k := uint(g.rng.Intn(256))
		v := p2(k)
		switch g.rng.Intn(3) {
		case 0:
			v.Sub(v, bi(1))
		case 1:
			v.Add(v, bi(1))
		}
		return v.Mod(v, two256)
	case 2:
		return bi(int64(g.rng.Intn(300)))
	case 3:
		return neg(bi(int64(g.rng.Intn(300))))
	case 4, 5:
		return g.randBits(1 + g.rng.Intn(256))
	case 6:
		// sparse: a few bits set
		v := new(big.Int)
		for i := 0; i < 1+g.rng.Intn(4); i++ {
			v.SetBit(v, g.rng.Intn(256), 1)
		}
		return v
	case 7:
		// dense: a few bits cleared
		v := new(big.Int).Set(max256)
		for i := 0; i < 1+g.rng.Intn(4); i++ {
			v.SetBit(v, g.rng.Intn(256), 0)
		}
		return v
	default:
		return g.randBits(256)
	}
}

func (g *gen) pick(s []*big.Int) *big.Int { return new(big.Int).Set(s[g.rng.Intn(len(s))]) }

var (
	core = []*big.Int{bi(0), bi(1), bi(2), p2(255), new(big.Int).Sub(p2(255), bi(1)), max256}
	// second tier of boundary values
	more = []*big.Int{bi(3), bi(7), bi(255), bi(256), new(big.Int).Add(p2(255), bi(1)), new(big.Int).Sub(max256, bi(1)),
		p2(128), new(big.Int).Sub(p2(128), bi(1)), new(big.Int).Add(p2(128), bi(1)), p2(64), new(big.Int).Sub(p2(64), bi(1)),
		p2(15), p2(16), p2(254), neg(bi(2)), neg(bi(7)), neg(p2(128))}
	shiftAmts = []*big.Int{bi(0), bi(1), bi(255), bi(256), bi(257), p2(64), max256, bi(8), bi(15), bi(128), p2(255)}
	byteIdx   = []*big.Int{bi(0), bi(31), bi(32), bi(1), bi(30), bi(15), bi(33), p2(64), max256}
	sextK     = []*big.Int{bi(0), bi(30), bi(31), bi(32), bi(1), bi(15), bi(29), p2(200), max256}
)

func cp(x *big.Int) *big.Int { return new(big.Int).Set(x) }

// coreVectors: the deterministic part (same for every seed), per instruction in priority order (a budget keeps the
// first k of each instruction); g supplies the "random representative" operands
func coreVectors(g *gen) map[string][]vec {
	out := map[string][]vec{}
	rpos := g.randBits(255)                              // random non-negative
	rneg := new(big.Int).SetBit(g.randBits(255), 255, 1) // random negative
	rsmall := new(big.Int).Add(g.randBits(100), bi(3))   // random ~100-bit divisor
	min255 := new(big.Int).Sub(p2(255), bi(1))
	cross := func(o opDef, as, bs []*big.Int) {
		for _, a := range as {
			for _, b := range bs {
				out[o.name] = append(out[o.name], vec{o, cp(a), cp(b), nil})
			}
		}
	}
	for _, o := range ops {
		switch {
		case o.name == "EXP":
			cross(o, []*big.Int{bi(0), bi(1), bi(2), bi(3), max256, rpos}, []*big.Int{bi(0), bi(1), bi(2), bi(255), bi(256), bi(17)})
			cross(o, []*big.Int{p2(128), neg(bi(3))}, []*big.Int{bi(0), bi(1), bi(2), bi(3), bi(64)})
		case o.name == "SHL" || o.name == "SHR" || o.name == "SAR":
			cross(o, []*big.Int{bi(0), bi(1), bi(255), bi(256), bi(257), max256}, []*big.Int{bi(1), p2(255), max256, rneg, rpos, bi(0)})
			cross(o, []*big.Int{p2(64), bi(8), bi(15), bi(128), p2(255)}, []*big.Int{bi(1), p2(255), max256, rneg, rpos, bi(0), min255})
		case o.name == "BYTE":
			bv := []*big.Int{max256, rpos, rneg, new(big.Int).Lsh(bi(0xab), 248), bi(0xcd)}
			cross(o, []*big.Int{bi(0), bi(31), bi(32), bi(1), bi(30), max256}, bv)
			cross(o, []*big.Int{bi(15), bi(33), p2(64)}, bv)
		case o.name == "SIGNEXTEND":
			xv := []*big.Int{bi(0x7f), bi(0x80), bi(0xff), max256, rneg, rpos, p2(247), new(big.Int).Sub(p2(247), bi(1))}
			cross(o, []*big.Int{bi(0), bi(30), bi(31), bi(32), bi(1)}, xv)
			cross(o, []*big.Int{bi(15), bi(29), p2(200), max256}, append(xv, bi(0x7fff), bi(0x8000), p2(255), p2(239)))
		case o.arity == 1:
			for _, v := range append([]*big.Int{bi(0), bi(1), bi(2), p2(255), min255, max256, rpos, rneg}, more...) {
				out[o.name] = append(out[o.name], vec{o, cp(v), nil, nil})
			}
		case o.arity == 2:
			five := []*big.Int{bi(0), bi(1), p2(255), min255, max256}
			cross(o, five, five)
			// divisions by a mid-size divisor, both signs
			out[o.name] = append(out[o.name], vec{o, cp(rpos), cp(rsmall), nil}, vec{o, cp(rneg), cp(rsmall), nil},
				vec{o, cp(rneg), neg(rsmall), nil}, vec{o, cp(rpos), neg(rsmall), nil})
			rest := []*big.Int{bi(2), rpos, rneg}
			cross(o, rest, append(append([]*big.Int{}, five...), rest...))
			cross(o, five, rest)
		case o.arity == 3:
			tv := []*big.Int{bi(1), max256, rneg}
			for _, m := range []*big.Int{bi(0), bi(1), max256, rsmall, bi(2), p2(255), rneg} {
				for _, a := range tv {
					for _, b := range tv {
						out[o.name] = append(out[o.name], vec{o, cp(a), cp(b), cp(m)})
					}
				}
				out[o.name] = append(out[o.name], vec{o, bi(0), cp(rpos), cp(m)})
			}
		}
	}
	return out
}

func randomVector(g *gen, o opDef, bigExp bool) vec {
	switch {
	case o.name == "EXP":
		e := bi(int64(g.rng.Intn(40)))
		if bigExp {
			e = g.word()
		}
		return vec{o, g.word(), e, nil}
	case o.name == "SHL" || o.name == "SHR" || o.name == "SAR":
		s := bi(int64(g.rng.Intn(260)))
		if g.rng.Intn(6) == 0 {
			s = g.pick(shiftAmts)
		}
		return vec{o, s, g.word(), nil}
	case o.name == "BYTE":
		i := bi(int64(g.rng.Intn(34)))
		if g.rng.Intn(8) == 0 {
			i = g.pick(byteIdx)
		}
		return vec{o, i, g.word(), nil}
	case o.name == "SIGNEXTEND":
		k := bi(int64(g.rng.Intn(34)))
		if g.rng.Intn(8) == 0 {
			k = g.pick(sextK)
		}
		return vec{o, k, g.word(), nil}
	case o.arity == 1:
		return vec{o, g.word(), nil, nil}
	case o.arity == 2:
		a, b := g.word(), g.word()
		if g.rng.Intn(8) == 0 {
			b = cp(a) // equal operands
		}
		return vec{o, a, b, nil}
	default:
		return vec{o, g.word(), g.word(), g.word()}
	}
}

func push32(code []byte, v *big.Int) []byte {
	var buf [32]byte
	v.FillBytes(buf[:])
	code = append(code, byte(vm.PUSH32))
	return append(code, buf[:]...)
}

func program(v vec) []byte {
	var code []byte
	if v.op.arity == 3 {
		code = push32(code, v.c)
	}
	if v.op.arity >= 2 {
		code = push32(code, v.b)
	}
	code = push32(code, v.a)
	code = append(code, byte(v.op.code))
	code = append(code, byte(vm.PUSH1), 0, byte(vm.MSTORE), byte(vm.PUSH1), 32, byte(vm.PUSH1), 0, byte(vm.RETURN))
	return code
}

func fromLimbs(l []int) *big.Int {
	v := new(big.Int)
	for i := len(l) - 1; i >= 0; i-- {
		v.Lsh(v, 15)
		v.Add(v, big.NewInt(int64(l[i])))
	}
	return v
}

func readVectors(path string) []vec {
	data, err := os.ReadFile(path)
	if err != nil {
		harnessErr("%v", err)
	}
	var out []vec
	for _, line := range strings.Split(string(data), "\n") {
		if strings.TrimSpace(line) == "" {
			continue
		}
		var e struct {
			Op      string
			A, B, C []int
		}
		if err := json.Unmarshal([]byte(line), &e); err != nil {
			harnessErr("bad vector line: %v", err)
		}
		found := false
		for _, o := range ops {
			if o.name == e.Op {
				out = append(out, vec{o, fromLimbs(e.A), fromLimbs(e.B), fromLimbs(e.C)})
				found = true
			}
		}
		if !found {
			harnessErr("unknown instruction %q", e.Op)
		}
	}
	return out
}

func main() {
	out := flag.String("out", "", "output directory")
	seed := flag.Int64("seed", 1, "seed")
	n := flag.Int("n", 600, "total number of vectors (core vectors first, then seeded random ones)")
	nexp := flag.Int("exp", 4, "number of EXP vectors with a full-size random exponent (slow in TLC)")
	inFile := flag.String("in", "", "re-run the vectors of this ndjson file instead of generating vectors")
	flag.Parse()
	if *out == "" {
		harnessErr("missing -out")
	}
	if err := os.MkdirAll(*out, 0o755); err != nil {
		harnessErr("%v", err)
	}

	db := muxdb.NewMem()
	g0, _ := genesis.NewDevnet()
	b0, _, _, err := g0.Build(state.NewStater(db))
	if err != nil {
		harnessErr("genesis: %v", err)
	}
	repo, err := chain.NewRepository(db, b0)
	if err != nil {
		harnessErr("repository: %v", err)
	}
	st := state.New(db, trie.Root{Hash: b0.Header().StateRoot()})
	fc := thor.ForkConfig{} // every fork active from block 0: the latest instruction set
	rt := runtime.New(repo.NewChain(b0.Header().ID()), st, &xenv.BlockContext{Number: 1, Time: b0.Header().Timestamp() + 10,
		GasLimit: 40_000_000, BaseFee: big.NewInt(thor.InitialBaseFee)}, &fc)
	target := thor.BytesToAddress([]byte("c10-evmwords"))
	origin := genesis.DevAccounts()[0].Address

	g := &gen{rng: rand.New(rand.NewSource(*seed))}
	cv := coreVectors(g)
	quota := *n / len(ops) // per instruction: the first quota core vectors, the rest of the budget is random
	var vecs []vec
	for _, o := range ops {
		l := cv[o.name]
		if len(l) > quota {
			l = l[:quota]
		}
		vecs = append(vecs, l...)
	}
	if *inFile != "" {
		vecs = readVectors(*inFile)
		*n = len(vecs)
	}
	bigExpLeft := *nexp
	for k := 0; len(vecs) < *n; k++ {
		o := ops[k%len(ops)]
		be := false
		if o.name == "EXP" && bigExpLeft > 0 {
			be = true
			bigExpLeft--
		}
		vecs = append(vecs, randomVector(g, o, be))
	}

	var evs []trace.Ev
	perOp := map[string]int{}
	distinct := map[string]bool{}
	multi := 0
	for i, v := range vecs {
		code := program(v)
		cpt := st.NewCheckpoint()
		if err := st.SetCode(target, code); err != nil {
			harnessErr("SetCode: %v", err)
		}
		exec, _ := rt.PrepareClause(tx.NewClause(&target), 0, 1_000_000, &xenv.TransactionContext{Origin: origin, GasPrice: big.NewInt(0)})
		o, _, err := exec()
		st.RevertTo(cpt)
		if err != nil {
			harnessErr("exec error on vector %d (%s): %v", i, v.op.name, err)
		}
		ev := trace.Ev{"e": "Op", "i": i + 1, "op": v.op.name, "a": limbs(v.a)}
		zero := limbs(new(big.Int))
		ev["b"], ev["c"] = zero, zero
		if v.b != nil {
			ev["b"] = limbs(v.b)
		}
		if v.c != nil {
			ev["c"] = limbs(v.c)
		}
		if o.VMErr != nil || len(o.Data) != 32 {
			// the program is valid on the latest instruction set: any failure is an observation about the real code
			ev["e"] = "Fail"
			ev["err"] = fmt.Sprint(o.VMErr)
			ev["r"] = zero
		} else {
			ev["r"] = limbs(new(big.Int).SetBytes(o.Data))
		}
		if o.LeftOverGas > 1_000_000 {
			ev["e"] = "Fail"
			ev["err"] = "leftover gas exceeds provided gas"
		}
		evs = append(evs, ev)
		perOp[v.op.name]++
		key := fmt.Sprintf("%s %x %x %x", v.op.name, v.a, v.b, v.c)
		if !distinct[key] {
			distinct[key] = true
			if v.a.BitLen() > 15 || (v.b != nil && v.b.BitLen() > 15) {
				multi++
			}
		}
	}
	if err := trace.WriteNDJSON(filepath.Join(*out, "trace.ndjson"), evs); err != nil {
		harnessErr("%v", err)
	}
	names := make([]string, 0, len(perOp))
	for k := range perOp {
		names = append(names, k)
	}
	sort.Strings(names)
	sum := map[string]any{"vectors": len(vecs), "distinct": len(distinct), "distinct_multilimb": multi, "perOp": perOp,
		"ops": names, "seed": *seed, "maxGas": uint64(math.MaxUint32)}
	js, _ := json.Marshal(sum)
	fmt.Println(string(js))
}
