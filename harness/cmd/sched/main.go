// sched drives the REAL scheduler package (PoA v1, PoA v2, PoS) for C05 and records what it answered, together with
// the facts the specification leaves open, as an ndjson trace for specs/sched/Trace_Scheduler.tla.
//
//	sched -out <dir> -seed S -mode exh|large|seed [-maxn N] [-T t] [-cases K] [-v1pn K] [-runs R] [-si I]
//
// exh:   every list size 1..maxn, every active pattern, every order of the listed proposers (a (seed, parentNum) is
//
//	searched for every permutation, using the driver's OWN computation of the order), every `me` (listed or
//	not), every integer query time in a window around the parent.
//
// large: seeded lists of 1..150 proposers, extreme weights, far-future times, inactive / unlisted `me`,
//
//	all-inactive lists.  Cases whose numbers do not fit TLC's 32-bit integers are checked natively against an
//	independent reference (secondary oracle) and are not written to the trace.
//
// Writes <dir>/trace.ndjson and <dir>/summary.json. Deterministic in its flags. Exit 3 + HARNESS-ERROR on own trouble.
package main

import (
	"bytes"
	"encoding/binary"
	"encoding/hex"
	"encoding/json"
	"flag"
	"fmt"
	"math"
	"math/big"
	mrand "math/rand"
	randv2 "math/rand/v2"
	"os"
	"path/filepath"
	"sort"
	"strings"

	"golang.org/x/crypto/blake2b"

	"github.com/vechain/thor/v2/scheduler"
	"github.com/vechain/thor/v2/thor"

	"verifharness/internal/trace"
)

func die(f string, a ...any) {
	fmt.Printf("HARNESS-ERROR "+f+"\n", a...)
	os.Exit(3)
}

// ---------------------------------------------------------------------------------------------- instance

type prop struct {
	addr thor.Address
	act  bool
	w    uint64
}

type instance struct {
	kind  string // v1 | v2 | pos
	T     uint64
	pt    uint64
	pn    uint32
	seed  []byte
	list  []prop
	total uint64
	big   bool // weights do not fit TLC: score is checked natively only
	label string
	id    int
}

func (in *instance) n() int { return len(in.list) }

// addrOf: 1-based index -> address; n+1 is a proposer that is not listed
func (in *instance) addrOf(a int) thor.Address {
	if a >= 1 && a <= len(in.list) {
		return in.list[a-1].addr
	}
	var x thor.Address
	h := b2([]byte("c05-stranger"), be64(uint64(a)))
	copy(x[:], h[:20])
	return x
}

func (in *instance) indexOf(x thor.Address) int {
	for i, p := range in.list {
		if p.addr == x {
			return i + 1
		}
	}
	return 0
}

func (in *instance) realList() []scheduler.Proposer {
	out := make([]scheduler.Proposer, 0, len(in.list))
	for _, p := range in.list {
		out = append(out, scheduler.Proposer{Address: p.addr, Active: p.act, Weight: p.w})
	}
	return out
}

// construct the real scheduler exactly as packer/*_scheduler.go and consensus/*_validator.go do
func (in *instance) construct(me thor.Address) (scheduler.Scheduler, error) {
	switch in.kind {
	case "v1":
		s, err := scheduler.NewPoASchedulerV1(me, in.realList(), in.pn, in.pt)
		if err != nil {
			return nil, err
		}
		return s, nil
	case "v2":
		s, err := scheduler.NewPoASchedulerV2(me, in.realList(), in.pn, in.pt, in.seed)
		if err != nil {
			return nil, err
		}
		return s, nil
	default:
		s, err := scheduler.NewPoSScheduler(me, in.realList(), in.pn, in.pt, in.seed, in.total)
		if err != nil {
			return nil, err
		}
		return s, nil
	}
}

// ---------------------------------------------------------------------------------------------- independent facts

func b2(parts ...[]byte) [32]byte {
	h, err := blake2b.New256(nil)
	if err != nil {
		die("blake2b: %v", err)
	}
	for _, p := range parts {
		h.Write(p)
	}
	var o [32]byte
	copy(o[:], h.Sum(nil))
	return o
}
func be32(x uint32) []byte { var b [4]byte; binary.BigEndian.PutUint32(b[:], x); return b[:] }
func be64(x uint64) []byte { var b [8]byte; binary.BigEndian.PutUint64(b[:], x); return b[:] }

// dprp(parentNum, t) = first 8 bytes of blake2b(be32(parentNum) || be64(t))
func indepDprp(pn uint32, t uint64) uint64 {
	h := b2(be32(pn), be64(t))
	return binary.BigEndian.Uint64(h[:8])
}

// order of ALL listed proposers, 1-based indices. v2: ascending blake2b(seed || be32(parentNum) || address).
func indepOrderV2(in *instance) []int {
	type it struct {
		a int
		h [32]byte
	}
	var xs []it
	for i, p := range in.list {
		x := it{i + 1, b2(in.seed, be32(in.pn), p.addr[:])}
		// insertion sort
		j := len(xs)
		xs = append(xs, x)
		for j > 0 && bytes.Compare(xs[j-1].h[:], x.h[:]) > 0 {
			xs[j] = xs[j-1]
			j--
		}
		xs[j] = x
	}
	out := make([]int, len(xs))
	for i, x := range xs {
		out[i] = x.a
	}
	return out
}

// pos: ChaCha8 seeded with blake2b(seed || be32(parentNum)); one draw per LISTED proposer in list order,
// r = (u64 & (2^53-1)) / 2^53, r = 0 -> 1e-10, score = -ln(r) / weight; ascending, ties keep list order.
func indepOrderPoS(in *instance) []int {
	src := randv2.NewChaCha8(b2(in.seed, be32(in.pn)))
	type it struct {
		a int
		s float64
	}
	var xs []it
	for i, p := range in.list {
		u := src.Uint64()
		r := float64(u&(1<<53-1)) / 9007199254740992.0
		if r == 0 {
			r = 1e-10
		}
		x := it{i + 1, -math.Log(r) / float64(p.w)}
		j := len(xs)
		xs = append(xs, x)
		for j > 0 && xs[j-1].s > x.s { // strictly greater: equal scores keep list order
			xs[j] = xs[j-1]
			j--
		}
		xs[j] = x
	}
	out := make([]int, len(xs))
	for i, x := range xs {
		out[i] = x.a
	}
	return out
}

func (in *instance) indepOrder() []int {
	switch in.kind {
	case "v2":
		return indepOrderV2(in)
	case "pos":
		return indepOrderPoS(in)
	}
	out := make([]int, in.n())
	for i := range out {
		out[i] = i + 1
	}
	return out
}

// ---------------------------------------------------------------------------------------------- real outputs

type updOut struct {
	t     uint64
	off   []int
	on    []int
	score uint64
}

type meOut struct {
	me    int
	ok    bool
	det   bool
	obs   []int // order observed through IsScheduled (v2/pos), nil for v1
	sched [][2]uint64
	itt   []uint64
	ittb  []bool
	upd   []updOut
	panic string
}

const maxUpd = 24

type isScheduled interface {
	IsScheduled(blockTime uint64, proposer thor.Address) bool
}

func (in *instance) eligibleCount(me int) int {
	c := 0
	for i, p := range in.list {
		if p.act || i+1 == me {
			c++
		}
	}
	return c
}

func (in *instance) updatesOf(s scheduler.Scheduler, t uint64) updOut {
	ups, score := s.Updates(t)
	u := updOut{t: t, off: []int{}, on: []int{}, score: score}
	for _, p := range ups {
		a := in.indexOf(p.Address)
		if p.Active {
			u.on = append(u.on, a)
		} else {
			u.off = append(u.off, a)
		}
	}
	return u
}

func sameSet(a, b []int) bool {
	if len(a) != len(b) {
		return false
	}
	x := append([]int(nil), a...)
	y := append([]int(nil), b...)
	sort.Ints(x)
	sort.Ints(y)
	for i := range x {
		if x[i] != y[i] {
			return false
		}
	}
	return true
}

// query the real scheduler of `me`
func (in *instance) runMe(me int, nows, itts, upds []uint64) (out meOut) {
	out.me = me
	defer func() {
		if r := recover(); r != nil {
			out.panic = fmt.Sprint(r)
		}
	}()
	addr := in.addrOf(me)
	s, err := in.construct(addr)
	if err != nil {
		return
	}
	out.ok = true
	s2, err2 := in.construct(addr) // a second node doing the same
	out.det = err2 == nil
	if is, ok := s.(isScheduled); ok {
		m := in.eligibleCount(me)
		out.obs = []int{}
		for i := 0; i < m; i++ {
			t := in.pt + uint64(i+1)*in.T
			found := 0
			for a := 1; a <= in.n(); a++ {
				if is.IsScheduled(t, in.addrOf(a)) {
					if found == 0 {
						found = a
					} else {
						found = -1 // two proposers scheduled for one slot
					}
				}
			}
			out.obs = append(out.obs, found)
		}
	}
	for _, now := range nows {
		t := s.Schedule(now)
		out.sched = append(out.sched, [2]uint64{now, t})
		if out.det && s2.Schedule(now) != t {
			out.det = false
		}
	}
	for _, t := range itts {
		b := s.IsTheTime(t)
		out.itt = append(out.itt, t)
		out.ittb = append(out.ittb, b)
		if out.det && s2.IsTheTime(t) != b {
			out.det = false
		}
	}
	// Updates is asked exactly where the two use sites ask it: at the time Schedule returned (packer) and at times
	// IsTheTime accepted (validator); `upds` are candidates, kept only if the real IsTheTime accepts them
	cand := []uint64{}
	for _, q := range out.sched {
		cand = append(cand, q[1])
	}
	for i, t := range out.itt {
		if out.ittb[i] {
			cand = append(cand, t)
		}
	}
	for _, t := range upds {
		if s.IsTheTime(t) {
			cand = append(cand, t)
		}
	}
	cand = uniq(cand)
	if len(cand) > maxUpd {
		// keep the earliest ones and the latest ones
		sort.Slice(cand, func(i, j int) bool { return cand[i] < cand[j] })
		cand = append(append([]uint64{}, cand[:maxUpd-4]...), cand[len(cand)-4:]...)
	}
	for _, t := range cand {
		if t <= in.pt || (t-in.pt)%in.T != 0 {
			continue // never done by a use site: Updates of a time that is no slot
		}
		u := in.updatesOf(s, t)
		out.upd = append(out.upd, u)
		if out.det {
			v := in.updatesOf(s2, t)
			if !sameSet(u.off, v.off) || !sameSet(u.on, v.on) || u.score != v.score {
				out.det = false
			}
		}
	}
	return
}

// the validator's rule for every listed proposer: who is accepted at time t
func (in *instance) runSlots(ts []uint64) (res [][]int, pan string) {
	defer func() {
		if r := recover(); r != nil {
			pan = fmt.Sprint(r)
		}
	}()
	scheds := make([]scheduler.Scheduler, in.n())
	for i := range in.list {
		s, err := in.construct(in.list[i].addr)
		if err != nil {
			return nil, "constructor refused a listed proposer: " + err.Error()
		}
		scheds[i] = s
	}
	for _, t := range ts {
		who := []int{}
		for i := range in.list {
			if scheds[i].IsTheTime(t) {
				who = append(who, i+1)
			}
		}
		res = append(res, who)
	}
	return
}

// ---------------------------------------------------------------------------------------------- native reference
// Independent re-statement used as a SECONDARY oracle (and the only one for numbers beyond TLC's 32-bit integers).

type ref struct {
	in  *instance
	me  int
	S   []int // order restricted to eligible
	act map[int]bool
}

func newRef(in *instance, me int, order []int) *ref {
	r := &ref{in: in, me: me, act: map[int]bool{}}
	for i, p := range in.list {
		if p.act {
			r.act[i+1] = true
		}
	}
	for _, a := range order {
		if r.act[a] || a == me {
			r.S = append(r.S, a)
		}
	}
	return r
}

func (r *ref) aligned(t uint64) bool { return t > r.in.pt && (t-r.in.pt)%r.in.T == 0 }

func (r *ref) owner(t uint64) int { // t aligned
	n := uint64(len(r.S))
	if r.in.kind == "v1" {
		return r.S[indepDprp(r.in.pn, t)%n]
	}
	k := new(big.Int).SetUint64(t - r.in.pt)
	k.Div(k, new(big.Int).SetUint64(r.in.T))
	k.Sub(k, big.NewInt(1))
	k.Mod(k, new(big.Int).SetUint64(n))
	return r.S[k.Uint64()]
}

func (r *ref) isTheTime(t uint64) bool { return r.aligned(t) && r.owner(t) == r.me }

// least aligned t >= max(now, pt+T) owned by me; gives up after limit slots (v1 is unbounded in principle)
func (r *ref) schedule(now uint64, limit int) (uint64, bool) {
	t := r.in.pt + r.in.T
	if now > t {
		k := (now - r.in.pt) / r.in.T
		if (now-r.in.pt)%r.in.T != 0 {
			k++
		}
		t = r.in.pt + k*r.in.T
	}
	for i := 0; i < limit; i++ {
		if r.owner(t) == r.me {
			return t, true
		}
		t += r.in.T
	}
	return 0, false
}

func (r *ref) updates(t uint64) (off map[int]bool, on []int, score uint64) {
	off = map[int]bool{}
	kt := (t - r.in.pt) / r.in.T
	if r.in.kind == "v1" {
		for k := kt - 1; k >= 1 && kt-k <= thor.InitialMaxBlockProposers; k-- {
			if o := r.owner(r.in.pt + k*r.in.T); o != r.me {
				off[o] = true
			}
		}
	} else {
		for k := uint64(1); k < kt && k <= uint64(len(r.S)); k++ {
			if o := r.owner(r.in.pt + k*r.in.T); o != r.me {
				off[o] = true
			}
		}
	}
	if !r.act[r.me] {
		on = []int{r.me}
	}
	if r.in.kind != "pos" {
		return off, on, uint64(len(r.S) - len(off))
	}
	if r.in.total == 0 {
		return off, on, 0
	}
	sum := new(big.Int)
	for _, a := range r.S {
		if !off[a] {
			sum.Add(sum, new(big.Int).SetUint64(r.in.list[a-1].w))
		}
	}
	sum.Mul(sum, big.NewInt(thor.MaxPosScore))
	sum.Div(sum, new(big.Int).SetUint64(r.in.total))
	if !sum.IsUint64() {
		return off, on, math.MaxUint64
	}
	return off, on, sum.Uint64()
}

type mismatch struct {
	Inst  int    `json:"inst"`
	Label string `json:"label"`
	Kind  string `json:"kind"`
	Me    int    `json:"me"`
	What  string `json:"what"`
	Args  string `json:"args"`
}

func (in *instance) nativeCheck(o *meOut, order []int, mm *[]mismatch) int {
	add := func(what, f string, a ...any) {
		if len(*mm) < 50 {
			*mm = append(*mm, mismatch{in.id, in.label, in.kind, o.me, what, fmt.Sprintf(f, a...)})
		}
	}
	if o.panic != "" {
		return 0
	}
	listed := o.me >= 1 && o.me <= in.n()
	if o.ok != listed {
		add("ctor", "ok=%v listed=%v", o.ok, listed)
	}
	if !o.ok {
		return 1
	}
	if !o.det {
		add("determinism", "a second construction answered differently")
	}
	r := newRef(in, o.me, order)
	if o.obs != nil && !sameSeq(o.obs, r.S) {
		add("order", "observed %v independent %v", o.obs, r.S)
	}
	checks := 1
	for _, q := range o.sched {
		if t, ok := r.schedule(q[0], 400*len(r.S)+2000); ok && t != q[1] {
			add("schedule", "now=%d real=%d ref=%d", q[0], q[1], t)
		}
		checks++
	}
	for i, t := range o.itt {
		if b := r.isTheTime(t); b != o.ittb[i] {
			add("isthetime", "t=%d real=%v ref=%v", t, o.ittb[i], b)
		}
		checks++
	}
	for _, u := range o.upd {
		off, on, score := r.updates(u.t)
		offl := []int{}
		for a := range off {
			offl = append(offl, a)
		}
		if !sameSet(offl, u.off) || !sameSet(on, u.on) {
			sort.Ints(offl)
			add("updates", "t=%d real off=%v on=%v ref off=%v on=%v", u.t, u.off, u.on, offl, on)
		}
		if score != u.score {
			add("score", "t=%d real=%d ref=%d", u.t, u.score, score)
		}
		checks++
	}
	return checks
}

func sameSeq(a, b []int) bool {
	if len(a) != len(b) {
		return false
	}
	for i := range a {
		if a[i] != b[i] {
			return false
		}
	}
	return true
}

// ---------------------------------------------------------------------------------------------- recording

type recorder struct {
	w          trace.Writer
	mm         []mismatch
	panics     []mismatch
	nInst      int
	nMe        int
	nSlot      int
	nQueries   int
	nNative    int
	nNativeBig int
	nontrivial map[string]bool
	sizes      map[int]int
	kinds      map[string]int
	refused    int
	inactiveMe int
	allInact   int
	maxN       int
}

type plan struct {
	mes    []int
	nows   []uint64
	itts   []uint64
	upds   []uint64
	slotTs []uint64
}

func limbs(v uint64) []int { return trace.Limbs(new(big.Int).SetUint64(v)) }

// record: run the plan on the real code, natively cross-check, and (if tlc) append the events
func (rc *recorder) record(in *instance, pl plan, tlc bool) {
	rc.nInst++
	in.id = rc.nInst
	order := in.indepOrder()
	rc.sizes[in.n()]++
	rc.kinds[in.kind]++
	if in.n() > rc.maxN {
		rc.maxN = in.n()
	}
	anyAct := false
	for _, p := range in.list {
		anyAct = anyAct || p.act
	}
	if !anyAct {
		rc.allInact++
	}
	need := map[uint64]bool{} // v1: slots whose dprp value the specification will look at
	slot := func(t uint64) uint64 { return (t - in.pt) / in.T }
	var evs []trace.Ev
	for _, me := range pl.mes {
		o := in.runMe(me, pl.nows, pl.itts, pl.upds)
		rc.nMe++
		if o.panic != "" {
			rc.panics = append(rc.panics, mismatch{in.id, in.label, in.kind, me, "panic", o.panic})
			evs = append(evs, trace.Ev{"e": "Panic", "me": me, "what": o.panic})
			continue
		}
		c := in.nativeCheck(&o, order, &rc.mm)
		rc.nNative += c
		if !tlc {
			rc.nNativeBig += c
		}
		rc.nQueries += len(o.sched) + len(o.itt) + len(o.upd)
		if !o.ok {
			rc.refused++
			evs = append(evs, trace.Ev{"e": "Me", "me": me, "ok": false})
			continue
		}
		if !in.list[me-1].act {
			rc.inactiveMe++
		}
		ev := trace.Ev{"e": "Me", "me": me, "ok": true, "det": o.det}
		if o.obs != nil {
			ev["obs"] = o.obs
		}
		waited, offed := false, false
		sc := [][]uint64{}
		for _, q := range o.sched {
			sc = append(sc, []uint64{q[0], q[1]})
			t0 := in.pt + in.T
			if q[0] > t0 {
				t0 += (q[0] - t0 + in.T - 1) / in.T * in.T
			}
			if q[1] != t0 {
				waited = true
			}
			if in.kind == "v1" && q[1] >= t0 {
				for k := slot(t0); k <= slot(q[1]); k++ {
					need[k] = true
				}
			}
		}
		it := [][]any{}
		for i, t := range o.itt {
			it = append(it, []any{t, o.ittb[i]})
			if in.kind == "v1" && t > in.pt && (t-in.pt)%in.T == 0 {
				need[slot(t)] = true
			}
		}
		up := [][]any{}
		for _, u := range o.upd {
			up = append(up, []any{u.t, u.off, u.on, u.score})
			if len(u.off) > 0 {
				offed = true
			}
			if in.kind == "v1" {
				kt := slot(u.t)
				for k := kt - 1; k >= 1 && kt-k <= thor.InitialMaxBlockProposers; k-- {
					need[k] = true
				}
			}
		}
		ev["sched"], ev["itt"], ev["upd"] = sc, it, up
		evs = append(evs, ev)
		if in.eligibleCount(me) >= 2 && waited && offed {
			// same key <=> same kind, interval, parent time, list pattern, order among eligible, me
			r := newRef(in, me, order)
			key := fmt.Sprintf("%s|%d|%d|%d|%v|%d", in.kind, in.T, in.pt, in.n(), r.S, me)
			if in.kind == "v1" {
				key += fmt.Sprintf("|%d", in.pn)
			}
			rc.nontrivial[key] = true
		}
	}
	if len(pl.slotTs) > 0 {
		res, pan := in.runSlots(pl.slotTs)
		rc.nSlot++
		if pan != "" {
			rc.panics = append(rc.panics, mismatch{in.id, in.label, in.kind, 0, "panic-slots", pan})
			evs = append(evs, trace.Ev{"e": "Panic", "me": 0, "what": pan})
		} else {
			q := [][]any{}
			for i, t := range pl.slotTs {
				q = append(q, []any{t, res[i]})
				if in.kind == "v1" && t > in.pt && (t-in.pt)%in.T == 0 {
					need[slot(t)] = true
				}
				// native: the accepted set is what the reference says
				want := []int{}
				for a := 1; a <= in.n(); a++ {
					if newRef(in, a, order).isTheTime(t) {
						want = append(want, a)
					}
				}
				rc.nNative++
				if !sameSet(want, res[i]) && len(rc.mm) < 50 {
					rc.mm = append(rc.mm, mismatch{in.id, in.label, in.kind, 0, "slot", fmt.Sprintf("t=%d real=%v ref=%v", t, res[i], want)})
				}
			}
			rc.nQueries += len(pl.slotTs) * in.n()
			evs = append(evs, trace.Ev{"e": "Slot", "q": q})
		}
	}
	if !tlc {
		return
	}
	// ---- the Inst event: list, facts
	list := []map[string]any{}
	for i, p := range in.list {
		w := p.w
		if in.big {
			w = 0
		}
		list = append(list, map[string]any{"a": i + 1, "act": p.act, "w": w})
	}
	segs := []map[string]any{}
	if in.kind == "v1" {
		ks := make([]uint64, 0, len(need))
		for k := range need {
			ks = append(ks, k)
		}
		sort.Slice(ks, func(i, j int) bool { return ks[i] < ks[j] })
		for i := 0; i < len(ks); {
			k0, k1 := ks[i], ks[i]
			i++
			for i < len(ks) && ks[i] <= k1+16 { // bridge small gaps: few segments
				k1 = ks[i]
				i++
			}
			v := [][]int{}
			for k := k0; k <= k1; k++ {
				v = append(v, limbs(indepDprp(in.pn, in.pt+k*in.T)))
			}
			segs = append(segs, map[string]any{"k0": k0, "v": v})
		}
	}
	total := in.total
	if in.big {
		total = 0
	}
	rc.w.Emit(trace.Ev{"e": "Inst", "id": in.id, "kind": in.kind, "T": in.T, "pt": in.pt, "list": list, "ord": order,
		"total": total, "big": in.big, "dp": segs, "nev": len(evs), "label": in.label,
		"pnum": fmt.Sprint(in.pn), "seedhex": hex.EncodeToString(in.seed)})
	for i, e := range evs {
		e["seq"] = i + 1
		rc.w.Emit(e)
	}
}

// ---------------------------------------------------------------------------------------------- exhaustive mode

func addrs(runSeed int64, n int) []thor.Address {
	out := make([]thor.Address, n)
	for i := range out {
		h := b2([]byte("c05-addr"), be64(uint64(runSeed)), be64(uint64(i)))
		copy(out[i][:], h[:20])
	}
	return out
}

func setT(T uint64) {
	thor.SetConfig(thor.Config{BlockInterval: T})
	if thor.BlockInterval() != T {
		die("cannot set block interval %d", T)
	}
}

func window(lo, hi uint64) []uint64 {
	var out []uint64
	for t := lo; t <= hi; t++ {
		out = append(out, t)
	}
	return out
}

func fact(n int) int {
	f := 1
	for i := 2; i <= n; i++ {
		f *= i
	}
	return f
}

type cand struct {
	seed []byte
	pn   uint32
	ord  []int
}

// search (seed, parentNum) pairs until the independently computed order has taken every permutation (or budget ends)
func findOrders(kind string, ads []thor.Address, ws []uint64, runSeed int64, budget int) []cand {
	n := len(ads)
	found := map[string]cand{}
	probe := &instance{kind: kind}
	for i := range ads {
		probe.list = append(probe.list, prop{ads[i], true, ws[i]})
	}
	for c := 0; c < budget && len(found) < fact(n); c++ {
		h := b2([]byte("c05-seed"), be64(uint64(runSeed)), be64(uint64(c)))
		probe.seed = h[:]
		probe.pn = uint32(c*7919) % 1000003
		if c%17 == 0 {
			probe.seed = nil // no seed yet (first seeder epochs)
		}
		o := probe.indepOrder()
		k := fmt.Sprint(o)
		if _, ok := found[k]; !ok {
			found[k] = cand{append([]byte(nil), probe.seed...), probe.pn, o}
		}
	}
	keys := make([]string, 0, len(found))
	for k := range found {
		keys = append(keys, k)
	}
	sort.Strings(keys)
	out := []cand{}
	for _, k := range keys {
		out = append(out, found[k])
	}
	return out
}

type exhStat struct {
	Kind    string `json:"kind"`
	N       int    `json:"n"`
	Weights string `json:"weights,omitempty"`
	Orders  int    `json:"orders_found"`
	OfPerms int    `json:"of_permutations"`
	Insts   int    `json:"instances"`
}

func (rc *recorder) exhaustive(runSeed int64, maxn int, T uint64, v1pn int, wvs [][]uint64) []exhStat {
	setT(T)
	pt := 2*T + 1 // deliberately not a multiple of T
	stats := []exhStat{}
	for n := 1; n <= maxn; n++ {
		ads := addrs(runSeed, n)
		pl := plan{}
		for me := 1; me <= n+1; me++ {
			pl.mes = append(pl.mes, me)
		}
		hi := pt + uint64(2*n+2)*T + 1
		pl.nows = window(pt-2, hi)
		pl.itts = window(pt-2, hi)
		for k := 1; k <= 2*n+2; k++ {
			pl.upds = append(pl.upds, pt+uint64(k)*T)
		}
		pl.slotTs = window(pt-1, pt+uint64(n+2)*T+1)
		run := func(kind string, ws []uint64, total uint64, cands []cand, wname string) {
			st := exhStat{Kind: kind, N: n, Weights: wname, Orders: len(cands), OfPerms: fact(n)}
			if kind == "v1" {
				st.OfPerms = 0
			}
			for _, c := range cands {
				for mask := 0; mask < 1<<n; mask++ {
					in := &instance{kind: kind, T: T, pt: pt, pn: c.pn, seed: c.seed, total: total,
						label: fmt.Sprintf("exh-%s-n%d-%s-mask%d", kind, n, wname, mask)}
					for i := 0; i < n; i++ {
						in.list = append(in.list, prop{ads[i], mask>>i&1 == 1, ws[i]})
					}
					rc.record(in, pl, true)
					st.Insts++
				}
			}
			stats = append(stats, st)
		}
		zero := make([]uint64, n)
		run("v2", zero, 0, findOrders("v2", ads, zero, runSeed, 200000), "")
		for wi, wv := range wvs {
			if len(wv) < n {
				continue
			}
			var sum uint64
			for _, w := range wv[:n] {
				sum += w
			}
			total := sum + uint64(wi)*3 // the contract's total need not be the sum over the leader group
			if sum == 0 {
				total = 0
			}
			run("pos", wv[:n], total, findOrders("pos", ads, wv[:n], runSeed, 200000), fmt.Sprint(wv[:n]))
		}
		// v1: the facts are the dprp values; take v1pn parent numbers
		cs := []cand{}
		for i := 0; i < v1pn; i++ {
			pn := uint32(uint64(runSeed)*1000+uint64(i)*2654435761) % 100000007
			cs = append(cs, cand{nil, pn, nil})
		}
		run("v1", zero, 0, cs, "")
	}
	return stats
}

// ---------------------------------------------------------------------------------------------- large mode

func uniq(xs []uint64) []uint64 {
	seen := map[uint64]bool{}
	out := []uint64{}
	for _, x := range xs {
		if !seen[x] {
			seen[x] = true
			out = append(out, x)
		}
	}
	return out
}

func (rc *recorder) large(runSeed int64, cases int) {
	rng := mrand.New(mrand.NewSource(runSeed*7919 + 13))
	sizes := []int{1, 2, 3, 5, 8, 13, 34, 89, 100, 101, 102, 150}
	kinds := []string{"v2", "pos", "v1"}
	for c := 0; c < cases; c++ {
		kind := kinds[c%3]
		n := sizes[(c/3)%len(sizes)]
		if c >= 3*len(sizes) && rng.Intn(2) == 0 {
			n = 1 + rng.Intn(150)
		}
		T := uint64(10)
		switch rng.Intn(6) {
		case 0:
			T = 1
		case 1:
			T = 3
		}
		setT(T)
		var pt uint64
		switch rng.Intn(4) {
		case 0:
			pt = 0
		case 1:
			pt = uint64(rng.Intn(1000))
		default:
			pt = uint64(rng.Intn(10000000))
		}
		in := &instance{kind: kind, T: T, pt: pt, pn: rng.Uint32()}
		switch rng.Intn(8) {
		case 0:
			in.pn = 0
		case 1:
			in.pn = math.MaxUint32
		}
		if rng.Intn(8) != 0 {
			in.seed = make([]byte, 32)
			rng.Read(in.seed)
		}
		// active pattern
		apat := rng.Intn(7)
		if c%11 == 5 {
			apat = 1
		}
		single := rng.Intn(n)
		// weights
		wpat := rng.Intn(6)
		var sum uint64
		for i := 0; i < n; i++ {
			var a thor.Address
			rng.Read(a[:])
			p := prop{addr: a}
			switch apat {
			case 0:
				p.act = true
			case 1:
				p.act = false // nobody is active
			case 2:
				p.act = i == single
			case 3:
				p.act = i != single
			case 4:
				p.act = rng.Intn(10) != 0
			default:
				p.act = rng.Intn(2) == 0
			}
			if kind == "pos" {
				switch wpat {
				case 0:
					p.w = 1
				case 1:
					p.w = 1 + uint64(rng.Intn(1000))
				case 2: // extreme ratio 1 : 2^40
					p.w = 1
					if rng.Intn(3) == 0 {
						p.w = 1 << 40
					}
					in.big = true
				case 3: // zero weights mixed in
					p.w = uint64(rng.Intn(3)) * uint64(1+rng.Intn(500))
				case 4:
					p.w = 0
				default:
					p.w = uint64(25+rng.Intn(600)) * 1000000 * uint64(1+rng.Intn(2)) // realistic: whole VET x multiplier
					in.big = true
				}
			}
			sum += p.w
			in.list = append(in.list, p)
		}
		if kind == "pos" {
			in.total = sum
			switch rng.Intn(3) {
			case 0:
				in.total = sum + uint64(rng.Intn(1000)) // queued/exiting weight still counted by the contract
			}
			if !in.big && sum > 200000 {
				in.big = true
			}
		}
		in.label = fmt.Sprintf("large-%d-%s-n%d-a%d-w%d", c, kind, n, apat, wpat)

		// who is scheduled: an active one, an inactive one, first, last, random, and somebody not listed
		mes := []int{1, n, 1 + rng.Intn(n), n + 1}
		for i, p := range in.list {
			if p.act {
				mes = append(mes, i+1)
				break
			}
		}
		for i := n - 1; i >= 0; i-- {
			if !in.list[i].act {
				mes = append(mes, i+1)
				break
			}
		}
		seenMe := map[int]bool{}
		pl := plan{}
		for _, m := range mes {
			if !seenMe[m] {
				seenMe[m] = true
				pl.mes = append(pl.mes, m)
			}
		}
		N := uint64(n)
		far := uint64(1000000 + rng.Intn(9000000)) // slots
		at := func(k uint64) uint64 { return pt + k*T }
		nows := []uint64{0, pt, pt + 1, at(1) - 1, at(1), at(1) + 1, at(2), at(N) - 1, at(N), at(N) + 1, at(N + 1), at(2*N+1) + 1,
			at(uint64(rng.Intn(3*n + 1))), at(uint64(rng.Intn(3*n+1))) + uint64(rng.Intn(int(T))), at(far) + 3}
		if pt >= 5 {
			nows = append(nows, pt-5)
		}
		if kind == "v1" {
			nows = append(nows, at(101), at(150), at(250)) // own slots with more than 101 missed slots before them
		}
		pl.nows = uniq(nows)
		itts := []uint64{0, pt, pt + 1, at(1) - 1, at(1) + 1, at(far), at(far) + 1, at(far + N), at(far + 7)}
		if pt >= T {
			itts = append(itts, pt-T)
		}
		for k := uint64(1); k <= N+2; k++ {
			itts = append(itts, at(k))
		}
		for i := 0; i < 6; i++ {
			itts = append(itts, at(uint64(rng.Intn(2*n+2)))+uint64(rng.Intn(int(T))))
		}
		pl.itts = uniq(itts)
		upds := []uint64{at(1), at(2), at(3), at(N/2 + 1), at(N), at(N + 1), at(N + 5), at(2*N + 3), at(uint64(1 + rng.Intn(2*n+2))), at(far)}
		if kind == "v1" {
			upds = append(upds, at(100), at(101), at(102), at(103), at(250))
		}
		pl.upds = uniq(upds)
		pl.slotTs = uniq([]uint64{pt, at(1), at(1) + 1, at(2), at(N), at(N + 1), at(uint64(1 + rng.Intn(3*n+1))), at(far), at(far + 1)})
		if T > 1 {
			pl.slotTs = append(pl.slotTs, at(3)+T-1)
		}
		rc.record(in, pl, true)

		// the same list far beyond 32-bit numbers: parent time 2^40.., query times up to 2^62, weights up to 2^40
		if c%2 == 0 {
			hg := *in
			hg.label = "huge-" + in.label
			hg.pt = 1<<40 + uint64(rng.Int63n(1<<40))
			hg.list = append([]prop(nil), in.list...)
			if kind == "pos" {
				var s uint64
				for i := range hg.list {
					switch rng.Intn(4) {
					case 0:
						hg.list[i].w = 1
					case 1:
						hg.list[i].w = 1 << 40
					case 2:
						hg.list[i].w = 0
					default:
						hg.list[i].w = uint64(rng.Int63n(1 << 40))
					}
					s += hg.list[i].w
				}
				hg.total = s + uint64(rng.Intn(2))*uint64(rng.Int63n(1<<40))
				hg.big = true
			}
			hat := func(k uint64) uint64 { return hg.pt + k*T }
			farK := uint64(1)<<50 + uint64(rng.Int63n(1<<50))
			hp := plan{mes: pl.mes}
			hp.nows = uniq([]uint64{0, hg.pt, hat(1) - 1, hat(1) + 1, hat(N), hat(N) + 1, hat(farK) - 1, hat(farK), hat(farK) + 1, 1 << 62})
			hp.itts = uniq([]uint64{hg.pt, hat(1), hat(2), hat(N), hat(N + 1), hat(farK), hat(farK + 1), hat(farK) + 1, hat(farK + N)})
			hp.upds = uniq([]uint64{hat(1), hat(2), hat(N), hat(N + 1), hat(farK)})
			hp.slotTs = uniq([]uint64{hat(1), hat(N + 1), hat(farK), hat(farK) + 1})
			rc.record(&hg, hp, false)
		}
	}
}

// ---------------------------------------------------------------------------------------------- main

func parseWvs(s string) [][]uint64 {
	out := [][]uint64{}
	for _, part := range strings.Split(s, ";") {
		if part == "" {
			continue
		}
		var v []uint64
		for _, x := range strings.Split(part, ",") {
			var u uint64
			fmt.Sscan(x, &u)
			v = append(v, u)
		}
		out = append(out, v)
	}
	return out
}

func main() {
	out := flag.String("out", "", "output directory")
	seed := flag.Int64("seed", 1, "seed")
	mode := flag.String("mode", "exh", "exh | large | seed")
	runs := flag.Int("runs", 6, "seed: number of repositories")
	si := flag.Uint("si", 4, "seed: thor.SeederInterval")
	maxn := flag.Int("maxn", 4, "exh: maximal list size")
	T := flag.Uint64("T", 2, "exh: block interval")
	v1pn := flag.Int("v1pn", 12, "exh: parent numbers per list size for PoA v1")
	wvs := flag.String("wvs", "1,1,1,1,1,1;3,0,5,0,7,2", "exh: PoS weight vectors")
	cases := flag.Int("cases", 60, "large: number of cases")
	flag.Parse()
	if *out == "" {
		die("need -out")
	}
	if err := os.MkdirAll(*out, 0o755); err != nil {
		die("%v", err)
	}
	rc := &recorder{nontrivial: map[string]bool{}, sizes: map[int]int{}, kinds: map[string]int{}, mm: []mismatch{}, panics: []mismatch{}}
	var est []exhStat
	if *mode == "seed" {
		st := seedMode(&rc.w, *seed, *runs, uint32(*si))
		if err := rc.w.WriteFile(filepath.Join(*out, "trace.ndjson")); err != nil {
			die("%v", err)
		}
		b, _ := json.MarshalIndent(st, "", " ")
		if err := os.WriteFile(filepath.Join(*out, "summary.json"), b, 0o644); err != nil {
			die("%v", err)
		}
		fmt.Printf("{\"runs\":%d,\"events\":%d,\"errors\":%d}\n", st.Runs, len(rc.w.Events), len(st.Errors))
		return
	}
	switch *mode {
	case "exh":
		est = rc.exhaustive(*seed, *maxn, *T, *v1pn, parseWvs(*wvs))
	case "large":
		rc.large(*seed, *cases)
	default:
		die("unknown mode %s", *mode)
	}
	rc.w.Emit(trace.Ev{"e": "End"})
	if err := rc.w.WriteFile(filepath.Join(*out, "trace.ndjson")); err != nil {
		die("%v", err)
	}
	sizes := []int{}
	for n := range rc.sizes {
		sizes = append(sizes, n)
	}
	sort.Ints(sizes)
	sum := map[string]any{
		"mode": *mode, "seed": *seed, "instances": rc.nInst, "me_events": rc.nMe, "slot_events": rc.nSlot,
		"queries": rc.nQueries, "native_checks": rc.nNative, "native_checks_beyond_tlc": rc.nNativeBig,
		"native_mismatches": rc.mm, "panics": rc.panics, "distinct_nontrivial": len(rc.nontrivial),
		"list_sizes": sizes, "max_n": rc.maxN, "kinds": rc.kinds, "refused_unlisted": rc.refused,
		"inactive_me": rc.inactiveMe, "all_inactive_lists": rc.allInact, "events": len(rc.w.Events), "exh": est,
	}
	b, _ := json.MarshalIndent(sum, "", " ")
	if err := os.WriteFile(filepath.Join(*out, "summary.json"), b, 0o644); err != nil {
		die("%v", err)
	}
	fmt.Printf("{\"instances\":%d,\"events\":%d,\"native_mismatches\":%d,\"panics\":%d}\n", rc.nInst, len(rc.w.Events), len(rc.mm), len(rc.panics))
}
