package main

// mode seed: the real scheduler.Seeder over real chain.Repository trees (C05, scheduler/seed.go).
// Several branches fork below / at / above seed blocks, the best block switches between branches, Generate is asked
// for every known block as parent on long-lived (cached) and fresh Seeder instances in shuffled order.
// The trace (Trace_Seeder.tla) carries the tree and the betas as facts and every answer of Generate.

import (
	"crypto/ecdsa"
	"fmt"
	mrand "math/rand"

	"github.com/ethereum/go-ethereum/crypto"

	"github.com/vechain/thor/v2/block"
	"github.com/vechain/thor/v2/chain"
	"github.com/vechain/thor/v2/genesis"
	"github.com/vechain/thor/v2/muxdb"
	"github.com/vechain/thor/v2/scheduler"
	"github.com/vechain/thor/v2/state"
	"github.com/vechain/thor/v2/thor"
	"github.com/vechain/thor/v2/vrf"

	"verifharness/internal/trace"
)

type sblk struct {
	blk    *block.Block
	name   string
	parent *sblk
	num    uint32
	beta   string // interned, "none" without VRF
}

type seedStats struct {
	Runs            int            `json:"runs"`
	Blocks          int            `json:"blocks"`
	Gen             int            `json:"gen_queries"`
	OffBest         int            `json:"queries_with_seed_block_off_best_chain"`
	OffBestParents  int            `json:"distinct_parents_with_seed_block_off_best_chain"`
	WithSeed        int            `json:"queries_with_a_seed"`
	Forks           map[string]int `json:"forks"`
	BestSwitches    int            `json:"best_switches_between_branches"`
	NoVRFBlocks     int            `json:"blocks_without_vrf"`
	FreshSeeders    int            `json:"fresh_seeders"`
	Errors          []string       `json:"errors"`
	SI              uint32         `json:"seeder_interval"`
	DistinctAnswers int            `json:"distinct_seeds_answered"`
}

type seedRun struct {
	w     *trace.Writer
	st    *seedStats
	rng   *mrand.Rand
	repo  *chain.Repository
	keys  []*ecdsa.PrivateKey
	all   []*sblk
	byID  map[thor.Bytes32]*sblk
	betas *trace.Interner
	best  *sblk
	uniq  uint64
	run   int
	byHt  map[uint32]uint32
	offP  map[string]bool
	seeds map[string]bool
}

func (r *seedRun) betaName(b []byte) string {
	if len(b) == 0 {
		return "none"
	}
	return r.betas.Name(b)
}

func (r *seedRun) isAnc(a, b *sblk) bool {
	for b != nil && b.num > a.num {
		b = b.parent
	}
	return b == a
}

func (r *seedRun) ancAt(b *sblk, n uint32) *sblk {
	for b.num > n {
		b = b.parent
	}
	return b
}

func (r *seedRun) add(parent *sblk, withVRF bool, asBest bool) *sblk {
	key := r.keys[r.rng.Intn(len(r.keys))]
	r.uniq++
	bld := new(block.Builder).ParentID(parent.blk.Header().ID()).
		Timestamp(parent.blk.Header().Timestamp() + 10).TotalScore(r.uniq)
	var beta []byte
	var b *block.Block
	if withVRF {
		alpha, err := parent.blk.Header().Beta()
		if err != nil {
			die("parent beta: %v", err)
		}
		if len(alpha) == 0 {
			alpha = thor.Bytes32{}.Bytes()
		}
		b = bld.Alpha(alpha).Build()
		sig, err := crypto.Sign(b.Header().SigningHash().Bytes(), key)
		if err != nil {
			die("sign: %v", err)
		}
		var proof []byte
		beta, proof, err = vrf.Prove(key, alpha)
		if err != nil {
			die("vrf: %v", err)
		}
		cs, err := block.NewComplexSignature(sig, proof)
		if err != nil {
			die("complex sig: %v", err)
		}
		b = b.WithSignature(cs)
	} else {
		b = bld.Build()
		sig, err := crypto.Sign(b.Header().SigningHash().Bytes(), key)
		if err != nil {
			die("sign: %v", err)
		}
		b = b.WithSignature(sig)
		r.st.NoVRFBlocks++
	}
	num := parent.num + 1
	if err := r.repo.AddBlock(b, nil, r.byHt[num], asBest); err != nil {
		die("AddBlock: %v", err)
	}
	r.byHt[num]++
	nb := &sblk{blk: b, name: fmt.Sprintf("b%d", len(r.all)), parent: parent, num: num, beta: r.betaName(beta)}
	r.all = append(r.all, nb)
	r.byID[b.Header().ID()] = nb
	r.st.Blocks++
	r.w.Emit(trace.Ev{"e": "Blk", "b": nb.name, "p": parent.name, "num": num, "beta": nb.beta})
	if asBest {
		if !r.isAnc(r.best, nb) {
			r.st.BestSwitches++
		}
		r.best = nb
		if r.repo.BestBlockSummary().Header.ID() != b.Header().ID() {
			die("best block is not the one added as best")
		}
		r.w.Emit(trace.Ev{"e": "Best", "b": nb.name})
	}
	return nb
}

func (r *seedRun) query(name string, s *scheduler.Seeder) {
	perm := r.rng.Perm(len(r.all))
	si := thor.SeederInterval()
	for _, i := range perm {
		p := r.all[i]
		var got string
		func() {
			defer func() {
				if x := recover(); x != nil {
					got = fmt.Sprint("panic: ", x)
				}
			}()
			seed, err := s.Generate(p.blk.Header().ID())
			if err != nil {
				got = "error: " + err.Error()
				return
			}
			got = r.betaName(seed)
		}()
		if len(got) > 5 && (got[:5] == "error" || got[:5] == "panic") && len(r.st.Errors) < 10 {
			r.st.Errors = append(r.st.Errors, fmt.Sprintf("run %d parent %s: %s", r.run, p.name, got))
		}
		r.st.Gen++
		r.seeds[got] = true
		if e := (p.num + 1) / si; e > 1 {
			r.st.WithSeed++
			sb := r.ancAt(p, (e-1)*si)
			if !r.isAnc(sb, r.best) {
				r.st.OffBest++
				r.offP[fmt.Sprintf("%d/%s", r.run, p.name)] = true
			}
		}
		r.w.Emit(trace.Ev{"e": "Gen", "s": name, "p": p.name, "got": got, "best": r.best.name})
	}
}

func (r *seedRun) newSeeder(name string) *scheduler.Seeder {
	r.w.Emit(trace.Ev{"e": "NewSeeder", "s": name})
	return scheduler.NewSeeder(r.repo)
}

func seedMode(w *trace.Writer, runSeed int64, runs int, si uint32) *seedStats {
	thor.SetConfig(thor.Config{SeederInterval: si})
	if thor.SeederInterval() != si {
		die("cannot set seeder interval")
	}
	st := &seedStats{Forks: map[string]int{}, SI: si, Errors: []string{}}
	offP := map[string]bool{}
	seeds := map[string]bool{}
	for run := 0; run < runs; run++ {
		rng := mrand.New(mrand.NewSource(runSeed*1000003 + int64(run)))
		db := muxdb.NewMem()
		g, _ := genesis.NewDevnet()
		b0, _, _, err := g.Build(state.NewStater(db))
		if err != nil {
			die("genesis build: %v", err)
		}
		repo, err := chain.NewRepository(db, b0)
		if err != nil {
			die("repo: %v", err)
		}
		r := &seedRun{w: w, st: st, rng: rng, repo: repo, byID: map[thor.Bytes32]*sblk{}, betas: trace.NewInterner(fmt.Sprintf("s%d_", run)),
			run: run, byHt: map[uint32]uint32{}, offP: offP, seeds: seeds}
		for i := 0; i < 4; i++ {
			h := b2([]byte("c05-key"), be64(uint64(runSeed)), be64(uint64(run)), be64(uint64(i)))
			k, err := crypto.ToECDSA(h[:])
			if err != nil {
				die("key: %v", err)
			}
			r.keys = append(r.keys, k)
		}
		gen := &sblk{blk: b0, name: "b0", num: 0, beta: "none"}
		r.all = append(r.all, gen)
		r.best = gen
		w.Emit(trace.Ev{"e": "Reset", "si": si, "run": run, "seed": runSeed})
		st.Runs++
		long := r.newSeeder("L")
		vrfOn := func() bool { return rng.Intn(12) != 0 } // now and then a block without VRF proof (beta = none)

		// trunk up to somewhere in the second epoch
		tip := gen
		trunkLen := int(si) + 1 + rng.Intn(int(si))
		for i := 0; i < trunkLen; i++ {
			tip = r.add(tip, vrfOn(), true)
		}
		tips := []*sblk{tip}
		r.query("L", long)
		total := int(si)*7 + rng.Intn(int(si)*3)
		forkKinds := []string{"below", "at", "above"}
		for n := 0; n < total; n++ {
			// a new branch: fork below / at / above a seed block of an existing branch
			if len(tips) < 3 && (n == 1 || n == int(si)+2 || rng.Intn(int(si)*2) == 0) {
				from := tips[rng.Intn(len(tips))]
				kind := forkKinds[(run+len(tips)+n)%3]
				maxK := from.num / si
				if maxK >= 1 {
					k := 1 + uint32(rng.Intn(int(maxK)))
					var h uint32
					switch kind {
					case "below":
						h = k*si - 1 - uint32(rng.Intn(2))
					case "at":
						h = k * si
					default:
						h = k*si + 1 + uint32(rng.Intn(int(si)-1))
					}
					if h < from.num {
						fp := r.ancAt(from, h)
						st.Forks[kind]++
						tips = append(tips, r.add(fp, true, rng.Intn(2) == 0))
					}
				}
			}
			i := rng.Intn(len(tips))
			tips[i] = r.add(tips[i], vrfOn(), rng.Intn(2) == 0)
			if n%int(si) == int(si)-1 || n == total-1 {
				r.query("L", long)
				st.FreshSeeders++
				r.query("F", r.newSeeder("F"))
			}
		}
		// make every branch the best one once more, oldest first, asking the long-lived seeder each time
		for i := range tips {
			tips[i] = r.add(tips[i], true, true)
			r.query("L", long)
		}
	}
	st.OffBestParents = len(offP)
	st.DistinctAnswers = len(seeds)
	return st
}
