// crashcuts enumerates crash points of block import on the REAL node (C13).
//
// For one seeded block stream (forks, store points, transactions with logs) it first runs an uninterrupted
// reference node, then for every cut k (the process dies between durable write k-1 and write k) a fresh node that
// crashes there, is restarted over the same store and log db (thor's start-up order incl. syncLogDB), checked for a
// complete best block with real reads, and resumed on the same stream. Every run is logged as events for
// Trace_ImportCrash.tla; the driver's own comparison with the reference is written to cuts.json.
//
//	crashcuts -out <dir> -seed S [-blocks N] [-maxcuts M] [-double]
package main

import (
	"context"
	"encoding/json"
	"flag"
	"fmt"
	"math/big"
	"math/rand"
	"os"
	"path/filepath"
	"sort"

	"github.com/vechain/thor/v2/block"
	"github.com/vechain/thor/v2/builtin"
	"github.com/vechain/thor/v2/chain"
	"github.com/vechain/thor/v2/logdb"
	"github.com/vechain/thor/v2/thor"
	"github.com/vechain/thor/v2/tx"

	"verifharness/internal/kvrec"
	"verifharness/internal/nodecheck"
	"verifharness/internal/sim"
	"verifharness/internal/synclogdb"
	"verifharness/internal/trace"
)

func must(err error) {
	if err != nil {
		panic(err)
	}
}

type pathT = [][]any // [[signer, com], ...]

type world struct {
	net     *sim.Net
	stream  []*block.Block
	path    map[thor.Bytes32]pathT
	nState  map[thor.Bytes32]int // number of state writes of the block's import (from the reference run)
	rng     *rand.Rand
	txWhere map[thor.Bytes32][]thor.Bytes32 // tx id -> blocks of the stream containing it
	own     map[thor.Bytes32]bool           // blocks the node under test PRODUCES itself (real doPack) instead of receiving
	ownAt   map[int]bool                    // reference run: produce a block after delivering stream position i
}

func (w *world) p(id thor.Bytes32) pathT {
	if p, ok := w.path[id]; ok {
		return p
	}
	// a block that is not part of the stream (e.g. an own block that differs from the uninterrupted node's): the
	// trace specification rejects the event that names it
	return pathT{{"unknown", false}}
}

func devnull() func() {
	// thor's syncLogDB prints a progress bar to stdout
	old := os.Stdout
	f, _ := os.Open(os.DevNull)
	nf, _ := os.OpenFile(os.DevNull, os.O_WRONLY, 0)
	os.Stdout = nf
	return func() { os.Stdout = old; f.Close(); nf.Close() }
}

func syncLogs(repo *chain.Repository, ldb *logdb.LogDB) error {
	restore := devnull()
	defer restore()
	return synclogdb.Sync(context.Background(), repo, ldb, false)
}

// buildStream mints the block tree on the omniscient stack and fixes the delivery order.
// wedge: a linear stream whose first epochs are justified but NOT committed (finality stays at genesis), committed
// epochs only at the end - the shape in which F2's missing quality makes findCheckpointByQuality fail.
var wedge = false

// sideways: a scripted tree in which a STALE side head is a committed store point that conflicts with the finalized
// checkpoint (validators 1..3 vote COM in the same round of two branches - more than a third equivocate):
//   prefix 1..5 (epoch 1 justified), B = 6..11 (epoch 2 unjustified: two signers, epoch 3 committed: finalizes block 3),
//   A = 6'..11' from block 5 (epochs 2 and 3 committed: finalizes 6'), then the trunk continues on A.
// After that every restart finds B's head among the branch heads: a start-up repair that commits it again moves the
// finalized checkpoint from 6' to B's block 6. Only cuts after A took over are run.
var sideways = false
var sidewaysFrom = 0 // stream position of A's last scripted block

func buildStream(seed int64, blocks int) *world {
	rng := rand.New(rand.NewSource(seed))
	E := uint32(3)
	net := sim.NewNet(sim.Options{Validators: 4, Nodes: 1, EpochLength: E, PoS: rng.Intn(3) == 0, ExtraAccts: 3, RealRun: true})
	w := &world{net: net, path: map[thor.Bytes32]pathT{}, nState: map[thor.Bytes32]int{}, rng: rng, txWhere: map[thor.Bytes32][]thor.Bytes32{},
		own: map[thor.Bytes32]bool{}, ownAt: map[int]bool{}}
	g := net.B0.Header().ID()
	w.path[g] = pathT{}
	used := map[string]bool{}
	tag := net.God.Repo.ChainTag()
	nonce := uint64(seed) << 20
	mkTx := func(parent *block.Block) *tx.Transaction {
		nonce++
		from := 4 + rng.Intn(3) // funded extra accounts
		to := net.Devs[4+rng.Intn(3)].Address
		var cl *tx.Clause
		if rng.Intn(2) == 0 {
			cl = tx.NewClause(&to).WithValue(big.NewInt(int64(1 + rng.Intn(1000))))
		} else { // VTHO transfer through the energy contract: event + storage-free energy change
			m, _ := builtin.Energy.ABI.MethodByName("transfer")
			data, err := m.EncodeInput(to, big.NewInt(int64(1+rng.Intn(1000))))
			must(err)
			cl = tx.NewClause(&builtin.Energy.Address).WithData(data)
		}
		t := tx.NewBuilder(tx.TypeLegacy).ChainTag(tag).BlockRef(tx.NewBlockRef(parent.Header().Number())).Expiration(1000).
			Gas(100000).GasPriceCoef(0).Nonce(nonce).Clause(cl).Build()
		return tx.MustSign(t, net.Devs[from].PrivateKey)
	}
	// a transaction with ~150 KB of call data: the block bulk of its block exceeds the kv engine's ideal batch size
	bigTx := func(parent *block.Block) *tx.Transaction {
		nonce++
		to := net.Devs[5].Address
		cl := tx.NewClause(&to).WithData(make([]byte, 150*1024))
		t := tx.NewBuilder(tx.TypeLegacy).ChainTag(tag).BlockRef(tx.NewBlockRef(parent.Header().Number())).Expiration(1000).
			Gas(2_000_000).GasPriceCoef(0).Nonce(nonce).Clause(cl).Build()
		return tx.MustSign(t, net.Devs[4].PrivateKey)
	}
	bigAt := uint32(3 + rng.Intn(6))
	mint := func(parent *block.Block, who int, com bool, withTx bool) *block.Block {
		pp := w.p(parent.Header().ID())
		key := fmt.Sprint(pp, who, com)
		if used[key] {
			return nil
		}
		var txs []*tx.Transaction
		if withTx {
			txs = append(txs, mkTx(parent))
			if rng.Intn(2) == 0 {
				txs = append(txs, mkTx(parent))
			}
		}
		if parent.Header().Number()+1 == bigAt {
			txs = append(txs, bigTx(parent))
		}
		blk, err := net.Mint(parent.Header().ID(), who, com, 0, txs...)
		if err != nil {
			panic(err)
		}
		used[key] = true
		np := append(append(pathT{}, pp...), []any{fmt.Sprintf("v%d", who), com})
		w.path[blk.Header().ID()] = np
		for _, t := range blk.Transactions() {
			w.txWhere[t.ID()] = append(w.txWhere[t.ID()], blk.Header().ID())
		}
		return blk
	}
	trunk := []*block.Block{net.B0}
	if sideways {
		ext := func(parent *block.Block, signers []int, com bool) []*block.Block {
			var out []*block.Block
			for _, who := range signers {
				nb := mint(parent, who, com, rng.Intn(3) == 0)
				if nb == nil {
					panic("sideways: name clash")
				}
				out = append(out, nb)
				parent = nb
			}
			return out
		}
		prefix := ext(net.B0, []int{1, 2, 3, 1, 2}, false)
		fork := prefix[len(prefix)-1]
		b := ext(fork, []int{1, 2, 1}, false)
		b = append(b, ext(b[len(b)-1], []int{1, 2, 3}, true)...)
		a := ext(fork, []int{2, 3, 1, 2, 3, 1}, true)
		w.stream = append(append(append(w.stream, prefix...), b...), a...)
		sidewaysFrom = len(w.stream) - 1
		trunk = append(append(trunk, prefix...), a...)
		blocks = len(trunk) + 2 + rng.Intn(3)
	}
	var pendingSide []*block.Block // side blocks delivered late
	deepLeft := 2                  // deep reorganisations per stream
	for len(trunk) <= blocks {
		parent := trunk[len(trunk)-1]
		num := parent.Header().Number() + 1
		// validators 1..3 sign the received blocks (> 2/3 of 4); validator 0 is the node under test: every block with
		// its signature is one it packed itself, so that its in-memory casts are what a real node's would be
		who := 1 + int(num)%3
		if rng.Intn(6) == 0 {
			who = 1 + rng.Intn(3)
		}
		com := num >= 2*E && rng.Intn(8) != 0
		if wedge {
			who = 1 + int(num)%3
			com = num >= 6*E
		}
		if sideways {
			who, com = 1+int(num)%3, true
		}
		blk := mint(parent, who, com, rng.Intn(2) == 0)
		if blk == nil {
			continue
		}
		trunk = append(trunk, blk)
		w.stream = append(w.stream, blk)
		// forks: a sibling of the new block (same parent, another signer), sometimes extended, delivered now or late
		if !wedge && !sideways && rng.Intn(4) == 0 {
			sw := 1 + (who+rng.Intn(2))%3 // another one of 1..3
			if s := mint(parent, sw, rng.Intn(2) == 0, rng.Intn(2) == 0); s != nil {
				side := []*block.Block{s}
				if rng.Intn(2) == 0 {
					if s2 := mint(s, 1+sw%3, rng.Intn(2) == 0, false); s2 != nil {
						side = append(side, s2)
					}
				}
				if rng.Intn(2) == 0 {
					w.stream = append(w.stream, side...)
				} else {
					pendingSide = append(pendingSide, side...)
				}
			}
		}
		if len(pendingSide) > 0 && rng.Intn(3) == 0 {
			w.stream = append(w.stream, pendingSide...)
			pendingSide = nil
		}
		// a deep reorganisation: a branch leaving the trunk 2..4 blocks back, with transactions (logs) at every height,
		// grows two blocks past the trunk's head and takes over - the log db has to truncate and rewrite several blocks
		if !wedge && !sideways && deepLeft > 0 && len(trunk) > 6 && rng.Intn(5) == 0 {
			back := 2 + rng.Intn(3)
			forkAt := len(trunk) - 1 - back
			cur := trunk[forkAt]
			var side []*block.Block
			ok := true
			for k := 0; k < back+2 && ok; k++ {
				n := cur.Header().Number() + 1
				var nb *block.Block
				for try := 0; try < 3 && nb == nil; try++ {
					nb = mint(cur, 1+(int(n)+1+try)%3, n >= 2*E, true)
				}
				if nb == nil {
					ok = false
					break
				}
				side = append(side, nb)
				cur = nb
			}
			if ok {
				deepLeft--
				w.stream = append(w.stream, side...)
				trunk = append(append([]*block.Block{}, trunk[:forkAt+1]...), side...)
			}
		}
	}
	w.stream = append(w.stream, pendingSide...)
	// positions after which the node under test produces a block of its own on its best block (decided here, produced
	// for the first time by the reference run, which inserts the block into the stream)
	for i := 2; i < len(w.stream); i++ {
		if !wedge && !sideways && rng.Intn(6) == 0 {
			w.ownAt[i] = true
		}
	}
	return w
}

type runner struct {
	w            *world
	evs          []trace.Ev
	node         *sim.Node
	kv           *kvrec.Engine
	ldb          *logdb.LogDB
	cur          *block.Block
	nSt          int
	base         int // number of writes before the stream (genesis)
	recordCounts bool
	pos          int      // index into the stream of the block being delivered
	crashPhases  []string // class of the write each crash prevented
	lastCrashPos int
	producing    bool   // reference run: the node is producing a block whose id is not known yet
	ownDiff      string // a re-produced own block differs from the one the uninterrupted node produced
}

func (r *runner) onWrite(idx int, b *kvrec.Batch) {
	if r.cur == nil {
		if r.producing && kvrec.WriteClass(b) == "state" {
			r.nSt++
		}
		return
	}
	cls := kvrec.WriteClass(b)
	ev := trace.Ev{"e": "W", "b": r.w.p(r.cur.Header().ID()), "cls": cls}
	if cls == "state" {
		r.nSt++
		if r.recordCounts {
			r.w.nState[r.cur.Header().ID()] = r.nSt
		}
		ev["last"] = false // set afterwards, see deliver
	}
	r.evs = append(r.evs, ev)
}

func (r *runner) open(first bool) error {
	var sync func(*chain.Repository, *logdb.LogDB) error
	if !first {
		sync = syncLogs
	}
	r.kv.OnWrite = nil
	nd, err := r.w.net.OpenStack(0, r.kv, r.ldb, sync)
	if err != nil {
		return err
	}
	r.node = nd
	r.kv.OnWrite = r.onWrite
	return nil
}

// deliver one block; returns false if the process "crashed".
func (r *runner) deliver(blk *block.Block) (alive bool) {
	r.cur, r.nSt = blk, 0
	b := r.w.p(blk.Header().ID())
	r.evs = append(r.evs, trace.Ev{"e": "Begin", "b": b, "own": r.w.own[blk.Header().ID()]})
	beginIdx := len(r.evs) - 1
	defer func() {
		r.cur = nil
		prevented := "" // class of the write a crash prevented
		x := recover()
		if x != nil {
			cs, ok := x.(kvrec.CrashSentinel)
			if !ok {
				panic(x)
			}
			alive = false
			prevented = cs.Class
			r.crashPhases = append(r.crashPhases, cs.Class)
			r.lastCrashPos = r.pos
		}
		// the state of the block is complete with its last state write: the one followed by a write of another class,
		// performed or prevented (not taken from the reference run: a node whose finality lags after a crash may
		// import a block the uninterrupted node refused)
		lastState, follows := -1, false
		for i := beginIdx; i < len(r.evs); i++ {
			if r.evs[i]["e"] != "W" {
				continue
			}
			if r.evs[i]["cls"] == "state" {
				if !follows {
					lastState = i
				}
			} else {
				follows = true
			}
		}
		if lastState >= 0 && (follows || (prevented != "" && prevented != "state")) {
			r.evs[lastState]["last"] = true
		}
	}()
	var class string
	var err error
	if r.w.own[blk.Header().ID()] {
		class, err = r.produce(blk)
	} else {
		class, err = r.node.Deliver(blk)
	}
	switch class {
	case "ok":
		r.evs = append(r.evs, trace.Ev{"e": "Done", "b": b, "best": r.w.p(r.node.Repo.BestBlockSummary().Header.ID()),
			"fin": r.w.p(r.node.BFT.Finalized())})
	case "known", "parent-missing", "unprocessable", "bft-rejected":
		r.evs[beginIdx] = trace.Ev{"e": "Skip", "b": b, "why": class}
	case "own-differs":
		// the node signed a block that is not part of the stream: the specification cannot follow this run any further
		r.evs = append(r.evs, trace.Ev{"e": "OwnDiffers", "b": b})
	default:
		r.evs = append(r.evs, trace.Ev{"e": "Fail", "b": b, "err": fmt.Sprint(err)})
	}
	return true
}

// produce: the node under test packs the block itself through the real doPack (ShouldVote, Pack, commitBlock,
// broadcast) on the parent and in the slot of the block the uninterrupted node produced at this point of the stream.
func (r *runner) produce(blk *block.Block) (string, error) {
	id := blk.Header().ID()
	if _, err := r.node.Repo.GetBlockSummary(id); err == nil {
		return "known", nil // produced and stored before the crash
	}
	parent, err := r.node.Repo.GetBlockSummary(blk.Header().ParentID())
	if err != nil {
		return "parent-missing", nil
	}
	nb, err := r.node.ProposeOn(parent, blk.Header().Timestamp())
	if err != nil {
		return "error", err
	}
	if nb.Header().ID() != id {
		r.ownDiff = fmt.Sprintf("block %d produced after the restart differs from the uninterrupted node's (com %v vs %v, time %d vs %d)",
			blk.Header().Number(), nb.Header().COM(), blk.Header().COM(), nb.Header().Timestamp(), blk.Header().Timestamp())
		return "own-differs", nil
	}
	return "ok", nil
}

func (r *runner) logsHead() pathT {
	id, err := r.ldb.NewestBlockID()
	if err != nil {
		return r.w.p(r.w.net.B0.Header().ID())
	}
	if p, ok := r.w.path[id]; ok {
		return p
	}
	return pathT{{"unknown", false}}
}

func (r *runner) quals() [][]any {
	out := [][]any{}
	for _, blk := range r.w.stream {
		if q, ok := r.node.BFT.VerifStoredQuality(blk.Header().ID()); ok {
			out = append(out, []any{r.w.p(blk.Header().ID()), q})
		}
	}
	return out
}

type cutResult struct {
	K          int      `json:"k"`
	Phase      string   `json:"phase"`    // class of the write that was not applied (state|idx|blk|q|fin|none)
	Inflight   int      `json:"inflight"` // height of the block in flight (-1 none)
	Second     int      `json:"second_cut,omitempty"`
	Phases     []string `json:"crash_phases,omitempty"` // class of the write prevented by each crash of this run
	RestartErr string   `json:"restart_error,omitempty"`
	Incomplete string   `json:"incomplete,omitempty"` // BestComplete failed with real reads
	LogsDiff   string   `json:"logs_diff,omitempty"`  // log db differs from the canonical chain after restart / at the end
	StateDiff  string   `json:"state_diff,omitempty"` // state of best differs from the uninterrupted node's state of that block
	FinContra  string   `json:"finality_contradiction,omitempty"`
	TxLookup   string   `json:"tx_lookup,omitempty"` // a tx is found by id although it is not on best's chain (or vice versa)
	Variant    string   `json:"variant,omitempty"`
	Broadcast  string   `json:"broadcast,omitempty"` // a block was broadcast before the crash but is not stored after the restart
	OwnDiff    string   `json:"own_diff,omitempty"`
	Diverged   string   `json:"diverged,omitempty"` // after resuming: best / qualities / finalized differ from the reference
	ImportErrs []string `json:"import_errors,omitempty"`
	Events     int      `json:"events"`
}

type reference struct {
	best, fin  thor.Bytes32
	quals      map[thor.Bytes32]uint32
	stateOf    map[thor.Bytes32]string // state digest per block
	writes     []kvrec.Batch
	writeBlock []int  // height of the block a write belongs to
	writePos   []int  // stream position of the block a write belongs to
	finAtPos   []bool // stream position -> its import wrote the finalized key on the reference node
	base       int    // number of durable writes of the first start (before the stream)
	n          int
	produced   int // blocks the reference node produced itself
}

func main() {
	out := flag.String("out", ".", "output dir")
	seed := flag.Int64("seed", 1, "seed")
	blocks := flag.Int("blocks", 14, "trunk length")
	maxcuts := flag.Int("maxcuts", 0, "0 = all cuts, else a seeded sample of that many")
	double := flag.Bool("double", false, "add a second crash during the resumed run for a sample of cuts")
	flag.BoolVar(&wedge, "wedge", false, "linear stream with late commits; only the q cuts are run (F2 wedge)")
	flag.BoolVar(&sideways, "sideways", false, "scripted tree with a stale committed side head that conflicts with the finalized checkpoint")
	flag.Parse()
	must(os.MkdirAll(*out, 0o755))
	// the recording engine stands in for thor's LevelEngine: check the contract that makes this sound on the REAL one
	engineContract := ""
	if err := kvrec.CheckRealBulkContract(*seed, 60); err != nil {
		engineContract = err.Error()
	}

	w := buildStream(*seed, *blocks)
	defer w.net.Close()

	// ---- reference: uninterrupted node
	ref := &reference{quals: map[thor.Bytes32]uint32{}, stateOf: map[thor.Bytes32]string{}}
	{
		ldb, err := logdb.NewMem()
		must(err)
		r := &runner{w: w, kv: kvrec.New(), ldb: ldb, recordCounts: true}
		must(r.open(true))
		r.base = r.kv.Len()
		account := func(pos int, blk *block.Block, before int) {
			for i := before; i < r.kv.Len(); i++ {
				ref.writePos = append(ref.writePos, pos)
			}
			fin := false
			for _, b := range r.kv.Log()[before:] {
				ref.writeBlock = append(ref.writeBlock, int(blk.Header().Number()))
				if kvrec.WriteClass(&b) == "fin" {
					fin = true
				}
			}
			ref.finAtPos = append(ref.finAtPos, fin)
		}
		for pos := 0; pos < len(w.stream); pos++ {
			blk := w.stream[pos]
			before := r.kv.Len()
			if !r.deliver(blk) {
				panic("reference crashed")
			}
			account(pos, blk, before)
			if !w.ownAt[pos] {
				continue
			}
			// blocks are named by their path of (signer, COM bit): the node's own block must not share a name with a
			// block of the pre-minted tree (a child of the same parent signed by v0)
			{
				bp := w.p(r.node.Repo.BestBlockSummary().Header.ID())
				clash := false
				for _, pth := range w.path {
					if len(pth) == len(bp)+1 && pth[len(bp)][0] == "v0" && fmt.Sprint(pth[:len(bp)]) == fmt.Sprint(bp) {
						clash = true
					}
				}
				if clash {
					continue
				}
			}
			// the node produces a block of its own on its best block; from now on that block is part of the stream
			before = r.kv.Len()
			r.producing, r.nSt = true, 0
			nb, err := r.node.Propose(0)
			r.producing = false
			if err != nil {
				fmt.Println("HARNESS-ERROR reference node cannot produce:", err)
				os.Exit(3)
			}
			must(w.net.GodLearn(nb))
			id := nb.Header().ID()
			w.path[id] = append(append(pathT{}, w.p(nb.Header().ParentID())...), []any{"v0", nb.Header().COM()})
			w.own[id] = true
			w.nState[id] = r.nSt
			w.stream = append(w.stream[:pos+1], append([]*block.Block{nb}, w.stream[pos+1:]...)...)
			// shift the remaining production points
			shifted := map[int]bool{}
			for k := range w.ownAt {
				if k > pos {
					shifted[k+1] = true
				} else {
					shifted[k] = true
				}
			}
			delete(shifted, pos)
			w.ownAt = shifted
			pos++
			account(pos, nb, before)
			ref.produced++
		}
		for _, e := range r.evs {
			if e["e"] == "Fail" {
				fmt.Println("HARNESS-ERROR reference run failed to import a block:", e["err"])
				os.Exit(3)
			}
		}
		ref.best = r.node.Repo.BestBlockSummary().Header.ID()
		ref.fin = r.node.BFT.Finalized()
		for _, blk := range w.stream {
			if q, ok := r.node.BFT.VerifStoredQuality(blk.Header().ID()); ok {
				ref.quals[blk.Header().ID()] = q
			}
			sum, err := r.node.Repo.GetBlockSummary(blk.Header().ID())
			if err == nil {
				d, _, _, err := nodecheck.StateDigest(r.node.DB, sum.Root())
				must(err)
				ref.stateOf[blk.Header().ID()] = d
			}
		}
		ref.base = r.base
		ref.writes = r.kv.Log()[r.base:]
		ref.n = len(ref.writes)
		if err := nodecheck.LogDBMatchesChain(r.node.Repo, ldb); err != nil {
			fmt.Println("HARNESS-NOTE reference log db differs from chain:", err)
		}
		r.node.Close()
	}

	// ---- configuration facts for the trace spec
	var all []trace.Ev
	{
		wts := map[string]any{"none": 0}
		for i := 0; i < 4; i++ {
			wts[fmt.Sprintf("v%d", i)] = 1
		}
		thr := 4 * 2 / 3
		// genesis stakers all hold the minimum stake: equal weights, so weight 1 / threshold total*2/3 in both modes
		var facts []any
		ids := [][]byte{}
		for _, blk := range w.stream {
			id := blk.Header().ID()
			ids = append(ids, id[:])
		}
		g := w.net.B0.Header().ID()
		ids = append(ids, g[:])
		sort.Slice(ids, func(i, j int) bool { return string(ids[i]) < string(ids[j]) })
		rank := map[string]int{}
		for i, id := range ids {
			rank[string(id)] = i
		}
		facts = append(facts, map[string]any{"b": pathT{}, "score": 0, "ord": rank[string(g[:])]})
		var stream []any
		for _, blk := range w.stream {
			id := blk.Header().ID()
			facts = append(facts, map[string]any{"b": w.p(id), "score": blk.Header().TotalScore(), "ord": rank[string(id[:])]})
			stream = append(stream, w.p(id))
		}
		all = append(all, trace.Ev{"e": "Config", "E": 3, "thrW": thr, "w": wts, "stream": stream, "facts": facts,
			"refBest": w.p(ref.best), "refFin": w.p(ref.fin), "pos": w.net.Opt.PoS})
	}

	// ---- cuts
	cuts := make([]int, 0, ref.n+1)
	for k := 0; k <= ref.n; k++ {
		cuts = append(cuts, k)
	}
	if sideways {
		var late []int
		for _, k := range cuts {
			if k == ref.n || ref.writePos[k] > sidewaysFrom {
				late = append(late, k)
			}
		}
		cuts = late
		ref.base = 0
		if block.Number(ref.fin) < 6 || !isAnc(w, ref.fin, ref.best) {
			fmt.Println("HARNESS-ERROR sideways tree: the uninterrupted node did not finalize on branch A:", block.Number(ref.fin))
			os.Exit(3)
		}
	}
	if *maxcuts > 0 && len(cuts) > *maxcuts {
		w.rng.Shuffle(len(cuts), func(i, j int) { cuts[i], cuts[j] = cuts[j], cuts[i] })
		cuts = cuts[:*maxcuts]
		sort.Ints(cuts)
	}
	if wedge {
		var qs []int
		for _, k := range cuts {
			if k < ref.n && kvrec.WriteClass(&ref.writes[k]) == "q" {
				qs = append(qs, k)
			}
		}
		cuts = qs
		ref.base = 0 // no first-start cuts in this mode
	}
	var results []cutResult
	for g := 0; g < ref.base; g++ {
		results = append(results, runGenesisCut(w, ref, g))
	}
	for _, k := range cuts {
		second := -1
		if *double && w.rng.Intn(3) == 0 {
			second = w.rng.Intn(ref.n + 1)
		}
		res, evs := runCut(w, ref, k, second, false)
		results = append(results, res)
		all = append(all, evs...)
		if k < ref.n && hasSibling(w, ref, k) {
			res, evs := runCut(w, ref, k, -1, true)
			results = append(results, res)
			all = append(all, evs...)
		}
	}
	must(trace.WriteNDJSON(filepath.Join(*out, "trace.ndjson"), all))
	f, err := os.Create(filepath.Join(*out, "cuts.json"))
	must(err)
	must(json.NewEncoder(f).Encode(map[string]any{"seed": *seed, "engine_contract": engineContract, "writes": ref.n, "blocks": len(w.stream), "pos": w.net.Opt.PoS,
		"refBest": block.Number(ref.best), "refFin": block.Number(ref.fin), "produced": ref.produced, "cuts": results}))
	f.Close()
	fmt.Printf("{\"cuts\":%d,\"writes\":%d,\"events\":%d,\"refFin\":%d}\n", len(results), ref.n, len(all), block.Number(ref.fin))
}

func runCut(w *world, ref *reference, k, second int, siblingFirst bool) (cutResult, []trace.Ev) {
	res := cutResult{K: k, Phase: "none", Inflight: -1, Second: second}
	if siblingFirst {
		res.Variant = "sibling-first"
	}
	if k < ref.n {
		res.Phase = kvrec.WriteClass(&ref.writes[k])
		res.Inflight = ref.writeBlock[k]
	}
	ldb, err := logdb.NewMem()
	must(err)
	r := &runner{w: w, kv: kvrec.New(), ldb: ldb}
	r.evs = append(r.evs, trace.Ev{"e": "Reset", "k": k, "phase": res.Phase, "second": second, "novalidate": siblingFirst})
	must(r.open(true))
	r.base = r.kv.Len()
	crashed := false
	armAt := r.base + k
	if k >= ref.n {
		armAt = -1
	}
	r.kv.CrashAt(armAt)
	pass := 0
	for {
		alive := true
		for pos, blk := range w.stream {
			r.pos = pos
			if !r.deliver(blk) {
				alive = false
				break
			}
		}
		if alive {
			break
		}
		// ---- the process died: restart over the same store and log db
		crashed = true
		pass++
		r.kv.CrashAt(-1)
		r.evs = append(r.evs, trace.Ev{"e": "Crash", "logs": r.logsHead()})
		broadcast := r.node.Comm.Out // what this life of the node told its peers
		r.node.Close()
		if err := r.open(false); err != nil {
			res.RestartErr = err.Error()
			r.evs = append(r.evs, trace.Ev{"e": "RestartFailed", "err": err.Error()})
			res.Events = len(r.evs)
			return res, r.evs
		}
		for _, b := range broadcast {
			if _, err := r.node.Repo.GetBlockSummary(b.Header().ID()); err != nil && res.Broadcast == "" {
				res.Broadcast = fmt.Sprintf("block %d was broadcast before the crash but is not stored after the restart (the node will sign another block for that slot)", b.Header().Number())
			}
		}
		complete := true
		digest, err := nodecheck.BestComplete(r.node.Repo, r.node.DB)
		best := r.node.Repo.BestBlockSummary().Header.ID()
		if err != nil {
			complete = false
			res.Incomplete = err.Error()
		} else if want, ok := ref.stateOf[best]; ok && want != digest {
			complete = false
			res.StateDiff = fmt.Sprintf("state of best block %d differs from the uninterrupted node's", block.Number(best))
		}
		logsOK := true
		if err := nodecheck.LogDBMatchesChain(r.node.Repo, r.ldb); err != nil {
			logsOK = false
			res.LogsDiff = "after restart: " + err.Error()
		}
		fin := r.node.BFT.Finalized()
		if _, ok := w.path[fin]; !ok {
			res.FinContra = "finalized is not a block of the stream"
		} else if !isAnc(w, fin, ref.fin) {
			res.FinContra = fmt.Sprintf("finalized %d after restart is not an ancestor of the uninterrupted node's %d", block.Number(fin), block.Number(ref.fin))
		}
		r.evs = append(r.evs, trace.Ev{"e": "Restart", "best": w.p(best), "fin": w.p(fin), "logs": r.logsHead(),
			"complete": complete, "logsok": logsOK})
		if err := nodecheck.TxLookupConsistent(r.node.Repo, w.txWhere); err != nil && res.TxLookup == "" {
			res.TxLookup = "after restart: " + err.Error()
		}
		if pass == 1 && second >= 0 {
			r.kv.CrashAt(r.kv.Len() + second) // a second crash while resuming (may never be reached)
		}
		if pass == 1 && siblingFirst && r.lastCrashPos < len(w.stream) {
			// the network moved on with a DIFFERENT block at that height: siblings of the block in flight arrive first
			inflight := w.stream[r.lastCrashPos]
			for _, sb := range w.stream {
				if sb.Header().ParentID() == inflight.Header().ParentID() && sb.Header().ID() != inflight.Header().ID() {
					func() {
						defer func() {
							if x := recover(); x != nil {
								if _, ok := x.(kvrec.CrashSentinel); !ok {
									panic(x)
								}
							}
						}()
						r.node.Deliver(sb)
					}()
					if err := nodecheck.LogDBMatchesChain(r.node.Repo, r.ldb); err != nil && res.LogsDiff == "" {
						res.LogsDiff = "after the sibling of the block in flight was imported: " + err.Error()
					}
					if err := nodecheck.TxLookupConsistent(r.node.Repo, w.txWhere); err != nil && res.TxLookup == "" {
						res.TxLookup = "after the sibling of the block in flight was imported: " + err.Error()
					}
				}
			}
		}
	}
	// ---- end of the (resumed) stream
	best := r.node.Repo.BestBlockSummary().Header.ID()
	fin := r.node.BFT.Finalized()
	endLogsOK := nodecheck.LogDBMatchesChain(r.node.Repo, r.ldb) == nil
	r.evs = append(r.evs, trace.Ev{"e": "End", "best": w.p(best), "fin": w.p(fin), "quals": r.quals(), "logsok": endLogsOK})
	for _, e := range r.evs {
		if e["e"] == "Fail" {
			res.ImportErrs = append(res.ImportErrs, fmt.Sprint(e["err"]))
		}
	}
	if crashed {
		var diffs []string
		if best != ref.best {
			diffs = append(diffs, fmt.Sprintf("best %d vs %d", block.Number(best), block.Number(ref.best)))
		}
		c := r.node.Repo.NewChain(best)
		for id, q := range ref.quals {
			if ok, _ := c.HasBlock(id); ok {
				// effective quality as the engine reads it: a missing entry counts as 0 (bft.getQuality)
				got, _ := r.node.BFT.VerifStoredQuality(id)
				if got != q {
					diffs = append(diffs, fmt.Sprintf("quality of store point %d: %d vs %d", block.Number(id), got, q))
				}
			}
		}
		if fin != ref.fin && !isAnc(w, fin, ref.fin) {
			diffs = append(diffs, fmt.Sprintf("finalized %d contradicts %d", block.Number(fin), block.Number(ref.fin)))
		}
		if fin != ref.fin && laterCommit(ref, r.lastCrashPos) {
			diffs = append(diffs, fmt.Sprintf("finalized %d vs %d although a further epoch committed", block.Number(fin), block.Number(ref.fin)))
		}
		if len(diffs) > 0 {
			sort.Strings(diffs)
			res.Diverged = fmt.Sprint(diffs)
		}
		if err := nodecheck.LogDBMatchesChain(r.node.Repo, r.ldb); err != nil && res.LogsDiff == "" {
			res.LogsDiff = "at the end: " + err.Error()
		}
		if _, err := nodecheck.BestComplete(r.node.Repo, r.node.DB); err != nil && res.Incomplete == "" {
			res.Incomplete = "at the end: " + err.Error()
		}
		if err := nodecheck.TxLookupConsistent(r.node.Repo, w.txWhere); err != nil && res.TxLookup == "" {
			res.TxLookup = "at the end: " + err.Error()
		}
	}
	r.node.Close()
	res.Events = len(r.evs)
	res.Phases = r.crashPhases
	if !siblingFirst {
		// in the sibling-first variant the restarted node has seen other blocks than the uninterrupted node had when
		// it packed: another vote is legitimate there
		res.OwnDiff = r.ownDiff
	}
	return res, r.evs
}

// runGenesisCut: the process dies before durable write g of its VERY FIRST start (genesis state, genesis block,
// repository initialisation). The next start must succeed and the node must then import the whole stream like the
// uninterrupted node.
func runGenesisCut(w *world, ref *reference, g int) cutResult {
	res := cutResult{K: -1 - g, Phase: "genesis", Inflight: -1, Variant: "first-start"}
	ldb, err := logdb.NewMem()
	must(err)
	r := &runner{w: w, kv: kvrec.New(), ldb: ldb}
	r.kv.CrashAt(g)
	crashed := func() (c bool) {
		defer func() {
			if x := recover(); x != nil {
				if _, ok := x.(kvrec.CrashSentinel); ok {
					c = true
					return
				}
				panic(x)
			}
		}()
		if err := r.open(true); err != nil {
			res.RestartErr = "first start: " + err.Error()
		}
		return false
	}()
	r.kv.CrashAt(-1)
	if crashed {
		if err := r.open(false); err != nil {
			res.RestartErr = err.Error()
			return res
		}
	}
	if res.RestartErr != "" {
		return res
	}
	if _, err := nodecheck.BestComplete(r.node.Repo, r.node.DB); err != nil {
		res.Incomplete = err.Error()
	}
	for pos, blk := range w.stream {
		r.pos = pos
		r.deliver(blk)
	}
	for _, e := range r.evs {
		if e["e"] == "Fail" {
			res.ImportErrs = append(res.ImportErrs, fmt.Sprint(e["err"]))
		}
	}
	if best := r.node.Repo.BestBlockSummary().Header.ID(); best != ref.best {
		res.Diverged = fmt.Sprintf("[best %d vs %d]", block.Number(best), block.Number(ref.best))
	} else if fin := r.node.BFT.Finalized(); fin != ref.fin {
		res.Diverged = fmt.Sprintf("[finalized %d vs %d]", block.Number(fin), block.Number(ref.fin))
	}
	if err := nodecheck.LogDBMatchesChain(r.node.Repo, r.ldb); err != nil {
		res.LogsDiff = "at the end: " + err.Error()
	}
	r.node.Close()
	res.Events = len(r.evs)
	return res
}

// hasSibling: does the block in flight at cut k have a sibling (same parent) in the stream?
func hasSibling(w *world, ref *reference, k int) bool {
	pos := ref.writePos[k]
	in := w.stream[pos]
	for _, sb := range w.stream {
		if sb.Header().ParentID() == in.Header().ParentID() && sb.Header().ID() != in.Header().ID() {
			return true
		}
	}
	return false
}

func isAnc(w *world, a, b thor.Bytes32) bool {
	pa, pb := w.p(a), w.p(b)
	if len(pa) > len(pb) {
		return false
	}
	for i := range pa {
		if pa[i][0] != pb[i][0] || pa[i][1] != pb[i][1] {
			return false
		}
	}
	return true
}

// laterCommit: did the reference node advance finality while importing a block that comes after stream position
// pos (the block in flight at the last crash)?  Then "one further epoch has committed" after the crash.
func laterCommit(ref *reference, pos int) bool {
	for p, fin := range ref.finAtPos {
		if p > pos && fin {
			return true
		}
	}
	return false
}
