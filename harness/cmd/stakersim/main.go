// stakersim drives the REAL staking contract logic (builtin/staker: staker.Staker over a real state.State, reached the
// way the node reaches it: builtin.Staker.Native(state), Staker.SyncPOS at the start of every block) through seeded
// histories of the public operations by many actors, maintaining the contract's VET balance and effectiveVET (slot 0)
// exactly as the Solidity wrapper builtin/gen/staker.sol does: credit before a payable native call, roll back the whole
// call on a revert, debit what a withdraw call returned.
//
// Every operation is logged as one ndjson event with its arguments, its result (ok / revert message / amount) and the
// cheap post-state read through the getters: global counters, every validation / aggregation / delegation record, a
// full walk of both linked lists, the leader group, the exit-block map, effectiveVET and the contract balance.  The trace
// is validated by specs/staker/Trace_Staker.tla.
//
// The driver is a deterministic function of its flags.  Exit 0 normally; exit 3 + HARNESS-ERROR for its own trouble.
// Errors and panics of the real code are observations: they are logged in the event (ok=false, msg "!error: ...").
package main

import (
	"encoding/json"
	"flag"
	"fmt"
	"math/big"
	"math/rand"
	"os"
	"path/filepath"
	"regexp"
	"sort"
	"strconv"
	"strings"

	"github.com/vechain/thor/v2/builtin"
	"github.com/vechain/thor/v2/builtin/solidity"
	"github.com/vechain/thor/v2/builtin/staker"
	"github.com/vechain/thor/v2/builtin/staker/aggregation"
	"github.com/vechain/thor/v2/builtin/staker/delegation"
	"github.com/vechain/thor/v2/builtin/staker/globalstats"
	"github.com/vechain/thor/v2/builtin/staker/validation"
	"github.com/vechain/thor/v2/muxdb"
	"github.com/vechain/thor/v2/state"
	"github.com/vechain/thor/v2/thor"
	"github.com/vechain/thor/v2/trie"

	"verifharness/internal/trace"
)

// ---------------------------------------------------------------------------------------------------------------------
// configuration presets (thor.SetConfig is process-global: one preset per process)

type preset struct {
	Name           string `json:"name"`
	E              uint32 `json:"E"`
	LowP           uint32 `json:"LowP"`
	MedP           uint32 `json:"MedP"`
	HighP          uint32 `json:"HighP"`
	Cooldown       uint32 `json:"Cooldown"`
	EvictThreshold uint32 `json:"EvictThreshold"`
	EvictInterval  uint32 `json:"EvictInterval"`
	TP             uint32 `json:"TP"`
	Hayabusa       uint32 `json:"Hayabusa"`
	Unit           uint64 `json:"unit"`   // VET per unit of the trace
	WScale         uint64 `json:"WScale"` // 1: weights logged in hundredths of a unit; 100: unit = 1 VET, real rounding
	MinStake       uint64 `json:"MinStake"`
	MaxStake       uint64 `json:"MaxStake"`
	ExitMaxTry     int    `json:"ExitMaxTry"`
	EvictMaxTry    int    `json:"EvictMaxTry"`
	DefaultMBP     uint64 `json:"DefaultMBP"`
	// shape of the random histories (0 / nil = default)
	NValMin, NValSpan int
	MBPs              []uint64
	// Cap, if > 0, scales thor.InitialMaxBlockProposers (a package variable, 101) down for this process, so that the
	// on-chain max-block-proposers parameter can lie ABOVE the cap with a handful of validators
	Cap uint64 `json:"cap"`
}

var presets = map[string]preset{
	"e2": {E: 2, LowP: 2, MedP: 4, HighP: 8, Cooldown: 2, EvictThreshold: 3, EvictInterval: 4, TP: 0, Hayabusa: 0, Unit: 1_000_000},
	"e3": {E: 3, LowP: 3, MedP: 6, HighP: 12, Cooldown: 3, EvictThreshold: 4, EvictInterval: 6, TP: 6, Hayabusa: 3, Unit: 1_000_000},
	"e4": {E: 4, LowP: 4, MedP: 8, HighP: 16, Cooldown: 8, EvictThreshold: 6, EvictInterval: 8, TP: 4, Hayabusa: 0, Unit: 25_000_000},
	// eviction checks every epoch, threshold of 6 epochs: the early checks run at heights BELOW the threshold while
	// validators are offline only briefly (an eviction there is premature; unsigned height arithmetic must not wrap)
	"ev":  {E: 2, LowP: 2, MedP: 4, HighP: 8, Cooldown: 2, EvictThreshold: 12, EvictInterval: 2, TP: 0, Hayabusa: 0, Unit: 1_000_000},
	"ev3": {E: 3, LowP: 3, MedP: 6, HighP: 12, Cooldown: 3, EvictThreshold: 20, EvictInterval: 3, TP: 3, Hayabusa: 0, Unit: 25_000_000},
	// the configuration of specs/staker/MCStakerExport.cfg: TLC-generated behaviours are replayed under it (-mode replay)
	"mc": {E: 2, LowP: 2, MedP: 4, HighP: 4, Cooldown: 2, EvictThreshold: 1, EvictInterval: 4, TP: 0, Hayabusa: 0, Unit: 25_000_000},
	// HAYABUSA and the transition period are NOT multiples of the epoch (transition blocks are the common multiples),
	// the shortest staking period is two epochs, the cooldown is not a whole number of epochs
	"mis": {E: 3, LowP: 6, MedP: 9, HighP: 15, Cooldown: 4, EvictThreshold: 5, EvictInterval: 6, TP: 4, Hayabusa: 2, Unit: 1_000_000},
	// leader groups of 8-16 members out of 18-26 candidates
	"big": {E: 2, LowP: 2, MedP: 4, HighP: 8, Cooldown: 2, EvictThreshold: 3, EvictInterval: 4, TP: 0, Hayabusa: 0, Unit: 25_000_000,
		NValMin: 18, NValSpan: 9, MBPs: []uint64{8, 12, 16, 10}},
	// max-block-proposers above thor.InitialMaxBlockProposers (scaled down to 4): the 2/3 queue of the PoA -> PoS transition
	// is 2/3 of the CONFIGURED value (9 -> 6 queued, 7 -> 5, 6 -> 4), not of the capped one (4 -> 3); the queue fills up
	// gradually over the first transition epochs.  (No evictions here: the cap is also the eviction maxTry.)
	"cap": {E: 2, LowP: 2, MedP: 4, HighP: 8, Cooldown: 2, EvictThreshold: 1000, EvictInterval: 4, TP: 0, Hayabusa: 0, Unit: 25_000_000,
		NValMin: 9, NValSpan: 5, MBPs: []uint64{9, 7, 6, 9}, Cap: 4},
	"fine": {E: 2, LowP: 2, MedP: 4, HighP: 6, Cooldown: 2, EvictThreshold: 2, EvictInterval: 2, TP: 0, Hayabusa: 0, Unit: 1},
}

func (p *preset) complete(name string) {
	p.Name = name
	if p.Cap > 0 {
		thor.InitialMaxBlockProposers = p.Cap
	}
	p.WScale = 1
	if p.Unit%100 != 0 {
		if p.Unit != 1 {
			fail("unit must be 1 or a multiple of 100")
		}
		p.WScale = 100
	}
	p.MinStake = staker.MinStakeVET / p.Unit
	p.MaxStake = staker.MaxStakeVET / p.Unit
	p.ExitMaxTry = 20
	p.EvictMaxTry = int(thor.InitialMaxBlockProposers)
	p.DefaultMBP = thor.InitialMaxBlockProposers
}

func fail(a ...any) {
	fmt.Println(append([]any{"HARNESS-ERROR"}, a...)...)
	os.Exit(3)
}

func must(err error) {
	if err != nil {
		fail(err)
	}
}

// ---------------------------------------------------------------------------------------------------------------------

const zeroName = "0x0"

type runStat struct {
	Hist         int            `json:"hist"`
	Seed         int64          `json:"seed"`
	Mode         string         `json:"mode"`
	Events       int            `json:"events"`
	Blocks       int            `json:"blocks"`
	Validations  int            `json:"validations"`
	Delegations  int            `json:"delegations"`
	Activations  int            `json:"activations"`
	Exits        int            `json:"exits"`
	Evictions    int            `json:"evictions"`
	Updates      int            `json:"housekeepingUpdates"`
	Withdrawals  int            `json:"nonzeroWithdrawals"`
	ZeroWithdraw int            `json:"zeroWithdrawals"`
	Reverts      int            `json:"reverts"`
	RevertKinds  map[string]int `json:"revertKinds"`
	Emptied      int            `json:"leaderGroupEmptied"`
	PosStarts    int            `json:"posStarts"`
	MaxActive    int            `json:"maxActive"`
	Errors       int            `json:"realCodeErrors"`
}

type world struct {
	p      preset
	rng    *rand.Rand
	db     *muxdb.MuxDB
	st     *state.State
	block  uint32
	fc     *thor.ForkConfig
	vals   []thor.Address
	ends   []thor.Address
	names  map[thor.Address]string       // validator ids
	enames map[thor.Address]string       // endorser / beneficiary accounts
	endOf  map[thor.Address]thor.Address // endorser used when the validation was added (driver's memory, for choosing)
	ndel   int
	evs    []trace.Ev
	stat   runStat
	// previous observation, for statistics
	prevStatus   map[thor.Address]uint8
	prevExitB    map[thor.Address]bool
	prevActive   int
	lastWasBlock bool
}

func addrOf(s string) thor.Address { return thor.BytesToAddress([]byte(s)) }

func newWorld(p preset, seed int64, nVal, nEnd int, mbp uint64, hist int, mode string) *world {
	w := &world{p: p, rng: rand.New(rand.NewSource(seed)), names: map[thor.Address]string{}, enames: map[thor.Address]string{}, endOf: map[thor.Address]thor.Address{},
		prevStatus: map[thor.Address]uint8{}, prevExitB: map[thor.Address]bool{}}
	w.db = muxdb.NewMem()
	w.st = state.New(w.db, trie.Root{})
	w.fc = &thor.ForkConfig{HAYABUSA: p.Hayabusa}
	w.block = p.Hayabusa
	w.names[thor.Address{}] = zeroName
	w.enames[thor.Address{}] = zeroName
	for i := 1; i <= nVal; i++ {
		a := addrOf(fmt.Sprintf("validator-%d-%d", seed, i))
		w.vals = append(w.vals, a)
		w.names[a] = fmt.Sprintf("v%d", i)
	}
	for i := 1; i <= nEnd; i++ {
		a := addrOf(fmt.Sprintf("endorser-%d-%d", seed, i))
		w.ends = append(w.ends, a)
		w.enames[a] = fmt.Sprintf("e%d", i)
	}
	// the contracts exist (code), as after genesis
	must(w.st.SetCode(builtin.Staker.Address, builtin.Staker.RuntimeBytecodes()))
	must(w.st.SetCode(builtin.Params.Address, builtin.Params.RuntimeBytecodes()))
	must(builtin.Params.Native(w.st).Set(thor.KeyMaxBlockProposers, new(big.Int).SetUint64(mbp)))
	w.stat = runStat{Hist: hist, Seed: seed, Mode: mode, RevertKinds: map[string]int{}}
	var vn []string
	for _, a := range w.vals {
		vn = append(vn, w.names[a])
	}
	w.emit(trace.Ev{"e": "Reset", "vals": vn, "mbp": mbp, "block": w.block, "cfgname": p.Name, "seed": seed, "hist": hist, "mode": mode})
	return w
}

func (w *world) name(a thor.Address) string {
	if n, ok := w.names[a]; ok {
		return n
	}
	return "?" + a.String()
}

func (w *world) namep(a *thor.Address) string {
	if a == nil {
		return zeroName
	}
	return w.name(*a)
}

func (w *world) ename(a thor.Address) string {
	if n, ok := w.enames[a]; ok {
		return n
	}
	return "?" + a.String()
}

func (w *world) enamep(a *thor.Address) string {
	if a == nil {
		return zeroName
	}
	return w.ename(*a)
}

func (w *world) stk() *staker.Staker { return builtin.Staker.Native(w.st) }

var bigE18 = big.NewInt(1e18)

func (w *world) wei(units uint64) *big.Int {
	x := new(big.Int).SetUint64(units)
	x.Mul(x, new(big.Int).SetUint64(w.p.Unit))
	return x.Mul(x, bigE18)
}

// units converts a VET amount to trace units; an amount that is not a whole number of units is reported as -7
func (w *world) units(vet uint64) int64 {
	if vet%w.p.Unit != 0 {
		return -7
	}
	return int64(vet / w.p.Unit)
}

// wunits converts a weight to trace weight units (hundredths of a unit when WScale = 1)
func (w *world) wunits(weight uint64) int64 {
	if w.p.WScale == 100 {
		return int64(weight)
	}
	d := w.p.Unit / 100
	if weight%d != 0 {
		return -7
	}
	return int64(weight / d)
}

func (w *world) weiUnits(x *big.Int) int64 {
	q, r := new(big.Int).QuoRem(x, w.wei(1), new(big.Int))
	if r.Sign() != 0 || !q.IsInt64() {
		return -7
	}
	return q.Int64()
}

// moveVET adjusts balance and slot 0 of the staker contract the way staker.sol does
func (w *world) moveVET(units uint64, credit bool) {
	addr := builtin.Staker.Address
	d := w.wei(units)
	bal, err := w.st.GetBalance(addr)
	must(err)
	slot, err := w.st.GetStorage(addr, thor.Bytes32{})
	must(err)
	eff := new(big.Int).SetBytes(slot.Bytes())
	if credit {
		bal = new(big.Int).Add(bal, d)
		eff.Add(eff, d)
	} else {
		bal = new(big.Int).Sub(bal, d)
		eff.Sub(eff, d)
		if bal.Sign() < 0 || eff.Sign() < 0 {
			// the Solidity wrapper would revert on underflow (0.8 checked arithmetic / insufficient balance)
			panic(errUnderflow)
		}
	}
	must(w.st.SetBalance(addr, bal))
	w.st.SetStorage(addr, thor.Bytes32{}, thor.BytesToBytes32(eff.Bytes()))
}

var errUnderflow = fmt.Errorf("wrapper: effectiveVET or balance underflow")

var reExitBlock = regexp.MustCompile(`^exit block already set to \d+$`)

type result struct {
	ok  bool
	msg string
	amt uint64
	bad bool // an error or panic of the real code (not a revert)
}

// call runs one public operation as a transaction would: checkpoint, (credit), native call, (debit), roll back on failure.
func (w *world) call(credit uint64, pays bool, fn func(s *staker.Staker) (uint64, error)) (r result) {
	cp := w.st.NewCheckpoint()
	defer func() {
		if rec := recover(); rec != nil {
			w.st.RevertTo(cp)
			r = result{ok: false, msg: fmt.Sprintf("!panic: %v", rec), bad: true}
			w.stat.Errors++
		}
	}()
	if credit > 0 {
		w.moveVET(credit, true)
	}
	amt, err := fn(w.stk())
	if err != nil {
		w.st.RevertTo(cp)
		if staker.IsRevertErr(err) {
			m := err.Error()
			if reExitBlock.MatchString(m) {
				m = "exit block already set"
			}
			w.stat.Reverts++
			w.stat.RevertKinds[m]++
			return result{ok: false, msg: m}
		}
		w.stat.Errors++
		return result{ok: false, msg: "!error: " + err.Error(), bad: true}
	}
	if pays {
		if amt%w.p.Unit != 0 {
			w.st.RevertTo(cp)
			w.stat.Errors++
			return result{ok: false, msg: fmt.Sprintf("!error: withdraw returned %d VET, not a multiple of the unit", amt), bad: true}
		}
		w.moveVET(amt/w.p.Unit, false)
		return result{ok: true, amt: amt / w.p.Unit}
	}
	return result{ok: true, amt: amt}
}

func (w *world) emit(e trace.Ev) {
	e["post"] = w.snapshot()
	w.evs = append(w.evs, e)
	w.stat.Events++
}

func (w *world) emitRes(e trace.Ev, r result) {
	e["ok"] = r.ok
	e["msg"] = r.msg
	e["amt"] = r.amt
	if r.bad {
		e["bad"] = true
	}
	w.emit(e)
}

// ---------------------------------------------------------------------------------------------------------------------
// observation through the getters

func statusName(s uint8) string {
	switch s {
	case validation.StatusUnknown:
		return "none"
	case validation.StatusQueued:
		return "queued"
	case validation.StatusActive:
		return "active"
	case validation.StatusExit:
		return "exit"
	}
	return fmt.Sprintf("status-%d", s)
}

func optBlock(b *uint32) int64 {
	if b == nil {
		return -1
	}
	return int64(*b)
}

// getterErr is an error (or panic) of the real code while the state is read through the getters: an observation
type getterErr struct{ msg string }

func chk(err error) {
	if err != nil {
		panic(getterErr{err.Error()})
	}
}

func (w *world) snapshot() (post map[string]any) {
	defer func() {
		if rec := recover(); rec != nil {
			msg := fmt.Sprintf("!panic: %v", rec)
			if ge, ok := rec.(getterErr); ok {
				msg = "!error: " + ge.msg
			}
			w.stat.Errors++
			post = map[string]any{"block": w.block, "getterError": msg}
		}
	}()
	s := w.stk()
	addr := builtin.Staker.Address
	sctx := solidity.NewContext(addr, w.st, nil)
	gs := globalstats.New(sctx)
	ag := aggregation.New(sctx)
	ds := delegation.New(sctx)
	vs := validation.New(sctx, staker.MinStakeVET, staker.MaxStakeVET)
	post = map[string]any{"block": w.block}

	mbp, err := builtin.Params.Native(w.st).Get(thor.KeyMaxBlockProposers)
	chk(err)
	post["mbp"] = mbp.Uint64()

	lv, lw, err := s.LockedStake()
	chk(err)
	qu, err := s.QueuedStake()
	chk(err)
	wd, err := gs.GetWithdrawableStake()
	chk(err)
	cd, err := gs.GetCooldownStake()
	chk(err)
	post["g"] = map[string]any{"lv": w.units(lv), "lw": w.wunits(lw), "qu": w.units(qu), "wd": w.units(wd), "cd": w.units(cd)}

	slot, err := w.st.GetStorage(addr, thor.Bytes32{})
	chk(err)
	post["eff"] = w.weiUnits(new(big.Int).SetBytes(slot.Bytes()))
	bal, err := w.st.GetBalance(addr)
	chk(err)
	post["bal"] = w.weiUnits(bal)
	active, err := s.IsPoSActive()
	chk(err)
	post["active"] = active

	fuel := len(w.vals) + 2
	walk := func(first func() (thor.Address, error)) ([]string, bool) {
		seq := []string{}
		cur, err := first()
		chk(err)
		for n := 0; !cur.IsZero(); n++ {
			if n >= fuel {
				return seq, false
			}
			seq = append(seq, w.name(cur))
			cur, err = s.Next(cur)
			chk(err)
		}
		return seq, true
	}
	an, qn, err := s.GetValidationsNum()
	chk(err)
	aseq, aok := walk(s.FirstActive)
	qseq, qok := walk(s.FirstQueued)
	ah, err := s.FirstActive()
	chk(err)
	qh, err := s.FirstQueued()
	chk(err)
	post["aL"] = map[string]any{"head": w.name(ah), "size": an, "seq": aseq, "acyclic": aok}
	post["qL"] = map[string]any{"head": w.name(qh), "size": qn, "seq": qseq, "acyclic": qok}

	lg := []any{}
	if aok {
		leaders, err := s.LeaderGroup()
		chk(err)
		for _, l := range leaders {
			lg = append(lg, map[string]any{"a": w.name(l.Address), "end": w.ename(l.Endorser), "ben": w.enamep(l.Beneficiary),
				"on": l.Active, "wt": w.wunits(l.Weight)})
		}
	}
	post["lg"] = lg

	vm := map[string]any{}
	am := map[string]any{}
	nActive := 0
	for _, a := range w.vals {
		v, err := s.GetValidation(a)
		chk(err)
		n := w.name(a)
		if v == nil {
			vm[n] = map[string]any{"st": "none", "end": zeroName, "ben": zeroName, "per": 0, "comp": 0, "start": 0, "exitB": -1, "offB": -1,
				"lk": 0, "pu": 0, "qu": 0, "cd": 0, "wd": 0, "wt": 0, "prev": zeroName, "next": zeroName,
				"wdr": 0, "tot": []int64{0, 0, 0, 0, 0}, "hasDel": false}
			w.prevStatus[a] = validation.StatusUnknown
		} else {
			wdr, err := s.GetWithdrawable(a, w.block)
			chk(err)
			tot := []int64{-9, -9, -9, -9, -9}
			if t, err := s.GetValidationTotals(a); err == nil {
				tot = []int64{w.units(t.TotalLockedStake), w.wunits(t.TotalLockedWeight), w.units(t.TotalQueuedStake),
					w.units(t.TotalExitingStake), w.wunits(t.NextPeriodWeight)}
			}
			hd, err := s.HasDelegations(a)
			chk(err)
			vm[n] = map[string]any{"st": statusName(v.Status), "end": w.ename(v.Endorser), "ben": w.enamep(v.Beneficiary), "per": v.Period,
				"comp": v.CompletedPeriods, "start": v.StartBlock, "exitB": optBlock(v.ExitBlock), "offB": optBlock(v.OfflineBlock),
				"lk": w.units(v.LockedVET), "pu": w.units(v.PendingUnlockVET), "qu": w.units(v.QueuedVET), "cd": w.units(v.CooldownVET),
				"wd": w.units(v.WithdrawableVET), "wt": w.wunits(v.Weight), "prev": w.namep(v.Prev), "next": w.namep(v.Next),
				"wdr": w.units(wdr), "tot": tot, "hasDel": hd}
			// statistics
			if v.Status == validation.StatusActive {
				nActive++
				if w.prevStatus[a] == validation.StatusQueued {
					w.stat.Activations++
				}
				if v.ExitBlock != nil && !w.prevExitB[a] && v.OfflineBlock != nil && w.lastWasBlock {
					w.stat.Evictions++
				}
			}
			if v.Status == validation.StatusExit && w.prevStatus[a] == validation.StatusActive {
				w.stat.Exits++
			}
			w.prevStatus[a] = v.Status
			w.prevExitB[a] = v.ExitBlock != nil
		}
		g, err := ag.GetAggregation(a)
		chk(err)
		am[n] = map[string]any{"lv": w.units(g.Locked.VET), "lw": w.wunits(g.Locked.Weight), "pv": w.units(g.Pending.VET),
			"pw": w.wunits(g.Pending.Weight), "ev": w.units(g.Exiting.VET), "ew": w.wunits(g.Exiting.Weight)}
	}
	post["val"] = vm
	post["agg"] = am
	if nActive > w.stat.MaxActive {
		w.stat.MaxActive = nActive
	}
	if w.prevActive > 0 && nActive == 0 {
		w.stat.Emptied++
	}
	if w.prevActive == 0 && nActive > 0 {
		w.stat.PosStarts++
	}
	w.prevActive = nActive

	dl := []any{}
	for id := 1; id <= w.ndel; id++ {
		d, v, err := s.GetDelegation(big.NewInt(int64(id)))
		chk(err)
		if d == nil {
			dl = append(dl, map[string]any{"v": zeroName, "stake": -9, "mult": 0, "first": 0, "last": -1, "started": false, "ended": false, "locked": false})
			continue
		}
		st, err1 := d.Started(v, w.block)
		en, err2 := d.Ended(v, w.block)
		lk, err3 := d.IsLocked(v, w.block)
		if err1 != nil || err2 != nil || err3 != nil {
			dl = append(dl, map[string]any{"v": w.name(d.Validation), "stake": -9, "mult": 0, "first": 0, "last": -1, "started": false, "ended": false, "locked": false})
			continue
		}
		dl = append(dl, map[string]any{"v": w.name(d.Validation), "stake": w.units(d.Stake), "mult": d.Multiplier, "first": d.FirstIteration,
			"last": optBlock(d.LastIteration), "started": st, "ended": en, "locked": lk})
	}
	post["del"] = dl
	// no delegation beyond the counter
	extra, err := ds.GetDelegation(big.NewInt(int64(w.ndel + 1)))
	chk(err)
	post["delExtra"] = extra != nil

	// internal projection (not an observable of the properties): the renewal list, read from its storage slots
	{
		rh := solidity.NewRaw[thor.Address](sctx, thor.BytesToBytes32([]byte("validations-renewal-head")))
		rn := solidity.NewMapping[thor.Address, thor.Address](sctx, thor.BytesToBytes32([]byte("validations-renewal-next")))
		seq := []string{}
		cur, err := rh.Get()
		for n := 0; err == nil && !cur.IsZero() && n < fuel; n++ {
			seq = append(seq, w.name(cur))
			cur, err = rn.Get(cur)
		}
		if err == nil && cur.IsZero() {
			post["ren"] = seq
		}
	}

	// the exit-block map over the horizon in which an exit can be scheduled
	ex := []any{}
	first := (w.block / w.p.E) * w.p.E
	horizon := w.block + w.p.HighP + w.p.E*uint32(len(w.vals)+w.p.ExitMaxTry+2)
	for b := first; b <= horizon; b += w.p.E {
		x, err := vs.GetValidatorForExitBlock(b)
		chk(err)
		if !x.IsZero() {
			ex = append(ex, []any{b, w.name(x)})
		}
	}
	post["exits"] = ex
	post["exitsFrom"] = first
	post["exitsTo"] = horizon
	return post
}

// ---------------------------------------------------------------------------------------------------------------------
// the operations

// tooRich keeps the totals of a history with unit = 1 VET inside TLC's 32-bit integers: a deposit that would lift the
// contract balance above 700M VET is not attempted (amounts above the maximum stake revert anyway and are let through).
func (w *world) tooRich(amount uint64) bool {
	if w.p.WScale != 100 || amount > w.p.MaxStake {
		return false
	}
	bal, err := w.st.GetBalance(builtin.Staker.Address)
	must(err)
	return w.weiUnits(bal)+int64(amount) > 700_000_000
}

func (w *world) opAddValidation(a, e thor.Address, period uint32, stake uint64) result {
	if w.tooRich(stake) {
		return result{}
	}
	r := w.call(stake, false, func(s *staker.Staker) (uint64, error) {
		return 0, s.AddValidation(a, e, period, stake*w.p.Unit)
	})
	if r.ok {
		w.endOf[a] = e
		w.stat.Validations++
	}
	w.emitRes(trace.Ev{"e": "AddValidation", "a": w.name(a), "end": w.ename(e), "p": period, "s": stake}, r)
	return r
}

func (w *world) opIncreaseStake(a, e thor.Address, amt uint64) result {
	if w.tooRich(amt) {
		return result{}
	}
	r := w.call(amt, false, func(s *staker.Staker) (uint64, error) { return 0, s.IncreaseStake(a, e, amt*w.p.Unit) })
	w.emitRes(trace.Ev{"e": "IncreaseStake", "a": w.name(a), "end": w.ename(e), "s": amt}, r)
	return r
}

func (w *world) opDecreaseStake(a, e thor.Address, amt uint64) result {
	r := w.call(0, false, func(s *staker.Staker) (uint64, error) { return 0, s.DecreaseStake(a, e, amt*w.p.Unit) })
	w.emitRes(trace.Ev{"e": "DecreaseStake", "a": w.name(a), "end": w.ename(e), "s": amt}, r)
	return r
}

func (w *world) opSignalExit(a, e thor.Address) result {
	r := w.call(0, false, func(s *staker.Staker) (uint64, error) { return 0, s.SignalExit(a, e, w.block) })
	w.emitRes(trace.Ev{"e": "SignalExit", "a": w.name(a), "end": w.ename(e)}, r)
	return r
}

func (w *world) opWithdrawStake(a, e thor.Address) result {
	r := w.call(0, true, func(s *staker.Staker) (uint64, error) { return s.WithdrawStake(a, e, w.block) })
	if r.ok {
		if r.amt > 0 {
			w.stat.Withdrawals++
		} else {
			w.stat.ZeroWithdraw++
		}
	}
	w.emitRes(trace.Ev{"e": "WithdrawStake", "a": w.name(a), "end": w.ename(e)}, r)
	return r
}

func (w *world) opSetBeneficiary(a, e, b thor.Address) result {
	r := w.call(0, false, func(s *staker.Staker) (uint64, error) { return 0, s.SetBeneficiary(a, e, b) })
	w.emitRes(trace.Ev{"e": "SetBeneficiary", "a": w.name(a), "end": w.ename(e), "ben": w.ename(b)}, r)
	return r
}

func (w *world) opAddDelegation(a thor.Address, stake uint64, mult uint8) result {
	if w.tooRich(stake) {
		return result{}
	}
	r := w.call(stake, false, func(s *staker.Staker) (uint64, error) {
		id, err := s.AddDelegation(a, stake*w.p.Unit, mult, w.block)
		if err != nil {
			return 0, err
		}
		if !id.IsUint64() {
			return 0, fmt.Errorf("delegation id out of range")
		}
		return id.Uint64(), nil
	})
	if r.ok {
		w.ndel++
		w.stat.Delegations++
	}
	w.emitRes(trace.Ev{"e": "AddDelegation", "a": w.name(a), "s": stake, "m": mult}, r)
	return r
}

func (w *world) opSignalDelegationExit(id int) result {
	r := w.call(0, false, func(s *staker.Staker) (uint64, error) {
		return 0, s.SignalDelegationExit(big.NewInt(int64(id)), w.block)
	})
	w.emitRes(trace.Ev{"e": "SignalDelegationExit", "d": id}, r)
	return r
}

func (w *world) opWithdrawDelegation(id int) result {
	r := w.call(0, true, func(s *staker.Staker) (uint64, error) { return s.WithdrawDelegation(big.NewInt(int64(id)), w.block) })
	if r.ok {
		if r.amt > 0 {
			w.stat.Withdrawals++
		} else {
			w.stat.ZeroWithdraw++
		}
	}
	w.emitRes(trace.Ev{"e": "WithdrawDelegation", "d": id}, r)
	return r
}

func (w *world) opSetOnline(a thor.Address, online bool) {
	r := w.call(0, false, func(s *staker.Staker) (uint64, error) { return 0, s.SetOnline(a, w.block, online) })
	w.emitRes(trace.Ev{"e": "SetOnline", "a": w.name(a), "on": online}, r)
}

func (w *world) opSetMBP(m uint64) {
	must(builtin.Params.Native(w.st).Set(thor.KeyMaxBlockProposers, new(big.Int).SetUint64(m)))
	w.emitRes(trace.Ev{"e": "SetMBP", "m": m}, result{ok: true, amt: m})
}

func (w *world) opDonate(x uint64) {
	addr := builtin.Staker.Address
	bal, err := w.st.GetBalance(addr)
	must(err)
	must(w.st.SetBalance(addr, new(big.Int).Add(bal, w.wei(x))))
	w.emitRes(trace.Ev{"e": "Donate", "x": x}, result{ok: true, amt: x})
}

// nextBlock seals the current block (stage + commit the state, reopen it from the committed root: every record goes
// through its storage encoding) and starts the next one with Staker.SyncPOS, as packer.Schedule / consensus.validate do.
func (w *world) nextBlock() {
	stage, err := w.st.Stage(trie.Version{Major: w.block})
	must(err)
	root, err := stage.Commit()
	must(err)
	w.st = state.New(w.db, trie.Root{Hash: root, Ver: trie.Version{Major: w.block}})
	w.block++
	w.stat.Blocks++
	ev := trace.Ev{"e": "Block", "n": w.block}
	func() {
		cp := w.st.NewCheckpoint()
		defer func() {
			if rec := recover(); rec != nil {
				w.st.RevertTo(cp)
				ev["ok"], ev["msg"], ev["act"], ev["upd"], ev["bad"] = false, fmt.Sprintf("!panic: %v", rec), false, false, true
				w.stat.Errors++
			}
		}()
		status, err := w.stk().SyncPOS(w.fc, w.block)
		if err != nil {
			w.st.RevertTo(cp)
			ev["ok"], ev["msg"], ev["act"], ev["upd"], ev["bad"] = false, "!error: "+err.Error(), false, false, true
			w.stat.Errors++
			return
		}
		ev["ok"], ev["msg"], ev["act"], ev["upd"] = true, "", status.Active, status.Updates
		if status.Updates {
			w.stat.Updates++
		}
	}()
	ev["amt"] = w.block
	w.lastWasBlock = true
	w.emit(ev)
	w.lastWasBlock = false
}

// ---------------------------------------------------------------------------------------------------------------------
// random histories

func (w *world) pick(n int) int      { return w.rng.Intn(n) }
func (w *world) chance(pct int) bool { return w.rng.Intn(100) < pct }

func (w *world) valsWith(status ...uint8) []thor.Address {
	var out []thor.Address
	s := w.stk()
	for _, a := range w.vals {
		v, err := s.GetValidation(a)
		if err != nil {
			continue
		}
		st := validation.StatusUnknown
		if v != nil {
			st = v.Status
		}
		for _, x := range status {
			if x == st {
				out = append(out, a)
			}
		}
	}
	return out
}

func (w *world) anyVal() thor.Address {
	if w.chance(2) {
		return thor.Address{}
	}
	return w.vals[w.pick(len(w.vals))]
}

func (w *world) target(status ...uint8) thor.Address {
	if w.chance(75) {
		if c := w.valsWith(status...); len(c) > 0 {
			return c[w.pick(len(c))]
		}
	}
	return w.anyVal()
}

func (w *world) endorserFor(a thor.Address) thor.Address {
	if e, ok := w.endOf[a]; ok && w.chance(92) {
		return e
	}
	return w.ends[w.pick(len(w.ends))]
}

func (w *world) periods() []uint32 { return []uint32{w.p.LowP, w.p.MedP, w.p.HighP} }

// amount picks a stake amount in units around lo..hi with occasional boundary and out-of-range values
func (w *world) amount(lo, span uint64) uint64 {
	switch x := w.pick(100); {
	case x < 4:
		return 0
	case x < 8:
		return w.p.MaxStake + 1 + uint64(w.pick(3))
	case x < 12:
		return w.p.MaxStake
	case x < 18:
		return lo
	default:
		return lo + uint64(w.rng.Int63n(int64(span)+1))
	}
}

func (w *world) mult() uint8 {
	ms := []uint8{100, 200, 150, 255, 100, 200, 1, 50}
	if w.p.WScale == 100 {
		ms = append(ms, 33, 199, 101)
	}
	if w.chance(2) {
		return 0
	}
	return ms[w.pick(len(ms))]
}

// liveDelegation prefers a delegation that still holds stake (and, for a signal, has not signalled yet)
func (w *world) liveDelegation(forSignal bool) int {
	if w.chance(75) {
		var c []int
		for id := 1; id <= w.ndel; id++ {
			d, _, err := w.stk().GetDelegation(big.NewInt(int64(id)))
			if err == nil && d != nil && d.Stake > 0 && (!forSignal || d.LastIteration == nil) {
				c = append(c, id)
			}
		}
		if len(c) > 0 {
			return c[w.pick(len(c))]
		}
	}
	return 1 + w.pick(w.ndel)
}

func (w *world) randomOp() {
	small := w.p.MaxStake/24 + 1 // about one minimum stake
	if w.p.WScale == 100 {
		small = 2_000_000
	}
	unused := w.valsWith(validation.StatusUnknown)
	type choice struct {
		wgt int
		fn  func()
	}
	addW := 2
	if len(unused) > 0 {
		addW = 8
	}
	ops := []choice{
		{addW, func() {
			a := w.anyVal()
			if len(unused) > 0 && w.chance(85) {
				a = unused[w.pick(len(unused))]
			}
			p := w.periods()[w.pick(3)]
			if w.chance(4) {
				p = p + 1
			}
			stake := w.p.MinStake + uint64(w.rng.Int63n(int64(2*small)+1))
			switch x := w.pick(100); {
			case x < 4:
				stake = w.p.MinStake - 1
			case x < 7:
				stake = w.p.MaxStake + 1
			case x < 12 && w.p.WScale == 1: // (unit = 1 VET keeps totals below TLC's 32-bit integers)
				stake = w.p.MaxStake - uint64(w.pick(3))
			case x < 22:
				stake = w.p.MinStake
			}
			w.opAddValidation(a, w.ends[w.pick(len(w.ends))], p, stake)
		}},
		{4, func() {
			a := w.target(validation.StatusActive)
			w.opIncreaseStake(a, w.endorserFor(a), w.amount(1, 2*small))
		}},
		{4, func() {
			a := w.target(validation.StatusActive)
			w.opDecreaseStake(a, w.endorserFor(a), w.amount(1, small))
		}},
		{2, func() {
			a := w.target(validation.StatusActive)
			w.opSignalExit(a, w.endorserFor(a))
		}},
		{6, func() {
			a := w.target(validation.StatusExit, validation.StatusActive, validation.StatusQueued, validation.StatusExit)
			if w.chance(65) { // somebody who has something to withdraw
				var c []thor.Address
				for _, x := range w.vals {
					if amt, err := w.stk().GetWithdrawable(x, w.block); err == nil && amt > 0 {
						c = append(c, x)
					}
				}
				if len(c) > 0 {
					a = c[w.pick(len(c))]
				}
			}
			e := w.endorserFor(a)
			r := w.opWithdrawStake(a, e)
			if r.ok && w.chance(50) {
				w.opWithdrawStake(a, e) // withdrawing twice must pay nothing the second time
			}
		}},
		{1, func() {
			a := w.target(validation.StatusActive, validation.StatusQueued)
			b := w.ends[w.pick(len(w.ends))]
			if w.chance(20) {
				b = thor.Address{}
			}
			w.opSetBeneficiary(a, w.endorserFor(a), b)
		}},
		{7, func() {
			a := w.target(validation.StatusActive, validation.StatusQueued, validation.StatusActive)
			w.opAddDelegation(a, w.amount(1, 3*small), w.mult())
		}},
		{4, func() {
			if w.ndel == 0 {
				w.opSignalDelegationExit(1)
				return
			}
			id := w.liveDelegation(true)
			if w.chance(3) {
				id = w.ndel + 1
			}
			w.opSignalDelegationExit(id)
		}},
		{6, func() {
			if w.ndel == 0 {
				w.opWithdrawDelegation(0)
				return
			}
			id := w.liveDelegation(false)
			if w.chance(3) {
				id = w.ndel + 1
			}
			r := w.opWithdrawDelegation(id)
			if r.ok && w.chance(50) {
				w.opWithdrawDelegation(id)
			}
		}},
	}
	total := 0
	for _, c := range ops {
		total += c.wgt
	}
	x := w.pick(total)
	for _, c := range ops {
		if x < c.wgt {
			c.fn()
			return
		}
		x -= c.wgt
	}
}

func (w *world) onlineUpdates() {
	leaders, err := w.stk().LeaderGroup()
	if err != nil || len(leaders) > len(w.vals) {
		return
	}
	early := w.block < w.p.EvictThreshold && w.p.EvictInterval < w.p.EvictThreshold
	for _, l := range leaders {
		if early && l.Active && w.chance(30) {
			w.opSetOnline(l.Address, false) // offline for a block or two before an eviction check below the threshold
		} else if early && !l.Active && w.chance(45) {
			w.opSetOnline(l.Address, true)
		} else if l.Active && w.chance(4) {
			w.opSetOnline(l.Address, false)
		} else if !l.Active && w.chance(22) {
			w.opSetOnline(l.Address, true)
		} else if !l.Active && w.chance(3) {
			w.opSetOnline(l.Address, false) // reported offline again: the offline block moves
		}
	}
}

func runRandom(p preset, seed int64, hist, blocks int) *world {
	return runRandomMode(p, seed, hist, blocks, "random")
}

func runRandomMode(p preset, seed int64, hist, blocks int, mode string) *world {
	rng := rand.New(rand.NewSource(seed ^ 0x5eed))
	nVal := 4 + rng.Intn(10)
	mbps := []uint64{1, 2, 2, 3, 3, 4, 5, 0}
	if p.NValMin > 0 {
		nVal = p.NValMin + rng.Intn(p.NValSpan)
		mbps = p.MBPs
	}
	nEnd := 1 + rng.Intn(nVal)
	mbp := mbps[rng.Intn(len(mbps))]
	w := newWorld(p, seed, nVal, nEnd, mbp, hist, mode)
	for b := 0; b < blocks; b++ {
		n := []int{0, 1, 1, 2, 2, 2, 3, 3, 4, 5}[w.pick(10)]
		if b < 3 {
			n += 2 // fill the queue during the transition period
		}
		for i := 0; i < n; i++ {
			w.randomOp()
		}
		if w.chance(3) {
			w.opSetMBP(mbps[w.pick(len(mbps))])
		}
		if w.chance(2) {
			w.opDonate(1 + uint64(w.pick(5)))
		}
		w.nextBlock()
		w.onlineUpdates()
	}
	return w
}

// drain: the terminal scenario - everybody leaves and takes everything out.  Queued validators withdraw, active ones
// signal exit (one leaves per epoch), pending / ended delegations and exited validators withdraw as soon as the real
// getters say there is something to withdraw.  At the end DrainCheck lets the trace specification require that nothing
// is left in any bucket, that effectiveVET and all global counters are 0 and that the contract holds only donations:
// "each staker can withdraw, in total, exactly what they deposited".
func (w *world) drain() {
	limit := int(w.p.HighP+w.p.Cooldown) + int(w.p.E)*(2*len(w.vals)+w.p.ExitMaxTry+8)
	for i := 0; i < limit; i++ {
		s := w.stk()
		for _, a := range w.vals {
			v, err := s.GetValidation(a)
			if err != nil || v == nil {
				continue
			}
			e := v.Endorser
			switch {
			case v.Status == validation.StatusQueued:
				w.opWithdrawStake(a, e)
			case v.Status == validation.StatusActive && v.ExitBlock == nil:
				w.opSignalExit(a, e)
			}
			if amt, err := w.stk().GetWithdrawable(a, w.block); err == nil && amt > 0 {
				w.opWithdrawStake(a, e)
			}
		}
		for id := 1; id <= w.ndel; id++ {
			d, v, err := w.stk().GetDelegation(big.NewInt(int64(id)))
			if err != nil || d == nil || d.Stake == 0 {
				continue
			}
			started, err1 := d.Started(v, w.block)
			ended, err2 := d.Ended(v, w.block)
			if err1 == nil && err2 == nil && (!started || ended) {
				w.opWithdrawDelegation(id)
			}
		}
		if eff, err := w.stk().GetEffectiveVET(); err == nil && eff == 0 {
			break
		}
		w.nextBlock()
	}
	w.emitRes(trace.Ev{"e": "DrainCheck"}, result{ok: true})
}

func runDrain(p preset, seed int64, hist, blocks int) *world {
	w := runRandomMode(p, seed, hist, blocks, "drain")
	w.drain()
	return w
}

// runF4: DESIGN section 6, finding F4 - nothing prevents the only active validator from exiting:
// SetMBP(1); AddValidation; transition; SignalExit; housekeeping at the exit block -> LeaderGroupSize 0, PoS inactive.
// The history then shows that the contract falls back to waiting for a 2/3 queue and transitions again.
func runF4(p preset, seed int64, hist int) *world {
	w := newWorld(p, seed, 2, 1, 1, hist, "f4")
	v1, v2, e := w.vals[0], w.vals[1], w.ends[0]
	w.opAddValidation(v1, e, p.LowP, p.MinStake)
	w.opAddDelegation(v1, 1, 200)
	active := func() bool {
		ok, err := w.stk().IsPoSActive()
		return err == nil && ok
	}
	for i := 0; i < int(4*p.E+2*p.TP+8) && !active(); i++ {
		w.nextBlock()
	}
	w.opSignalExit(v1, e)
	for i := 0; i < int(p.LowP+4*p.E) && active(); i++ {
		w.nextBlock()
	}
	// the leader group is empty now (or the defect is gone)
	w.opWithdrawDelegation(1)
	w.opAddValidation(v2, e, p.MedP, p.MinStake+1)
	for i := 0; i < int(p.Cooldown+2*p.E+2*p.TP+2); i++ {
		w.nextBlock()
	}
	w.opWithdrawStake(v1, e)
	w.opWithdrawStake(v1, e)
	w.nextBlock()
	return w
}

// behaviour exported by TLC from MCStakerExport.tla (model -> implementation direction)
type behaviour struct {
	MBP uint64           `json:"mbp"`
	Ops []map[string]any `json:"ops"`
}

// runReplay drives the real code through the actions of one TLC-generated behaviour of Staker.tla.  Validator vN is
// endorsed by the account named vN (End(v) = v in MCStaker).  The trace it records is validated like any other: the
// specification, now with the constants of the export configuration, must predict every result and every getter.
func runReplay(p preset, seed int64, hist int, b behaviour) *world {
	w := newWorld(p, seed, 3, 3, b.MBP, hist, "replay")
	for i, a := range w.ends {
		w.enames[a] = fmt.Sprintf("v%d", i+1)
	}
	val := func(x any) thor.Address {
		for a, n := range w.names {
			if n == x {
				return a
			}
		}
		return thor.Address{}
	}
	end := func(x any) thor.Address {
		for a, n := range w.enames {
			if n == x && !a.IsZero() {
				return a
			}
		}
		return thor.Address{}
	}
	num := func(x any) uint64 { f, _ := x.(float64); return uint64(f) }
	for _, op := range b.Ops {
		switch op["e"] {
		case "Block":
			w.nextBlock()
		case "AddValidation":
			w.opAddValidation(val(op["a"]), end(op["end"]), uint32(num(op["p"])), num(op["s"]))
		case "IncreaseStake":
			w.opIncreaseStake(val(op["a"]), end(op["end"]), num(op["s"]))
		case "DecreaseStake":
			w.opDecreaseStake(val(op["a"]), end(op["end"]), num(op["s"]))
		case "SignalExit":
			w.opSignalExit(val(op["a"]), end(op["end"]))
		case "WithdrawStake":
			w.opWithdrawStake(val(op["a"]), end(op["end"]))
		case "AddDelegation":
			w.opAddDelegation(val(op["a"]), num(op["s"]), uint8(num(op["m"])))
		case "SignalDelegationExit":
			w.opSignalDelegationExit(int(num(op["d"])))
		case "WithdrawDelegation":
			w.opWithdrawDelegation(int(num(op["d"])))
		case "SetOnline":
			on, _ := op["on"].(bool)
			w.opSetOnline(val(op["a"]), on)
		case "SetMBP":
			w.opSetMBP(num(op["m"]))
		default:
			fail("replay: unknown action", op["e"])
		}
	}
	return w
}

// runExitMax: a dense exit schedule on the REAL code - 22 validators with the same staking period are activated by the
// same transition and all signal exit in their first period: the exit epochs fill up one by one (SetExitBlock probes
// forward one epoch at a time) and the 21st and 22nd request hit "max try reached" (exitMaxTry = 20).  One validator
// leaves per epoch; the two refused ones signal again later; finally everybody has left and withdrawn (drain).
func runExitMax(p preset, seed int64, hist int) *world {
	const n = 22
	w := newWorld(p, seed, n, 3, n, hist, "exitmax")
	for i, a := range w.vals {
		w.opAddValidation(a, w.ends[i%3], p.LowP, p.MinStake+uint64(i%3))
	}
	w.opAddDelegation(w.vals[0], 1, 200)
	w.opAddDelegation(w.vals[n-1], 1, 150)
	active := func() bool {
		ok, err := w.stk().IsPoSActive()
		return err == nil && ok
	}
	for i := 0; i < int(4*p.E+2*p.TP+8) && !active(); i++ {
		w.nextBlock()
	}
	for i, a := range w.vals {
		w.opSignalExit(a, w.ends[i%3])
	}
	w.opSignalExit(w.vals[n-1], w.ends[(n-1)%3]) // refused again
	for i := 0; i < int(3*p.E); i++ {
		w.nextBlock()
	}
	w.opSignalExit(w.vals[n-1], w.ends[(n-1)%3]) // slots have been freed at the front: accepted now
	w.drain()
	return w
}

// runCapQueue (preset cap): max-block-proposers = 9 is above the scaled cap thor.InitialMaxBlockProposers = 4.  The queue
// grows 3 -> 5 -> 6 over transition epochs: PoS must start only with 6 queued (2/3 of the configured 9), not with 3
// (2/3 of the cap); it then activates all 6 (activation is bounded by the configured value).  Lowering the parameter
// to 0 (= the cap, 4) afterwards stops activations while 6 > 4 are active.
func runCapQueue(p preset, seed int64, hist int) *world {
	w := newWorld(p, seed, 9, 2, 9, hist, "capq")
	add := func(i int) { w.opAddValidation(w.vals[i], w.ends[i%2], p.LowP, p.MinStake+uint64(i%2)) }
	epochs := func(n int) {
		for i := 0; i < n*int(p.E); i++ {
			w.nextBlock()
		}
	}
	add(0)
	add(1)
	add(2)
	epochs(2)
	add(3)
	add(4)
	epochs(2)
	add(5)
	epochs(2)
	add(6)
	add(7)
	w.opSetMBP(0)
	epochs(2)
	w.opSetMBP(9)
	epochs(1)
	w.drain()
	return w
}

// runEdges: a scripted history through the corners random histories reach only sometimes: removal of the head, the tail
// and the only element of both lists, an exit that coincides with a renewal and an activation, a validator leaving with
// pending and exiting delegations, withdraw while queued, eviction at the threshold boundary.
func runEdges(p preset, seed int64, hist int) *world {
	w := newWorld(p, seed, 6, 2, 3, hist, "edges")
	v := w.vals
	e1, e2 := w.ends[0], w.ends[1]
	m := p.MinStake
	for i := 0; i < 5; i++ {
		w.opAddValidation(v[i], []thor.Address{e1, e2}[i%2], p.LowP, m+uint64(i))
	}
	w.opAddDelegation(v[0], 1, 200) // pending on a queued validator
	w.opAddDelegation(v[3], 2, 150) // pending on a validator that stays queued
	w.opWithdrawStake(v[1], e2)     // middle of the queue leaves (v2)
	w.opWithdrawStake(v[1], e2)
	w.opWithdrawStake(v[4], e1) // tail of the queue leaves (v5)
	w.opWithdrawDelegation(3)
	for !func() bool { ok, _ := w.stk().IsPoSActive(); return ok }() && w.stat.Blocks < int(6*p.E+2*p.TP) {
		w.nextBlock()
	}
	// active: v1, v3, v4 (mbp 3); queue empty
	w.opAddValidation(v[5], e2, p.MedP, m)
	w.opAddDelegation(v[0], 1, 100) // pending on an active validator
	w.opSignalDelegationExit(1)     // exiting
	w.opIncreaseStake(v[0], e1, 2)
	w.opDecreaseStake(v[2], e1, 1)
	w.opSignalExit(v[0], e1) // head of the active list will leave with pending + exiting + locked delegations
	w.opSignalExit(v[3], e2) // tail wants the same block: probes one epoch further
	w.opSetOnline(v[2], false)
	for i := 0; i < int(p.LowP+3*p.E); i++ {
		w.nextBlock()
	}
	w.opWithdrawDelegation(1)
	w.opWithdrawDelegation(1)
	w.opWithdrawDelegation(2)
	w.opWithdrawDelegation(4)
	for i := 0; i < int(p.Cooldown+p.EvictThreshold+p.EvictInterval+2*p.E); i++ {
		w.nextBlock()
	}
	for _, a := range []int{0, 2, 3, 5} {
		en := []thor.Address{e1, e2}[a%2]
		w.opWithdrawStake(v[a], en)
		w.opWithdrawStake(v[a], en)
	}
	w.nextBlock()
	return w
}

// ---------------------------------------------------------------------------------------------------------------------

func main() {
	out := flag.String("out", ".", "output directory")
	seed := flag.Int64("seed", 1, "seed")
	runs := flag.Int("runs", 10, "number of random histories")
	blocks := flag.Int("blocks", 60, "blocks per random history")
	cfg := flag.String("cfg", "e2", "configuration preset: "+strings.Join(presetNames(), ","))
	mode := flag.String("mode", "random", "random | drain | f4 | edges | exitmax | chain | replay (comma list)")
	in := flag.String("in", "", "replay: JSON file with the behaviours exported by TLC")
	flag.Parse()
	p, ok := presets[*cfg]
	if !ok {
		fail("unknown preset", *cfg)
	}
	p.complete(*cfg)
	applyConfig(p)

	var all []trace.Ev
	var stats []runStat
	hist := 0
	add := func(w *world) {
		all = append(all, w.evs...)
		stats = append(stats, w.stat)
		hist++
	}
	for _, m := range strings.Split(*mode, ",") {
		// "name:count" overrides -runs for that mode
		if i := strings.IndexByte(m, ':'); i >= 0 {
			n, err := strconv.Atoi(m[i+1:])
			must(err)
			*runs, m = n, m[:i]
		}
		switch m {
		case "f4":
			add(runF4(p, *seed*7919+1, hist))
		case "capq":
			add(runCapQueue(p, *seed*7919+4, hist))
		case "exitmax":
			add(runExitMax(p, *seed*7919+3, hist))
		case "edges":
			add(runEdges(p, *seed*7919+2, hist))
		case "random":
			for i := 0; i < *runs; i++ {
				add(runRandom(p, *seed*1000003+int64(i), hist, *blocks))
			}
		case "replay":
			raw, err := os.ReadFile(*in)
			must(err)
			var bs []behaviour
			must(json.Unmarshal(raw, &bs))
			for i, b := range bs {
				add(runReplay(p, *seed*7919+100+int64(i), hist, b))
			}
		case "drain":
			for i := 0; i < *runs; i++ {
				add(runDrain(p, *seed*1000003+500+int64(i), hist, *blocks))
			}
		case "chain":
			for i := 0; i < *runs; i++ {
				add(runChain(p, *seed*1000003+int64(i), hist, *blocks, false))
			}
		case "chainpoa":
			for i := 0; i < *runs; i++ {
				add(runChain(p, *seed*1000003+700+int64(i), hist, *blocks, true))
			}
		default:
			fail("unknown mode", m)
		}
	}
	must(os.MkdirAll(*out, 0o755))
	must(trace.WriteNDJSON(filepath.Join(*out, "trace.ndjson"), all))
	wj := func(name string, v any) {
		f, err := os.Create(filepath.Join(*out, name))
		must(err)
		enc := json.NewEncoder(f)
		must(enc.Encode(v))
		must(f.Close())
	}
	wj("runs.json", stats)
	wj("config.json", p)
	b, _ := json.Marshal(map[string]any{"histories": len(stats), "events": len(all), "cfg": p.Name})
	fmt.Println(string(b))
}

// applyConfig sets the process-global thor configuration to the preset
func applyConfig(p preset) {
	tp := p.TP
	thor.SetConfig(thor.Config{EpochLength: p.E, LowStakingPeriod: p.LowP, MediumStakingPeriod: p.MedP, HighStakingPeriod: p.HighP,
		CooldownPeriod: p.Cooldown, ValidatorEvictionThreshold: p.EvictThreshold, EvictionCheckInterval: p.EvictInterval, HayabusaTP: &tp})
	if thor.EpochLength() != p.E || thor.HayabusaTP() != p.TP || thor.CooldownPeriod() != p.Cooldown ||
		thor.LowStakingPeriod() != p.LowP || thor.MediumStakingPeriod() != p.MedP || thor.HighStakingPeriod() != p.HighP ||
		thor.ValidatorEvictionThreshold() != p.EvictThreshold || thor.EvictionCheckInterval() != p.EvictInterval {
		fail("thor.SetConfig did not take effect")
	}
}

func presetNames() []string {
	var n []string
	for k := range presets {
		n = append(n, k)
	}
	sort.Strings(n)
	return n
}
