package main

// A tiny hand-assembled contract used by the chain mode as a CONTRACT endorser / delegator (all other senders are
// externally owned accounts):
//
//	calldata = 0x00 ++ data      forward `data` and the attached VET to the Staker contract (msg.sender there = proxy);
//	                             revert if the Staker call fails
//	calldata = 0x01 ++ mode(32) ++ validator(32)     set the behaviour on receiving VET, remember a validator
//	empty calldata (VET paid by staker.sol's  msg.sender.call{value: stake}("") )
//	    mode 0  accept
//	    mode 1  revert                      -> withdrawStake / withdrawDelegation must fail with "Transfer failed"
//	    mode 2  re-enter ONCE: call Staker.withdrawStake(validator) from inside the payment, then accept
//	                                        -> the classic withdraw-twice path; the second withdraw must pay nothing
import (
	"encoding/binary"

	"github.com/vechain/thor/v2/builtin"
	"github.com/vechain/thor/v2/thor"
)

const (
	opSTOP         = 0x00
	opSUB          = 0x03
	opEQ           = 0x14
	opISZERO       = 0x15
	opBYTE         = 0x1a
	opCALLVALUE    = 0x34
	opCALLDATALOAD = 0x35
	opCALLDATASIZE = 0x36
	opCALLDATACOPY = 0x37
	opCODECOPY     = 0x39
	opMSTORE       = 0x52
	opSLOAD        = 0x54
	opSSTORE       = 0x55
	opJUMPI        = 0x57
	opGAS          = 0x5a
	opJUMPDEST     = 0x5b
	opPUSH1        = 0x60
	opPUSH2        = 0x61
	opPUSH20       = 0x73
	opPUSH32       = 0x7f
	opDUP1         = 0x80
	opDUP3         = 0x82
	opCALL         = 0xf1
	opRETURN       = 0xf3
	opREVERT       = 0xfd
)

type asm struct {
	code   []byte
	labels map[string]int
	fixups map[int]string
}

func newAsm() *asm { return &asm{labels: map[string]int{}, fixups: map[int]string{}} }

func (a *asm) op(ops ...byte) *asm { a.code = append(a.code, ops...); return a }
func (a *asm) push1(v byte) *asm   { return a.op(opPUSH1, v) }
func (a *asm) label(n string) *asm { a.labels[n] = len(a.code); return a.op(opJUMPDEST) }
func (a *asm) pushLabel(n string) *asm {
	a.op(opPUSH2)
	a.fixups[len(a.code)] = n
	return a.op(0, 0)
}

func (a *asm) bytes() []byte {
	for at, n := range a.fixups {
		pos, ok := a.labels[n]
		if !ok {
			fail("proxy assembler: unknown label", n)
		}
		binary.BigEndian.PutUint16(a.code[at:], uint16(pos))
	}
	return a.code
}

// proxyRuntime assembles the runtime code described above.
func proxyRuntime() []byte {
	staker := builtin.Staker.Address
	m, ok := builtin.Staker.ABI.MethodByName("withdrawStake")
	if !ok {
		fail("staker ABI has no withdrawStake")
	}
	var sel [32]byte
	id := m.ID()
	copy(sel[:4], id[:])

	a := newAsm()
	callStaker := func(inSize func(), value func()) {
		a.push1(0).push1(0) // outSize, outOffset
		inSize()            // inSize
		a.push1(0)          // inOffset
		value()             // value
		a.op(opPUSH20).op(staker.Bytes()...).op(opGAS, opCALL)
		a.op(opISZERO).pushLabel("rev").op(opJUMPI)
	}
	a.op(opCALLDATASIZE).pushLabel("cmd").op(opJUMPI)
	// ---- VET received with empty calldata
	a.push1(0).op(opSLOAD)
	a.op(opDUP1).push1(1).op(opEQ).pushLabel("rev").op(opJUMPI)
	a.op(opDUP1).push1(2).op(opEQ).pushLabel("reenter").op(opJUMPI)
	a.op(opSTOP)
	a.label("rev").push1(0).push1(0).op(opREVERT)
	a.label("reenter")
	a.push1(0).push1(0).op(opSSTORE) // only once
	a.op(opPUSH32).op(sel[:]...).push1(0).op(opMSTORE)
	a.push1(1).op(opSLOAD).push1(4).op(opMSTORE)
	callStaker(func() { a.push1(36) }, func() { a.push1(0) })
	a.op(opSTOP)
	// ---- commands
	a.label("cmd")
	a.push1(0).op(opCALLDATALOAD).push1(0).op(opBYTE)
	a.pushLabel("setmode").op(opJUMPI)
	a.push1(1).op(opCALLDATASIZE, opSUB)              // n = size - 1
	a.op(opDUP1).push1(1).push1(0).op(opCALLDATACOPY) // mem[0..n) = calldata[1..]
	callStaker(func() { a.op(opDUP3) }, func() { a.op(opCALLVALUE) })
	a.op(opSTOP)
	a.label("setmode")
	a.push1(1).op(opCALLDATALOAD).push1(0).op(opSSTORE)
	a.push1(33).op(opCALLDATALOAD).push1(1).op(opSSTORE)
	a.op(opSTOP)
	return a.bytes()
}

// proxyInit wraps the runtime into creation code.
func proxyInit() []byte {
	rt := proxyRuntime()
	const hdr = 13
	a := newAsm()
	a.op(opPUSH2, byte(len(rt)>>8), byte(len(rt))).op(opDUP1).op(opPUSH2, 0, hdr).push1(0).op(opCODECOPY).push1(0).op(opRETURN)
	if len(a.code) != hdr {
		fail("proxy init header length", len(a.code))
	}
	return append(a.code, rt...)
}

func proxyForward(data []byte) []byte { return append([]byte{0}, data...) }

func proxySetMode(mode byte, validator thor.Address) []byte {
	out := make([]byte, 65)
	out[0] = 1
	out[32] = mode
	copy(out[33+12:], validator.Bytes())
	return out
}
