package main

// chain mode: the same kind of history, but through REAL transactions to the Staker contract on a real chain
// (internal/sim: genesis with HAYABUSA at block 0 and genesis stakers, real packer.Schedule / flow.Adopt / Pack, blocks
// stored in a real repository; PoA until the first epoch boundary, then the PoA -> PoS transition).  Here the Solidity
// wrapper staker.sol itself moves the VET; what is observed is
//   - whether each transaction reverted (receipt),
//   - the VET balance change of the sender over the block (deposit, or the amount a withdraw paid out),
//   - the contract's VET balance, effectiveVET and all getters on the state of the new block,
//   - which leaders the scheduler reported online / offline (derived from the offline blocks).
// The events of one block are: Block n (SyncPOS), SetOnline*, at most one operation; the post-state is attached to the
// last of them.  The trace is validated by the same Trace_Staker.tla (revert reasons are not visible in receipts).

import (
	"fmt"
	"math/big"
	"math/rand"
	"sort"

	"github.com/vechain/thor/v2/block"
	"github.com/vechain/thor/v2/builtin"
	"github.com/vechain/thor/v2/builtin/staker/validation"
	"github.com/vechain/thor/v2/packer"
	"github.com/vechain/thor/v2/state"
	"github.com/vechain/thor/v2/thor"
	"github.com/vechain/thor/v2/tx"

	"verifharness/internal/sim"
	"verifharness/internal/trace"
)

type chainWorld struct {
	*world
	net     *sim.Net
	parent  *block.Block
	nVal    int // genesis validators = devs[0..nVal)
	nAcct   int // accounts usable as validators / endorsers
	deleg   int // index of the account playing the delegator contract
	nonce   uint64
	tag     byte
	offPrev map[thor.Address]int64
}

func (c *chainWorld) stateOf(b *block.Block) *state.State {
	sum, err := c.net.God.Repo.GetBlockSummary(b.Header().ID())
	must(err)
	return c.net.God.Stater.NewState(sum.Root())
}

func (c *chainWorld) mkTx(from int, value uint64, method string, args ...any) *tx.Transaction {
	m, ok := builtin.Staker.ABI.MethodByName(method)
	if !ok {
		fail("staker ABI has no method", method)
	}
	data, err := m.EncodeInput(args...)
	must(err)
	to := builtin.Staker.Address
	cl := tx.NewClause(&to).WithData(data)
	if value > 0 {
		cl = cl.WithValue(c.wei(value))
	}
	c.nonce++
	b := tx.NewBuilder(tx.TypeDynamicFee).ChainTag(c.tag).BlockRef(tx.NewBlockRef(c.parent.Header().Number())).Expiration(1000).
		Gas(3_000_000).Nonce(c.nonce).Clause(cl).
		MaxFeePerGas(new(big.Int).Mul(big.NewInt(thor.InitialBaseFee), big.NewInt(100))).MaxPriorityFeePerGas(big.NewInt(1000))
	return tx.MustSign(b.Build(), c.net.Devs[from].PrivateKey)
}

func (c *chainWorld) vetOf(st *state.State, acct int) *big.Int {
	b, err := st.GetBalance(c.net.Devs[acct].Address)
	must(err)
	return b
}

// mint produces the next block (by some validator that is entitled to) with at most one transaction, imports nothing
// anywhere else: God's repository is the chain.
func (c *chainWorld) mint(t *tx.Transaction) *block.Block {
	var txs []*tx.Transaction
	if t != nil {
		txs = append(txs, t)
	}
	// the natural proposer is the one with the earliest slot; now and then the runner-up takes over (the skipped
	// leader is reported offline by the real scheduler)
	type cand struct {
		who  int
		when uint64
	}
	var cs []cand
	sum, err := c.net.God.Repo.GetBlockSummary(c.parent.Header().ID())
	must(err)
	for who := 0; who < c.nAcct; who++ {
		acc := c.net.Devs[who]
		pk := packer.New(c.net.God.Repo, c.net.God.Stater, acc.Address, &acc.Address, c.net.FC, 0)
		flow, err := pk.Schedule(sum, c.parent.Header().Timestamp()+thor.BlockInterval())
		if err != nil {
			continue
		}
		cs = append(cs, cand{who, flow.When()})
	}
	sort.Slice(cs, func(i, j int) bool {
		return cs[i].when < cs[j].when || (cs[i].when == cs[j].when && cs[i].who < cs[j].who)
	})
	if len(cs) > 1 && c.chance(12) {
		cs[0], cs[1] = cs[1], cs[0]
	}
	var lastErr error
	for _, x := range cs {
		blk, err := c.net.Mint(c.parent.Header().ID(), x.who, false, 0, txs...)
		if err == nil {
			return blk
		}
		lastErr = err
	}
	fail("chain: nobody could produce block", c.parent.Header().Number()+1, lastErr)
	return nil
}

type chainOp struct {
	ev    trace.Ev
	from  int
	t     *tx.Transaction
	pays  bool   // withdraw: amount = VET received
	value uint64 // deposit in units
	isDel bool
}

func (c *chainWorld) acctOf(a thor.Address) int {
	for i := 0; i < c.nAcct; i++ {
		if c.net.Devs[i].Address == a {
			return i
		}
	}
	return -1
}

func (c *chainWorld) randomOp(posActive bool) *chainOp {
	w := c.world
	small := w.p.MaxStake/24 + 1
	s := w.stk()
	pickVal := func(status ...uint8) thor.Address {
		if w.chance(80) {
			if cs := w.valsWith(status...); len(cs) > 0 {
				return cs[w.pick(len(cs))]
			}
		}
		return w.vals[w.pick(len(w.vals))]
	}
	endOf := func(a thor.Address) int {
		if v, err := s.GetValidation(a); err == nil && v != nil && w.chance(92) {
			if i := c.acctOf(v.Endorser); i >= 0 {
				return i
			}
		}
		return w.pick(c.nAcct)
	}
	switch x := w.pick(100); {
	case x < 16:
		if !posActive {
			return nil // native_addValidation additionally requires an authority while PoS is not active (not modelled)
		}
		a := pickVal(validation.StatusUnknown)
		e := w.pick(c.nAcct)
		p := w.periods()[w.pick(3)]
		stake := w.p.MinStake + uint64(w.rng.Int63n(int64(2*small)+1))
		if w.chance(6) {
			stake = w.p.MinStake - 1
		}
		return &chainOp{ev: trace.Ev{"e": "AddValidation", "a": w.name(a), "end": w.ename(c.net.Devs[e].Address), "p": p, "s": stake},
			from: e, value: stake, t: c.mkTx(e, stake, "addValidation", a, p)}
	case x < 28:
		a := pickVal(validation.StatusActive)
		e := endOf(a)
		amt := 1 + uint64(w.rng.Int63n(int64(2*small)))
		return &chainOp{ev: trace.Ev{"e": "IncreaseStake", "a": w.name(a), "end": w.ename(c.net.Devs[e].Address), "s": amt},
			from: e, value: amt, t: c.mkTx(e, amt, "increaseStake", a)}
	case x < 38:
		a := pickVal(validation.StatusActive)
		e := endOf(a)
		amt := 1 + uint64(w.rng.Int63n(int64(small)))
		return &chainOp{ev: trace.Ev{"e": "DecreaseStake", "a": w.name(a), "end": w.ename(c.net.Devs[e].Address), "s": amt},
			from: e, t: c.mkTx(e, 0, "decreaseStake", a, c.wei(amt))}
	case x < 43:
		a := pickVal(validation.StatusActive)
		if n, _ := s.LeaderGroupSize(); n <= 2 {
			return nil // keep the chain producing blocks
		}
		e := endOf(a)
		return &chainOp{ev: trace.Ev{"e": "SignalExit", "a": w.name(a), "end": w.ename(c.net.Devs[e].Address)},
			from: e, t: c.mkTx(e, 0, "signalExit", a)}
	case x < 60:
		a := pickVal(validation.StatusExit, validation.StatusActive, validation.StatusQueued)
		e := endOf(a)
		return &chainOp{ev: trace.Ev{"e": "WithdrawStake", "a": w.name(a), "end": w.ename(c.net.Devs[e].Address)},
			from: e, pays: true, t: c.mkTx(e, 0, "withdrawStake", a)}
	case x < 64:
		a := pickVal(validation.StatusActive, validation.StatusQueued)
		e := endOf(a)
		b := c.net.Devs[w.pick(c.nAcct)].Address
		return &chainOp{ev: trace.Ev{"e": "SetBeneficiary", "a": w.name(a), "end": w.ename(c.net.Devs[e].Address), "ben": w.ename(b)},
			from: e, t: c.mkTx(e, 0, "setBeneficiary", a, b)}
	case x < 80:
		a := pickVal(validation.StatusActive, validation.StatusQueued)
		amt := 1 + uint64(w.rng.Int63n(int64(3*small)))
		m := []uint8{100, 200, 150, 255}[w.pick(4)]
		return &chainOp{ev: trace.Ev{"e": "AddDelegation", "a": w.name(a), "s": amt, "m": m},
			from: c.deleg, value: amt, isDel: true, t: c.mkTx(c.deleg, amt, "addDelegation", a, m)}
	case x < 88:
		if w.ndel == 0 {
			return nil
		}
		id := 1 + w.pick(w.ndel)
		return &chainOp{ev: trace.Ev{"e": "SignalDelegationExit", "d": id},
			from: c.deleg, t: c.mkTx(c.deleg, 0, "signalDelegationExit", big.NewInt(int64(id)))}
	default:
		if w.ndel == 0 {
			return nil
		}
		id := 1 + w.pick(w.ndel)
		return &chainOp{ev: trace.Ev{"e": "WithdrawDelegation", "d": id},
			from: c.deleg, pays: true, t: c.mkTx(c.deleg, 0, "withdrawDelegation", big.NewInt(int64(id)))}
	}
}

func runChain(p preset, seed int64, hist, blocks int) *world {
	if p.TP != 0 || p.Hayabusa != 0 {
		fail("chain mode needs a preset with TP = 0 and HAYABUSA = 0 (the simulator's genesis)")
	}
	const nVal, nAcct = 3, 9
	mbp := uint64(4)
	// the genesis builder stakes the genesis validators with thor.HighStakingPeriod() as configured by the simulator's
	// genesis (StakingPeriod); the simulator sets the process-global thor config, so the preset is re-applied afterwards
	net := sim.NewNet(sim.Options{Validators: nVal, Nodes: 1, PoS: true, EpochLength: p.E, MBP: mbp, ExtraAccts: nAcct + 1 - nVal,
		SkipLogs: true, StakingPeriod: p.HighP})
	defer net.Close()
	applyConfig(p)
	w := &world{p: p, rng: rand.New(rand.NewSource(seed)), names: map[thor.Address]string{}, enames: map[thor.Address]string{},
		endOf: map[thor.Address]thor.Address{}, prevStatus: map[thor.Address]uint8{}, prevExitB: map[thor.Address]bool{}}
	w.names[thor.Address{}] = zeroName
	w.enames[thor.Address{}] = zeroName
	w.stat = runStat{Hist: hist, Seed: seed, Mode: "chain", RevertKinds: map[string]int{}}
	c := &chainWorld{world: w, net: net, parent: net.B0, nVal: nVal, nAcct: nAcct, deleg: nAcct, tag: net.God.Repo.ChainTag(),
		nonce: uint64(seed) << 20, offPrev: map[thor.Address]int64{}}
	var vn []string
	for i := 0; i < nAcct; i++ {
		a := net.Devs[i].Address
		w.vals = append(w.vals, a)
		w.names[a] = fmt.Sprintf("v%d", i+1)
		w.enames[a] = fmt.Sprintf("e%d", i+1)
		vn = append(vn, w.names[a])
	}
	w.enames[net.Devs[c.deleg].Address] = "delegator"
	w.st = c.stateOf(net.B0)
	w.block = 0
	// the genesis block: validations of the genesis stakers, added by the genesis builder with the minimum stake
	w.evs = append(w.evs, trace.Ev{"e": "Reset", "vals": vn, "mbp": mbp, "block": 0, "cfgname": p.Name, "seed": seed, "hist": hist, "mode": "chain"})
	for i := 0; i < nVal; i++ {
		ev := trace.Ev{"e": "AddValidation", "a": w.names[net.Devs[i].Address], "end": w.enames[net.Devs[i].Address], "p": p.HighP,
			"s": p.MinStake, "ok": true, "msg": "", "amt": 0}
		w.evs = append(w.evs, ev)
		w.stat.Validations++
	}
	// ... and activated by a direct Staker.Housekeep(0) of the genesis builder
	w.evs = append(w.evs, trace.Ev{"e": "GenesisHousekeep", "ok": true, "msg": "", "amt": 0, "post": w.snapshot()})
	w.stat.Events = len(w.evs)

	// block 1: the executor names the account that plays the delegator contract
	setM, ok := builtin.Params.ABI.MethodByName("set")
	if !ok {
		fail("params.set not found")
	}
	data, err := setM.EncodeInput(thor.KeyDelegatorContractAddress, new(big.Int).SetBytes(net.Devs[c.deleg].Address.Bytes()))
	must(err)
	pa := builtin.Params.Address
	c.nonce++
	setTx := tx.MustSign(tx.NewBuilder(tx.TypeDynamicFee).ChainTag(c.tag).BlockRef(tx.NewBlockRef(0)).Expiration(1000).Gas(200_000).Nonce(c.nonce).
		Clause(tx.NewClause(&pa).WithData(data)).MaxFeePerGas(new(big.Int).Mul(big.NewInt(thor.InitialBaseFee), big.NewInt(100))).
		MaxPriorityFeePerGas(big.NewInt(1000)).Build(), net.Devs[0].PrivateKey)

	for b := 1; b <= blocks; b++ {
		pre := w.st
		var op *chainOp
		var t *tx.Transaction
		if b == 1 {
			t = setTx
		} else if w.chance(70) {
			active, _ := w.stk().IsPoSActive()
			if op = c.randomOp(active); op != nil {
				t = op.t
			}
		}
		blk := c.mint(t)
		c.parent = blk
		w.st = c.stateOf(blk)
		w.block = blk.Header().Number()
		w.stat.Blocks++
		evs := []trace.Ev{{"e": "Block", "n": w.block, "ok": true, "msg": "", "amt": w.block}}
		// who was reported online / offline by the scheduler of this block
		for _, a := range w.vals {
			v, err := w.stk().GetValidation(a)
			must(err)
			off := int64(-1)
			if v != nil {
				off = optBlock(v.OfflineBlock)
			}
			if v != nil && v.Status == validation.StatusActive && off != c.offPrev[a] {
				evs = append(evs, trace.Ev{"e": "SetOnline", "a": w.name(a), "on": off < 0, "ok": true, "msg": "", "amt": 0})
			}
			c.offPrev[a] = off
		}
		if op != nil {
			rcs, err := net.God.Repo.GetBlockReceipts(blk.Header().ID())
			must(err)
			if len(rcs) != 1 {
				fail("chain: expected one receipt")
			}
			ok := !rcs[0].Reverted
			before, after := c.vetOf(pre, op.from), c.vetOf(w.st, op.from)
			delta := new(big.Int).Sub(after, before)
			amt := uint64(0)
			switch {
			case !ok:
				if delta.Sign() != 0 {
					op.ev["msg"], op.ev["bad"] = "!error: reverted transaction moved VET", true
				}
				w.stat.Reverts++
			case op.pays:
				u := w.weiUnits(delta)
				if u < 0 {
					op.ev["msg"], op.ev["bad"] = "!error: a withdraw did not pay a whole non-negative number of units", true
				} else {
					amt = uint64(u)
				}
				if amt > 0 {
					w.stat.Withdrawals++
				} else {
					w.stat.ZeroWithdraw++
				}
			default:
				if delta.Cmp(new(big.Int).Neg(w.wei(op.value))) != 0 {
					op.ev["msg"], op.ev["bad"] = fmt.Sprintf("!error: sender balance changed by %v wei, expected -%v", delta, w.wei(op.value)), true
				}
				if op.isDel {
					w.ndel++
					w.stat.Delegations++
					amt = uint64(w.ndel)
				}
				if op.ev["e"] == "AddValidation" {
					w.stat.Validations++
				}
			}
			if _, has := op.ev["msg"]; !has {
				op.ev["msg"] = ""
			}
			op.ev["ok"], op.ev["amt"], op.ev["chain"] = ok, amt, true
			evs = append(evs, op.ev)
		}
		w.lastWasBlock = true
		evs[len(evs)-1]["post"] = w.snapshot()
		w.lastWasBlock = false
		w.evs = append(w.evs, evs...)
		w.stat.Events += len(evs)
	}
	return w
}
