package main

// chain mode: the same kind of history, but through REAL transactions to the Staker contract on a real chain
// (internal/sim: genesis with HAYABUSA at block 0; real packer.Schedule / flow.Adopt / Pack by the scheduled proposer, every
// block then imported by a LONG-LIVED node stack - real consensus.Process with its leader-group cache, real bft engine).
// Here the Solidity wrapper staker.sol and the native layer builtin/staker_native.go are the code under test too:
//   - several staker transactions per block, transactions with two clauses (a reverting later clause undoes the first),
//   - senders are externally owned accounts AND contracts (proxy.go): an endorser / delegator contract that reverts on
//     receiving VET ("Transfer failed") or re-enters withdrawStake from inside the payment (withdraw twice),
//   - the pause switches (params staker-switches), addDelegation & co. from a sender that is not the delegator contract,
//     stakes that are empty or not a whole number of VET (checkStake), the transition-period authority rule of
//     native_addValidation while PoS is not active.
// Observed: whether each transaction reverted (receipt), the VET paid to the sender by each clause (transfer logs), the id of
// a new delegation (event log), the contract's VET balance, effectiveVET and all getters on the state of the new block,
// which leaders the scheduler reported online / offline, and whether the long-lived consensus accepted the packer's block.
// Events of one block: Block n (SyncPOS), SetOnline*, then SetSwitches / ChainTx in transaction order; the post-state is
// attached to the last of them.  Validated by the same Trace_Staker.tla (revert reasons are not visible in receipts).

import (
	"fmt"
	"math/big"
	"math/rand"
	"sort"

	"github.com/vechain/thor/v2/block"
	"github.com/vechain/thor/v2/builtin"
	"github.com/vechain/thor/v2/builtin/staker/validation"
	"github.com/vechain/thor/v2/packer"
	"github.com/vechain/thor/v2/state"
	"github.com/vechain/thor/v2/thor"
	"github.com/vechain/thor/v2/tx"

	"verifharness/internal/sim"
	"verifharness/internal/trace"
)

// sender is who the Staker contract sees as msg.sender
type sender struct {
	name  string       // name in the trace (endorser name space)
	addr  thor.Address // msg.sender at the Staker contract
	key   int          // dev account that signs the transaction
	proxy bool         // addr is a proxy contract: the clause goes to the proxy, which forwards it
}

type clause struct {
	ev    map[string]any // the operation as the specification sees it
	data  []byte         // call data for the Staker contract
	value *big.Int       // wei attached
	pays  bool           // withdraw
	isDel bool           // addDelegation
}

type chainTx struct {
	from    sender
	clauses []clause
	t       *tx.Transaction
	sw      int64 // >= 0: params.set(staker-switches, sw) by the executor instead of staker clauses
	silent  bool  // set-up / proxy mode transactions: no event of their own
}

type chainWorld struct {
	*world
	net      *sim.Net
	parent   *block.Block
	nVal     int // genesis validators = devs[0..nVal)
	nAcct    int // accounts usable as validators / endorsers
	nonce    uint64
	tag      byte
	offPrev  map[thor.Address]int64
	eoas     []sender
	proxies  []sender // c1, c2: contract endorsers
	deleg    sender   // the delegator contract (a proxy)
	switches int64
	delEvent thor.Bytes32
	haltWhy  string
}

func (c *chainWorld) stateOf(b *block.Block) *state.State {
	sum, err := c.net.God.Repo.GetBlockSummary(b.Header().ID())
	must(err)
	return c.net.God.Stater.NewState(sum.Root())
}

func (c *chainWorld) stakerData(method string, args ...any) []byte {
	m, ok := builtin.Staker.ABI.MethodByName(method)
	if !ok {
		fail("staker ABI has no method", method)
	}
	data, err := m.EncodeInput(args...)
	must(err)
	return data
}

func (c *chainWorld) sign(key int, clauses ...*tx.Clause) *tx.Transaction {
	c.nonce++
	b := tx.NewBuilder(tx.TypeDynamicFee).ChainTag(c.tag).BlockRef(tx.NewBlockRef(c.parent.Header().Number())).Expiration(1000).
		Gas(uint64(3_000_000 * len(clauses))).Nonce(c.nonce).
		MaxFeePerGas(new(big.Int).Mul(big.NewInt(thor.InitialBaseFee), big.NewInt(100))).MaxPriorityFeePerGas(big.NewInt(1000))
	for _, cl := range clauses {
		b.Clause(cl)
	}
	return tx.MustSign(b.Build(), c.net.Devs[key].PrivateKey)
}

// build turns the clauses into a signed transaction from the given sender (through its proxy if it is a contract)
func (c *chainWorld) build(from sender, cls []clause) *chainTx {
	var tcs []*tx.Clause
	for _, cl := range cls {
		to, data := builtin.Staker.Address, cl.data
		if from.proxy {
			to, data = from.addr, proxyForward(cl.data)
		}
		tcs = append(tcs, tx.NewClause(&to).WithData(data).WithValue(cl.value))
	}
	return &chainTx{from: from, clauses: cls, t: c.sign(from.key, tcs...), sw: -1}
}

// mint produces the next block with the given transactions, by the scheduled proposer (now and then the runner-up: the
// skipped leader is reported offline by the real scheduler).  God's repository is the chain.
func (c *chainWorld) mint(txs []*tx.Transaction) *block.Block {
	type cand struct {
		who  int
		when uint64
	}
	var cs []cand
	var schedErr []string
	sum, err := c.net.God.Repo.GetBlockSummary(c.parent.Header().ID())
	must(err)
	for who := 0; who < c.nAcct; who++ {
		acc := c.net.Devs[who]
		pk := packer.New(c.net.God.Repo, c.net.God.Stater, acc.Address, &acc.Address, c.net.FC, 0)
		flow, err := pk.Schedule(sum, c.parent.Header().Timestamp()+thor.BlockInterval())
		if err != nil {
			schedErr = append(schedErr, fmt.Sprintf("%s: %v", c.name(acc.Address), err))
			continue
		}
		cs = append(cs, cand{who, flow.When()})
	}
	sort.Slice(cs, func(i, j int) bool {
		return cs[i].when < cs[j].when || (cs[i].when == cs[j].when && cs[i].who < cs[j].who)
	})
	if len(cs) > 1 && c.chance(12) {
		cs[0], cs[1] = cs[1], cs[0]
	}
	var lastErr error
	for _, x := range cs {
		blk, err := c.net.Mint(c.parent.Header().ID(), x.who, false, 0, txs...)
		if err == nil {
			return blk
		}
		lastErr = err
	}
	if len(cs) == 0 {
		// no account is entitled to produce the next block: the chain has halted.  This is an observation, not harness
		// trouble: the history ends with a ChainHalt event and the specification says whether it is the known F4 shape
		// (SyncPOS of the next block runs the exit of the only leader with an empty queue: the packer then schedules
		// proof of stake over an empty leader group) or something else.
		c.haltWhy = fmt.Sprint(schedErr)
		return nil
	}
	fail("chain: no candidate could pack block", c.parent.Header().Number()+1, lastErr)
	return nil
}

func (c *chainWorld) senderOf(a thor.Address) (sender, bool) {
	for _, s := range append(append([]sender{}, c.eoas...), append(c.proxies, c.deleg)...) {
		if s.addr == a {
			return s, true
		}
	}
	return sender{}, false
}

func (c *chainWorld) anySender() sender {
	if c.chance(25) {
		return c.proxies[c.pick(len(c.proxies))]
	}
	return c.eoas[c.pick(c.nAcct)]
}

// randomClause picks one staker operation and its natural sender
func (c *chainWorld) randomClause() (clause, sender) {
	w := c.world
	small := w.p.MaxStake/24 + 1
	s := w.stk()
	pickVal := func(status ...uint8) thor.Address {
		if w.chance(80) {
			if cs := w.valsWith(status...); len(cs) > 0 {
				return cs[w.pick(len(cs))]
			}
		}
		return w.vals[w.pick(len(w.vals))]
	}
	endorserOf := func(a thor.Address) sender {
		if v, err := s.GetValidation(a); err == nil && v != nil && w.chance(92) {
			if x, ok := c.senderOf(v.Endorser); ok {
				return x
			}
		}
		return c.anySender()
	}
	// stake amount in wei with the occasional empty / fractional value (checkStake)
	stakeWei := func(units uint64, ev map[string]any) *big.Int {
		ev["frac"] = false
		switch x := w.pick(100); {
		case x < 3:
			ev["s"] = 0
			return new(big.Int)
		case x < 7:
			ev["frac"] = true
			return new(big.Int).Add(c.wei(units), big.NewInt(500_000_000_000_000_000))
		}
		return c.wei(units)
	}
	delegSender := func() sender {
		if w.chance(8) {
			return c.eoas[c.pick(len(c.eoas))] // not the delegator contract
		}
		return c.deleg
	}
	switch x := w.pick(100); {
	case x < 16:
		a := pickVal(validation.StatusUnknown)
		p := w.periods()[w.pick(3)]
		stake := w.p.MinStake + uint64(w.rng.Int63n(int64(2*small)+1))
		if w.chance(6) {
			stake = w.p.MinStake - 1
		}
		auth := zeroName
		if listed, endorsor, _, _, err := builtin.Authority.Native(w.st).Get(a); err == nil && listed {
			auth = w.ename(endorsor)
		}
		ev := map[string]any{"e": "AddValidation", "a": w.name(a), "p": p, "s": stake, "auth": auth}
		return clause{ev: ev, data: c.stakerData("addValidation", a, p), value: stakeWei(stake, ev)}, c.anySender()
	case x < 28:
		a := pickVal(validation.StatusActive)
		amt := 1 + uint64(w.rng.Int63n(int64(2*small)))
		ev := map[string]any{"e": "IncreaseStake", "a": w.name(a), "s": amt}
		return clause{ev: ev, data: c.stakerData("increaseStake", a), value: stakeWei(amt, ev)}, endorserOf(a)
	case x < 38:
		a := pickVal(validation.StatusActive)
		amt := 1 + uint64(w.rng.Int63n(int64(small)))
		ev := map[string]any{"e": "DecreaseStake", "a": w.name(a), "s": amt}
		return clause{ev: ev, data: c.stakerData("decreaseStake", a, stakeWei(amt, ev)), value: new(big.Int)}, endorserOf(a)
	case x < 43:
		a := pickVal(validation.StatusActive)
		if n, _ := s.LeaderGroupSize(); n <= 2 {
			a = thor.Address{} // keep the chain producing blocks: this one reverts
		}
		return clause{ev: map[string]any{"e": "SignalExit", "a": w.name(a)}, data: c.stakerData("signalExit", a), value: new(big.Int)}, endorserOf(a)
	case x < 60:
		a := pickVal(validation.StatusExit, validation.StatusActive, validation.StatusQueued)
		return clause{ev: map[string]any{"e": "WithdrawStake", "a": w.name(a)}, data: c.stakerData("withdrawStake", a), value: new(big.Int), pays: true}, endorserOf(a)
	case x < 64:
		a := pickVal(validation.StatusActive, validation.StatusQueued)
		b := c.anySender().addr
		return clause{ev: map[string]any{"e": "SetBeneficiary", "a": w.name(a), "ben": w.ename(b)}, data: c.stakerData("setBeneficiary", a, b), value: new(big.Int)}, endorserOf(a)
	case x < 80:
		a := pickVal(validation.StatusActive, validation.StatusQueued)
		amt := 1 + uint64(w.rng.Int63n(int64(3*small)))
		m := []uint8{100, 200, 150, 255}[w.pick(4)]
		ev := map[string]any{"e": "AddDelegation", "a": w.name(a), "s": amt, "m": m}
		return clause{ev: ev, data: c.stakerData("addDelegation", a, m), value: stakeWei(amt, ev), isDel: true}, delegSender()
	case x < 88:
		id := 1 + w.pick(w.ndel+1)
		return clause{ev: map[string]any{"e": "SignalDelegationExit", "d": id}, data: c.stakerData("signalDelegationExit", big.NewInt(int64(id))), value: new(big.Int)}, delegSender()
	default:
		id := 1 + w.pick(w.ndel+1)
		return clause{ev: map[string]any{"e": "WithdrawDelegation", "d": id}, data: c.stakerData("withdrawDelegation", big.NewInt(int64(id))), value: new(big.Int), pays: true}, delegSender()
	}
}

// proxyMode reads how a proxy contract reacts to receiving VET (and which validator it would re-enter for)
func (c *chainWorld) proxyMode(st *state.State, p thor.Address) (string, string) {
	m, err := st.GetStorage(p, thor.Bytes32{})
	must(err)
	v, err := st.GetStorage(p, thor.BytesToBytes32([]byte{1}))
	must(err)
	mode := "accept"
	switch m[31] {
	case 1:
		mode = "revert"
	case 2:
		mode = "reenter"
	}
	return mode, c.name(thor.BytesToAddress(v[12:]))
}

// runChain: poa = false: the chain starts in PoS (genesis stakers, activated by the genesis builder);
// poa = true: the chain starts in PoA with three authorities and no stakers, HAYABUSA at the preset's height, the
// authorities queue through real addValidation transactions during the transition period (native_addValidation's
// authority / endorser rule) and the real SyncPOS switches to PoS at a transition block once 2/3 of the proposers queued.
func runChain(p preset, seed int64, hist, blocks int, poa bool) *world {
	if !poa && (p.TP != 0 || p.Hayabusa != 0) {
		fail("chain mode with genesis stakers needs a preset with TP = 0 and HAYABUSA = 0")
	}
	const nVal, nAcct = 3, 9
	mbp := uint64(4)
	// the genesis builder stakes the genesis validators with thor.HighStakingPeriod() as configured by the simulator's
	// genesis (StakingPeriod); the simulator sets the process-global thor config, so the preset is re-applied afterwards
	net := sim.NewNet(sim.Options{Validators: nVal, Nodes: 1, PoS: true, EpochLength: p.E, MBP: mbp, ExtraAccts: nAcct + 1 - nVal,
		SkipLogs: true, StakingPeriod: p.HighP, NoGenesisStakers: poa, HayabusaTP: p.TP, Hayabusa: p.Hayabusa})
	defer net.Close()
	applyConfig(p)
	mode := "chain"
	if poa {
		mode = "chainpoa"
	}
	w := &world{p: p, rng: rand.New(rand.NewSource(seed)), names: map[thor.Address]string{}, enames: map[thor.Address]string{},
		endOf: map[thor.Address]thor.Address{}, prevStatus: map[thor.Address]uint8{}, prevExitB: map[thor.Address]bool{}}
	w.names[thor.Address{}] = zeroName
	w.enames[thor.Address{}] = zeroName
	w.stat = runStat{Hist: hist, Seed: seed, Mode: mode, RevertKinds: map[string]int{}}
	c := &chainWorld{world: w, net: net, parent: net.B0, nVal: nVal, nAcct: nAcct, tag: net.God.Repo.ChainTag(),
		nonce: uint64(seed) << 20, offPrev: map[thor.Address]int64{}}
	ev, ok := builtin.Staker.Events().EventByName("DelegationAdded")
	if !ok {
		fail("no DelegationAdded event")
	}
	c.delEvent = ev.ID()
	var vn []string
	for i := 0; i < nAcct+1; i++ {
		a := net.Devs[i].Address
		w.enames[a] = fmt.Sprintf("e%d", i+1)
		c.eoas = append(c.eoas, sender{name: w.enames[a], addr: a, key: i})
		if i < nAcct {
			w.vals = append(w.vals, a)
			w.names[a] = fmt.Sprintf("v%d", i+1)
			vn = append(vn, w.names[a])
		}
	}
	w.st = c.stateOf(net.B0)
	w.block = 0
	w.evs = append(w.evs, trace.Ev{"e": "Reset", "vals": vn, "mbp": mbp, "block": 0, "cfgname": p.Name, "seed": seed, "hist": hist, "mode": mode})
	if !poa {
		// the genesis block: validations of the genesis stakers, added by the genesis builder with the minimum stake ...
		for i := 0; i < nVal; i++ {
			w.evs = append(w.evs, trace.Ev{"e": "AddValidation", "a": w.names[net.Devs[i].Address], "end": w.enames[net.Devs[i].Address], "p": p.HighP,
				"s": p.MinStake, "ok": true, "msg": "", "amt": 0})
			w.stat.Validations++
		}
		// ... and activated by a direct Staker.Housekeep(0) of the genesis builder
		w.evs = append(w.evs, trace.Ev{"e": "GenesisHousekeep", "ok": true, "msg": "", "amt": 0, "post": w.snapshot()})
	} else {
		w.evs[len(w.evs)-1]["post"] = w.snapshot()
	}
	w.stat.Events = len(w.evs)

	// block 1: three proxy contracts are created (two contract endorsers, the delegator contract)
	initCode := proxyInit()
	deploy := c.sign(nAcct, tx.NewClause(nil).WithData(initCode), tx.NewClause(nil).WithData(initCode), tx.NewClause(nil).WithData(initCode))
	for i, n := range []string{"c1", "c2", "delegator"} {
		a := thor.CreateContractAddress(deploy.ID(), uint32(i), 0)
		w.enames[a] = n
		sd := sender{name: n, addr: a, key: 3 + i, proxy: true}
		if n == "delegator" {
			sd.key = nAcct
			c.deleg = sd
		} else {
			c.proxies = append(c.proxies, sd)
		}
	}
	// block 2: the executor names the delegator contract
	setM, ok := builtin.Params.ABI.MethodByName("set")
	if !ok {
		fail("params.set not found")
	}
	pa := builtin.Params.Address
	paramTx := func(key thor.Bytes32, v *big.Int) *tx.Transaction {
		data, err := setM.EncodeInput(key, v)
		must(err)
		return c.sign(0, tx.NewClause(&pa).WithData(data))
	}

	for b := 1; b <= blocks; b++ {
		pre := w.st
		var txs []*chainTx
		switch {
		case b == 1:
			txs = append(txs, &chainTx{t: deploy, silent: true, sw: -1})
		case b == 2:
			txs = append(txs, &chainTx{t: paramTx(thor.KeyDelegatorContractAddress, new(big.Int).SetBytes(c.deleg.addr.Bytes())), silent: true, sw: -1})
		case w.block+1 <= p.Hayabusa:
			// before the fork the Staker contract does not exist yet
		case b >= 3 && b <= 5 && !poa:
			// a contract endorser queues a validation, is told to re-enter, and withdraws it: the classic withdraw-twice path
			px, v := c.proxies[0], w.vals[nAcct-1]
			switch b {
			case 3:
				ev := map[string]any{"e": "AddValidation", "a": w.name(v), "p": p.LowP, "s": p.MinStake, "auth": zeroName, "frac": false}
				txs = append(txs, c.build(px, []clause{{ev: ev, data: c.stakerData("addValidation", v, p.LowP), value: c.wei(p.MinStake)}}))
			case 4:
				to := px.addr
				txs = append(txs, &chainTx{t: c.sign(px.key, tx.NewClause(&to).WithData(proxySetMode(2, v))), silent: true, sw: -1})
			case 5:
				mode, rv := c.proxyMode(pre, px.addr)
				ev := map[string]any{"e": "WithdrawStake", "a": w.name(v), "rcv": mode, "rv": rv}
				txs = append(txs, c.build(px, []clause{{ev: ev, data: c.stakerData("withdrawStake", v), value: new(big.Int), pays: true}}))
			}
		case poa && w.block+1 > p.Hayabusa && int(w.block+1-p.Hayabusa) <= nVal:
			// the transition period: the authorities queue (their own endorser must send the transaction); before each,
			// somebody else tries for them and a non-authority tries for itself - both must be refused
			i := int(w.block+1-p.Hayabusa) - 1
			v := w.vals[i]
			auth := func(a thor.Address) string {
				if listed, endorsor, _, _, err := builtin.Authority.Native(w.st).Get(a); err == nil && listed {
					return w.ename(endorsor)
				}
				return zeroName
			}
			mk := func(from sender, a thor.Address) *chainTx {
				ev := map[string]any{"e": "AddValidation", "a": w.name(a), "p": p.LowP, "s": p.MinStake + uint64(i), "auth": auth(a), "frac": false}
				return c.build(from, []clause{{ev: ev, data: c.stakerData("addValidation", a, p.LowP), value: c.wei(p.MinStake + uint64(i))}})
			}
			txs = append(txs, mk(c.eoas[(i+1)%nVal], v), mk(c.eoas[nVal+i], w.vals[nVal+i]), mk(c.eoas[i], v))
		case poa && w.prevActive == 0 && w.stat.PosStarts == 0 && w.block+1 <= p.Hayabusa+p.TP+4*p.E:
			// wait for the switch (nobody leaves the queue before the first transition blocks)
		case w.chance(9):
			// a proxy changes its behaviour on receiving VET (alone in its block: later withdraws see a settled mode)
			px := append(append([]sender{}, c.proxies...), c.deleg)[w.pick(len(c.proxies)+1)]
			mode := byte(w.pick(3))
			if px.name == "delegator" && mode == 2 {
				mode = 1
			}
			v := w.vals[w.pick(len(w.vals))]
			for _, a := range w.vals { // preferably a validator this proxy endorses
				if x, err := w.stk().GetValidation(a); err == nil && x != nil && x.Endorser == px.addr && w.chance(60) {
					v = a
				}
			}
			to := px.addr
			txs = append(txs, &chainTx{t: c.sign(px.key, tx.NewClause(&to).WithData(proxySetMode(mode, v))), silent: true, sw: -1})
		default:
			if w.chance(6) || (c.switches != 0 && w.chance(40)) {
				v := int64(w.pick(4))
				if c.switches != 0 && w.chance(70) {
					v = 0
				}
				txs = append(txs, &chainTx{t: paramTx(thor.KeyStakerSwitches, big.NewInt(v)), sw: v})
			}
			n := []int{0, 1, 1, 1, 2, 2, 3}[w.pick(7)]
			usedProxy := map[string]bool{}
			for i := 0; i < n; i++ {
				cl, from := c.randomClause()
				cls := []clause{cl}
				if w.chance(22) { // a second clause in the same transaction, same sender
					cl2, _ := c.randomClause()
					cls = append(cls, cl2)
				}
				// at most one paying clause per proxy and block: its receive mode is read from the pre-state
				skip := false
				for k := range cls {
					if cls[k].pays && from.proxy {
						if usedProxy[from.name] {
							skip = true
						}
						usedProxy[from.name] = true
						cls[k].ev["rcv"], cls[k].ev["rv"] = c.proxyMode(pre, from.addr)
					}
				}
				if skip {
					continue
				}
				txs = append(txs, c.build(from, cls))
			}
		}
		var raw []*tx.Transaction
		for _, t := range txs {
			raw = append(raw, t.t)
		}
		blk := c.mint(raw)
		if blk == nil {
			w.evs = append(w.evs, trace.Ev{"e": "ChainHalt", "n": w.block + 1, "ok": true, "msg": "", "amt": 0, "why": c.haltWhy, "post": w.snapshot()})
			w.stat.Events++
			w.stat.Emptied++
			break
		}
		c.parent = blk
		w.st = c.stateOf(blk)
		w.block = blk.Header().Number()
		w.stat.Blocks++
		// the long-lived node (real consensus.Process with its caches, real bft engine) imports the packer's block
		cons := "ok"
		if _, err := net.Nodes[0].Deliver(blk); err != nil {
			cons = err.Error()
		}
		evs := []trace.Ev{{"e": "Block", "n": w.block, "ok": true, "msg": "", "amt": w.block, "cons": cons}}
		// who was reported online / offline by the scheduler of this block
		for _, a := range w.vals {
			v, err := w.stk().GetValidation(a)
			must(err)
			off := int64(-1)
			if v != nil {
				off = optBlock(v.OfflineBlock)
			}
			if v != nil && v.Status == validation.StatusActive && off != c.offPrev[a] {
				evs = append(evs, trace.Ev{"e": "SetOnline", "a": w.name(a), "on": off < 0, "ok": true, "msg": "", "amt": 0})
			}
			c.offPrev[a] = off
		}
		rcs, err := net.God.Repo.GetBlockReceipts(blk.Header().ID())
		must(err)
		if len(rcs) != len(txs) {
			fail("chain: receipts do not match the transactions")
		}
		for i, t := range txs {
			rc := rcs[i]
			if t.silent {
				if rc.Reverted {
					fail("chain: a set-up transaction reverted in block", w.block)
				}
				continue
			}
			if t.sw >= 0 {
				if rc.Reverted {
					fail("chain: the executor could not set the switches")
				}
				c.switches = t.sw
				evs = append(evs, trace.Ev{"e": "SetSwitches", "v": t.sw, "ok": true, "msg": "", "amt": 0})
				continue
			}
			ev := trace.Ev{"e": "ChainTx", "from": t.from.name, "ok": !rc.Reverted, "msg": "", "amt": 0}
			var cs []any
			for j, cl := range t.clauses {
				ce := cl.ev
				ce["paid"], ce["id"] = 0, 0
				if !rc.Reverted {
					paid := new(big.Int)
					for _, tr := range rc.Outputs[j].Transfers {
						if tr.Sender == builtin.Staker.Address && tr.Recipient == t.from.addr {
							paid.Add(paid, tr.Amount)
						}
					}
					u := w.weiUnits(paid)
					if u < 0 {
						ev["bad"], ev["msg"] = true, "!error: a clause paid an amount that is not a whole number of units"
						u = 0
					}
					ce["paid"] = u
					if cl.pays {
						if u > 0 {
							w.stat.Withdrawals++
						} else {
							w.stat.ZeroWithdraw++
						}
					}
					for _, lg := range rc.Outputs[j].Events {
						if lg.Address == builtin.Staker.Address && len(lg.Topics) == 3 && lg.Topics[0] == c.delEvent {
							ce["id"] = new(big.Int).SetBytes(lg.Topics[2][:]).Uint64()
							w.ndel++
							w.stat.Delegations++
						}
					}
					if ce["e"] == "AddValidation" {
						w.stat.Validations++
					}
				}
				cs = append(cs, ce)
			}
			if rc.Reverted {
				w.stat.Reverts++
			}
			ev["cs"] = cs
			evs = append(evs, ev)
		}
		w.lastWasBlock = true
		evs[len(evs)-1]["post"] = w.snapshot()
		w.lastWasBlock = false
		w.evs = append(w.evs, evs...)
		w.stat.Events += len(evs)
	}
	return w
}
