package main

import (
	"bytes"
	"context"
	"sort"
	"sync"
	"sync/atomic"
	"time"

	"github.com/ethereum/go-ethereum/rlp"

	"github.com/vechain/thor/v2/block"
	"github.com/vechain/thor/v2/comm/proto"
	"github.com/vechain/thor/v2/p2p"
	"github.com/vechain/thor/v2/p2p/discover"
	"github.com/vechain/thor/v2/thor"

	"verifharness/internal/kvrec"
	"verifharness/internal/pipe"
	"verifharness/internal/trace"
)

// pair is one real Communicator.Sync run: a full local node against a full remote node (or a scripted hostile peer).
type pair struct {
	label   string
	sc      *scenario
	hostile fault // kind "" = honest real remote node
	local   *stack
	remote  *stack
	res     syncResult
}

type syncResult struct {
	Label     string `json:"label"`
	Hostile   string `json:"hostile"`
	Prefers   bool   `json:"prefers"`
	Converged bool   `json:"converged"`
	Synced    bool   `json:"syncedSignalled"`
	Timeout   bool   `json:"timeout"`
	Stalled   bool   `json:"stalled"` // connected to a peer with a preferred head, no request and no import for stallPolls polls
	IdlePolls int    `json:"idlePolls"`
	Looping   int    `json:"loopingFrom"` // > 0: the same GetBlocksFromNumber(from) was sent 5 times, nothing was imported
	Requests  int64  `json:"messagesOnTheWire"`
	ValidBest bool   `json:"validBest"`
	StoreOK   bool   `json:"storeOK"`
	Imported  int    `json:"imported"`
	Dropped   bool   `json:"peerDropped"`
	Faulty    int    `json:"faultyAnswers"`
	Rounds    int    `json:"downloadRounds"`
}

func (e *env) bigScenario(a, h int, remoteBr []*block.Block, label string) *scenario {
	sc := &scenario{A: a, H: h, R: a + len(remoteBr), refDig: map[int]string{}, label: label}
	sc.local = e.chainOf('l', a, h-a)
	sc.remote = append(append([]*block.Block{}, e.trunk[:a+1]...), remoteBr...)
	sc.xchain = e.branch('x', a, 1)
	sc.rk = newRanker(sc.local, sc.remote, sc.xchain)
	tpl := e.open(kvrec.New(), true, false)
	tpl.importAll(sc.local[1:])
	sc.template = tpl.kv
	tpl.close()
	return sc
}

func (e *env) runSyncPairs(n int, deep bool) {
	// ---- build everything sequentially (the minting stack is single threaded) --------------------------------
	var pairs []*pair
	add := func(sc *scenario, f fault) {
		label := sc.label
		if f.kind != "" {
			label += "/" + f.kind
		}
		pairs = append(pairs, &pair{label: label, sc: sc, hostile: f})
	}
	type shape struct{ a, dh, dr int }
	honest := []shape{{0, 0, 3}, {0, 2, 4}, {1, 3, 5}, {2, 0, 2}, {3, 6, 4}, {5, 1, 1}, {4, 0, 0}, {2, 3, 0}}
	if deep {
		for a := 0; a <= 8; a++ {
			honest = append(honest, shape{a, 1 + a%3, 2 + a%4}, shape{a, 7, 5})
		}
	}
	for _, sh := range honest {
		add(e.newScenario(sh.a, sh.a+sh.dh, sh.a+sh.dr, false), fault{})
	}
	add(e.newScenario(1, 3, 4, true), fault{}) // the remote holds the lighter branch: it must not be followed
	add(e.bigScenario(1, 3, e.bigBranch(1, 8, 200*1024), "bytes-A1-H3-R9"), fault{})
	add(e.bigScenario(3, 5, e.branch('r', 3, 1100), "count-A3-H5-R1103"), fault{})
	// a block larger than the server's whole 512 KB reply budget, first in a reply
	e.trunkTo(2)
	add(e.bigScenario(2, 3, e.dataBlocks(e.trunk[2], []int{600 * 1024, 0, 0}, 7_000_000), "huge-first-A2-H3-R5"), fault{})
	// forks tying exactly on total score, both id orders: the peer must be followed iff its id is the smaller one
	for _, tsc := range e.tieScenarios(4) {
		add(tsc, fault{})
	}
	for _, tsc := range e.tieScenarios(0) {
		add(tsc, fault{})
	}
	hsc := e.newScenario(1, 2, 6, false)
	for i, k := range []string{"undecodable", "invalid", "shiftback", "short", "struct", "dup", "orphan", "toolarge"} {
		add(hsc, fault{k, 1 + 2 + i%3, i})
	}
	if !deep && n < len(pairs) {
		// keep the honest spread and the hostile kinds: drop from the middle
		keep := append([]*pair{}, pairs[:n/2]...)
		pairs = append(keep, pairs[len(pairs)-(n-n/2):]...)
	}
	for _, p := range pairs {
		p.local = e.open(p.sc.template.Clone(), false, true)
		if p.hostile.kind == "" {
			p.remote = e.open(kvrec.New(), true, true)
			p.remote.importAll(p.sc.remote[1:])
		}
	}

	// ---- run all pairs concurrently (each touches only its own nodes) ---------------------------------------
	var wg sync.WaitGroup
	for i, p := range pairs {
		wg.Add(1)
		go func(i int, p *pair) {
			defer wg.Done()
			e.runPair(i, p)
		}(i, p)
	}
	wg.Wait()

	// ---- judge sequentially (reference nodes use shared machinery) -------------------------------------------
	var out []syncResult
	sort.SliceStable(pairs, func(i, j int) bool { return pairs[i].label < pairs[j].label })
	for _, p := range pairs {
		sc := p.sc
		r := &p.res
		best := p.local.best().ID()
		r.Prefers = p.hostile.kind == "" && sc.remote[sc.R].Header().BetterThan(sc.local[sc.H].Header())
		r.Converged = best == sc.remote[sc.R].Header().ID()
		j, holes := 0, false
		for h := sc.A + 1; h <= sc.R; h++ {
			if p.local.has(sc.remote[h].Header().ID()) {
				if h != sc.A+1+j {
					holes = true
				}
				j++
			}
		}
		r.Imported = j
		want, wantBest := e.refDigest(sc, j)
		r.StoreOK = !holes && p.local.kv.Digest() == want
		r.ValidBest = best == wantBest
		out = append(out, *r)
		lh, rh := sc.local[sc.H].Header(), sc.remote[sc.R].Header()
		ordL, ordR := 0, 0
		if c := bytes.Compare(lh.ID().Bytes(), rh.ID().Bytes()); c < 0 {
			ordR = 1
		} else if c > 0 {
			ordL = 1
		}
		where := "other"
		if best == lh.ID() {
			where = "l"
		} else if best == rh.ID() {
			where = "r"
		}
		e.emit(trace.Ev{"e": "SyncEnd", "case": p.label, "prefers": r.Prefers, "converged": r.Converged, "stalled": r.Stalled,
			"lhead": trace.Ev{"score": lh.TotalScore(), "ord": ordL}, "rhead": trace.Ev{"score": rh.TotalScore(), "ord": ordR},
			"best": where, "timeout": r.Timeout, "looping": r.Looping, "imported": r.Imported, "remoteOnly": sc.R - sc.A,
			"tie": sc.remote[sc.R].Header().TotalScore() == sc.local[sc.H].Header().TotalScore(),
			"H":   sc.H, "R": sc.R, "A": sc.A,
			"validBest": r.ValidBest, "storeOK": r.StoreOK, "hostile": p.hostile.kind, "dropped": r.Dropped})
		p.local.close()
		if p.remote != nil {
			p.remote.close()
		}
	}
	e.stats["pairs"] = out
}

func (e *env) runPair(i int, p *pair) {
	sc := p.sc
	r := &p.res
	r.Label, r.Hostile = p.label, p.hostile.kind
	le, re := pipe.New()
	var acts atomic.Int64 // messages that crossed the pipe, either way: the progress signal of the stall rule
	// GetBlocksFromNumber requests of the local node by start number: a download that is repeated from the same number
	// again and again without a single import in between is a sync loop that gets nowhere
	var reqMu sync.Mutex
	fromCount := map[uint32]int{}
	le.Tap = func(code uint64, payload []byte) {
		acts.Add(1)
		if code == proto.MsgGetBlocksFromNumber {
			if env, err := pipe.ParseEnvelope(payload); err == nil && !env.IsResult {
				var n uint32
				if rlp.DecodeBytes(env.Payload, &n) == nil {
					reqMu.Lock()
					fromCount[n]++
					reqMu.Unlock()
				}
			}
		}
	}
	re.Tap = func(uint64, []byte) { acts.Add(1) }
	lc := p.local.comm
	lc.Start()
	localServe := make(chan error, 1)
	go func() {
		localServe <- lc.Protocols()[0].Run(p2p.NewPeer(discover.NodeID{0x30, byte(i)}, "remote", nil), le)
	}()
	remoteDone := make(chan struct{})
	flog := &fetchLog{}
	var fp *fakePeer
	if p.remote != nil {
		p.remote.comm.Start()
		go func() {
			_ = p.remote.comm.Protocols()[0].Run(p2p.NewPeer(discover.NodeID{0x31, byte(i)}, "local", nil), re)
			re.Close() // the protocol handler returned: the p2p server drops the connection
			close(remoteDone)
		}()
	} else {
		// the hostile peer announces the head of a heavier chain, then misbehaves
		fp = &fakePeer{e: e, end: re, sc: sc, batch: 2, f: p.hostile, log: flog,
			annID: sc.remote[sc.R].Header().ID(), annScore: sc.remote[sc.R].Header().TotalScore() + 1000}
		go func() { fp.run(); close(remoteDone) }()
	}
	ctx, cancel := context.WithCancel(context.Background())
	syncDone := make(chan struct{})
	go func() {
		lc.Sync(ctx, p.local.node.VerifHandleBlockStream)
		close(syncDone)
	}()

	target := sc.remote[sc.R].Header().ID()
	prefers := sc.remote[sc.R].Header().BetterThan(sc.local[sc.H].Header())
	deadline := time.Now().Add(180 * time.Second) // absolute cap: harness trouble (exit 3 via "timeout"), never a verdict
	// stall rule: no message on the connection and no change of the local best for stallPolls consecutive polls of this
	// loop (each >= 50 ms, so at least six 2 s ticks of the sync timer) while the peer is in the peer set and still offers
	// a head the fork choice prefers. A slow but progressing download keeps resetting the count.
	const stallPolls = 260
	idlePolls, lastActs, lastBest := 0, int64(-1), thor.Bytes32{}
	handshake := false
	settle := time.Now().Add(5 * time.Second)
	faulty := func() int {
		flog.mu.Lock()
		defer flog.mu.Unlock()
		n := 0
		for _, ev := range flog.evs {
			if ev["bad"] == true || p.hostile.kind == "short" {
				n++
			}
		}
		return n
	}
loop:
	for {
		switch {
		case p.hostile.kind == "" && prefers && p.local.best().ID() == target:
			break loop // converged
		case p.hostile.kind == "" && !prefers && time.Now().After(settle):
			break loop // nothing to follow: two sync timer periods have passed
		case p.hostile.kind != "" && (faulty() >= 2 || (faulty() >= 1 && le.Closed())) && time.Now().After(settle):
			break loop
		}
		select {
		case <-lc.Synced():
			r.Synced = true
			break loop
		case err := <-localServe:
			// the node dropped the peer (servePeer returned)
			r.Dropped = true
			_ = err
			if p.hostile.kind == "" {
				break loop
			}
			time.Sleep(300 * time.Millisecond)
			break loop
		case <-time.After(50 * time.Millisecond):
		}
		if !handshake && lc.PeerCount() > 0 {
			handshake = true // the peer is in the peer set: every sync timer tick (2 s) may select it
			if p.hostile.kind == "" {
				// as a node that is up does: its own head goes out to the new peer (BroadcastBlock marks the peer as knowing
				// that block - which says nothing about the peer's best chain)
				lc.BroadcastBlock(sc.local[sc.H])
			}
		}
		if p.hostile.kind == "" && prefers {
			reqMu.Lock()
			for from, n := range fromCount {
				if n >= 5 && p.local.best().ID() == sc.local[sc.H].Header().ID() {
					r.Looping = int(from)
				}
			}
			reqMu.Unlock()
			if r.Looping > 0 {
				break loop
			}
		}
		if a, b := acts.Load(), p.local.best().ID(); a != lastActs || b != lastBest || !handshake {
			idlePolls, lastActs, lastBest = 0, a, b
		} else {
			idlePolls++
		}
		if p.hostile.kind == "" && prefers && handshake && idlePolls >= stallPolls && lc.PeerCount() > 0 &&
			p.remote.best().BetterThan(p.local.best()) {
			// six timer ticks of silence with a connected peer whose head the fork choice prefers
			r.Stalled = true
			r.IdlePolls = idlePolls
			break loop
		}
		if time.Now().After(deadline) {
			r.Timeout = true
			break loop
		}
	}
	cancel()
	select {
	case <-syncDone:
	case <-time.After(90 * time.Second):
		fail("Communicator.Sync of pair %s did not return after its context was cancelled", p.label)
	}
	le.Close()
	<-remoteDone
	if !r.Dropped {
		<-localServe
	}
	r.Faulty = faulty()
	r.Requests = acts.Load()
	flog.mu.Lock()
	r.Rounds = len(flog.evs)
	flog.mu.Unlock()
}
