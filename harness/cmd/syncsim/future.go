package main

// Mode "future": what the node does with pushed blocks it cannot import YET (specs/net/FutureBlocks.tla).
//
// A real node.Node runs through its real Node.Run (houseKeeping goroutine with the future-blocks ticker, handleBlockStream).
// Its communicator is a mock that hands NewBlockEvents to the channel houseKeeping subscribed with - the path comm uses -
// and can hold the houseKeeping goroutine inside BroadcastBlock (a slow broadcast). Block interval 2 s (the minimum),
// chain timestamps around the wall clock. What is logged: every push with the clock readings (seconds) before the push
// and after it was handled, what the node did with it (stored / cached / neither - read from repository and
// hook VerifFutureBlocks), the cache after it, and the state after retry rounds. No verdict depends on the wall clock:
// Trace_FutureBlocks.tla judges the node's decision against the timestamps and the clock window it was taken in.
//
// A wait that expires is harness trouble (exit 3).

import (
	"context"
	"fmt"
	"sort"
	"sync"
	"time"

	"github.com/ethereum/go-ethereum/event"

	"github.com/vechain/thor/v2/bft"
	"github.com/vechain/thor/v2/block"
	"github.com/vechain/thor/v2/chain"
	"github.com/vechain/thor/v2/cmd/thor/node"
	"github.com/vechain/thor/v2/comm"
	"github.com/vechain/thor/v2/consensus"
	"github.com/vechain/thor/v2/logdb"
	"github.com/vechain/thor/v2/muxdb"
	"github.com/vechain/thor/v2/packer"
	"github.com/vechain/thor/v2/state"
	"github.com/vechain/thor/v2/thor"

	"verifharness/internal/kvrec"
	"verifharness/internal/sim"
	"verifharness/internal/trace"
)

// fcomm is the communicator of the node under test.
type fcomm struct {
	mu         sync.Mutex
	ch         chan *comm.NewBlockEvent
	subscribed chan struct{}
	handler    comm.HandleBlockStream
	syncCalled chan struct{}
	out        []thor.Bytes32 // BroadcastBlock calls, in order
	gates      map[thor.Bytes32]chan struct{}
	held       chan thor.Bytes32
}

func newFcomm() *fcomm {
	return &fcomm{subscribed: make(chan struct{}), syncCalled: make(chan struct{}), gates: map[thor.Bytes32]chan struct{}{},
		held: make(chan thor.Bytes32, 8)}
}

func (c *fcomm) Sync(ctx context.Context, handler comm.HandleBlockStream) {
	c.mu.Lock()
	c.handler = handler
	c.mu.Unlock()
	close(c.syncCalled)
	<-ctx.Done()
}

func (c *fcomm) SubscribeBlock(ch chan *comm.NewBlockEvent) event.Subscription {
	c.mu.Lock()
	c.ch = ch
	c.mu.Unlock()
	close(c.subscribed)
	return event.NewSubscription(func(quit <-chan struct{}) error { <-quit; return nil })
}

func (c *fcomm) BroadcastBlock(blk *block.Block) {
	id := blk.Header().ID()
	c.mu.Lock()
	c.out = append(c.out, id)
	gate := c.gates[id]
	c.mu.Unlock()
	if gate != nil {
		c.held <- id
		<-gate // a slow broadcast: the houseKeeping goroutine sits here
	}
}
func (c *fcomm) PeerCount() int          { return 1 }
func (c *fcomm) Synced() <-chan struct{} { return nil }

type fnode struct {
	e     *env
	cm    *fcomm
	repo  *chain.Repository
	node  *node.Node
	stop  func()
	base0 uint64 // timestamps and clock readings are logged relative to this
	uni   map[thor.Bytes32]trace.Ev
	order []thor.Bytes32
	valid map[thor.Bytes32]bool
}

func waitOr(what string, ch <-chan struct{}, d time.Duration) {
	select {
	case <-ch:
	case <-time.After(d):
		fail("future: %s did not happen within %v", what, d)
	}
}

func (f *fnode) clock() int { return int(uint64(time.Now().Unix()) - f.base0) }

func (f *fnode) name(id thor.Bytes32) string {
	if id == f.e.net.B0.Header().ID() {
		return "g"
	}
	return f.e.name(id)
}

// reg puts a block into the universe of the run.
func (f *fnode) reg(b *block.Block, valid, bftOK bool) {
	id := b.Header().ID()
	if _, ok := f.uni[id]; ok {
		return
	}
	parent := "none"
	if b.Header().Number() > 0 {
		parent = f.name(b.Header().ParentID())
	}
	f.uni[id] = trace.Ev{"id": f.name(id), "num": b.Header().Number(), "parent": parent,
		"ts": int(b.Header().Timestamp()) - int(f.base0), "valid": valid, "bft": bftOK}
	f.order = append(f.order, id)
}

func (f *fnode) has(id thor.Bytes32) bool {
	_, err := f.repo.GetBlockSummary(id)
	return err == nil
}

func (f *fnode) cacheNames() []string {
	out := []string{}
	for _, id := range f.node.VerifFutureBlocks() {
		out = append(out, f.name(id))
	}
	sort.Strings(out)
	return out
}

func (f *fnode) storedNames() []string {
	out := []string{}
	for _, id := range f.order {
		if f.has(id) {
			out = append(out, f.name(id))
		}
	}
	sort.Strings(out)
	return out
}

// send hands a NewBlockEvent to the channel houseKeeping subscribed with; it returns when houseKeeping has taken it.
func (f *fnode) send(b *block.Block) {
	select {
	case f.cm.ch <- &comm.NewBlockEvent{Block: b}:
	case <-time.After(60 * time.Second):
		fail("future: houseKeeping did not take a NewBlockEvent within 60 s")
	}
}

// barrier: houseKeeping handles one thing at a time - when it takes the (stored, hence ignored) genesis block, whatever
// it was doing before is finished.
func (f *fnode) barrier() { f.send(f.e.net.B0) }

// push delivers b and logs what the node did with it.
func (f *fnode) push(b *block.Block, note string) string {
	id := b.Header().ID()
	wasStored := f.has(id)
	lo := f.clock()
	f.send(b)
	f.barrier()
	hi := f.clock()
	out := "dropped"
	cached := false
	for _, c := range f.node.VerifFutureBlocks() {
		if c == id {
			cached = true
		}
	}
	switch {
	case wasStored:
		out = "known"
	case f.has(id):
		out = "imported"
	case cached:
		out = "cached"
	}
	f.e.emit(trace.Ev{"e": "Push", "id": f.name(id), "lo": lo, "hi": hi, "out": out, "cache": f.cacheNames(), "note": note, "held": false})
	return out
}

func (e *env) runFuture(deep bool) {
	n := e.net
	T := thor.BlockInterval()
	if T != 2 {
		fail("future: block interval is %d", T)
	}
	// ---- main chain: 14 blocks in the past (finality reached), then one block near the wall clock ---------------------
	var m []*block.Block
	turn := 0
	propose := func(minTime uint64) *block.Block {
		turn++
		for try := 0; try < 8; try++ {
			for i := range n.Nodes {
				p := n.Nodes[(turn+i)%len(n.Nodes)] // every validator takes its turn: epochs get justified and committed
				if b, err := p.Propose(minTime); err == nil {
					must(n.GodLearn(b))
					for _, o := range n.Nodes {
						if o != p {
							if class, err := o.Deliver(b); err != nil {
								fail("future setup: delivery refused: %s %v", class, err)
							}
						}
					}
					return b
				}
			}
			minTime += T
		}
		fail("future setup: nobody could propose")
		return nil
	}
	for k := 0; k < 14; k++ {
		m = append(m, propose(0))
	}
	fin := block.Number(n.Nodes[0].BFT.Finalized())
	if fin < 4 {
		fail("future setup: finalized only %d", fin)
	}
	now := uint64(time.Now().Unix())
	k0 := propose(now - 8 - (now-n.Launch)%2)
	m = append(m, k0)
	if k0.Header().Timestamp() > now {
		fail("future setup: the head block is not in the past")
	}

	// ---- the node under test, through its real Node.Run ----------------------------------------------------------------
	acc := n.Devs[7]
	kv := kvrec.New()
	db := muxdb.NewWithEngine(kv, muxdb.VerifOptions{})
	stater := state.NewStater(db)
	b0, _, _, err := n.Gen.Build(stater)
	must(err)
	repo, err := chain.NewRepository(db, b0)
	must(err)
	ldb, err := logdb.NewMem()
	must(err)
	eng, err := bft.NewEngine(repo, db, n.FC, acc.Address)
	must(err)
	cm := newFcomm()
	nn := node.New(&node.Master{PrivateKey: acc.PrivateKey, Beneficiary: &acc.Address}, repo, eng, stater, ldb, &sim.Pool{},
		fmt.Sprintf("%s/stash-future", e.tmp), cm, n.FC, node.Options{SkipLogs: true}, consensus.New(repo, stater, n.FC),
		packer.New(repo, stater, acc.Address, &acc.Address, n.FC, 0))
	ctx, cancel := context.WithCancel(context.Background())
	runDone := make(chan error, 1)
	go func() { runDone <- nn.Run(ctx) }()
	waitOr("Node.Run subscribing to new blocks", cm.subscribed, 120*time.Second)
	waitOr("Node.Run calling Sync", cm.syncCalled, 120*time.Second)
	f := &fnode{e: e, cm: cm, repo: repo, node: nn, base0: n.Launch, uni: map[thor.Bytes32]trace.Ev{}, valid: map[thor.Bytes32]bool{}}
	f.stop = func() { cancel(); <-runDone; ldb.Close() }

	// the base chain arrives as a block stream (handleBlockStream)
	stream := make(chan *block.Block, len(m)+1)
	for _, b := range m {
		stream <- b
	}
	close(stream)
	if err := cm.handler(ctx, stream); err != nil {
		fail("future setup: handleBlockStream refused the base chain: %v", err)
	}
	if repo.BestBlockSummary().Header.ID() != k0.Header().ID() {
		fail("future setup: the node is not on the head of the base chain")
	}
	f.reg(n.B0, true, true)
	for _, b := range m {
		f.reg(b, true, true)
	}

	// ---- the blocks of the scenarios -------------------------------------------------------------------------------------
	// mint: the validator whose slot comes first at or after minTime signs
	mint := func(parent *block.Block, minTime uint64) *block.Block {
		ps, err := n.God.Repo.GetBlockSummary(parent.Header().ID())
		must(err)
		if minTime == 0 {
			minTime = parent.Header().Timestamp() + T
		}
		best, bestWhen := -1, uint64(0)
		for who := 0; who < 4; who++ {
			a := n.Devs[who]
			if flow, err := packer.New(n.God.Repo, n.God.Stater, a.Address, &a.Address, n.FC, 0).Schedule(ps, minTime); err == nil {
				if best < 0 || flow.When() < bestWhen {
					best, bestWhen = who, flow.When()
				}
			}
		}
		if best < 0 {
			fail("future: cannot schedule on block %d", parent.Header().Number())
		}
		b, err := n.Mint(parent.Header().ID(), best, false, minTime)
		must(err)
		return b
	}
	now = uint64(time.Now().Unix())
	even := func(t uint64) uint64 { return t - (t-n.Launch)%2 }
	tA := even(now + 12) // first block of the future chain: 12 s ahead; the pushes below take about a second (more under load)
	a1 := mint(k0, tA)
	a2 := mint(a1, a1.Header().Timestamp()+T)
	a3 := mint(a2, a2.Header().Timestamp()+T)
	z := mint(k0, 0) // a sibling of a1 that is importable at once
	if z.Header().Timestamp() > now {
		fail("future: the sibling block is not in the past")
	}
	var fillers []*block.Block
	for j := 0; j < 33; j++ {
		fillers = append(fillers, mint(k0, even(now+600+uint64(2*j)*4)))
	}
	sgn := n.SignerOf(a1.Header())
	inv := resign(mint(k0, even(now+40)), sgn, e, func(bb *block.Builder) { bb.StateRoot(thor.Bytes32{0xba, 0xd0}) })
	below := m[fin-3]               // a block below the finalized checkpoint
	x := mint(below, 0)             // fork off it: refused by finality
	xf := mint(below, even(now+50)) // the same, and ahead of the clock
	y := mint(x, even(now+60))      // child of the refused block, ahead of the clock
	for _, b := range []*block.Block{a1, a2, a3, z, y} {
		f.reg(b, true, true)
	}
	for _, b := range fillers {
		f.reg(b, true, true)
	}
	f.reg(inv, false, true)
	f.reg(x, true, false)
	f.reg(xf, true, false)
	// y: its parent x is never stored; whether finality would accept it never comes up

	uni := []trace.Ev{}
	for _, id := range f.order {
		uni = append(uni, f.uni[id])
	}
	e.emit(trace.Ev{"e": "FReset", "T": int(T), "cap": 32, "universe": uni, "stored": f.storedNames(), "maxNum": k0.Header().Number(),
		"clock": f.clock(), "finalized": fin})

	res := map[string]any{"finalized": fin}
	outs := map[string]string{}
	do := func(b *block.Block, note string) { outs[note] = f.push(b, note) }
	// 1. child first: the descendants of a future block arrive before it
	do(a3, "a3-before-its-ancestors")
	do(a2, "a2-before-its-parent")
	// 2. finality: a fork below the finalized checkpoint - in the past, ahead of the clock, and a future child of it
	do(x, "fork-below-finalized")
	do(xf, "future-fork-below-finalized")
	do(y, "future-child-of-refused-block")
	// 3. duplicates of stored blocks
	do(k0, "stored-head-again")
	do(m[3], "old-stored-block-again")
	// 4. the cache fills up: 29 blocks far ahead of the clock, an invalid future block, then the chain a1 <- a2 <- a3
	for j := 0; j < 29; j++ {
		do(fillers[j], fmt.Sprintf("filler-%d", j))
	}
	do(inv, "invalid-block-ahead-of-the-clock")
	do(a1, "a1")
	do(a1, "a1-again")
	do(a2, "a2-parent-cached")
	do(a3, "a3-parent-cached-overflow") // the 33rd entry: one entry is thrown out at random
	do(fillers[29], "filler-29-overflow")
	if deep {
		for j := 30; j < 33; j++ {
			do(fillers[j], fmt.Sprintf("filler-%d-overflow", j))
		}
	}
	// (if the pushes took so long that a1 was no longer ahead of the clock it was imported at once: still a valid record,
	// the one-round scenario is then void for this run - "chainWasCached" in the stats says so)
	res["chainWasCached"] = outs["a1"] == "cached" && outs["a2-parent-cached"] == "cached"
	// 5. a slow broadcast holds the houseKeeping goroutine until a1, a2, a3 are all within the clock
	gate := make(chan struct{})
	cm.mu.Lock()
	cm.gates[z.Header().ID()] = gate
	cm.mu.Unlock()
	lo := f.clock()
	f.send(z)
	select {
	case <-cm.held:
	case <-time.After(60 * time.Second):
		fail("future: the sibling block was not imported and broadcast")
	}
	e.emit(trace.Ev{"e": "Push", "id": f.name(z.Header().ID()), "lo": lo, "hi": f.clock(), "out": "imported", "cache": f.cacheNames(),
		"note": "importable-sibling-slow-broadcast", "held": true})
	admissibleAt := a3.Header().Timestamp() - T + 1
	for uint64(time.Now().Unix()) < admissibleAt {
		time.Sleep(50 * time.Millisecond)
	}
	e.emit(trace.Ev{"e": "Release", "lo": f.clock()})
	close(gate)
	// the first retry round after the release: wait for its first effect, then for its end
	chainCached := outs["a1"] == "cached"
	deadline := time.Now().Add(60 * time.Second)
	for chainCached && !f.has(a1.Header().ID()) {
		stillCached := false
		for _, c := range nn.VerifFutureBlocks() {
			if c == a1.Header().ID() {
				stillCached = true
			}
		}
		if !stillCached {
			break // thrown out of the cache earlier: nothing to wait for
		}
		if time.Now().After(deadline) {
			fail("future: no retry round imported the cached block a1 within 60 s of its becoming admissible")
		}
		time.Sleep(2 * time.Millisecond)
	}
	f.barrier()
	e.emit(trace.Ev{"e": "Round", "hi": f.clock(), "stored": f.storedNames(), "cache": f.cacheNames()})
	res["chainImportedInOneRound"] = f.has(a3.Header().ID())

	// 6. exactly at the edge: a block whose timestamp is now + interval is NOT ahead of the clock
	exact := 0
	for try := 0; try < 4 && exact == 0; try++ {
		best, err := n.God.Repo.GetBlock(repo.BestBlockSummary().Header.ID())
		must(err)
		target := even(uint64(time.Now().Unix()) + 4)
		if target <= best.Header().Timestamp() {
			target = best.Header().Timestamp() + T
		}
		var eb *block.Block
		for who := 0; who < 4 && eb == nil; who++ {
			if b, err := n.Mint(best.Header().ID(), who, false, target); err == nil && b.Header().Timestamp() == target {
				eb = b
			}
		}
		if eb == nil {
			continue
		}
		f.reg(eb, true, true)
		e.emit(trace.Ev{"e": "Universe", "add": f.uni[eb.Header().ID()]})
		for { // early in the second target - T
			t := time.Now()
			if uint64(t.Unix()) >= target-T {
				if uint64(t.Unix()) == target-T && t.Nanosecond() < 300_000_000 {
					break
				}
				if uint64(t.Unix()) > target-T || t.Nanosecond() >= 300_000_000 {
					break // missed the window: pushed anyway, the clock window says so
				}
			}
			time.Sleep(5 * time.Millisecond)
		}
		before := f.clock()
		f.push(eb, "timestamp-equals-now-plus-interval")
		if before == f.clock() && uint64(before)+f.base0 == target-T {
			exact++
		}
	}
	res["edgePushesInOneSecond"] = exact
	// 7. the next rounds: whatever is left and admissible (a chain that lost its head stays)
	time.Sleep(2500 * time.Millisecond)
	f.barrier()
	e.emit(trace.Ev{"e": "Round", "hi": f.clock(), "stored": f.storedNames(), "cache": f.cacheNames()})
	e.emit(trace.Ev{"e": "FEnd"})
	res["outcomes"] = outs
	res["cacheAtEnd"] = len(nn.VerifFutureBlocks())
	res["broadcasts"] = len(cm.out)
	e.stats["future"] = res
	f.stop()
}
