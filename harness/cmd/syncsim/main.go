// Command syncsim drives the REAL synchronisation code of thor (comm.download via hook H6, Communicator.Sync,
// rpc.Serve/handleRPC) between in-process full nodes (internal/sim genesis + real node.Node over kvrec) and records
// what happened as a trace for specs/net/Trace_Sync.tla.
//
//	-mode dl    download cases: honest real Communicator and scripted hostile peers, every fault kind x position
//	-mode sync  real Communicator.Sync between two full nodes (timer bound, pairs run concurrently)
//	-mode msg   every message code x payload class through rpc.Serve -> handleRPC of a node
//
// Output: <out>/trace.ndjson, <out>/stats.json. Deterministic in -seed (no wall-clock values are written).
package main

import (
	"bytes"
	"encoding/json"
	"flag"
	"fmt"
	"math/rand"
	"os"
	"path/filepath"
	"sort"
	"sync"
	"time"

	"github.com/vechain/thor/v2/bft"
	"github.com/vechain/thor/v2/block"
	"github.com/vechain/thor/v2/chain"
	"github.com/vechain/thor/v2/cmd/thor/node"
	"github.com/vechain/thor/v2/comm"
	"github.com/vechain/thor/v2/consensus"
	"github.com/vechain/thor/v2/logdb"
	"github.com/vechain/thor/v2/muxdb"
	"github.com/vechain/thor/v2/packer"
	"github.com/vechain/thor/v2/state"
	"github.com/vechain/thor/v2/thor"
	"github.com/vechain/thor/v2/tx"
	"github.com/vechain/thor/v2/txpool"

	"verifharness/internal/kvrec"
	"verifharness/internal/sim"
	"verifharness/internal/trace"
)

func fail(f string, a ...any) {
	fmt.Printf("HARNESS-ERROR "+f+"\n", a...)
	os.Exit(3)
}

func must(err error) {
	if err != nil {
		fail("%v", err)
	}
}

// env is the shared world: one genesis, one omniscient minting stack (sim.Net.God), an id interner, the trace.
type env struct {
	net   *sim.Net
	tmp   string
	rng   *rand.Rand
	mu    sync.Mutex // guards w, names
	w     *trace.Writer
	names *trace.Interner
	stats map[string]any
	trunk []*block.Block
	br    map[string][]*block.Block // "l:<A>", "r:<A>", "x:<A>" -> blocks at heights A+1..
}

// stack is one real full node: muxdb over kvrec, repository, stater, bft engine, consensus, packer, node.Node,
// optionally a real comm.Communicator with a real tx pool.
type stack struct {
	kv     *kvrec.Engine
	db     *muxdb.MuxDB
	repo   *chain.Repository
	stater *state.Stater
	ldb    *logdb.LogDB
	bft    *bft.Engine
	node   *node.Node
	comm   *comm.Communicator
	pool   *txpool.TxPool
}

// open assembles a node exactly as sim.OpenNodeErr / cmd/thor do, but with a real Communicator when withComm.
func (e *env) open(kv *kvrec.Engine, fresh, withComm bool) *stack {
	n := e.net
	acc := n.Devs[7] // not an authority: this node never packs
	db := muxdb.NewWithEngine(kv, muxdb.VerifOptions{})
	stater := state.NewStater(db)
	b0 := n.B0
	if fresh {
		var err error
		b0, _, _, err = n.Gen.Build(stater)
		must(err)
		if b0.Header().ID() != n.B0.Header().ID() {
			fail("genesis mismatch")
		}
	}
	repo, err := chain.NewRepository(db, b0)
	must(err)
	ldb, err := logdb.NewMem()
	must(err)
	eng, err := bft.NewEngine(repo, db, n.FC, acc.Address)
	must(err)
	cons := consensus.New(repo, stater, n.FC)
	pk := packer.New(repo, stater, acc.Address, &acc.Address, n.FC, 0)
	s := &stack{kv: kv, db: db, repo: repo, stater: stater, ldb: ldb, bft: eng}
	var cm node.Communicator = &sim.Comm{}
	var pool txpool.Pool = &sim.Pool{}
	if withComm {
		s.pool = txpool.New(repo, stater, txpool.Options{Limit: 200, LimitPerAccount: 32, MaxLifetime: time.Hour}, n.FC)
		s.comm = comm.New(repo, s.pool)
		cm, pool = s.comm, s.pool
	}
	s.node = node.New(&node.Master{PrivateKey: acc.PrivateKey, Beneficiary: &acc.Address}, repo, eng, stater, ldb, pool,
		filepath.Join(e.tmp, "stash"), cm, n.FC, node.Options{SkipLogs: true}, cons, pk)
	must(s.node.VerifInit())
	return s
}

func (s *stack) close() {
	if s.comm != nil {
		s.comm.Stop()
	}
	if s.pool != nil {
		s.pool.Close()
	}
	s.node.VerifClose()
	s.ldb.Close()
}

// importAll feeds blocks through the real import path; every block has to be accepted.
func (s *stack) importAll(blks []*block.Block) {
	for _, b := range blks {
		if _, class, err := s.node.VerifProcessBlock(b); err != nil || class != "ok" {
			fail("setup import of block %d refused: class=%s err=%v", b.Header().Number(), class, err)
		}
	}
}

func (s *stack) best() *block.Header { return s.repo.BestBlockSummary().Header }

func (s *stack) has(id thor.Bytes32) bool {
	_, err := s.repo.GetBlockSummary(id)
	return err == nil
}

// ---- block tree ---------------------------------------------------------------------------------------------

// trunkTo extends the common trunk (signers 0 and 1 in slot order, validator 2 never signs: no epoch is ever justified,
// so the fork choice is (total score, id) as in Sync.tla).
func (e *env) trunkTo(n int) {
	for len(e.trunk) <= n {
		i := len(e.trunk)
		b, err := e.net.Mint(e.trunk[i-1].Header().ID(), e.heavySigner(e.trunk[i-1]), false, 0)
		must(err)
		e.trunk = append(e.trunk, b)
	}
}

// branch returns the first n blocks of branch kind ('l' local: signer 0 only, light; 'r' remote: signers 0/1 in slot
// order, heavy; 'x': a third branch used to serve blocks with an unknown parent) above trunk height a.
func (e *env) branch(kind byte, a, n int) []*block.Block {
	e.trunkTo(a)
	key := fmt.Sprintf("%c:%d", kind, a)
	cur := e.br[key]
	for len(cur) < n {
		parent := e.trunk[a]
		if len(cur) > 0 {
			parent = cur[len(cur)-1]
		}
		who, minTime := 0, uint64(0)
		switch kind {
		case 'r':
			who = e.heavySigner(parent)
		case 'l':
			if len(cur) == 0 { // the light branch leaves the trunk one slot after the heavy one: the two never share a block
				minTime = e.branch('r', a, 1)[0].Header().Timestamp() + thor.BlockInterval()
			}
		case 'x':
			who = 1
			minTime = parent.Header().Timestamp() + 7*thor.BlockInterval()
		}
		b, err := e.net.Mint(parent.Header().ID(), who, false, minTime)
		must(err)
		cur = append(cur, b)
	}
	e.br[key] = cur
	return cur[:n]
}

// heavySigner picks, among validators 0 and 1, the one whose slot comes first after parent: nobody but the
// never-signing validator 2 is deactivated, so the block gets the highest score available (TotalScore() of the flow).
func (e *env) heavySigner(parent *block.Block) int {
	g := e.net.God
	ps, err := g.Repo.GetBlockSummary(parent.Header().ID())
	must(err)
	best, bestScore, bestWhen := 0, uint64(0), uint64(0)
	for who := 0; who < 2; who++ {
		acc := e.net.Devs[who]
		flow, err := packer.New(g.Repo, g.Stater, acc.Address, &acc.Address, e.net.FC, 0).Schedule(ps, parent.Header().Timestamp()+thor.BlockInterval())
		must(err)
		if flow.TotalScore() > bestScore || (flow.TotalScore() == bestScore && flow.When() < bestWhen) {
			best, bestScore, bestWhen = who, flow.TotalScore(), flow.When()
		}
	}
	return best
}

// chainOf returns trunk[0..a] followed by the first n blocks of the branch.
func (e *env) chainOf(kind byte, a, n int) []*block.Block {
	br := e.branch(kind, a, n)
	out := append([]*block.Block{}, e.trunk[:a+1]...)
	return append(out, br...)
}

// dataBlocks mints, on top of parent, one block per entry of sizes carrying a transaction with that many bytes of
// (zero) call data; 0 = an empty block. Signers are picked for the highest score, as on the heavy branch.
func (e *env) dataBlocks(parent *block.Block, sizes []int, nonceBase uint64) []*block.Block {
	var out []*block.Block
	for i, size := range sizes {
		var txs []*tx.Transaction
		if size > 0 {
			to := e.net.Devs[9].Address
			trx := tx.NewBuilder(tx.TypeLegacy).ChainTag(e.net.God.Repo.ChainTag()).
				Clause(tx.NewClause(&to).WithData(make([]byte, size))).
				Gas(uint64(200000 + size*4)).Expiration(1000000).Nonce(nonceBase + uint64(i)).
				BlockRef(tx.NewBlockRef(0)).GasPriceCoef(0).Build()
			txs = append(txs, tx.MustSign(trx, e.net.Devs[8].PrivateKey))
		}
		b, err := e.net.Mint(parent.Header().ID(), e.heavySigner(parent), false, 0, txs...)
		must(err)
		out = append(out, b)
		parent = b
	}
	return out
}

// bigBranch mints a branch above trunk[a] whose n blocks each carry `size` bytes of data (batch limit by bytes).
func (e *env) bigBranch(a, n, size int) []*block.Block {
	e.trunkTo(a)
	sizes := make([]int, n)
	for i := range sizes {
		sizes[i] = size
	}
	return e.dataBlocks(e.trunk[a], sizes, uint64(100000*a+size))
}

// ---- trace helpers ------------------------------------------------------------------------------------------

func (e *env) name(id thor.Bytes32) string {
	e.mu.Lock()
	defer e.mu.Unlock()
	return e.names.Name(id.Bytes())
}

// ranker gives each block id its rank in byte order among the ids of one case (Header.BetterThan tie-break).
type ranker map[thor.Bytes32]int

func newRanker(sets ...[]*block.Block) ranker {
	var ids []thor.Bytes32
	seen := map[thor.Bytes32]bool{}
	for _, s := range sets {
		for _, b := range s {
			if id := b.Header().ID(); !seen[id] {
				seen[id] = true
				ids = append(ids, id)
			}
		}
	}
	sort.Slice(ids, func(i, j int) bool { return bytes.Compare(ids[i][:], ids[j][:]) < 0 })
	r := ranker{}
	for i, id := range ids {
		r[id] = i
	}
	return r
}

// rec is the record of a block as Sync.tla sees it.
func (e *env) rec(b *block.Block, kind string, rk ranker) trace.Ev {
	h := b.Header()
	parent := "none"
	if h.Number() > 0 {
		parent = e.name(h.ParentID())
	}
	return trace.Ev{"id": e.name(h.ID()), "num": h.Number(), "parent": parent, "kind": kind,
		"score": h.TotalScore(), "ord": rk[h.ID()]}
}

func (e *env) emit(evs ...trace.Ev) {
	e.mu.Lock()
	for _, ev := range evs {
		e.w.Emit(ev)
	}
	e.mu.Unlock()
}

func main() {
	out := flag.String("out", ".", "output directory")
	seed := flag.Int64("seed", 1, "seed")
	mode := flag.String("mode", "dl", "dl | sync | msg | gossip | bft | pos | future")
	amax := flag.Int("amax", 4, "dl: largest divergence height")
	deep := flag.Bool("deep", false, "thorough tier: more scenarios, long chains")
	pairs := flag.Int("pairs", 12, "sync: number of concurrent node pairs")
	nrand := flag.Int("rand", 40, "msg: random payloads per message code")
	flag.Parse()

	tmp, err := os.MkdirTemp("", "verif-syncsim-")
	must(err)
	defer os.RemoveAll(tmp)
	// validators 0..2 are authorities (2 never signs), 7 is the master of the syncing nodes, 8/9 send/receive txs
	opts := sim.Options{Validators: 3, Nodes: 1, EpochLength: 1_000_000, ExtraAccts: 7,
		LaunchTime: sim.DefaultLaunch + uint64(*seed%1000)*thor.BlockInterval()}
	if *mode == "bft" || *mode == "pos" {
		// finality matters: 4 validators that all run a (simulator) node, epochs of 3 blocks; "pos": staking from genesis
		opts = sim.Options{Validators: 4, Nodes: 4, EpochLength: 3, ExtraAccts: 6, PoS: *mode == "pos",
			LaunchTime: sim.DefaultLaunch + uint64(*seed%1000)*thor.BlockInterval()}
	}
	if *mode == "future" {
		// blocks "ahead of the local clock": the chain ends near the wall clock, the block interval (= period of the
		// housekeeping retry, = how far ahead a block may be) is the minimum the code allows
		thor.SetConfig(thor.Config{BlockInterval: 2})
		launch := uint64(time.Now().Unix()) - 160
		opts = sim.Options{Validators: 4, Nodes: 4, EpochLength: 3, ExtraAccts: 6, LaunchTime: launch - launch%2}
	}
	net := sim.NewNet(opts)
	e := &env{net: net, tmp: tmp, rng: rand.New(rand.NewSource(*seed)), w: &trace.Writer{},
		names: trace.NewInterner("b"), stats: map[string]any{}, trunk: []*block.Block{net.B0}, br: map[string][]*block.Block{}}

	switch *mode {
	case "dl":
		e.runDownloads(*amax, *deep)
	case "sync":
		e.runSyncPairs(*pairs, *deep)
	case "msg":
		e.runMessages(*nrand)
	case "gossip":
		e.runGossip(*deep)
	case "bft", "pos":
		e.runBFT(*mode, *deep)
	case "future":
		e.runFuture(*deep)
	default:
		fail("unknown mode %s", *mode)
	}
	must(os.MkdirAll(*out, 0o755))
	must(e.w.WriteFile(filepath.Join(*out, "trace.ndjson")))
	js, _ := json.MarshalIndent(e.stats, "", " ")
	must(os.WriteFile(filepath.Join(*out, "stats.json"), js, 0o644))
	fmt.Printf("syncsim %s: %d events\n", *mode, len(e.w.Events))
}
