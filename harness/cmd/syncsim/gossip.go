package main

// Mode "gossip": block and transaction propagation between real Communicators (growth beyond C19, specs/net/Gossip.tla).
//
// N real full nodes (real node import, real tx pool, real Communicator with its announcement / tx loops) are connected by
// in-process pipes. Every propagation message that is written to or read from a pipe (MsgNewBlock, MsgNewBlockID, MsgNewTx,
// MsgGetBlockByID + answer, MsgGetTxs + answer) is logged with its arguments under one global lock, together with the
// stimuli of the driver (Produce, TxSubmit, Connect, hostile messages) and what the nodes did with posted blocks (Import).
// At the end of a run, with the network at rest, the per-peer "known" marks of every node (hook comm.VerifPeerMarks), the
// chain and the pool of every node are dumped. Trace_Gossip.tla re-derives all of it.
//
// Ids in the trace: 1..999 valid blocks, 2000.. bogus/invalid blocks, 3000.. valid txs, 4000.. invalid txs.

import (
	"context"
	"fmt"
	"io"
	"sort"
	"sync"
	"sync/atomic"
	"time"

	"github.com/ethereum/go-ethereum/event"
	"github.com/ethereum/go-ethereum/rlp"

	"github.com/vechain/thor/v2/block"
	"github.com/vechain/thor/v2/comm"
	"github.com/vechain/thor/v2/comm/proto"
	"github.com/vechain/thor/v2/p2p"
	"github.com/vechain/thor/v2/p2p/discover"
	"github.com/vechain/thor/v2/packer"
	"github.com/vechain/thor/v2/thor"
	"github.com/vechain/thor/v2/tx"

	"verifharness/internal/kvrec"
	"verifharness/internal/pipe"
	"verifharness/internal/trace"
)

const hostileIdx = 9

type gnode struct {
	idx    int
	st     *stack
	nid    discover.NodeID
	feed   chan *comm.NewBlockEvent
	sub    event.Subscription
	quit   chan struct{}
	done   chan struct{}
	cancel context.CancelFunc
	dig0   string
}

type glink struct {
	a, b   int
	ea, eb *pipe.End
	pend   sync.Map // "<requester>/<callID>" -> requested id (int)
	runs   sync.WaitGroup
}

type gnet struct {
	e     *env
	run   int
	label string
	nodes map[int]*gnode
	links []*glink
	mu    sync.Mutex
	evs   []trace.Ev
	bid   map[thor.Bytes32]int
	tid   map[thor.Bytes32]int
	nB    int // valid blocks registered
	nZ    int // bogus blocks
	nT    int
	nX    int
	last  atomic.Int64
	msgs  int
	base  map[thor.Bytes32]bool // blocks every node holds at the start of the run
}

func (g *gnet) log(ev trace.Ev) {
	g.mu.Lock()
	g.evs = append(g.evs, ev)
	g.mu.Unlock()
}

func (g *gnet) touch() { g.last.Store(time.Now().UnixNano()) }

// waitIdle waits until no propagation message has crossed a pipe for `idle`.
func (g *gnet) waitIdle(idle, max time.Duration) {
	deadline := time.Now().Add(max)
	for time.Now().Before(deadline) {
		if time.Since(time.Unix(0, g.last.Load())) >= idle {
			return
		}
		time.Sleep(10 * time.Millisecond)
	}
}

func (g *gnet) regBlock(id thor.Bytes32, valid bool) int {
	g.mu.Lock()
	defer g.mu.Unlock()
	if v, ok := g.bid[id]; ok {
		return v
	}
	if valid {
		g.nB++
		g.bid[id] = g.nB
	} else {
		g.nZ++
		g.bid[id] = 2000 + g.nZ
	}
	return g.bid[id]
}

func (g *gnet) regTx(h thor.Bytes32, valid bool) int {
	g.mu.Lock()
	defer g.mu.Unlock()
	if v, ok := g.tid[h]; ok {
		return v
	}
	if valid {
		g.nT++
		g.tid[h] = 3000 + g.nT
	} else {
		g.nX++
		g.tid[h] = 4000 + g.nX
	}
	return g.tid[h]
}

// classify turns a message crossing the pipe from `from` to `to` into its trace form; ok=false: not a propagation message.
func (g *gnet) classify(l *glink, from, to int, code uint64, payload []byte, reading bool) (trace.Ev, bool) {
	env, err := pipe.ParseEnvelope(payload)
	if err != nil {
		return nil, false
	}
	ev := trace.Ev{"id": 0, "set": []int{}}
	switch code {
	case proto.MsgNewBlockID:
		if env.IsResult {
			return nil, false
		}
		var id thor.Bytes32
		if rlp.DecodeBytes(env.Payload, &id) != nil {
			return nil, false
		}
		ev["t"], ev["id"] = "ann", g.regBlock(id, false)
	case proto.MsgNewBlock:
		if env.IsResult {
			return nil, false
		}
		var b block.Block
		if rlp.DecodeBytes(env.Payload, &b) != nil {
			return nil, false
		}
		ev["t"], ev["id"] = "full", g.regBlock(b.Header().ID(), false)
	case proto.MsgNewTx:
		if env.IsResult {
			return nil, false
		}
		var t tx.Transaction
		if rlp.DecodeBytes(env.Payload, &t) != nil {
			return nil, false
		}
		ev["t"], ev["id"] = "tx", g.regTx(t.Hash(), false)
	case proto.MsgGetBlockByID:
		if !env.IsResult {
			var id thor.Bytes32
			if rlp.DecodeBytes(env.Payload, &id) != nil {
				return nil, false
			}
			n := g.regBlock(id, false)
			l.pend.Store(fmt.Sprintf("%d/%d", from, env.CallID), n)
			ev["t"], ev["id"] = "get", n
		} else {
			key := fmt.Sprintf("%d/%d", to, env.CallID)
			req, ok := l.pend.Load(key)
			if !ok {
				return nil, false
			}
			if reading {
				l.pend.Delete(key)
			}
			var raws []rlp.RawValue
			if rlp.DecodeBytes(env.Payload, &raws) != nil || len(raws) == 0 {
				ev["t"], ev["id"] = "nil", req.(int)
			} else {
				var b block.Block
				if len(raws) > 1 || rlp.DecodeBytes(raws[0], &b) != nil {
					ev["t"], ev["id"] = "blk", 2999 // not a single decodable block
				} else {
					ev["t"], ev["id"] = "blk", g.regBlock(b.Header().ID(), false)
				}
			}
		}
	case proto.MsgGetTxs:
		if !env.IsResult {
			ev["t"] = "gettxs"
		} else {
			var txs tx.Transactions
			if rlp.DecodeBytes(env.Payload, &txs) != nil {
				return nil, false
			}
			set := []int{}
			for _, t := range txs {
				set = append(set, g.regTx(t.Hash(), false))
			}
			sort.Ints(set)
			ev["t"], ev["set"] = "txs", set
		}
	default:
		return nil, false
	}
	return ev, true
}

func (g *gnet) tap(l *glink, end *pipe.End, from, to int) {
	end.Tap = func(code uint64, payload []byte) {
		if ev, ok := g.classify(l, from, to, code, payload, false); ok {
			ev["e"], ev["from"], ev["to"] = "Send", from, to
			g.touch()
			g.log(ev)
			g.mu.Lock()
			g.msgs++
			g.mu.Unlock()
		}
	}
}

func (g *gnet) readTap(l *glink, end *pipe.End, at, from int) {
	end.OnRead = func(code uint64, payload []byte) {
		if ev, ok := g.classify(l, from, at, code, payload, true); ok {
			ev["e"], ev["at"], ev["to"], ev["from"] = "Recv", at, at, from
			g.touch()
			g.log(ev)
		}
	}
}

// newGnet builds `n` honest nodes holding the chain `base` (blocks after genesis).
func (e *env) newGnet(run int, label string, n int, base []*block.Block) *gnet {
	g := &gnet{e: e, run: run, label: label, nodes: map[int]*gnode{}, bid: map[thor.Bytes32]int{}, tid: map[thor.Bytes32]int{},
		base: map[thor.Bytes32]bool{e.net.B0.Header().ID(): true}}
	for _, b := range base {
		g.base[b.Header().ID()] = true
	}
	g.touch()
	for i := 1; i <= n; i++ {
		st := e.open(kvrec.New(), true, true)
		st.importAll(base)
		nd := &gnode{idx: i, st: st, nid: discover.NodeID{0x60, byte(run), byte(i)}, feed: make(chan *comm.NewBlockEvent, 64),
			quit: make(chan struct{}), done: make(chan struct{})}
		nd.sub = st.comm.SubscribeBlock(nd.feed)
		st.comm.Start()
		nd.dig0 = st.kv.Digest()
		g.nodes[i] = nd
		go g.houseKeeping(nd)
	}
	return g
}

// houseKeeping is node.houseKeeping/handleNewBlock for posted blocks: processBlock, re-broadcast what became trunk.
func (g *gnet) houseKeeping(nd *gnode) {
	defer close(nd.done)
	for {
		select {
		case <-nd.quit:
			return
		case ev := <-nd.feed:
			isTrunk, class, err := nd.st.node.VerifProcessBlock(ev.Block)
			ok := err == nil && class == "ok"
			g.touch()
			g.log(trace.Ev{"e": "Import", "n": nd.idx, "b": g.regBlock(ev.Block.Header().ID(), false), "ok": ok, "trunk": ok && isTrunk, "class": class})
			if ok && isTrunk {
				nd.st.comm.BroadcastBlock(ev.Block)
			}
		}
	}
}

func (g *gnet) reset() {
	links := [][]int{}
	for _, l := range g.links {
		links = append(links, []int{l.a, l.b})
	}
	base := []int{}
	g.mu.Lock()
	for id, v := range g.bid {
		if g.base[id] && v < 1000 {
			base = append(base, v)
		}
	}
	g.mu.Unlock()
	sort.Ints(base)
	g.log(trace.Ev{"e": "GReset", "case": g.label, "links": links, "base": base})
}

// connect brings up a link between honest nodes a and b and waits for the handshake.
func (g *gnet) connect(a, b int, logIt bool) {
	l := &glink{a: a, b: b}
	l.ea, l.eb = pipe.New()
	g.tap(l, l.ea, a, b)
	g.tap(l, l.eb, b, a)
	g.readTap(l, l.ea, a, b)
	g.readTap(l, l.eb, b, a)
	g.links = append(g.links, l)
	if logIt {
		g.log(trace.Ev{"e": "Connect", "n": a, "p": b})
	}
	na, nb := g.nodes[a], g.nodes[b]
	l.runs.Add(2)
	go func() {
		defer l.runs.Done()
		_ = na.st.comm.Protocols()[0].Run(p2p.NewPeer(nb.nid, fmt.Sprintf("n%d", b), nil), l.ea)
		l.ea.Close()
	}()
	go func() {
		defer l.runs.Done()
		_ = nb.st.comm.Protocols()[0].Run(p2p.NewPeer(na.nid, fmt.Sprintf("n%d", a), nil), l.eb)
		l.eb.Close()
	}()
	deadline := time.Now().Add(10 * time.Second)
	for {
		fa, _, _ := na.st.comm.VerifPeerMarks(nb.nid, nil, nil)
		fb, _, _ := nb.st.comm.VerifPeerMarks(na.nid, nil, nil)
		if fa && fb {
			return
		}
		if time.Now().After(deadline) {
			fail("gossip: handshake %d-%d did not complete", a, b)
		}
		time.Sleep(5 * time.Millisecond)
	}
}

// produce: node n packs blk (commit, then BroadcastBlock - packer_loop).
func (g *gnet) produce(n int, blk *block.Block) {
	nd := g.nodes[n]
	isTrunk, class, err := nd.st.node.VerifProcessBlock(blk)
	if err != nil || class != "ok" || !isTrunk {
		fail("gossip: producer %d cannot commit its block: %s %v", n, class, err)
	}
	g.touch()
	g.log(trace.Ev{"e": "Produce", "n": n, "b": g.regBlock(blk.Header().ID(), true)})
	nd.st.comm.BroadcastBlock(blk)
}

func (g *gnet) mkTx(nonce uint64, valid bool) *tx.Transaction {
	tag := g.e.net.God.Repo.ChainTag()
	if !valid {
		tag++
	}
	to := g.e.net.Devs[9].Address
	t := tx.NewBuilder(tx.TypeLegacy).ChainTag(tag).Clause(tx.NewClause(&to)).Gas(21000).Expiration(1000).
		Nonce(nonce).BlockRef(tx.NewBlockRef(0)).GasPriceCoef(128).Build()
	t = tx.MustSign(t, g.e.net.Devs[8].PrivateKey)
	g.regTx(t.Hash(), valid)
	return t
}

func (g *gnet) submit(n int, t *tx.Transaction) {
	// logged BEFORE the call: the pool's event may reach txsLoop (and the relays the wire) before AddLocal returns
	g.log(trace.Ev{"e": "TxSubmit", "n": n, "t": g.regTx(t.Hash(), false)})
	err := g.nodes[n].st.pool.AddLocal(t)
	g.touch()
	g.log(trace.Ev{"e": "TxVerdict", "n": n, "t": g.regTx(t.Hash(), false), "ok": err == nil, "err": fmt.Sprint(err)})
}

// finish dumps marks, chain and pool of every node with the network at rest, then tears the run down.
func (g *gnet) finish(blocks []*block.Block, txs []*tx.Transaction) map[string]any {
	g.waitIdle(400*time.Millisecond, 15*time.Second)
	var bids, tids []thor.Bytes32
	g.mu.Lock()
	for id := range g.bid {
		bids = append(bids, id)
	}
	for h := range g.tid {
		tids = append(tids, h)
	}
	g.mu.Unlock()
	idxs := []int{}
	for i := range g.nodes {
		idxs = append(idxs, i)
	}
	sort.Ints(idxs)
	missing := 0
	for _, i := range idxs {
		nd := g.nodes[i]
		for _, j := range idxs {
			if i == j {
				continue
			}
			found, bm, tm := nd.st.comm.VerifPeerMarks(g.nodes[j].nid, bids, tids)
			if !found {
				continue
			}
			kb, kt := []int{}, []int{}
			for k, m := range bm {
				if m {
					kb = append(kb, g.bid[bids[k]])
				}
			}
			for k, m := range tm {
				if m {
					kt = append(kt, g.tid[tids[k]])
				}
			}
			sort.Ints(kb)
			sort.Ints(kt)
			g.log(trace.Ev{"e": "Marks", "n": i, "p": j, "blocks": kb, "txs": kt})
		}
		// hostile peer
		if found, bm, tm := nd.st.comm.VerifPeerMarks(discover.NodeID{0x60, byte(g.run), hostileIdx}, bids, tids); found {
			kb, kt := []int{}, []int{}
			for k, m := range bm {
				if m {
					kb = append(kb, g.bid[bids[k]])
				}
			}
			for k, m := range tm {
				if m {
					kt = append(kt, g.tid[tids[k]])
				}
			}
			sort.Ints(kb)
			sort.Ints(kt)
			g.log(trace.Ev{"e": "Marks", "n": i, "p": hostileIdx, "blocks": kb, "txs": kt})
		}
		have, pool := []int{}, []int{}
		for id, v := range g.bid {
			// blocks of the run the node stores; of the bogus ids only what it did not hold from the start
			if nd.st.has(id) && (v < 1000 || !g.base[id]) {
				have = append(have, v)
			}
		}
		for h, v := range g.tid {
			for _, pt := range nd.st.pool.Dump() {
				if pt.Hash() == h {
					pool = append(pool, v)
				}
			}
		}
		sort.Ints(have)
		sort.Ints(pool)
		for _, b := range blocks {
			if !nd.st.has(b.Header().ID()) {
				missing++
			}
		}
		g.log(trace.Ev{"e": "State", "n": i, "have": have, "pool": pool})
	}
	g.log(trace.Ev{"e": "GEnd", "case": g.label})
	// tear down
	for _, l := range g.links {
		l.ea.Close()
	}
	for _, l := range g.links {
		l.runs.Wait()
	}
	for _, nd := range g.nodes {
		if nd.cancel != nil {
			nd.cancel()
		}
		close(nd.quit)
		<-nd.done
		nd.sub.Unsubscribe()
		nd.st.close()
	}
	g.e.emit(g.evs...)
	return map[string]any{"label": g.label, "events": len(g.evs), "messages": g.msgs, "nodes": len(g.nodes), "links": len(g.links),
		"blocks": len(blocks), "txs": len(txs), "missing": missing}
}

// ---- the hostile peer of a run --------------------------------------------------------------------------------

type ghost struct {
	g       *gnet
	l       *glink
	end     *pipe.End
	victim  int
	mu      sync.Mutex
	answers [][]rlp.RawValue // scripted answers to GetBlockByID, in order; then empty
	done    chan struct{}
}

func (g *gnet) attachHostile(victim int) *ghost {
	l := &glink{a: victim, b: hostileIdx}
	l.ea, l.eb = pipe.New()
	g.tap(l, l.ea, victim, hostileIdx)
	g.tap(l, l.eb, hostileIdx, victim)
	g.readTap(l, l.ea, victim, hostileIdx)
	g.readTap(l, l.eb, hostileIdx, victim)
	g.links = append(g.links, l)
	h := &ghost{g: g, l: l, end: l.eb, victim: victim, done: make(chan struct{})}
	nv := g.nodes[victim]
	l.runs.Add(2)
	go func() {
		defer l.runs.Done()
		_ = nv.st.comm.Protocols()[0].Run(p2p.NewPeer(discover.NodeID{0x60, byte(g.run), hostileIdx}, "hostile", nil), l.ea)
		if !l.ea.Closed() {
			// the node dropped the hostile peer (its protocol handler returned while the connection was up)
			for i := 0; i < 400; i++ { // until runPeer has taken it out of the peer set
				if f, _, _ := nv.st.comm.VerifPeerMarks(discover.NodeID{0x60, byte(g.run), hostileIdx}, nil, nil); !f {
					break
				}
				time.Sleep(5 * time.Millisecond)
			}
			g.log(trace.Ev{"e": "Disconnect", "n": victim, "p": hostileIdx})
		}
		l.ea.Close()
	}()
	go func() {
		defer l.runs.Done()
		defer close(h.done)
		for {
			msg, err := h.end.ReadMsg()
			if err != nil {
				return
			}
			payload, _ := io.ReadAll(msg.Payload)
			env, err := pipe.ParseEnvelope(payload)
			if err != nil || env.IsResult || env.CallID == 0 {
				continue
			}
			switch msg.Code {
			case proto.MsgGetStatus:
				best := nv.st.best()
				_ = h.end.Send(msg.Code, pipe.Frame(env.CallID, true, &proto.Status{GenesisBlockID: g.e.net.B0.Header().ID(),
					SysTimestamp: uint64(time.Now().Unix()), BestBlockID: best.ID(), TotalScore: best.TotalScore()}))
			case proto.MsgGetBlockByID:
				h.mu.Lock()
				ans := []rlp.RawValue{}
				if len(h.answers) > 0 {
					ans, h.answers = h.answers[0], h.answers[1:]
				}
				h.mu.Unlock()
				_ = h.end.Send(msg.Code, pipe.Frame(env.CallID, true, ans))
			case proto.MsgGetTxs:
				// an answer whose only "transaction" is an empty string
				_ = h.end.Send(msg.Code, pipe.Frame(env.CallID, true, []rlp.RawValue{{0x80}}))
			default:
				_ = h.end.Send(msg.Code, pipe.Frame(env.CallID, true, []rlp.RawValue{}))
			}
		}
	}()
	deadline := time.Now().Add(10 * time.Second)
	for {
		if f, _, _ := nv.st.comm.VerifPeerMarks(discover.NodeID{0x60, byte(g.run), hostileIdx}, nil, nil); f || l.ea.Closed() {
			return h // in the peer set - or already dropped again (its answer to the initial tx sync is refused)
		}
		if time.Now().After(deadline) {
			fail("gossip: hostile handshake did not complete")
		}
		time.Sleep(5 * time.Millisecond)
	}
}

func (h *ghost) notify(code uint64, arg any) { _ = h.end.Send(code, pipe.Frame(0, false, arg)) }

// ---- the runs -------------------------------------------------------------------------------------------------

// nowBlock mints, on top of parent, a block whose timestamp is within a few seconds of the wall clock (a node on such a
// head counts as synced: Communicator.Sync signals Synced, the tx pool evaluates and relays executables).
func (e *env) nowBlock(parent *block.Block) *block.Block {
	g := e.net.God
	ps, err := g.Repo.GetBlockSummary(parent.Header().ID())
	must(err)
	for try := 0; try < 40; try++ {
		now := uint64(time.Now().Unix())
		for who := 0; who < 2; who++ {
			acc := e.net.Devs[who]
			flow, err := packer.New(g.Repo, g.Stater, acc.Address, &acc.Address, e.net.FC, 0).Schedule(ps, now-6)
			if err == nil && flow.When() <= now+5 {
				b, err := e.net.Mint(parent.Header().ID(), who, false, now-6)
				must(err)
				return b
			}
		}
		time.Sleep(500 * time.Millisecond)
	}
	fail("gossip: no slot near the wall clock")
	return nil
}

func (e *env) runGossip(deep bool) {
	e.trunkTo(12)
	base := e.trunk[1:3]
	var stats []map[string]any
	mesh := [][2]int{{1, 2}, {1, 3}, {1, 4}, {2, 3}, {2, 4}, {3, 4}}
	line := [][2]int{{1, 2}, {2, 3}, {3, 4}}
	star := [][2]int{{1, 2}, {1, 3}, {1, 4}}
	ring := [][2]int{{1, 2}, {2, 3}, {3, 4}, {4, 1}}

	blockRun := func(run int, label string, topo [][2]int, producers []int) {
		g := e.newGnet(run, label, 4, base)
		for _, l := range topo {
			g.connect(l[0], l[1], false)
		}
		// the links are part of the initial state of the run
		g.evs = nil
		g.reset()
		var made []*block.Block
		for k, p := range producers {
			blk := e.trunk[3+k]
			g.produce(p, blk)
			made = append(made, blk)
			g.waitIdle(150*time.Millisecond, 10*time.Second)
		}
		stats = append(stats, g.finish(made, nil))
	}
	blockRun(1, "mesh4-blocks", mesh, []int{1, 2, 3})
	blockRun(2, "line4-blocks", line, []int{1, 4})
	if deep {
		blockRun(3, "star4-blocks", star, []int{1, 2, 3, 4})
		blockRun(4, "ring4-blocks", ring, []int{1, 3, 2})
		blockRun(5, "mesh4-blocks-b", mesh, []int{4, 4, 1, 2, 3})
	}

	// ---- hostile peer of node 1 (nodes 1-2-3-4 in a line) -----------------------------------------------------------
	{
		g := e.newGnet(6, "hostile", 4, base)
		for _, l := range line {
			g.connect(l[0], l[1], false)
		}
		h := g.attachHostile(1)
		known := e.trunk[2]                   // a block every node has
		g.regBlock(known.Header().ID(), true) // valid id 1
		g.evs = nil
		g.reset()
		unknown := thor.Bytes32{0, 0, 0, 9, 0xde, 0xad}
		bad := resign(e.trunk[3], 6, e, nil) // well-formed next block, signed by a stranger
		other := rawOf(e.trunk[1])
		h.mu.Lock()
		h.answers = [][]rlp.RawValue{{}, {other}, {rlp.RawValue{0xc3, 1, 2, 3}}, {rawOf(bad)}}
		h.mu.Unlock()
		// announcements of an id nobody has: refused, answered with another block, with garbage, duplicate flood
		h.notify(proto.MsgNewBlockID, unknown)
		g.waitIdle(100*time.Millisecond, 5*time.Second)
		h.notify(proto.MsgNewBlockID, unknown)
		g.waitIdle(100*time.Millisecond, 5*time.Second)
		for i := 0; i < 4; i++ {
			h.notify(proto.MsgNewBlockID, unknown)
		}
		g.waitIdle(150*time.Millisecond, 5*time.Second)
		// an announcement of a block the victim has: no fetch
		h.notify(proto.MsgNewBlockID, known.Header().ID())
		h.notify(proto.MsgNewBlockID, known.Header().ID())
		g.waitIdle(100*time.Millisecond, 5*time.Second)
		// an invalid block pushed in full, an invalid tx
		h.notify(proto.MsgNewBlock, bad)
		h.notify(proto.MsgNewTx, g.mkTx(900, false))
		g.waitIdle(150*time.Millisecond, 5*time.Second)
		same := true
		for _, nd := range g.nodes {
			if nd.st.kv.Digest() != nd.dig0 || nd.st.pool.Len() != 0 {
				same = false
			}
		}
		g.log(trace.Ev{"e": "Untouched", "same": same})
		// the victim still works: it packs a block, everybody gets it (the hostile peer too, if it is not marked)
		g.produce(1, e.trunk[3])
		g.waitIdle(150*time.Millisecond, 10*time.Second)
		st := g.finish([]*block.Block{e.trunk[3]}, nil)
		st["untouched"] = same
		stats = append(stats, st)
	}

	// ---- transactions: nodes on a head near the wall clock, Communicator.Sync running (Synced => initial tx sync) ----
	{
		nb := e.nowBlock(e.trunk[2])
		tbase := append(append([]*block.Block{}, base...), nb)
		g := e.newGnet(7, "txs", 4, tbase)
		for _, l := range [][2]int{{1, 2}, {2, 3}, {1, 3}} {
			g.connect(l[0], l[1], false)
		}
		g.evs = nil
		g.reset()
		for _, nd := range g.nodes {
			ctx, cancel := context.WithCancel(context.Background())
			nd.cancel = cancel
			go nd.st.comm.Sync(ctx, nd.st.node.VerifHandleBlockStream)
		}
		for _, i := range []int{1, 2, 3} {
			select {
			case <-g.nodes[i].st.comm.Synced():
			case <-time.After(20 * time.Second):
				fail("gossip: node %d did not signal Synced", i)
			}
		}
		g.waitIdle(200*time.Millisecond, 5*time.Second) // the initial (empty) tx syncs
		t1, t2, t3 := g.mkTx(1, true), g.mkTx(2, true), g.mkTx(3, true)
		g.submit(1, t1)
		g.waitIdle(150*time.Millisecond, 5*time.Second)
		g.submit(2, t2)
		g.submit(2, g.mkTx(901, false)) // refused by the pool: nothing to relay
		g.waitIdle(150*time.Millisecond, 5*time.Second)
		time.Sleep(1200 * time.Millisecond) // one pool housekeeping round: the executables list MsgGetTxs serves from
		// node 4 joins at node 2: initial tx sync in both directions, then relays as everybody else
		g.connect(4, 2, true)
		select {
		case <-g.nodes[4].st.comm.Synced():
		case <-time.After(20 * time.Second):
			fail("gossip: node 4 did not signal Synced")
		}
		g.waitIdle(300*time.Millisecond, 5*time.Second)
		// a hostile peer joins the synced node 1: its answer to the initial tx sync is not a list of transactions
		g.log(trace.Ev{"e": "Connect", "n": 1, "p": hostileIdx})
		g.attachHostile(1)
		g.waitIdle(200*time.Millisecond, 5*time.Second)
		g.submit(4, t3)
		g.waitIdle(200*time.Millisecond, 5*time.Second)
		stats = append(stats, g.finish(nil, []*tx.Transaction{t1, t2, t3}))
	}
	e.stats["gossip"] = stats
}
