package main

import (
	"bytes"
	"context"
	"encoding/binary"
	"errors"
	"fmt"
	"io"
	"runtime/debug"
	"sort"
	"strings"
	"sync"
	"sync/atomic"
	"time"

	"github.com/ethereum/go-ethereum/crypto"
	"github.com/ethereum/go-ethereum/rlp"

	"github.com/vechain/thor/v2/block"
	"github.com/vechain/thor/v2/comm"
	"github.com/vechain/thor/v2/comm/proto"
	"github.com/vechain/thor/v2/p2p"
	"github.com/vechain/thor/v2/p2p/discover"
	"github.com/vechain/thor/v2/thor"
	"github.com/vechain/thor/v2/vrf"

	"verifharness/internal/kvrec"
	"verifharness/internal/pipe"
	"verifharness/internal/trace"
)

// scenario: local chain = trunk[0..A] + local branch up to H, remote chain = trunk[0..A] + remote branch up to R.
type scenario struct {
	A, H, R  int
	swap     bool // local holds the heavy branch, remote the light one (remote not preferred)
	local    []*block.Block
	remote   []*block.Block
	xchain   []*block.Block // blocks at heights A+1.. of a third branch (unknown parents)
	template *kvrec.Engine  // store of a node holding exactly the local chain
	rk       ranker
	refDig   map[int]string // j -> digest of a node that imported local + the first j remote-only blocks
	label    string
	// slowImporter: the stream handler starts only when the whole catch-up is queued (wantMarkers nil markers expected)
	slowImporter bool
	wantMarkers  int
	// sideN: the local node also stores the first sideN remote-only blocks, as a side branch that is not its best chain
	sideN int
	// flood: blocks served by the "flood" peer at heights A+1.. (well-formed, numbered in sequence, unknown ancestry)
	flood []item
}

func (e *env) newScenario(a, h, r int, swap bool) *scenario {
	lk, rkind := byte('l'), byte('r')
	if swap {
		lk, rkind = 'r', 'l'
	}
	sc := &scenario{A: a, H: h, R: r, swap: swap, refDig: map[int]string{}}
	sc.local = e.chainOf(lk, a, h-a)
	sc.remote = e.chainOf(rkind, a, r-a)
	sc.xchain = e.branch('x', a, max(r-a, 1))
	sc.rk = newRanker(sc.local, sc.remote, sc.xchain)
	sc.label = fmt.Sprintf("A%d-H%d-R%d", a, h, r)
	if swap {
		sc.label += "-swap"
	}
	tpl := e.open(kvrec.New(), true, false)
	tpl.importAll(sc.local[1:])
	if tpl.best().ID() != sc.local[h].Header().ID() {
		fail("scenario %s: local best is not the local head", sc.label)
	}
	sc.template = tpl.kv
	tpl.close()
	return sc
}

// reference digest: a fresh node over a copy of the local store imports exactly the first j remote-only blocks.
func (e *env) refDigest(sc *scenario, j int) (string, thor.Bytes32) {
	ref := e.open(sc.template.Clone(), false, false)
	defer ref.close()
	if j > 0 {
		for _, b := range sc.remote[sc.A+1 : sc.A+1+sc.sideN+j] {
			if !ref.has(b.Header().ID()) { // the first sideN of them are stored already (side branch)
				ref.importAll([]*block.Block{b})
			}
		}
	}
	return ref.kv.Digest(), ref.best().ID()
}

// ---- scripted peer --------------------------------------------------------------------------------------------

type fault struct {
	kind    string // none | struct | body | invalid | orphan | gap | dup | shift | shiftback | oversized | undecodable | toolarge | disconnect | short
	height  int    // FH: absolute height hit by the fault
	variant int    // sub-variant (which kind of invalid block / broken structure)
}

type fetchLog struct {
	mu  sync.Mutex
	evs []trace.Ev
}

func (f *fetchLog) add(ev trace.Ev) { f.mu.Lock(); f.evs = append(f.evs, ev); f.mu.Unlock() }

// fakePeer answers the calls of the node under test from a script; it is the hostile remote.
type fakePeer struct {
	e        *env
	end      *pipe.End
	sc       *scenario
	batch    int
	f        fault
	log      *fetchLog
	annID    thor.Bytes32 // announced in Status
	annScore uint64
	probes   int                                  // GetBlockIDByNumber requests seen (lying peers)
	onFetch  func(items int)                      // called after every GetBlocksFromNumber answer
	byID     func(id thor.Bytes32) []rlp.RawValue // GetBlockByID answer (nil: nothing)
	onCall   func(code uint64, env pipe.Envelope)
}

func rawOf(b *block.Block) rlp.RawValue {
	raw, err := rlp.EncodeToBytes(b)
	must(err)
	return raw
}

// resign rebuilds blk with a changed header (mutate) and signs it with key, VRF proof included (as packer.Flow.Pack).
func resign(blk *block.Block, key int, e *env, mutate func(*block.Builder)) *block.Block {
	h := blk.Header()
	b := new(block.Builder).Beneficiary(h.Beneficiary()).GasLimit(h.GasLimit()).ParentID(h.ParentID()).
		Timestamp(h.Timestamp()).TotalScore(h.TotalScore()).GasUsed(h.GasUsed()).ReceiptsRoot(h.ReceiptsRoot()).
		StateRoot(h.StateRoot()).TransactionFeatures(h.TxsFeatures()).BaseFee(h.BaseFee()).Alpha(h.Alpha())
	for _, t := range blk.Transactions() {
		b.Transaction(t)
	}
	if h.COM() {
		b.COM()
	}
	if mutate != nil {
		mutate(b)
	}
	nb := b.Build()
	pk := e.net.Devs[key].PrivateKey
	ec, err := crypto.Sign(nb.Header().SigningHash().Bytes(), pk)
	must(err)
	_, proof, err := vrf.Prove(pk, h.Alpha())
	must(err)
	sig, err := block.NewComplexSignature(ec, proof)
	must(err)
	return nb.WithSignature(sig)
}

// invalidVariant returns a well-formed block with the right number and a known parent that consensus must refuse.
func (p *fakePeer) invalidVariant(b *block.Block) *block.Block {
	signer := p.e.net.SignerOf(b.Header())
	switch p.f.variant % 3 {
	case 0: // signed by an account that is no authority
		return resign(b, 6, p.e, nil)
	case 1: // wrong state root, signed by the legitimate proposer
		return resign(b, signer, p.e, func(bb *block.Builder) { bb.StateRoot(thor.Bytes32{0xba, 0xd0}) })
	default: // inflated total score, signed by the legitimate proposer
		return resign(b, signer, p.e, func(bb *block.Builder) { bb.TotalScore(b.Header().TotalScore() + 1000) })
	}
}

func (p *fakePeer) structVariant(b *block.Block) rlp.RawValue {
	var raw []byte
	var err error
	switch p.f.variant % 3 {
	case 0: // not a list
		raw, err = rlp.EncodeToBytes("not a block")
	case 1: // three items instead of [header, txs]
		raw, err = rlp.EncodeToBytes([]any{b.Header(), []any{}, uint(1)})
	default: // header with a missing field
		raw, err = rlp.EncodeToBytes([]any{[]any{b.Header().ParentID(), uint(7)}, []any{}})
	}
	must(err)
	return raw
}

// bodyBroken: header fine, transaction list well-formed RLP but not decodable as transactions.
func bodyBroken(b *block.Block, variant int) rlp.RawValue {
	var txs []any
	switch variant % 3 {
	case 0:
		txs = []any{[]any{}} // an empty list where a legacy tx is expected
	case 1:
		txs = []any{[]byte{}} // an empty string where a typed tx (type byte + payload) is expected
	default:
		txs = []any{[]byte{0x51}} // a typed tx of one byte: the type, no payload
	}
	raw, err := rlp.EncodeToBytes([]any{b.Header(), txs})
	must(err)
	return raw
}

type item struct {
	raw rlp.RawValue
	rec trace.Ev
}

func (p *fakePeer) honestItems(n int) []item {
	var out []item
	for h := n; h <= p.sc.R && len(out) < p.batch && h >= 0; h++ {
		b := p.sc.remote[h]
		out = append(out, item{rawOf(b), p.e.rec(b, "ok", p.sc.rk)})
	}
	return out
}

func junkRec(kind string, num int) trace.Ev {
	return trace.Ev{"id": "junk", "num": num, "parent": "none", "kind": kind, "score": 0, "ord": 0}
}

// answer mirrors PeerAnswer of Sync.tla. It returns the Fetch event and the wire action.
func (p *fakePeer) answer(n int) (ev trace.Ev, items []item, wire string) {
	if strings.HasPrefix(p.f.kind, "flood") {
		// batches of well-formed, correctly numbered blocks nobody can import (their ancestry is unknown): "flood" 1024 per
		// batch, "flood-*" one per batch (many more batches than the rawBatches channel holds)
		per := proto.MaxBlocksFromNumber
		if p.f.kind != "flood" {
			per = 1
		}
		for h := n; h-p.sc.A-1 < len(p.sc.flood) && len(items) < per && h > p.sc.A; h++ {
			items = append(items, p.sc.flood[h-p.sc.A-1])
		}
		recs := []trace.Ev{}
		for _, it := range items {
			recs = append(recs, it.rec)
		}
		return trace.Ev{"e": "Fetch", "from": n, "t": "blocks", "bad": len(items) > 0, "bs": recs}, items, "blocks"
	}
	hon := p.honestItems(n)
	f := p.f
	hit := f.kind != "none" && f.height >= n && f.height < n+len(hon)
	i := f.height - n
	bad := false
	wire = "blocks"
	items = hon
	if hit {
		b := p.sc.remote[f.height]
		switch f.kind {
		case "struct":
			items[i] = item{p.structVariant(b), junkRec("struct", f.height)}
			bad = true
		case "body":
			r := p.e.rec(b, "body", p.sc.rk)
			items[i] = item{bodyBroken(b, p.f.variant), r}
			bad = true
		case "invalid":
			ib := p.invalidVariant(b)
			r := p.e.rec(ib, "invalid", p.sc.rk)
			items[i] = item{rawOf(ib), r}
			bad = true
		case "orphan":
			xb := p.sc.xchain[f.height-p.sc.A-1]
			items[i] = item{rawOf(xb), p.e.rec(xb, "ok", p.sc.rk)}
			bad = true
		case "gap":
			bad = i < len(hon)-1
			items = append(append([]item{}, hon[:i]...), hon[i+1:]...)
		case "dup":
			items = append(append(append([]item{}, hon[:i+1]...), hon[i]), hon[i+1:]...)
			bad = true
		case "shift":
			items = p.honestItems(n + 1)
			bad = len(items) > 0
		case "shiftback":
			items = p.honestItems(n - 1)
			bad = true
		case "oversized":
			items = nil
			for k := 0; k < proto.MaxBlocksFromNumber+1; k++ {
				if p.sc.R-n >= proto.MaxBlocksFromNumber {
					// the chain is long enough: 1025 valid blocks in sequence, one more than the protocol allows
					b := p.sc.remote[n+k]
					items = append(items, item{rawOf(b), p.e.rec(b, "ok", p.sc.rk)})
				} else {
					items = append(items, item{rlp.RawValue{0x80}, junkRec("struct", n+k)})
				}
			}
			bad = true
		case "short":
			items = nil
		case "undecodable", "toolarge", "disconnect":
			wire, items, bad = f.kind, nil, true
		}
	}
	ev = trace.Ev{"e": "Fetch", "from": n, "t": wire, "bad": bad}
	if wire == "blocks" {
		recs := []trace.Ev{}
		for _, it := range items {
			recs = append(recs, it.rec)
		}
		ev["bs"] = recs
	}
	return
}

func (p *fakePeer) run() {
	for {
		msg, err := p.end.ReadMsg()
		if err != nil {
			return
		}
		payload, _ := io.ReadAll(msg.Payload)
		env, err := pipe.ParseEnvelope(payload)
		if err != nil || env.IsResult {
			continue
		}
		if p.onCall != nil {
			p.onCall(msg.Code, env)
		}
		if env.CallID == 0 {
			continue
		}
		reply := func(v any) { _ = p.end.Send(msg.Code, pipe.Frame(env.CallID, true, v)) }
		switch msg.Code {
		case proto.MsgGetStatus:
			reply(&proto.Status{GenesisBlockID: p.e.net.B0.Header().ID(), SysTimestamp: uint64(time.Now().Unix()),
				BestBlockID: p.annID, TotalScore: p.annScore})
		case proto.MsgGetBlockIDByNumber:
			var n uint32
			_ = rlp.DecodeBytes(env.Payload, &n)
			id := thor.Bytes32{}
			if p.sc != nil && int(n) <= p.sc.R {
				id = p.sc.remote[n].Header().ID()
			}
			if strings.HasPrefix(p.f.kind, "liar:") {
				p.probes++
				mine := thor.Bytes32{0xee} // what the node itself holds at n (an id that matches nothing beyond its head)
				if int(n) <= p.sc.H {
					mine = p.sc.local[n].Header().ID()
				}
				switch pol := strings.TrimPrefix(p.f.kind, "liar:"); pol {
				case "all": // "we agree everywhere"
					id = mine
				case "none": // "we agree nowhere", not even on genesis
					id = thor.Bytes32{}
				case "alt": // non-monotone: agreement at even heights only
					id = thor.Bytes32{}
					if n%2 == 0 {
						id = mine
					}
				case "rand":
					id = thor.Bytes32{}
					if p.e.rng.Intn(2) == 0 {
						id = mine
					}
				case "undecodable":
					if p.probes == p.f.variant {
						p.log.add(trace.Ev{"e": "Probe", "n": n, "ov": false, "lost": true})
						reply([]uint{1, 2, 3}) // a list where a 32 byte string is expected
						continue
					}
				case "disconnect":
					if p.probes == p.f.variant {
						p.log.add(trace.Ev{"e": "Probe", "n": n, "ov": false, "lost": true})
						p.end.Close()
						return
					}
				}
				p.log.add(trace.Ev{"e": "Probe", "n": n, "ov": id == mine})
			}
			reply(id)
		case proto.MsgGetBlocksFromNumber:
			var n uint32
			_ = rlp.DecodeBytes(env.Payload, &n)
			ev, items, wire := p.answer(int(n))
			if p.log != nil {
				p.log.add(ev)
			}
			switch wire {
			case "disconnect":
				p.end.Close()
				return
			case "undecodable":
				reply(uint(7)) // an integer where a list of byte strings is expected
			case "toolarge":
				_ = p.end.Inject(msg.Code, proto.MaxMsgSize+1, pipe.Frame(env.CallID, true, []rlp.RawValue{}))
			default:
				raws := []rlp.RawValue{}
				for _, it := range items {
					raws = append(raws, it.raw)
				}
				reply(raws)
				if p.onFetch != nil {
					p.onFetch(len(raws))
				}
			}
		case proto.MsgGetBlockByID:
			var id thor.Bytes32
			_ = rlp.DecodeBytes(env.Payload, &id)
			var res []rlp.RawValue
			if p.byID != nil {
				res = p.byID(id)
			}
			if res == nil {
				res = []rlp.RawValue{}
			}
			reply(res)
		case proto.MsgGetTxs:
			reply([]rlp.RawValue{})
		default:
			reply(&struct{}{})
		}
	}
}

// ---- one download case ---------------------------------------------------------------------------------------

func errClass(err error) string {
	if err == nil {
		return "ok"
	}
	s := err.Error()
	switch {
	case strings.Contains(s, "panic:"):
		return "panic"
	case strings.Contains(s, "peer disconnected"):
		return "disconnected"
	case strings.Contains(s, "decode result"):
		return "decode"
	case strings.Contains(s, "result size exceeds limit"):
		return "oversized"
	case strings.Contains(s, "invalid block structure"):
		return "struct"
	case strings.Contains(s, "broken sequence"):
		return "sequence"
	case strings.Contains(s, "invalid block body"):
		return "body"
	case strings.Contains(s, "rejected by BFT engine"):
		return "bft"
	case strings.Contains(s, "temporary unprocessable"):
		return "unprocessable"
	case strings.Contains(s, "parent block is missing"):
		return "parent"
	case strings.Contains(s, "find common ancestor"):
		return "ancestor:" + s
	case strings.Contains(s, "context"):
		return "ctx:" + s
	case strings.HasPrefix(s, "block ") && (strings.Contains(s, "invalid") || strings.Contains(s, "mismatch")):
		return "consensus" // consensus.Process refused the block (signer / total score / roots / ...)
	default:
		return "other:" + s // a db, bft or commit error is not the refusal of an invalid block
	}
}

type dlResult struct {
	Label     string   `json:"label"`
	Peer      string   `json:"peer"`
	Fault     string   `json:"fault"`
	Height    int      `json:"height"`
	Batch     int      `json:"batch"`
	Status    string   `json:"status"`
	Err       string   `json:"err"`
	Imported  int      `json:"imported"`
	Fetches   int      `json:"fetches"`
	Prefers   bool     `json:"prefers"`
	Conv      bool     `json:"converged"`
	Dropped   bool     `json:"dropped"`
	DigestOK  bool     `json:"digestOK"`
	Holes     bool     `json:"holes"` // imported set is not a prefix of the remote chain
	Foreign   []string `json:"foreign,omitempty"`
	Panic     string   `json:"panic,omitempty"`
	ElapsedMs int      `json:"elapsedMs"`        // wall time of the download call (not part of the trace)
	Markers   int      `json:"nilMarkersQueued"` // slow-importer cases: nil throttle markers in the queue (-1: not measured)
}

// runDownload executes the real download of a fresh local node against the peer and emits BStart..BEnd.
func (e *env) runDownload(sc *scenario, peer string, f fault, batch int, remote *stack, seq int) dlResult {
	return e.runDownloadN(sc, peer, f, batch, remote, seq, 0)
}

func (e *env) runDownloadN(sc *scenario, peer string, f fault, batch int, remote *stack, seq, attempt int) dlResult {
	local := e.open(sc.template.Clone(), false, false)
	closeLocal := true
	defer func() {
		if closeLocal {
			local.close()
		}
	}()
	var fakeDone atomic.Bool
	le, re := pipe.New()
	flog := &fetchLog{}
	remoteDone := make(chan struct{})
	if peer == "honest" {
		// a real Communicator serves; the Fetch events are reconstructed from what crosses the pipe
		reqs := map[uint32]int{}
		var mu sync.Mutex
		le.Tap = func(code uint64, payload []byte) {
			if code != proto.MsgGetBlocksFromNumber {
				return
			}
			if env, err := pipe.ParseEnvelope(payload); err == nil && !env.IsResult {
				var n uint32
				if rlp.DecodeBytes(env.Payload, &n) == nil {
					mu.Lock()
					reqs[env.CallID] = int(n)
					mu.Unlock()
				}
			}
		}
		byID := map[thor.Bytes32]*block.Block{}
		for _, b := range sc.remote {
			byID[b.Header().ID()] = b
		}
		re.Tap = func(code uint64, payload []byte) {
			if code != proto.MsgGetBlocksFromNumber {
				return
			}
			env, err := pipe.ParseEnvelope(payload)
			if err != nil || !env.IsResult {
				return
			}
			var raws []rlp.RawValue
			if rlp.DecodeBytes(env.Payload, &raws) != nil {
				return
			}
			mu.Lock()
			from := reqs[env.CallID]
			mu.Unlock()
			recs := []trace.Ev{}
			for _, raw := range raws {
				var b block.Block
				if rlp.DecodeBytes(raw, &b) != nil || byID[b.Header().ID()] == nil {
					recs = append(recs, junkRec("struct", 0))
					continue
				}
				recs = append(recs, e.rec(&b, "ok", sc.rk))
			}
			sizes := []int{}
			for h := from; h <= sc.R && h >= 0 && len(sizes) <= len(raws); h++ {
				sizes = append(sizes, len(rawOf(sc.remote[h])))
			}
			flog.add(trace.Ev{"e": "Fetch", "from": from, "t": "blocks", "bad": false, "bs": recs, "sizes": sizes})
		}
		go func() {
			_ = remote.comm.Protocols()[0].Run(p2p.NewPeer(discover.NodeID{0x20, byte(seq >> 8), byte(seq)}, "local", nil), re)
			re.Close() // the protocol handler returned: the p2p server drops the connection
			close(remoteDone)
		}()
	} else {
		fp := &fakePeer{e: e, end: re, sc: sc, batch: batch, f: f, log: flog,
			annID: sc.remote[sc.R].Header().ID(), annScore: sc.remote[sc.R].Header().TotalScore()}
		fp.onFetch = func(n int) {
			if n == 0 {
				fakeDone.Store(true)
			}
		}
		go func() { fp.run(); close(remoteDone) }()
	}

	// as Communicator.Sync does: the context ends with the process only; nothing may rely on a deadline
	ctx, cancel := context.WithCancel(context.Background())
	// progress signals of the hang rule: messages on the wire, queue length of the block stream, local best, handler state
	var acts atomic.Int64
	for _, end := range []*pipe.End{le, re} {
		old := end.Tap
		end.Tap = func(code uint64, payload []byte) {
			acts.Add(1)
			if old != nil {
				old(code, payload)
			}
		}
	}
	var streamLen atomic.Value // func() int
	var handlerState atomic.Int32
	var panicText string
	markers := -1
	handler := func(hctx context.Context, stream <-chan *block.Block) (herr error) {
		streamLen.Store(func() int { return len(stream) })
		handlerState.Store(1)
		defer func() {
			handlerState.Store(2)
			if r := recover(); r != nil {
				panicText = fmt.Sprintf("panic: %v\n%s", r, debug.Stack())
				herr = fmt.Errorf("panic: handleBlockStream: %v", r)
			}
		}()
		if sc.slowImporter {
			// an importer that starts late: the decoder queues the whole catch-up first, so the throttle rule of
			// decodeAndWarmupBatches (more than 10% of the channel queued, block >= 4 KB) emits its nil markers
			want, last, stable := sc.R-sc.A, -1, 0
			if f.kind == "flood" {
				want = cap(stream) // the channel is full, the decoder blocks on it, the fetcher has got everything
				for i := 0; i < 500 && !fakeDone.Load(); i++ {
					time.Sleep(10 * time.Millisecond)
				}
			}
			for stable < 300 && len(stream) < want+sc.wantMarkers { // gives up after 3 s without progress
				if n := len(stream); n == last {
					stable++
				} else {
					last, stable = n, 0
				}
				time.Sleep(10 * time.Millisecond)
			}
			markers = len(stream) - want
		}
		return local.node.VerifHandleBlockStream(hctx, stream)
	}
	type dlOut struct {
		served <-chan error
		err    error
	}
	outCh := make(chan dlOut, 1)
	t0 := time.Now()
	go func() {
		sv, derr := comm.VerifDownload(ctx, local.repo, le, uint32(sc.H), handler)
		outCh <- dlOut{sv, derr}
	}()
	var served <-chan error
	var err error
	// Hostile input must be harmless: download has to come back. The hang rule counts polls without ANY progress (no message
	// on the wire, block stream queue unchanged, local best unchanged, handler state unchanged) - a slow but progressing
	// download on a loaded machine keeps resetting it; hangPolls polls (>= 15 s of them) of nothing is a wedge. The case is
	// then repeated once on a fresh node; only two wedges in a row are reported. The absolute cap is harness trouble.
	const hangPolls = 300
	type snap struct {
		acts int64
		q    int
		best thor.Bytes32
		h    int32
	}
	var last snap
	idle, hung := 0, false
	capAt := time.Now().Add(240 * time.Second)
wait:
	for {
		select {
		case o := <-outCh:
			served, err = o.served, o.err
			break wait
		case <-time.After(50 * time.Millisecond):
		}
		cur := snap{acts: acts.Load(), best: local.best().ID(), h: handlerState.Load()}
		if fn, ok := streamLen.Load().(func() int); ok {
			cur.q = fn()
		}
		if cur != last {
			last, idle = cur, 0
		} else {
			idle++
		}
		if idle >= hangPolls {
			hung = true
			break wait
		}
		if time.Now().After(capAt) {
			fail("download case %s/%s/%s@%d neither finished nor came to rest within the absolute cap", sc.label, peer, f.kind, f.height)
		}
	}
	if hung {
		cancel() // releases whatever still listens to the outer context
		le.Close()
		if attempt == 0 {
			return e.runDownloadN(sc, peer, f, batch, remote, seq, 1) // rule out load: both attempts must wedge
		}
		res := dlResult{Label: sc.label, Peer: peer, Fault: f.kind, Height: f.height, Batch: batch, Status: "hang", Markers: -1,
			Err: fmt.Sprintf("download did not return: %d polls without a message, an import or a queue movement (handler state %d, "+
				"two attempts)", hangPolls, last.h)}
		closeLocal = false // goroutines of the wedged download still use the node
		e.emitDownload(sc, peer, f, batch, flog, res, []string{}, e.name(local.best().ID()))
		return res
	}
	elapsed := time.Since(t0)
	cancel()
	le.Close()
	serveErr := <-served
	<-remoteDone

	// observations
	res := dlResult{Label: sc.label, Peer: peer, Fault: f.kind, Height: f.height, Batch: batch, Status: errClass(err),
		Panic: panicText, Markers: markers}
	if err != nil {
		res.Err = err.Error()
	}
	res.Dropped = serveErr != nil && !errors.Is(serveErr, io.EOF)
	if f.kind == "disconnect" && res.Status == "disconnected" {
		res.Dropped = true // the scripted peer hung up itself
	}
	imported := []string{}
	gapSeen := false
	for h := sc.A + 1; h <= sc.R; h++ {
		if local.has(sc.remote[h].Header().ID()) {
			if gapSeen {
				res.Holes = true
			}
			if h > sc.A+sc.sideN { // what the node held before (its side branch) is not an import
				imported = append(imported, e.name(sc.remote[h].Header().ID()))
			}
		} else {
			gapSeen = true
		}
	}
	res.Imported = len(imported)
	// nothing but local and remote chain blocks may be in the store
	for _, b := range sc.xchain {
		if local.has(b.Header().ID()) {
			res.Foreign = append(res.Foreign, e.name(b.Header().ID()))
		}
	}
	want, ok := sc.refDig[len(imported)]
	if !ok {
		want, _ = e.refDigest(sc, len(imported))
		sc.refDig[len(imported)] = want
	}
	res.DigestOK = local.kv.Digest() == want && !res.Holes && len(res.Foreign) == 0
	bestID := local.best().ID()
	res.Prefers = sc.remote[sc.R].Header().BetterThan(sc.local[sc.H].Header())
	res.Conv = bestID == sc.remote[sc.R].Header().ID()
	flog.mu.Lock()
	res.Fetches = len(flog.evs)
	flog.mu.Unlock()

	res.ElapsedMs = int(elapsed / time.Millisecond)
	e.emitDownload(sc, peer, f, batch, flog, res, imported, e.name(bestID))
	return res
}

func (e *env) emitDownload(sc *scenario, peer string, f fault, batch int, flog *fetchLog, res dlResult, imported []string, best string) {
	// trace
	sched := "free"
	if sc.R-sc.A > 40 {
		sched = "eager" // see Trace_Sync.tla: one canonical interleaving of the silent steps for long chains
	}
	if strings.HasPrefix(f.kind, "flood") {
		sched = "late" // the answers first (the fetcher runs ahead), then decoder, then importer
	}
	locals := []trace.Ev{}
	for _, b := range sc.local {
		locals = append(locals, e.rec(b, "ok", sc.rk))
	}
	for _, b := range sc.remote[sc.A+1 : sc.A+1+sc.sideN] { // the stored side branch
		locals = append(locals, e.rec(b, "ok", sc.rk))
	}
	label := fmt.Sprintf("%s/%s/%s@%d/b%d", sc.label, peer, f.kind, f.height, batch)
	start := trace.Ev{"e": "BStart", "case": label,
		"local": locals, "best": e.name(sc.local[sc.H].Header().ID()), "anc": sc.A, "sched": sched,
		"honest": peer == "honest", "rhead": e.rec(sc.remote[sc.R], "ok", sc.rk)}
	var probes, fetches []trace.Ev
	flog.mu.Lock()
	for _, ev := range flog.evs {
		if ev["e"] == "Probe" {
			probes = append(probes, ev)
		} else {
			fetches = append(fetches, ev)
		}
	}
	flog.mu.Unlock()
	end := trace.Ev{"e": "BEnd", "status": res.Status, "imported": imported, "best": best,
		"dropped": res.Dropped, "digestOK": res.DigestOK, "err": res.Err}
	if !strings.HasPrefix(f.kind, "liar:") {
		e.emit(append(append([]trace.Ev{start}, fetches...), end)...)
		return
	}
	// a peer lying about its block ids: the probes it answered, then either the failed search or the download that started
	// from whatever the search made of the answers (anc -1: the ancestor the algorithm of Sync.tla derives from them)
	evs := append([]trace.Ev{{"e": "LStart", "case": label, "H": sc.H, "R": sc.R}}, probes...)
	if strings.Contains(res.Err, "find common ancestor") {
		evs = append(evs, trace.Ev{"e": "LResult", "err": res.Err, "same": res.DigestOK && len(imported) == 0, "dropped": res.Dropped})
	} else {
		start["e"], start["anc"] = "BStartL", -1
		evs = append(append(append(evs, start), fetches...), end)
	}
	e.emit(evs...)
}

// runDownloads enumerates the scenarios and, per scenario, every fault kind at every stream position.
func (e *env) runDownloads(amax int, deep bool) {
	var results []dlResult
	seq := 0
	type shape struct{ dh, dr int }
	shapes := []shape{{0, 0}, {0, 2}, {1, 1}, {2, 5}, {6, 4}, {3, 0}}
	if deep {
		shapes = append(shapes, shape{1, 9}, shape{4, 4}, shape{9, 6}, shape{2, 1})
	}
	blockFaults := []string{"struct", "body", "invalid", "orphan", "gap", "dup"}
	answerFaults := []string{"shift", "shiftback", "undecodable", "toolarge", "disconnect", "short"}
	nScen := 0
	for a := 0; a <= amax; a++ {
		for si, sh := range shapes {
			for _, swap := range []bool{false, true} {
				if swap && !(sh.dh > 0 && sh.dr > 0 && (si+a)%2 == 0) {
					continue
				}
				sc := e.newScenario(a, a+sh.dh, a+sh.dr, swap)
				nScen++
				// honest: a real remote node with a real Communicator
				rem := e.open(kvrec.New(), true, false)
				rem.importAll(sc.remote[1:])
				rem.comm = comm.New(rem.repo, nil)
				seq++
				results = append(results, e.runDownload(sc, "honest", fault{kind: "none"}, 0, rem, seq))
				rem.comm = nil
				rem.close()
				// scripted honest peer with small batches (batch boundaries at every position)
				for _, batch := range []int{1, 2, 3} {
					seq++
					results = append(results, e.runDownload(sc, "scripted", fault{kind: "none"}, batch, nil, seq))
				}
				if swap || sh.dr == 0 {
					continue
				}
				// hostile: every fault kind at every stream position, two batch sizes
				for pos := 1; pos <= sh.dr; pos++ {
					fh := a + pos
					for _, batch := range []int{2, 3} {
						if !deep && batch == 3 && (pos+a)%2 == 1 {
							continue
						}
						for _, k := range blockFaults {
							if k == "orphan" && pos == 1 {
								continue // a sibling of the first remote block has a known parent: that is a valid block
							}
							seq++
							results = append(results, e.runDownload(sc, "scripted", fault{k, fh, seq}, batch, nil, seq))
						}
						for _, k := range answerFaults {
							seq++
							results = append(results, e.runDownload(sc, "scripted", fault{k, fh, seq}, batch, nil, seq))
						}
					}
					// single-block batches: every block is the first of its batch
					for _, k := range []string{"gap", "dup", "shift", "shiftback"} {
						seq++
						results = append(results, e.runDownload(sc, "scripted", fault{k, fh, seq}, 1, nil, seq))
					}
				}
				seq++
				results = append(results, e.runDownload(sc, "scripted", fault{"oversized", a + 1 + (a % sh.dr), seq}, 2, nil, seq))
			}
		}
	}
	// batch boundaries of the real server: by byte size (512 KB) and, in the deep tier, by count (1024 blocks)
	results = append(results, e.bigCases(deep)...)
	results = append(results, e.runStreams()...)

	e.stats["cases"] = results
	e.stats["scenarios"] = nScen
}

// bigCases: an honest real Communicator whose answers are cut by the 512 KB rule (3 blocks of 200 KB per batch) and,
// when deep, by the 1024-block rule; the local node diverges inside the first / second batch.
func (e *env) bigCases(deep bool) []dlResult {
	var out []dlResult
	run := func(a, h int, remoteBr []*block.Block, label string) *scenario {
		sc := &scenario{A: a, H: h, R: a + len(remoteBr), refDig: map[int]string{}, label: label}
		sc.local = e.chainOf('l', a, h-a)
		sc.remote = append(append([]*block.Block{}, e.trunk[:a+1]...), remoteBr...)
		sc.xchain = e.branch('x', a, 1)
		sc.rk = newRanker(sc.local, sc.remote, sc.xchain)
		tpl := e.open(kvrec.New(), true, false)
		tpl.importAll(sc.local[1:])
		sc.template = tpl.kv
		tpl.close()
		rem := e.open(kvrec.New(), true, false)
		rem.importAll(sc.remote[1:])
		rem.comm = comm.New(rem.repo, nil)
		out = append(out, e.runDownload(sc, "honest", fault{kind: "none"}, 0, rem, 9000+len(out)))
		rem.comm = nil
		rem.close()
		return sc
	}
	run(1, 3, e.bigBranch(1, 8, 200*1024), "bytes-A1-H3-R9")
	// 1100 remote-only blocks: the real server cuts at 1024 blocks; a scripted peer sends 1025 valid blocks at once
	sc := run(3, 5, e.branch('r', 3, 1100), "count-A3-H5-R1103")
	out = append(out, e.runDownload(sc, "scripted", fault{"oversized", 4, 0}, proto.MaxBlocksFromNumber, nil, 9100))
	out = append(out, e.runDownload(sc, "scripted", fault{"oversized", 4 + proto.MaxBlocksFromNumber, 0}, proto.MaxBlocksFromNumber, nil, 9101))
	if deep {
		run(2, 2, e.bigBranch(2, 7, 200*1024), "bytes-A2-H2-R9")
	}
	// blocks larger than the whole 512 KB reply budget: first in a reply, and in the middle of the chain
	e.trunkTo(2)
	run(2, 3, e.dataBlocks(e.trunk[2], []int{600 * 1024, 0, 0}, 7_000_000), "huge-first-A2-H3-R5")
	run(1, 1, e.dataBlocks(e.trunk[1], []int{0, 300 * 1024, 700 * 1024, 0, 540 * 1024}, 7_100_000), "huge-middle-A1-H1-R6")
	// a catch-up of 300 blocks ending in blocks >= 4 KB with a late importer: the stream ends in nil throttle markers
	tail := []int{5 * 1024, 5 * 1024, 9 * 1024}
	long := e.branch('r', 2, 300)
	long = append(append([]*block.Block{}, long...), e.dataBlocks(long[len(long)-1], tail, 7_200_000)...)
	run2 := func(a, h int, br []*block.Block, label string, markers int) {
		before := len(out)
		sc := &scenario{A: a, H: h, R: a + len(br), refDig: map[int]string{}, label: label, slowImporter: true, wantMarkers: markers}
		sc.local = e.chainOf('l', a, h-a)
		sc.remote = append(append([]*block.Block{}, e.trunk[:a+1]...), br...)
		sc.xchain = e.branch('x', a, 1)
		sc.rk = newRanker(sc.local, sc.remote, sc.xchain)
		tpl := e.open(kvrec.New(), true, false)
		tpl.importAll(sc.local[1:])
		sc.template = tpl.kv
		tpl.close()
		rem := e.open(kvrec.New(), true, false)
		rem.importAll(sc.remote[1:])
		rem.comm = comm.New(rem.repo, nil)
		out = append(out, e.runDownload(sc, "honest", fault{kind: "none"}, 0, rem, 9200+len(out)))
		rem.comm = nil
		rem.close()
		if out[before].Markers < 1 && out[before].Panic == "" {
			fail("throttle case %s: no nil marker was queued (markers=%d)", label, out[before].Markers)
		}
	}
	run2(2, 4, long, "throttle-A2-H4-R305", 5) // 5 KB -> 1 marker, 5 KB -> 1, 9 KB -> 3

	// handler error with a full pipeline: 4 batches of 1024 decodable, correctly numbered blocks of unknown ancestry; the
	// (late) importer refuses the first one while 2048 blocks are queued and the decoder is blocked on the channel
	fsc := e.newScenario(1, 2, 3, false)
	fsc.label = "flood-A1-H2"
	fsc.slowImporter = true
	fakeID := func(n int) (id thor.Bytes32) {
		binary.BigEndian.PutUint32(id[:], uint32(n))
		id[31] = 0xf1
		return
	}
	for k := 0; k < 4*proto.MaxBlocksFromNumber; k++ {
		n := fsc.A + 1 + k
		b := new(block.Builder).ParentID(fakeID(n - 1)).Timestamp(uint64(n)).GasLimit(10_000_000).Build()
		parent := fmt.Sprintf("f%d", n-1)
		fsc.flood = append(fsc.flood, item{rawOf(b), trace.Ev{"id": fmt.Sprintf("f%d", n), "num": n, "parent": parent,
			"kind": "ok", "score": 0, "ord": 0}})
	}
	out = append(out, e.runDownload(fsc, "scripted", fault{"flood", fsc.A + 1, 0}, proto.MaxBlocksFromNumber, nil, 9300))
	// a stage aborts while the peer still has far more batches than the rawBatches channel holds (10): 40 one-block batches,
	// the first block is not a block (decoder aborts) / has no known parent (importer aborts). The fetcher has to give up
	// with the group, wherever it is blocked - download must return
	for i, kind := range []string{"flood-badblock", "flood-orphan"} {
		bsc := e.newScenario(1, 2, 3, false)
		bsc.label = "manybatches-A1-H2"
		for k := 0; k < 40; k++ {
			n := bsc.A + 1 + k
			b := new(block.Builder).ParentID(fakeID(n - 1)).Timestamp(uint64(n)).GasLimit(10_000_000).Build()
			it := item{rawOf(b), trace.Ev{"id": fmt.Sprintf("m%d", n), "num": n, "parent": fmt.Sprintf("m%d", n-1),
				"kind": "ok", "score": 0, "ord": 0}}
			if k == 0 && kind == "flood-badblock" {
				raw, err := rlp.EncodeToBytes("not a block")
				must(err)
				it = item{raw, junkRec("struct", n)}
			}
			bsc.flood = append(bsc.flood, it)
		}
		out = append(out, e.runDownload(bsc, "scripted", fault{kind, bsc.A + 1, 0}, 1, nil, 9310+i))
	}

	// a peer that lies about its block ids during the ancestor search (all / none / non-monotone / random answers), answers
	// with garbage or hangs up in the middle of it; its blocks are honest
	for i, lsc := range []*scenario{e.newScenario(2, 5, 7, false), e.newScenario(0, 3, 2, false)} {
		k := 0
		for _, pol := range []string{"all", "none", "alt", "rand", "rand", "undecodable", "undecodable", "disconnect", "disconnect"} {
			k++
			variant := 1 + (k+i)%3 // which probe is answered with garbage / dropped
			out = append(out, e.runDownload(lsc, "scripted", fault{"liar:" + pol, 0, variant}, 2, nil, 9500+10*i+k))
		}
	}
	// the local node already stores the first two blocks of the peer's branch as a side branch (not its best chain): the
	// search is over best chains (ancestor = A), the known blocks arrive again and are ignored
	for i, sh := range [][3]int{{3, 9, 7}, {4, 11, 9}} {
		ssc := e.newScenario(sh[0], sh[1], sh[2], false)
		ssc.label += "-side2"
		ssc.sideN = 2
		tpl := e.open(ssc.template.Clone(), false, false)
		for _, b := range ssc.remote[ssc.A+1 : ssc.A+3] {
			if _, class, err := tpl.node.VerifProcessBlock(b); err != nil || class != "ok" {
				fail("side branch block refused: %s %v", class, err)
			}
		}
		if tpl.best().ID() != ssc.local[ssc.H].Header().ID() {
			fail("scenario %s: the side branch became the best chain", ssc.label)
		}
		ssc.template = tpl.kv
		tpl.close()
		rem := e.open(kvrec.New(), true, false)
		rem.importAll(ssc.remote[1:])
		rem.comm = comm.New(rem.repo, nil)
		out = append(out, e.runDownload(ssc, "honest", fault{kind: "none"}, 0, rem, 9600+i))
		rem.comm = nil
		rem.close()
		out = append(out, e.runDownload(ssc, "scripted", fault{kind: "none"}, 2, nil, 9610+i))
		out = append(out, e.runDownload(ssc, "scripted", fault{"invalid", ssc.A + 4, 1}, 2, nil, 9620+i))
	}

	// forks that tie exactly on total score: the smaller id wins (Header.BetterThan); both id orders
	for i, tsc := range e.tieScenarios(4) {
		rem := e.open(kvrec.New(), true, false)
		rem.importAll(tsc.remote[1:])
		rem.comm = comm.New(rem.repo, nil)
		out = append(out, e.runDownload(tsc, "honest", fault{kind: "none"}, 0, rem, 9400+i))
		rem.comm = nil
		rem.close()
	}
	return out
}

// tieScenarios: local and remote hold sibling blocks (same parent trunk[a], same signer and slot, another transaction)
// with exactly the same total score; [0]: the remote id is the smaller one (the fork choice prefers the peer),
// [1]: the local id is the smaller one (the node keeps its own head).
func (e *env) tieScenarios(a int) []*scenario {
	e.trunkTo(a)
	var sib []*block.Block
	for k := 0; k < 5; k++ {
		sib = append(sib, e.dataBlocks(e.trunk[a], []int{8 + k}, uint64(7_300_000+100*a+k))[0])
	}
	sort.Slice(sib, func(i, j int) bool {
		return bytes.Compare(sib[i].Header().ID().Bytes(), sib[j].Header().ID().Bytes()) < 0
	})
	mk := func(local, remote *block.Block, label string) *scenario {
		if local.Header().TotalScore() != remote.Header().TotalScore() || local.Header().ID() == remote.Header().ID() {
			fail("tie scenario: scores %d / %d do not tie", local.Header().TotalScore(), remote.Header().TotalScore())
		}
		sc := &scenario{A: a, H: a + 1, R: a + 1, refDig: map[int]string{}, label: label}
		sc.local = append(append([]*block.Block{}, e.trunk[:a+1]...), local)
		sc.remote = append(append([]*block.Block{}, e.trunk[:a+1]...), remote)
		sc.xchain = e.branch('x', a, 1)
		sc.rk = newRanker(sc.local, sc.remote, sc.xchain)
		tpl := e.open(kvrec.New(), true, false)
		tpl.importAll(sc.local[1:])
		sc.template = tpl.kv
		tpl.close()
		return sc
	}
	return []*scenario{
		mk(sib[2], sib[0], fmt.Sprintf("tie-remote-smaller-id-A%d", a)),
		mk(sib[2], sib[4], fmt.Sprintf("tie-local-smaller-id-A%d", a)),
	}
}

// runStreams feeds the block stream handler (node.handleBlockStream via its hook) hand-made streams: the remote-only
// blocks of a scenario with nil throttle markers at every position, including first, last, doubled and only-nil.
func (e *env) runStreams() []dlResult {
	var out []dlResult
	sc := e.newScenario(1, 2, 6, false)
	blocks := sc.remote[sc.A+1:]
	n := len(blocks)
	var plans [][]int // number of nil markers before block i (index n: after the last block)
	plans = append(plans, make([]int, n+1))
	for pos := 0; pos <= n; pos++ {
		p := make([]int, n+1)
		p[pos] = 1
		plans = append(plans, p)
	}
	all, dbl, lead := make([]int, n+1), make([]int, n+1), make([]int, n+1)
	for i := range all {
		all[i] = 1
	}
	dbl[n], dbl[n-1], lead[0], lead[n] = 3, 2, 2, 1
	plans = append(plans, all, dbl, lead)
	for pi, plan := range plans {
		for _, take := range []int{n, 0, 1} { // whole chain, only markers, a single block
			if take != n && pi != 1 && pi != len(plans)-3 && pi != n+1 {
				continue
			}
			local := e.open(sc.template.Clone(), false, false)
			var stream []*block.Block
			recs := []trace.Ev{}
			nilRec := trace.Ev{"id": "nil"}
			for i := 0; i <= n; i++ {
				for k := 0; k < plan[i]; k++ {
					stream = append(stream, nil)
					recs = append(recs, nilRec)
				}
				if i < take {
					stream = append(stream, blocks[i])
					recs = append(recs, e.rec(blocks[i], "ok", sc.rk))
				}
			}
			ch := make(chan *block.Block, len(stream)+1)
			for _, b := range stream {
				ch <- b
			}
			close(ch)
			var err error
			panicText := ""
			func() {
				defer func() {
					if r := recover(); r != nil {
						panicText = fmt.Sprintf("panic: %v\n%s", r, debug.Stack())
						err = fmt.Errorf("panic: handleBlockStream: %v", r)
					}
				}()
				err = local.node.VerifHandleBlockStream(context.Background(), ch)
			}()
			label := fmt.Sprintf("stream/plan%d/take%d", pi, take)
			res := dlResult{Label: label, Peer: "stream", Fault: "none", Status: errClass(err), Panic: panicText, Markers: len(stream) - take}
			if err != nil {
				res.Err = err.Error()
			}
			imported := []string{}
			for _, b := range blocks {
				if local.has(b.Header().ID()) {
					imported = append(imported, e.name(b.Header().ID()))
				}
			}
			res.Imported = len(imported)
			want, ok := sc.refDig[len(imported)]
			if !ok {
				want, _ = e.refDigest(sc, len(imported))
				sc.refDig[len(imported)] = want
			}
			res.DigestOK = local.kv.Digest() == want
			bestID := local.best().ID()
			locals := []trace.Ev{}
			for _, b := range sc.local {
				locals = append(locals, e.rec(b, "ok", sc.rk))
			}
			e.emit(trace.Ev{"e": "SStart", "case": label, "local": locals, "best": e.name(sc.local[sc.H].Header().ID()),
				"anc": sc.A, "stream": recs},
				trace.Ev{"e": "BEnd", "status": res.Status, "imported": imported, "best": e.name(bestID), "dropped": false,
					"digestOK": res.DigestOK, "err": res.Err})
			local.close()
			out = append(out, res)
		}
	}
	return out
}
