package main

// Modes "bft" / "pos": synchronisation where the fork choice is NOT (total score, id): finality (bft.Accepts) refuses a
// heavier branch that conflicts with the local finalized checkpoint, quality (justified epochs) beats total score
// (bft.Select). 4 validators, epochs of 3 blocks; the chains are built by the simulator's honest nodes (real packer, real
// vote rule) and by minting valid fork blocks. The syncing node downloads from an HONEST real Communicator.
//
// Oracle: a reference node that holds the same local chain and is handed the peer's blocks one by one through the real node
// import (stopping at the first refusal) - the syncing node must end with the same best block and the same store.

import (
	"context"
	"fmt"
	"sync/atomic"
	"time"

	"github.com/ethereum/go-ethereum/rlp"

	"github.com/vechain/thor/v2/block"
	"github.com/vechain/thor/v2/comm"
	"github.com/vechain/thor/v2/comm/proto"
	"github.com/vechain/thor/v2/p2p"
	"github.com/vechain/thor/v2/p2p/discover"

	"verifharness/internal/kvrec"
	"verifharness/internal/pipe"
	"verifharness/internal/trace"
)

type bftCase struct {
	label  string
	local  []*block.Block // after genesis, in import order
	remote []*block.Block // the peer's best chain after genesis
}

type bftResult struct {
	Label            string `json:"label"`
	Via              string `json:"via"`
	Status           string `json:"status"`
	Err              string `json:"err"`
	LocalFinalized   uint32 `json:"localFinalizedBefore"`
	RemoteOnly       int    `json:"remoteOnlyBlocks"`
	Imported         int    `json:"imported"`
	RefImported      int    `json:"refImported"`
	RefRefusal       string `json:"refRefusal"`
	RefFollowsRemote bool   `json:"refFollowsRemote"`
	Converged        bool   `json:"converged"`
	BestIsRef        bool   `json:"bestIsRef"`
	StoreOK          bool   `json:"storeOK"`
	HigherScore      bool   `json:"remoteHasHigherScore"`
	Stalled          bool   `json:"stalled"`
	Timeout          bool   `json:"timeout"`
}

func (e *env) runBFT(mode string, deep bool) {
	n := e.net
	// ---- main chain M: honest proposals of all four validators, everybody delivers to everybody ---------------------
	var m []*block.Block
	for k := 0; k < 15; k++ {
		var blk *block.Block
		for try := 0; try < 4 && blk == nil; try++ {
			p := n.Nodes[(k+try)%4]
			if b, err := p.Propose(0); err == nil {
				blk = b
				must(n.GodLearn(b))
				for _, o := range n.Nodes {
					if o != p {
						if class, err := o.Deliver(b); err != nil {
							fail("bft setup: delivery refused: %s %v", class, err)
						}
					}
				}
			}
		}
		if blk == nil {
			fail("bft setup: nobody could propose block %d", k+1)
		}
		m = append(m, blk)
	}
	fin := block.Number(n.Nodes[0].BFT.Finalized())
	if fin < 3 {
		fail("bft setup: main chain of %d blocks finalized only %d", len(m), fin)
	}
	mint := func(parent *block.Block, whos []int, count int) []*block.Block {
		var out []*block.Block
		for i := 0; i < count; i++ {
			b, err := n.Mint(parent.Header().ID(), whos[i%len(whos)], false, 0)
			must(err)
			out = append(out, b)
			parent = b
		}
		return out
	}
	cat := func(a []*block.Block, b []*block.Block) []*block.Block {
		return append(append([]*block.Block{}, a...), b...)
	}
	d := int(fin) - 2 // a height below the finalized checkpoint
	if d < 1 {
		d = 1
	}
	cases := []bftCase{
		// the peer's chain is longer and heavier but leaves the main chain BELOW what the local node has finalized
		{"heavier-remote-conflicts-with-local-finality", m, cat(m[:d], mint(m[d-1], []int{0, 1, 2, 3}, len(m)-d+4))},
		// the local node sits on a fork that leaves the main chain after its finalized checkpoint; the peer has the main chain
		{"local-fork-past-its-finalized-checkpoint", cat(m[:9], mint(m[8], []int{0, 1}, 2)), m},
		// the peer's chain has more justified epochs (quality) but a LOWER total score than the local one, which was
		// extended by two validators only
		{"higher-quality-lower-score", cat(m[:3], mint(m[2], []int{0, 1}, 14)), m[:9]},
		// plain catch-up along the main chain across several finalized checkpoints
		{"catch-up-across-checkpoints", m[:2], m},
	}
	if deep {
		cases = append(cases,
			bftCase{"heavier-remote-conflicts-at-genesis+1", m, mint(n.B0, []int{0, 1, 2, 3}, len(m)+3)},
			bftCase{"local-ahead-on-main-chain", m, m[:7]})
	}
	var results []bftResult
	for i, c := range cases {
		results = append(results, e.runBFTCase(c, "download", i))
	}
	// the same through the real Communicator.Sync loop (peer selection by announced total score)
	for i, c := range cases {
		if c.label == "higher-quality-lower-score" || c.label == "local-fork-past-its-finalized-checkpoint" || (deep && i == 0) {
			results = append(results, e.runBFTCase(c, "sync", 100+i))
		}
	}
	e.stats["bft"] = results
	e.stats["bftMode"] = mode
	e.stats["mainChainFinalized"] = fin
}

func (e *env) runBFTCase(c bftCase, via string, seq int) bftResult {
	res := bftResult{Label: c.label, Via: via}
	local := e.open(kvrec.New(), true, via == "sync")
	local.importAll(c.local)
	res.LocalFinalized = block.Number(local.bft.Finalized())
	localHead, remoteHead := local.best(), c.remote[len(c.remote)-1].Header()
	res.HigherScore = remoteHead.TotalScore() > localHead.TotalScore()

	// remote-only blocks: what the local node does not hold
	var ronly []*block.Block
	for _, b := range c.remote {
		if !local.has(b.Header().ID()) {
			ronly = append(ronly, b)
		}
	}
	res.RemoteOnly = len(ronly)

	// reference node: same local chain, then the peer's blocks one by one until the first refusal
	ref := e.open(kvrec.New(), true, false) // same history as the syncing node: its local chain first
	ref.importAll(c.local)
	for _, b := range ronly {
		if _, class, err := ref.node.VerifProcessBlock(b); err != nil || class != "ok" {
			res.RefRefusal = fmt.Sprintf("%s: %v", class, err)
			break
		}
		res.RefImported++
	}
	refBest, refDigest := ref.best().ID(), ref.kv.Digest()
	res.RefFollowsRemote = refBest == remoteHead.ID()
	ref.close()

	remote := e.open(kvrec.New(), true, via == "sync")
	remote.importAll(c.remote)
	le, re := pipe.New()
	var acts atomic.Int64
	var rounds atomic.Int64 // ancestor searches started by the local node (first probe = its head number)
	le.Tap = func(code uint64, payload []byte) {
		acts.Add(1)
		if code == proto.MsgGetBlockIDByNumber {
			if env, err := pipe.ParseEnvelope(payload); err == nil && !env.IsResult {
				var n uint32
				if rlp.DecodeBytes(env.Payload, &n) == nil && n == localHead.Number() {
					rounds.Add(1)
				}
			}
		}
	}
	re.Tap = func(uint64, []byte) { acts.Add(1) }

	if via == "download" {
		remote.comm = comm.New(remote.repo, nil)
		done := make(chan struct{})
		go func() {
			_ = remote.comm.Protocols()[0].Run(p2p.NewPeer(discover.NodeID{0x70, byte(seq)}, "local", nil), re)
			re.Close()
			close(done)
		}()
		served, err := comm.VerifDownload(context.Background(), local.repo, le, localHead.Number(), local.node.VerifHandleBlockStream)
		le.Close()
		<-served
		<-done
		remote.comm = nil
		res.Status = errClass(err)
		if err != nil {
			res.Err = err.Error()
		}
	} else {
		lc, rc := local.comm, remote.comm
		lc.Start()
		rc.Start()
		ldone, rdone := make(chan struct{}), make(chan struct{})
		go func() {
			_ = lc.Protocols()[0].Run(p2p.NewPeer(discover.NodeID{0x71, byte(seq)}, "remote", nil), le)
			le.Close()
			close(ldone)
		}()
		go func() {
			_ = rc.Protocols()[0].Run(p2p.NewPeer(discover.NodeID{0x72, byte(seq)}, "local", nil), re)
			re.Close()
			close(rdone)
		}()
		ctx, cancel := context.WithCancel(context.Background())
		sdone := make(chan struct{})
		go func() { lc.Sync(ctx, local.node.VerifHandleBlockStream); close(sdone) }()
		// same stall rule as the plain Sync pairs: polls without a message and without a change of best
		idle, lastActs, lastBest := 0, int64(-1), local.best().ID()
		capAt := time.Now().Add(180 * time.Second)
		for {
			if local.best().ID() == refBest && (refBest != localHead.ID() || idle >= 120 || rounds.Load() >= 3) {
				break // where the reference node ends (if that is the old head: after three refused rounds or six quiet ticks)
			}
			select {
			case <-lc.Synced():
			case <-time.After(50 * time.Millisecond):
			}
			if a, b := acts.Load(), local.best().ID(); a != lastActs || b != lastBest || lc.PeerCount() == 0 {
				idle, lastActs, lastBest = 0, a, b
			} else {
				idle++
			}
			// a peer whose announced total score is lower is never selected (peer selection is by score): two sync ticks
			// suffice to record that; a selectable peer gets the full stall rule
			if idle >= 260 || (!res.HigherScore && idle >= 90) {
				res.Stalled = true
				break
			}
			if time.Now().After(capAt) {
				res.Timeout = true
				break
			}
		}
		cancel()
		<-sdone
		le.Close()
		<-ldone
		<-rdone
		res.Status = "sync"
	}
	for _, b := range ronly {
		if local.has(b.Header().ID()) {
			res.Imported++
		}
	}
	best := local.best().ID()
	res.Converged = best == remoteHead.ID()
	res.BestIsRef = best == refBest
	res.StoreOK = local.kv.Digest() == refDigest
	e.emit(trace.Ev{"e": "QEnd", "case": c.label + "/" + via, "via": via, "status": res.Status, "bestIsRef": res.BestIsRef,
		"storeOK": res.StoreOK, "refFollowsRemote": res.RefFollowsRemote, "converged": res.Converged, "imported": res.Imported,
		"refImported": res.RefImported, "higherScore": res.HigherScore, "stalled": res.Stalled, "timeout": res.Timeout,
		"localFinalized": res.LocalFinalized})
	local.close()
	remote.close()
	return res
}
