package main

import (
	"bytes"
	"io"
	"math"
	"sync"
	"time"

	"github.com/ethereum/go-ethereum/rlp"

	"github.com/vechain/thor/v2/block"
	"github.com/vechain/thor/v2/comm"
	"github.com/vechain/thor/v2/comm/proto"
	"github.com/vechain/thor/v2/p2p"
	"github.com/vechain/thor/v2/p2p/discover"
	"github.com/vechain/thor/v2/thor"
	"github.com/vechain/thor/v2/tx"

	"verifharness/internal/kvrec"
	"verifharness/internal/pipe"
	"verifharness/internal/trace"
)

// msgCase is one message pushed through rpc.Serve -> handleRPC of the node.
type msgCase struct {
	code     uint64
	cls      string // ok | badarg | badenv | toolarge | txbig | result | random
	payload  []byte
	size     uint32 // Size field of the message (0 = len(payload))
	note     string
	noTrace  bool // auxiliary check: judged in Go, not part of the trace
	wantFeed int  // auxiliary check: NewBlockEvents expected (bounds how long the connection is kept up)
}

type msgResult struct {
	Code  uint64 `json:"code"`
	Cls   string `json:"cls"`
	Note  string `json:"note"`
	Err   bool   `json:"err"`
	Reply int    `json:"reply"`
	Feed  int    `json:"feed"`
	Pool  int    `json:"pool"`
	Fetch int    `json:"fetch"`
	Same  bool   `json:"same"`
}

type msgBench struct {
	e      *env
	nd     *stack
	feed   chan *comm.NewBlockEvent
	seq    int
	byID   func(id thor.Bytes32) []rlp.RawValue
	result []msgResult
}

// decodeAs mirrors rpc.Serve + msg.Decode: the first stream reads [callID, isResult, a second stream decodes the
// argument from what follows. It only tells the harness which call id a (random) payload carries and whether an
// announced id decodes - it is not an oracle for the verdict.
func decodeAs(payload []byte, arg any) (callID uint32, isResult bool, envOK bool, argOK bool) {
	r := bytes.NewReader(payload)
	s := rlp.NewStream(r, uint64(len(payload)))
	if _, err := s.List(); err != nil {
		return
	}
	if s.Decode(&callID) != nil || s.Decode(&isResult) != nil {
		return 0, false, false, false
	}
	envOK = true
	if arg != nil {
		argOK = rlp.NewStream(r, uint64(len(payload))).Decode(arg) == nil
	}
	return
}

func (mb *msgBench) send(c msgCase) msgResult {
	mb.seq++
	nd := mb.nd
	nodeEnd, our := pipe.New()
	runDone := make(chan error, 1)
	go func() {
		runDone <- nd.comm.Protocols()[0].Run(p2p.NewPeer(discover.NodeID{0x40, byte(mb.seq >> 16), byte(mb.seq >> 8), byte(mb.seq)}, "tester", nil), nodeEnd)
	}()
	const pingID = 0x7070
	var (
		mu      sync.Mutex
		replies int
		fetches int
		pinged  = make(chan struct{}, 1)
		fetched = make(chan struct{}, 8)
		reader  = make(chan struct{})
	)
	go func() {
		defer close(reader)
		for {
			msg, err := our.ReadMsg()
			if err != nil {
				return
			}
			payload, _ := io.ReadAll(msg.Payload)
			env, err := pipe.ParseEnvelope(payload)
			if err != nil {
				continue
			}
			if env.IsResult {
				mu.Lock()
				if env.CallID == pingID {
					select {
					case pinged <- struct{}{}:
					default:
					}
				} else {
					replies++
				}
				mu.Unlock()
				continue
			}
			if env.CallID == 0 {
				continue
			}
			switch msg.Code {
			case proto.MsgGetStatus:
				_ = our.Send(msg.Code, pipe.Frame(env.CallID, true, &proto.Status{GenesisBlockID: mb.e.net.B0.Header().ID(),
					SysTimestamp: uint64(time.Now().Unix()), BestBlockID: mb.e.net.B0.Header().ID(), TotalScore: 0}))
			case proto.MsgGetBlockByID:
				var id thor.Bytes32
				_ = rlp.DecodeBytes(env.Payload, &id)
				res := []rlp.RawValue{}
				if mb.byID != nil {
					res = mb.byID(id)
				}
				_ = our.Send(msg.Code, pipe.Frame(env.CallID, true, res))
				mu.Lock()
				fetches++
				mu.Unlock()
				fetched <- struct{}{}
			default:
				_ = our.Send(msg.Code, pipe.Frame(env.CallID, true, []rlp.RawValue{}))
			}
		}
	}()

	// drain stale feed events, take the baseline
	for len(mb.feed) > 0 {
		<-mb.feed
	}
	digest0, pool0 := nd.kv.Digest(), nd.pool.Len()

	size := c.size
	if size == 0 {
		size = uint32(len(c.payload))
	}
	_ = our.Inject(c.code, size, c.payload)
	_ = our.Send(proto.MsgGetStatus, pipe.Frame(pingID, false, &struct{}{}))
	res := msgResult{Code: c.code, Cls: c.cls, Note: c.note}
	select {
	case <-pinged:
	case <-runDone:
		res.Err = true
		runDone <- nil
	case <-time.After(20 * time.Second):
		fail("message case %d/%s/%s: neither answered nor dropped", c.code, c.cls, c.note)
	}
	// an accepted announcement of an unknown id makes the node fetch the block (asynchronously)
	var id thor.Bytes32
	callID, isResult, envOK, argOK := decodeAs(c.payload, &id)
	unk := c.code == proto.MsgNewBlockID && envOK && !isResult && argOK && !nd.has(id) && c.cls != "toolarge"
	if unk && !res.Err {
		select {
		case <-fetched:
		case <-time.After(5 * time.Second):
		}
	}
	res.Same = nd.kv.Digest() == digest0
	res.Pool = nd.pool.Len() - pool0
	if c.noTrace {
		// auxiliary announce checks: keep the connection up while the node digests the fetched block - hanging up right
		// after the answer makes rpc.Call choose between the result and "peer disconnected" at random
		for i := 0; i < 30+470*c.wantFeed && len(mb.feed) == 0; i++ {
			time.Sleep(10 * time.Millisecond)
		}
	}
	res.Feed = len(mb.feed)
	our.Close()
	<-runDone
	<-reader
	mu.Lock()
	res.Reply, res.Fetch = replies, fetches
	mu.Unlock()

	if c.noTrace {
		return res
	}
	mb.e.emit(trace.Ev{"e": "Conn"}, trace.Ev{"e": "Msg", "code": c.code, "cls": c.cls, "call": envOK && !isResult && callID != 0,
		"err": res.Err, "reply": res.Reply, "feed": res.Feed, "pool": res.Pool, "fetch": res.Fetch, "unk": unk,
		"same": res.Same, "note": c.note})
	mb.result = append(mb.result, res)
	return res
}

func raw(v any) rlp.RawValue {
	b, err := rlp.EncodeToBytes(v)
	must(err)
	return b
}

func frameRaw(callID uint32, isResult bool, arg rlp.RawValue) []byte {
	return pipe.Envelope{CallID: callID, IsResult: isResult, Payload: arg}.Encode()
}

func (e *env) runMessages(nrand int) {
	e.trunkTo(6)
	nd := e.open(kvrec.New(), true, true)
	nd.importAll(e.trunk[1:4])
	nd.comm.Start()
	mb := &msgBench{e: e, nd: nd, feed: make(chan *comm.NewBlockEvent, 256)}
	sub := nd.comm.SubscribeBlock(mb.feed)
	defer sub.Unsubscribe()

	tag := nd.repo.ChainTag()
	to := e.net.Devs[9].Address
	mkTx := func(nonce uint64, chainTag byte, data int) *tx.Transaction {
		t := tx.NewBuilder(tx.TypeLegacy).ChainTag(chainTag).Clause(tx.NewClause(&to).WithData(make([]byte, data))).
			Gas(uint64(100000 + data*68)).Expiration(1000).Nonce(nonce).BlockRef(tx.NewBlockRef(0)).GasPriceCoef(0).Build()
		return tx.MustSign(t, e.net.Devs[8].PrivateKey)
	}
	known, unknown := e.trunk[2].Header().ID(), e.trunk[6].Header().ID()
	next, old := e.trunk[4], e.trunk[2]
	badSig := resign(next, 6, e, nil)

	// ---- well-formed arguments per code ------------------------------------------------------------------------
	okArgs := map[uint64][]struct {
		note string
		arg  rlp.RawValue
	}{
		proto.MsgGetStatus:           {{"empty", raw(&struct{}{})}},
		proto.MsgNewBlockID:          {{"known-id", raw(known)}, {"unknown-id", raw(unknown)}},
		proto.MsgNewBlock:            {{"next-block", raw(next)}, {"known-block", raw(old)}, {"bad-signature-block", raw(badSig)}, {"far-block", raw(e.trunk[6])}},
		proto.MsgNewTx:               {{"valid-tx", raw(mkTx(1, tag, 0))}, {"same-tx-again", raw(mkTx(1, tag, 0))}, {"wrong-chain-tag", raw(mkTx(2, tag+1, 0))}, {"60KB-tx", raw(mkTx(3, tag, 60*1024))}},
		proto.MsgGetBlockByID:        {{"known-id", raw(known)}, {"unknown-id", raw(unknown)}},
		proto.MsgGetBlockIDByNumber:  {{"0", raw(uint32(0))}, {"2", raw(uint32(2))}, {"beyond-head", raw(uint32(100))}, {"max", raw(uint32(math.MaxUint32))}},
		proto.MsgGetBlocksFromNumber: {{"0", raw(uint32(0))}, {"head", raw(uint32(3))}, {"head+1", raw(uint32(4))}, {"max", raw(uint32(math.MaxUint32))}},
		proto.MsgGetTxs:              {{"empty", raw(&struct{}{})}},
	}
	// ---- arguments the argument type of the code cannot accept -----------------------------------------------
	str := func(n int) rlp.RawValue { return raw(bytes.Repeat([]byte{0xab}, n)) }
	list123 := raw([]uint{1, 2, 3})
	badArgs := map[uint64][]struct {
		note string
		arg  rlp.RawValue
	}{
		proto.MsgGetStatus:           {{"int", raw(uint(5))}, {"string", str(3)}, {"list123", list123}},
		proto.MsgNewBlockID:          {{"int", raw(uint(5))}, {"31-bytes", str(31)}, {"33-bytes", str(33)}, {"list123", list123}, {"empty-list", raw([]uint{})}},
		proto.MsgNewBlock:            {{"int", raw(uint(5))}, {"string", str(40)}, {"list123", list123}, {"empty-list", raw([]uint{})}, {"header-only", raw([]any{next.Header()})}, {"body-broken", rlp.RawValue(bodyBroken(next, 0))}, {"body-empty-string-tx", rlp.RawValue(bodyBroken(next, 1))}, {"body-one-byte-typed-tx", rlp.RawValue(bodyBroken(next, 2))}},
		proto.MsgNewTx:               {{"list123", list123}, {"empty-string", raw([]byte{})}, {"one-byte-typed", raw([]byte{0x51})}, {"unknown-type", str(40)}, {"empty-list", raw([]uint{})}},
		proto.MsgGetBlockByID:        {{"int", raw(uint(5))}, {"31-bytes", str(31)}, {"33-bytes", str(33)}, {"list123", list123}},
		proto.MsgGetBlockIDByNumber:  {{"5-byte-int", raw(uint64(1) << 32)}, {"leading-zero", rlp.RawValue{0x82, 0x00, 0x01}}, {"33-bytes", str(33)}, {"list123", list123}},
		proto.MsgGetBlocksFromNumber: {{"5-byte-int", raw(uint64(1) << 32)}, {"leading-zero", rlp.RawValue{0x82, 0x00, 0x01}}, {"33-bytes", str(33)}, {"list123", list123}},
		proto.MsgGetTxs:              {{"int", raw(uint(5))}, {"string", str(3)}, {"list123", list123}},
	}

	for code := uint64(0); code < 8; code++ {
		for _, a := range okArgs[code] {
			for _, callID := range []uint32{0x5151, 0} {
				note := a.note
				if callID == 0 {
					note += "/notify"
				}
				mb.send(msgCase{code: code, cls: "ok", payload: frameRaw(callID, false, a.arg), note: note})
			}
		}
		for _, a := range badArgs[code] {
			mb.send(msgCase{code: code, cls: "badarg", payload: frameRaw(0x5151, false, a.arg), note: a.note})
		}
		ok0 := okArgs[code][0].arg
		// argument missing / cut short
		mb.send(msgCase{code: code, cls: "badarg", payload: raw([]any{uint32(0x5151), false}), note: "no-argument"})
		full := frameRaw(0x5151, false, str(32))
		mb.send(msgCase{code: code, cls: "badarg", payload: append([]byte{}, full[:len(full)-20]...), note: "cut-short"})
		// broken framing
		for _, be := range []struct {
			note string
			p    []byte
		}{{"single-byte", []byte{0x05}}, {"empty-string", []byte{0x80}}, {"empty-list", []byte{0xc0}},
			{"callid-5-bytes", raw([]any{uint64(1) << 33, false, ok0})}, {"flag-not-bool", raw([]any{uint32(1), uint(2), ok0})},
			{"callid-is-list", raw([]any{[]uint{1}, false, ok0})}} {
			mb.send(msgCase{code: code, cls: "badenv", payload: be.p, note: be.note})
		}
		mb.send(msgCase{code: code, cls: "toolarge", payload: frameRaw(0x5151, false, ok0), size: proto.MaxMsgSize + 1, note: "size-field-10MB+1"})
		mb.send(msgCase{code: code, cls: "result", payload: frameRaw(0x999, true, ok0), note: "stray-result"})
	}
	// a genuinely large message (not only a large Size field), once
	mb.send(msgCase{code: proto.MsgNewBlock, cls: "toolarge", payload: frameRaw(0x5151, false, raw(make([]byte, proto.MaxMsgSize))), note: "10MB-payload"})
	// MsgNewTx beyond maxTxSize
	mb.send(msgCase{code: proto.MsgNewTx, cls: "txbig", payload: frameRaw(0x5151, false, raw(mkTx(4, tag, 70*1024))), note: "70KB-tx"})
	mb.send(msgCase{code: proto.MsgNewTx, cls: "txbig", payload: frameRaw(0, false, raw(mkTx(5, tag, 66*1024))), note: "66KB-tx/notify"})
	// codes outside the protocol
	for _, code := range []uint64{8, 9, 255} {
		mb.send(msgCase{code: code, cls: "ok", payload: frameRaw(0x5151, false, raw(&struct{}{})), note: "unknown-code"})
		mb.send(msgCase{code: code, cls: "result", payload: frameRaw(0x999, true, raw(&struct{}{})), note: "unknown-code-stray-result"})
	}

	// ---- seeded random payloads --------------------------------------------------------------------------------
	for code := uint64(0); code <= 8; code++ {
		for k := 0; k < nrand; k++ {
			var p []byte
			note := ""
			switch k % 4 {
			case 0: // raw noise
				p = make([]byte, e.rng.Intn(80))
				e.rng.Read(p)
				note = "noise"
			case 1: // proper framing, random argument bytes of the length the code expects (or near it)
				n := []int{0, 1, 4, 31, 32, 33, 64}[e.rng.Intn(7)]
				b := make([]byte, n)
				e.rng.Read(b)
				p = frameRaw(uint32(e.rng.Intn(3)), e.rng.Intn(8) == 0, raw(b))
				note = "framed-random-string"
			case 2: // a well-formed message with one byte changed
				args := okArgs[code%8]
				p = frameRaw(0x5151, false, args[e.rng.Intn(len(args))].arg)
				i := e.rng.Intn(len(p))
				p[i] ^= byte(1 << uint(e.rng.Intn(8)))
				note = "bit-flip"
			default: // a well-formed message cut or extended
				args := okArgs[code%8]
				p = frameRaw(0x5151, false, args[e.rng.Intn(len(args))].arg)
				if e.rng.Intn(2) == 0 && len(p) > 1 {
					p = p[:1+e.rng.Intn(len(p)-1)]
					note = "truncated"
				} else {
					p = append(p, byte(e.rng.Intn(256)), byte(e.rng.Intn(256)))
					note = "trailing-bytes"
				}
			}
			mb.send(msgCase{code: code, cls: "random", payload: p, note: note})
		}
	}

	// ---- what the node does with announced / pushed blocks (handleNewBlock = processBlock) ---------------------
	checks := []map[string]any{}
	check := func(name string, ok bool, detail string) {
		checks = append(checks, map[string]any{"name": name, "ok": ok, "detail": detail})
	}
	pushBlock := func(b *block.Block) (*comm.NewBlockEvent, msgResult) {
		r := mb.send(msgCase{code: proto.MsgNewBlock, cls: "ok", payload: frameRaw(0, false, raw(b)), note: "feed-check"})
		select {
		case ev := <-mb.feed:
			return ev, r
		default:
			return nil, r
		}
	}
	d0 := nd.kv.Digest()
	if ev, _ := pushBlock(badSig); ev == nil {
		check("bad-signature block published", false, "no NewBlockEvent")
	} else {
		_, class, err := nd.node.VerifProcessBlock(ev.Block)
		check("bad-signature block refused by the node", err != nil && nd.kv.Digest() == d0 && nd.best().ID() == e.trunk[3].Header().ID(),
			"class="+class)
	}
	if ev, _ := pushBlock(next); ev == nil || ev.Block.Header().ID() != next.Header().ID() {
		check("valid block published unchanged", false, "no or different NewBlockEvent")
	} else {
		_, class, err := nd.node.VerifProcessBlock(ev.Block)
		check("valid pushed block imported", err == nil && class == "ok" && nd.best().ID() == next.Header().ID(), "class="+class)
	}
	// announcements answered inconsistently: only a block whose id is the announced id may be published
	answers := []struct {
		name string
		f    func(id thor.Bytes32) []rlp.RawValue
		want int
	}{
		{"announce: other block returned", func(thor.Bytes32) []rlp.RawValue { return []rlp.RawValue{rawOf(e.trunk[6])} }, 0},
		{"announce: garbage returned", func(thor.Bytes32) []rlp.RawValue { return []rlp.RawValue{raw("junk")} }, 0},
		{"announce: two blocks returned", func(thor.Bytes32) []rlp.RawValue { return []rlp.RawValue{rawOf(e.trunk[5]), rawOf(e.trunk[5])} }, 0},
		{"announce: body-broken block returned", func(thor.Bytes32) []rlp.RawValue { return []rlp.RawValue{bodyBroken(e.trunk[5], 0)} }, 0},
		{"announce: block with an empty-string tx returned", func(thor.Bytes32) []rlp.RawValue { return []rlp.RawValue{bodyBroken(e.trunk[5], 1)} }, 0},
		{"announce: announced block returned", func(thor.Bytes32) []rlp.RawValue { return []rlp.RawValue{rawOf(e.trunk[5])} }, 1},
	}
	for _, a := range answers {
		mb.byID = a.f
		d1 := nd.kv.Digest()
		mb.send(msgCase{code: proto.MsgNewBlockID, cls: "ok", payload: frameRaw(0, false, raw(e.trunk[5].Header().ID())), note: "announce-check", noTrace: true, wantFeed: a.want})
		deadline := time.Now().Add(time.Duration(400+4600*a.want) * time.Millisecond)
		got := 0
		var last *comm.NewBlockEvent
		for time.Now().Before(deadline) && (a.want == 0 || got == 0) {
			select {
			case last = <-mb.feed:
				got++
			case <-time.After(20 * time.Millisecond):
			}
		}
		ok := got == a.want && nd.kv.Digest() == d1
		if ok && got == 1 {
			ok = last.Block.Header().ID() == e.trunk[5].Header().ID()
		}
		check(a.name, ok, "")
	}
	mb.byID = nil
	e.stats["messages"] = mb.result
	e.stats["feedChecks"] = checks
	nd.close()
}
