// bftsim records event traces of the real bft.Engine + node import/pack path for Trace_BFT.tla (C03, C04).
//
//	bftsim -out <dir> -runs N -seed S -scen <name|all> [-blocks K]
//
// writes <dir>/trace.ndjson (all runs concatenated, each starting with a Reset event), <dir>/runs.json (per-run
// statistics) and prints a one-line JSON summary.
package main

import (
	"encoding/json"
	"flag"
	"fmt"
	"math/big"
	"math/rand"
	"os"
	"path/filepath"
	"sort"
	"strings"

	"github.com/vechain/thor/v2/block"
	"github.com/vechain/thor/v2/builtin"
	"github.com/vechain/thor/v2/thor"
	"github.com/vechain/thor/v2/tx"

	"verifharness/internal/sim"
	"verifharness/internal/trace"
)

type runStat struct {
	Scen      string   `json:"scen"`
	Seed      int64    `json:"seed"`
	Cfg       string   `json:"cfg"`
	Events    int      `json:"events"`
	Blocks    int      `json:"blocks"`
	MaxFin    uint32   `json:"maxFin"`
	ForkHts   int      `json:"forkHeights"`
	MaxDepth  int      `json:"maxForkDepth"`
	Refusals  int      `json:"refusals"`
	Restarts  int      `json:"restarts"`
	ByzBlocks int      `json:"byzBlocks"`
	Errors    []string `json:"errors,omitempty"`
	ComVotes  int      `json:"comVotes"`
}

type rec struct {
	net        *sim.Net
	ids        *trace.Interner
	evs        []trace.Ev
	blocks     map[thor.Bytes32]*block.Block
	order      []*block.Block
	rng        *rand.Rand
	st         runStat
	byHt       map[uint32]int
	logWeights bool
}

// weightTable reads every validator's voting weight from the state of the given block on the omniscient stack
// (scaled to units of 1e6 VET-weight so that sums stay below 2^31).
func (r *rec) weightTable(id thor.Bytes32) map[string]any {
	sum, err := r.net.God.Repo.GetBlockSummary(id)
	if err != nil {
		return nil
	}
	st := r.net.God.Stater.NewState(sum.Root())
	if active, err := builtin.Staker.Native(st).IsPoSActive(); err != nil || !active {
		return nil // still proof of authority at this checkpoint: votes are counted, not weighed
	}
	leaders, err := builtin.Staker.Native(st).LeaderGroup()
	if err != nil {
		return nil
	}
	wt := map[string]any{"none": 0}
	for i := 0; i < r.net.Opt.Validators; i++ {
		wt[fmt.Sprintf("v%d", i)] = 0
	}
	for _, l := range leaders {
		for i := 0; i < r.net.Opt.Validators; i++ {
			if r.net.Devs[i].Address == l.Address {
				if l.Weight%1_000_000 != 0 {
					fmt.Println("HARNESS-ERROR weight not a multiple of 1e6:", l.Weight)
					os.Exit(3)
				}
				wt[fmt.Sprintf("v%d", i)] = l.Weight / 1_000_000
			}
		}
	}
	return wt
}

func must(err error) {
	if err != nil {
		panic(err)
	}
}

func (r *rec) name(id thor.Bytes32) string { return r.ids.Name(id[:]) }

func (r *rec) val(h *block.Header) string {
	return fmt.Sprintf("v%d", r.net.SignerOf(h))
}

// noteBlock emits the New event the first time a block is seen.
func (r *rec) noteBlock(blk *block.Block) {
	h := blk.Header()
	if _, ok := r.blocks[h.ID()]; ok {
		return
	}
	r.blocks[h.ID()] = blk
	r.order = append(r.order, blk)
	r.byHt[h.Number()]++
	if h.COM() {
		r.st.ComVotes++
	}
	ev := trace.Ev{"e": "New", "b": r.name(h.ID()), "p": r.name(h.ParentID()), "num": h.Number(),
		"signer": r.val(h), "com": h.COM(), "score": h.TotalScore()}
	if r.logWeights && h.Number()%r.net.Opt.EpochLength == 0 {
		// PoS: the weight table of the epoch is that of the checkpoint's post-housekeep state (logged as a fact;
		// the threshold total*2/3 is computed by the specification)
		if wt := r.weightTable(h.ID()); wt != nil {
			ev["wt"] = wt
		}
	}
	r.evs = append(r.evs, ev)
}

func (r *rec) commitEv(n *sim.Node, blk *block.Block, own bool) {
	h := blk.Header()
	j, err := n.BFT.Justified()
	must(err)
	ev := trace.Ev{"e": "Commit", "n": n.Idx, "b": r.name(h.ID()), "own": own,
		"best": r.name(n.Repo.BestBlockSummary().Header.ID()), "fin": r.name(n.BFT.Finalized()), "just": r.name(j)}
	if q, tj, tc, ok := n.BFT.VerifTally(h.ID()); ok {
		ev["q"], ev["tj"], ev["tc"] = q, tj, tc
	}
	if own {
		cs := n.BFT.VerifCasts()
		sort.Slice(cs, func(i, j int) bool { return string(cs[i].Checkpoint[:]) < string(cs[j].Checkpoint[:]) })
		list := [][]any{}
		for _, c := range cs {
			list = append(list, []any{r.name(c.Checkpoint), c.Quality})
		}
		ev["casts"] = list
	}
	if f := block.Number(n.BFT.Finalized()); f > r.st.MaxFin {
		r.st.MaxFin = f
	}
	r.evs = append(r.evs, ev)
}

// propose: honest node i packs on its own best via the real doPack.
func (r *rec) propose(i int) *block.Block {
	n := r.net.Nodes[i]
	blk, err := n.Propose(0)
	if err != nil {
		r.st.Errors = append(r.st.Errors, fmt.Sprintf("propose n%d: %v", i, err))
		r.evs = append(r.evs, trace.Ev{"e": "Error", "n": i, "what": "propose", "err": err.Error()})
		return nil
	}
	if err := r.net.GodLearn(blk); err != nil {
		// the omniscient scratch stack could not validate an honestly packed block: cannot continue this run.
		// (packer/validator agreement is C01's subject; here it is reported as harness trouble, exit 3)
		fmt.Println("HARNESS-ERROR godlearn:", err)
		os.Exit(3)
	}
	r.noteBlock(blk)
	r.commitEv(n, blk, true)
	return blk
}

// deliver: node i receives blk.
func (r *rec) deliver(i int, blk *block.Block) string {
	n := r.net.Nodes[i]
	r.noteBlock(blk)
	class, err := n.Deliver(blk)
	b := r.name(blk.Header().ID())
	switch class {
	case "ok":
		r.commitEv(n, blk, false)
	case "bft-rejected":
		r.st.Refusals++
		r.evs = append(r.evs, trace.Ev{"e": "Refuse", "n": i, "b": b})
	case "known", "parent-missing":
		r.evs = append(r.evs, trace.Ev{"e": "Ignore", "n": i, "b": b, "class": class,
			"best": r.name(n.Repo.BestBlockSummary().Header.ID()), "fin": r.name(n.BFT.Finalized())})
	case "unprocessable":
		// block number beyond maxBlockNum+1: the node queues it; nothing to validate
	default:
		r.st.Errors = append(r.st.Errors, fmt.Sprintf("import n%d %s(num %d): %v", i, b, blk.Header().Number(), err))
		r.evs = append(r.evs, trace.Ev{"e": "Error", "n": i, "b": b, "what": "import", "err": err.Error()})
	}
	return class
}

// deliverChain: chain-sync style: all missing ancestors oldest first, then the block.
func (r *rec) deliverChain(i int, blk *block.Block) {
	n := r.net.Nodes[i]
	var chainBlks []*block.Block
	cur := blk
	for {
		if _, err := n.Repo.GetBlockSummary(cur.Header().ID()); err == nil {
			break
		}
		chainBlks = append(chainBlks, cur)
		p, ok := r.blocks[cur.Header().ParentID()]
		if !ok {
			break
		}
		cur = p
	}
	for k := len(chainBlks) - 1; k >= 0; k-- {
		if c := r.deliver(i, chainBlks[k]); c != "ok" && c != "known" {
			return
		}
	}
}

func (r *rec) restart(i int) {
	n := r.net.Restart(i)
	r.st.Restarts++
	j, err := n.BFT.Justified()
	must(err)
	r.evs = append(r.evs, trace.Ev{"e": "Restart", "n": i, "best": r.name(n.Repo.BestBlockSummary().Header.ID()),
		"fin": r.name(n.BFT.Finalized()), "just": r.name(j)})
}

// mint: God builds a valid block of validator who on parent with the given COM bit (adversarial / scripted).
func (r *rec) mint(parent thor.Bytes32, who int, com bool) *block.Block {
	blk, err := r.net.Mint(parent, who, com, 0)
	if err != nil {
		return nil
	}
	r.noteBlock(blk)
	return blk
}

type config struct {
	validators, nodes int
	pos               bool
	epoch             uint32
	fin               uint32 // height of the FINALITY fork
}

func (c config) String() string {
	m := "poa"
	if c.pos {
		m = "pos"
	}
	if c.fin > 0 {
		return fmt.Sprintf("%s-v%d-n%d-E%d-F%d", m, c.validators, c.nodes, c.epoch, c.fin)
	}
	return fmt.Sprintf("%s-v%d-n%d-E%d", m, c.validators, c.nodes, c.epoch)
}

func newRec(c config, scen string, seed int64) *rec {
	opt := sim.Options{Validators: c.validators, Nodes: c.nodes, PoS: c.pos, EpochLength: c.epoch, SkipLogs: true, RealRun: true, Finality: c.fin}
	if scen == "transition" {
		opt.NoGenesisStakers = true // the chain starts in PoA; validators queue by transaction
		opt.HayabusaTP = 2 * c.epoch
		opt.StakingPeriod = 4 * c.epoch
	}
	if scen == "posweights" || scen == "posforks" {
		opt.StakingPeriod = 2 * c.epoch
		opt.ExtraAccts = 1
		opt.DelegatorAcct = c.validators + 1 // the extra account plays the delegator (stargate) contract
	}
	thor.InitialMaxBlockProposers = 101
	if scen == "capped" {
		// the parameter says 9, the cap is 6 (production: 101): proposers and the vote threshold both follow the cap
		opt.MBP = uint64(c.validators) * 3 / 2
		thor.InitialMaxBlockProposers = uint64(c.validators)
	}
	net := sim.NewNet(opt)
	r := &rec{net: net, ids: trace.NewInterner("b"), blocks: map[thor.Bytes32]*block.Block{}, rng: rand.New(rand.NewSource(seed)),
		byHt: map[uint32]int{}}
	r.st.Scen, r.st.Seed, r.st.Cfg = scen, seed, c.String()
	r.logWeights = c.pos
	g := net.B0.Header().ID()
	r.name(g)
	r.blocks[g] = net.B0
	// configuration facts of the trace: weights and threshold inputs are read from the genesis state, the
	// threshold itself is computed by the specification
	w := map[string]any{}
	total := uint64(0)
	var thr uint64
	if c.pos && scen != "transition" { // the transition scenario starts under PoA: trace-wide facts are the PoA ones
		st := net.God.Stater.NewState(net.God.Repo.BestBlockSummary().Root())
		for i := 0; i < c.validators; i++ {
			v, err := builtin.Staker.Native(st).GetValidation(net.Devs[i].Address)
			must(err)
			// scale: all genesis weights are multiples of 1e6 VET
			w[fmt.Sprintf("v%d", i)] = v.Weight / 1_000_000
			total += v.Weight / 1_000_000
		}
		thr = total * 2 / 3
	} else {
		for i := 0; i < c.validators; i++ {
			w[fmt.Sprintf("v%d", i)] = 1
		}
		thr = uint64(c.validators) * 2 / 3 // MaxBlockProposers = validators ("capped": min(parameter, cap) = validators)
	}
	w["none"] = 0
	r.evs = append(r.evs, trace.Ev{"e": "Reset", "cfg": map[string]any{"E": c.epoch, "thrW": thr, "w": w, "nodes": c.nodes, "fin": c.fin},
		"scen": scen, "seed": seed, "cfgname": c.String()})
	return r
}

func (r *rec) finish() []trace.Ev {
	ranks := r.ids.Ranks()
	for _, e := range r.evs {
		if e["e"] == "New" {
			e["ord"] = ranks[e["b"].(string)]
		}
	}
	r.st.Events = len(r.evs)
	r.st.Blocks = len(r.order)
	for _, c := range r.byHt {
		if c > 1 {
			r.st.ForkHts++
		}
	}
	r.st.MaxDepth = r.maxForkDepth()
	r.net.Close()
	return r.evs
}

// maxForkDepth: the longest side branch (blocks not on the longest chain) measured in blocks.
func (r *rec) maxForkDepth() int {
	if len(r.order) == 0 {
		return 0
	}
	// pick the highest-score block as main head
	var head *block.Block
	for _, b := range r.order {
		if head == nil || b.Header().BetterThan(head.Header()) {
			head = b
		}
	}
	main := map[thor.Bytes32]bool{}
	for cur := head; cur != nil; cur = r.blocks[cur.Header().ParentID()] {
		main[cur.Header().ID()] = true
		if cur.Header().Number() == 0 {
			break
		}
	}
	depth := map[thor.Bytes32]int{}
	max := 0
	for _, b := range r.order { // parents are noted before children
		if main[b.Header().ID()] {
			continue
		}
		d := depth[b.Header().ParentID()] + 1
		depth[b.Header().ID()] = d
		if d > max {
			max = d
		}
	}
	return max
}

// ------------------------------------------------------------------------------------------------ scenarios

// scenSync: synchronous honest rounds, a random participating subset each block.
func scenSync(r *rec, blocks int) {
	n := len(r.net.Nodes)
	part := n
	if r.rng.Intn(3) == 0 && n > 2 {
		part = n - 1
	}
	for k := 0; k < blocks; k++ {
		p := r.rng.Intn(part)
		blk := r.propose(p)
		if blk == nil {
			return
		}
		for i := range r.net.Nodes {
			if i != p {
				r.deliver(i, blk)
			}
		}
	}
}

// scenAsync: random delays, reordering, duplicates, partitions that heal, restarts.
func scenAsync(r *rec, blocks int, restarts bool, byz bool) {
	n := len(r.net.Nodes)
	byzIdx := -1
	if byz {
		byzIdx = r.net.Opt.Validators - 1 // validator without a node
	}
	partitioned := -1
	for len(r.order) < blocks {
		x := r.rng.Intn(100)
		switch {
		case x < 30: // honest proposal
			r.propose(r.rng.Intn(n))
		case x < 70: // delivery of a random known block (with its ancestors) to a random node
			if len(r.order) == 0 {
				continue
			}
			i := r.rng.Intn(n)
			if i == partitioned {
				continue
			}
			blk := r.order[r.rng.Intn(len(r.order))]
			if r.rng.Intn(4) == 0 {
				blk = r.order[len(r.order)-1-r.rng.Intn(min(3, len(r.order)))]
			}
			if r.rng.Intn(12) == 0 {
				r.deliver(i, blk) // raw: may be known / parent-missing / unprocessable
			} else {
				r.deliverChain(i, blk)
			}
		case x < 80 && byz: // Byzantine block: any parent among recent blocks, any bit, equivocation allowed
			parent := r.net.B0.Header().ID()
			if len(r.order) > 0 {
				parent = r.order[len(r.order)-1-r.rng.Intn(min(5, len(r.order)))].Header().ID()
			}
			if r.mint(parent, byzIdx, r.rng.Intn(2) == 0) != nil {
				r.st.ByzBlocks++
			}
		case x < 84 && restarts:
			r.restart(r.rng.Intn(n))
		case x < 88:
			if partitioned < 0 {
				partitioned = r.rng.Intn(n)
			} else {
				partitioned = -1
			}
		default: // catch-up: one node syncs to the best block of another
			i, j := r.rng.Intn(n), r.rng.Intn(n)
			if i != j && i != partitioned {
				b := r.net.Nodes[j].Repo.BestBlockSummary().Header.ID()
				if blk, ok := r.blocks[b]; ok && blk.Header().Number() > 0 {
					r.deliverChain(i, blk)
				}
			}
		}
	}
	// heal: everybody learns everything
	for i := 0; i < n; i++ {
		for _, blk := range append([]*block.Block(nil), r.order...) {
			r.deliverChain(i, blk)
		}
	}
}

// scenEquivocate: a Byzantine validator signs two blocks in the same slot with opposite COM bits around epoch
// boundaries and shows each half of the network a different one, then releases both.
func scenEquivocate(r *rec, blocks int) {
	n := len(r.net.Nodes)
	byzIdx := r.net.Opt.Validators - 1
	for len(r.order) < blocks {
		p := r.rng.Intn(n)
		blk := r.propose(p)
		if blk == nil {
			return
		}
		for i := range r.net.Nodes {
			if i != p {
				r.deliverChain(i, blk)
			}
		}
		if r.rng.Intn(3) == 0 {
			parent := blk.Header().ID()
			a := r.mint(parent, byzIdx, true)
			b := r.mint(parent, byzIdx, false)
			if a == nil || b == nil {
				continue
			}
			r.st.ByzBlocks += 2
			for i := range r.net.Nodes {
				if i%2 == 0 {
					r.deliverChain(i, a)
				} else {
					r.deliverChain(i, b)
				}
			}
			if r.rng.Intn(2) == 0 { // release the other one later
				for i := range r.net.Nodes {
					r.deliverChain(i, a)
					r.deliverChain(i, b)
				}
			}
		}
	}
	for i := 0; i < n; i++ {
		for _, blk := range append([]*block.Block(nil), r.order...) {
			r.deliverChain(i, blk)
		}
	}
}

// scenPermute (C04): a block tree is minted up front (random forks, random COM bits), then every node receives the
// same set in a different parent-before-child order, with duplicates and a restart in the middle.
func scenPermute(r *rec, blocks int) {
	v := r.net.Opt.Validators
	tips := []thor.Bytes32{r.net.B0.Header().ID()}
	for len(r.order) < blocks {
		var parent thor.Bytes32
		if r.rng.Intn(5) == 0 && len(r.order) > 2 { // fork from a recent block
			parent = r.order[len(r.order)-1-r.rng.Intn(min(4, len(r.order)))].Header().ID()
		} else {
			parent = tips[len(tips)-1]
		}
		pnum := r.blocks[parent].Header().Number()
		com := pnum >= 2*uint32(r.net.Opt.EpochLength)-1 && r.rng.Intn(5) != 0
		blk := r.mint(parent, r.rng.Intn(v), com)
		if blk == nil {
			continue
		}
		if blk.Header().ParentID() == tips[len(tips)-1] {
			tips = append(tips, blk.Header().ID())
		}
	}
	all := append([]*block.Block(nil), r.order...)
	for i := range r.net.Nodes {
		// random topological order: repeatedly pick a random block whose parent was already delivered
		done := map[thor.Bytes32]bool{r.net.B0.Header().ID(): true}
		pending := append([]*block.Block(nil), all...)
		restartAt := -1
		if r.rng.Intn(2) == 0 {
			restartAt = r.rng.Intn(len(all))
		}
		cnt := 0
		for len(pending) > 0 {
			var ready []int
			for k, b := range pending {
				if done[b.Header().ParentID()] {
					ready = append(ready, k)
				}
			}
			k := ready[r.rng.Intn(len(ready))]
			if i == 0 {
				k = ready[0] // node 0: creation order
			}
			b := pending[k]
			pending = append(pending[:k], pending[k+1:]...)
			r.deliver(i, b)
			done[b.Header().ID()] = true
			if r.rng.Intn(8) == 0 {
				r.deliver(i, b) // duplicate
			}
			if cnt == restartAt {
				r.restart(i)
			}
			cnt++
		}
	}
}

// scenLateSibling (C04): a sibling of an epoch's last block arrives after later epochs finalized that epoch's
// checkpoint: it descends from the finalized checkpoint and must be imported without error.
func scenLateSibling(r *rec, _ int) {
	E := int(r.net.Opt.EpochLength)
	v := r.net.Opt.Validators
	parent := r.net.B0.Header().ID()
	var chain []*block.Block
	target := 5 * E
	for len(chain) < target {
		num := len(chain) + 1
		com := num >= 2*E
		blk := r.mint(parent, len(chain)%v, com)
		if blk == nil {
			continue
		}
		chain = append(chain, blk)
		parent = blk.Header().ID()
	}
	// late siblings: for every store point height sp (last of an epoch) a sibling by another validator
	var siblings []*block.Block
	for e := 1; e < 5; e++ {
		sp := e*E + E - 1 // height
		if sp-2 < 0 || sp-1 >= len(chain) {
			continue
		}
		par := chain[sp-2].Header().ID() // block at height sp-1
		orig := r.net.SignerOf(chain[sp-1].Header())
		for d := 1; d < v; d++ {
			w := (orig + d) % v
			{
				if s := r.mint(par, w, true); s != nil {
					siblings = append(siblings, s)
					break
				}
			}
		}
	}
	// late CHILDREN of checkpoints: the parent is exactly a (later finalized) checkpoint block
	for e := 1; e < 5; e++ {
		cp := e * E // height of the checkpoint
		if cp-1 >= len(chain) || cp >= len(chain) {
			continue
		}
		par := chain[cp-1].Header().ID()
		orig := r.net.SignerOf(chain[cp].Header())
		if s := r.mint(par, (orig+1)%v, true); s != nil {
			siblings = append(siblings, s)
		}
	}
	// descendants of the late store-point siblings across the next epoch boundary: their tallies start from the
	// persisted quality of the sibling, which must have been saved although it arrived after its epoch was finalized
	type group struct {
		cp     uint32 // checkpoint height of the sibling's epoch
		blocks []*block.Block
	}
	var groups []group
	for _, s := range siblings {
		g := group{cp: s.Header().Number() / uint32(E) * uint32(E), blocks: []*block.Block{s}}
		if int(s.Header().Number())%E == E-1 {
			tip := s
			for k := 0; k < E+1; k++ {
				nb := r.mint(tip.Header().ID(), (r.net.SignerOf(tip.Header())+1)%v, true)
				if nb == nil {
					break
				}
				g.blocks = append(g.blocks, nb)
				tip = nb
			}
		}
		groups = append(groups, g)
	}
	for i := range r.net.Nodes {
		done := make([]bool, len(groups))
		for _, b := range chain {
			r.deliver(i, b)
			// as soon as the node has finalized exactly the checkpoint of a sibling's epoch, the sibling (and what was
			// built on it) arrives: late, but still descending from the finalized checkpoint
			fin := block.Number(r.net.Nodes[i].BFT.Finalized())
			for k, g := range groups {
				if !done[k] && fin > 0 && g.cp == fin {
					done[k] = true
					for _, x := range g.blocks {
						r.deliver(i, x)
					}
				}
			}
		}
		for k, g := range groups {
			if !done[k] {
				for _, x := range g.blocks {
					r.deliver(i, x)
				}
			}
		}
	}
}

// scenPosWeights: proof of stake with UNEQUAL weights: in the first blocks the validators increase their stake by
// different amounts; after the next staking-period renewal the weights differ, so that justification depends on who
// signs (two heavy validators can carry an epoch, three light ones cannot).
func scenPosWeights(r *rec, blocks int) {
	n := len(r.net.Nodes)
	tag := r.net.God.Repo.ChainTag()
	m, ok := builtin.Staker.ABI.MethodByName("increaseStake")
	if !ok {
		panic("no increaseStake")
	}
	unit, _ := new(big.Int).SetString("1000000000000000000000000", 10) // 1e6 VET in wei
	incs := []int64{0, 25, 50, 100}
	r.rng.Shuffle(len(incs), func(i, j int) { incs[i], incs[j] = incs[j], incs[i] })
	mkTxs := func(ref uint32) tx.Transactions {
		var txs tx.Transactions
		for i := 0; i < r.net.Opt.Validators && i < len(incs); i++ {
			if incs[i] == 0 {
				continue
			}
			data, err := m.EncodeInput(r.net.Devs[i].Address)
			must(err)
			cl := tx.NewClause(&builtin.Staker.Address).WithData(data).WithValue(new(big.Int).Mul(unit, big.NewInt(incs[i])))
			t := tx.NewBuilder(tx.TypeLegacy).ChainTag(tag).BlockRef(tx.NewBlockRef(ref)).Expiration(100).Gas(1_000_000).
				Nonce(uint64(r.st.Seed) + uint64(i)).Clause(cl).Build()
			txs = append(txs, tx.MustSign(t, r.net.Devs[i].PrivateKey))
		}
		// delegations with different multipliers: weight no longer equals locked VET (weight = vet x multiplier / 100)
		if md, ok := builtin.Staker.ABI.MethodByName("addDelegation"); ok {
			dg := r.net.Opt.DelegatorAcct - 1
			for k, mult := range []uint8{200, 150} {
				v := (int(r.st.Seed) + k) % r.net.Opt.Validators
				data, err := md.EncodeInput(r.net.Devs[v].Address, mult)
				must(err)
				cl := tx.NewClause(&builtin.Staker.Address).WithData(data).WithValue(new(big.Int).Mul(unit, big.NewInt(25*int64(k+1))))
				t := tx.NewBuilder(tx.TypeLegacy).ChainTag(tag).BlockRef(tx.NewBlockRef(ref)).Expiration(100).Gas(1_500_000).
					Nonce(uint64(r.st.Seed) + 100 + uint64(k)).Clause(cl).Build()
				txs = append(txs, tx.MustSign(t, r.net.Devs[dg].PrivateKey))
			}
		}
		return txs
	}
	// heavy validators first in the participation order after the change
	order := []int{0, 1, 2, 3}
	sort.Slice(order, func(a, b int) bool { return incs[order[a]] > incs[order[b]] })
	for k := 0; k < blocks; k++ {
		var p int
		switch {
		case k < blocks/3:
			p = k % n // everybody
		case k < 2*blocks/3:
			p = order[k%2] // only the two heaviest (175..225 of 275: may or may not pass 2/3)
		default:
			p = order[1+k%3] // the three lightest
		}
		if p >= n {
			p = k % n
		}
		if k == 0 {
			r.net.Nodes[p].Pool.Txs = mkTxs(0)
		}
		blk := r.propose(p)
		r.net.Nodes[p].Pool.Txs = nil
		if blk == nil {
			return
		}
		for i := range r.net.Nodes {
			if i != p {
				r.deliver(i, blk)
			}
		}
	}
}

// scenTransition: the chain starts under proof of authority (no genesis stakers); in block 1 every validator queues
// with a different stake; at the first transition block proof of stake takes over. Epochs in which only the two
// heaviest validators sign alternate with epochs in which all four do: under PoA two of four signers never justify,
// under PoS validators 0 and 1 hold more than 2/3 of the weight. The justifier must take the mode and the threshold of
// each epoch from that epoch's own checkpoint state.
func scenTransition(r *rec, blocks int) {
	tag := r.net.God.Repo.ChainTag()
	m, ok := builtin.Staker.ABI.MethodByName("addValidation")
	if !ok {
		panic("no addValidation")
	}
	unit, _ := new(big.Int).SetString("1000000000000000000000000", 10) // 1e6 VET in wei
	stakes := []int64{150, 100, 25, 25}
	period := thor.LowStakingPeriod()
	var txs tx.Transactions
	for i := 0; i < 4; i++ {
		data, err := m.EncodeInput(r.net.Devs[i].Address, period)
		must(err)
		cl := tx.NewClause(&builtin.Staker.Address).WithData(data).WithValue(new(big.Int).Mul(unit, big.NewInt(stakes[i])))
		t := tx.NewBuilder(tx.TypeLegacy).ChainTag(tag).BlockRef(tx.NewBlockRef(0)).Expiration(100).Gas(2_000_000).
			Nonce(uint64(r.st.Seed) + 900 + uint64(i)).Clause(cl).Build()
		txs = append(txs, tx.MustSign(t, r.net.Devs[i].PrivateKey))
	}
	n := len(r.net.Nodes)
	E := int(r.net.Opt.EpochLength)
	for k := 0; k < blocks; k++ {
		h := int(r.net.Nodes[0].Repo.BestBlockSummary().Header.Number()) + 1
		p := k % n
		if e := h / E; e%2 == 1 || e == 2 {
			p = k % 2 // only the two heaviest validators sign this epoch (incl. the first epoch under proof of stake)
		}
		if k == 0 {
			r.net.Nodes[p].Pool.Txs = txs
		}
		blk := r.propose(p)
		r.net.Nodes[p].Pool.Txs = nil
		if blk == nil {
			return
		}
		for i := range r.net.Nodes {
			if i != p {
				r.deliver(i, blk)
			}
		}
	}
}

// scenPosForks: proof of stake with weight tables that DIFFER PER FORK. After a common block the network splits:
// nodes 0 and 1 build fork A, whose first block carries a stake increase for validator 0; node 2 builds fork B with an
// increase for validator 2; the Byzantine validator 3 signs on both forks. After the staking-period renewal the forks
// weigh the same signers differently: fork B's signers (2 and 3) pass 2/3 under B's table and are far below it under
// A's. Fork B stops one epoch after the renewal - justified once, never able to finalize: with stake changes that
// take effect within two epochs each fork could otherwise build its own supermajority, which the protocol excludes by
// staking periods far longer than the finality lag. Then the partition heals: every node imports the other fork while
// its best block is on its own - tallies of blocks off the best chain must use THEIR chain's weights.
func scenPosForks(r *rec, blocks int) {
	tag := r.net.God.Repo.ChainTag()
	m, ok := builtin.Staker.ABI.MethodByName("increaseStake")
	if !ok {
		panic("no increaseStake")
	}
	unit, _ := new(big.Int).SetString("1000000000000000000000000", 10) // 1e6 VET in wei
	mkTxs := func(incs map[int]int64, nonce uint64) tx.Transactions {
		var txs tx.Transactions
		for _, i := range []int{0, 1, 2, 3} {
			if incs[i] == 0 {
				continue
			}
			data, err := m.EncodeInput(r.net.Devs[i].Address)
			must(err)
			cl := tx.NewClause(&builtin.Staker.Address).WithData(data).WithValue(new(big.Int).Mul(unit, big.NewInt(incs[i])))
			t := tx.NewBuilder(tx.TypeLegacy).ChainTag(tag).BlockRef(tx.NewBlockRef(0)).Expiration(100).Gas(1_000_000).
				Nonce(uint64(r.st.Seed) + nonce + uint64(i)).Clause(cl).Build()
			txs = append(txs, tx.MustSign(t, r.net.Devs[i].PrivateKey))
		}
		return txs
	}
	amounts := []int64{25, 50, 75, 100}
	r.rng.Shuffle(len(amounts), func(i, j int) { amounts[i], amounts[j] = amounts[j], amounts[i] })
	groupA, groupB := []int{0, 1}, []int{2}
	to := func(group []int, blk *block.Block, except int) {
		for _, i := range group {
			if i != except {
				r.deliver(i, blk)
			}
		}
	}
	first := r.propose(0)
	if first == nil {
		return
	}
	to([]int{1, 2}, first, -1)
	// the forks' first blocks carry the stake changes
	r.net.Nodes[0].Pool.Txs = mkTxs(map[int]int64{0: 75 + amounts[0]}, 0)
	a := r.propose(0)
	r.net.Nodes[0].Pool.Txs = nil
	r.net.Nodes[2].Pool.Txs = mkTxs(map[int]int64{2: 75 + amounts[2]}, 50)
	b := r.propose(2)
	r.net.Nodes[2].Pool.Txs = nil
	if a == nil || b == nil {
		return
	}
	to(groupA, a, 0)
	tipA, tipB := a, b
	for k := 0; k < blocks; k++ {
		// fork A: its two honest validators alternate, the Byzantine one joins now and then
		if k%3 == 2 {
			if x := r.mint(tipA.Header().ID(), 3, r.rng.Intn(2) == 0); x != nil {
				r.st.ByzBlocks++
				tipA = x
				to(groupA, x, -1)
			}
		} else if x := r.propose(groupA[k%2]); x != nil {
			tipA = x
			to(groupA, x, groupA[k%2])
		}
		// fork B: one honest validator and the Byzantine one, until one epoch after the renewal
		if int(tipB.Header().Number()) >= 3*int(r.net.Opt.EpochLength)-1 {
			continue
		}
		if k%2 == 1 {
			if x := r.mint(tipB.Header().ID(), 3, r.rng.Intn(2) == 0); x != nil {
				r.st.ByzBlocks++
				tipB = x
				to(groupB, x, -1)
			}
		} else if x := r.propose(2); x != nil {
			tipB = x
		}
	}
	// the partition heals; node 2 is restarted while it catches up (cold caches: the tally of a block in the middle
	// of an epoch is rebuilt from its own chain's checkpoint, not extended from the parent's cached one)
	var chainA []*block.Block
	for cur := tipA; cur.Header().Number() > first.Header().Number(); cur = r.blocks[cur.Header().ParentID()] {
		chainA = append([]*block.Block{cur}, chainA...)
	}
	for _, x := range chainA {
		if int(x.Header().Number())%int(r.net.Opt.EpochLength) == 1 && r.rng.Intn(2) == 0 {
			r.restart(2)
		}
		r.deliver(2, x)
	}
	for _, i := range groupA {
		r.deliverChain(i, tipB)
	}
	for k := 0; k < 2*int(r.net.Opt.EpochLength); k++ {
		p := k % len(r.net.Nodes)
		if x := r.propose(p); x != nil {
			to([]int{0, 1, 2}, x, p)
		}
	}
}

// scenDoubleVote: a validator signs two blocks ON ONE CHAIN inside one epoch with different COM bits ("votes both COM
// and non-COM in one round: counts as non-COM"), in both orders, in epochs where its vote decides whether the epoch
// is committed. All blocks are scripted (minted), every node imports them.
func scenDoubleVote(r *rec, blocks int) {
	E := int(r.net.Opt.EpochLength) // 4
	parent := r.net.B0.Header().ID()
	num := 0
	step := func(who int, com bool) bool {
		blk := r.mint(parent, who, com)
		if blk == nil {
			return false
		}
		parent = blk.Header().ID()
		num++
		for i := range r.net.Nodes {
			r.deliver(i, blk)
		}
		return true
	}
	// epoch 0 (heights 1..E-1) and epoch 1: three distinct signers, no COM (quality reaches 1 at the end of epoch 1)
	for num < 2*E-1 {
		if !step(num%3, false) {
			return
		}
	}
	for ep := 0; num < blocks; ep++ {
		// one epoch of E blocks: validators 0 and 1 vote COM, validator 3 votes twice with different bits
		first := ep%2 == 0 // COM first, then non-COM; next epoch the other way round
		pattern := []struct {
			who int
			com bool
		}{{0, true}, {3, first}, {3, !first}, {1, true}}
		if r.rng.Intn(3) == 0 { // sometimes a consistent voter instead: the epoch then IS committed
			pattern[2].com = pattern[1].com
		}
		for _, p := range pattern[:E] {
			if !step(p.who, p.com) {
				return
			}
		}
	}
}

// scenStaleFork: a side branch that forks BELOW a checkpoint which later becomes finalized is stored up to the node's
// maximum height before that happens; its next block then arrives as the first block at a new height. It does not
// descend from the finalized checkpoint and must be refused.
func scenStaleFork(r *rec, _ int) {
	E := int(r.net.Opt.EpochLength)
	g := r.net.B0.Header().ID()
	var trunk []*block.Block
	parent := g
	for len(trunk) < 4*E-1 { // heights 1 .. 4E-1: finalizes checkpoints E and 2E
		n := len(trunk) + 1
		blk := r.mint(parent, n%3, n >= 2*E)
		if blk == nil {
			return
		}
		trunk = append(trunk, blk)
		parent = blk.Header().ID()
	}
	forkAt := 1 + r.rng.Intn(E-1) // height of the last common block, below checkpoint E
	var side []*block.Block
	parent = trunk[forkAt-1].Header().ID()
	for len(side) < len(trunk)-forkAt+1 { // one block taller than the trunk
		blk := r.mint(parent, 3, r.rng.Intn(2) == 0)
		if blk == nil {
			return
		}
		side = append(side, blk)
		parent = blk.Header().ID()
	}
	for i := range r.net.Nodes {
		for _, b := range trunk[:forkAt] {
			r.deliver(i, b)
		}
		for _, b := range side[:len(side)-1] { // side branch up to the trunk's final height, before anything is finalized
			r.deliver(i, b)
		}
		for _, b := range trunk[forkAt:] {
			r.deliver(i, b)
		}
		r.deliver(i, side[len(side)-1]) // first block at a new height, on the stale fork
		if i%2 == 1 {
			r.restart(i)
			r.deliver(i, side[len(side)-1])
		}
	}
}

// scenStalePack: a node schedules a block on its best, then better blocks arrive, then it packs on the (now stale)
// flow - packerLoop notices a new best only once per second. The own block must become best only if the fork choice
// prefers it.
func scenStalePack(r *rec, blocks int) {
	n := len(r.net.Nodes)
	for len(r.order) < blocks {
		p := r.rng.Intn(n)
		node := r.net.Nodes[p]
		flow, err := node.Schedule(0)
		if err != nil {
			return
		}
		// meanwhile 0..3 blocks by others arrive at p (and everybody else)
		k := r.rng.Intn(4)
		for j := 0; j < k; j++ {
			q := (p + 1 + r.rng.Intn(n-1)) % n
			if blk := r.propose(q); blk != nil {
				for i := range r.net.Nodes {
					if i != q {
						r.deliverChain(i, blk)
					}
				}
			}
		}
		blk, err := node.Pack(flow)
		if err != nil {
			r.st.Errors = append(r.st.Errors, fmt.Sprintf("pack n%d: %v", p, err))
			r.evs = append(r.evs, trace.Ev{"e": "Error", "n": p, "what": "pack", "err": err.Error()})
			continue
		}
		if err := r.net.GodLearn(blk); err != nil {
			fmt.Println("HARNESS-ERROR godlearn:", err)
			os.Exit(3)
		}
		r.noteBlock(blk)
		r.commitEv(node, blk, true)
		for i := range r.net.Nodes {
			if i != p {
				r.deliverChain(i, blk)
			}
		}
	}
}

// scenShortBest: the best chain is SHORTER than a stored losing branch (it has the higher total score because the long
// branch skipped slots); the node restarts in that state; then the best chain grows through heights the losing branch
// already occupies, and the losing branch grows as well. Every block must import without error on every node.
func scenShortBest(r *rec, _ int) {
	g := r.net.B0
	ts := g.Header().Timestamp()
	var a []*block.Block // long, light branch: every block skips three slots
	parent := g.Header().ID()
	for i := 0; i < 4; i++ {
		ts += 40
		blk, err := r.net.Mint(parent, 3, false, ts)
		if err != nil {
			return
		}
		r.noteBlock(blk)
		a = append(a, blk)
		parent = blk.Header().ID()
		ts = blk.Header().Timestamp()
	}
	var b []*block.Block // short, heavy branch: prompt blocks by alternating validators
	parent = g.Header().ID()
	for i := 0; i < 6; i++ {
		blk := r.mint(parent, i%3, false)
		if blk == nil {
			return
		}
		b = append(b, blk)
		parent = blk.Header().ID()
	}
	for i := range r.net.Nodes {
		r.deliver(i, a[0])
		r.deliver(i, a[1])
		r.deliver(i, a[2])
		r.deliver(i, b[0]) // best although height 1 < 3
		if i%2 == 0 {
			r.restart(i)
		}
		r.deliver(i, b[1]) // heights 2, 3 are occupied by the losing branch
		r.deliver(i, b[2])
		r.deliver(i, a[3]) // the losing branch grows on top of blocks stored before the restart
		if i%2 == 1 {
			r.restart(i)
		}
		for _, x := range b[3:] {
			r.deliver(i, x)
		}
	}
}

// scenVoteLater (VIP-220): validator 0 votes on fork B only in an epoch LATER than the most recent justified epoch of
// fork A, then fork A becomes its best chain and it packs there. Its remembered vote (checkpoint on B, numbered above
// A's justified checkpoint, quality >= head quality - 1) conflicts with A's justified checkpoint: no COM vote allowed.
func scenVoteLater(r *rec, _ int) {
	mintOn := func(parent thor.Bytes32, who int, com bool, skip uint64) *block.Block {
		p := r.blocks[parent]
		blk, err := r.net.Mint(parent, who, com, p.Header().Timestamp()+thor.BlockInterval()*(1+skip))
		if err != nil {
			return nil
		}
		r.noteBlock(blk)
		return blk
	}
	all := func(blk *block.Block) {
		for i := range r.net.Nodes {
			r.deliver(i, blk)
		}
	}
	parent := r.net.B0.Header().ID()
	signers := []int{1, 2, 3, 1, 2, 3, 1, 2} // heights 1..8: epochs 1 and 2 are justified (quality 2)
	for h, w := range signers {
		blk := mintOn(parent, w, h+1 >= 6, 0)
		if blk == nil {
			return
		}
		all(blk)
		parent = blk.Header().ID()
	}
	fork := parent
	// fork B: light (every block skips slots), epoch 3 justified without validator 0, then validator 0 votes in epoch 4
	pb := fork
	for _, w := range []int{1, 2, 3, 1} { // B9..B12
		blk := mintOn(pb, w, true, 3)
		if blk == nil {
			return
		}
		all(blk)
		pb = blk.Header().ID()
	}
	if blk := r.propose(0); blk != nil { // B13 by validator 0: its cast is (B12, quality 3)
		for i := 1; i < len(r.net.Nodes); i++ {
			r.deliver(i, blk)
		}
	}
	// fork A: heavy (prompt blocks), epoch 3 justified, epoch 4 only started
	pa := fork
	for _, w := range []int{2, 3, 1, 2, 3, 2, 3} { // A9..A15: epoch 4 (12..14) has two signers only, not justified
		blk := mintOn(pa, w, true, 0)
		if blk == nil {
			return
		}
		all(blk)
		pa = blk.Header().ID()
	}
	// validator 0 now packs on its best (fork A if the fork choice prefers it): the vote rule must say "no COM"
	if blk := r.propose(0); blk != nil {
		for i := 1; i < len(r.net.Nodes); i++ {
			r.deliver(i, blk)
		}
	}
	if r.rng.Intn(2) == 0 {
		r.restart(0)
	}
	if blk := r.propose(0); blk != nil {
		for i := 1; i < len(r.net.Nodes); i++ {
			r.deliver(i, blk)
		}
	}
}

var scenarios = []string{"sync", "async", "async-restart", "byz", "equivocate", "permute", "latesibling", "boundary", "posweights", "posforks", "transition", "doublevote", "stalefork", "stalepack", "shortbest", "votelater"}

func runOne(scen string, seed int64, blocks int) ([]trace.Ev, runStat) {
	rng := rand.New(rand.NewSource(seed))
	pos := rng.Intn(2) == 0
	epoch := uint32(3 + rng.Intn(2))
	var c config
	switch scen {
	case "sync":
		c = config{4, 4, pos, epoch, 0}
		if rng.Intn(3) == 0 {
			c = config{3, 3, pos, epoch, 0}
		}
	case "async", "async-restart":
		c = config{4, 4, pos, epoch, 0}
	case "byz", "equivocate":
		c = config{4, 3, pos, epoch, 0} // validator 3 is Byzantine (f=1 < n/3)
		if rng.Intn(3) == 0 {
			c = config{7, 5, pos, 3, 0} // validators 5 is silent, 6 Byzantine
		}
	case "permute":
		c = config{4, 3, pos, epoch, 0}
	case "latesibling":
		c = config{4, 2, pos, 3, 0}
	case "boundary":
		// validator counts divisible by 3 with participation exactly 2n/3 (not enough) and 2n/3+1 (enough)
		if rng.Intn(2) == 0 {
			c = config{3, 3, pos, epoch, 0}
		} else {
			c = config{6, 6, pos, 3 + uint32(rng.Intn(2))*3, 0} // E=6: room for the 5 distinct signers that justify; E=3: never
		}
	case "capped":
		// PoA with the on-chain max-block-proposers parameter ABOVE the cap (thor.InitialMaxBlockProposers, scaled down
		// to the number of validators for this run): the vote threshold is 2/3 of the capped value, like the proposer set
		c = config{6, 6, false, 6, 0} // an epoch must have room for 5 distinct signers
	case "posweights":
		c = config{4, 4, true, 3, 0}
	case "posforks":
		c = config{4, 3, true, 3, 0} // validator 3 is Byzantine
	case "transition":
		c = config{4, 4, true, 3, 0}
	case "doublevote":
		c = config{4, 2, pos, 4, 0}
	case "stalefork":
		c = config{4, 2, pos, 3, 0}
	case "stalepack":
		c = config{4, 4, pos, epoch, 0}
	case "shortbest":
		c = config{4, 2, false, epoch, 0}
	case "votelater":
		c = config{4, 2, pos, 3, 0}
	default:
		panic("unknown scenario " + scen)
	}
	switch scen {
	case "sync", "async", "async-restart", "byz", "permute":
		// the FINALITY fork at genesis, inside the first epochs, or not a multiple of the epoch length
		c.fin = []uint32{0, 0, c.epoch, 2 * c.epoch, c.epoch + 1}[rng.Intn(5)]
	}
	r := newRec(c, scen, seed)
	switch scen {
	case "sync":
		scenSync(r, blocks)
	case "async":
		scenAsync(r, blocks, false, false)
	case "async-restart":
		scenAsync(r, blocks, true, false)
	case "byz":
		scenAsync(r, blocks, true, true)
	case "equivocate":
		scenEquivocate(r, blocks)
	case "permute":
		scenPermute(r, blocks)
	case "latesibling":
		scenLateSibling(r, blocks)
	case "boundary", "capped":
		scenBoundary(r, blocks)
	case "posweights":
		scenPosWeights(r, blocks)
	case "posforks":
		scenPosForks(r, blocks)
	case "transition":
		scenTransition(r, blocks)
	case "doublevote":
		scenDoubleVote(r, blocks)
	case "stalefork":
		scenStaleFork(r, blocks)
	case "stalepack":
		scenStalePack(r, blocks)
	case "shortbest":
		scenShortBest(r, blocks)
	case "votelater":
		scenVoteLater(r, blocks)
	}
	evs := r.finish()
	return evs, r.st
}

// scenBoundary: exactly 2n/3 validators take part for a while (epochs must NOT be justified), then one more joins.
func scenBoundary(r *rec, blocks int) {
	n := len(r.net.Nodes)
	k := n * 2 / 3
	phase := blocks / 2
	for b := 0; b < blocks; b++ {
		part := k
		if b >= phase {
			part = k + 1
		}
		p := b % part
		blk := r.propose(p)
		if blk == nil {
			return
		}
		for i := range r.net.Nodes {
			if i != p {
				r.deliver(i, blk)
			}
		}
	}
}

// ------------------------------------------------------------------------------------ model -> implementation replay

type behStep struct {
	A   string  `json:"a"`
	V   string  `json:"v"`
	B   [][]any `json:"b"`
	P   [][]any `json:"p"`
	H   [][]any `json:"h"`
	Com bool    `json:"com"`
}
type behaviour struct {
	Seed  [][]any            `json:"seed"`
	Steps []behStep          `json:"steps"`
	Fin   map[string][][]any `json:"fin"`
	Best  map[string][][]any `json:"best"`
}

func pkey(p [][]any) string { b, _ := json.Marshal(p); return string(b) }

var valIdx = map[string]int{"a": 0, "b": 1, "c": 2, "d": 3}

// replayBehaviour executes one behaviour of BFT.tla (MCBFTSim) on the real simulator: who proposes on what, who
// receives what when, who restarts. The recorded trace is judged by Trace_BFT.tla; in addition the COM bits and the
// final finalized checkpoints predicted by the design model are compared (mismatch = the two specs disagree).
func replayBehaviour(file string, seed int64) ([]trace.Ev, runStat, []string) {
	raw, err := os.ReadFile(file)
	must(err)
	var bh behaviour
	must(json.Unmarshal(raw, &bh))
	r := newRec(config{4, 3, false, 3, 0}, "tlc-schedule", seed)
	r.st.Cfg += ":" + filepath.Base(file)
	real := map[string]*block.Block{pkey([][]any{}): r.net.B0} // model path -> real block
	var notes []string
	// seed chain
	cur := [][]any{}
	for _, el := range bh.Seed {
		parent := real[pkey(cur)]
		cur = append(append([][]any{}, cur...), el)
		blk := r.mint(parent.Header().ID(), valIdx[el[0].(string)], el[1].(bool))
		if blk == nil {
			fmt.Println("HARNESS-ERROR cannot mint seed chain")
			os.Exit(3)
		}
		real[pkey(cur)] = blk
		for i := range r.net.Nodes {
			r.deliver(i, blk)
		}
	}
	diverged := false
	for k, st := range bh.Steps {
		v := valIdx[st.V]
		switch st.A {
		case "ph":
			parentPath := st.B[:len(st.B)-1]
			want, ok := real[pkey(parentPath)]
			if !ok || r.net.Nodes[v].Repo.BestBlockSummary().Header.ID() != want.Header().ID() {
				// the model ranks equal-quality branches by height, the code by total score: schedules part ways here
				notes = append(notes, fmt.Sprintf("step %d: real best of %s differs from the model's (score vs height); behaviour cut", k, st.V))
				diverged = true
			} else if blk := r.propose(v); blk != nil {
				real[pkey(st.B)] = blk
				if blk.Header().COM() != st.B[len(st.B)-1][1].(bool) {
					notes = append(notes, fmt.Sprintf("SPEC-DISAGREE step %d: COM bit of %s's block is %v, BFT.tla says %v", k, st.V, blk.Header().COM(), st.B[len(st.B)-1][1]))
				}
			}
		case "pb":
			if parent, ok := real[pkey(st.P)]; ok {
				np := append(append([][]any{}, st.P...), []any{st.V, st.Com})
				if blk := r.mint(parent.Header().ID(), v, st.Com); blk != nil {
					real[pkey(np)] = blk
					r.st.ByzBlocks++
				}
			}
		case "d":
			if blk, ok := real[pkey(st.H)]; ok {
				r.deliverChain(v, blk)
			}
		case "r":
			r.restart(v)
		}
		if diverged {
			break
		}
	}
	if !diverged {
		for name, fp := range bh.Fin {
			if want, ok := real[pkey(fp)]; ok {
				if got := r.net.Nodes[valIdx[name]].BFT.Finalized(); got != want.Header().ID() {
					notes = append(notes, fmt.Sprintf("SPEC-DISAGREE final finalized of %s: real %d, BFT.tla %d", name, block.Number(got), len(fp)))
				}
			}
		}
	}
	evs := r.finish()
	return evs, r.st, notes
}

// ---------------------------------------------------------------------------------------- epoch-level schedules

type epochStep struct {
	V   string `json:"v"`
	C   []int  `json:"c"`
	Bit string `json:"bit"`
}
type epochSched struct {
	Variant string      `json:"variant"`
	Steps   []epochStep `json:"steps"`
}

// replayEpochSched drives the real nodes through a vote order exported from BFTEpoch.tla: honest validator h<i> is
// node i-1 and packs through the real doPack (its own ShouldVote decides the COM bit) on the branch and in the round
// the schedule names; the Byzantine validator (3) opens every round with a COM block and fills rounds up, as the
// model's ByzMax adversary does.  Rounds are epochs of 4 blocks; forks are at round boundaries.
func replayEpochSched(file string, seed int64) ([]trace.Ev, runStat, []string) {
	raw, err := os.ReadFile(file)
	must(err)
	var sc epochSched
	must(json.Unmarshal(raw, &sc))
	const E = 4
	r := newRec(config{4, 3, false, E, 0}, "epoch-schedule", seed)
	r.st.Cfg += ":" + filepath.Base(file) + ":" + sc.Variant
	r.evs[0]["cfg"].(map[string]any)["forced"] = true // nodes pack where the vote order says, not on their best block
	var notes []string
	key := func(c []int) string { return fmt.Sprint(c) }
	tips := map[string]*block.Block{key(nil): r.net.B0}
	count := map[string]int{key(nil): 0}
	opened := map[string]bool{key(nil): true}
	capOf := func(c []int) int {
		if len(c) == 0 {
			return E - 1 // genesis is the first block of the first round
		}
		return E
	}
	spread := func(blk *block.Block, except int) {
		for i := range r.net.Nodes {
			if i != except {
				r.deliver(i, blk)
			}
		}
	}
	byz := func(c []int) bool {
		// sibling rounds open on the same parent with the same signer: a later slot makes them different blocks
		var minTime uint64
		if len(c) > 0 && count[key(c)] == 0 && c[len(c)-1] > 1 {
			minTime = tips[key(c)].Header().Timestamp() + thor.BlockInterval()*uint64(1+8*(c[len(c)-1]-1))
		}
		blk, err := r.net.Mint(tips[key(c)].Header().ID(), 3, len(c) > 0, minTime)
		if err != nil {
			blk = nil
		} else {
			r.noteBlock(blk)
		}
		if blk == nil {
			notes = append(notes, "cannot mint the Byzantine block of round "+key(c))
			return false
		}
		r.st.ByzBlocks++
		tips[key(c)] = blk
		count[key(c)]++
		spread(blk, -1)
		return true
	}
	fill := func(c []int) bool {
		for count[key(c)] < capOf(c) {
			if !byz(c) {
				return false
			}
		}
		return true
	}
	var open func(c []int) bool
	open = func(c []int) bool {
		if opened[key(c)] {
			return true
		}
		p := c[:len(c)-1]
		if !open(p) || !fill(p) {
			return false
		}
		tips[key(c)] = tips[key(p)]
		count[key(c)] = 0
		opened[key(c)] = true
		return byz(c) // the adversary is present in every round from its first block on
	}
	hon := map[string]int{"h1": 0, "h2": 1, "h3": 2}
	for k, st := range sc.Steps {
		v, ok := hon[st.V]
		if !ok {
			continue // explicit Byzantine votes of the model are subsumed by the filling adversary
		}
		if !open(st.C) {
			notes = append(notes, fmt.Sprintf("step %d: round %v cannot be opened; schedule cut", k, st.C))
			break
		}
		if count[key(st.C)] >= capOf(st.C) {
			notes = append(notes, fmt.Sprintf("step %d: round %v is full; schedule cut", k, st.C))
			break
		}
		n := r.net.Nodes[v]
		parent, err := n.Repo.GetBlockSummary(tips[key(st.C)].Header().ID())
		if err != nil {
			// the node refused that branch (finality): the vote cannot be cast, which is what safety wants
			notes = append(notes, fmt.Sprintf("step %d: %s does not hold the tip of round %v (refused by its finality)", k, st.V, st.C))
			continue
		}
		// an honest node packs on its best block, which always extends its finalized checkpoint: a vote the model
		// places on a branch the node has finalized against cannot be cast
		if ok, err := n.BFT.Accepts(parent.Header.ID()); err != nil || !ok {
			notes = append(notes, fmt.Sprintf("step %d: round %v conflicts with what %s finalized (refused by its finality)", k, st.C, st.V))
			continue
		}
		blk, err := n.ProposeOn(parent, 0)
		if err != nil {
			r.st.Errors = append(r.st.Errors, fmt.Sprintf("propose n%d: %v", v, err))
			r.evs = append(r.evs, trace.Ev{"e": "Error", "n": v, "what": "propose", "err": err.Error()})
			break
		}
		if err := r.net.GodLearn(blk); err != nil {
			fmt.Println("HARNESS-ERROR godlearn:", err)
			os.Exit(3)
		}
		r.noteBlock(blk)
		r.commitEv(n, blk, true)
		tips[key(st.C)] = blk
		count[key(st.C)]++
		spread(blk, v)
		if sc.Variant == "asis" && blk.Header().COM() != (st.Bit == "c") {
			notes = append(notes, fmt.Sprintf("SPEC-DISAGREE step %d: COM bit of %s's block in round %v is %v, BFTEpoch.tla says %s", k, st.V, st.C, blk.Header().COM(), st.Bit))
		}
	}
	// conclude every open round so that its store point exists and finality can move
	var keys [][]int
	for k := range opened {
		var c []int
		if k != "[]" {
			for _, f := range strings.Fields(strings.Trim(k, "[]")) {
				var x int
				fmt.Sscan(f, &x)
				c = append(c, x)
			}
		}
		keys = append(keys, c)
	}
	sort.Slice(keys, func(i, j int) bool { return len(keys[i]) < len(keys[j]) || (len(keys[i]) == len(keys[j]) && key(keys[i]) < key(keys[j])) })
	for _, c := range keys {
		fill(c)
	}
	// safety on the real nodes: finalized checkpoints pairwise on one chain
	for i := range r.net.Nodes {
		for j := i + 1; j < len(r.net.Nodes); j++ {
			a, b := r.net.Nodes[i].BFT.Finalized(), r.net.Nodes[j].BFT.Finalized()
			if block.Number(a) > block.Number(b) {
				a, b = b, a
			}
			ok, err := r.net.God.Repo.NewChain(b).HasBlock(a)
			if err != nil || !ok {
				notes = append(notes, fmt.Sprintf("FINALITY-CONFLICT nodes %d and %d finalized conflicting checkpoints (%d, %d)", i, j, block.Number(a), block.Number(b)))
			}
		}
	}
	evs := r.finish()
	return evs, r.st, notes
}

func main() {
	epochDir := flag.String("epochsched", "", "directory with sched_*.json vote orders exported from BFTEpoch.tla")
	replayDir := flag.String("replay", "", "directory with beh_*.json behaviours exported from MCBFTSim")
	out := flag.String("out", ".", "output directory")
	runs := flag.Int("runs", 10, "number of runs")
	seed := flag.Int64("seed", 1, "seed")
	scen := flag.String("scen", "all", "scenario name, comma list, or all")
	blocks := flag.Int("blocks", 30, "blocks per run")
	flag.Parse()
	list := scenarios
	if *scen != "all" {
		list = strings.Split(*scen, ",")
	}
	var all []trace.Ev
	var stats []runStat
	if *epochDir != "" {
		files, _ := filepath.Glob(filepath.Join(*epochDir, "sched_*.json"))
		sort.Strings(files)
		var allNotes []string
		for i, f := range files {
			evs, st, notes := replayEpochSched(f, *seed*1000003+int64(i))
			all = append(all, evs...)
			stats = append(stats, st)
			for _, n := range notes {
				allNotes = append(allNotes, filepath.Base(f)+": "+n)
			}
		}
		must(os.MkdirAll(*out, 0o755))
		must(trace.WriteNDJSON(filepath.Join(*out, "trace.ndjson"), all))
		f, err := os.Create(filepath.Join(*out, "runs.json"))
		must(err)
		must(json.NewEncoder(f).Encode(stats))
		f.Close()
		nb, _ := json.Marshal(map[string]any{"runs": len(stats), "events": len(all), "notes": allNotes})
		fmt.Println(string(nb))
		return
	}
	if *replayDir != "" {
		files, _ := filepath.Glob(filepath.Join(*replayDir, "beh_*.json"))
		sort.Strings(files)
		var allNotes []string
		for i, f := range files {
			evs, st, notes := replayBehaviour(f, *seed*1000003+int64(i))
			all = append(all, evs...)
			stats = append(stats, st)
			for _, n := range notes {
				allNotes = append(allNotes, filepath.Base(f)+": "+n)
			}
		}
		must(os.MkdirAll(*out, 0o755))
		must(trace.WriteNDJSON(filepath.Join(*out, "trace.ndjson"), all))
		f, err := os.Create(filepath.Join(*out, "runs.json"))
		must(err)
		must(json.NewEncoder(f).Encode(stats))
		f.Close()
		nb, _ := json.Marshal(map[string]any{"runs": len(stats), "events": len(all), "notes": allNotes})
		fmt.Println(string(nb))
		return
	}
	for i := 0; i < *runs; i++ {
		s := list[i%len(list)]
		evs, st := runOne(s, *seed*1000003+int64(i), *blocks)
		all = append(all, evs...)
		stats = append(stats, st)
	}
	must(os.MkdirAll(*out, 0o755))
	must(trace.WriteNDJSON(filepath.Join(*out, "trace.ndjson"), all))
	f, err := os.Create(filepath.Join(*out, "runs.json"))
	must(err)
	must(json.NewEncoder(f).Encode(stats))
	f.Close()
	sum := map[string]any{"runs": len(stats), "events": len(all)}
	b, _ := json.Marshal(sum)
	fmt.Println(string(b))
}
