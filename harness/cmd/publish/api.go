package main

import (
	"encoding/json"
	"fmt"
	"math/big"
	"net/http"
	"net/http/httptest"
	"runtime/debug"
	"strings"

	"github.com/gorilla/mux"

	"github.com/vechain/thor/v2/api/accounts"
	"github.com/vechain/thor/v2/api/blocks"
	"github.com/vechain/thor/v2/api/events"
	"github.com/vechain/thor/v2/api/transactions"
	"github.com/vechain/thor/v2/api/transfers"
	"github.com/vechain/thor/v2/thor"
	"github.com/vechain/thor/v2/tx"
	"github.com/vechain/thor/v2/txpool"

	"github.com/ethereum/go-ethereum/event"

	"verifharness/internal/sim"
)

// apiPool is a stateless tx pool for the transactions API (sim.Pool belongs to the importer goroutine).
type apiPool struct{}

func (apiPool) Get(thor.Bytes32) *tx.Transaction       { return nil }
func (apiPool) Add(*tx.Transaction) error              { return nil }
func (apiPool) AddLocal(*tx.Transaction) error         { return nil }
func (apiPool) StrictlyAdd(*tx.Transaction) error      { return nil }
func (apiPool) Remove(thor.Bytes32, thor.Bytes32) bool { return false }
func (apiPool) Dump() tx.Transactions                  { return nil }
func (apiPool) Len() int                               { return 0 }
func (apiPool) Executables() tx.Transactions           { return nil }
func (apiPool) Fill(tx.Transactions)                   {}
func (apiPool) Close()                                 {}
func (apiPool) SubscribeTxEvent(chan *txpool.TxEvent) event.Subscription {
	return event.NewSubscription(func(quit <-chan struct{}) error { <-quit; return nil })
}

// apiEnv is the real REST API of thor mounted over the node under test, as cmd/thor/httpserver does; requests are
// served by the handlers directly (no socket).
type apiEnv struct {
	router *mux.Router
}

func newAPI(n *sim.Node) *apiEnv {
	r := mux.NewRouter()
	accounts.New(n.Repo, n.Stater, 40_000_000, 5*1024*1024/2, n.Net.FC, n.BFT, true).Mount(r, "/accounts")
	events.New(n.Repo, n.LogDB, 1000, 100_000, 10).Mount(r, "/logs/event")
	transfers.New(n.Repo, n.LogDB, 1000, 100_000, 10).Mount(r, "/logs/transfer")
	blocks.New(n.Repo, n.BFT).Mount(r, "/blocks")
	transactions.New(n.Repo, apiPool{}).Mount(r, "/transactions")
	return &apiEnv{router: r}
}

// do serves one request; a panic of the handler is reported as status -1.
func (a *apiEnv) do(method, url, body string) (status int, out string) {
	defer func() {
		if x := recover(); x != nil {
			status, out = -1, fmt.Sprintf("panic: %v\n%s", x, debug.Stack())
		}
	}()
	var req *http.Request
	if body != "" {
		req = httptest.NewRequest(method, url, strings.NewReader(body))
	} else {
		req = httptest.NewRequest(method, url, nil)
	}
	rec := httptest.NewRecorder()
	a.router.ServeHTTP(rec, req)
	return rec.Code, strings.TrimSpace(rec.Body.String())
}

// apiObs: an answer for revision "best" whose admissibility is decided after the run from the publication timeline.
type apiObs struct {
	s, e  uint64
	what  string // acct:<i> | slot:<i> | block
	body  string
	block thor.Bytes32 // for what == block
}

type jsonBlock struct {
	Number       uint32            `json:"number"`
	ID           thor.Bytes32      `json:"id"`
	ParentID     thor.Bytes32      `json:"parentID"`
	StateRoot    thor.Bytes32      `json:"stateRoot"`
	Transactions []json.RawMessage `json:"transactions"` // ids, or objects when expanded
}

func acctJSON(x acctExp) string {
	return fmt.Sprintf(`{"balance":"%s","energy":"%s","hasCode":%v}`, x.Balance, x.Energy, x.HasCode)
}

func (r *reader) apiFail(sig, url string, status int, body string, s, e uint64) {
	if len(body) > 300 {
		body = body[:300]
	}
	r.violate(sig, fmt.Sprintf("%s -> %d %s", url, status, body), s, e, thor.Bytes32{})
}

// simBodies: call simulations that WRITE inside the EVM (storage, VET transfer, contract creation).
func (w *world) simBodies() []string {
	caller := w.net.Devs[4].Address
	store := fmt.Sprintf("0x%x", sim.UCall(sim.OpStore, big.NewInt(2), big.NewInt(99)))
	clear := fmt.Sprintf("0x%x", sim.UCall(sim.OpClear, big.NewInt(1)))
	create := fmt.Sprintf("0x%x", sim.InitCode(sim.UCode(), big.NewInt(3), big.NewInt(5)))
	return []string{
		fmt.Sprintf(`{"clauses":[{"to":"%s","value":"0x0","data":"%s"}],"caller":"%s"}`, w.uAddr, store, caller),
		fmt.Sprintf(`{"clauses":[{"to":"%s","value":"0x10","data":"0x"},{"to":"%s","value":"0x0","data":"%s"}],"caller":"%s"}`, w.net.Devs[5].Address, w.uAddr, clear, caller),
		fmt.Sprintf(`{"clauses":[{"to":null,"value":"0x0","data":"%s"}],"caller":"%s","gas":2000000}`, create, caller),
	}
}

// apiStep issues one public query through the real handlers, concurrently with the importer.
func (r *reader) apiStep(it int) {
	w, a := r.w, r.api
	pickRev := func() (string, *bfact) { // a revision other than best
		switch r.rng.Intn(5) {
		case 0:
			return "finalized", nil
		case 1:
			if noJustified {
				return "finalized", nil
			}
			return "justified", nil
		case 2:
			if len(r.observed) > 0 {
				f := w.facts[r.observed[r.rng.Intn(len(r.observed))]]
				if f != nil {
					return fmt.Sprint(r.rng.Intn(int(f.num) + 1)), nil
				}
			}
			return "0", nil
		default:
			if len(r.observed) > 0 {
				id := r.observed[r.rng.Intn(len(r.observed))]
				return id.String(), w.facts[id]
			}
			return w.net.B0.Header().ID().String(), w.facts[w.net.B0.Header().ID()]
		}
	}
	r.apiCalls++
	switch it % 10 {
	case 0, 5: // the best block itself, expanded: an observation of best through the API
		url := "/blocks/best"
		if it%20 == 0 {
			url += "?expanded=true"
		}
		s := r.stamp()
		st, body := a.do("GET", url, "")
		e := r.stamp()
		var jb jsonBlock
		if st == 500 && body == "not found" && len(r.apiBest) < 400 {
			// decided after the run: did best move to a LOWER height during the request (blocks.isTrunk quirk)?
			r.apiBest = append(r.apiBest, apiObs{s: s, e: e, what: "blocks500", body: url})
			return
		}
		if st != 200 || json.Unmarshal([]byte(body), &jb) != nil || jb.ID.IsZero() {
			r.apiFail("api-5xx:blocks/best", url, st, body, s, e)
			return
		}
		if f := w.facts[jb.ID]; f == nil || f.num != jb.Number || f.parent != jb.ParentID && f.num > 0 || len(f.txIDs) != len(jb.Transactions) {
			r.apiFail("api-inconsistent:blocks/best", url, st, body, s, e)
			return
		}
		if !r.distinct[jb.ID] {
			r.distinct[jb.ID] = true
			r.observed = append(r.observed, jb.ID)
		}
		r.nObs++
		if len(r.apiBest) < 400 {
			r.apiBest = append(r.apiBest, apiObs{s: s, e: e, what: "block", block: jb.ID})
		}
		r.keep(group{s: s, e: e, b: jb.ID, phase: r.rc.getPhase()}, false)
	case 1, 6: // account at best: balance, energy, code flag
		ai := r.rng.Intn(len(w.accts))
		url := fmt.Sprintf("/accounts/%s", w.accts[ai])
		s := r.stamp()
		st, body := a.do("GET", url, "")
		e := r.stamp()
		if st != 200 {
			r.apiFail("api-5xx:accounts@best", url, st, body, s, e)
			return
		}
		if len(r.apiBest) < 400 {
			r.apiBest = append(r.apiBest, apiObs{s: s, e: e, what: fmt.Sprintf("acct:%d", ai), body: body})
		}
	case 2: // account / code / storage at another revision
		rev, f := pickRev()
		ai := r.rng.Intn(len(w.accts))
		url := fmt.Sprintf("/accounts/%s?revision=%s", w.accts[ai], rev)
		s := r.stamp()
		st, body := a.do("GET", url, "")
		e := r.stamp()
		r.checkRev(url, rev, st, body, s, e)
		if st == 200 && f != nil && body != acctJSON(f.acct[ai]) {
			r.apiFail("api-inconsistent:accounts@id", url, st, body+" expected "+acctJSON(f.acct[ai]), s, e)
		}
		if st == 200 && f == nil { // finalized / justified / number: the answer of SOME block that revision can denote
			r.checkRevContent(url, rev, body, s, e, func(x *bfact) string { return acctJSON(x.acct[ai]) })
		}
	case 3: // storage and code
		rev, f := pickRev()
		si := r.rng.Intn(len(w.slots))
		url := fmt.Sprintf("/accounts/%s/storage/%s?revision=%s", w.uAddr, w.slots[si], rev)
		if r.rng.Intn(3) == 0 {
			url = fmt.Sprintf("/accounts/%s/code?revision=%s", w.uAddr, rev)
			si = -1
		}
		s := r.stamp()
		st, body := a.do("GET", url, "")
		e := r.stamp()
		r.checkRev(url, rev, st, body, s, e)
		if st == 200 && f != nil {
			want := fmt.Sprintf(`{"code":"%s"}`, f.code)
			if si >= 0 {
				want = fmt.Sprintf(`{"value":"%s"}`, f.slotVals[si])
			}
			if body != want {
				r.apiFail("api-inconsistent:storage@id", url, st, body+" expected "+want, s, e)
			}
		}
		if st == 200 && f == nil {
			r.checkRevContent(url, rev, body, s, e, func(x *bfact) string {
				if si >= 0 {
					return fmt.Sprintf(`{"value":"%s"}`, x.slotVals[si])
				}
				return fmt.Sprintf(`{"code":"%s"}`, x.code)
			})
		}
	case 4, 9: // call simulation against best / next / an observed block: writes storage inside the EVM
		rev := []string{"best", "next", ""}[r.rng.Intn(3)]
		var g *group
		if rev == "" { // observe best directly, then simulate on exactly that block
			sum, gg := r.observeBest()
			g, rev = &gg, sum.Header.ID().String()
		}
		bodies := w.simBodies()
		url := "/accounts/*?revision=" + rev
		s := r.stamp()
		st, body := a.do("POST", url, bodies[r.rng.Intn(len(bodies))])
		e := r.stamp()
		ok := st == 200 && !strings.Contains(body, `"reverted":true`)
		if g != nil {
			r.rd(g, "sim", 0, ok, thor.Bytes32{})
			r.keep(*g, !ok)
		}
		if !ok {
			r.apiFail("api-5xx:call-simulation", url, st, body, s, e)
		}
	case 7: // transaction and receipt lookups from an observed head
		if len(r.observed) == 0 || len(w.txs) == 0 {
			return
		}
		head := r.observed[len(r.observed)-1-r.rng.Intn(min(3, len(r.observed)))]
		t := w.txs[r.rng.Intn(len(w.txs))].ID()
		kind := []string{"", "/receipt"}[r.rng.Intn(2)]
		url := fmt.Sprintf("/transactions/%s%s?head=%s", t, kind, head)
		s := r.stamp()
		st, body := a.do("GET", url, "")
		e := r.stamp()
		if st != 200 {
			r.apiFail("api-5xx:transactions", url, st, body, s, e)
			return
		}
		// oracle: the tx is found from this head iff it is in a block on this head's chain
		var in thor.Bytes32
		if hf := w.facts[head]; hf != nil {
			for _, bid := range hf.anc {
				for _, x := range w.facts[bid].txIDs {
					if x == t {
						in = bid
					}
				}
			}
			found := body != "null"
			if found != !in.IsZero() || found && !strings.Contains(body, in.String()) {
				r.apiFail("api-inconsistent:transactions", url, st, body+fmt.Sprintf(" expected in block %s", short(in)), s, e)
			}
		}
	case 8: // log filters
		url := "/logs/event"
		to := 1 + r.rng.Intn(200)
		body := fmt.Sprintf(`{"range":{"unit":"block","from":0,"to":%d},"options":{"offset":0,"limit":200},"order":"%s"}`, to, []string{"asc", "desc"}[r.rng.Intn(2)])
		if r.rng.Intn(2) == 0 {
			url = "/logs/transfer"
		} else if r.rng.Intn(2) == 0 {
			body = fmt.Sprintf(`{"range":{"unit":"block","from":0,"to":%d},"criteriaSet":[{"address":"%s"}],"options":{"offset":0,"limit":200}}`, to, w.uAddr)
		}
		s := r.stamp()
		st, out := a.do("POST", url, body)
		e := r.stamp()
		if st != 200 {
			r.apiFail("api-5xx:logs", url+" "+body, st, out, s, e)
			return
		}
		// rows of one answer come from one committed log-db state, i.e. from ONE chain
		var rows []struct {
			Meta struct {
				BlockID thor.Bytes32 `json:"blockID"`
			} `json:"meta"`
		}
		if json.Unmarshal([]byte(out), &rows) != nil {
			r.apiFail("api-inconsistent:logs", url, st, out, s, e)
			return
		}
		var top thor.Bytes32
		for _, row := range rows {
			f := w.facts[row.Meta.BlockID]
			if f == nil {
				continue // block in flight that the reference never stored cannot occur; unknown ids are checked elsewhere
			}
			if top.IsZero() || w.facts[top].num < f.num {
				top = row.Meta.BlockID
			}
		}
		for _, row := range rows {
			if w.facts[row.Meta.BlockID] != nil && !w.isAnc(row.Meta.BlockID, top) {
				r.apiFail("api-inconsistent:logs", url+" "+body, st, fmt.Sprintf("rows of blocks %s and %s, which are on different branches", short(row.Meta.BlockID), short(top)), s, e)
				break
			}
		}
	}
}

// checkRev: for the revisions that always denote a stored block the answer must be 200; elsewhere 4xx means "no such
// revision" and is fine; 5xx / panic never is - except the documented quirk of GET by id for a block above best.
func (r *reader) checkRev(url, rev string, st int, body string, s, e uint64) {
	switch {
	case st == 200:
	case st == -1:
		r.apiFail("api-panic", url, st, body, s, e)
	case st >= 500:
		r.apiFail("api-5xx:accounts@"+revClass(rev), url, st, body, s, e)
	case st >= 400 && (rev == "finalized" || rev == "justified" || len(rev) == 66):
		r.apiFail("api-4xx-for-stored-revision:"+revClass(rev), url, st, body, s, e)
	default:
		r.api4xx++
	}
}

func revClass(rev string) string {
	switch {
	case rev == "finalized" || rev == "justified" || rev == "best" || rev == "next":
		return rev
	case len(rev) == 66:
		return "id"
	}
	return "number"
}

// checkAPIBest decides, after the run, the answers given for revision "best": each must be the answer for a block
// that was the published best at some instant of the request's [start, end] interval.
func (r *reader) checkAPIBest(tl *timeline) {
	for _, o := range r.apiBest {
		cands := tl.candidates(o.s, o.e)
		if o.what == "blocks500" {
			sig := "api-5xx:blocks/best"
			for i := 1; i < len(cands); i++ {
				if a, b := r.w.facts[cands[i-1]], r.w.facts[cands[i]]; a != nil && b != nil && b.num < a.num {
					sig = sigIsTrunk
				}
			}
			r.violate(sig, fmt.Sprintf("%s -> 500 not found while best changed %v (handler loads best twice: the block it answers for and, in isTrunk, the chain it looks the number up in)",
				o.body, shorts(cands)), o.s, o.e, thor.Bytes32{})
			continue
		}
		ok := false
		var names []string
		for _, c := range cands {
			f := r.w.facts[c]
			names = append(names, short(c))
			if f == nil {
				continue
			}
			switch {
			case o.what == "block":
				ok = ok || o.block == c
			case strings.HasPrefix(o.what, "acct:"):
				var i int
				fmt.Sscanf(o.what, "acct:%d", &i)
				ok = ok || o.body == acctJSON(f.acct[i])
			}
		}
		if !ok {
			got := o.body
			if o.what == "block" {
				got = short(o.block)
			}
			r.violate("api-inconsistent:best", fmt.Sprintf("answer for revision best (%s) = %s is not the answer for any block that was best during the request %v",
				o.what, got, names), o.s, o.e, o.block)
		}
	}
}

// timeline of publications reconstructed from the importer's events: block b is possibly the published best from the
// stamp of its block bulk (the store happens after it) until the next importer event after the NEXT best-changing bulk.
type timeline struct {
	ids      []thor.Bytes32
	from, to []uint64
}

func buildTimeline(g thor.Bytes32, imp []impEv) *timeline {
	tl := &timeline{ids: []thor.Bytes32{g}, from: []uint64{0}, to: []uint64{^uint64(0)}}
	for i, ev := range imp {
		if ev.e == "W" && ev.cls == "blk" && ev.best {
			next := ^uint64(0)
			if i+1 < len(imp) {
				next = imp[i+1].t
			}
			tl.to[len(tl.to)-1] = next
			tl.ids = append(tl.ids, ev.b)
			tl.from = append(tl.from, ev.t)
			tl.to = append(tl.to, ^uint64(0))
		}
	}
	return tl
}

func (tl *timeline) candidates(s, e uint64) (out []thor.Bytes32) {
	for i := range tl.ids {
		if tl.from[i] < e && s < tl.to[i] {
			out = append(out, tl.ids[i])
		}
	}
	return
}

// admissible: was o.b the published best at some instant of [o.s, o.e]?  stale = the bulk of the NEXT best was
// already durable when the observation started (the observation fell into the window bulk-written -> published).
func (tl *timeline) admissible(o obsRec) (ok, stale bool) {
	for i := range tl.ids {
		if tl.ids[i] == o.b && tl.from[i] < o.e && o.s < tl.to[i] {
			return true, i+1 < len(tl.ids) && tl.from[i+1] < o.s
		}
	}
	return false, false
}

// sigIsTrunk: api/blocks.isTrunk returns the "not found" of Chain.GetBlockID as an error (HTTP 500) when the block's
// number is above the best block's height, instead of "not on trunk".
const sigIsTrunk = "api-5xx:blocks-istrunk-above-best"

func shorts(ids []thor.Bytes32) (out []string) {
	for _, id := range ids {
		out = append(out, short(id))
	}
	return
}

// checkRevContent: content oracle for the revisions finalized / justified / <number>. Which block such a revision
// denotes depends on the instant, but it is always a stored block of a known class: a value the finalized checkpoint
// took on the node without readers; a stored checkpoint block; a stored block of that height.
func (r *reader) checkRevContent(url, rev, body string, s, e uint64, want func(*bfact) string) {
	w := r.w
	var cands []*bfact
	switch {
	case rev == "finalized":
		cands = append(cands, w.facts[w.net.B0.Header().ID()])
		for _, id := range w.ref.finalities {
			cands = append(cands, w.facts[id])
		}
	case rev == "justified":
		for _, id := range w.order {
			if f := w.facts[id]; f.num%3 == 0 {
				cands = append(cands, f)
			}
		}
	case len(rev) < 12: // a block number
		var n uint32
		fmt.Sscanf(rev, "%d", &n)
		for _, id := range w.order {
			if f := w.facts[id]; f.num == n {
				cands = append(cands, f)
			}
		}
	default:
		return
	}
	for _, f := range cands {
		if f != nil && want(f) == body {
			return
		}
	}
	r.apiFail("api-inconsistent:"+revClass(rev), url, 200, body+" is not the answer of any block this revision can denote", s, e)
}
