package main

import (
	"fmt"
	"math/rand"
	"os"
	"runtime/debug"
	"strings"

	"github.com/vechain/thor/v2/api/restutil"
	"github.com/vechain/thor/v2/builtin"
	"github.com/vechain/thor/v2/chain"
	"github.com/vechain/thor/v2/thor"
	"github.com/vechain/thor/v2/trie"

	"verifharness/internal/nodecheck"
)

// noJustified (diagnostic switch): readers never call Engine.Justified(), directly or through the API.
var noJustified = os.Getenv("PUBLISH_NO_JUSTIFIED") != ""

type readRec struct {
	t   uint64
	k   string // hdr | body | anc | state | sim
	n   uint32
	ok  bool
	got thor.Bytes32
}

// group: one observation (of best, or of finalized) with the reads that followed it.
type group struct {
	fin   bool
	s, e  uint64
	b     thor.Bytes32
	ok    bool // finalized observation: block and state readable
	phase uint32
	reads []readRec
}

type violation struct {
	Sig    string   `json:"signature"`
	What   string   `json:"what"`
	Reader string   `json:"reader"`
	S      uint64   `json:"stamp_start"`
	E      uint64   `json:"stamp_end"`
	Block  string   `json:"block"`
	Log    []string `json:"goroutine_log"`
}

type reader struct {
	id   int
	kind string // spin | full | state | api | fin
	rc   *runCtx
	w    *world
	rng  *rand.Rand
	api  *apiEnv

	nObs, nFinObs, nReads, nRaced uint64
	byPhase                       [nPhases]uint64
	distinct                      map[thor.Bytes32]bool
	racedPairs                    map[[33]byte]bool // (observed block, importer phase) of observations during an import
	observed                      []thor.Bytes32    // distinct bests in first-seen order (revisions for later queries)
	lastFin                       thor.Bytes32
	maxFinSteps                   int
	apiCalls, api4xx              uint64
	nWalks, nJust, nNext          uint64
	nJustSkipped                  uint64
	just                          []justObs
	apiBest                       []apiObs
	all                           []obsRec // every observation of best (checked against the publication timeline after the run)

	groups   []group
	keepCtr  uint64
	stride   uint64
	capacity int

	viol []violation
	ring []string
}

func (r *reader) note(f string, a ...any) {
	if len(r.ring) >= 60 {
		r.ring = r.ring[1:]
	}
	r.ring = append(r.ring, fmt.Sprintf(f, a...))
}

func (r *reader) violate(sig, what string, s, e uint64, b thor.Bytes32) {
	r.note("VIOLATION %s: %s", sig, what)
	if len(r.viol) < 5 {
		r.viol = append(r.viol, violation{Sig: sig, What: what, Reader: fmt.Sprintf("r%d(%s)", r.id, r.kind), S: s, E: e,
			Block: short(b), Log: append([]string(nil), r.ring...)})
	}
}

// keep decides whether a group goes into the TLA+ trace: every group with a failure, and a decimated sample of the
// rest in which observations made while an import was in flight are preferred.
func (r *reader) keep(g group, failed bool) {
	if failed {
		r.groups = append(r.groups, g)
		return
	}
	r.keepCtr++
	stride := r.stride
	if g.phase == phIdle {
		stride *= 4
	}
	if r.keepCtr%stride != 0 {
		return
	}
	r.groups = append(r.groups, g)
	if len(r.groups) >= r.capacity {
		out := r.groups[:0]
		for i, x := range r.groups {
			if i%2 == 0 {
				out = append(out, x)
			}
		}
		r.groups = out
		r.stride *= 2
	}
}

func (r *reader) stamp() uint64 { return r.rc.tick() }

// observeBest is THE observation: one atomic load of bestSummary between two stamps.
func (r *reader) observeBest() (*chain.BlockSummary, group) {
	ph := r.rc.getPhase()
	s := r.stamp()
	sum := r.rc.node.Repo.BestBlockSummary()
	e := r.stamp()
	if p2 := r.rc.getPhase(); ph == phIdle {
		ph = p2
	}
	id := sum.Header.ID()
	r.nObs++
	r.byPhase[ph]++
	if ph != phIdle {
		r.nRaced++
		var k [33]byte
		copy(k[:], id[:])
		k[32] = byte(ph)
		if r.racedPairs == nil {
			r.racedPairs = map[[33]byte]bool{}
		}
		r.racedPairs[k] = true
	}
	if !r.distinct[id] {
		r.distinct[id] = true
		r.observed = append(r.observed, id)
		if r.w.facts[id] == nil {
			r.violate("best-unknown-block", fmt.Sprintf("observed best %s is a block the node without readers never stored", short(id)), s, e, id)
		}
	}
	if len(r.all) < 400000 {
		r.all = append(r.all, obsRec{s, e, id})
	}
	return sum, group{s: s, e: e, b: id, phase: ph}
}

func (r *reader) rd(g *group, k string, n uint32, ok bool, got thor.Bytes32) {
	r.nReads++
	g.reads = append(g.reads, readRec{t: r.stamp(), k: k, n: n, ok: ok, got: got})
}

// readBlock: header, body and ancestors of the observed block, compared with the block itself.
func (r *reader) readBlock(sum *chain.BlockSummary, g *group, f *bfact, nAnc int, all bool) (failed bool) {
	repo := r.rc.node.Repo
	id := g.b
	bad := func(sig, what string) {
		failed = true
		r.violate(sig, fmt.Sprintf("block %s observed as best: %s", short(id), what), g.s, g.e, id)
	}
	// header by id - the first thing any client does
	s2, err := repo.GetBlockSummary(id)
	ok := err == nil && s2.Header.ID() == id
	r.rd(g, "hdr", 0, ok, thor.Bytes32{})
	if !ok {
		bad("best-unreadable:header", fmt.Sprintf("GetBlockSummary: %v", err))
		return
	}
	// by-number index of THIS block: own height, genesis, and a sample
	c := repo.NewChain(id)
	num := sum.Header.Number()
	heights := []uint32{num, 0}
	if all {
		heights = heights[:0]
		for n := uint32(0); n <= num; n++ {
			heights = append(heights, n)
		}
	} else {
		for i := 0; i < nAnc && num > 0; i++ {
			heights = append(heights, uint32(r.rng.Intn(int(num)+1)))
		}
		if num >= 1 {
			heights = append(heights, num-1)
		}
	}
	for _, n := range heights {
		bid, err := c.GetBlockID(n)
		want := id
		if f != nil {
			want = f.anc[n]
		} else if n != num {
			want = bid
		}
		ok := err == nil && bid == want
		if ok && n != num {
			if as, err2 := repo.GetBlockSummary(bid); err2 != nil || as.Header.Number() != n {
				ok, err = false, fmt.Errorf("ancestor summary: %v", err2)
			}
		}
		r.rd(g, "anc", n, ok, bid)
		if !ok {
			bad("best-unreadable:ancestor", fmt.Sprintf("GetBlockID(%d) = %s, %v; expected %s", n, short(bid), err, short(want)))
			return
		}
	}
	// transactions and receipts against the header's roots
	blk, err := repo.GetBlock(id)
	ok = err == nil && blk.Header().TxsRoot() == blk.Transactions().RootHash() && len(blk.Transactions()) == len(sum.Txs)
	var what string
	if err != nil {
		what = "GetBlock: " + err.Error()
	} else if !ok {
		what = "transactions do not match the header's txs root"
	}
	if ok {
		rcp, err := repo.GetBlockReceipts(id)
		ok = err == nil && rcp.RootHash() == blk.Header().ReceiptsRoot() && len(rcp) == len(sum.Txs)
		if err != nil {
			what = "GetBlockReceipts: " + err.Error()
		} else if !ok {
			what = "receipts do not match the header's receipts root"
		}
	}
	if ok {
		for i, t := range blk.Transactions() { // tx lookups from this head
			if i > 1 && !all {
				break
			}
			meta, err := c.GetTransactionMeta(t.ID())
			if err != nil || meta.BlockNum != num {
				ok, what = false, fmt.Sprintf("GetTransactionMeta(%x) from the observed head: %v %v", t.ID().Bytes()[:4], meta, err)
				break
			}
		}
	}
	r.rd(g, "body", 0, ok, thor.Bytes32{})
	if !ok {
		bad("best-unreadable:body", what)
	}
	return
}

// readStateSample: balance / energy / code / storage of known accounts at the observed root, against the reference.
func (r *reader) readStateSample(sum *chain.BlockSummary, g *group, f *bfact, n int) (failed bool) {
	st := r.rc.node.Stater.NewState(sum.Root())
	ok, what := true, ""
	for i := 0; i < n && ok; i++ {
		ai := r.rng.Intn(len(r.w.accts))
		a := r.w.accts[ai]
		bal, err := st.GetBalance(a)
		if err != nil {
			ok, what = false, fmt.Sprintf("GetBalance: %v", err)
			break
		}
		en, err := builtin.Energy.Native(st, sum.Header.Timestamp()).Get(a)
		if err != nil {
			ok, what = false, fmt.Sprintf("energy: %v", err)
			break
		}
		if f != nil && ("0x"+bal.Text(16) != f.acct[ai].Balance || "0x"+en.Text(16) != f.acct[ai].Energy) {
			ok, what = false, fmt.Sprintf("account %x: balance/energy %s/%s, the block's state has %s/%s", a[:4], bal.Text(16), en.Text(16), f.acct[ai].Balance, f.acct[ai].Energy)
			break
		}
		si := r.rng.Intn(len(r.w.slots))
		v, err := st.GetStorage(r.w.uAddr, r.w.slots[si])
		if err != nil {
			ok, what = false, fmt.Sprintf("GetStorage: %v", err)
			break
		}
		if f != nil && v != f.slotVals[si] {
			ok, what = false, fmt.Sprintf("storage slot %d = %x, the block's state has %x", si+1, v[28:], f.slotVals[si][28:])
			break
		}
		if i == 0 {
			code, err := st.GetCode(r.w.uAddr)
			if err != nil || (f != nil && fmt.Sprintf("0x%x", code) != f.code) {
				ok, what = false, fmt.Sprintf("code of the test contract differs or unreadable: %v", err)
			}
		}
	}
	r.rd(g, "state", 0, ok, thor.Bytes32{})
	if !ok {
		r.violate("best-unreadable:state", fmt.Sprintf("block %s observed as best: %s", short(g.b), what), g.s, g.e, g.b)
	}
	return !ok
}

// readWholeState walks the ENTIRE state of the observed block and compares its digest with the reference node's.
func (r *reader) readWholeState(sum *chain.BlockSummary, g *group, f *bfact) (failed bool) {
	r.nWalks++
	d, _, _, err := nodecheck.StateDigest(r.rc.node.DB, sum.Root())
	ok := err == nil && (f == nil || d == f.stateDigest)
	r.rd(g, "state", 0, ok, thor.Bytes32{})
	if !ok {
		what := fmt.Sprintf("walk of the whole state failed: %v", err)
		if err == nil {
			what = "the whole-state digest differs from the state this block has on a node without readers"
		}
		r.violate("best-unreadable:state", fmt.Sprintf("block %s observed as best: %s", short(g.b), what), g.s, g.e, g.b)
	}
	return !ok
}

// observeFinalized: one atomic load between two stamps; must never go backwards along the ancestry.
func (r *reader) observeFinalized(readIt bool) {
	n := r.rc.node
	ph := r.rc.getPhase()
	s := r.stamp()
	fin := n.BFT.Finalized()
	e := r.stamp()
	r.nFinObs++
	g := group{fin: true, s: s, e: e, b: fin, ok: true, phase: ph}
	failed := false
	if fin != r.lastFin {
		// ancestry through the repository: the previous observation must be on the chain of the new one
		prevNum := uint32(0)
		if ps, err := n.Repo.GetBlockSummary(r.lastFin); err == nil {
			prevNum = ps.Header.Number()
		}
		at, err := n.Repo.NewChain(fin).GetBlockID(prevNum)
		if err != nil || at != r.lastFin || (r.w.facts[fin] != nil && !r.w.isAnc(r.lastFin, fin)) {
			failed = true
			r.violate("finalized-went-backwards", fmt.Sprintf("finalized observed as %s after %s (chain of the new value has %s at that height, %v)",
				short(fin), short(r.lastFin), short(at), err), s, e, fin)
		}
		r.note("finalized %s -> %s", short(r.lastFin), short(fin))
		r.lastFin = fin
		r.maxFinSteps++
		readIt = true
	}
	if readIt {
		sum, err := n.Repo.GetBlockSummary(fin)
		if err == nil {
			_, err = n.Stater.NewState(sum.Root()).GetBalance(r.w.accts[0])
		}
		if err != nil {
			g.ok, failed = false, true
			r.violate("finalized-unreadable", fmt.Sprintf("finalized %s: %v", short(fin), err), s, e, fin)
		}
	}
	r.keep(g, failed)
}

func (r *reader) observeJustified() {
	if noJustified {
		return
	}
	n := r.rc.node
	fin0 := n.BFT.Finalized()
	s := r.stamp()
	j, err := n.BFT.Justified()
	e := r.stamp()
	r.nJust++
	if err != nil {
		r.violate(justifiedErrSig(err.Error()), fmt.Sprintf("Engine.Justified(): %v", err), s, e, thor.Bytes32{})
		return
	}
	sum, err := n.Repo.GetBlockSummary(j)
	if err != nil {
		r.violate("justified-unreadable", fmt.Sprintf("justified %s: %v", short(j), err), s, e, j)
		return
	}
	if sum.Header.Number()%3 != 0 {
		r.violate("justified-inadmissible", fmt.Sprintf("justified %s is not a checkpoint", short(j)), s, e, j)
	}
	// the rest of the content oracle is decided after the run (judgeJustified): it needs to know whether the node's
	// best block descended from its finalized checkpoint during the call
	if len(r.just) < 300000 {
		r.just = append(r.just, justObs{s: s, e: e, j: j, fin0: fin0, best1: n.Repo.BestBlockSummary().Header.ID()})
	}
}

type justObs struct {
	s, e           uint64
	j, fin0, best1 thor.Bytes32
}

// judgeJustified: justified must be a checkpoint descending from the finalized checkpoint seen before the call and not
// above the best block read after it. Judged only for calls that did not overlap an interval in which the node's own
// best block did NOT descend from its finalized checkpoint: a stream in which more than a third of the validators vote
// COM on two branches can commit a block of a non-best branch and move finalized there (bft.Select compares quality
// and score only) - outside the < 1/3 assumption of the finality properties, and not what C20 states.
func (r *reader) judgeJustified(off [][2]uint64, noStamp bool) {
	for _, o := range r.just {
		skip := noStamp && len(off) > 0
		for _, iv := range off {
			if o.s <= iv[1] && iv[0] <= o.e {
				skip = true
			}
		}
		if skip {
			r.nJustSkipped++
			continue
		}
		fj, fb := r.w.facts[o.j], r.w.facts[o.best1]
		switch {
		case fj == nil || fb == nil:
		case !r.w.isAnc(o.fin0, o.j):
			r.violate("justified-inadmissible", fmt.Sprintf("justified %s does not descend from the finalized checkpoint %s seen before the call", short(o.j), short(o.fin0)), o.s, o.e, o.j)
			return
		case fj.num > fb.num:
			r.violate("justified-inadmissible", fmt.Sprintf("justified %s is above the best block %s read after the call", short(o.j), short(o.best1)), o.s, o.e, o.j)
			return
		}
	}
}

// justifiedErrSig: the one error class with a known mechanism gets its own signature (best loaded before finalized).
func justifiedErrSig(msg string) string {
	if strings.Contains(msg, "headID precedes finalized") {
		return "justified-error:stale-head"
	}
	return "justified-error"
}

func (r *reader) loop() {
	defer func() {
		if x := recover(); x != nil {
			r.violate("panic:reader", fmt.Sprintf("real code panicked in a reader goroutine: %v\n%s", x, debug.Stack()), 0, 0, thor.Bytes32{})
		}
	}()
	it := 0
	for !r.rc.stop.Load() {
		it++
		switch r.kind {
		case "spin": // tight loop: load, then immediately the cheapest reads - aims at the publication window
			sum, g := r.observeBest()
			f := r.w.facts[g.b]
			failed := r.readBlock(sum, &g, f, 1, false)
			if !failed && it%4 == 0 {
				failed = r.readStateSample(sum, &g, f, 1)
			}
			r.keep(g, failed)
			if it%8 == 0 {
				r.observeFinalized(false)
			}
		case "full": // everything: all ancestors, all tx lookups, the entire state
			sum, g := r.observeBest()
			f := r.w.facts[g.b]
			failed := r.readBlock(sum, &g, f, 0, true)
			if !failed {
				failed = r.readWholeState(sum, &g, f)
			}
			r.keep(g, failed)
			r.observeFinalized(true)
		case "state":
			sum, g := r.observeBest()
			f := r.w.facts[g.b]
			failed := r.readBlock(sum, &g, f, 3, false)
			if !failed {
				failed = r.readStateSample(sum, &g, f, 4)
			}
			r.keep(g, failed)
			r.observeFinalized(it%3 == 0)
		case "fin":
			r.observeFinalized(it%16 == 0)
			if it%2 == 0 {
				r.observeJustified()
			}
			if it%64 == 0 {
				sum, g := r.observeBest()
				r.keep(g, r.readBlock(sum, &g, r.w.facts[g.b], 1, false))
			}
		case "api":
			r.apiStep(it)
		case "next":
			r.nextStep()
			if it%32 == 0 {
				r.observeFinalized(false)
			}
		}
	}
}

var nextRev, _ = restutil.ParseRevision("next", true)

// nextStep: restutil.GetSummaryAndState for the revision "next" (what every call simulation on the block to come
// starts from). The mocked header and the state must be ONE snapshot: the state handed out hashes to the header's state
// root, which is the state root of the header's parent. The parent id is an observation of best (first load).
func (r *reader) nextStep() {
	n := r.rc.node
	ph := r.rc.getPhase()
	s := r.stamp()
	sum, st, err := restutil.GetSummaryAndState(nextRev, n.Repo, n.BFT, n.Stater, n.Net.FC)
	e := r.stamp()
	if err != nil {
		r.violate("next-revision-error", fmt.Sprintf("GetSummaryAndState(next): %v", err), s, e, thor.Bytes32{})
		return
	}
	parent := sum.Header.ParentID()
	r.nNext++
	r.nObs++
	r.byPhase[ph]++
	if ph != phIdle {
		r.nRaced++
	}
	if !r.distinct[parent] {
		r.distinct[parent] = true
		r.observed = append(r.observed, parent)
	}
	if len(r.all) < 400000 {
		r.all = append(r.all, obsRec{s, e, parent})
	}
	g := group{s: s, e: e, b: parent, phase: ph}
	ok, what := true, ""
	stage, err := st.Stage(trie.Version{Major: sum.Header.Number()})
	if err != nil {
		ok, what = false, fmt.Sprintf("state of the next revision unreadable: %v", err)
	} else if root := stage.Hash(); root != sum.Header.StateRoot() {
		ok = false
		what = fmt.Sprintf("mocked header: child of %s with state root %x, but the state handed out has root %x", short(parent), sum.Header.StateRoot().Bytes()[:6], root.Bytes()[:6])
		for id, f := range r.w.facts {
			if f.stateRoot == root {
				what += fmt.Sprintf(" = state of block %s", short(id))
				break
			}
		}
	} else if f := r.w.facts[parent]; f != nil && (f.stateRoot != root || sum.Header.Number() != f.num+1) {
		ok, what = false, fmt.Sprintf("mocked header number %d / state root do not belong to its parent %s", sum.Header.Number(), short(parent))
	}
	r.rd(&g, "next", 0, ok, thor.Bytes32{})
	if !ok {
		r.violate("next-revision-torn", "revision next is not one snapshot: "+what, s, e, parent)
	}
	r.keep(g, !ok)
}
