package main

import (
	"bytes"
	"encoding/hex"
	"fmt"
	"os"
	"path/filepath"
	"runtime"
	"strconv"
	"sync/atomic"

	"github.com/vechain/thor/v2/bft"
	"github.com/vechain/thor/v2/block"
	"github.com/vechain/thor/v2/builtin"
	"github.com/vechain/thor/v2/chain"
	"github.com/vechain/thor/v2/cmd/thor/node"
	"github.com/vechain/thor/v2/consensus"
	"github.com/vechain/thor/v2/logdb"
	"github.com/vechain/thor/v2/muxdb"
	"github.com/vechain/thor/v2/packer"
	"github.com/vechain/thor/v2/state"
	"github.com/vechain/thor/v2/thor"
	"github.com/vechain/thor/v2/tx"

	"verifharness/internal/kvrec"
	"verifharness/internal/nodecheck"
	"verifharness/internal/sim"
)

// openStack builds the node under test over a fresh recording engine, in the start-up order of cmd/thor/main.go.
// Unlike sim.OpenStack it enables muxdb's node and root caches (code under test: muxdb/cache.go) and uses a
// file-backed log db exactly as production does (WAL, separate read connections) - the in-memory variant shares one
// cache between connections and answers "table is locked" to a reader while a writer is active.
func openStack(net *sim.Net, dir string, caches ...bool) (*sim.Node, error) {
	acc := net.Devs[0]
	e := kvrec.New()
	opt := muxdb.VerifOptions{CacheSizeMB: 4, CachedNodeTTL: 30}
	if len(caches) > 0 && !caches[0] {
		opt = muxdb.VerifOptions{} // dummy cache, as the stack that minted the stream
	}
	db := muxdb.NewWithEngine(e, opt)
	stater := state.NewStater(db)
	e.SetNote("genesis")
	b0, gEvents, gTransfers, err := net.Gen.Build(stater)
	if err != nil {
		return nil, err
	}
	repo, err := chain.NewRepository(db, b0)
	if err != nil {
		return nil, err
	}
	ldb, err := logdb.New(filepath.Join(dir, "logs.db"), false, 8)
	if err != nil {
		return nil, err
	}
	lw := ldb.NewWriter()
	if err := lw.Write(b0, tx.Receipts{{Outputs: []*tx.Output{{Events: gEvents, Transfers: gTransfers}}}}); err != nil {
		return nil, err
	}
	if err := lw.Commit(); err != nil {
		return nil, err
	}
	eng, err := bft.NewEngine(repo, db, net.FC, acc.Address)
	if err != nil {
		return nil, err
	}
	cons := consensus.New(repo, stater, net.FC)
	pk := packer.New(repo, stater, acc.Address, &acc.Address, net.FC, 0)
	cm := &sim.Comm{}
	pool := &sim.Pool{}
	nn := node.New(&node.Master{PrivateKey: acc.PrivateKey, Beneficiary: &acc.Address}, repo, eng, stater, ldb, pool,
		dir, cm, net.FC, node.Options{SkipLogs: false}, cons, pk)
	if err := nn.VerifInit(); err != nil {
		return nil, err
	}
	return &sim.Node{Net: net, Idx: 0, Acc: acc, KV: e, DB: db, Repo: repo, Stater: stater, LogDB: ldb, BFT: eng, Cons: cons,
		Packer: pk, Node: nn, Comm: cm, Pool: pool}, nil
}

func closeStack(n *sim.Node) {
	n.Node.VerifClose()
	n.LogDB.Close()
}

// ---- importer side of a run

const (
	phIdle uint32 = iota
	phBegin
	phState
	phIdx
	phBlk // block bulk durable, bestSummary about to be published: the critical window
	phQ
	phFin
	nPhases
)

var phaseNames = [nPhases]string{"idle", "executing", "state-written", "index-written", "bulk-written", "quality-written", "finalized-written"}

type impEv struct {
	t0     uint64 // Done: stamp of the import's Begin
	t      uint64
	e      string // Begin | Skip | W | Done | Fail
	b      thor.Bytes32
	cls    string
	last   bool
	best   bool
	f      thor.Bytes32
	hasF   bool
	why    string
	bestID thor.Bytes32
	finID  thor.Bytes32
	err    string
}

type foreignWrite struct {
	T     uint64 `json:"stamp"`
	Class string `json:"class"`
	Keys  string `json:"key_spaces"`
	Stack string `json:"stack"`
}

// runCtx is what the importer and the readers of one run share.
type runCtx struct {
	w                                           *world
	node                                        *sim.Node
	ctr                                         atomic.Uint64 // THE global stamp counter
	phase                                       atomic.Uint32
	stop                                        atomic.Bool
	imp                                         []impEv // importer goroutine only
	cur                                         thor.Bytes32
	impG                                        uint64
	foreign                                     []foreignWrite // appended under the kv engine's lock
	failures                                    []string
	afterImport                                 func() // reference run only
	noStamp                                     bool
	lastPackedOn                                thor.Bytes32
	ownBlocks, staleBlocks, poolUsed, packedTxs int
}

// tick draws a stamp from THE global counter. With -nostamp (race-detector runs) nothing is shared between the
// goroutines but the node under test: the stamp counter and the phase word would add happens-before edges between
// otherwise unsynchronised accesses and hide races from the detector.
func (rc *runCtx) tick() uint64 {
	if rc.noStamp {
		return 0
	}
	return rc.ctr.Add(1)
}

func (rc *runCtx) setPhase(p uint32) {
	if !rc.noStamp {
		rc.phase.Store(p)
	}
}

func (rc *runCtx) getPhase() uint32 {
	if rc.noStamp {
		return phBegin
	}
	return rc.phase.Load()
}

func goid() uint64 {
	var buf [64]byte
	n := runtime.Stack(buf[:], false)
	// "goroutine 123 [running]:"
	f := bytes.Fields(buf[:n])
	if len(f) < 2 {
		return 0
	}
	id, _ := strconv.ParseUint(string(f[1]), 10, 64)
	return id
}

var (
	bestKey = append([]byte{kvrec.SpaceNamed}, []byte("chain.propsbest-block-id")...)
	finKey  = append([]byte{kvrec.SpaceNamed}, []byte("bft.enginefinalized")...)
)

// onWrite runs under the kv engine's lock, right after the batch became visible.
func (rc *runCtx) onWrite(idx int, b *kvrec.Batch) {
	t := rc.tick()
	cls := kvrec.WriteClass(b)
	if g := goid(); g != rc.impG {
		buf := make([]byte, 4096)
		buf = buf[:runtime.Stack(buf, false)]
		rc.foreign = append(rc.foreign, foreignWrite{T: t, Class: cls, Keys: kvrec.Classify(b), Stack: string(buf)})
		return
	}
	ev := impEv{t: t, e: "W", b: rc.cur, cls: cls}
	switch cls {
	case "state":
		rc.setPhase(phState)
	case "idx":
		rc.setPhase(phIdx)
	case "blk":
		for _, o := range b.Ops {
			if bytes.Equal(o.Key, bestKey) {
				ev.best = true
			}
		}
		rc.setPhase(phBlk)
	case "q":
		rc.setPhase(phQ)
	case "fin":
		for _, o := range b.Ops {
			if bytes.Equal(o.Key, finKey) {
				ev.f, ev.hasF = thor.BytesToBytes32(o.Val), true
			}
		}
		rc.setPhase(phFin)
	}
	rc.imp = append(rc.imp, ev)
}

// deliver imports one received block through the real processBlock.
func (rc *runCtx) deliver(blk *block.Block) {
	n := rc.node
	id := blk.Header().ID()
	rc.cur = id
	rc.setPhase(phBegin)
	rc.imp = append(rc.imp, impEv{t: rc.tick(), e: "Begin", b: id})
	bi := len(rc.imp) - 1
	class, err := n.Deliver(blk)
	rc.setPhase(phIdle)
	t := rc.tick()
	if rc.afterImport != nil {
		rc.afterImport()
	}
	switch class {
	case "ok":
		rc.imp = append(rc.imp, impEv{t0: rc.imp[bi].t, t: t, e: "Done", b: id, bestID: n.Repo.BestBlockSummary().Header.ID(), finID: n.BFT.Finalized()})
	case "known", "parent-missing", "unprocessable", "bft-rejected":
		rc.imp[bi].e, rc.imp[bi].why = "Skip", class
	default:
		rc.imp = append(rc.imp, impEv{t: t, e: "Fail", b: id, err: fmt.Sprint(err)})
		rc.failures = append(rc.failures, fmt.Sprintf("import of block %d (%x) failed: %v", blk.Header().Number(), id[28:], err))
	}
}

// schedule prepares a packing flow on the current best block (the node's own earliest slot), with txs in the pool.
func (rc *runCtx) schedule() *packer.Flow {
	n := rc.node
	best := n.Repo.BestBlockSummary()
	if best.Header.ID() == rc.lastPackedOn {
		return nil // packing twice on one parent in one slot would produce the very same block again
	}
	flow, err := n.Packer.Schedule(best, best.Header.Timestamp()+thor.BlockInterval())
	if err != nil {
		return nil
	}
	rc.lastPackedOn = best.Header.ID()
	return flow
}

// pack produces a block through the real doPack (ShouldVote, Adopt from the pool, Pack, commitBlock) on the given flow,
// which may be STALE (scheduled on a block that is not best any more).
func (rc *runCtx) pack(flow *packer.Flow, what string) bool {
	n := rc.node
	if k := rc.w.poolNext; k < len(rc.w.poolTxs) { // executables offered by the pool: typed and legacy transactions
		hi := min(k+3, len(rc.w.poolTxs))
		n.Pool.Txs = rc.w.poolTxs[k:hi]
		rc.poolUsed += hi - k
	}
	rc.cur = thor.Bytes32{}
	rc.setPhase(phBegin)
	rc.imp = append(rc.imp, impEv{t: rc.tick(), e: "Begin"})
	bi := len(rc.imp) - 1
	before := len(n.Comm.Out)
	err := n.Node.VerifDoPack(flow)
	rc.setPhase(phIdle)
	t := rc.tick()
	n.Pool.Txs = nil
	if err == nil && len(n.Comm.Out) != before+1 {
		err = fmt.Errorf("doPack did not broadcast a block")
	}
	if err != nil {
		rc.imp = append(rc.imp, impEv{t: t, e: "Fail", err: fmt.Sprint(err)})
		rc.failures = append(rc.failures, fmt.Sprintf("%s failed: %v", what, err))
		return false
	}
	blk := n.Comm.Out[len(n.Comm.Out)-1]
	id := blk.Header().ID()
	for j := bi; j < len(rc.imp); j++ { // the id is known only now
		rc.imp[j].b = id
	}
	rc.packedTxs += len(blk.Transactions())
	rc.imp = append(rc.imp, impEv{t0: rc.imp[bi].t, t: t, e: "Done", b: id, bestID: n.Repo.BestBlockSummary().Header.ID(), finID: n.BFT.Finalized()})
	return true
}

// importAll is the ONE importing/producing goroutine: the pre-minted stream through the real processBlock at full
// speed; between stream blocks the node packs blocks of its own from a non-empty pool (its block is then usually
// replaced by the better sibling the stream delivers next), sometimes on a flow that went stale because a stream block
// arrived between scheduling and packing; at the end `propose` blocks in a row.
func (rc *runCtx) importAll() {
	rc.poolUsed, rc.packedTxs = 0, 0
	w := rc.w
	w.poolNext = 0
	for i := 0; i < len(w.stream); i++ {
		rc.deliver(w.stream[i])
		if len(rc.failures) > 0 {
			continue
		}
		switch w.packAfter[i] {
		case 1:
			if flow := rc.schedule(); flow != nil {
				if !rc.pack(flow, "proposal after stream block "+fmt.Sprint(i)) {
					return
				}
				w.poolNext += 3
				rc.ownBlocks++
			}
		case 2: // stale flow: schedule, let the next stream block (a child of the current best) in, then pack
			best := rc.node.Repo.BestBlockSummary().Header.ID()
			if i+1 < len(w.stream) && w.stream[i+1].Header().ParentID() == best {
				if flow := rc.schedule(); flow != nil {
					i++
					rc.deliver(w.stream[i])
					if len(rc.failures) == 0 {
						if !rc.pack(flow, "packing on a stale flow after stream block "+fmt.Sprint(i)) {
							return
						}
						w.poolNext += 3
						rc.ownBlocks++
						rc.staleBlocks++
					}
				}
			}
		}
	}
	for k := 0; k < w.propose && len(rc.failures) == 0; k++ {
		flow := rc.schedule()
		if flow == nil {
			break
		}
		if !rc.pack(flow, fmt.Sprintf("proposal %d", k)) {
			break
		}
		w.poolNext += 3
		rc.ownBlocks++
	}
	rc.cur = thor.Bytes32{}
	// look-ahead annotations the trace spec binds at the step where the decision is taken
	start := -1
	for i := range rc.imp {
		switch rc.imp[i].e {
		case "Begin":
			start = i
		case "Done", "Fail":
			if start < 0 {
				continue
			}
			lastState, q := -1, -1
			asBest, fin, hasFin := false, thor.Bytes32{}, false
			for j := start; j < i; j++ {
				if rc.imp[j].e != "W" {
					continue
				}
				switch rc.imp[j].cls {
				case "state":
					lastState = j
				case "blk":
					asBest = rc.imp[j].best
				case "q":
					q = j
				case "fin":
					fin, hasFin = rc.imp[j].f, rc.imp[j].hasF
				}
			}
			if lastState >= 0 {
				rc.imp[lastState].last, rc.imp[lastState].best = true, asBest
			}
			if q >= 0 {
				rc.imp[q].f, rc.imp[q].hasF = fin, hasFin
			}
			start = -1
		}
	}
}

// ---- reference run: the same stream on an identical stack WITHOUT readers; source of everything readers compare with

// importsWithoutCaches: does the same code import the whole stream when muxdb's caches are switched off?
func (w *world) importsWithoutCaches(tmp string) bool {
	dir := filepath.Join(tmp, "nocache")
	must(os.MkdirAll(dir, 0o755))
	n, err := openStack(w.net, dir, false)
	if err != nil {
		return false
	}
	defer closeStack(n)
	for _, blk := range w.stream {
		if class, _ := n.Deliver(blk); class == "error" {
			return false
		}
	}
	return true
}

func (w *world) reference(tmp string) error {
	dir := filepath.Join(tmp, "ref")
	must(os.MkdirAll(dir, 0o755))
	n, err := openStack(w.net, dir)
	if err != nil {
		return err
	}
	defer closeStack(n)
	rc := &runCtx{w: w, node: n}
	rc.impG = goid()
	n.KV.OnWrite = rc.onWrite
	// deterministic probe (no concurrency): whenever the best block moves to a LOWER height, the block that was best
	// a moment ago is still stored - GET /blocks/{its id} must answer
	api := newAPI(n)
	prevBest := n.Repo.BestBlockSummary()
	rc.afterImport = func() {
		best := n.Repo.BestBlockSummary()
		if best.Header.Number() < prevBest.Header.Number() && len(w.refViol) == 0 {
			url := "/blocks/" + prevBest.Header.ID().String()
			if st, body := api.do("GET", url, ""); st != 200 {
				w.refViol = append(w.refViol, violation{Sig: sigIsTrunk, Reader: "sequential probe (no readers)",
					What: fmt.Sprintf("%s -> %d %s: a stored block above the best height (best moved from %s to %s)", url, st, body,
						short(prevBest.Header.ID()), short(best.Header.ID()))})
			}
		}
		prevBest = best
	}
	rc.importAll()
	n.KV.OnWrite = nil
	if len(rc.failures) > 0 {
		return fmt.Errorf("reference run: %s", rc.failures[0])
	}
	snapshot := func() (refResult, error) {
		r := refResult{best: n.Repo.BestBlockSummary().Header.ID(), fin: n.BFT.Finalized(), digest: n.KV.Digest()}
		var err error
		if r.justified, err = n.BFT.Justified(); err != nil {
			return r, fmt.Errorf("reference: justified: %w", err)
		}
		r.events, r.transfers, err = nodecheck.DumpLogDB(n.LogDB)
		return r, err
	}
	w.ref, err = snapshot()
	if err != nil {
		return err
	}
	w.ref.classes, w.ref.quals, w.ref.everBest, w.ref.tally = map[thor.Bytes32]string{}, map[thor.Bytes32]uint32{}, map[thor.Bytes32]bool{}, map[thor.Bytes32]uint32{}
	mainEvents := len(rc.imp)
	// the tail (imported by the nodes under test only after their quiescent query batch)
	n.KV.OnWrite = rc.onWrite
	for _, blk := range w.tail {
		rc.deliver(blk)
	}
	n.KV.OnWrite = nil
	if len(rc.failures) > 0 {
		return fmt.Errorf("reference run (tail): %s", rc.failures[0])
	}
	tailRef, err := snapshot()
	if err != nil {
		return err
	}
	w.ref.tail = &tailRef
	g := w.net.B0.Header().ID()
	w.order = []thor.Bytes32{g}
	w.ref.everBest[g] = true
	seen := map[thor.Bytes32]bool{g: true}
	for k, ev := range rc.imp {
		if k < mainEvents && (ev.e == "Done" || ev.e == "Skip") {
			w.ref.seq = append(w.ref.seq, ev)
		}
		switch ev.e {
		case "Done":
			if !seen[ev.b] {
				seen[ev.b] = true
				w.order = append(w.order, ev.b)
			}
			w.ref.everBest[ev.bestID] = true
			if k := len(w.ref.finalities); k == 0 || w.ref.finalities[k-1] != ev.finID {
				w.ref.finalities = append(w.ref.finalities, ev.finID)
			}
			w.ref.classes[ev.b] = "ok"
		case "Skip":
			w.ref.classes[ev.b] = ev.why
		}
	}
	for _, id := range w.order {
		sum, err := n.Repo.GetBlockSummary(id)
		if err != nil {
			return fmt.Errorf("reference: block %x: %w", id[28:], err)
		}
		f := &bfact{id: id, parent: sum.Header.ParentID(), num: sum.Header.Number(), ts: sum.Header.Timestamp(), txIDs: sum.Txs, stateRoot: sum.Header.StateRoot()}
		if f.num == 0 {
			f.parent = id
			f.anc = []thor.Bytes32{id}
		} else {
			p := w.facts[f.parent]
			if p == nil {
				return fmt.Errorf("reference: parent of %x unknown", id[28:])
			}
			f.anc = append(append([]thor.Bytes32{}, p.anc...), id)
		}
		d, accounts, _, err := nodecheck.StateDigest(n.DB, sum.Root())
		if err != nil {
			return fmt.Errorf("reference: state of %x: %w", id[28:], err)
		}
		f.stateDigest, f.accounts = d, accounts
		st := n.Stater.NewState(sum.Root())
		for _, a := range w.accts {
			bal, err := st.GetBalance(a)
			must(err)
			en, err := builtin.Energy.Native(st, f.ts).Get(a)
			must(err)
			code, err := st.GetCode(a)
			must(err)
			f.acct = append(f.acct, acctExp{Balance: "0x" + bal.Text(16), Energy: "0x" + en.Text(16), HasCode: len(code) > 0})
		}
		for _, k := range w.slots {
			v, err := st.GetStorage(w.uAddr, k)
			must(err)
			f.slotVals = append(f.slotVals, v)
		}
		code, err := st.GetCode(w.uAddr)
		must(err)
		f.code = "0x" + hex.EncodeToString(code)
		w.facts[id] = f
		if q, ok := n.BFT.VerifStoredQuality(id); ok {
			w.ref.quals[id] = q
		}
		if q, _, _, ok := n.BFT.VerifTally(id); ok {
			w.ref.tally[id] = q
		}
	}
	return nil
}

func (w *world) isAnc(a, b thor.Bytes32) bool {
	fa, fb := w.facts[a], w.facts[b]
	return fa != nil && fb != nil && fa.num <= fb.num && fb.anc[fa.num] == a
}

func short(id thor.Bytes32) string { return fmt.Sprintf("%d/%x", block.Number(id), id[28:]) }
