// publish: concurrent readers against ONE importing/producing goroutine of a real node (C20).
//
// For each seeded stream (pre-minted block tree with transactions, side branches, reorganisations, epoch boundaries):
//
//  1. a reference node imports the stream WITHOUT readers: source of the expected content of every block and of the
//     final store digest / log db / best / finalized;
//
//  2. `runs` fresh nodes import the same stream at full speed while reader goroutines loop: observe best -> read header,
//     body, ancestors by number, tx lookups, state (sampled / the ENTIRE state) -> observe finalized / justified; two of
//     them go through the real REST handlers (accounts, blocks, transactions, logs, call simulation).  Every failed
//     read for a block observed as best, every answer that is not the block's data, every finalized observation that
//     is not a descendant-or-equal of the previous one is recorded as a violation with the goroutine's log;
//
//  3. at quiescence the store digest, the number of recorded writes and the log-db dump are taken, a batch of all query
//     kinds (incl. call simulations that write inside the EVM) is run, and everything must be byte-identical; the node
//     must also equal the reference node (queries did not change what the importer stored);
//
//  4. importer writes (kvrec.OnWrite, under the engine's lock) and reader observations are stamped from ONE atomic
//     counter and written as a trace for specs/store/Trace_Publish.tla.
//
//     publish -out <dir> -seed S [-streams N] [-runs R] [-blocks B] [-propose K] [-readers 7] [-tracecap C]
package main

import (
	"encoding/json"
	"flag"
	"fmt"
	"math/rand"
	"os"
	"path/filepath"
	"runtime/debug"
	"sort"
	"strings"
	"sync"

	"github.com/vechain/thor/v2/thor"

	"verifharness/internal/kvrec"
	"verifharness/internal/nodecheck"
	"verifharness/internal/trace"
)

type runStats struct {
	Stream       int               `json:"stream"`
	Run          int               `json:"run"`
	Seed         int64             `json:"seed"`
	PoS          bool              `json:"pos"`
	Blocks       int               `json:"blocks_delivered"`
	Stored       int               `json:"blocks_stored"`
	Proposed     int               `json:"blocks_proposed"`
	BestChanges  int               `json:"best_changes"`
	Reorgs       int               `json:"reorgs"`
	FinSteps     int               `json:"finalized_steps"`
	Observations uint64            `json:"observations"`
	FinObs       uint64            `json:"finalized_observations"`
	Reads        uint64            `json:"reads"`
	APICalls     uint64            `json:"api_calls"`
	API4xx       uint64            `json:"api_4xx"`
	Raced        uint64            `json:"observations_during_an_import"`
	ByPhase      map[string]uint64 `json:"observations_by_importer_phase"`
	Distinct     int               `json:"distinct_bests_observed"`
	RacedPairs   int               `json:"distinct_block_phase_pairs_observed_during_an_import"`
	StaleOK      uint64            `json:"observations_of_a_best_already_replaced_on_disk"`
	TraceLines   int               `json:"trace_lines"`
	Diverged     bool              `json:"diverged_from_reference,omitempty"`
	OwnBlocks    int               `json:"blocks_packed_between_stream_blocks_and_at_the_end"`
	StaleBlocks  int               `json:"blocks_packed_on_a_stale_flow"`
	PackedTxs    int               `json:"pool_txs_packed"`
	WholeWalks   uint64            `json:"whole_state_walks"`
	JustObs      uint64            `json:"justified_observations"`
	JustSkipped  uint64            `json:"justified_observations_not_judged_best_off_finalized"`
	OffFinalized int               `json:"imports_after_which_best_does_not_descend_from_finalized"`
	NextObs      uint64            `json:"next_revision_requests"`
	Quiesce      map[string]any    `json:"quiescence,omitempty"`
	Violations   []violation       `json:"violations,omitempty"`
}

type obsRec struct {
	s, e uint64
	b    thor.Bytes32
}

var kinds = []string{"spin", "spin", "full", "state", "api", "api", "fin", "next"}

func main() {
	out := flag.String("out", ".", "output dir")
	seed := flag.Int64("seed", 1, "seed")
	streams := flag.Int("streams", 2, "number of streams")
	runs := flag.Int("runs", 4, "concurrent runs per stream")
	blocks := flag.Int("blocks", 40, "trunk length")
	propose := flag.Int("propose", 4, "blocks the node produces itself after the stream")
	nReaders := flag.Int("readers", 8, "reader goroutines (<= 8)")
	tracecap := flag.Int("tracecap", 40, "observation groups kept per reader and run for the TLA+ trace")
	traceRuns := flag.Int("traceruns", 0, "write only this many runs into the trace (0 = all)")
	noStamp := flag.Bool("nostamp", false, "no shared stamp counter / phase word (race-detector runs): no trace, no linearization checks")
	batch := flag.Int("batch", 400, "queries of the read-only batch at quiescence")
	flag.Parse()
	defer func() {
		// a panic that reaches main comes from the harness (must(), stream construction, reference run): real code
		// runs under recover() in the importer and reader goroutines
		if x := recover(); x != nil {
			fmt.Printf("HARNESS-ERROR panic in the driver's own code: %v\n%s\n", x, debug.Stack())
			os.Exit(3)
		}
	}()
	must(os.MkdirAll(*out, 0o755))
	if *nReaders > len(kinds) {
		*nReaders = len(kinds)
	}
	tmp, err := os.MkdirTemp("", "verif-publish-")
	must(err)
	defer os.RemoveAll(tmp)

	names := trace.NewInterner("b")
	blocksCfg := map[string]any{}
	var all []trace.Ev
	var stats []runStats
	var readerNames []any
	for i := 0; i < *nReaders; i++ {
		readerNames = append(readerNames, fmt.Sprintf("r%d", i))
	}
	all = append(all, nil) // Config, filled at the end
	written, writtenViol := 0, 0
	for s := 0; s < *streams; s++ {
		sseed := *seed*1000 + int64(s)
		w, merr := tryBuildStream(sseed, *blocks, s%3 == 1) // every third stream (the 2nd, 5th, ..) runs proof of stake
		if merr != nil {
			// the stored state of a block could not be read back while packing on it (sequentially, valid inputs): an
			// observation on the real code, not harness trouble
			stats = append(stats, runStats{Stream: s, Run: -1, Seed: sseed, ByPhase: map[string]uint64{}, Violations: []violation{{
				Sig: "state-unreadable:packing-on-a-stored-block", Reader: "stream construction (no readers)", What: merr.Error()}}})
			continue
		}
		w.propose = *propose
		must(os.MkdirAll(filepath.Join(tmp, fmt.Sprintf("s%d-dry", s)), 0o755))
		if err := w.addLateBranch(filepath.Join(tmp, fmt.Sprintf("s%d-dry", s))); err != nil {
			fmt.Println("HARNESS-ERROR", err)
			os.Exit(3)
		}
		w.planPacking()
		if err := w.reference(filepath.Join(tmp, fmt.Sprintf("s%d", s))); err != nil {
			if w.importsWithoutCaches(filepath.Join(tmp, fmt.Sprintf("s%d", s))) {
				// a deterministic deviation of the real code: the stream is valid for the node without muxdb caches
				stats = append(stats, runStats{Stream: s, Run: -1, Seed: sseed, PoS: w.net.Opt.PoS, Blocks: len(w.stream), ByPhase: map[string]uint64{},
					Violations: []violation{{Sig: "cache-changes-import-verdict", Reader: "importer (no readers)",
						What: "a node with muxdb's node/root caches enabled fails to import a stream that the same code imports with the caches off: " + err.Error()}}})
				w.net.Close()
				continue
			}
			fmt.Println("HARNESS-ERROR", err)
			os.Exit(3)
		}
		if len(w.refViol) > 0 {
			stats = append(stats, runStats{Stream: s, Run: -1, Seed: sseed, PoS: w.net.Opt.PoS, Blocks: len(w.stream), ByPhase: map[string]uint64{}, Violations: w.refViol})
		}
		for _, id := range w.order {
			f := w.facts[id]
			blocksCfg[names.Name(id[:])] = map[string]any{"p": names.Name(f.parent[:]), "n": f.num}
		}
		for _, blk := range w.stream { // blocks the node refuses still appear in Skip events
			id, p := blk.Header().ID(), blk.Header().ParentID()
			if _, ok := blocksCfg[names.Name(id[:])]; !ok {
				blocksCfg[names.Name(id[:])] = map[string]any{"p": names.Name(p[:]), "n": blk.Header().Number()}
			}
		}
		for r := 0; r < *runs; r++ {
			dir := filepath.Join(tmp, fmt.Sprintf("s%d-r%d", s, r))
			must(os.MkdirAll(dir, 0o755))
			st, evs := w.concurrentRun(s, r, dir, *nReaders, *tracecap, names, blocksCfg, r == *runs-1, *batch, *noStamp)
			st.Seed = sseed
			if st.Diverged || evs == nil {
				// reported on its own; a node whose fork choice was derailed re-proposes the same block etc. - its
				// trace is not a behaviour of Publish.tla and would only repeat the verdict
			} else if *traceRuns == 0 || written < *traceRuns || (len(st.Violations) > 0 && writtenViol < 4) {
				if len(st.Violations) > 0 {
					writtenViol++
				}
				st.TraceLines = len(evs)
				all = append(all, evs...)
				written++
			}
			stats = append(stats, st)
			os.RemoveAll(dir)
		}
		w.net.Close()
	}
	all[0] = trace.Ev{"e": "Config", "E": 3, "readers": readerNames, "blocks": blocksCfg}
	must(trace.WriteNDJSON(filepath.Join(*out, "trace.ndjson"), all))
	f, err := os.Create(filepath.Join(*out, "runs.json"))
	must(err)
	enc := json.NewEncoder(f)
	enc.SetIndent("", " ")
	must(enc.Encode(map[string]any{"seed": *seed, "runs": stats, "names": names.Table()}))
	f.Close()
	var obs, raced uint64
	viol := 0
	for _, st := range stats {
		obs += st.Observations
		raced += st.Raced
		viol += len(st.Violations)
	}
	fmt.Printf("{\"runs\":%d,\"observations\":%d,\"raced\":%d,\"violations\":%d,\"trace_lines\":%d}\n", len(stats), obs, raced, viol, len(all))
}

func (w *world) concurrentRun(si, ri int, dir string, nReaders, tracecap int, names *trace.Interner, blocksCfg map[string]any, quiesce bool, batch int, noStamp bool) (runStats, []trace.Ev) {
	st := runStats{Stream: si, Run: ri, PoS: w.net.Opt.PoS, Blocks: len(w.stream), ByPhase: map[string]uint64{}}
	n, err := openStack(w.net, dir)
	if err != nil {
		fmt.Println("HARNESS-ERROR open node under test:", err)
		os.Exit(3)
	}
	defer closeStack(n)
	rc := &runCtx{w: w, node: n, noStamp: noStamp}
	n.KV.OnWrite = rc.onWrite
	api := newAPI(n)
	g := w.net.B0.Header().ID()
	var readers []*reader
	for i := 0; i < nReaders; i++ {
		readers = append(readers, &reader{id: i, kind: kinds[i], rc: rc, w: w, api: api,
			rng:      rand.New(rand.NewSource(w.seed*7919 + int64(ri)*131 + int64(i))),
			distinct: map[thor.Bytes32]bool{}, lastFin: g, stride: 1, capacity: 2 * tracecap})
	}
	var wg sync.WaitGroup
	ready := make(chan struct{})
	goNow := make(chan struct{})
	impDone := make(chan struct{})
	go func() { // the ONE importing / producing goroutine
		defer close(impDone)
		defer func() {
			if x := recover(); x != nil {
				if _, ok := x.(kvrec.CrashSentinel); ok {
					panic(x)
				}
				rc.failures = append(rc.failures, fmt.Sprintf("PANIC in the importer: %v", x))
			}
		}()
		rc.impG = goid()
		close(ready)
		<-goNow
		rc.importAll()
	}()
	<-ready
	for _, r := range readers {
		wg.Add(1)
		go func(r *reader) { defer wg.Done(); r.loop() }(r)
	}
	close(goNow)
	<-impDone
	rc.stop.Store(true)
	wg.Wait()
	n.KV.OnWrite = nil

	// ---- importer-side results against the reference node (queries must not change what is stored)
	tl := buildTimeline(g, rc.imp)
	st.BestChanges = len(tl.ids) - 1
	for i := 1; i < len(tl.ids); i++ {
		if f := w.facts[tl.ids[i]]; f != nil && f.parent != tl.ids[i-1] {
			st.Reorgs++
		}
	}
	divT := ^uint64(0) // stamp of the first import whose outcome differs from the reference node
	var vio []violation
	add := func(sig, what string, log []string) {
		vio = append(vio, violation{Sig: sig, What: what, Reader: "importer", Log: log})
	}
	// did the engine with readers compute a LOWER vote quality for some block than the engine without readers?
	// (bft tallies are functions of the chain alone; a difference means a query perturbed the engine's caches)
	poisoned := ""
	for _, id := range w.order {
		if q, _, _, ok := n.BFT.VerifTally(id); ok {
			if qr, ok2 := w.ref.tally[id]; ok2 && q != qr {
				poisoned = fmt.Sprintf("the engine with readers gives block %s the vote quality %d, the engine without readers %d", short(id), q, qr)
				break
			}
		}
	}
	for _, f := range rc.failures {
		sig := "import-fails-under-readers"
		if strings.HasPrefix(f, "PANIC") {
			sig = "panic:importer"
		} else if poisoned != "" {
			sig, f = "readers-changed-chain:epoch-quality", f+"; "+poisoned
		}
		st.Diverged = true
		add(sig, f, nil)
	}
	for _, fw := range rc.foreign {
		b, _ := json.Marshal(fw)
		add("query-wrote-to-store:"+fw.Class, "a goroutine other than the importer wrote to the key-value store during the run: "+fw.Keys, []string{string(b)})
	}
	// intervals (in stamps) during which the node's best block may not have descended from its finalized checkpoint:
	// from the Begin of the import after which that holds to the Done of the import that ends it
	var off [][2]uint64
	isOff := false
	for _, ev := range rc.imp {
		if ev.e == "Done" {
			st.Stored++
			now := w.facts[ev.bestID] == nil || w.facts[ev.finID] == nil || !w.isAnc(ev.finID, ev.bestID)
			if now {
				st.OffFinalized++
			}
			switch {
			case now && !isOff:
				off = append(off, [2]uint64{ev.t0, ^uint64(0)})
			case !now && isOff:
				off[len(off)-1][1] = ev.t
			}
			isOff = now
		}
	}
	for _, r := range readers {
		r.judgeJustified(off, noStamp)
	}
	st.Proposed = w.propose
	st.OwnBlocks, st.StaleBlocks, st.PackedTxs = rc.ownBlocks, rc.staleBlocks, rc.packedTxs
	if len(rc.failures) == 0 {
		best, fin := n.Repo.BestBlockSummary().Header.ID(), n.BFT.Finalized()
		// first import whose outcome differs from the node without readers
		var seq []impEv
		for _, ev := range rc.imp {
			if ev.e == "Done" || ev.e == "Skip" {
				seq = append(seq, ev)
			}
		}
		diverged, divSig := "", "readers-changed-chain:best-or-finalized"
		_ = divT
		var dlog []string
		for i := range seq {
			if i >= len(w.ref.seq) {
				break
			}
			a, b := seq[i], w.ref.seq[i]
			if a.e != b.e || a.why != b.why || a.b != b.b || a.bestID != b.bestID || a.finID != b.finID {
				divT = a.t
				if a.t0 != 0 {
					divT = a.t0
				}
				diverged = fmt.Sprintf("import #%d of block %s: with readers %s%s best %s finalized %s; without readers %s%s best %s finalized %s",
					i, short(b.b), a.e, a.why, short(a.bestID), short(a.finID), b.e, b.why, short(b.bestID), short(b.finID))
				if poisoned != "" {
					divSig = "readers-changed-chain:epoch-quality"
					diverged += "; " + poisoned
				}
				for j := max(0, i-4); j <= i; j++ {
					dlog = append(dlog, fmt.Sprintf("#%d %s %s%s best=%s fin=%s | ref %s%s best=%s fin=%s", j, short(seq[j].b), seq[j].e, seq[j].why,
						short(seq[j].bestID), short(seq[j].finID), w.ref.seq[j].e, w.ref.seq[j].why, short(w.ref.seq[j].bestID), short(w.ref.seq[j].finID)))
				}
				break
			}
		}
		if best != w.ref.best || fin != w.ref.fin || diverged != "" {
			st.Diverged = true
			add(divSig, fmt.Sprintf("after the same stream the node with readers has best %s finalized %s, the node without readers %s / %s; first divergence: %s",
				short(best), short(fin), short(w.ref.best), short(w.ref.fin), diverged), dlog)
		} else if d := n.KV.Digest(); d != w.ref.digest {
			add("readers-changed-chain:store-digest", fmt.Sprintf("store digest %s differs from the node without readers (%s) although best and finalized agree", d, w.ref.digest), nil)
		}
		ge, gt, err := nodecheck.DumpLogDB(n.LogDB)
		if err != nil {
			fmt.Println("HARNESS-ERROR log db dump failed:", err) // sqlite / environment trouble, not an observation on thor
			os.Exit(3)
		} else if st.Diverged {
			// another canonical chain: its logs differ by construction
		} else if d := nodecheck.DiffRows(w.ref.events, ge) + nodecheck.DiffRows(w.ref.transfers, gt); d != "" {
			add("readers-changed-chain:logdb", "log db differs from the node without readers: "+d, nil)
		}
	}

	// ---- reader-side results
	for _, r := range readers {
		if noStamp {
			r.apiBest, r.all = nil, nil
		}
		r.checkAPIBest(tl)
		for _, o := range r.all {
			ok, stale := tl.admissible(o)
			if !ok {
				r.violate("best-not-linearizable", fmt.Sprintf("BestBlockSummary() returned %s in [%d,%d], but that block was not the published best at any instant of the interval (candidates %v)",
					short(o.b), o.s, o.e, tl.candidates(o.s, o.e)), o.s, o.e, o.b)
				break
			}
			if stale {
				st.StaleOK++
			}
		}
		st.Observations += r.nObs
		st.FinObs += r.nFinObs
		st.Reads += r.nReads
		st.Raced += r.nRaced
		st.APICalls += r.apiCalls
		st.WholeWalks += r.nWalks
		st.JustObs += r.nJust
		st.JustSkipped += r.nJustSkipped
		st.NextObs += r.nNext
		st.API4xx += r.api4xx
		for p, c := range r.byPhase {
			st.ByPhase[phaseNames[p]] += c
		}
		if r.maxFinSteps > st.FinSteps {
			st.FinSteps = r.maxFinSteps
		}
		for _, v := range r.viol {
			if st.Diverged && (v.E == 0 || v.E >= divT || len(rc.failures) > 0) {
				// after the divergence the node works on another chain than the reference node (it even re-packs the
				// same block): the run is reported once, under the divergence itself
				continue
			}
			vio = append(vio, v)
		}
	}
	distinct := map[thor.Bytes32]bool{}
	for _, r := range readers {
		for id := range r.distinct {
			distinct[id] = true
		}
	}
	st.Distinct = len(distinct)
	pairs := map[[33]byte]bool{}
	for _, r := range readers {
		for k := range r.racedPairs {
			pairs[k] = true
		}
	}
	st.RacedPairs = len(pairs)

	// ---- read-only-ness at quiescence
	if quiesce && len(rc.failures) == 0 && !st.Diverged {
		q, v := w.quiescence(rc, api, batch)
		st.Quiesce = q
		vio = append(vio, v...)
	}
	st.Violations = vio

	// ---- trace
	if noStamp {
		return st, nil // no stamps: no trace
	}
	evs := w.traceOf(si, ri, rc, readers, names, blocksCfg)
	return st, evs
}

// quiescence: importer stopped, readers stopped. Digest, write count and log-db dump before and after a large batch
// of all query kinds must be identical.
func (w *world) quiescence(rc *runCtx, api *apiEnv, batch int) (map[string]any, []violation) {
	n := rc.node
	var vio []violation
	d0, l0 := n.KV.Digest(), n.KV.Len()
	e0, t0, err := nodecheck.DumpLogDB(n.LogDB)
	if err != nil {
		fmt.Println("HARNESS-ERROR log db dump failed:", err)
		os.Exit(3)
	}
	var fw []foreignWrite
	n.KV.OnWrite = func(idx int, b *kvrec.Batch) {
		fw = append(fw, foreignWrite{Class: kvrec.WriteClass(b), Keys: kvrec.Classify(b)})
	}
	stopped := &runCtx{w: w, node: n}
	q := &reader{id: 99, kind: "api", rc: stopped, w: w, api: api, rng: rand.New(rand.NewSource(w.seed + 4242)),
		distinct: map[thor.Bytes32]bool{}, lastFin: n.BFT.Finalized(), stride: 1, capacity: 1 << 30}
	isTail := map[thor.Bytes32]bool{}
	for _, b := range w.tail {
		isTail[b.Header().ID()] = true
	}
	for _, id := range w.order { // every stored block is a revision to query
		if !isTail[id] {
			q.observed = append(q.observed, id)
			q.distinct[id] = true
		}
	}
	sims := 0
	for i := 0; i < batch; i++ {
		q.apiStep(i)
		if i%10 == 4 || i%10 == 9 {
			sims++
		}
	}
	// local readers as well: whole state of best, justified, finalized
	sum, g := q.observeBest()
	q.readBlock(sum, &g, w.facts[g.b], 0, true)
	q.readWholeState(sum, &g, w.facts[g.b])
	q.observeFinalized(true)
	q.observeJustified()
	q.checkAPIBest(&timeline{ids: []thor.Bytes32{n.Repo.BestBlockSummary().Header.ID()}, from: []uint64{0}, to: []uint64{^uint64(0)}})
	n.KV.OnWrite = nil
	d1, l1 := n.KV.Digest(), n.KV.Len()
	e1, t1, err := nodecheck.DumpLogDB(n.LogDB)
	if err != nil {
		fmt.Println("HARNESS-ERROR log db dump failed:", err)
		os.Exit(3)
	}
	if d0 != d1 || l0 != l1 {
		classes := map[string]bool{}
		var log []string
		for _, x := range fw {
			classes[x.Class] = true
			log = append(log, x.Class+" "+x.Keys)
		}
		cl := nodecheck.SortedKeys(classes)
		vio = append(vio, violation{Sig: "query-wrote-to-store:" + strings.Join(cl, "+"),
			What:   fmt.Sprintf("a batch of %d read-only queries at quiescence changed the key-value store: digest %s -> %s, recorded writes %d -> %d, write classes %v", batch, d0, d1, l0, l1, cl),
			Reader: "quiescence", Log: log})
	}
	if d := nodecheck.DiffRows(e0, e1) + nodecheck.DiffRows(t0, t1); d != "" {
		vio = append(vio, violation{Sig: "query-wrote-to-logdb", What: "read-only queries at quiescence changed the log db: " + d, Reader: "quiescence"})
	}
	vio = append(vio, q.viol...)
	if j, err := n.BFT.Justified(); err != nil || j != w.ref.justified {
		vio = append(vio, violation{Sig: "justified-differs-from-reference", Reader: "quiescence",
			What: fmt.Sprintf("at quiescence Justified() = %s (%v), the node without readers has %s", short(j), err, short(w.ref.justified))})
	}
	// in-memory state (repository / engine / muxdb caches) is invisible to the digest: import a tail of the trunk across
	// two more epochs NOW and compare with the node that never answered a query
	tailCtx := &runCtx{w: w, node: n}
	for _, blk := range w.tail {
		tailCtx.deliver(blk)
	}
	tailOK := len(tailCtx.failures) == 0
	if !tailOK {
		vio = append(vio, violation{Sig: "tail-import-differs-after-queries", Reader: "quiescence", What: "after the query batch: " + tailCtx.failures[0]})
	} else if tr := w.ref.tail; tr != nil {
		best, fin := n.Repo.BestBlockSummary().Header.ID(), n.BFT.Finalized()
		j, _ := n.BFT.Justified()
		te, tt, err := nodecheck.DumpLogDB(n.LogDB)
		if err != nil {
			fmt.Println("HARNESS-ERROR log db dump failed:", err)
			os.Exit(3)
		}
		switch {
		case best != tr.best || fin != tr.fin || j != tr.justified:
			tailOK = false
			vio = append(vio, violation{Sig: "tail-import-differs-after-queries", Reader: "quiescence",
				What: fmt.Sprintf("after the query batch and %d more blocks: best %s finalized %s justified %s; the node that never answered a query: %s / %s / %s",
					len(w.tail), short(best), short(fin), short(j), short(tr.best), short(tr.fin), short(tr.justified))})
		case n.KV.Digest() != tr.digest:
			tailOK = false
			vio = append(vio, violation{Sig: "tail-import-differs-after-queries", Reader: "quiescence",
				What: fmt.Sprintf("after the query batch and %d more blocks the store digest %s differs from the node that never answered a query (%s)", len(w.tail), n.KV.Digest(), tr.digest)})
		case nodecheck.DiffRows(tr.events, te)+nodecheck.DiffRows(tr.transfers, tt) != "":
			tailOK = false
			vio = append(vio, violation{Sig: "tail-import-differs-after-queries", Reader: "quiescence", What: "log db after the tail differs: " + nodecheck.DiffRows(tr.events, te) + nodecheck.DiffRows(tr.transfers, tt)})
		}
	}
	return map[string]any{"tail_blocks": len(w.tail), "tail_equals_reference": tailOK, "queries": batch, "call_simulations": sims, "digest": d1, "writes": l1, "log_rows": len(e1) + len(t1), "api_4xx": q.api4xx}, vio
}

// traceOf merges importer events and the kept reader groups by stamp.
func (w *world) traceOf(si, ri int, rc *runCtx, readers []*reader, names *trace.Interner, blocksCfg map[string]any) []trace.Ev {
	type line struct {
		t  uint64
		ev trace.Ev
	}
	nm := func(id thor.Bytes32) string {
		if id.IsZero() {
			return "none"
		}
		if _, ok := blocksCfg[names.Name(id[:])]; !ok {
			// a block only this run produced (it diverged from the reference node): take its facts from the node
			sum, err := rc.node.Repo.GetBlockSummary(id)
			if err != nil {
				return "unknown-" + fmt.Sprintf("%x", id[28:])
			}
			p := sum.Header.ParentID()
			blocksCfg[names.Name(id[:])] = map[string]any{"p": names.Name(p[:]), "n": sum.Header.Number()}
		}
		return names.Name(id[:])
	}
	var ls []line
	for _, ev := range rc.imp {
		e := trace.Ev{"e": ev.e, "b": nm(ev.b), "t": ev.t}
		switch ev.e {
		case "Skip":
			e["why"] = ev.why
		case "W":
			e["cls"] = ev.cls
			switch ev.cls {
			case "state":
				e["last"], e["best"] = ev.last, ev.best
			case "blk":
				e["best"] = ev.best
			case "q", "fin":
				e["f"] = "none"
				if ev.hasF {
					e["f"] = nm(ev.f)
				}
			}
		case "Done":
			e["best"], e["fin"] = nm(ev.bestID), nm(ev.finID)
		case "Fail":
			e["err"] = ev.err
		}
		ls = append(ls, line{ev.t, e})
	}
	for _, fw := range rc.foreign {
		ls = append(ls, line{fw.T, trace.Ev{"e": "QW", "cls": fw.Class, "t": fw.T}})
	}
	for _, r := range readers {
		rn := fmt.Sprintf("r%d", r.id)
		for _, g := range r.groups {
			if g.fin {
				ls = append(ls, line{g.s, trace.Ev{"e": "FS", "r": rn, "t": g.s}})
				ls = append(ls, line{g.e, trace.Ev{"e": "FE", "r": rn, "f": nm(g.b), "ok": g.ok, "t": g.e}})
				continue
			}
			ls = append(ls, line{g.s, trace.Ev{"e": "OS", "r": rn, "t": g.s}})
			ls = append(ls, line{g.e, trace.Ev{"e": "OE", "r": rn, "b": nm(g.b), "t": g.e, "ph": phaseNames[g.phase]}})
			for _, rd := range g.reads {
				ls = append(ls, line{rd.t, trace.Ev{"e": "RD", "r": rn, "b": nm(g.b), "k": rd.k, "n": rd.n, "ok": rd.ok, "got": nm(rd.got), "t": rd.t}})
			}
		}
	}
	sort.SliceStable(ls, func(i, j int) bool { return ls[i].t < ls[j].t })
	out := []trace.Ev{{"e": "Reset", "g": nm(w.net.B0.Header().ID()), "stream": si, "run": ri, "seed": w.seed}}
	for _, l := range ls {
		out = append(out, l.ev)
	}
	return out
}

// tryBuildStream: a packer failure with an unreadable committed trie is returned, everything else stays a harness panic.
func tryBuildStream(seed int64, blocks int, pos bool) (w *world, merr error) {
	defer func() {
		if x := recover(); x != nil {
			if me, ok := x.(mintError); ok && strings.Contains(me.err.Error(), "missing trie node") {
				w, merr = nil, me.err
				return
			}
			panic(x)
		}
	}()
	return buildStream(seed, blocks, pos), nil
}
