package main

import (
	"fmt"
	"math/big"
	"math/rand"

	"github.com/vechain/thor/v2/block"
	"github.com/vechain/thor/v2/builtin"
	"github.com/vechain/thor/v2/thor"
	"github.com/vechain/thor/v2/tx"

	"verifharness/internal/sim"
)

// world is one pre-minted block stream plus everything the readers may compare against (filled by the reference run).
type world struct {
	seed    int64
	net     *sim.Net
	stream  []*block.Block
	propose int // blocks the node under test produces itself after the stream
	rng     *rand.Rand

	uAddr thor.Address   // the storage/event test contract deployed in the first block
	accts []thor.Address // accounts whose balance / energy / code the readers query
	slots []thor.Bytes32 // storage keys of uAddr the readers query
	txs   []*tx.Transaction

	poolTxs   tx.Transactions // what the node's pool offers when it packs (typed and legacy)
	poolNext  int             // importer goroutine only
	packAfter []int           // per stream position: 0 nothing, 1 pack an own block after it, 2 pack on a stale flow
	tail      []*block.Block  // delivered after the quiescent query batch
	trunk     []*block.Block
	mint      func(parent *block.Block, who int, com bool, txs []*tx.Transaction) *block.Block
	late      int // length of the late branch that bft.Accepts has to refuse

	facts   map[thor.Bytes32]*bfact // read-only once the concurrent phase starts
	order   []thor.Bytes32          // genesis, then first-stored order of the reference run
	ref     refResult
	refViol []violation // observed by the sequential probes of the reference run
}

type acctExp struct {
	Balance, Energy string
	HasCode         bool
}

// bfact: what the reference node (same stream, no readers) stored for a block.
type bfact struct {
	id, parent  thor.Bytes32
	num         uint32
	ts          uint64
	txIDs       []thor.Bytes32
	anc         []thor.Bytes32 // anc[n] = id of the ancestor at height n, anc[num] = id
	stateDigest string
	stateRoot   thor.Bytes32
	accounts    int
	acct        []acctExp      // per world.accts
	slotVals    []thor.Bytes32 // per world.slots (storage of uAddr)
	code        string         // hex code of uAddr
}

type refResult struct {
	best, fin  thor.Bytes32
	digest     string
	events     []string
	transfers  []string
	classes    map[thor.Bytes32]string // import outcome per stream block
	justified  thor.Bytes32
	tail       *refResult // the same after the tail was imported
	quals      map[thor.Bytes32]uint32
	everBest   map[thor.Bytes32]bool
	finalities []thor.Bytes32          // successive finalized values
	seq        []impEv                 // Done / Skip events of the reference run, in order
	tally      map[thor.Bytes32]uint32 // bft quality of each block as the reference engine computed it
}

// mintError: the real packer (on the omniscient stack, no concurrency) failed to pack a block from valid inputs.
type mintError struct{ err error }

func must(err error) {
	if err != nil {
		panic(err)
	}
}

// buildStream mints a block tree with transactions (VET and VTHO transfers, a contract with storage and events) on the
// omniscient stack and fixes the delivery order: a trunk, siblings delivered at once or late, side branches of up to
// three blocks that take over as best and lose again, across several epochs (E = 3).
func buildStream(seed int64, blocks int, pos bool) *world {
	rng := rand.New(rand.NewSource(seed))
	E := uint32(3)
	net := sim.NewNet(sim.Options{Validators: 4, Nodes: 1, EpochLength: E, PoS: pos, ExtraAccts: 3})
	w := &world{seed: seed, net: net, rng: rng, facts: map[thor.Bytes32]*bfact{}}
	tag := net.God.Repo.ChainTag()
	nonce := uint64(seed) << 20
	build := func(parent *block.Block, from int, cl *tx.Clause) *tx.Transaction {
		nonce++
		var t *tx.Transaction
		if nonce%3 == 0 { // typed (dynamic fee) transaction
			t = tx.NewBuilder(tx.TypeDynamicFee).ChainTag(tag).BlockRef(tx.NewBlockRef(parent.Header().Number())).Expiration(1000).
				Gas(1_000_000).MaxFeePerGas(big.NewInt(1_000_000_000_000_000)).MaxPriorityFeePerGas(big.NewInt(int64(nonce % 1000))).Nonce(nonce).Clause(cl).Build()
		} else {
			t = tx.NewBuilder(tx.TypeLegacy).ChainTag(tag).BlockRef(tx.NewBlockRef(parent.Header().Number())).Expiration(1000).
				Gas(1_000_000).GasPriceCoef(0).Nonce(nonce).Clause(cl).Build()
		}
		return tx.MustSign(t, net.Devs[from].PrivateKey)
	}
	// the contract is deployed by the very first transaction of the trunk
	deploy := build(net.B0, 4, tx.NewClause(nil).WithData(sim.InitCode(sim.UCode(), big.NewInt(1), big.NewInt(7))))
	w.uAddr = thor.CreateContractAddress(deploy.ID(), 0, 0)
	for i := 0; i < 7; i++ {
		w.accts = append(w.accts, net.Devs[i].Address)
	}
	w.accts = append(w.accts, w.uAddr, builtin.Energy.Address)
	for k := int64(1); k <= 6; k++ {
		w.slots = append(w.slots, thor.BytesToBytes32(big.NewInt(k).Bytes()))
	}
	mkTx := func(parent *block.Block) *tx.Transaction {
		from := 4 + rng.Intn(3)
		to := net.Devs[rng.Intn(7)].Address
		var cl *tx.Clause
		switch rng.Intn(4) {
		case 0:
			cl = tx.NewClause(&to).WithValue(big.NewInt(int64(1 + rng.Intn(1000))))
		case 1: // VTHO transfer through the energy contract: event
			m, _ := builtin.Energy.ABI.MethodByName("transfer")
			data, err := m.EncodeInput(to, big.NewInt(int64(1+rng.Intn(1000))))
			must(err)
			cl = tx.NewClause(&builtin.Energy.Address).WithData(data)
		case 2: // storage write + LOG1 in the test contract (a no-op call before it exists on this branch)
			cl = tx.NewClause(&w.uAddr).WithData(sim.UCall(sim.OpStore, big.NewInt(int64(1+rng.Intn(6))), big.NewInt(int64(rng.Intn(5)))))
		default: // clears three slots / sends VET along
			cl = tx.NewClause(&w.uAddr).WithData(sim.UCall(sim.OpClear, big.NewInt(int64(1+rng.Intn(4))))).WithValue(big.NewInt(int64(rng.Intn(3))))
		}
		t := build(parent, from, cl)
		w.txs = append(w.txs, t)
		return t
	}
	used := map[string]bool{}
	path := map[thor.Bytes32]string{net.B0.Header().ID(): ""}
	mint := func(parent *block.Block, who int, com bool, txs []*tx.Transaction) *block.Block {
		key := fmt.Sprint(path[parent.Header().ID()], "/", who, com)
		if used[key] {
			return nil
		}
		blk, err := net.Mint(parent.Header().ID(), who, com, 0, txs...)
		if err != nil {
			panic(mintError{fmt.Errorf("packing block %d on %s (signer %d, %d txs): %w", parent.Header().Number()+1, short(parent.Header().ID()), who, len(txs), err)})
		}
		used[key] = true
		path[blk.Header().ID()] = key
		return blk
	}
	someTxs := func(parent *block.Block, reuse []*tx.Transaction) []*tx.Transaction {
		var out []*tx.Transaction
		if len(reuse) > 0 && rng.Intn(2) == 0 {
			out = append(out, reuse[0]) // the same transaction on two branches
		}
		for n := rng.Intn(4); n > 0; n-- {
			out = append(out, mkTx(parent))
		}
		return out
	}
	trunk := []*block.Block{net.B0}
	var pendingSide []*block.Block
	for len(trunk) <= blocks {
		parent := trunk[len(trunk)-1]
		num := parent.Header().Number() + 1
		who := int(num) % 3 // three of the four validators sign the trunk: > 2/3 of 4
		if rng.Intn(6) == 0 {
			who = 3
		}
		com := num >= 2*E && rng.Intn(8) != 0
		var txs []*tx.Transaction
		if num == 1 {
			txs = []*tx.Transaction{deploy}
			w.txs = append(w.txs, deploy)
		} else {
			txs = someTxs(parent, nil)
		}
		blk := mint(parent, who, com, txs)
		if blk == nil {
			continue
		}
		trunk = append(trunk, blk)
		w.stream = append(w.stream, blk)
		if num > 1 && rng.Intn(3) == 0 {
			// a side branch from the same parent: another signer, other transactions (sometimes one shared)
			sw := (who + 1 + rng.Intn(3)) % 4
			if s := mint(parent, sw, rng.Intn(2) == 0, someTxs(parent, txs)); s != nil {
				side := []*block.Block{s}
				for d := rng.Intn(3); d > 0; d-- {
					last := side[len(side)-1]
					n := mint(last, (sw+len(side))%4, rng.Intn(2) == 0, someTxs(last, nil))
					if n == nil {
						break
					}
					side = append(side, n)
				}
				if rng.Intn(3) != 0 {
					w.stream = append(w.stream, side...)
				} else {
					pendingSide = append(pendingSide, side...)
				}
			}
		}
		if len(pendingSide) > 0 && rng.Intn(3) == 0 {
			w.stream = append(w.stream, pendingSide...)
			pendingSide = nil
		}
	}
	w.stream = append(w.stream, pendingSide...)
	// what the node's own pool offers whenever it packs: long-lived typed and legacy transactions
	for k := 0; k < 3*(len(w.stream)+8); k++ {
		to := net.Devs[rng.Intn(7)].Address
		cl := tx.NewClause(&to).WithValue(big.NewInt(int64(1 + rng.Intn(1000))))
		if k%4 == 1 {
			cl = tx.NewClause(&w.uAddr).WithData(sim.UCall(sim.OpStore, big.NewInt(int64(1+rng.Intn(6))), big.NewInt(int64(10+rng.Intn(5)))))
		}
		nonce++
		b := tx.NewBuilder(tx.TypeLegacy).GasPriceCoef(0)
		if k%2 == 0 {
			b = tx.NewBuilder(tx.TypeDynamicFee).MaxFeePerGas(big.NewInt(1_000_000_000_000_000)).MaxPriorityFeePerGas(big.NewInt(int64(k)))
		}
		t := b.ChainTag(tag).BlockRef(tx.NewBlockRef(0)).Expiration(100000).Gas(1_000_000).Nonce(nonce).Clause(cl).Build()
		w.poolTxs = append(w.poolTxs, tx.MustSign(t, net.Devs[4+k%3].PrivateKey))
	}
	// a tail of the trunk across two more epochs, delivered only after the quiescent query batch
	last := trunk[len(trunk)-1]
	for k := 0; k < 7; k++ {
		num := last.Header().Number() + 1
		b := mint(last, int(num)%3, true, someTxs(last, nil))
		if b == nil {
			break
		}
		w.tail = append(w.tail, b)
		last = b
	}
	w.trunk, w.mint = trunk, mint
	return w
}

// planPacking fixes (from the seed) after which stream positions the node packs a block of its own.
func (w *world) planPacking() {
	w.packAfter = make([]int, len(w.stream))
	for i := range w.packAfter {
		switch w.rng.Intn(9) {
		case 0:
			w.packAfter[i] = 1
		case 1:
			w.packAfter[i] = 2
		}
	}
}

// addLateBranch inserts, right after the stream position at which a scratch node first finalizes a non-genesis
// checkpoint F, a branch that forks BELOW F and carries COM votes of three validators: bft.Accepts must refuse all of
// it - if it were imported, its own commits would move the finalized checkpoint sideways.
func (w *world) addLateBranch(dir string) error {
	n, err := openStack(w.net, dir, false)
	if err != nil {
		return err
	}
	defer closeStack(n)
	pos, fnum := -1, uint32(0)
	for i, blk := range w.stream {
		if class, err := n.Deliver(blk); class == "error" {
			return fmt.Errorf("dry run: block %d: %v", blk.Header().Number(), err)
		}
		if f := block.Number(n.BFT.Finalized()); f >= 3 {
			pos, fnum = i, f
			break
		}
	}
	if pos < 0 || int(fnum) >= len(w.trunk) {
		return nil // this stream never finalizes: no late branch
	}
	last := w.trunk[fnum-2]
	var branch []*block.Block
	for h := fnum - 1; h < fnum+6; h++ {
		b := w.mint(last, 1+int(h)%3, true, nil)
		if b == nil {
			break
		}
		branch = append(branch, b)
		last = b
	}
	w.late = len(branch)
	w.stream = append(w.stream[:pos+1], append(branch, w.stream[pos+1:]...)...)
	return nil
}
