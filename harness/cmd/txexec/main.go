// txexec binds specs/exec/TxExec.tla to runtime.ExecuteTransaction and packer.Flow (C07).
//
//	txexec -out <dir> -seed S [-scn scenarios.json] [-sweep N] [-packer]
//
// For every scenario (exported by TLC from MC_TxExec, or generated here for the gas sweep) it
//   - builds the pre-state (payer facts: delegation, credit plan, sponsor, balances) and commits it,
//   - compiles the clause kinds to calls into real contracts and signs a real transaction (legacy or dynamic fee),
//   - executes it with runtime.ExecuteTransaction on a real state.State and commits the result,
//   - obtains the RAW per-clause outcome (leftover gas, refund counter, VM error) from Runtime.PrepareClause on a
//     second copy of the pre-state (the exported clause API, not the transaction loop under test),
//   - dumps the FULL state (every account-trie leaf, every storage-trie leaf) before and after, and decides whether the
//     post-state is  pre + all clause effects  ("all"),  pre + nothing ("none")  or neither ("other"), where the only
//     keys exempt from the exact comparison are payer energy, beneficiary energy, the energy contract's
//     total-add-sub slot and the user-credit slot; their deltas are logged as numbers,
//   - writes one Tx event for Trace_TxExec.tla, which recomputes everything the rules determine.
//
// -packer additionally drives packer.Flow: a transaction that cannot start must leave the flow untouched (same block
// as without it), and a block's gas used is the sum of its receipts and within its limit.
package main

import (
	"bytes"
	"crypto/ecdsa"
	"encoding/hex"
	"encoding/json"
	"flag"
	"fmt"
	"math"
	"math/big"
	"math/rand"
	"os"
	"path/filepath"
	"sort"
	"strings"

	"github.com/ethereum/go-ethereum/common"
	"github.com/ethereum/go-ethereum/crypto"
	"github.com/ethereum/go-ethereum/rlp"

	"github.com/vechain/thor/v2/builtin"
	"github.com/vechain/thor/v2/chain"
	"github.com/vechain/thor/v2/genesis"
	"github.com/vechain/thor/v2/muxdb"
	"github.com/vechain/thor/v2/packer"
	"github.com/vechain/thor/v2/runtime"
	"github.com/vechain/thor/v2/state"
	"github.com/vechain/thor/v2/thor"
	"github.com/vechain/thor/v2/trie"
	"github.com/vechain/thor/v2/tx"
	"github.com/vechain/thor/v2/vm"
	"github.com/vechain/thor/v2/xenv"

	"verifharness/internal/sim"
	"verifharness/internal/trace"
)

func must(err error) {
	if err != nil {
		panic(err)
	}
}

// ioMust: trouble with the harness' own files is infrastructure (exit 3), never an observation on the real code
func ioMust(err error) {
	if err != nil {
		harnessError("i/o: %v", err)
	}
}

func harnessError(f string, a ...any) {
	fmt.Println("HARNESS-ERROR " + fmt.Sprintf(f, a...))
	os.Exit(3)
}

// ---------------------------------------------------------------------------------------------------- world

var (
	e18       = big.NewInt(1e18)
	rich      = new(big.Int).Mul(big.NewInt(1_000_000), e18)
	addrU1    = thor.MustParseAddress("0x00000000000000000000000000000000000000a1")
	addrU2    = thor.MustParseAddress("0x00000000000000000000000000000000000000a2")
	addrU3    = thor.MustParseAddress("0x00000000000000000000000000000000000000a3")
	addrSDS   = thor.MustParseAddress("0x00000000000000000000000000000000000000a4")
	addrR     = thor.MustParseAddress("0x00000000000000000000000000000000000000b1")
	blockGas  = uint64(10_000_000)
	launch    = uint64(1_700_000_000)
	blockTime = launch + 100
)

type world struct {
	name   string // "pre" | "post"
	fc     *thor.ForkConfig
	db     *muxdb.MuxDB
	stater *state.Stater
	repo   *chain.Repository
	chain  *chain.Chain
	root0  trie.Root
	ctx    *xenv.BlockContext
	devs   []genesis.DevAccount
	poor   *ecdsa.PrivateKey
	commit uint32 // commit counter -> trie minor versions
	tag    byte
	stop   uint64       // energy growth stop time of this world (MaxUint64: growth never stops)
	benef  thor.Address // block beneficiary of the current session (role coincidences: = origin, = sponsor)
	pos    int          // position of the current tx in its block (values written depend on it)
}

func (w *world) O() genesis.DevAccount { return w.devs[1] }
func (w *world) D() genesis.DevAccount { return w.devs[2] }
func (w *world) S() genesis.DevAccount { return w.devs[3] }
func (w *world) B() thor.Address       { return w.benef }

func hexOrDec(v *big.Int) *genesis.HexOrDecimal256 { return (*genesis.HexOrDecimal256)(v) }

func newWorld(name string) *world {
	// worlds: "pre" (before GALACTICA), "post" (after it), "fork" (the executed block IS the GALACTICA block: runtime.New
	// installs the fork's contracts and precompiles), "hay" (HAYABUSA active from genesis: energy growth stopped at launch
	// although the accounts hold VET)
	fc := &thor.ForkConfig{}
	fc.HAYABUSA = math.MaxUint32
	switch name {
	case "pre":
		fc.GALACTICA = math.MaxUint32
	case "fork":
		fc.GALACTICA = 1
	case "hay":
		fc.HAYABUSA = 0
	}
	devs := genesis.DevAccounts()
	var accs []genesis.Account
	for i := 0; i < 6; i++ {
		accs = append(accs, genesis.Account{Address: devs[i].Address, Balance: hexOrDec(rich), Energy: hexOrDec(rich)})
	}
	ucode := "0x" + hex.EncodeToString(sim.UCode())
	seven := thor.BytesToBytes32([]byte{7})
	accs = append(accs,
		genesis.Account{Address: addrU1, Balance: hexOrDec(big.NewInt(0)), Energy: hexOrDec(rich), Code: ucode,
			Storage: map[string]thor.Bytes32{
				thor.BytesToBytes32([]byte{100}).String(): seven,
				thor.BytesToBytes32([]byte{101}).String(): seven,
				thor.BytesToBytes32([]byte{102}).String(): seven,
			}},
		genesis.Account{Address: addrU2, Balance: hexOrDec(big.NewInt(0)), Energy: hexOrDec(big.NewInt(0)), Code: ucode},
		genesis.Account{Address: addrU3, Balance: hexOrDec(new(big.Int).Mul(big.NewInt(5), e18)), Energy: hexOrDec(big.NewInt(555)), Code: ucode},
		genesis.Account{Address: addrSDS, Balance: hexOrDec(new(big.Int).Mul(big.NewInt(3), e18)), Energy: hexOrDec(big.NewInt(777)),
			Code: "0x" + hex.EncodeToString(sim.SelfDestructSelfCode())},
	)
	mbp := uint64(1)
	g, err := genesis.NewCustomNet(&genesis.CustomGenesis{
		LaunchTime: launch,
		GasLimit:   blockGas,
		Accounts:   accs,
		Authority:  []genesis.Authority{{MasterAddress: devs[0].Address, EndorsorAddress: devs[0].Address, Identity: thor.BytesToBytes32([]byte("m"))}},
		Params:     genesis.Params{ExecutorAddress: &devs[0].Address, MaxBlockProposers: &mbp},
		ForkConfig: fc,
	})
	must(err)
	db := muxdb.NewMem()
	stater := state.NewStater(db)
	b0, _, _, err := g.Build(stater)
	must(err)
	repo, err := chain.NewRepository(db, b0)
	must(err)
	w := &world{name: name, fc: fc, db: db, stater: stater, repo: repo, devs: devs, tag: repo.ChainTag()}
	w.chain = repo.NewChain(b0.Header().ID())
	w.root0 = trie.Root{Hash: b0.Header().StateRoot(), Ver: trie.Version{Major: 0, Minor: 0}}
	w.benef = devs[4].Address
	w.ctx = &xenv.BlockContext{Beneficiary: w.benef, Signer: devs[0].Address, Number: 1, Time: blockTime, GasLimit: blockGas, TotalScore: 1}
	switch name {
	case "post", "hay":
		w.ctx.BaseFee = new(big.Int).Mul(big.NewInt(thor.InitialBaseFee), big.NewInt(3))
	case "fork":
		w.ctx.BaseFee = big.NewInt(thor.InitialBaseFee)
	}
	w.stop = math.MaxUint64
	if raw, err := w.stater.NewState(w.root0).GetRawStorage(builtin.Energy.Address, thor.Blake2b([]byte("growth-stop-time"))); err == nil && len(raw) > 0 {
		var t uint64
		must(rlp.DecodeBytes(raw, &t))
		if t != 0 {
			w.stop = t
		}
	}
	if (name == "hay") != (w.stop != math.MaxUint64) {
		harnessError("world %s: unexpected growth stop time %d", name, w.stop)
	}
	pk, err := crypto.ToECDSA(thor.Blake2b([]byte("poor origin")).Bytes())
	must(err)
	w.poor = pk
	return w
}

func (w *world) commitState(st *state.State, major uint32) trie.Root {
	w.commit++
	ver := trie.Version{Major: major, Minor: w.commit}
	stage, err := st.Stage(ver)
	must(err)
	h, err := stage.Commit()
	must(err)
	return trie.Root{Hash: h, Ver: ver}
}

// ---------------------------------------------------------------------------------------------------- dumps

type acct struct {
	Bal     *big.Int
	Energy  *big.Int // evaluated at the block time with the reference growth formula
	Master  string
	Code    string
	Storage map[string]string // hashed key -> raw value (hex)
}

type dump map[string]*acct // hashed account key -> content

// refEnergy is the reference growth formula (state/account.go documents it; written independently here):
// energy + floor((min(t, stop) - last) * balance * 5e9 / 1e18) when last != 0, balance != 0, t > last, last < stop.
func refEnergy(a *state.Account, t, stop uint64) *big.Int {
	e := new(big.Int).Set(a.Energy)
	if a.BlockTime == 0 || a.Balance.Sign() == 0 || t <= a.BlockTime || a.BlockTime >= stop {
		return e
	}
	end := t
	if stop < end {
		end = stop
	}
	g := new(big.Int).SetUint64(end - a.BlockTime)
	g.Mul(g, a.Balance)
	g.Mul(g, big.NewInt(5_000_000_000))
	g.Div(g, e18)
	return e.Add(e, g)
}

func (w *world) dump(root trie.Root) dump {
	d := dump{}
	err := sim.WalkAccounts(w.db, root, func(l *sim.Leaf) error {
		a := &acct{Bal: new(big.Int).Set(l.Acc.Balance), Energy: refEnergy(&l.Acc, blockTime, w.stop),
			Master: hex.EncodeToString(l.Acc.Master), Code: hex.EncodeToString(l.Acc.CodeHash), Storage: map[string]string{}}
		if err := sim.WalkStorage(w.db, l, func(hk thor.Bytes32, _ []byte, raw []byte) error {
			a.Storage[hex.EncodeToString(hk[:])] = hex.EncodeToString(raw)
			return nil
		}); err != nil {
			return err
		}
		d[hex.EncodeToString(l.Key[:])] = a
		return nil
	})
	must(err)
	return d
}

func (d dump) clone() dump {
	o := dump{}
	for k, a := range d {
		c := &acct{Bal: new(big.Int).Set(a.Bal), Energy: new(big.Int).Set(a.Energy), Master: a.Master, Code: a.Code, Storage: map[string]string{}}
		for sk, sv := range a.Storage {
			c.Storage[sk] = sv
		}
		o[k] = c
	}
	return o
}

func akey(a thor.Address) string { return hex.EncodeToString(thor.Blake2b(a[:]).Bytes()) }
func skey(k thor.Bytes32) string { return hex.EncodeToString(thor.Blake2b(k[:]).Bytes()) }

func (d dump) get(a thor.Address) *acct {
	k := akey(a)
	if x, ok := d[k]; ok {
		return x
	}
	x := &acct{Bal: new(big.Int), Energy: new(big.Int), Storage: map[string]string{}}
	d[k] = x
	return x
}

// normalize drops empty accounts (the state deletes them) and the storage of accounts without any.
func (d dump) normalize() {
	for k, a := range d {
		if a.Bal.Sign() == 0 && a.Energy.Sign() == 0 && a.Master == "" && a.Code == "" {
			delete(d, k)
		}
	}
}

// exempt keys: "E:<acct>" energy of an account, "S:<acct>:<slot>" a storage slot
type exempt map[string]bool

// diff lists the differences between two dumps, ignoring exempt keys (at most max entries, sorted).
func diff(want, got dump, ex exempt, max int) []string {
	var out []string
	keys := map[string]bool{}
	for k := range want {
		keys[k] = true
	}
	for k := range got {
		keys[k] = true
	}
	empty := &acct{Bal: new(big.Int), Energy: new(big.Int), Storage: map[string]string{}}
	for k := range keys {
		a, b := want[k], got[k]
		if a == nil {
			a = empty
		}
		if b == nil {
			b = empty
		}
		if a.Bal.Cmp(b.Bal) != 0 {
			out = append(out, fmt.Sprintf("%s.balance want %v got %v", k[:8], a.Bal, b.Bal))
		}
		if a.Energy.Cmp(b.Energy) != 0 && !ex["E:"+k] {
			out = append(out, fmt.Sprintf("%s.energy want %v got %v", k[:8], a.Energy, b.Energy))
		}
		if a.Master != b.Master {
			out = append(out, fmt.Sprintf("%s.master want %s got %s", k[:8], a.Master, b.Master))
		}
		if a.Code != b.Code {
			out = append(out, fmt.Sprintf("%s.code want %s got %s", k[:8], a.Code, b.Code))
		}
		sk := map[string]bool{}
		for s := range a.Storage {
			sk[s] = true
		}
		for s := range b.Storage {
			sk[s] = true
		}
		for s := range sk {
			if a.Storage[s] != b.Storage[s] && !ex["S:"+k+":"+s] {
				out = append(out, fmt.Sprintf("%s.storage[%s] want %q got %q", k[:8], s[:8], a.Storage[s], b.Storage[s]))
			}
		}
	}
	sort.Strings(out)
	if len(out) > max {
		out = append(out[:max], fmt.Sprintf("... %d more", len(out)-max))
	}
	return out
}

// ---------------------------------------------------------------------------------------------------- scenarios

type facts struct {
	Delegated     bool `json:"delegated"`
	DelegFunds    bool `json:"delegFunds"`
	CommonTo      bool `json:"commonTo"`
	CreditGE      bool `json:"creditGE"`
	SponsorSel    bool `json:"sponsorSel"`
	SponsorFunds  bool `json:"sponsorFunds"`
	ContractFunds bool `json:"contractFunds"`
	OriginFunds   bool `json:"originFunds"`
}

type scenario struct {
	ID     int      `json:"id"`
	Fam    string   `json:"fam"`   // "scn" (TLC export) | "sweep"
	Kinds  []string `json:"kinds"` // clause kinds
	TxType string   `json:"txtype"`
	Start  string   `json:"start"` // ok | badsig | lowgas | overlimit | lowprice
	Facts  facts    `json:"facts"` // commonTo is derived from the kinds by the spec; the driver re-derives and cross-checks
	Exp    *struct {
		Started  bool   `json:"started"`
		Payer    string `json:"payer"`
		Reverted bool   `json:"reverted"`
		Nout     int    `json:"nout"`
		Applied  string `json:"applied"`
	} `json:"exp,omitempty"`
	Gas uint64 `json:"gas,omitempty"` // sweep: explicit gas
}

// kind table: class = expected raw outcome (ok | errkeep | errall), target = U | other | nil
type kindInfo struct{ class, target string }

var kindTable = map[string]kindInfo{
	"store": {"ok", "U"}, "storeval": {"ok", "U"}, "nest": {"ok", "U"}, "nestok": {"ok", "U"}, "nestinv": {"ok", "U"},
	"clear": {"ok", "U"}, "send": {"ok", "U"}, "ecall": {"ok", "U"},
	"xfer": {"ok", "other"}, "energy": {"ok", "other"}, "sd": {"ok", "other"}, "sdself": {"ok", "other"}, "create": {"ok", "nil"},
	"sdben": {"ok", "other"}, "nest3sd": {"ok", "U"}, "diesd": {"errkeep", "other"},
	"nestcreate": {"ok", "U"}, "nestcreate2": {"ok", "U"},
	"revert": {"errkeep", "U"}, "nestdie": {"errkeep", "U"}, "xferfail": {"errkeep", "other"}, "createfail": {"errkeep", "nil"},
	"invalid": {"errall", "U"}, "oog": {"errall", "U"},
}

func word(n int64) *big.Int { return big.NewInt(n) }

func b32(n int64) thor.Bytes32 { return thor.BytesToBytes32(big.NewInt(n).Bytes()) }

func rawStorage(v int64) string {
	b, err := rlp.EncodeToBytes(bytes.TrimLeft(b32(v).Bytes(), "\x00"))
	must(err)
	return hex.EncodeToString(b)
}

// clause i of kind k -> real clause and its reference effect on a dump, plus expected (events, transfers)
type compiled struct {
	clause *tx.Clause
	// apply performs the reference effect of the clause on d (state-aware: e.g. a second self-destruct of the same
	// contract finds no code) and returns the expected number of events and transfers of the clause's output
	apply func(d dump, txID thor.Bytes32, idx int) (events, xfers int)
}

func (w *world) compile(kind string, i int) compiled {
	k := int64(1000 + 10*i)        // storage key used by clause i
	v := int64(40 + i + 100*w.pos) // later txs of a block write the SAME slots with other values
	val := big.NewInt(int64(1000 + i))
	energyAbi, _ := builtin.Energy.ABI.MethodByName("transfer")
	setU := func(d dump, a thor.Address, key, value int64) { d.get(a).Storage[skey(b32(key))] = rawStorage(value) }
	move := func(d dump, from, to thor.Address, amt *big.Int) {
		d.get(from).Bal.Sub(d.get(from).Bal, amt)
		d.get(to).Bal.Add(d.get(to).Bal, amt)
	}
	moveE := func(d dump, from, to thor.Address, amt *big.Int) {
		d.get(from).Energy.Sub(d.get(from).Energy, amt)
		d.get(to).Energy.Add(d.get(to).Energy, amt)
	}
	O := w.O().Address
	switch kind {
	case "store":
		return compiled{tx.NewClause(&addrU1).WithData(sim.UCall(sim.OpStore, word(k), word(v))),
			func(d dump, _ thor.Bytes32, _ int) (int, int) { setU(d, addrU1, k, v); return 1, 0 }}
	case "storeval":
		return compiled{tx.NewClause(&addrU1).WithValue(val).WithData(sim.UCall(sim.OpStore, word(k), word(v))),
			func(d dump, _ thor.Bytes32, _ int) (int, int) {
				setU(d, addrU1, k, v)
				move(d, O, addrU1, val)
				return 1, 1
			}}
	case "nest", "nestok", "nestinv":
		inner := map[string]int{"nest": sim.OpRevert, "nestok": sim.OpStore, "nestinv": sim.OpInvalid}[kind]
		return compiled{tx.NewClause(&addrU1).WithData(sim.UCall(sim.OpNest, word(k), word(v), sim.AddrWord(addrU2), word(int64(inner)))),
			func(d dump, _ thor.Bytes32, _ int) (int, int) {
				setU(d, addrU1, k, v)
				setU(d, addrU1, k+1, v)
				if kind == "nestok" {
					setU(d, addrU2, k, v)
					return 1, 0
				}
				return 0, 0
			}}
	case "nestdie":
		return compiled{tx.NewClause(&addrU1).WithData(sim.UCall(sim.OpNestDie, word(k), word(v), sim.AddrWord(addrU2), word(sim.OpStore))), nil}
	case "clear":
		return compiled{tx.NewClause(&addrU1).WithData(sim.UCall(sim.OpClear, word(100))),
			func(d dump, _ thor.Bytes32, _ int) (int, int) {
				for s := int64(100); s < 103; s++ {
					delete(d.get(addrU1).Storage, skey(b32(s)))
				}
				return 0, 0
			}}
	case "send": // the clause funds U1 with val and U1 forwards it to R
		return compiled{tx.NewClause(&addrU1).WithValue(val).WithData(sim.UCall(sim.OpSend, sim.AddrWord(addrR), val)),
			func(d dump, _ thor.Bytes32, _ int) (int, int) { move(d, O, addrR, val); return 0, 2 }}
	case "ecall":
		return compiled{tx.NewClause(&addrU1).WithData(sim.UCall(sim.OpEnergy, sim.AddrWord(addrR), val)),
			func(d dump, _ thor.Bytes32, _ int) (int, int) { moveE(d, addrU1, addrR, val); return 1, 0 }}
	case "xfer":
		return compiled{tx.NewClause(&addrR).WithValue(val), func(d dump, _ thor.Bytes32, _ int) (int, int) { move(d, O, addrR, val); return 0, 1 }}
	case "xferfail":
		return compiled{tx.NewClause(&addrR).WithValue(new(big.Int).Mul(rich, big.NewInt(1000))), nil}
	case "energy":
		data, err := energyAbi.EncodeInput(addrR, val)
		must(err)
		return compiled{tx.NewClause(&builtin.Energy.Address).WithData(data),
			func(d dump, _ thor.Bytes32, _ int) (int, int) { moveE(d, O, addrR, val); return 1, 0 }}
	case "sd":
		return compiled{tx.NewClause(&addrU3).WithData(sim.UCall(sim.OpDestroy, sim.AddrWord(addrR))),
			func(d dump, _ thor.Bytes32, _ int) (int, int) {
				u, ok := d[akey(addrU3)]
				if !ok || u.Code == "" {
					return 0, 0 // already destructed earlier in this tx: a call to an account without code
				}
				r := d.get(addrR)
				ev, tr := 0, 0
				if u.Energy.Sign() != 0 {
					ev = 1
				}
				if u.Bal.Sign() != 0 {
					tr = 1
				}
				r.Bal.Add(r.Bal, u.Bal)
				r.Energy.Add(r.Energy, u.Energy)
				delete(d, akey(addrU3))
				return ev, tr
			}}
	case "sdben":
		// an energy-holding contract self-destructs to the BLOCK BENEFICIARY, which was already touched in this block (its
		// energy is read without growth): a later failing clause must take the energy back from it
		return compiled{tx.NewClause(&addrU3).WithData(sim.UCall(sim.OpDestroy, sim.AddrWord(w.B()))),
			func(d dump, _ thor.Bytes32, _ int) (int, int) {
				u, ok := d[akey(addrU3)]
				if !ok || u.Code == "" {
					return 0, 0
				}
				r := d.get(w.B())
				ev, tr := 0, 0
				if u.Energy.Sign() != 0 {
					ev = 1
				}
				if u.Bal.Sign() != 0 {
					tr = 1
				}
				r.Bal.Add(r.Bal, u.Bal)
				r.Energy.Add(r.Energy, u.Energy)
				delete(d, akey(addrU3))
				return ev, tr
			}}
	case "nest3sd":
		// U1 -> U2 (stores, calls U3 which self-destructs to the beneficiary, then REVERTs) -> back in U1, which goes on:
		// the self-destruct happened inside a reverting INNER frame, the tx succeeds; only U1's two writes remain
		bw := sim.AddrWord(w.B())
		return compiled{tx.NewClause(&addrU1).WithData(sim.UCall(sim.OpNest3, bw, word(v), sim.AddrWord(addrU2), word(sim.OpNestDie),
			sim.AddrWord(addrU3), word(sim.OpDestroy))),
			func(d dump, _ thor.Bytes32, _ int) (int, int) {
				k0 := thor.BytesToBytes32(bw.Bytes())
				k1 := thor.BytesToBytes32(new(big.Int).Add(bw, big.NewInt(1)).Bytes())
				d.get(addrU1).Storage[skey(k0)] = rawStorage(v)
				d.get(addrU1).Storage[skey(k1)] = rawStorage(v)
				return 0, 0
			}}
	case "nestcreate", "nestcreate2":
		// U1 -> U2 (100000 gas): U2 stores, then CREATEs / CREATE2s a child whose constructor writes storage and logs but
		// returns more code than the remaining gas can pay for (code-store out of gas); U2 ignores the failure and STOPs.
		// A failed creation frame is a failed frame like any other: no trace of the child may remain.
		op := map[string]int{"nestcreate": sim.OpCreate, "nestcreate2": sim.OpCreate2}[kind]
		return compiled{tx.NewClause(&addrU1).WithData(sim.UCall(sim.OpNest3, word(k), word(v), sim.AddrWord(addrU2), word(int64(op)), word(0), word(0))),
			func(d dump, _ thor.Bytes32, _ int) (int, int) {
				setU(d, addrU1, k, v)
				setU(d, addrU1, k+1, v)
				setU(d, addrU2, k, v)
				return 0, 0
			}}
	case "diesd": // U2 stores, calls U3 (self-destruct to the beneficiary), then REVERTs: the clause fails after the destruct
		return compiled{tx.NewClause(&addrU2).WithData(sim.UCall(sim.OpNestDie, sim.AddrWord(w.B()), word(v), sim.AddrWord(addrU3), word(sim.OpDestroy))), nil}
	case "sdself": // finding F3: the value and the contract's own balance and energy vanish with the account
		return compiled{tx.NewClause(&addrSDS).WithValue(val),
			func(d dump, _ thor.Bytes32, _ int) (int, int) {
				u, ok := d[akey(addrSDS)]
				if !ok || u.Code == "" {
					move(d, O, addrSDS, val) // destructed earlier in this tx: a plain transfer to a code-less account
					return 0, 1
				}
				d.get(O).Bal.Sub(d.get(O).Bal, val)
				delete(d, akey(addrSDS))
				return 1, 2
			}}
	case "create":
		code := []byte{0x00}
		return compiled{tx.NewClause(nil).WithData(sim.InitCode(code, word(k), word(v))),
			func(d dump, id thor.Bytes32, idx int) (int, int) {
				a := thor.CreateContractAddress(id, uint32(idx), 0)
				c := d.get(a)
				c.Master = hex.EncodeToString(O[:])
				c.Code = hex.EncodeToString(crypto.Keccak256(code))
				c.Storage[skey(b32(k))] = rawStorage(v)
				return 1, 0
			}}
	case "createfail":
		return compiled{tx.NewClause(nil).WithData(sim.RevertingInitCode(word(k), word(v))), nil}
	case "revert":
		return compiled{tx.NewClause(&addrU1).WithData(sim.UCall(sim.OpRevert, word(k), word(v))), nil}
	case "invalid":
		return compiled{tx.NewClause(&addrU1).WithData(sim.UCall(sim.OpInvalid, word(k), word(v))), nil}
	case "oog":
		return compiled{tx.NewClause(&addrU1).WithData(sim.UCall(sim.OpLoop, word(k), word(v))), nil}
	}
	harnessError("unknown clause kind %q", kind)
	return compiled{}
}

// applyFacts prepares the payer facts in the pre-state. "GE" facts compare with the prepaid amount of this tx.
func (w *world) applyFacts(st *state.State, f facts, origin thor.Address) {
	en := func(a thor.Address, has bool) {
		v := new(big.Int)
		if has {
			v.Set(rich)
		}
		must(st.SetEnergy(a, v, blockTime))
	}
	en(origin, f.OriginFunds)
	en(w.D().Address, f.DelegFunds)
	en(w.S().Address, f.SponsorFunds)
	en(addrU1, f.ContractFunds)
	if !f.ContractFunds {
		// far below any prepaid amount, but enough for the "ecall" clause kind (the contract forwards ~1000 wei)
		must(st.SetEnergy(addrU1, big.NewInt(1_000_000), blockTime))
	}
	// the block beneficiary has already been touched in this block (as after an earlier tx's reward)
	if w.B() != origin && w.B() != w.S().Address && w.B() != w.D().Address {
		must(st.SetEnergy(w.B(), big.NewInt(123_456_789), blockTime))
	}
	b := builtin.Prototype.Native(st).Bind(addrU1)
	if f.CreditGE {
		must(b.SetCreditPlan(rich, big.NewInt(1)))
	} else {
		must(b.SetCreditPlan(big.NewInt(1), big.NewInt(0))) // 1 wei of credit: below any prepaid amount
	}
	must(b.AddUser(origin, blockTime))
	if f.SponsorSel {
		must(b.Sponsor(w.S().Address, true))
		b.SelectSponsor(w.S().Address)
	}
}

type rawOut struct {
	In   uint64 `json:"in"`
	Left uint64 `json:"left"`
	Ctr  uint64 `json:"ctr"`
	Err  bool   `json:"err"`
	What string `json:"what,omitempty"`
}

func limbs(v *big.Int) []int { return trace.Limbs(v) }

func (w *world) newRuntime(root trie.Root) (*runtime.Runtime, *state.State) {
	st := w.stater.NewState(root)
	ctx := *w.ctx
	if w.ctx.BaseFee != nil {
		ctx.BaseFee = new(big.Int).Set(w.ctx.BaseFee)
	}
	return runtime.New(w.chain, st, &ctx, w.fc), st
}

// gasTracer observes, from INSIDE the real transaction loop, the gas handed to each clause and the gas left after it
// (refund applied). Only the two clause-level callbacks are used; the interpreter is not put into debug mode.
type gasTracer struct{ ins, outs []uint64 }

func (t *gasTracer) CaptureClauseStart(gasLimit uint64) { t.ins = append(t.ins, gasLimit) }
func (t *gasTracer) CaptureClauseEnd(restGas uint64)    { t.outs = append(t.outs, restGas) }
func (t *gasTracer) CaptureStart(*vm.EVM, common.Address, common.Address, bool, []byte, uint64, *big.Int) {
}
func (t *gasTracer) CaptureEnd([]byte, uint64, error) {}
func (t *gasTracer) CaptureEnter(vm.OpCode, common.Address, common.Address, []byte, uint64, *big.Int) {
}
func (t *gasTracer) CaptureExit([]byte, uint64, error) {}
func (t *gasTracer) CaptureState(uint64, vm.OpCode, uint64, uint64, *vm.Memory, *vm.Stack, *vm.Contract, []byte, int, error) {
}
func (t *gasTracer) CaptureFault(uint64, vm.OpCode, uint64, uint64, *vm.Memory, *vm.Stack, *vm.Contract, int, error) {
}

// session: ONE runtime over ONE state, as inside a block. Transactions run one after the other; after each the state is
// snapshotted (Stage + Commit under a fresh trie version; the State object itself goes on unchanged).
type session struct {
	w    *world
	st   *state.State
	rt   *runtime.Runtime
	tr   *gasTracer
	snap trie.Root
	dump dump
	pos  int
	role string
}

// open prepares the payer facts, builds the runtime (which, in the fork world, installs the fork's contracts) and takes
// the first snapshot. role: "" | "pb" (beneficiary = origin) | "sb" (beneficiary = sponsor).
func (w *world) open(f facts, role string) *session {
	w.benef = w.devs[4].Address
	switch role {
	case "pb":
		w.benef = w.O().Address
	case "sb":
		w.benef = w.S().Address
	}
	w.ctx.Beneficiary = w.benef
	st0 := w.stater.NewState(w.root0)
	w.applyFacts(st0, f, w.O().Address)
	base := w.commitState(st0, 1)
	rt, st := w.newRuntime(base)
	tr := &gasTracer{}
	rt.SetVMConfig(vm.Config{Tracer: tr})
	s := &session{w: w, st: st, rt: rt, tr: tr, role: role}
	s.snap = w.commitState(st, 2)
	s.dump = w.dump(s.snap)
	return s
}

type result struct {
	ev      trace.Ev
	obs     map[string]any
	f3      bool
	notes   []string
	nontriv string
}

// run executes one scenario.
func (s *session) run(sc *scenario, rng *rand.Rand) (res result) {
	w := s.w
	w.pos = s.pos
	defer func() { s.pos++ }()
	originKey := w.O().PrivateKey
	origin := w.O().Address
	n := len(sc.Kinds)
	comp := make([]compiled, n)
	builder := tx.NewBuilder(tx.TypeLegacy)
	if sc.TxType == "dyn" {
		builder = tx.NewBuilder(tx.TypeDynamicFee)
	}
	common := n > 0
	for i, k := range sc.Kinds {
		comp[i] = w.compile(k, i)
		builder.Clause(comp[i].clause)
		if kindTable[k].target != "U" {
			common = false
		}
	}
	if common != sc.Facts.CommonTo {
		harnessError("scenario %d: commonTo derived %v, scenario says %v", sc.ID, common, sc.Facts.CommonTo)
	}
	coef := uint8(rng.Intn(256))
	maxPrio := big.NewInt(int64(rng.Intn(5)) * 1_000_000_000_000)
	maxFee := new(big.Int)
	if w.ctx.BaseFee != nil {
		maxFee.Add(w.ctx.BaseFee, big.NewInt(int64(rng.Intn(4))*1_500_000_000_000)) // sometimes below baseFee + maxPrio
	}
	if sc.Start == "lowprice" {
		maxFee.Sub(w.ctx.BaseFee, big.NewInt(1))
		if maxPrio.Cmp(maxFee) > 0 {
			maxPrio.SetInt64(0)
		}
	}
	if sc.TxType == "dyn" {
		if maxPrio.Cmp(maxFee) > 0 {
			maxPrio.Set(maxFee)
		}
		builder.MaxFeePerGas(maxFee).MaxPriorityFeePerGas(maxPrio)
	} else {
		builder.GasPriceCoef(coef)
	}
	builder.ChainTag(w.tag).BlockRef(tx.NewBlockRef(0)).Expiration(1000).Nonce(rng.Uint64())
	if sc.Facts.Delegated {
		builder.Features(tx.DelegationFeature)
	}
	// intrinsic gas of the clause list (the builder needs gas first: compute from a throw-away tx)
	probe := builder.Gas(0).Build()
	intr, err := probe.IntrinsicGas()
	must(err)
	gas := intr + 300_000
	switch {
	case sc.Gas != 0:
		gas = sc.Gas
	case sc.Start == "lowgas":
		gas = intr - 1
	case sc.Start == "overlimit":
		gas = blockGas + 1
	}
	body := builder.Gas(gas).Build()
	var trx *tx.Transaction
	if sc.Facts.Delegated {
		trx = tx.MustSignDelegated(body, originKey, w.D().PrivateKey)
	} else {
		trx = tx.MustSign(body, originKey)
	}
	sigok := true
	if sc.Start == "badsig" {
		sig := append([]byte(nil), trx.Signature()...)
		sig[64] = 9 // invalid recovery id
		trx = body.WithSignature(sig)
		sigok = false
	}

	// ---- pre-state: the snapshot after the previous tx of this block
	pre := s.snap
	preDump := s.dump

	legacyBase, err := builtin.Params.Native(w.stater.NewState(pre)).Get(thor.KeyLegacyTxBaseGasPrice)
	must(err)
	ratio, err := builtin.Params.Native(w.stater.NewState(pre)).Get(thor.KeyRewardRatio)
	must(err)

	ev := trace.Ev{"e": "Tx", "id": sc.ID, "fam": sc.Fam, "world": w.name, "n": n, "kinds": sc.Kinds, "gas": gas, "intr": intr,
		"limit": blockGas, "sigok": sigok, "facts": sc.Facts, "start": sc.Start, "pos": s.pos, "role": s.role,
		"fee": feeFields(trx, w.ctx.BaseFee, legacyBase, ratio, coef)}
	res.ev = ev

	// ---- execute on the real runtime
	rt, stA := s.rt, s.st
	s.tr.ins, s.tr.outs = nil, nil
	var receipt *tx.Receipt
	var execErr error
	func() {
		defer func() {
			if e := recover(); e != nil {
				execErr = fmt.Errorf("PANIC: %v", e)
				ev["panic"] = fmt.Sprint(e)
			}
		}()
		receipt, execErr = rt.ExecuteTransaction(trx)
	}()
	post := w.commitState(stA, 2)
	postDump := w.dump(post)
	s.snap, s.dump = post, postDump

	if execErr != nil {
		ev["started"] = false
		ev["err"] = execErr.Error()
		d := diff(preDump, postDump, exempt{}, 6)
		ev["unchanged"] = len(d) == 0 && pre.Hash == post.Hash
		if len(d) > 0 {
			ev["diff"] = d
		}
		res.nontriv = "reject:" + sc.Start + ":" + classify(execErr.Error())
		return
	}
	ev["started"] = true

	// ---- raw clause outcomes on a copy of the pre-state, through the exported clause API. The gas handed to each clause
	// is the one OBSERVED inside the real loop (tracer), so the copy replays exactly what the loop did.
	ins := append([]uint64(nil), s.tr.ins...)
	ev["outs"] = append([]uint64{}, s.tr.outs...)
	rawFail := func(what string, err error) {
		ev["rawok"] = false
		ev["rawerr"] = fmt.Sprintf("%s: %v", what, err)
	}
	ev["rawok"], ev["classok"] = true, true
	rtB, stB := w.newRuntime(pre)
	var raws []rawOut
	price, prepaid := new(big.Int), new(big.Int)
	func() {
		defer func() {
			if e := recover(); e != nil {
				rawFail("panic", fmt.Errorf("%v", e))
			}
		}()
		resolved, err := runtime.ResolveTransaction(trx)
		if err != nil {
			rawFail("ResolveTransaction", err)
			return
		}
		var payerB thor.Address
		_, price, payerB, prepaid, _, err = resolved.BuyGas(stB, blockTime, w.ctx.BaseFee)
		if err != nil {
			price, prepaid = new(big.Int), new(big.Int)
			rawFail("BuyGas on the copy", err)
			return
		}
		txCtx, err := resolved.ToContext(price, payerB, w.ctx.Number, w.chain.GetBlockID)
		if err != nil {
			rawFail("ToContext", err)
			return
		}
		if new(big.Int).Div(txCtx.ProvedWork, big.NewInt(1000)).Sign() != 0 {
			harnessError("scenario %d has proved work; the fee rules of Trace_TxExec assume none", sc.ID)
		}
		for i := 0; i < n && i < len(ins); i++ {
			exec, _ := rtB.PrepareClause(resolved.Clauses[i], uint32(i), ins[i], txCtx)
			out, _, err := exec()
			if err != nil {
				rawFail(fmt.Sprintf("clause %d", i), err)
				return
			}
			r := rawOut{In: ins[i], Left: out.LeftOverGas, Ctr: out.RefundGas, Err: out.VMErr != nil}
			if out.VMErr != nil {
				r.What = out.VMErr.Error()
			}
			raws = append(raws, r)
			if out.VMErr != nil {
				break
			}
		}
	}()
	// a compiled kind that does not behave as its class says (REVERT that does not fail, INVALID that leaves gas ...) is a
	// deviation of the real EVM from what the scenario's clause is specified to do: the trace specification rejects it
	if sc.Fam == "scn" {
		for i, r := range raws {
			cl := kindTable[sc.Kinds[i]].class
			if (cl == "ok") == r.Err || (cl == "errall" && r.Left != 0) {
				ev["classok"] = false
				res.notes = append(res.notes, fmt.Sprintf("clause %d kind %s: raw outcome %+v does not match class %s", i, sc.Kinds[i], r, cl))
			}
		}
	}
	if raws == nil {
		raws = []rawOut{}
	}
	ev["raws"] = raws

	// ---- observed receipt
	payerKind := "other"
	switch receipt.GasPayer {
	case origin:
		payerKind = "origin"
	case w.D().Address:
		payerKind = "delegator"
	case w.S().Address:
		payerKind = "sponsor"
	case addrU1:
		payerKind = "contract"
	}
	ev["payer"] = payerKind
	ev["gasUsed"] = receipt.GasUsed
	ev["reverted"] = receipt.Reverted
	ev["nout"] = len(receipt.Outputs)
	ev["price"] = limbs(price)
	ev["paid"] = limbs(receipt.Paid)
	ev["reward"] = limbs(receipt.Reward)
	ev["prepaid"] = limbs(prepaid)
	// ---- state comparison: pre + all effects / pre + nothing, bookkeeping keys exempt
	ex := exempt{
		"E:" + akey(receipt.GasPayer): true,
		"E:" + akey(w.B()):            true,
		"S:" + akey(builtin.Energy.Address) + ":" + skey(thor.Blake2b([]byte("total-add-sub"))):                           true,
		"S:" + akey(builtin.Prototype.Address) + ":" + skey(thor.Blake2b(addrU1.Bytes(), origin.Bytes(), []byte("user"))): true,
	}
	wantAll := preDump.clone()
	outsOK := true
	for i := 0; i < n; i++ {
		if comp[i].apply != nil {
			wev, wtr := comp[i].apply(wantAll, trx.ID(), i)
			if !receipt.Reverted && i < len(receipt.Outputs) {
				if o := receipt.Outputs[i]; len(o.Events) != wev || len(o.Transfers) != wtr {
					outsOK = false
					res.notes = append(res.notes, fmt.Sprintf("clause %d (%s): %d events %d transfers, expected %d/%d", i, sc.Kinds[i],
						len(o.Events), len(o.Transfers), wev, wtr))
				}
			}
		}
	}
	ev["outsok"] = outsOK
	wantAll.normalize()
	wantNone := preDump.clone()
	wantNone.normalize()
	got := postDump.clone()
	got.normalize()
	dAll := diff(wantAll, got, ex, 6)
	dNone := diff(wantNone, got, ex, 6)
	applied := "other"
	switch {
	case len(dAll) == 0 && len(dNone) == 0:
		// the clauses have no effect on THIS pre-state (e.g. a second self-destruct of a contract an earlier tx already
		// destroyed): "all effects" and "no effect" are the same state, the question is void
		applied = map[bool]string{true: "none", false: "all"}[receipt.Reverted]
		ev["voidEffects"] = true
	case len(dAll) == 0:
		applied = "all"
	case len(dNone) == 0:
		applied = "none"
	}
	ev["applied"] = applied
	if applied == "other" {
		ev["diffAll"] = dAll
		ev["diffNone"] = dNone
	}
	// numbers behind the exempt keys, relative to the reference effect of the applied clauses
	ref := wantNone
	if applied == "all" {
		ref = wantAll
	}
	signed := func(name string, x *big.Int) {
		ev[name] = limbs(new(big.Int).Abs(x))
		ev[name+"Neg"] = x.Sign() < 0
	}
	pe := func(d dump, a thor.Address) *big.Int {
		if x, ok := d[akey(a)]; ok {
			return x.Energy
		}
		return new(big.Int)
	}
	signed("debit", new(big.Int).Sub(pe(ref, receipt.GasPayer), pe(got, receipt.GasPayer)))
	signed("credit", new(big.Int).Sub(pe(got, w.B()), pe(ref, w.B())))
	ev["pb"] = receipt.GasPayer == w.B() // payer and beneficiary coincide: one account carries -paid + reward
	add0, sub0 := totalAddSub(w.stater.NewState(pre))
	add1, sub1 := totalAddSub(w.stater.NewState(post))
	signed("addd", new(big.Int).Sub(add1, add0))
	signed("subd", new(big.Int).Sub(sub1, sub0))
	ev["used0"] = limbs(usedCredit(w.stater.NewState(pre), origin))
	ev["used1"] = limbs(usedCredit(w.stater.NewState(post), origin))

	for _, k := range sc.Kinds {
		if k == "sdself" {
			res.f3 = true
		}
	}
	cls := make([]string, len(raws))
	for i, r := range raws {
		switch {
		case !r.Err:
			cls[i] = "ok"
		case r.Left == 0:
			cls[i] = "errall"
		default:
			cls[i] = "errkeep"
		}
	}
	res.nontriv = fmt.Sprintf("%s:%s:%s:%s:%d:%s:%v", w.name, sc.TxType, payerKind, strings.Join(cls, ","), n, s.role, s.pos > 0)
	return
}

func classify(e string) string {
	for _, k := range []string{"insufficient energy", "intrinsic gas", "block gas limit", "base fee", "signature", "recovery", "PANIC"} {
		if strings.Contains(e, k) {
			return k
		}
	}
	return "other"
}

func totalAddSub(st *state.State) (*big.Int, *big.Int) {
	var v struct{ TotalAdd, TotalSub *big.Int }
	v.TotalAdd, v.TotalSub = new(big.Int), new(big.Int)
	raw, err := st.GetRawStorage(builtin.Energy.Address, thor.Blake2b([]byte("total-add-sub")))
	must(err)
	if len(raw) > 0 {
		must(rlp.DecodeBytes(raw, &v))
	}
	return v.TotalAdd, v.TotalSub
}

func usedCredit(st *state.State, user thor.Address) *big.Int {
	var v struct {
		UsedCredit *big.Int
		BlockTime  uint64
	}
	v.UsedCredit = new(big.Int)
	raw, err := st.GetRawStorage(builtin.Prototype.Address, thor.Blake2b(addrU1.Bytes(), user.Bytes(), []byte("user")))
	must(err)
	if len(raw) > 0 {
		must(rlp.DecodeBytes(raw, &v))
	}
	return v.UsedCredit
}

// feeFields logs what the fee rules of the spec need: the tx's fee fields and the chain parameters.
func feeFields(t *tx.Transaction, baseFee, legacyBase, ratio *big.Int, coef uint8) map[string]any {
	f := map[string]any{"legacyBase": limbs(legacyBase), "ratio": limbs(ratio), "gal": baseFee != nil, "work": []int{}, "gas": t.Gas()}
	if baseFee != nil {
		f["baseFee"] = limbs(baseFee)
	} else {
		f["baseFee"] = []int{}
	}
	if t.Type() == tx.TypeLegacy {
		f["type"] = "legacy"
		f["coef"] = int(t.GasPriceCoef())
		f["maxFee"], f["maxPrio"] = []int{}, []int{}
	} else {
		f["type"] = "dyn"
		f["coef"] = 0
		f["maxFee"] = limbs(t.MaxFeePerGas())
		f["maxPrio"] = limbs(t.MaxPriorityFeePerGas())
	}
	return f
}

// ---------------------------------------------------------------------------------------------------- packer level

// packerRuns: (a) a tx that cannot start leaves the flow untouched: the block packed with it offered equals the block
// packed without it; (b) admission respects the block gas limit and the header's gas used is the sum of the receipts.
func packerRuns(seed int64, evs *[]trace.Ev) (runs int) {
	for _, gal := range []bool{false, true} {
		n := sim.NewNetX(sim.Options{Validators: 2, Nodes: 1, NoGalactica: !gal, ExtraAccts: 4}, sim.Extra{
			GasLimit: 4_000_000,
			Accounts: []genesis.Account{{Address: addrU1, Balance: hexOrDec(big.NewInt(0)), Energy: hexOrDec(rich),
				Code: "0x" + hex.EncodeToString(sim.UCode())}},
		})
		rng := rand.New(rand.NewSource(seed))
		g := n.God
		tag := g.Repo.ChainTag()
		poor, _ := crypto.ToECDSA(thor.Blake2b([]byte("poor origin")).Bytes())
		mk := func(key *ecdsa.PrivateKey, gas uint64, cl *tx.Clause, mut string) *tx.Transaction {
			typ := tx.TypeLegacy
			if gal && rng.Intn(2) == 0 {
				typ = tx.TypeDynamicFee
			}
			b := tx.NewBuilder(typ).ChainTag(tag).BlockRef(tx.NewBlockRef(0)).Expiration(1000).Nonce(rng.Uint64()).Gas(gas).Clause(cl)
			if typ == tx.TypeDynamicFee {
				b.MaxFeePerGas(big.NewInt(thor.InitialBaseFee * 10)).MaxPriorityFeePerGas(big.NewInt(1000))
			}
			t := tx.MustSign(b.Build(), key)
			if mut == "badsig" {
				sig := append([]byte(nil), t.Signature()...)
				sig[64] = 9
				t = b.Build().WithSignature(sig)
			}
			return t
		}
		store := func(i int64) *tx.Clause {
			return tx.NewClause(&addrU1).WithData(sim.UCall(sim.OpStore, word(i), word(i+1)))
		}
		loop := func(i int64) *tx.Clause {
			return tx.NewClause(&addrU1).WithData(sim.UCall(sim.OpLoop, word(i), word(i+1)))
		}
		parent := g.Repo.BestBlockSummary()
		for round := 0; round < 4; round++ {
			good1 := mk(n.Devs[2].PrivateKey, 100_000, store(int64(round*10+1)), "")
			good2 := mk(n.Devs[3].PrivateKey, 100_000, tx.NewClause(&addrR).WithValue(big.NewInt(int64(1000+round))), "")
			bads := map[string]*tx.Transaction{
				"noenergy": mk(poor, 100_000, store(5), ""),
				"lowgas":   mk(n.Devs[4].PrivateKey, 21_000, store(6), ""), // below intrinsic (21000 + data gas)
				"badsig":   mk(n.Devs[4].PrivateKey, 100_000, store(7), "badsig"),
				// passes every static check and the gas purchase, then the runtime ABORTS (execution error, not a VM error):
				// a read-only frame reaches the energy builtin's state-changing native method
				"execabort": mk(n.Devs[5].PrivateKey, 200_000, tx.NewClause(&addrU1).WithData(sim.UCall(sim.OpStatic, sim.AddrWord(addrR), word(1000))), ""),
			}
			names := []string{"noenergy", "lowgas", "badsig", "execabort"}
			who := round % 2
			pack := func(offer []*tx.Transaction) (thor.Bytes32, thor.Bytes32, []string, uint64, []uint64, uint64, []map[string]any) {
				acc := n.Devs[who]
				p := packer.New(g.Repo, g.Stater, acc.Address, &acc.Address, n.FC, 0)
				flow, err := p.Schedule(parent, parent.Header.Timestamp()+thor.BlockInterval())
				must(err)
				var errs []string
				var adopt []map[string]any
				for _, t := range offer {
					err := flow.Adopt(t)
					adopt = append(adopt, map[string]any{"gas": t.Gas(), "ok": err == nil})
					if err != nil {
						errs = append(errs, err.Error())
					} else {
						errs = append(errs, "")
					}
				}
				blk, _, receipts, err := flow.Pack(acc.PrivateKey, 0, false)
				must(err)
				var gu []uint64
				used, k := uint64(0), 0
				for _, a := range adopt { // running gas used before each offered tx, from the receipts of the adopted ones
					a["before"] = used
					if a["ok"].(bool) {
						used += receipts[k].GasUsed
						k++
					}
				}
				for _, r := range receipts {
					gu = append(gu, r.GasUsed)
				}
				return blk.Header().StateRoot(), blk.Header().ReceiptsRoot(), errs, blk.Header().GasUsed(), gu, blk.Header().GasLimit(), adopt
			}
			rootB, rcB, _, _, _, _, _ := pack([]*tx.Transaction{good1, good2})
			for _, nm := range names {
				rootA, rcA, errs, _, _, _, _ := pack([]*tx.Transaction{good1, bads[nm], good2})
				*evs = append(*evs, trace.Ev{"e": "Adopt", "world": map[bool]string{false: "pre", true: "post"}[gal], "bad": nm,
					"refused": errs[1] != "", "err": errs[1], "sameState": rootA == rootB, "sameReceipts": rcA == rcB})
				runs++
			}
			// (b) fill the block: looping txs use all their gas
			var offer []*tx.Transaction
			for i := 0; i < 6; i++ {
				gas := uint64(600_000 + 150_000*rng.Intn(5))
				cl := loop(int64(100 + i))
				if rng.Intn(3) == 0 {
					cl = store(int64(100 + i))
				}
				offer = append(offer, mk(n.Devs[2+i%4].PrivateKey, gas, cl, ""))
			}
			_, _, _, hdrUsed, gu, limit, adopt := pack(offer)
			*evs = append(*evs, trace.Ev{"e": "Block", "world": map[bool]string{false: "pre", true: "post"}[gal], "limit": limit,
				"gasUsed": hdrUsed, "rcpts": gu, "adopt": adopt})
			runs++
			// advance the chain with a real block
			blk, err := n.Mint(parent.Header.ID(), who, false, 0, good1, good2)
			must(err)
			if _, err := n.Nodes[0].Deliver(blk); err != nil {
				harnessError("node refused an honestly packed block: %v", err)
			}
			parent, err = g.Repo.GetBlockSummary(blk.Header().ID())
			must(err)
		}
		n.Close()
	}
	return
}

// ---------------------------------------------------------------------------------------------------- main

func main() {
	out := flag.String("out", ".", "output directory")
	seed := flag.Int64("seed", 1, "seed")
	scnPath := flag.String("scn", "", "scenarios exported by TLC (json array)")
	sweep := flag.Int("sweep", 0, "number of gas-sweep scenarios generated here")
	doPacker := flag.Bool("packer", false, "run the packer-level checks")
	blkPath := flag.String("blk", "", "blocks: json array of {ids, world, role}; listed scenarios run in sequence on one runtime")
	flag.Parse()
	ioMust(os.MkdirAll(*out, 0o755))
	rng := rand.New(rand.NewSource(*seed))

	var scns []*scenario
	if *scnPath != "" {
		b, err := os.ReadFile(*scnPath)
		ioMust(err)
		ioMust(json.Unmarshal(b, &scns))
	}
	// gas sweep: a few shapes, gas from the intrinsic gas upwards in uneven steps
	shapes := [][]string{{"store"}, {"clear"}, {"store", "clear"}, {"storeval", "nestok", "store"}, {"nest", "store"},
		{"create", "store"}, {"xfer", "sdself"}, {"clear", "revert"}, {"send", "ecall"}, {"sd", "store"}, {"nestinv"}, {"energy", "clear"}}
	id := 1_000_000
	for i := 0; i < *sweep; i++ {
		sh := shapes[i%len(shapes)]
		common := true
		for _, k := range sh {
			if kindTable[k].target != "U" {
				common = false
			}
		}
		step := []uint64{0, 1, 700, 2_300, 5_000, 5_001, 9_000, 15_000, 20_000, 21_000, 26_000, 33_000, 45_000, 60_000, 90_000, 140_000}
		extra := step[(i/len(shapes))%len(step)] + uint64(rng.Intn(3))*uint64(rng.Intn(400))
		f := facts{OriginFunds: true, CommonTo: common}
		switch rng.Intn(4) {
		case 1:
			f.Delegated, f.DelegFunds = true, true
		case 2:
			f.CreditGE, f.SponsorSel, f.SponsorFunds = true, true, true
		case 3:
			f.CreditGE, f.ContractFunds = true, true
		}
		id++
		scns = append(scns, &scenario{ID: id, Fam: "sweep", Kinds: sh, TxType: []string{"legacy", "dyn"}[rng.Intn(2)], Start: "ok",
			Facts: f, Gas: math.MaxUint64 - extra}) // marker: resolved to intrinsic+extra below
	}

	worlds := map[string]*world{"pre": newWorld("pre"), "post": newWorld("post"), "fork": newWorld("fork"), "hay": newWorld("hay")}
	// blocks: scenarios that run one after the other on ONE runtime / ONE state; everything else runs as a block of one
	type blockSpec struct {
		IDs   []int  `json:"ids"`
		World string `json:"world"`
		Role  string `json:"role"`
	}
	var blocks []blockSpec
	if *blkPath != "" {
		b, err := os.ReadFile(*blkPath)
		ioMust(err)
		ioMust(json.Unmarshal(b, &blocks))
	}
	byID := map[int]*scenario{}
	inBlock := map[int]bool{}
	for _, sc := range scns {
		byID[sc.ID] = sc
	}
	for _, b := range blocks {
		for _, id := range b.IDs {
			inBlock[id] = true
		}
	}
	for _, sc := range scns {
		if inBlock[sc.ID] {
			continue
		}
		// singles rotate over the worlds that admit their tx type, and over the role coincidences
		var wn string
		if sc.TxType == "legacy" && sc.Start != "lowprice" {
			wn = []string{"pre", "post", "pre", "hay", "pre", "fork"}[sc.ID%6]
		} else {
			wn = []string{"post", "hay", "post", "fork"}[sc.ID%4]
		}
		role := ""
		if sc.Fam == "scn" {
			role = []string{"", "", "", "pb", "", "sb", ""}[sc.ID%7]
		}
		blocks = append(blocks, blockSpec{IDs: []int{sc.ID}, World: wn, Role: role})
	}
	stateFacts := func(f facts) facts { f.Delegated, f.CommonTo = false, false; return f }
	var evs []trace.Ev
	evs = append(evs, trace.Ev{"e": "Reset"})
	classes := map[string]int{}
	f3runs, multi := 0, 0
	var observed []map[string]any
	for bi, b := range blocks {
		w := worlds[b.World]
		if w == nil {
			harnessError("block %d: unknown world %q", bi, b.World)
		}
		first := byID[b.IDs[0]]
		ses := w.open(first.Facts, b.Role)
		if len(b.IDs) > 1 {
			multi++
		}
		for _, id := range b.IDs {
			sc := byID[id]
			if sc == nil {
				harnessError("block %d: unknown scenario %d", bi, id)
			}
			if stateFacts(sc.Facts) != stateFacts(first.Facts) {
				harnessError("block %d: scenario %d needs another pre-state than the block's first tx", bi, id)
			}
			if sc.Fam == "sweep" {
				// resolve the marker: gas = intrinsic + extra
				extra := math.MaxUint64 - sc.Gas
				bld := tx.NewBuilder(tx.TypeLegacy)
				for i, k := range sc.Kinds {
					bld.Clause(w.compile(k, i).clause)
				}
				intr, _ := bld.Build().IntrinsicGas()
				sc.Gas = intr + extra
			}
			r := ses.run(sc, rng)
			r.ev["blk"] = bi
			if len(r.notes) > 0 {
				r.ev["notes"] = r.notes
			}
			evs = append(evs, r.ev)
			classes[r.nontriv]++
			if r.f3 {
				f3runs++
			}
			if sc.Exp != nil {
				observed = append(observed, map[string]any{"id": sc.ID, "started": r.ev["started"], "payer": r.ev["payer"],
					"reverted": r.ev["reverted"], "nout": r.ev["nout"], "applied": r.ev["applied"]})
			}
		}
	}
	prun := 0
	if *doPacker {
		prun = packerRuns(*seed, &evs)
	}
	for i, e := range evs {
		e["seq"] = i
	}
	evs = append(evs, trace.Ev{"e": "End", "seq": len(evs), "count": len(evs)})
	ioMust(trace.WriteNDJSON(filepath.Join(*out, "trace.ndjson"), evs))
	ob, _ := json.Marshal(observed)
	ioMust(os.WriteFile(filepath.Join(*out, "observed.json"), ob, 0o644))
	var cls []string
	for k := range classes {
		cls = append(cls, k)
	}
	sort.Strings(cls)
	sum := map[string]any{"txs": len(scns), "packerRuns": prun, "classes": cls, "distinct": len(cls), "f3runs": f3runs, "multiTxBlocks": multi}
	sb, _ := json.Marshal(sum)
	ioMust(os.WriteFile(filepath.Join(*out, "summary.json"), sb, 0o644))
	fmt.Println(string(sb))
}
