package main

// build.go - construction of REAL blocks from explicit field values:
//   - hdrF: every header field incl. the extension (alpha / COM / base fee) and txsRootFeatures, turned into a
//     block.Header through the header's own RLP decoder (block.Builder cannot set a wrong txs root);
//   - signing as packer/flow.go:Pack does it (signing hash -> ECDSA signature; after VIP-214 a VRF proof over alpha);
//   - prestate/execute: an executor transcribed from the PROPOSING side (packer.Schedule, schedulePOA/schedulePOS,
//     Flow.Pack) that has no admission rules: it yields gas used / receipts root / state root of ANY body, so that a
//     body mutant breaks only the rule it is about. It is validated on every base block (it must reproduce the header).

import (
	"bytes"
	"crypto/ecdsa"
	"errors"
	"fmt"
	"math/big"

	"github.com/ethereum/go-ethereum/crypto"
	"github.com/ethereum/go-ethereum/rlp"

	"github.com/vechain/thor/v2/block"
	"github.com/vechain/thor/v2/builtin"
	"github.com/vechain/thor/v2/chain"
	"github.com/vechain/thor/v2/runtime"
	"github.com/vechain/thor/v2/scheduler"
	"github.com/vechain/thor/v2/state"
	"github.com/vechain/thor/v2/thor"
	"github.com/vechain/thor/v2/trie"
	"github.com/vechain/thor/v2/tx"
	"github.com/vechain/thor/v2/vrf"
	"github.com/vechain/thor/v2/xenv"
)

// hdrF are the fields of a header.
type hdrF struct {
	Parent  thor.Bytes32
	TS, GL  uint64
	Benef   thor.Address
	GU      uint64
	Score   uint64
	TxsRoot thor.Bytes32
	Feat    uint32
	State   thor.Bytes32
	Rcpt    thor.Bytes32
	Sig     []byte
	Alpha   []byte
	COM     bool
	BaseFee *big.Int
}

func fieldsOf(h *block.Header) hdrF {
	return hdrF{Parent: h.ParentID(), TS: h.Timestamp(), GL: h.GasLimit(), Benef: h.Beneficiary(), GU: h.GasUsed(),
		Score: h.TotalScore(), TxsRoot: h.TxsRoot(), Feat: uint32(h.TxsFeatures()), State: h.StateRoot(), Rcpt: h.ReceiptsRoot(),
		Sig: h.Signature(), Alpha: append([]byte(nil), h.Alpha()...), COM: h.COM(), BaseFee: h.BaseFee()}
}

// encode gives the canonical RLP of the header (tail-trimmed extension, bare root when features == 0).
func (f *hdrF) encode() ([]byte, error) {
	var trf any = f.TxsRoot
	if f.Feat != 0 {
		trf = []any{f.TxsRoot, f.Feat}
	}
	items := []any{f.Parent, f.TS, f.GL, f.Benef, f.GU, f.Score, trf, f.State, f.Rcpt, f.Sig}
	switch {
	case f.BaseFee != nil:
		items = append(items, []any{f.Alpha, f.COM, f.BaseFee})
	case f.COM:
		items = append(items, []any{f.Alpha, f.COM})
	case len(f.Alpha) != 0:
		items = append(items, []any{f.Alpha})
	}
	return rlp.EncodeToBytes(items)
}

func (f *hdrF) header() (*block.Header, error) {
	raw, err := f.encode()
	if err != nil {
		return nil, err
	}
	var h block.Header
	if err := rlp.DecodeBytes(raw, &h); err != nil {
		return nil, err
	}
	return &h, nil
}

// signSpec says how the block is signed.
type signSpec struct {
	Key        *ecdsa.PrivateKey // ECDSA key (the proposer)
	VRF        bool              // append a VRF proof (VIP-214 format)
	ProofKey   *ecdsa.PrivateKey // key of the proof (nil: Key)
	ProofAlpha []byte            // alpha the proof is made over (nil: the header's alpha)
	Corrupt    int               // >0: flip one bit of byte (Corrupt-1) of the finished signature
	Trunc      int               // >0: keep only the first Trunc bytes; <0: append -Trunc zero bytes
	Raw        []byte            // if set: this is the signature, nothing else applies
	RawSet     bool
}

// sign produces the signature for the given fields (f.Sig is ignored).
func sign(f hdrF, s signSpec) ([]byte, error) {
	if s.RawSet {
		return s.Raw, nil
	}
	f.Sig = nil
	h, err := f.header()
	if err != nil {
		return nil, err
	}
	sig, err := crypto.Sign(h.SigningHash().Bytes(), s.Key)
	if err != nil {
		return nil, err
	}
	if s.VRF {
		pk := s.ProofKey
		if pk == nil {
			pk = s.Key
		}
		alpha := s.ProofAlpha
		if alpha == nil {
			alpha = f.Alpha
		}
		_, proof, err := vrf.Prove(pk, alpha)
		if err != nil {
			return nil, err
		}
		cs, err := block.NewComplexSignature(sig, proof)
		if err != nil {
			return nil, err
		}
		sig = cs
	}
	if s.Corrupt > 0 && s.Corrupt <= len(sig) {
		sig[s.Corrupt-1] ^= 0x01
	}
	if s.Trunc > 0 && s.Trunc <= len(sig) {
		sig = sig[:s.Trunc]
	} else if s.Trunc < 0 {
		sig = append(sig, make([]byte, -s.Trunc)...)
	}
	return sig, nil
}

// assemble builds the real block.
func assemble(f hdrF, txs tx.Transactions, s signSpec) (*block.Block, error) {
	sig, err := sign(f, s)
	if err != nil {
		return nil, err
	}
	f.Sig = sig
	h, err := f.header()
	if err != nil {
		return nil, err
	}
	return block.Compose(h, txs), nil
}

// ---------------------------------------------------------------------------------------------------------------
// environment oracle + executor (proposing side)

// pre is what the protocol fixes for (parent, signer, timestamp) before any transaction runs.
type pre struct {
	st         *state.State
	pos        bool
	authorised bool // signer is a listed proposer
	owns       bool // signer owns the slot at the timestamp
	score      uint64
	sbenef     *thor.Address // staker-set beneficiary of the signer (PoS)
	nprop      int
	allActive  bool
}

func (w *world) prestate(parent *chain.BlockSummary, signer thor.Address, ts uint64) (*pre, error) {
	g := w.net.God
	fc := w.net.FC
	st := g.Stater.NewState(parent.Root())
	num := parent.Header.Number() + 1
	cp := st.NewCheckpoint()
	staker := builtin.Staker.Native(st)
	status, err := staker.SyncPOS(fc, num)
	if err != nil {
		st.RevertTo(cp)
	}
	p := &pre{st: st, pos: status.Active}
	var sched scheduler.Scheduler
	if status.Active {
		seed, err := w.seeder.Generate(parent.Header.ID())
		if err != nil {
			return nil, err
		}
		leaders, err := staker.LeaderGroup()
		if err != nil {
			return nil, err
		}
		props := make([]scheduler.Proposer, 0, len(leaders))
		p.allActive = true
		for _, l := range leaders {
			if l.Address == signer && l.Beneficiary != nil {
				b := *l.Beneficiary
				p.sbenef = &b
			}
			if !l.Active {
				p.allActive = false
			}
			props = append(props, scheduler.Proposer{Address: l.Address, Active: l.Active, Weight: l.Weight})
		}
		p.nprop = len(props)
		_, weight, err := staker.LockedStake()
		if err != nil {
			return nil, err
		}
		sched, err = scheduler.NewPoSScheduler(signer, props, parent.Header.Number(), parent.Header.Timestamp(), seed, weight)
		if err != nil {
			return p, nil
		}
		p.authorised = true
		p.owns = sched.IsTheTime(ts)
		if p.owns {
			ups, score := sched.Updates(ts)
			p.score = score
			for _, u := range ups {
				if err := staker.SetOnline(u.Address, num, u.Active); err != nil {
					return nil, err
				}
			}
		}
		return p, nil
	}
	authority := builtin.Authority.Native(st)
	endorsement, err := builtin.Params.Native(st).Get(thor.KeyProposerEndorsement)
	if err != nil {
		return nil, err
	}
	mbp, err := thor.GetMaxBlockProposers(builtin.Params.Native(st), true)
	if err != nil {
		return nil, err
	}
	check := staker.TransitionPeriodBalanceCheck(fc, num, endorsement)
	if w.asIfEndorsed {
		// the view of a validator that did not notice that an endorsement was withdrawn
		check = func(master, endorser thor.Address) (bool, error) { return true, nil }
	}
	cands, err := authority.Candidates(check, mbp)
	if err != nil {
		return nil, err
	}
	props := make([]scheduler.Proposer, 0, len(cands))
	p.allActive = true
	for _, c := range cands {
		if !c.Active {
			p.allActive = false
		}
		props = append(props, scheduler.Proposer{Address: c.NodeMaster, Active: c.Active})
	}
	p.nprop = len(props)
	if num < fc.VIP214 {
		sched, err = scheduler.NewPoASchedulerV1(signer, props, parent.Header.Number(), parent.Header.Timestamp())
	} else {
		var seed []byte
		seed, err = w.seeder.Generate(parent.Header.ID())
		if err != nil {
			return nil, err
		}
		sched, err = scheduler.NewPoASchedulerV2(signer, props, parent.Header.Number(), parent.Header.Timestamp(), seed)
	}
	if err != nil {
		return p, nil
	}
	p.authorised = true
	p.owns = sched.IsTheTime(ts)
	if p.owns {
		ups, score := sched.Updates(ts)
		p.score = score
		for _, u := range ups {
			if _, err := authority.Update(u.Address, u.Active); err != nil {
				return nil, err
			}
		}
	}
	return p, nil
}

// execRes is the outcome of executing a body on the pre-state.
type execRes struct {
	ok        bool // every tx could start
	failIdx   int  // first tx that could not start (ok == false)
	failErr   string
	gasUsed   uint64
	perTx     []uint64
	reverted  []bool
	rcptRoot  thor.Bytes32
	stateRoot thor.Bytes32
	receipts  tx.Receipts
}

// execute runs txs with the block context taken from f on the pre-state of (parent, signer, f.TS).
// A panic of the executor itself (e.g. a typed tx without base fee - validation never executes such a tx) is returned
// as an error: the execution results of that body are then undefined.
func (w *world) execute(parent *chain.BlockSummary, signer thor.Address, f hdrF, txs tx.Transactions) (res *execRes, p *pre, err error) {
	defer func() {
		if r := recover(); r != nil {
			err = fmt.Errorf("executor panic: %v", r)
		}
	}()
	p, err = w.prestate(parent, signer, f.TS)
	if err != nil {
		return nil, nil, err
	}
	if !p.authorised || !p.owns {
		return nil, p, errors.New("no pre-state: signer does not own the slot")
	}
	g := w.net.God
	num := parent.Header.Number() + 1
	rt := runtime.New(g.Repo.NewChain(parent.Header.ID()), p.st, &xenv.BlockContext{Beneficiary: f.Benef, Signer: signer, Number: num,
		Time: f.TS, GasLimit: f.GL, TotalScore: f.Score, BaseFee: f.BaseFee}, w.net.FC)
	res = &execRes{ok: true, failIdx: -1}
	for i, t := range txs {
		rc, e := rt.ExecuteTransaction(t)
		if e != nil {
			res.ok, res.failIdx, res.failErr = false, i, e.Error()
			return res, p, nil
		}
		res.receipts = append(res.receipts, rc)
		res.gasUsed += rc.GasUsed
		res.perTx = append(res.perTx, rc.GasUsed)
		res.reverted = append(res.reverted, rc.Reverted)
	}
	if p.pos {
		staker := builtin.Staker.Native(p.st)
		energy := builtin.Energy.Native(p.st, f.TS)
		if err := energy.DistributeRewards(f.Benef, signer, staker, num); err != nil {
			return nil, p, err
		}
	}
	stage, err := p.st.Stage(trie.Version{Major: num, Minor: 1 << 20})
	if err != nil {
		return nil, p, err
	}
	res.rcptRoot = res.receipts.RootHash()
	res.stateRoot = stage.Hash()
	return res, p, nil
}

// expectedAlpha is the chained-VRF input of a child of parent (packer/flow.go:Pack).
func expectedAlpha(parent *block.Header) ([]byte, error) {
	beta, err := parent.Beta()
	if err != nil {
		return nil, err
	}
	if len(beta) == 0 {
		return parent.StateRoot().Bytes(), nil
	}
	return beta, nil
}

// vrfGood verifies the proof of a 146-byte signature with the trusted VRF library.
func vrfGood(h *block.Header) bool {
	sig := h.Signature()
	if len(sig) != block.ComplexSigSize {
		return false
	}
	pub, err := crypto.SigToPub(h.SigningHash().Bytes(), sig[:65])
	if err != nil {
		return false
	}
	_, err = vrf.Verify(pub, h.Alpha(), sig[65:])
	return err == nil
}

func sameBytes(a, b []byte) bool { return bytes.Equal(a, b) }
