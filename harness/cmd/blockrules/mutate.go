package main

// mutate.go - the Go side of the rule catalogue: for every (rule, variant) of specs/rules/BlockRules.tla the function
// that builds the REAL single-rule departure (or the declared NON-violation) from a valid base block.
// The `expect` written here is only the driver's own expectation; the verdict that counts is the one the
// specification derives from the projection of the finished block (project.go -> Trace_BlockRules.tla).

import (
	"crypto/ecdsa"
	"math"
	"math/big"

	"github.com/ethereum/go-ethereum/crypto"

	"github.com/vechain/thor/v2/block"
	"github.com/vechain/thor/v2/chain"
	"github.com/vechain/thor/v2/thor"
	"github.com/vechain/thor/v2/tx"
)

// mctx is one valid base block with its environment.
type mctx struct {
	w       *world
	base    *block.Block
	parent  *chain.BlockSummary
	num     uint32
	who     int // dev index of the base signer
	pre     *pre
	baseRes *execRes
}

// mut is a block under construction.
type mut struct {
	f                        hdrF
	txs                      tx.Transactions
	s                        signSpec
	stale                    bool // build with the proposer list of a validator that missed a withdrawn endorsement
	reexec                   bool // recompute gas used / receipts root / state root with the executor
	keepTxsRoot              bool
	pinGU, pinRcpt, pinState bool
}

type variant struct {
	rule, name string
	expect     string // accept | reject
	apply      func(c *mctx, m *mut) bool
}

func (c *mctx) fresh() *mut {
	return &mut{f: fieldsOf(c.base.Header()), txs: c.base.Transactions(),
		s: signSpec{Key: c.w.key(c.who), VRF: c.w.vip214At(c.num)}}
}

func (c *mctx) finalize(m *mut) (*block.Block, error) {
	if !m.keepTxsRoot {
		m.f.TxsRoot = m.txs.RootHash()
	}
	if m.reexec {
		signer := thor.Address(crypto.PubkeyToAddress(m.s.Key.PublicKey))
		c.w.asIfEndorsed = m.stale
		res, _, err := c.w.execute(c.parent, signer, m.f, m.txs)
		c.w.asIfEndorsed = false
		if err == nil && res.ok {
			if !m.pinGU {
				m.f.GU = res.gasUsed
			}
			if !m.pinRcpt {
				m.f.Rcpt = res.rcptRoot
			}
			if !m.pinState {
				m.f.State = res.stateRoot
			}
		}
	}
	return assemble(m.f, m.txs, m.s)
}

// room drops the block-filling transaction (nothing depends on it) so that appended transactions fit the gas limit.
func (c *mctx) room(m *mut) {
	if n := len(m.txs); c.w.prof.filler && n > 0 && m.txs[n-1].Gas() > 1_000_000 {
		m.txs = m.txs[:n-1:n-1]
	}
}

func h32(s string) thor.Bytes32 { return thor.Blake2b([]byte(s)) }

// crafted appends one crafted transaction to the base body and asks for re-execution.
func crafted(o func(c *mctx) (txOpt, bool)) func(c *mctx, m *mut) bool {
	return func(c *mctx, m *mut) bool {
		opt, ok := o(c)
		if !ok {
			return false
		}
		c.room(m)
		m.txs = append(m.txs, c.w.mkTx(opt))
		m.reexec = true
		return true
	}
}

func (c *mctx) otherValidator() int { return (c.who + 1) % nVal }

// ownSlotAfter is the first slot after t0 (exclusive) that signer owns, within 24 slots.
func (c *mctx) ownSlotAfter(signer thor.Address, t0 uint64) (uint64, *pre, bool) {
	T := thor.BlockInterval()
	for k := uint64(1); k <= 24; k++ {
		p, err := c.w.prestate(c.parent, signer, t0+k*T)
		if err != nil || !p.authorised {
			return 0, nil, false
		}
		if p.owns {
			return t0 + k*T, p, true
		}
	}
	return 0, nil, false
}

func catalogue() []variant {
	T := thor.BlockInterval()
	rej, acc := "reject", "accept"
	hdr := func(rule, name, expect string, f func(c *mctx, m *mut) bool) variant {
		return variant{rule, name, expect, f}
	}
	var v []variant
	add := func(x ...variant) { v = append(v, x...) }

	// ---- the pipeline itself and perturbations that keep the block valid ------------------------------------
	add(hdr("valid", "rebuilt_identity", acc, func(c *mctx, m *mut) bool { m.reexec = true; return true }))
	add(hdr("valid", "add_valid_tx", acc, crafted(func(c *mctx) (txOpt, bool) {
		return txOpt{ref: c.num - 1, exp: 10}, true
	})))
	add(hdr("valid", "drop_last_tx", acc, func(c *mctx, m *mut) bool {
		if len(m.txs) == 0 {
			return false
		}
		m.txs = m.txs[:len(m.txs)-1]
		m.reexec = true
		return true
	}))
	add(hdr("valid", "empty_body", acc, func(c *mctx, m *mut) bool { m.txs = nil; m.reexec = true; return true }))
	add(hdr("valid", "later_own_slot", acc, func(c *mctx, m *mut) bool {
		t, p, ok := c.ownSlotAfter(c.w.addr(c.who), m.f.TS)
		if !ok {
			return false
		}
		m.f.TS, m.f.Score, m.reexec = t, c.parent.Header.TotalScore()+p.score, true
		return true
	}))
	add(hdr("valid", "sibling_other_validator", acc, func(c *mctx, m *mut) bool {
		o := c.otherValidator()
		t, p, ok := c.ownSlotAfter(c.w.addr(o), c.parent.Header.Timestamp())
		if !ok {
			return false
		}
		m.s.Key = c.w.key(o)
		m.f.TS, m.f.Score, m.f.Benef, m.reexec = t, c.parent.Header.TotalScore()+p.score, c.w.addr(o), true
		if p.sbenef != nil {
			m.f.Benef = *p.sbenef
		}
		return true
	}))

	// ---- header: time ------------------------------------------------------------------------------------------
	add(hdr("ts_after_parent", "eq_parent", rej, func(c *mctx, m *mut) bool { m.f.TS = c.parent.Header.Timestamp(); return true }))
	add(hdr("ts_after_parent", "interval_before_parent", rej, func(c *mctx, m *mut) bool { m.f.TS = c.parent.Header.Timestamp() - T; return true }))
	add(hdr("ts_after_parent", "zero", rej, func(c *mctx, m *mut) bool { m.f.TS = 0; return true }))
	add(hdr("interval_aligned", "plus1", rej, func(c *mctx, m *mut) bool { m.f.TS++; return true }))
	add(hdr("interval_aligned", "minus1", rej, func(c *mctx, m *mut) bool { m.f.TS--; return true }))
	add(hdr("interval_aligned", "plus_half", rej, func(c *mctx, m *mut) bool { m.f.TS += T / 2; return true }))

	// ---- header: gas -------------------------------------------------------------------------------------------
	add(hdr("gas_used_le_limit", "declared_over_limit", rej, func(c *mctx, m *mut) bool { m.f.GU = m.f.GL + 1; return true }))
	add(hdr("gas_used_le_limit", "declared_max", rej, func(c *mctx, m *mut) bool { m.f.GU = math.MaxUint64; return true }))
	step := func(c *mctx) uint64 { return c.parent.Header.GasLimit() / thor.GasLimitBoundDivisor }
	pgl := func(c *mctx) uint64 { return c.parent.Header.GasLimit() }
	add(hdr("gas_limit_step", "up_one_over", rej, func(c *mctx, m *mut) bool { m.f.GL = pgl(c) + step(c) + 1; m.reexec = true; return true }))
	add(hdr("gas_limit_step", "down_one_over", rej, func(c *mctx, m *mut) bool {
		gl := pgl(c) - step(c) - 1
		if gl < thor.MinGasLimit || gl < m.f.GU {
			return false
		}
		m.f.GL, m.reexec = gl, true
		return true
	}))
	add(hdr("gas_limit_step", "double", rej, func(c *mctx, m *mut) bool { m.f.GL = 2 * pgl(c); m.reexec = true; return true }))
	add(hdr("gas_limit_step", "max", rej, func(c *mctx, m *mut) bool { m.f.GL = math.MaxUint64; m.reexec = true; return true }))
	add(hdr("gas_limit_step", "up_exact_bound", acc, func(c *mctx, m *mut) bool { m.f.GL = pgl(c) + step(c); m.reexec = true; return true }))
	add(hdr("gas_limit_step", "down_exact_bound", acc, func(c *mctx, m *mut) bool {
		gl := pgl(c) - step(c)
		if gl < thor.MinGasLimit || gl < m.f.GU {
			return false
		}
		m.f.GL, m.reexec = gl, true
		return true
	}))
	add(hdr("gas_limit_floor", "one_below_floor", rej, func(c *mctx, m *mut) bool {
		gl := thor.MinGasLimit - 1
		if pgl(c)-gl > step(c) || gl < m.f.GU {
			return false
		}
		m.f.GL, m.reexec = gl, true
		return true
	}))
	add(hdr("gas_limit_floor", "at_floor", acc, func(c *mctx, m *mut) bool {
		gl := thor.MinGasLimit
		if pgl(c)-gl > step(c) || gl < m.f.GU || gl == m.f.GL {
			return false
		}
		m.f.GL, m.reexec = gl, true
		return true
	}))
	// sum of gas over the limit: only where the base block is full enough that a legal step of the limit cuts into it
	add(hdr("sum_gas_le_limit", "declared_true_sum", rej, func(c *mctx, m *mut) bool {
		gl := pgl(c) - step(c)
		if gl < thor.MinGasLimit || gl >= m.f.GU {
			return false
		}
		m.f.GL = gl
		return true
	}))
	add(hdr("sum_gas_le_limit", "declared_eq_limit", rej, func(c *mctx, m *mut) bool {
		gl := pgl(c) - step(c)
		if gl < thor.MinGasLimit || gl >= m.f.GU {
			return false
		}
		m.f.GL, m.f.GU = gl, gl
		return true
	}))

	// ---- header: score -----------------------------------------------------------------------------------------
	add(hdr("score_gt_parent", "eq_parent", rej, func(c *mctx, m *mut) bool { m.f.Score = c.parent.Header.TotalScore(); return true }))
	add(hdr("score_gt_parent", "below_parent", rej, func(c *mctx, m *mut) bool {
		if c.parent.Header.TotalScore() == 0 {
			return false
		}
		m.f.Score = c.parent.Header.TotalScore() - 1
		return true
	}))
	add(hdr("score_expected", "plus1", rej, func(c *mctx, m *mut) bool { m.f.Score++; m.reexec = true; return true }))
	add(hdr("score_expected", "minus1", rej, func(c *mctx, m *mut) bool {
		if m.f.Score-1 <= c.parent.Header.TotalScore() {
			return false
		}
		m.f.Score--
		m.reexec = true
		return true
	}))
	add(hdr("score_expected", "max", rej, func(c *mctx, m *mut) bool { m.f.Score = math.MaxUint64; m.reexec = true; return true }))

	// ---- header: signature / VRF -------------------------------------------------------------------------------
	add(hdr("sig_len", "proof_stripped", rej, func(c *mctx, m *mut) bool {
		if !c.w.vip214At(c.num) {
			return false
		}
		m.s.Trunc = 65
		return true
	}))
	add(hdr("sig_len", "proof_before_vip214", rej, func(c *mctx, m *mut) bool {
		if c.w.vip214At(c.num) {
			return false
		}
		m.s.VRF = true
		return true
	}))
	add(hdr("sig_len", "extra_byte", rej, func(c *mctx, m *mut) bool { m.s.Trunc = -1; return true }))
	add(hdr("sig_len", "one_short", rej, func(c *mctx, m *mut) bool { m.s.Trunc = len(c.base.Header().Signature()) - 1; return true }))
	add(hdr("sig_len", "empty", rej, func(c *mctx, m *mut) bool { m.s.RawSet = true; return true }))
	add(hdr("alpha", "other_alpha", rej, func(c *mctx, m *mut) bool {
		if !c.w.vip214At(c.num) {
			return false
		}
		m.f.Alpha = h32("another alpha").Bytes()
		return true
	}))
	add(hdr("alpha", "empty_alpha", rej, func(c *mctx, m *mut) bool {
		if !c.w.vip214At(c.num) {
			return false
		}
		m.f.Alpha, m.s.ProofAlpha = nil, []byte{}
		return true
	}))
	add(hdr("alpha", "parents_alpha", rej, func(c *mctx, m *mut) bool {
		pa := c.parent.Header.Alpha()
		if !c.w.vip214At(c.num) || len(pa) == 0 || sameBytes(pa, m.f.Alpha) {
			return false
		}
		m.f.Alpha = append([]byte(nil), pa...)
		return true
	}))
	add(hdr("alpha", "alpha_before_vip214", rej, func(c *mctx, m *mut) bool {
		if c.w.vip214At(c.num) {
			return false
		}
		m.f.Alpha = h32("early alpha").Bytes()
		return true
	}))
	add(hdr("vrf_proof", "corrupt_proof", rej, func(c *mctx, m *mut) bool {
		if !c.w.vip214At(c.num) {
			return false
		}
		m.s.Corrupt = 65 + 40
		return true
	}))
	add(hdr("vrf_proof", "proof_of_other_key", rej, func(c *mctx, m *mut) bool {
		if !c.w.vip214At(c.num) {
			return false
		}
		m.s.ProofKey = c.w.key(c.otherValidator())
		return true
	}))
	add(hdr("vrf_proof", "proof_over_other_alpha", rej, func(c *mctx, m *mut) bool {
		if !c.w.vip214At(c.num) {
			return false
		}
		m.s.ProofAlpha = h32("proof alpha").Bytes()
		return true
	}))

	// ---- header: fork-gated fields -----------------------------------------------------------------------------
	add(hdr("com_gate", "com_before_finality", rej, func(c *mctx, m *mut) bool {
		if c.w.finalityAt(c.num) {
			return false
		}
		m.f.COM = true
		return true
	}))
	add(hdr("com_gate", "com_flip_after_finality", acc, func(c *mctx, m *mut) bool {
		if !c.w.finalityAt(c.num) {
			return false
		}
		m.f.COM = !m.f.COM
		return true
	}))
	preG := func(f func(m *mut)) func(c *mctx, m *mut) bool {
		return func(c *mctx, m *mut) bool {
			if c.w.galacticaAt(c.num) {
				return false
			}
			f(m)
			return true
		}
	}
	postG := func(f func(m *mut) bool) func(c *mctx, m *mut) bool {
		return func(c *mctx, m *mut) bool {
			if !c.w.galacticaAt(c.num) {
				return false
			}
			if !f(m) {
				return false
			}
			m.reexec = true
			return true
		}
	}
	add(hdr("base_fee_absent", "initial_before_galactica", rej, preG(func(m *mut) { m.f.BaseFee = big.NewInt(thor.InitialBaseFee) })))
	add(hdr("base_fee_absent", "zero_before_galactica", rej, preG(func(m *mut) { m.f.BaseFee = new(big.Int) })))
	add(hdr("base_fee_present", "missing_after_galactica", rej, func(c *mctx, m *mut) bool {
		if !c.w.galacticaAt(c.num) {
			return false
		}
		m.f.BaseFee = nil
		return true
	}))
	add(hdr("base_fee_value", "plus1", rej, postG(func(m *mut) bool { m.f.BaseFee.Add(m.f.BaseFee, big.NewInt(1)); return true })))
	add(hdr("base_fee_value", "minus1", rej, postG(func(m *mut) bool { m.f.BaseFee.Sub(m.f.BaseFee, big.NewInt(1)); return true })))
	add(hdr("base_fee_value", "zero", rej, postG(func(m *mut) bool { m.f.BaseFee = new(big.Int); return true })))
	add(hdr("base_fee_value", "double", rej, postG(func(m *mut) bool { m.f.BaseFee.Mul(m.f.BaseFee, big.NewInt(2)); return true })))
	add(hdr("base_fee_value", "initial_when_higher", rej, postG(func(m *mut) bool {
		if m.f.BaseFee.Cmp(big.NewInt(thor.InitialBaseFee)) == 0 {
			return false
		}
		m.f.BaseFee = big.NewInt(thor.InitialBaseFee)
		return true
	})))
	add(hdr("txs_features", "flip_delegation_bit", rej, func(c *mctx, m *mut) bool { m.f.Feat ^= 1; return true }))
	add(hdr("txs_features", "extra_bit", rej, func(c *mctx, m *mut) bool { m.f.Feat |= 2; return true }))

	// ---- header: proposer --------------------------------------------------------------------------------------
	add(hdr("proposer_authorised", "outsider_key", rej, func(c *mctx, m *mut) bool { m.s.Key = c.w.key(9); return true }))
	add(hdr("proposer_authorised", "fresh_key", rej, func(c *mctx, m *mut) bool { m.s.Key = c.w.poorKey(); return true }))
	add(hdr("proposer_slot", "other_validator_same_time", rej, func(c *mctx, m *mut) bool {
		// another AUTHORISED validator that does not own this slot (an inactive validator shuffles itself into the
		// list and may own this very slot from its own point of view; one without endorsement is not authorised)
		for d := 1; d < nVal; d++ {
			o := (c.who + d) % nVal
			p, err := c.w.prestate(c.parent, c.w.addr(o), m.f.TS)
			if err == nil && p.authorised && !p.owns {
				m.s.Key = c.w.key(o)
				return true
			}
		}
		return false
	}))
	slotShift := func(d int64) func(c *mctx, m *mut) bool {
		return func(c *mctx, m *mut) bool {
			t := uint64(int64(m.f.TS) + d)
			if t <= c.parent.Header.Timestamp() {
				return false
			}
			p, err := c.w.prestate(c.parent, c.w.addr(c.who), t)
			if err != nil || p.owns {
				return false // the signer owns that slot too (few active proposers / v1 schedule): not a departure
			}
			m.f.TS = t
			return true
		}
	}
	add(hdr("proposer_slot", "next_slot", rej, slotShift(int64(T))))
	add(hdr("proposer_slot", "previous_slot", rej, slotShift(-int64(T))))
	add(hdr("proposer_slot", "two_slots_later", rej, slotShift(2*int64(T))))

	// ---- header: beneficiary -----------------------------------------------------------------------------------
	add(variant{"beneficiary", "other_beneficiary", "", func(c *mctx, m *mut) bool { m.f.Benef = c.w.addr(5); m.reexec = true; return true }})
	add(variant{"beneficiary", "zero_beneficiary", "", func(c *mctx, m *mut) bool { m.f.Benef = thor.Address{}; m.reexec = true; return true }})
	add(hdr("beneficiary", "endorser_instead_of_staker_set", rej, func(c *mctx, m *mut) bool {
		if c.pre.sbenef == nil {
			return false
		}
		m.f.Benef, m.reexec = c.w.addr(c.who), true
		return true
	}))

	// ---- header: declared results ------------------------------------------------------------------------------
	add(hdr("gas_used_matches", "plus1", rej, func(c *mctx, m *mut) bool {
		if m.f.GU+1 > m.f.GL {
			return false
		}
		m.f.GU++
		return true
	}))
	add(hdr("gas_used_matches", "minus1", rej, func(c *mctx, m *mut) bool {
		if m.f.GU == 0 {
			return false
		}
		m.f.GU--
		return true
	}))
	add(hdr("gas_used_matches", "zero", rej, func(c *mctx, m *mut) bool {
		if m.f.GU == 0 {
			return false
		}
		m.f.GU = 0
		return true
	}))
	add(hdr("receipts_root", "random", rej, func(c *mctx, m *mut) bool { m.f.Rcpt = h32("receipts"); return true }))
	add(hdr("receipts_root", "root_of_no_receipts", rej, func(c *mctx, m *mut) bool {
		if len(m.txs) == 0 {
			return false
		}
		m.f.Rcpt = tx.Receipts{}.RootHash()
		return true
	}))
	add(hdr("state_root", "random", rej, func(c *mctx, m *mut) bool { m.f.State = h32("state"); return true }))
	add(hdr("state_root", "parents_state", rej, func(c *mctx, m *mut) bool { m.f.State = c.parent.Header.StateRoot(); return true }))
	add(hdr("txs_root", "random", rej, func(c *mctx, m *mut) bool { m.f.TxsRoot, m.keepTxsRoot = h32("txs"), true; return true }))
	add(hdr("txs_root", "root_of_shorter_list", rej, func(c *mctx, m *mut) bool {
		if len(m.txs) == 0 {
			return false
		}
		m.f.TxsRoot, m.keepTxsRoot = m.txs[:len(m.txs)-1].RootHash(), true
		return true
	}))

	// ---- body: per transaction ---------------------------------------------------------------------------------
	add(hdr("tx_chain_tag", "xor", rej, crafted(func(c *mctx) (txOpt, bool) {
		return txOpt{ref: c.num - 1, exp: 10, tag: c.w.tag ^ 0x55, tagSet: true}, true
	})))
	add(hdr("tx_chain_tag", "zero", rej, crafted(func(c *mctx) (txOpt, bool) {
		return txOpt{ref: c.num - 1, exp: 10, tag: 0, tagSet: true}, c.w.tag != 0
	})))
	add(hdr("tx_ref_not_future", "next_block", rej, crafted(func(c *mctx) (txOpt, bool) { return txOpt{ref: c.num + 1, exp: 10}, true })))
	add(hdr("tx_ref_not_future", "max_ref", rej, crafted(func(c *mctx) (txOpt, bool) { return txOpt{ref: math.MaxUint32, exp: 10}, true })))
	add(hdr("tx_ref_not_future", "ref_eq_this_block", acc, crafted(func(c *mctx) (txOpt, bool) { return txOpt{ref: c.num, exp: 0}, true })))
	add(hdr("tx_not_expired", "expired_by_one", rej, crafted(func(c *mctx) (txOpt, bool) {
		if c.num < 2 {
			return txOpt{}, false
		}
		return txOpt{ref: c.num - 2, exp: 1}, true
	})))
	add(hdr("tx_not_expired", "zero_expiration_old_ref", rej, crafted(func(c *mctx) (txOpt, bool) { return txOpt{ref: c.num - 1, exp: 0}, true })))
	add(hdr("tx_not_expired", "last_valid_block", acc, crafted(func(c *mctx) (txOpt, bool) {
		if c.num < 2 {
			return txOpt{ref: c.num - 1, exp: 1}, true
		}
		return txOpt{ref: c.num - 2, exp: 2}, true
	})))
	add(hdr("tx_not_expired", "max_expiration", acc, crafted(func(c *mctx) (txOpt, bool) {
		return txOpt{ref: c.num - 1, exp: math.MaxUint32}, true
	})))
	add(hdr("tx_type_gate", "dynamic_fee_before_galactica", rej, crafted(func(c *mctx) (txOpt, bool) {
		return txOpt{typ: tx.TypeDynamicFee, ref: c.num - 1, exp: 10}, !c.w.galacticaAt(c.num)
	})))
	add(hdr("tx_feature_gate", "delegated_before_vip191", rej, crafted(func(c *mctx) (txOpt, bool) {
		return txOpt{ref: c.num - 1, exp: 10, feat: tx.DelegationFeature, origin: c.w.key(7), delegator: c.w.key(8)}, !c.w.vip191At(c.num)
	})))
	add(hdr("tx_feature_gate", "unknown_feature_bit", rej, crafted(func(c *mctx) (txOpt, bool) {
		return txOpt{ref: c.num - 1, exp: 10, feat: 2}, true
	})))
	add(hdr("tx_reserved", "unused_slot_filled", rej, crafted(func(c *mctx) (txOpt, bool) {
		return txOpt{ref: c.num - 1, exp: 10, unused: true}, true
	})))
	add(hdr("tx_signature", "origin_unrecoverable", rej, crafted(func(c *mctx) (txOpt, bool) {
		return txOpt{ref: c.num - 1, exp: 10, badSig: true}, true
	})))
	add(hdr("tx_dup_in_block", "repeat_last", rej, func(c *mctx, m *mut) bool {
		if len(m.txs) == 0 {
			return false
		}
		c.room(m)
		m.txs = append(m.txs, m.txs[len(m.txs)-1])
		m.reexec = true
		return true
	}))
	add(hdr("tx_dup_in_block", "repeat_first_at_end", rej, func(c *mctx, m *mut) bool {
		if len(m.txs) < 2 {
			return false
		}
		c.room(m)
		m.txs = append(m.txs, m.txs[0])
		m.reexec = true
		return true
	}))
	replay := func(back uint32) func(c *mctx, m *mut) bool {
		return func(c *mctx, m *mut) bool {
			if c.num <= back {
				return false
			}
			for _, t := range c.w.blocks[c.num-back].Transactions() {
				if !t.IsExpired(c.num) && t.DependsOn() == nil {
					c.room(m)
					m.txs = append(m.txs, t)
					m.reexec = true
					return true
				}
			}
			return false
		}
	}
	add(hdr("tx_dup_on_chain", "replay_from_parent", rej, replay(1)))
	add(hdr("tx_dup_on_chain", "replay_from_grandparent", rej, replay(2)))
	add(hdr("tx_dep_present", "unknown_id", rej, crafted(func(c *mctx) (txOpt, bool) {
		id := h32("no such tx")
		return txOpt{ref: c.num - 1, exp: 10, dep: &id}, true
	})))
	add(hdr("tx_dep_present", "dependency_later_in_block", rej, func(c *mctx, m *mut) bool {
		b := c.w.mkTx(txOpt{ref: c.num - 1, exp: 10})
		id := b.ID()
		a := c.w.mkTx(txOpt{ref: c.num - 1, exp: 10, dep: &id})
		c.room(m)
		m.txs = append(m.txs, a, b)
		m.reexec = true
		return true
	}))
	add(hdr("tx_dep_present", "dependency_earlier_in_block", acc, func(c *mctx, m *mut) bool {
		b := c.w.mkTx(txOpt{ref: c.num - 1, exp: 10})
		id := b.ID()
		a := c.w.mkTx(txOpt{ref: c.num - 1, exp: 10, dep: &id})
		c.room(m)
		m.txs = append(m.txs, b, a)
		m.reexec = true
		return true
	}))
	add(hdr("tx_dep_not_reverted", "reverted_in_block", rej, func(c *mctx, m *mut) bool {
		for i, t := range m.txs {
			if i < len(c.baseRes.reverted) && c.baseRes.reverted[i] {
				id := t.ID()
				c.room(m)
				m.txs = append(m.txs, c.w.mkTx(txOpt{ref: c.num - 1, exp: 10, dep: &id}))
				m.reexec = true
				return true
			}
		}
		return false
	}))
	add(hdr("tx_dep_not_reverted", "reverted_on_chain", rej, func(c *mctx, m *mut) bool {
		if c.num < 2 {
			return false
		}
		for _, t := range c.w.blocks[c.num-1].Transactions() {
			if c.w.txs[t.ID()].reverted {
				id := t.ID()
				c.room(m)
				m.txs = append(m.txs, c.w.mkTx(txOpt{ref: c.num - 1, exp: 10, dep: &id}))
				m.reexec = true
				return true
			}
		}
		return false
	}))
	add(hdr("tx_can_start", "gas_below_intrinsic", rej, crafted(func(c *mctx) (txOpt, bool) {
		return txOpt{ref: c.num - 1, exp: 10, gas: 20999}, true
	})))
	add(hdr("tx_can_start", "payer_cannot_prepay", rej, crafted(func(c *mctx) (txOpt, bool) {
		return txOpt{ref: c.num - 1, exp: 10, origin: c.w.poorKey()}, true
	})))
	// ---- wrap-around values -----------------------------------------------------------------------------------------
	// The rules are stated over unbounded naturals; the code computes in uint64. Distances of 2^k (k = 32..63; the
	// exponent rotates with the base block so that the thorough tier sees all of them), multiples of 2^54 (x*1024
	// wraps), 2^61 (x*8) and values beyond 2^64 for the big-integer field must all be rejected.
	kOf := func(c *mctx, salt uint32) uint { return uint(32 + (c.num*7+uint32(len(c.w.prof.name))+salt)%32) }
	glPlus := func(d func(c *mctx) uint64) func(c *mctx, m *mut) bool {
		return func(c *mctx, m *mut) bool { m.f.GL = pgl(c) + d(c); m.reexec = true; return true }
	}
	add(hdr("gas_limit_step", "plus_2p54", rej, glPlus(func(c *mctx) uint64 { return 1 << 54 })))
	add(hdr("gas_limit_step", "plus_2p54_and_step", rej, glPlus(func(c *mctx) uint64 { return 1<<54 + step(c) })))
	add(hdr("gas_limit_step", "plus_3x2p54", rej, glPlus(func(c *mctx) uint64 { return 3 << 54 })))
	add(hdr("gas_limit_step", "plus_1023x2p54", rej, glPlus(func(c *mctx) uint64 { return 1023 << 54 })))
	add(hdr("gas_limit_step", "plus_2pk", rej, glPlus(func(c *mctx) uint64 { return 1 << kOf(c, 0) })))
	add(hdr("gas_used_le_limit", "limit_plus_2pk", rej, func(c *mctx, m *mut) bool { m.f.GU = m.f.GL + 1<<kOf(c, 1); return true }))
	add(hdr("score_expected", "plus_2pk", rej, func(c *mctx, m *mut) bool { m.f.Score += 1 << kOf(c, 2); m.reexec = true; return true }))
	add(hdr("score_expected", "plus_2p63", rej, func(c *mctx, m *mut) bool { m.f.Score += 1 << 63; m.reexec = true; return true }))
	add(hdr("interval_aligned", "plus_2pk", rej, func(c *mctx, m *mut) bool { m.f.TS += 1 << kOf(c, 3); return true }))
	add(hdr("base_fee_value", "plus_2pk", rej, func(c *mctx, m *mut) bool {
		if !c.w.galacticaAt(c.num) {
			return false
		}
		m.f.BaseFee.Add(m.f.BaseFee, new(big.Int).Lsh(big.NewInt(1), kOf(c, 4)))
		m.reexec = true
		return true
	}))
	add(hdr("base_fee_value", "plus_2p61", rej, postG(func(m *mut) bool { m.f.BaseFee.Add(m.f.BaseFee, new(big.Int).Lsh(big.NewInt(1), 61)); return true })))
	add(hdr("base_fee_value", "plus_2p64", rej, postG(func(m *mut) bool { m.f.BaseFee.Add(m.f.BaseFee, new(big.Int).Lsh(big.NewInt(1), 64)); return true })))

	// ---- chain-history dependent shapes --------------------------------------------------------------------------
	// replay of a tx whose block ref equals the height that first included it (the lower edge of its window)
	replayEdge := func(back uint32) func(c *mctx, m *mut) bool {
		return func(c *mctx, m *mut) bool {
			if c.num <= back {
				return false
			}
			for _, t := range c.w.blocks[c.num-back].Transactions() {
				if t.BlockRef().Number() == c.num-back && !t.IsExpired(c.num) && t.DependsOn() == nil {
					c.room(m)
					m.txs = append(m.txs, t)
					m.reexec = true
					return true
				}
			}
			return false
		}
	}
	add(hdr("tx_dup_on_chain", "replay_ref_eq_inclusion_from_parent", rej, replayEdge(1)))
	add(hdr("tx_dup_on_chain", "replay_ref_eq_inclusion_from_grandparent", rej, replayEdge(2)))
	add(hdr("tx_dup_on_chain", "replay_ref_eq_inclusion_older", rej, replayEdge(4)))
	// replays from further back: the long-lived tx (still inside its window)
	replayOld := func(pick func(c *mctx) uint32) func(c *mctx, m *mut) bool {
		return func(c *mctx, m *mut) bool {
			h := pick(c)
			if h == 0 || h >= c.num {
				return false
			}
			for _, t := range c.w.blocks[h].Transactions() {
				if t.Expiration() >= 1<<30 && t.DependsOn() == nil && !c.w.txs[t.ID()].reverted {
					c.room(m)
					m.txs = append(m.txs, t)
					m.reexec = true
					return true
				}
			}
			return false
		}
	}
	add(hdr("tx_dup_on_chain", "replay_from_great_grandparent", rej, replayOld(func(c *mctx) uint32 {
		if c.num < 4 {
			return 0
		}
		return c.num - 3
	})))
	add(hdr("tx_dup_on_chain", "replay_from_block_one", rej, replayOld(func(c *mctx) uint32 {
		if c.num < 3 {
			return 0
		}
		return 1
	})))
	// more than 100 blocks between the ref and the head: the duplicate is found through the tx index, not the scan
	add(hdr("tx_dup_on_chain", "replay_beyond_scan_window", rej, replayOld(func(c *mctx) uint32 {
		if c.num < 106 {
			return 0
		}
		return c.num - 103
	})))
	// a tx with an old block ref (index path of the duplicate lookup) that the parent / grandparent packed
	replayOldRef := func(back uint32) func(c *mctx, m *mut) bool {
		return func(c *mctx, m *mut) bool {
			if c.num < 104+back {
				return false
			}
			for _, t := range c.w.blocks[c.num-back].Transactions() {
				if t.BlockRef().Number()+100 < c.num-back && !t.IsExpired(c.num) && t.DependsOn() == nil && !c.w.txs[t.ID()].reverted {
					c.room(m)
					m.txs = append(m.txs, t)
					m.reexec = true
					return true
				}
			}
			return false
		}
	}
	add(hdr("tx_dup_on_chain", "replay_old_ref_from_parent", rej, replayOldRef(1)))
	add(hdr("tx_dup_on_chain", "replay_old_ref_from_grandparent", rej, replayOldRef(2)))
	farDep := func(wantReverted bool) func(c *mctx, m *mut) bool {
		return func(c *mctx, m *mut) bool {
			if c.num < 4 {
				return false
			}
			for _, t := range c.w.blocks[1].Transactions() {
				if c.w.txs[t.ID()].reverted == wantReverted {
					id := t.ID()
					c.room(m)
					m.txs = append(m.txs, c.w.mkTx(txOpt{ref: c.num - 1, exp: 10, dep: &id}))
					m.reexec = true
					return true
				}
			}
			return false
		}
	}
	add(hdr("tx_dep_not_reverted", "reverted_in_block_one", rej, farDep(true)))
	add(hdr("tx_dep_present", "dependency_in_block_one", acc, farDep(false)))
	add(hdr("tx_signature", "delegator_unrecoverable", rej, func(c *mctx, m *mut) bool {
		if !c.w.vip191At(c.num) {
			return false
		}
		t := c.w.mkTx(txOpt{ref: c.num - 1, exp: 10, feat: tx.DelegationFeature, origin: c.w.key(7), delegator: c.w.key(8)})
		sig := t.Signature()
		for i := 65; i < len(sig); i++ {
			sig[i] = 0xff
		}
		c.room(m)
		m.txs = append(m.txs, t.WithSignature(sig))
		m.reexec = true
		return true
	}))
	// blocklist: rejected from the BLOCKLIST fork on, admissible before
	add(variant{"tx_blocklist", "origin_blocked", "", crafted(func(c *mctx) (txOpt, bool) {
		return txOpt{ref: c.num - 1, exp: 10, origin: c.w.key(blockedDev)}, true
	})})
	add(variant{"tx_blocklist", "delegator_blocked", "", crafted(func(c *mctx) (txOpt, bool) {
		return txOpt{ref: c.num - 1, exp: 10, feat: tx.DelegationFeature, origin: c.w.key(7), delegator: c.w.key(blockedDev)}, c.w.vip191At(c.num)
	})})
	// a validator whose endorsement was withdrawn, signing a block that is consistent in every other respect with a
	// proposer list that still contains it (what a stale cache would believe)
	add(hdr("proposer_authorised", "endorsement_withdrawn", rej, func(c *mctx, m *mut) bool {
		if c.pre.pos {
			return false
		}
		for v := 0; v < nVal; v++ {
			p, err := c.w.prestate(c.parent, c.w.addr(v), m.f.TS)
			if err != nil || p.authorised {
				continue
			}
			c.w.asIfEndorsed = true
			t, ps, ok := c.ownSlotAfter(c.w.addr(v), c.parent.Header.Timestamp())
			c.w.asIfEndorsed = false
			if !ok {
				continue
			}
			m.s.Key = c.w.key(v)
			m.f.TS, m.f.Score, m.f.Benef, m.stale, m.reexec = t, c.parent.Header.TotalScore()+ps.score, c.w.addr(v), true, true
			return true
		}
		return false
	}))
	return v
}

var _ = (*ecdsa.PrivateKey)(nil)
