// blockrules is the driver of property C02 ("validation rejects every block that breaks a protocol rule, and never
// panics"). It builds valid base chains under several fork profiles with the real packer, derives from every base
// block the single-rule departures and the declared non-violations of specs/rules/BlockRules.tla as REAL blocks
// (re-signed by the legitimate proposer, VRF proof / txs root / execution results re-derived), generates structurally
// arbitrary blocks, feeds all of them to consensus.Process (fresh and warm instance) and to the node-level import, and
// logs one Case event per block with the abstract projection that Trace_BlockRules.tla judges.
//
//	blockrules -out <dir> -seed S [-mode catalogue|arb|both|basefee -cases file] [-profiles a,b] [-blocks N] [-bases boundary|all]
//	           [-arb N] [-only rule:variant]
//
// writes <dir>/trace.ndjson (Case events), <dir>/blobs.ndjson (RLP of every fed block, panic stacks) and prints a
// one-line JSON summary. Exit 3 + HARNESS-ERROR for trouble of the driver itself.
package main

import (
	"encoding/json"
	"flag"
	"fmt"
	"os"
	"path/filepath"
	"strings"

	"github.com/vechain/thor/v2/genesis"
	"github.com/vechain/thor/v2/thor"

	"verifharness/internal/trace"
)

func must(err error) {
	if err != nil {
		panic(err)
	}
}

func harnessError(a ...any) {
	fmt.Println(append([]any{"HARNESS-ERROR"}, a...)...)
	os.Exit(3)
}

func main() {
	seed := flag.Int64("seed", 1, "seed")
	out := flag.String("out", "", "output directory")
	mode := flag.String("mode", "both", "catalogue | arb | both")
	profs := flag.String("profiles", "", "comma separated profile names (default all)")
	blocks := flag.Int("blocks", 5, "length of every base chain")
	basesF := flag.String("bases", "all", "all | boundary (two base blocks per profile around the fork height / chain end)")
	arbN := flag.Int("arb", 200, "structurally arbitrary inputs per profile")
	only := flag.String("only", "", "run only rule:variant")
	bfCases := flag.String("cases", "", "mode basefee: JSON file with the cases exported by MC_BlockRulesBaseFee")
	flag.Parse()
	if *out == "" {
		harnessError("-out required")
	}
	must(os.MkdirAll(*out, 0o755))
	want := map[string]bool{}
	for _, p := range strings.Split(*profs, ",") {
		if p != "" {
			want[p] = true
		}
	}
	// thor's blocklist is a fixed table of mainnet addresses nobody here has keys for: replace it by one dev account
	thor.MockBlocklist([]string{genesis.DevAccounts()[blockedDev].Address.String()})
	var evs, blobs []trace.Ev
	summary := map[string]any{}
	perProf := map[string]int{}
	id := 0
	for _, p := range profiles() {
		if len(want) > 0 && !want[p.name] {
			continue
		}
		if *mode == "basefee" {
			if p.name != "poa-galactica" {
				continue
			}
			w := newWorld(p, *seed)
			r := newRunner(w)
			r.runBaseFee(*bfCases)
			evs, blobs = append(evs, r.evs...), append(blobs, r.blobs...)
			for k, v := range r.stats {
				summary[k] = v
			}
			w.close()
			continue
		}
		w := newWorld(p, *seed*1000+int64(len(p.name)))
		n := *blocks
		if p.length != 0 {
			n = p.length
		}
		for i := 0; i < n; i++ {
			if err := w.extend(); err != nil {
				harnessError(p.name, err)
			}
		}
		r := newRunner(w)
		r.nextID = id
		var bases map[uint32]bool
		if *basesF == "boundary" {
			bases = map[uint32]bool{uint32(n): true, 3: true, 2: true}
			if p.qbases != nil {
				bases = map[uint32]bool{}
				for _, h := range p.qbases {
					bases[h] = true
				}
			}
		} else if p.length > 20 {
			bases = map[uint32]bool{uint32(n): true, uint32(n - 1): true, uint32(n - 2): true, 104: true, 60: true, 3: true}
		}
		if *mode == "catalogue" || *mode == "both" {
			r.runCatalogue(bases, *only)
		} else {
			for _, b := range w.blocks[1:] {
				if err := r.advance(b); err != nil {
					harnessError(err)
				}
			}
		}
		if *mode == "arb" || *mode == "both" {
			r.runArbitrary(*arbN, *seed)
		}
		evs = append(evs, r.evs...)
		blobs = append(blobs, r.blobs...)
		perProf[p.name] = len(r.evs)
		id = r.nextID
		for k, v := range r.stats {
			if n, ok := summary[k].(int); ok {
				summary[k] = n + v
			} else {
				summary[k] = v
			}
		}
		w.close()
	}
	evs = append(evs, trace.Ev{"e": "End", "count": len(evs)})
	must(trace.WriteNDJSON(filepath.Join(*out, "trace.ndjson"), evs))
	must(trace.WriteNDJSON(filepath.Join(*out, "blobs.ndjson"), blobs))
	summary["perProfile"] = perProf
	js, _ := json.Marshal(summary)
	fmt.Println(string(js))
}
