package main

// world.go - fork profiles, valid base chains (real packer on the omniscient stack), transaction templates.

import (
	"crypto/ecdsa"
	"errors"
	"fmt"
	"math"
	"math/big"
	"math/rand"
	"os"

	"github.com/ethereum/go-ethereum/crypto"
	"github.com/ethereum/go-ethereum/rlp"

	"github.com/vechain/thor/v2/block"
	"github.com/vechain/thor/v2/builtin"
	"github.com/vechain/thor/v2/chain"
	"github.com/vechain/thor/v2/packer"
	"github.com/vechain/thor/v2/scheduler"
	"github.com/vechain/thor/v2/thor"
	"github.com/vechain/thor/v2/tx"

	"verifharness/internal/sim"
)

const (
	nVal   = 3 // validators: dev accounts 0..2
	nExtra = 7 // funded non-validators: dev accounts 3..9
)

type profile struct {
	name     string
	opt      sim.Options
	extra    sim.Extra
	forks    func(fc *thor.ForkConfig)
	targetGL uint64 // packer target gas limit (0: keep the parent's)
	bases    []uint32
	setBenef bool // PoS: validator 0 sets a staker beneficiary in block 1
	filler   bool // odd heights carry a transaction that fills the block up to within one legal step of the gas limit
	length   int  // chain length (0: the -blocks flag)
	light    bool // small transaction mix (long chains)
	drain    bool // block 2 moves validator 2's endorsement away: it is no longer an authorised proposer afterwards
	stakeUp  bool // PoS: validator 1 increases its stake in block 1 (unequal weights after the next epoch boundary)
	qbases   []uint32 // base heights of the quick tier (nil: 2, 3 and the last block)
	joinPoS  bool // HAYABUSA at 3 with a transition period of 3 blocks: the authorities queue validations by transaction
}

const never = math.MaxUint32

func u32(v uint32) *uint32 { return &v }

// blockedDev is the dev account the driver puts on thor's (mocked) blocklist; the templates never use it as origin.
const blockedDev = 9

func profiles() []profile {
	base := sim.Options{Validators: nVal, Nodes: 1, ExtraAccts: nExtra, SkipLogs: true, EpochLength: 3}
	pos := base
	pos.PoS = true
	nog := base
	nog.NoGalactica = true
	g3 := base
	g3.Galactica = 3
	return []profile{
		{name: "poa-v1", opt: nog, forks: func(fc *thor.ForkConfig) {
			fc.VIP191 = 3
			fc.BLOCKLIST = 3
			fc.VIP214, fc.FINALITY, fc.GALACTICA, fc.HAYABUSA = never, never, never, never
		}},
		{name: "poa-vip214-boundary", opt: nog, forks: func(fc *thor.ForkConfig) {
			fc.VIP214 = 3
			fc.FINALITY, fc.GALACTICA, fc.HAYABUSA = never, never, never
		}},
		{name: "poa-v2-nogalactica", opt: nog},
		{name: "galactica-boundary", opt: g3, targetGL: 41_000_000},
		{name: "poa-galactica", opt: base, targetGL: 39_000_000},
		{name: "poa-smallgas", opt: base, extra: sim.Extra{GasLimit: 1_000_700}},
		{name: "poa-fullblock", opt: base, extra: sim.Extra{GasLimit: 2_000_050}, filler: true},
		{name: "pos", opt: pos, setBenef: true},
		{name: "pos-weights", opt: pos, extra: sim.Extra{Periods: [3]uint32{3, 6, 9}}, stakeUp: true, length: 11, qbases: []uint32{9, 10}},
		{name: "poa-endorse", opt: base, drain: true, qbases: []uint32{3, 5}},
		{name: "hayabusa-transition", opt: pos, extra: sim.Extra{Hayabusa: u32(3), HayabusaTP: u32(3), NoStakers: true, Periods: [3]uint32{3, 6, 9}}, joinPoS: true, length: 8, qbases: []uint32{5, 6, 7}},
		{name: "poa-long", opt: base, light: true, length: 135, qbases: []uint32{135}},
	}
}

// txInfo is the driver's own bookkeeping about a transaction on the base chain.
type txInfo struct {
	height   uint32
	reverted bool
}

type world struct {
	prof   profile
	net    *sim.Net
	rng    *rand.Rand
	seeder *scheduler.Seeder
	tag    byte
	blocks []*block.Block // blocks[i] has number i (0 = genesis)
	txs    map[thor.Bytes32]txInfo
	nonce  uint64
	sbenef thor.Address // the staker-set beneficiary of validator 0 (pos profile)
	now    uint64       // the clock handed to consensus.Process
	// asIfEndorsed makes the environment oracle ignore the endorsement balance (only to BUILD a block "as a stale
	// proposer list would see it"; projections never use it)
	asIfEndorsed bool
}

func newWorld(p profile, seed int64) *world {
	net := sim.NewNetForks(p.opt, p.extra, p.forks)
	w := &world{prof: p, net: net, rng: rand.New(rand.NewSource(seed)), seeder: scheduler.NewSeeder(net.God.Repo),
		tag: net.God.Repo.ChainTag(), txs: map[thor.Bytes32]txInfo{}}
	w.blocks = []*block.Block{net.B0}
	w.sbenef = thor.BytesToAddress([]byte("staker-set-beneficiary"))
	w.now = net.Launch + 10_000_000
	return w
}

func (w *world) close() { w.net.Close() }

func (w *world) key(i int) *ecdsa.PrivateKey { return w.net.Devs[i].PrivateKey }
func (w *world) addr(i int) thor.Address     { return w.net.Devs[i].Address }

// poorKey is a key whose account has neither VET nor VTHO.
func (w *world) poorKey() *ecdsa.PrivateKey {
	k, err := crypto.ToECDSA(thor.Blake2b([]byte("verif-c02-poor")).Bytes())
	must(err)
	return k
}

func (w *world) summary(id thor.Bytes32) *chain.BlockSummary {
	s, err := w.net.God.Repo.GetBlockSummary(id)
	must(err)
	return s
}

func (w *world) galacticaAt(num uint32) bool { return num >= w.net.FC.GALACTICA }
func (w *world) vip191At(num uint32) bool    { return num >= w.net.FC.VIP191 }
func (w *world) vip214At(num uint32) bool    { return num >= w.net.FC.VIP214 }
func (w *world) finalityAt(num uint32) bool  { return num >= w.net.FC.FINALITY }

// ---------------------------------------------------------------------------------------------------------------
// transaction templates

type txOpt struct {
	typ       byte
	tag       byte
	tagSet    bool
	ref       uint32
	exp       uint32
	clauses   []*tx.Clause
	gas       uint64
	dep       *thor.Bytes32
	feat      tx.Features
	origin    *ecdsa.PrivateKey
	delegator *ecdsa.PrivateKey
	unused    bool // put a value into an unused reserved slot
	badSig    bool
}

func (w *world) transfer(to int, val int64) *tx.Clause {
	a := w.addr(to)
	return tx.NewClause(&a).WithValue(big.NewInt(val))
}

func (w *world) mkTx(o txOpt) *tx.Transaction {
	w.nonce++
	tag := w.tag
	if o.tagSet {
		tag = o.tag
	}
	if len(o.clauses) == 0 {
		o.clauses = []*tx.Clause{w.transfer(3+int(w.nonce)%nExtra, 1)}
	}
	gas := o.gas
	if gas == 0 {
		gas = 21000 + uint64(len(o.clauses))*30000
	}
	b := tx.NewBuilder(o.typ).ChainTag(tag).BlockRef(tx.NewBlockRef(o.ref)).Expiration(o.exp).Gas(gas).Nonce(w.nonce).
		Clauses(o.clauses).DependsOn(o.dep).Features(o.feat)
	if o.typ == tx.TypeDynamicFee {
		b.MaxFeePerGas(new(big.Int).Mul(big.NewInt(thor.InitialBaseFee), big.NewInt(100))).MaxPriorityFeePerGas(big.NewInt(1000))
	} else {
		b.GasPriceCoef(uint8(w.nonce % 4))
	}
	body := b.Build()
	if o.unused {
		body = withUnusedReserved(body)
	}
	origin := o.origin
	if origin == nil {
		origin = w.key(3 + int(w.nonce)%(nExtra-1))
	}
	var t *tx.Transaction
	if o.delegator != nil {
		t = tx.MustSignDelegated(body, origin, o.delegator)
	} else {
		t = tx.MustSign(body, origin)
	}
	if o.badSig {
		sig := t.Signature()
		for i := range sig {
			sig[i] = 0xff // r, s out of range: no public key can be recovered
		}
		t = t.WithSignature(sig)
	}
	return t
}

// withUnusedReserved re-encodes an unsigned legacy tx with reserved = [features, 0x01].
func withUnusedReserved(body *tx.Transaction) *tx.Transaction {
	raw, err := rlp.EncodeToBytes(body)
	must(err)
	var items []rlp.RawValue
	must(rlp.DecodeBytes(raw, &items))
	if len(items) != 10 {
		panic("unexpected legacy tx shape")
	}
	feat, _ := rlp.EncodeToBytes(uint32(body.Features()))
	res, _ := rlp.EncodeToBytes([]rlp.RawValue{feat, {0x01}})
	items[8] = res
	raw2, err := rlp.EncodeToBytes(items)
	must(err)
	var out tx.Transaction
	must(rlp.DecodeBytes(raw2, &out))
	return &out
}

// mix is the transaction mix of the block at height num (parent at num-1).
func (w *world) mix(num uint32) tx.Transactions {
	ref := uint32(0)
	if num > 2 {
		ref = num - 2
	}
	var out tx.Transactions
	t1 := w.mkTx(txOpt{ref: ref, exp: 30})
	out = append(out, t1)
	// a tx that references the very block that includes it (lower edge of its window), and a long-lived one
	out = append(out, w.mkTx(txOpt{ref: num, exp: 30}), w.mkTx(txOpt{ref: num - 1, exp: 1 << 30}))
	if num > 102 {
		// a tx whose block ref lies more than 100 blocks back: duplicates of it are looked up through the tx index
		out = append(out, w.mkTx(txOpt{ref: num - 102, exp: 1 << 30}))
	}
	if w.prof.light {
		huge := new(big.Int).Mul(sim.BigBalance, big.NewInt(1000))
		a := w.addr(9)
		return append(out, w.mkTx(txOpt{ref: ref, exp: 1 << 30, clauses: []*tx.Clause{tx.NewClause(&a).WithValue(huge)}}))
	}
	out = append(out, w.mkTx(txOpt{ref: num - 1, exp: 1, clauses: []*tx.Clause{w.transfer(4, 1), w.transfer(5, 2), w.transfer(6, 3)}}))
	if w.vip191At(num) {
		out = append(out, w.mkTx(txOpt{ref: ref, exp: 30, feat: tx.DelegationFeature, origin: w.key(7), delegator: w.key(8)}))
	}
	if w.galacticaAt(num) {
		out = append(out, w.mkTx(txOpt{typ: tx.TypeDynamicFee, ref: ref, exp: 30}))
	}
	huge := new(big.Int).Mul(sim.BigBalance, big.NewInt(1000))
	a := w.addr(9)
	rev := w.mkTx(txOpt{ref: ref, exp: 30, clauses: []*tx.Clause{tx.NewClause(&a).WithValue(huge)}})
	out = append(out, rev)
	id1 := t1.ID()
	out = append(out, w.mkTx(txOpt{ref: ref, exp: 30, dep: &id1}))
	// dependency on a non-reverted tx of an earlier block
	if num >= 2 {
		for _, t := range w.blocks[num-1].Transactions() {
			if info := w.txs[t.ID()]; !info.reverted {
				id := t.ID()
				out = append(out, w.mkTx(txOpt{ref: ref, exp: 30, dep: &id}))
				break
			}
		}
	}
	if w.prof.setBenef && num == 1 {
		m, ok := builtin.Staker.ABI.MethodByName("setBeneficiary")
		if !ok {
			panic("staker ABI: setBeneficiary missing")
		}
		data, err := m.EncodeInput(w.addr(0), w.sbenef)
		must(err)
		out = append(out, w.mkTx(txOpt{ref: 0, exp: 30, origin: w.key(0), gas: 400_000,
			clauses: []*tx.Clause{tx.NewClause(&builtin.Staker.Address).WithData(data)}}))
	}
	if w.prof.stakeUp && num == 1 {
		out = append(out, w.stakerTx(1, "increaseStake", new(big.Int).Mul(big.NewInt(5_000_000), big.NewInt(1e18)), w.addr(1)))
	}
	if w.prof.joinPoS && num == 4 {
		for v := 0; v < nVal; v++ {
			out = append(out, w.stakerTx(v, "addValidation", new(big.Int).Mul(big.NewInt(25_000_000), big.NewInt(1e18)), w.addr(v), thor.LowStakingPeriod()))
		}
	}
	if w.prof.drain && num == 2 {
		// validator 2 is its own endorsor: keep 1000 VET
		keep := new(big.Int).Mul(big.NewInt(1000), big.NewInt(1e18))
		a := w.addr(5)
		out = append(out, w.mkTx(txOpt{ref: 0, exp: 30, origin: w.key(2), clauses: []*tx.Clause{tx.NewClause(&a).WithValue(new(big.Int).Sub(sim.BigBalance, keep))}}))
	}
	if w.prof.filler && num%2 == 1 {
		out = append(out, w.fillerTx(num, out))
	}
	return out
}

// stakerTx is a call of the staker contract by dev account `from` carrying `value` VET.
func (w *world) stakerTx(from int, method string, value *big.Int, args ...any) *tx.Transaction {
	m, ok := builtin.Staker.ABI.MethodByName(method)
	if !ok {
		panic("staker ABI: " + method + " missing")
	}
	data, err := m.EncodeInput(args...)
	must(err)
	return w.mkTx(txOpt{ref: 0, exp: 30, origin: w.key(from), gas: 600_000,
		clauses: []*tx.Clause{tx.NewClause(&builtin.Staker.Address).WithData(data).WithValue(value)}})
}

// fillerTx brings the gas used by the block to gasLimit-200 (plain transfers use exactly their intrinsic gas:
// 5000 + 16000 per clause + 68 / 4 per non-zero / zero data byte), i.e. inside the last legal step of the limit.
func (w *world) fillerTx(num uint32, others tx.Transactions) *tx.Transaction {
	gl := w.blocks[num-1].Header().GasLimit()
	var used uint64
	for _, t := range others {
		g, err := t.IntrinsicGas()
		must(err)
		used += g
	}
	want := gl - 200 - used
	n := (want - 5000) / 16000
	rem := want - 5000 - n*16000
	nz := rem / 68
	z := (rem - nz*68) / 4
	data := make([]byte, nz+z)
	for i := uint64(0); i < nz; i++ {
		data[i] = 0x11
	}
	a := w.addr(6)
	cl := []*tx.Clause{tx.NewClause(&a).WithData(data)}
	for i := uint64(1); i < n; i++ {
		cl = append(cl, tx.NewClause(&a))
	}
	ref := uint32(0)
	if num > 2 {
		ref = num - 2
	}
	return w.mkTx(txOpt{ref: ref, exp: 30, clauses: cl, gas: want, origin: w.key(6)})
}

// ---------------------------------------------------------------------------------------------------------------
// base chain

// mint packs a valid block with the real packer on the omniscient stack and stores it there.
func (w *world) mint(parent *chain.BlockSummary, who int, com bool, minTime uint64, txs tx.Transactions) (*block.Block, tx.Receipts, error) {
	g := w.net.God
	acc := w.net.Devs[who]
	p := packer.New(g.Repo, g.Stater, acc.Address, &acc.Address, w.net.FC, 0)
	if w.prof.targetGL != 0 {
		p.SetTargetGasLimit(w.prof.targetGL)
	}
	if minTime == 0 {
		minTime = parent.Header.Timestamp() + thor.BlockInterval()
	}
	flow, err := p.Schedule(parent, minTime)
	if err != nil {
		return nil, nil, err
	}
	for i, t := range txs {
		if err := flow.Adopt(t); err != nil {
			return nil, nil, fmt.Errorf("adopt tx %d: %w", i, err)
		}
	}
	conflicts, err := g.Repo.ScanConflicts(parent.Header.Number() + 1)
	if err != nil {
		return nil, nil, err
	}
	blk, stage, receipts, err := flow.Pack(acc.PrivateKey, conflicts, com)
	if err != nil {
		return nil, nil, err
	}
	if _, err := stage.Commit(); err != nil {
		return nil, nil, err
	}
	if err := g.Repo.AddBlock(blk, receipts, conflicts, true); err != nil {
		return nil, nil, err
	}
	return blk, receipts, nil
}

// when tells the earliest slot of validator who on parent.
func (w *world) when(parent *chain.BlockSummary, who int) (uint64, error) {
	g := w.net.God
	acc := w.net.Devs[who]
	flow, err := packer.New(g.Repo, g.Stater, acc.Address, &acc.Address, w.net.FC, 0).Schedule(parent, parent.Header.Timestamp()+thor.BlockInterval())
	if err != nil {
		return 0, err
	}
	return flow.When(), nil
}

// extend appends one block to the base chain.
func (w *world) extend() error {
	parentBlk := w.blocks[len(w.blocks)-1]
	parent := w.summary(parentBlk.Header().ID())
	num := parent.Header.Number() + 1
	who, best := -1, uint64(math.MaxUint64)
	var able []int
	for v := 0; v < nVal; v++ {
		t, err := w.when(parent, v)
		if err != nil {
			continue
		}
		able = append(able, v)
		if t < best {
			who, best = v, t
		}
	}
	if who < 0 {
		return errors.New("nobody can be scheduled")
	}
	switch {
	case w.prof.setBenef && num >= 2 && num%2 == 0:
		who = 0 // the validator with the staker-set beneficiary
	case w.rng.Intn(4) == 0:
		who = able[w.rng.Intn(len(able))] // skip slots now and then: deactivations, other scores
	}
	com := w.finalityAt(num) && w.rng.Intn(2) == 0
	blk, receipts, err := w.mint(parent, who, com, 0, w.mix(num))
	if err != nil {
		return fmt.Errorf("mint %d by v%d: %w", num, who, err)
	}
	for i, t := range blk.Transactions() {
		w.txs[t.ID()] = txInfo{height: num, reverted: receipts[i].Reverted}
		if os.Getenv("BLOCKRULES_DEBUG") != "" && len(t.Clauses()) == 1 && t.Clauses()[0].To() != nil && *t.Clauses()[0].To() == builtin.Staker.Address {
			fmt.Println("DEBUG", w.prof.name, "block", num, "staker tx reverted:", receipts[i].Reverted, "gas", receipts[i].GasUsed)
		}
	}
	if os.Getenv("BLOCKRULES_DEBUG") != "" {
		st := w.net.God.Stater.NewState(w.summary(blk.Header().ID()).Root())
		ls, _ := builtin.Staker.Native(st).LeaderGroup()
		act, _ := builtin.Staker.Native(st).IsPoSActive()
		fmt.Print("DEBUG ", w.prof.name, " block ", num, " signer ", who, " posActive ", act, " leaders")
		for _, l := range ls {
			fmt.Print(" ", l.Weight, "/", l.Active)
		}
		fmt.Println()
	}
	w.blocks = append(w.blocks, blk)
	return nil
}
