package main

// run.go - feeding blocks to the code under test and recording what it does.
//   fresh : consensus.Process on a new Consensus instance over the node's repository/state
//   warm  : consensus.Process on the node's own instance, which validated every ancestor
//   node  : Node.Deliver = the node-level import (cmd/thor/node/block_exec.go)
// For every call: verdict, error class, panic (recovered, with stack), kvrec digest before/after, best before/after.

import (
	"encoding/hex"
	"fmt"
	"runtime/debug"
	"strings"

	"github.com/ethereum/go-ethereum/rlp"

	"github.com/vechain/thor/v2/block"
	"github.com/vechain/thor/v2/chain"
	"github.com/vechain/thor/v2/consensus"

	"verifharness/internal/kvrec"
	"verifharness/internal/sim"
	"verifharness/internal/trace"
)

type obs struct {
	Verdict string // accept | reject | panic
	Class   string // none | critical | future | plain  (+ node classes: parent-missing | unprocessable | bft-rejected | known)
	Err     string
	Stack   string
}

func classOf(err error) string {
	switch {
	case err == nil:
		return "none"
	case consensus.IsCritical(err):
		return "critical"
	case consensus.IsFutureBlock(err):
		return "future"
	default:
		return "plain"
	}
}

func short(s string) string {
	if len(s) > 200 {
		return s[:200]
	}
	return s
}

func (w *world) process(c *consensus.Consensus, parent *chain.BlockSummary, blk *block.Block, conflicts uint32) (o obs) {
	defer func() {
		if r := recover(); r != nil {
			o = obs{Verdict: "panic", Class: "panic", Err: short(fmt.Sprint(r)), Stack: string(debug.Stack())}
		}
	}()
	_, _, err := c.Process(parent, blk, w.now, conflicts)
	if err != nil {
		return obs{Verdict: "reject", Class: classOf(err), Err: short(err.Error())}
	}
	return obs{Verdict: "accept", Class: "none"}
}

func deliver(n *sim.Node, blk *block.Block) (o obs) {
	defer func() {
		if r := recover(); r != nil {
			if _, ok := r.(kvrec.CrashSentinel); ok {
				panic(r)
			}
			o = obs{Verdict: "panic", Class: "panic", Err: short(fmt.Sprint(r)), Stack: string(debug.Stack())}
		}
	}()
	class, err := n.Deliver(blk)
	switch class {
	case "ok":
		return obs{Verdict: "accept", Class: "none"}
	case "error":
		return obs{Verdict: "reject", Class: classOf(err), Err: short(err.Error())}
	default: // known | parent-missing | unprocessable | bft-rejected | future
		e := ""
		if err != nil {
			e = short(err.Error())
		}
		v := "reject"
		if class == "known" {
			v = "known"
		}
		return obs{Verdict: v, Class: class, Err: e}
	}
}

// runner holds the node under test for one world.
type runner struct {
	w      *world
	victim *sim.Node
	snap   *kvrec.Engine // the victim's store before any case of the current base block
	evs    []trace.Ev
	blobs  []trace.Ev
	nextID int
	stats  map[string]int
}

func newRunner(w *world) *runner {
	return &runner{w: w, victim: w.net.Nodes[0], stats: map[string]int{}}
}

// advance imports the genuine base-chain block into the victim (it must be accepted).
// The import is logged as catalogue entry valid/genuine_base_import: the long-lived (warm) validator and node must take
// the packer's block. If they refuse it, the case is on record and the run goes on with a cold node.
func (r *runner) advance(blk *block.Block) error {
	w := r.w
	parent := w.summary(blk.Header().ParentID())
	r.snap = r.victim.KV.Clone()
	proj, unknown := w.project(parent, blk)
	ev := trace.Ev{"kind": "mutant", "rule": "valid", "var": "genuine_base_import", "goexpect": "accept", "unknown": unknown, "pknown": true}
	for k, x := range proj {
		ev[k] = x
	}
	if r.feed(ev, parent, blk, "advance") {
		return nil
	}
	// feed has put a cold node over the snapshot in place
	o := deliver(r.victim, blk)
	if o.Verdict != "accept" {
		return fmt.Errorf("a cold node refused the genuine base block %d as well: %s %s", blk.Header().Number(), o.Class, o.Err)
	}
	return nil
}

func (r *runner) restoreVictim() error {
	r.victim.Node.VerifClose()
	nd, err := r.w.net.OpenOn(0, r.snap.Clone())
	if err != nil {
		return err
	}
	r.victim = nd
	r.w.net.Nodes[0] = nd
	return nil
}

func hexString(b []byte) string { return hex.EncodeToString(b) }

func blockHex(blk *block.Block) string {
	raw, err := rlp.EncodeToBytes(blk)
	if err != nil {
		return "unencodable: " + err.Error()
	}
	return hex.EncodeToString(raw)
}

// feed runs one block through fresh / warm / node and appends the Case event. parent must be known to the victim.
// onClone: deliver to a node opened over a copy of the victim's store (used when acceptance is expected, so that the
// victim itself stays at the parent).
// mode: "victim" (rejection expected), "clone" (see above), "advance" (the genuine next block: the victim keeps it).
// Returns whether the node accepted.
func (r *runner) feed(ev trace.Ev, parent *chain.BlockSummary, blk *block.Block, mode string) bool {
	onClone := mode == "clone"
	w := r.w
	v := r.victim
	vp, err := v.Repo.GetBlockSummary(parent.Header.ID())
	if err != nil {
		harnessError("victim does not have the parent", err)
	}
	conflicts, err := v.Repo.ScanConflicts(blk.Header().Number())
	if err != nil {
		harnessError(err)
	}
	d0 := v.KV.Digest()
	best0 := v.Repo.BestBlockSummary().Header.ID()
	fresh := w.process(consensus.New(v.Repo, v.Stater, w.net.FC), vp, blk, conflicts)
	warm := w.process(v.Cons, vp, blk, conflicts)
	d1 := v.KV.Digest()
	var node obs
	target := v
	if onClone {
		c, err := w.net.OpenOn(0, v.KV.Clone())
		if err != nil {
			harnessError("open clone", err)
		}
		target = c
		defer c.Node.VerifClose()
	}
	node = deliver(target, blk)
	d2 := target.KV.Digest()
	best2 := target.Repo.BestBlockSummary().Header.ID()

	store := "same"
	if d1 != d0 {
		store = "process-wrote"
	} else if d2 != d0 {
		store = "changed"
	}
	best := "same"
	if best2 != best0 {
		best = "moved"
	}
	ev["e"] = "Case"
	ev["id"] = r.nextID
	ev["prof"] = w.prof.name
	ev["height"], ev["num"] = blk.Header().Number(), limbs(uint64(blk.Header().Number()))
	ev["fresh"], ev["warm"], ev["node"] = fresh.Verdict, warm.Verdict, node.Verdict
	ev["cfresh"], ev["cwarm"], ev["cnode"] = fresh.Class, warm.Class, node.Class
	ev["err"] = strings.Join([]string{fresh.Err, warm.Err, node.Err}, " | ")
	ev["store"], ev["best"] = store, best
	r.evs = append(r.evs, ev)
	blob := trace.Ev{"id": r.nextID, "block": blockHex(blk), "parent": hex.EncodeToString(parent.Header.ID().Bytes())}
	for _, o := range []obs{fresh, warm, node} {
		if o.Stack != "" {
			blob["stack"] = o.Stack
			break
		}
	}
	r.blobs = append(r.blobs, blob)
	r.nextID++
	r.stats["cases"]++
	// a node that accepted (or panicked on) something on the victim itself is no longer "at the parent"
	polluted := node.Verdict != "reject" || d2 != d0
	if mode == "advance" {
		polluted = node.Verdict != "accept"
	}
	if !onClone && polluted {
		if err := r.restoreVictim(); err != nil {
			harnessError("restore victim", err)
		}
	}
	return node.Verdict == "accept"
}

// runCatalogue: every (base block x rule x variant) of one world.
func (r *runner) runCatalogue(bases map[uint32]bool, only string) {
	w := r.w
	cat := catalogue()
	for num := 1; num < len(w.blocks); num++ {
		base := w.blocks[num]
		if bases == nil || bases[uint32(num)] {
			r.snap = r.victim.KV.Clone()
			h := base.Header()
			parent := w.summary(h.ParentID())
			signer, _ := h.Signer()
			res, pr, err := w.execute(parent, signer, fieldsOf(h), base.Transactions())
			if err != nil || !res.ok || res.gasUsed != h.GasUsed() || res.rcptRoot != h.ReceiptsRoot() || res.stateRoot != h.StateRoot() ||
				parent.Header.TotalScore()+pr.score != h.TotalScore() {
				harnessError("executor does not reproduce base block", w.prof.name, num, err)
			}
			c := &mctx{w: w, base: base, parent: parent, num: uint32(num), who: w.net.SignerOf(h), pre: pr, baseRes: res}
			for _, vr := range cat {
				if only != "" && only != vr.rule+":"+vr.name {
					continue
				}
				m := c.fresh()
				if !vr.apply(c, m) {
					continue
				}
				blk, err := c.finalize(m)
				if err != nil {
					harnessError("cannot build mutant", vr.rule, vr.name, err)
				}
				expect := vr.expect
				if expect == "" && vr.rule == "tx_blocklist" { // admissible before the BLOCKLIST fork
					expect = "accept"
					if uint32(num) >= w.net.FC.BLOCKLIST {
						expect = "reject"
					}
				} else if expect == "" { // beneficiary: free unless the staker contract fixes it
					expect = "accept"
					if pr.sbenef != nil {
						expect = "reject"
					}
				}
				if vr.name == "rebuilt_identity" && blk.Header().ID() != h.ID() {
					harnessError("rebuild pipeline does not reproduce the base block id", w.prof.name, num)
				}
				proj, unknown := w.project(parent, blk)
				ev := trace.Ev{"kind": "mutant", "rule": vr.rule, "var": vr.name, "goexpect": expect, "unknown": unknown, "pknown": true}
				for k, x := range proj {
					ev[k] = x
				}
				mode := "victim"
				if expect == "accept" {
					mode = "clone"
				}
				r.feed(ev, parent, blk, mode)
			}
		}
		if err := r.advance(base); err != nil {
			harnessError(err)
		}
	}
}
