package main

// basefee.go - model -> implementation replay of the base-fee cases exported by MC_BlockRulesBaseFee.tla.
// For every case (parent gas limit, gas used, base fee) a PARENT HEADER with exactly these fields is fabricated
// (number 0, the genesis state root, so that its state exists) and correctly signed, fully valid CHILDREN are built on
// it that differ only in their base fee: the value the specification computed, that value +1 / -1, and the value of
// the divide-first transcription. Each child goes through consensus.Process (fresh and warm instance): exactly the
// specification's value may be accepted. The expected value is never computed here (and galactica.CalcBaseFee is
// never called): candidates come from the TLC export, and Trace_BlockRules.tla recomputes the formula for the logged
// parent fields when it judges the BaseFee events.

import (
	"encoding/json"
	"math/big"
	"os"

	"github.com/vechain/thor/v2/block"
	"github.com/vechain/thor/v2/chain"
	"github.com/vechain/thor/v2/consensus"
	"github.com/vechain/thor/v2/thor"
	"github.com/vechain/thor/v2/tx"

	"verifharness/internal/trace"
)

type bfCase struct {
	GL   uint64 `json:"gl"`
	GU   uint64 `json:"gu"`
	BF   []int  `json:"bf"`
	Next []int  `json:"next"`
	Alt  []int  `json:"alt"`
}

func fromLimbs(l []int) *big.Int {
	v := new(big.Int)
	for i := len(l) - 1; i >= 0; i-- {
		v.Lsh(v, 15)
		v.Add(v, big.NewInt(int64(l[i])))
	}
	return v
}

func (r *runner) runBaseFee(path string) {
	w := r.w
	raw, err := os.ReadFile(path)
	if err != nil {
		harnessError("basefee cases", err)
	}
	var cases []bfCase
	if err := json.Unmarshal(raw, &cases); err != nil {
		harnessError("basefee cases", err)
	}
	g0 := w.net.B0.Header()
	v := r.victim
	warm := v.Cons
	for _, c := range cases {
		// the fabricated parent: "a genesis" (number 0) with the case's gas limit / gas used / base fee
		pf := hdrF{TS: g0.Timestamp(), GL: c.GL, GU: c.GU, TxsRoot: tx.Transactions(nil).RootHash(), State: g0.StateRoot(),
			Rcpt: tx.Receipts(nil).RootHash(), BaseFee: fromLimbs(c.BF)}
		pf.Parent[0], pf.Parent[1], pf.Parent[2], pf.Parent[3] = 0xff, 0xff, 0xff, 0xff
		ph, err := pf.header()
		if err != nil {
			harnessError("basefee: parent header", err)
		}
		parent := &chain.BlockSummary{Header: ph}
		who := int(c.GL+c.GU) % nVal
		signer := w.addr(who)
		var ts uint64
		var pr *pre
		for k := uint64(1); k <= 24 && pr == nil; k++ {
			p, err := w.prestate(parent, signer, g0.Timestamp()+k*thor.BlockInterval())
			if err != nil {
				harnessError("basefee: prestate", err)
			}
			if p.owns {
				ts, pr = g0.Timestamp()+k*thor.BlockInterval(), p
			}
		}
		if pr == nil {
			harnessError("basefee: no slot for validator", who)
		}
		alpha, err := expectedAlpha(ph)
		if err != nil {
			harnessError(err)
		}
		next, alt := fromLimbs(c.Next), fromLimbs(c.Alt)
		cands := []struct {
			kind string
			v    *big.Int
		}{{"protocol", next}, {"plus1", new(big.Int).Add(next, big.NewInt(1))}, {"minus1", new(big.Int).Sub(next, big.NewInt(1))}}
		if alt.Cmp(next) != 0 {
			cands = append(cands, struct {
				kind string
				v    *big.Int
			}{"divide_first", alt})
		}
		for _, cd := range cands {
			f := hdrF{Parent: ph.ID(), TS: ts, GL: c.GL, Benef: signer, Score: pr.score, Feat: uint32(tx.DelegationFeature),
				Alpha: alpha, BaseFee: cd.v}
			res, _, err := w.execute(parent, signer, f, nil)
			if err != nil || !res.ok {
				harnessError("basefee: executor", err)
			}
			f.GU, f.Rcpt, f.State, f.TxsRoot = 0, res.rcptRoot, res.stateRoot, tx.Transactions(nil).RootHash()
			blk, err := assemble(f, nil, signSpec{Key: w.key(who), VRF: true})
			if err != nil {
				harnessError("basefee: assemble", err)
			}
			d0 := v.KV.Digest()
			fresh := w.process(consensus.New(v.Repo, v.Stater, w.net.FC), parent, blk, 0)
			wm := w.process(warm, parent, blk, 0)
			store := "same"
			if v.KV.Digest() != d0 {
				store = "process-wrote"
			}
			r.evs = append(r.evs, trace.Ev{"e": "BaseFee", "id": r.nextID, "kind": "basefee", "rule": "base_fee_value", "var": cd.kind,
				"prof": w.prof.name, "height": 1,
				"par": map[string]any{"gl": limbs(c.GL), "gu": limbs(c.GU), "bf": bigLimbs(fromLimbs(c.BF))},
				"cand": bigLimbs(cd.v), "fresh": fresh.Verdict, "warm": wm.Verdict, "cfresh": fresh.Class, "cwarm": wm.Class,
				"err": fresh.Err + " | " + wm.Err, "store": store, "glint": c.GL, "guint": c.GU})
			blob := trace.Ev{"id": r.nextID, "block": blockHex(blk), "parentHeader": headerHex(ph)}
			if fresh.Stack+wm.Stack != "" {
				blob["stack"] = fresh.Stack + wm.Stack
			}
			r.blobs = append(r.blobs, blob)
			r.nextID++
			r.stats["basefee_children"]++
		}
		r.stats["basefee_cases"]++
	}
}

func headerHex(h *block.Header) string {
	f := fieldsOf(h)
	raw, err := f.encode()
	if err != nil {
		return "unencodable"
	}
	return hexString(raw)
}
