package main

// arb.go - structurally arbitrary blocks: byte-level mutations of a valid block decoded through block.Block's RLP
// decoder, random "field soup" headers with extreme values (signed properly or not), weird transaction lists,
// unknown parents. Any panic is an observation; verdicts are judged by the specification where the projection is
// decidable.

import (
	"fmt"
	"math"
	"math/big"
	"math/rand"
	"runtime/debug"

	"github.com/ethereum/go-ethereum/rlp"

	"github.com/vechain/thor/v2/block"
	"github.com/vechain/thor/v2/thor"
	"github.com/vechain/thor/v2/tx"

	"verifharness/internal/trace"
)

var extremes64 = []uint64{0, 1, 2, 9, 10, 11, 1000, 999_999, 1_000_000, 1 << 31, 1<<32 - 1, 1 << 32, 1 << 40, 1<<63 - 1, 1 << 63, math.MaxUint64 - 1, math.MaxUint64}

func (r *runner) decodeBlock(raw []byte) (blk *block.Block, perr string, stack string) {
	defer func() {
		if x := recover(); x != nil {
			blk, perr, stack = nil, fmt.Sprint(x), string(debug.Stack())
		}
	}()
	var b block.Block
	if err := rlp.DecodeBytes(raw, &b); err != nil {
		return nil, "", ""
	}
	// touch the lazily computed parts the import path reads
	_ = b.Header().ID()
	_ = b.Size()
	return &b, "", ""
}

func mutateBytes(rng *rand.Rand, raw []byte) []byte {
	out := append([]byte(nil), raw...)
	for k := 1 + rng.Intn(3); k > 0 && len(out) > 0; k-- {
		i := rng.Intn(len(out))
		switch rng.Intn(7) {
		case 0:
			out[i] ^= 1 << uint(rng.Intn(8))
		case 1:
			out[i] = 0
		case 2:
			out[i] = 0xff
		case 3:
			out = append(out[:i], out[i+1:]...)
		case 4:
			out = append(out[:i], append([]byte{byte(rng.Intn(256))}, out[i:]...)...)
		case 5:
			out = out[:i]
		case 6:
			out[i] = byte(rng.Intn(256))
		}
	}
	return out
}

func pick64(rng *rand.Rand, base uint64) uint64 {
	switch rng.Intn(4) {
	case 0:
		return base + uint64(rng.Intn(3)) - 1
	case 1:
		return rng.Uint64()
	default:
		return extremes64[rng.Intn(len(extremes64))]
	}
}

func randBytes(rng *rand.Rand, n int) []byte {
	b := make([]byte, n)
	rng.Read(b)
	return b
}

// weirdTx makes transactions the templates never produce.
func (w *world) weirdTx(rng *rand.Rand, num uint32) *tx.Transaction {
	o := txOpt{ref: num - 1, exp: 10}
	a := w.addr(4)
	switch rng.Intn(9) {
	case 0: // thousands of clauses
		n := []int{2500, 2000, 1200}[rng.Intn(3)]
		for i := 0; i < n; i++ {
			o.clauses = append(o.clauses, tx.NewClause(&a))
		}
		o.gas = 5000 + uint64(n)*16000
	case 1: // no clause at all
		o.clauses = []*tx.Clause{}
		o.gas = 21000
		b := tx.NewBuilder(tx.TypeLegacy).ChainTag(w.tag).BlockRef(tx.NewBlockRef(o.ref)).Expiration(10).Gas(21000).Nonce(rng.Uint64())
		return tx.MustSign(b.Build(), w.key(4))
	case 2: // huge value
		o.clauses = []*tx.Clause{tx.NewClause(&a).WithValue(new(big.Int).Sub(new(big.Int).Lsh(big.NewInt(1), 256), big.NewInt(1)))}
	case 3: // sum of values overflows 256 bits
		v := new(big.Int).Sub(new(big.Int).Lsh(big.NewInt(1), 256), big.NewInt(1))
		o.clauses = []*tx.Clause{tx.NewClause(&a).WithValue(v), tx.NewClause(&a).WithValue(v)}
	case 4: // gas = max uint64
		o.gas = math.MaxUint64
	case 5: // big data, contract creation with junk init code
		o.clauses = []*tx.Clause{tx.NewClause(nil).WithData(randBytes(rng, 1+rng.Intn(30000)))}
		o.gas = 3_000_000
	case 6: // call into a builtin contract with junk input
		to := thor.BytesToAddress([]byte("Staker"))
		o.clauses = []*tx.Clause{tx.NewClause(&to).WithData(randBytes(rng, rng.Intn(100)))}
		o.gas = 200_000
	case 7:
		o.badSig = true
	case 8:
		o.typ = tx.TypeDynamicFee
	}
	return w.mkTx(o)
}

func (r *runner) runArbitrary(n int, seed int64) {
	w := r.w
	rng := rand.New(rand.NewSource(seed*7919 + int64(len(w.prof.name))))
	parentBlk := w.blocks[len(w.blocks)-1]
	if err := w.extend(); err != nil {
		harnessError("arb: extend", err)
	}
	base := w.blocks[len(w.blocks)-1]
	w.blocks = w.blocks[:len(w.blocks)-1] // the victim never learns it
	for _, t := range base.Transactions() {
		delete(w.txs, t.ID())
	}
	parent := w.summary(parentBlk.Header().ID())
	bh := base.Header()
	who := w.net.SignerOf(bh)
	num := bh.Number()
	baseRaw, err := rlp.EncodeToBytes(base)
	must(err)
	r.snap = r.victim.KV.Clone()
	legit := signSpec{Key: w.key(who), VRF: w.vip214At(num)}

	for i := 0; i < n; i++ {
		var blk *block.Block
		kind := []string{"bytes", "bytes", "soup", "soup", "extreme", "body", "orphan"}[rng.Intn(7)]
		switch kind {
		case "bytes":
			raw := mutateBytes(rng, baseRaw)
			b, perr, stack := r.decodeBlock(raw)
			if perr != "" {
				r.stats["decode_panics"]++
				r.evs = append(r.evs, trace.Ev{"e": "Panic", "id": r.nextID, "prof": w.prof.name, "where": "decode", "err": short(perr)})
				r.blobs = append(r.blobs, trace.Ev{"id": r.nextID, "raw": fmt.Sprintf("%x", raw), "stack": stack})
				r.nextID++
				continue
			}
			if b == nil {
				r.stats["undecodable"]++
				continue
			}
			blk = b
		case "soup", "extreme":
			f := fieldsOf(bh)
			s := legit
			nmut := 1
			if kind == "soup" {
				nmut = 1 + rng.Intn(5)
			}
			for k := 0; k < nmut; k++ {
				switch rng.Intn(14) {
				case 0:
					f.TS = pick64(rng, f.TS)
				case 1:
					f.GL = pick64(rng, f.GL)
				case 2:
					f.GU = pick64(rng, f.GU)
				case 3:
					f.Score = pick64(rng, f.Score)
				case 4:
					f.Feat = uint32(pick64(rng, uint64(f.Feat)))
				case 5:
					f.Benef = thor.BytesToAddress(randBytes(rng, 20))
				case 6:
					f.Alpha = randBytes(rng, []int{0, 1, 31, 32, 33, 64, 1000}[rng.Intn(7)])
				case 7:
					f.COM = !f.COM
				case 8:
					switch rng.Intn(4) {
					case 0:
						f.BaseFee = nil
					case 1:
						f.BaseFee = new(big.Int)
					case 2:
						f.BaseFee = new(big.Int).SetUint64(pick64(rng, thor.InitialBaseFee))
					case 3:
						f.BaseFee = new(big.Int).Lsh(big.NewInt(1), uint(rng.Intn(300)))
					}
				case 9:
					f.State = thor.BytesToBytes32(randBytes(rng, 32))
				case 10:
					f.Rcpt = thor.BytesToBytes32(randBytes(rng, 32))
				case 11:
					f.TxsRoot = thor.BytesToBytes32(randBytes(rng, 32))
				case 12: // signature soup
					if kind == "soup" {
						s = signSpec{RawSet: true, Raw: randBytes(rng, []int{0, 1, 64, 65, 66, 145, 146, 147, 300, 5000}[rng.Intn(10)])}
					} else {
						s.Key = w.key(rng.Intn(10))
					}
				case 13:
					s.VRF = !s.VRF
				}
			}
			b, err := assemble(f, base.Transactions(), s)
			if err != nil {
				r.stats["unbuildable"]++
				continue
			}
			blk = b
		case "body":
			c := &mctx{w: w, base: base, parent: parent, num: num, who: who}
			m := c.fresh()
			for k := 1 + rng.Intn(3); k > 0; k-- {
				switch rng.Intn(5) {
				case 0:
					m.txs = append(m.txs, w.weirdTx(rng, num))
				case 1:
					if len(m.txs) > 0 {
						m.txs = append(m.txs, m.txs[rng.Intn(len(m.txs))])
					}
				case 2:
					rng.Shuffle(len(m.txs), func(i, j int) { m.txs[i], m.txs[j] = m.txs[j], m.txs[i] })
				case 3:
					if len(m.txs) > 0 {
						j := rng.Intn(len(m.txs))
						m.txs = append(m.txs[:j:j], m.txs[j+1:]...)
					}
				case 4:
					m.txs = append(tx.Transactions{w.weirdTx(rng, num)}, m.txs...)
				}
			}
			m.reexec = rng.Intn(4) != 0
			b, err := c.finalize(m)
			if err != nil {
				r.stats["unbuildable"]++
				continue
			}
			blk = b
		case "orphan":
			f := fieldsOf(bh)
			f.Parent = thor.BytesToBytes32(randBytes(rng, 32))
			n := []uint32{num - 1, num, num + 3, 0, math.MaxUint32, math.MaxUint32 - 1}[rng.Intn(6)]
			f.Parent[0], f.Parent[1], f.Parent[2], f.Parent[3] = byte(n>>24), byte(n>>16), byte(n>>8), byte(n)
			b, err := assemble(f, base.Transactions(), legit)
			if err != nil {
				r.stats["unbuildable"]++
				continue
			}
			blk = b
		}
		r.stats["arb_"+kind]++
		ev := trace.Ev{"kind": "arb", "rule": "arbitrary", "var": kind, "goexpect": "any"}
		if blk.Header().ParentID() != parent.Header.ID() {
			r.feedOrphan(ev, blk)
			continue
		}
		proj, unknown := w.project(parent, blk)
		ev["unknown"], ev["pknown"] = unknown, true
		for k, x := range proj {
			ev[k] = x
		}
		r.feed(ev, parent, blk, "victim")
	}
}

// feedOrphan: a block whose parent the node does not have goes to the node-level import only.
func (r *runner) feedOrphan(ev trace.Ev, blk *block.Block) {
	v := r.victim
	d0 := v.KV.Digest()
	best0 := v.Repo.BestBlockSummary().Header.ID()
	node := deliver(v, blk)
	store, best := "same", "same"
	if v.KV.Digest() != d0 {
		store = "changed"
	}
	if v.Repo.BestBlockSummary().Header.ID() != best0 {
		best = "moved"
	}
	ev["e"], ev["id"], ev["prof"], ev["height"] = "Case", r.nextID, r.w.prof.name, blk.Header().Number()
	ev["pknown"], ev["unknown"] = false, false
	ev["fresh"], ev["warm"], ev["node"] = "skipped", "skipped", node.Verdict
	ev["cfresh"], ev["cwarm"], ev["cnode"] = "none", "none", node.Class
	ev["err"], ev["store"], ev["best"] = node.Err, store, best
	r.evs = append(r.evs, ev)
	blob := trace.Ev{"id": r.nextID, "block": blockHex(blk)}
	if node.Stack != "" {
		blob["stack"] = node.Stack
	}
	r.blobs = append(r.blobs, blob)
	r.nextID++
	r.stats["cases"]++
	if node.Verdict != "reject" || store != "same" {
		if err := r.restoreVictim(); err != nil {
			harnessError("restore victim", err)
		}
	}
}
