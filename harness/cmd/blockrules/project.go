package main

// project.go - the abstract projection of a REAL block that Trace_BlockRules.tla judges with the rule catalogue.
// Nothing here looks at how the block was made: the same projection is used for catalogue mutants and for
// structurally arbitrary blocks. Numbers are BigNat limbs (uint64 fields do not fit TLC integers).
//
// Facts taken from trusted primitives / the environment, not from the validator:
//   signer recovery, VRF verification, merkle roots (crypto / hash libraries);
//   slot ownership, expected score, staker-set beneficiary (scheduler + builtin state on the omniscient stack);
//   execution results (runtime on the pre-state, see build.go:execute);
//   "already on chain", "dependency" (the driver's own bookkeeping of the base chain).

import (
	"math/big"

	"github.com/ethereum/go-ethereum/rlp"

	"github.com/vechain/thor/v2/block"
	"github.com/vechain/thor/v2/chain"
	"github.com/vechain/thor/v2/thor"
	"github.com/vechain/thor/v2/tx"

	"verifharness/internal/trace"
)

func limbs(v uint64) []int { return trace.Limbs(new(big.Int).SetUint64(v)) }

func bigLimbs(v *big.Int) []int {
	if v == nil || v.Sign() < 0 {
		return []int{}
	}
	return trace.Limbs(v)
}

func clip(n int, max int) int {
	if n > max {
		return max
	}
	return n
}

// project returns the case fields cfg / par / h / txs and whether some fact the verdict may depend on is unknown.
func (w *world) project(parent *chain.BlockSummary, blk *block.Block) (map[string]any, bool) {
	h := blk.Header()
	ph := parent.Header
	num := ph.Number() + 1
	fc := w.net.FC
	unknown := false

	par := map[string]any{"ts": limbs(ph.Timestamp()), "gl": limbs(ph.GasLimit()), "gu": limbs(ph.GasUsed()), "score": limbs(ph.TotalScore()),
		"bfp": ph.BaseFee() != nil, "bf": bigLimbs(ph.BaseFee())}

	signer, serr := h.Signer()
	var pr *pre
	if serr == nil {
		p, err := w.prestate(parent, signer, h.Timestamp())
		if err != nil {
			unknown = true
		} else {
			pr = p
		}
	}
	// PoS/PoA and the number of proposers are facts of the parent state, independent of the signer
	env, err := w.prestate(parent, thor.Address{}, h.Timestamp())
	pos, nprop := false, 0
	if err == nil {
		pos, nprop = env.pos, env.nprop
	} else {
		unknown = true
	}
	cfg := map[string]any{"vip191": num >= fc.VIP191, "vip214": num >= fc.VIP214, "finality": num >= fc.FINALITY,
		"galactica": num >= fc.GALACTICA, "gfirst": num == fc.GALACTICA, "pos": pos, "nprop": nprop, "blocklist": num >= fc.BLOCKLIST}

	hp := map[string]any{"ts": limbs(h.Timestamp()), "gl": limbs(h.GasLimit()), "gu": limbs(h.GasUsed()), "score": limbs(h.TotalScore()),
		"feat": clip(int(h.TxsFeatures()), 1<<20), "siglen": clip(len(h.Signature()), 1<<20), "com": h.COM(),
		"bfp": h.BaseFee() != nil, "bf": bigLimbs(h.BaseFee()), "alphalen": clip(len(h.Alpha()), 1<<20)}
	hp["sigrec"] = serr == nil
	// "not in the future" depends on the clock: Process gets w.now, the node reads the wall clock (later than w.now,
	// earlier than 2^32). Timestamps in between are not decidable for the node.
	hp["future"] = h.Timestamp() > w.now+thor.BlockInterval()
	if h.Timestamp() > w.now+thor.BlockInterval() && h.Timestamp() < 1<<32 {
		unknown = true
	}
	hp["auth"] = pr != nil && pr.authorised
	hp["owns"] = pr != nil && pr.owns
	hp["escore"] = []int{}
	if pr != nil && pr.owns {
		hp["escore"] = limbs(ph.TotalScore() + pr.score)
	}
	hp["sb"] = "none"
	if pr != nil && pr.sbenef != nil {
		if *pr.sbenef == h.Beneficiary() {
			hp["sb"] = "match"
		} else {
			hp["sb"] = "mismatch"
		}
	}
	// alpha / VRF
	hp["alphaok"] = false
	if num >= fc.VIP214 {
		if ea, err := expectedAlpha(ph); err == nil {
			hp["alphaok"] = sameBytes(ea, h.Alpha())
		} else {
			unknown = true
		}
	}
	hp["vrf"] = vrfGood(h)
	txs := blk.Transactions()
	hp["txsroot"] = h.TxsRoot() == txs.RootHash()

	// execution facts
	var res *execRes
	if pr != nil && pr.authorised && pr.owns {
		r, _, err := w.execute(parent, signer, fieldsOf(h), txs)
		if err == nil {
			res = r
		}
	}
	hp["execknown"] = res != nil && res.ok
	hp["guok"], hp["rcptok"], hp["stateok"] = true, true, true
	if res != nil && res.ok {
		hp["guok"] = res.gasUsed == h.GasUsed()
		hp["rcptok"] = res.rcptRoot == h.ReceiptsRoot()
		hp["stateok"] = res.stateRoot == h.StateRoot()
	}

	var tl []any
	seen := map[thor.Bytes32]int{}
	for i, t := range txs {
		e := map[string]any{"tagok": t.ChainTag() == w.tag, "ref": limbs(uint64(t.BlockRef().Number())), "exp": limbs(uint64(t.Expiration())),
			"typ": "legacy", "feat": clip(int(t.Features()), 1<<20), "gas": 0, "start": true, "startknown": false}
		if t.Type() == tx.TypeDynamicFee {
			e["typ"] = "dyn"
		}
		org, oerr := t.Origin()
		dlg, derr := t.Delegator()
		e["origin"] = oerr == nil && derr == nil
		// the driver's own list: one dev account is on the (mocked) blocklist
		e["blocked"] = (oerr == nil && org == w.addr(blockedDev)) || (derr == nil && dlg != nil && *dlg == w.addr(blockedDev))
		e["unused"] = reservedUnused(t)
		id := t.ID()
		_, dup := seen[id]
		e["dupb"] = dup && oerr == nil
		info, on := w.txs[id]
		e["onchain"] = oerr == nil && on && info.height <= ph.Number()
		e["dep"] = "none"
		if d := t.DependsOn(); d != nil {
			if j, ok := seen[*d]; ok {
				switch {
				case res == nil || j >= len(res.reverted):
					e["dep"] = "unknown"
					unknown = true
				case res.reverted[j]:
					e["dep"] = "reverted"
				default:
					e["dep"] = "ok"
				}
			} else if di, ok := w.txs[*d]; ok && di.height <= ph.Number() {
				if di.reverted {
					e["dep"] = "reverted"
				} else {
					e["dep"] = "ok"
				}
			} else {
				e["dep"] = "missing"
			}
		}
		if oerr == nil {
			if _, ok := seen[id]; !ok {
				seen[id] = i
			}
		}
		if res != nil {
			switch {
			case i < len(res.perTx):
				e["gas"], e["startknown"] = clip(int(res.perTx[i]), 1<<30), true
			case !res.ok && i == res.failIdx:
				e["start"], e["startknown"] = false, true
			}
		}
		tl = append(tl, e)
	}
	if tl == nil {
		tl = []any{}
	}
	// the verdict may hinge on execution facts we do not have (only matters when no known rule is violated)
	if res == nil {
		unknown = true
	}
	return map[string]any{"cfg": cfg, "par": par, "h": hp, "txs": tl}, unknown
}

// reservedUnused counts the filled unused reserved slots of a transaction, read from its canonical encoding:
// the reserved list is the last but one field of both transaction types, its first element is the feature set.
func reservedUnused(t *tx.Transaction) int {
	raw, err := t.MarshalBinary()
	if err != nil || len(raw) == 0 {
		return 0
	}
	if t.Type() != tx.TypeLegacy {
		raw = raw[1:]
	}
	var items []rlp.RawValue
	if err := rlp.DecodeBytes(raw, &items); err != nil || len(items) < 2 {
		return 0
	}
	var res []rlp.RawValue
	if err := rlp.DecodeBytes(items[len(items)-2], &res); err != nil || len(res) < 2 {
		return 0
	}
	return len(res) - 1
}
