package main

// Real websocket subscriptions of api/subscriptions over the run's repository: one Subscriptions handler (hence one
// shared beat / beat2 message cache) mounted on an httptest server, gorilla websocket clients as subscribers.
//
// The server side reads whenever the best block changes, at a moment the client cannot observe; so the driver lets every
// subscription run dry after every AddBlock that moves best (and right after opening one). What a subscription delivered
// between two such points is one SubDrain event: the block ids, obsolete flags (and tx ids for transfer / event
// subscriptions) of the messages in order, and what a subscriber that drops obsolete messages holds afterwards.
// The number of messages to wait for comes from the driver's own bookkeeping of the tree (never from the code under
// test); a subscription that delivers fewer within the deadline, or closes, is logged as an Error event.

import (
	"encoding/json"
	"fmt"
	"net/http"
	"net/http/httptest"
	"strings"
	"time"

	"github.com/ethereum/go-ethereum/event"
	"github.com/gorilla/mux"
	"github.com/gorilla/websocket"

	"github.com/vechain/thor/v2/api/subscriptions"
	"github.com/vechain/thor/v2/thor"
	"github.com/vechain/thor/v2/tx"
	"github.com/vechain/thor/v2/txpool"

	"verifharness/internal/trace"
)

type nopPool struct{}

func (nopPool) Get(thor.Bytes32) *tx.Transaction       { return nil }
func (nopPool) Add(*tx.Transaction) error              { return nil }
func (nopPool) AddLocal(*tx.Transaction) error         { return nil }
func (nopPool) StrictlyAdd(*tx.Transaction) error      { return nil }
func (nopPool) Remove(thor.Bytes32, thor.Bytes32) bool { return false }
func (nopPool) Dump() tx.Transactions                  { return nil }
func (nopPool) Len() int                               { return 0 }
func (nopPool) SubscribeTxEvent(chan *txpool.TxEvent) event.Subscription {
	return event.NewSubscription(func(quit <-chan struct{}) error { <-quit; return nil })
}
func (nopPool) Executables() tx.Transactions { return nil }
func (nopPool) Fill(tx.Transactions)         {}
func (nopPool) Close()                       {}

type subServer struct {
	srv  *httptest.Server
	subs *subscriptions.Subscriptions
}

type logref struct {
	b, t string
}

type wsub struct {
	id    int
	kind  string
	conn  *websocket.Conn
	ch    chan []byte
	pos   *blk // where the driver believes the subscription stands
	heldB []string
	heldL []logref
	dead  bool
	hold  bool // not to be drained right now (its server side is parked in the driver's hands)
	wake  bool // the next drain is the lost-wakeup oracle
}

type wireMsg struct {
	ID       thor.Bytes32 `json:"id"`
	Obsolete bool         `json:"obsolete"`
	Meta     struct {
		BlockID thor.Bytes32 `json:"blockID"`
		TxID    thor.Bytes32 `json:"txID"`
	} `json:"meta"`
}

var subKinds = []string{"block", "beat", "beat2", "transfer", "event"}

func (r *run) server() *subServer {
	if r.ss == nil {
		s := subscriptions.New(r.repo, []string{"*"}, 1000, nopPool{}, true)
		router := mux.NewRouter()
		s.Mount(router, "/subscriptions")
		if havePipeHook {
			// the same pipe, over a reader of the handler's own making that the driver wraps (see wakeup)
			router.HandleFunc("/verifpipe/{kind}", func(w http.ResponseWriter, req *http.Request) {
				pos, err := thor.ParseBytes32(req.URL.Query().Get("pos"))
				must(err)
				inner, err := newHookReader(r.ss, mux.Vars(req)["kind"], pos)
				must(err)
				_ = servePiped(r.ss, w, req, &idleReader{inner: inner, idle: r.idleCh, resume: r.resumeCh})
			})
		}
		r.ss = &subServer{srv: httptest.NewServer(router), subs: s}
	}
	return r.ss
}

func (r *run) closeSubs() {
	for _, s := range r.wsubs {
		if s.conn != nil {
			s.conn.Close()
		}
	}
	if r.ss != nil {
		r.ss.subs.Close()
		r.ss.srv.Close()
	}
}

// quiet waits a moment and then looks for messages nobody should have sent: every subscription has been drained up to
// the best block, so anything that arrives now is an extra or duplicate message.
func (r *run) quiet() {
	live := false
	for _, s := range r.wsubs {
		live = live || !s.dead
	}
	if !live {
		return
	}
	time.Sleep(60 * time.Millisecond)
	for _, s := range r.wsubs {
		if s.dead {
			continue
		}
		select {
		case data, ok := <-s.ch:
			if !ok {
				s.dead = true
				r.fail(fmt.Sprintf("subscription %s r%d", s.kind, s.id), fmt.Errorf("closed by the server while idle"))
				continue
			}
			var m wireMsg
			_ = json.Unmarshal(data, &m)
			id := m.ID
			if isLogKind(s.kind) {
				id = m.Meta.BlockID
			}
			r.emit(trace.Ev{"e": "SubExtra", "r": s.id, "kind": s.kind, "b": r.bname(id), "obs": m.Obsolete})
			s.dead = true
		default:
		}
	}
}

func isLogKind(k string) bool { return k == "transfer" || k == "event" }

// startSub opens a websocket subscription at ?pos=<id of pos> (pos must not be above best: the handler refuses that).
func (r *run) startSub(kind string, pos *blk) { r.startSubAt("/subscriptions/", kind, pos) }

func (r *run) startSubAt(path, kind string, pos *blk) *wsub {
	ss := r.server()
	url := "ws" + strings.TrimPrefix(ss.srv.URL, "http") + path + kind + "?pos=" + pos.id.String()
	conn, resp, err := websocket.DefaultDialer.Dial(url, nil)
	if err != nil {
		if resp == nil {
			must(fmt.Errorf("cannot reach the httptest server: %w", err)) // the harness's own trouble
		}
		// the handler answered, and refused a position that is known and not above best
		r.fail("subscribe "+kind, fmt.Errorf("%v (http %d)", err, resp.StatusCode))
		return nil
	}
	r.subSeq++
	s := &wsub{id: 1000 + r.subSeq, kind: kind, conn: conn, ch: make(chan []byte, 4096), pos: pos}
	for _, b := range r.chainOf(pos) {
		s.heldB = append(s.heldB, b.name)
		for _, t := range b.txs {
			s.heldL = append(s.heldL, logref{b.name, t.name})
		}
	}
	go func() {
		defer close(s.ch)
		for {
			_, data, err := conn.ReadMessage()
			if err != nil {
				return
			}
			s.ch <- data
		}
	}()
	r.wsubs = append(r.wsubs, s)
	r.st.Subs++
	r.emit(trace.Ev{"e": "SubStart", "r": s.id, "kind": kind, "pos": pos.name, "held": append([]string{}, s.heldB...)})
	r.drainSub(s)
	return s
}

// idleReader lets the driver place a block import exactly between a Read that found nothing more and the pipe going to
// sleep: the first time the wrapped reader reports "nothing more" it tells the driver and waits for its go-ahead.
type idleReader struct {
	inner  hookReader
	idle   chan struct{}
	resume chan struct{}
	fired  bool
}

func (ir *idleReader) Read() ([]any, bool, error) {
	msgs, more, err := ir.inner.Read()
	if err == nil && !more && len(msgs) == 0 && !ir.fired {
		ir.fired = true
		ir.idle <- struct{}{}
		<-ir.resume
	}
	return msgs, more, err
}

// wakeup: a subscription that has caught up; a new best block is stored after its Read saw nothing more and before its
// pipe starts waiting; then NO further block. The subscriber must still be told about the new best block (the pipe's
// waiter exists before the Read, so the broadcast is not lost). The bound is wall clock, but generous: three waits of
// 7 s for one message on a loopback connection of an otherwise idle process, with a clock-free probe of the chain reader
// in between.
func (r *run) wakeup(kind string) {
	s := r.startSubAt("/verifpipe/", kind, r.best)
	if s == nil || s.dead {
		return
	}
	select {
	case <-r.idleCh:
	case <-time.After(60 * time.Second):
		must(fmt.Errorf("the wrapped subscription reader never reported an empty read"))
	}
	s.hold = true
	n := r.addBlock(r.best, nil, nil, true)
	s.hold = false
	r.resumeCh <- struct{}{}
	if n == nil {
		return
	}
	r.st.Wakeups++
	s.wake = true
	r.drainSub(s)
	s.wake = false
}

// expected is the driver's own arithmetic on its copy of the tree: blocks from pos back to the fork point with best
// (streamed obsolete), then the best chain above the fork point. Used only to know how many messages to wait for and
// to label a divergence; verdicts come from the trace specification.
func (r *run) expected(pos *blk) (out []*blk, obs []bool) {
	onBest := map[*blk]bool{}
	for x := r.best; x != nil; x = x.parent {
		onBest[x] = true
	}
	x := pos
	for ; !onBest[x]; x = x.parent {
		out = append(out, x)
		obs = append(obs, true)
	}
	var fwd []*blk
	for y := r.best; y != x; y = y.parent {
		fwd = append(fwd, y)
	}
	for i := len(fwd) - 1; i >= 0; i-- {
		out = append(out, fwd[i])
		obs = append(obs, false)
	}
	return
}

func (r *run) drainSub(s *wsub) {
	if s.dead || s.hold {
		return
	}
	eb, eo := r.expected(s.pos)
	want := 0
	for _, b := range eb {
		if isLogKind(s.kind) {
			want += len(b.txs)
		} else {
			want++
		}
	}
	out := []trace.Ev{}
	flagsOnly := true
	k := 0 // index into the expectation (block kinds only)
	deadline := time.After(20 * time.Second)
	for n := 0; n < want; n++ {
		var data []byte
		var ok, timedOut bool
		if s.wake {
			// eventual delivery on a quiescent chain: look three times, 7 s each
			for try := 0; try < 3 && !ok; try++ {
				select {
				case data, ok = <-s.ch:
				case <-time.After(7 * time.Second):
					timedOut = true
				}
				if ok {
					timedOut = false
				} else if !timedOut {
					break // closed
				}
			}
			if timedOut {
				// the chain reader itself, asked without a clock, has the block ready (logged and judged): the message
				// was due and the pipe sleeps
				s.dead = true
				probe := r.startReader(s.pos)
				r.step(probe)
				probe.done = true
				r.emit(trace.Ev{"e": "SubLost", "r": s.id, "kind": s.kind, "pos": s.pos.name, "best": r.best.name, "waited_s": 21})
				return
			}
		} else {
			select {
			case data, ok = <-s.ch:
			case <-deadline:
				timedOut = true
			}
		}
		if timedOut {
			// Wall clock only: nothing the server sent is wrong. Ask the code under test directly, without a clock: a
			// chain.BlockReader at the same position, one Read, logged and judged like any other read. If that is fine
			// the stall is the machine's (Stall event -> the run is set aside as infrastructure trouble).
			s.dead = true
			r.st.Stalls++
			probe := r.startReader(s.pos)
			r.step(probe)
			probe.done = true
			r.emit(trace.Ev{"e": "Stall", "r": s.id, "kind": s.kind, "got": n, "want": want, "pos": s.pos.name, "best": r.best.name})
			return
		}
		if !ok {
			// the server closed the connection although messages were due
			s.dead = true
			r.emitDrain(s, out, false)
			r.fail(fmt.Sprintf("subscription %s r%d", s.kind, s.id),
				fmt.Errorf("closed by the server after %d of %d messages due from %s to best %s", n, want, s.pos.name, r.best.name))
			return
		}
		var m wireMsg
		if err := json.Unmarshal(data, &m); err != nil {
			r.fail("subscription message", err)
			s.dead = true
			return
		}
		r.st.SubMsgs++
		if isLogKind(s.kind) {
			bn, tn := r.bname(m.Meta.BlockID), "unknown"
			if r.tids.Known(m.Meta.TxID[:]) {
				tn = r.tids.Name(m.Meta.TxID[:])
			}
			out = append(out, trace.Ev{"b": bn, "obs": m.Obsolete, "t": tn})
			if m.Obsolete {
				kept := s.heldL[:0:0]
				for _, l := range s.heldL {
					if !(l.b == bn && l.t == tn) {
						kept = append(kept, l)
					}
				}
				s.heldL = kept
			} else {
				s.heldL = append(s.heldL, logref{bn, tn})
			}
		} else {
			bn := r.bname(m.ID)
			out = append(out, trace.Ev{"b": bn, "obs": m.Obsolete})
			if k < len(eb) && eb[k].name != bn {
				flagsOnly = false
			}
			k++
			if m.Obsolete {
				r.st.SubObsolete++
				kept := s.heldB[:0:0]
				for _, x := range s.heldB {
					if x != bn {
						kept = append(kept, x)
					}
				}
				s.heldB = kept
			} else {
				s.heldB = append(s.heldB, bn)
			}
		}
	}
	_ = eo
	s.pos = r.best
	r.emitDrain(s, out, flagsOnly)
}

func (r *run) emitDrain(s *wsub, out []trace.Ev, sameIDs bool) {
	ev := trace.Ev{"e": "SubDrain", "r": s.id, "kind": s.kind, "out": out, "sameids": sameIDs}
	if isLogKind(s.kind) {
		h := []trace.Ev{}
		for _, l := range s.heldL {
			h = append(h, trace.Ev{"b": l.b, "t": l.t})
		}
		ev["held"] = h
	} else {
		ev["held"] = append([]string{}, s.heldB...)
	}
	r.emit(ev)
}

func (r *run) drainSubs() {
	for _, s := range r.wsubs {
		r.drainSub(s)
	}
}
